(* Proofs about Codec/Model_RepDef.v.

   Structure:
   1. Spec: a model-independent description of what a stack of builder calls MEANS ([spec_layers]):
      per layer the effective validity (AND-ed with the enclosing layers) and the normalized offsets.
   2. Abstract serializer on tagged entries ([ent], [sv], [slist]); refinement of the buffer-level model
      ([record_layers] on [ctx]) to it (Theorem A).
   3. Unraveler: per-layer lemmas and the round trip by induction on the stack (Theorem B).
   4. Known-finding classes and the main theorem.
   5. Control words.  *)
From LanceV Require Import Common.Base Codec.Model_RepDef.
Local Open Scope N_scope.

(* ============================================================================================== *)
(* 0. small generic lemmas                                                                          *)

Lemma bind_ok {A B} (x : outcome A) (f : A -> outcome B) (b : B) :
  bind x f = Ok b -> exists a, x = Ok a /\ f a = Ok b.
Proof. destruct x; cbn; intros H; try discriminate. eauto. Qed.

Lemma assert_true b : assert_ b = Ok tt <-> b = true.
Proof. destruct b; cbn; split; intros; congruence. Qed.

Lemma repeat_app_comm {A} (x : A) n l : repeat x n ++ x :: l = x :: repeat x n ++ l.
Proof. induction n; cbn; [reflexivity|]. rewrite IHn. reflexivity. Qed.

Lemma map_repeat' {A B} (f : A -> B) x n : map f (repeat x n) = repeat (f x) n.
Proof. induction n; cbn; [reflexivity|]. rewrite IHn. reflexivity. Qed.

Lemma rev_repeat {A} (x : A) n : rev (repeat x n) = repeat x n.
Proof.
  induction n; cbn; [reflexivity|]. rewrite IHn.
  replace (repeat x n ++ [x]) with (repeat x n ++ x :: []) by reflexivity.
  rewrite repeat_app_comm, app_nil_r. reflexivity.
Qed.

(* ============================================================================================== *)
(* 1. Spec                                                                                          *)

Fixpoint map2 {A B C} (f : A -> B -> C) (l1 : list A) (l2 : list B) : list C :=
  match l1, l2 with
  | a :: t1, b :: t2 => f a b :: map2 f t1 t2
  | _, _ => []
  end.

Fixpoint prefix_sums (acc : N) (l : list N) : list N :=
  match l with [] => [acc] | x :: t => acc :: prefix_sums (acc + x) t end.

Fixpoint sorted (l : list N) : bool :=
  match l with
  | a :: ((b :: _) as t) => (a <=? b) && sorted t
  | _ => true
  end.

(* per list: (valid, normalized length) *)
Definition list_info (offs : list N) (v : option (list bool)) : list (bool * N) :=
  let lens := windows_len offs in
  match v with
  | Some vs => map2 (fun (b : bool) (l : N) => (b, if b then l else 0)) vs lens
  | None => map (fun l => (true, l)) lens
  end.

(* [mask]: for every slot of the layer, whether all enclosing layers are valid there.
   Returns the per-layer outputs, outermost first; None if the calls are not well formed. *)
Fixpoint spec_layers (mask : list bool) (cs : list call) : option (list layer_out) :=
  match cs with
  | [] => Some []
  | CValidity v :: cs' =>
      if Nat.eqb (length v) (length mask) then
        let eff := map2 andb mask v in
        option_map (cons (Some eff, None)) (spec_layers eff cs')
      else None
  | CNoNull n :: cs' =>
      if Nat.eqb n (length mask) then option_map (cons (None, None)) (spec_layers mask cs') else None
  | COffsets offs v :: cs' =>
      let info := list_info offs v in
      if sorted offs && Nat.eqb (length offs) (S (length mask))
         && match v with Some vs => Nat.eqb (length vs) (length mask) | None => true end
         (* lists behind a null ancestor are empty once normalized *)
         && forallb (fun '(m, (_, len)) => m || (len =? 0)) (combine mask info)
      then
        let norm := prefix_sums 0 (map snd info) in
        let items := N.to_nat (last norm 0) in
        option_map (cons (option_map (fun _ => map2 andb mask (map fst info)) v, Some norm))
                   (spec_layers (repeat true items) cs')
      else None
  | CFsl v dim n :: cs' =>
      if Nat.eqb n (length mask) && match v with Some vs => Nat.eqb (length vs) n | None => true end then
        let eff := match v with Some vs => map2 andb mask vs | None => mask end in
        option_map (cons (option_map (fun _ => eff) v, None))
                   (spec_layers (flat_map (fun b => repeat b dim) eff) cs')
      else None
  end.

Definition call_slots (c : call) : nat :=
  match c with
  | CValidity v => length v | CNoNull n => n | COffsets offs _ => (length offs - 1)%nat | CFsl _ _ n => n
  end.

Definition spec_top (cs : list call) : option (list layer_out) :=
  match cs with
  | [] => None
  | c :: _ => spec_layers (repeat true (call_slots c)) cs
  end.

(* ============================================================================================== *)
(* 2. Abstract serializer                                                                           *)

Inductive ent := Slot (r d : N) | Spec (r d : N).

Definition e_rep (e : ent) : N := match e with Slot r _ | Spec r _ => r end.
Definition e_def (e : ent) : N := match e with Slot _ d | Spec _ d => d end.
Definition enc_def (e : ent) : N := match e with Slot _ d => d | Spec _ d => d + SPECIAL_THRESHOLD end.
Definition is_slot (e : ent) : bool := match e with Slot _ _ => true | Spec _ _ => false end.

Definition slots (es : list ent) : nat := length (filter is_slot es).
Definition specs (es : list ent) : nat := length (filter (fun e => negb (is_slot e)) es).

(* do_record_validity *)
Fixpoint sv (vs : list bool) (nl : N) (es : list ent) : list ent :=
  match es with
  | [] => []
  | Spec r d :: t => Spec r d :: sv vs nl t
  | Slot r d :: t =>
      match vs with
      | v :: vs' => Slot r (if (d =? 0) && negb v then nl else d) :: sv vs' nl t
      | [] => Slot r d :: sv [] nl t
      end
  end.

(* the record_offsets loop *)
Fixpoint so (lens : list N) (rl el : N) (es : list ent) : list ent :=
  match es with
  | [] => []
  | Spec r d :: t => Spec r d :: so lens rl el t
  | Slot r d :: t =>
      match lens with
      | len :: lens' =>
          let ll := if r =? 0 then rl else r in
          (if (d =? 0) && (0 <? len) then Slot ll 0 :: repeat (Slot 0 0) (N.to_nat (len - 1))
           else if d =? 0 then [Spec ll el]
           else [Spec ll d]) ++ so lens' rl el t
      | [] => Slot r d :: so [] rl el t
      end
  end.

(* multiply_levels *)
Fixpoint sm (m : nat) (es : list ent) : list ent :=
  match es with
  | [] => []
  | Spec r d :: t => Spec r d :: sm m t
  | Slot r d :: t => repeat (Slot r d) m ++ sm m t
  end.

(* abstract context: entries, current_rep, current_def, meanings (outer first) *)
Definition astate := (list ent * N * N * list meaning)%type.

Definition a_validity (v : option (list bool)) (st : astate) : astate :=
  let '(es, cr, cd, ms) := st in
  match v with
  | Some vs => (sv vs cd es, cr, cd - 1, ms ++ [NullableItem])
  | None => (es, cr, cd, ms ++ [AllValidItem])
  end.

Definition a_layer (r : raw) (st : astate) : astate :=
  match r with
  | RValidity v _ => a_validity v st
  | RFsl v dim _ => let '(es, cr, cd, ms) := a_validity v st in (sm dim es, cr, cd, ms)
  | ROffsets o v he _ _ =>
      let '(es, cr, cd, ms) := st in
      let '(m, nl, el) :=
        match is_some v, he with
        | true, true => (NullableAndEmptyableList, cd - 1, cd)
        | true, false => (NullableList, cd, 0)
        | false, true => (EmptyableList, 0, cd)
        | false, false => (AllValidList, 0, 0)
        end in
      let es1 := match v with Some vs => sv vs nl es | None => es end in
      (so (windows_len o) cr el es1, cr - 1, cd - num_def_levels m, ms ++ [m])
  end.

Definition a_layers (rs : list raw) (st : astate) : astate := fold_left (fun s r => a_layer r s) rs st.

Definition a_init (rows : nat) (rs : list raw) : astate :=
  (repeat (Slot 0 0) rows, sumN (map raw_max_rep rs), sumN (map raw_max_def rs), []).

(* the serialized output the abstract state denotes *)
Definition a_serialized (rs : list raw) (st : astate) : serialized :=
  let '(es, _, _, ms) := st in
  let max_rep := sumN (map raw_max_rep rs) in
  let max_def := sumN (map raw_max_def rs) in
  serialized_new (if 0 <? max_rep then Some (map e_rep es) else None)
                 (if 0 <? max_def then Some (map e_def es) else None)
                 (rev ms).

Definition info_special (x : bool * N) : bool := let '(b, l) := x in negb b || (l =? 0).
Definition info_empty (x : bool * N) : bool := let '(b, l) := x in b && (l =? 0).

(* raw layer of a call given the builder length so far (what apply_call pushes) *)
Definition raw_of_call (c : call) : raw :=
  match c with
  | CValidity v => RValidity (Some v) (length v)
  | CNoNull n => RValidity None n
  | CFsl v dim n => RFsl v dim n
  | COffsets offs v =>
      let info := list_info offs v in
      let norm := prefix_sums 0 (map snd info) in
      let sp := length (filter info_special info) in
      let he := existsb info_empty info in
      ROffsets norm v he (length norm - 1) sp
  end.

(* ---------------------------------------------------------------------------------------------- *)
(* 2.1 entries: basic facts                                                                        *)

Definition all_spec (l : list ent) : Prop := Forall (fun e => is_slot e = false) l.
Definition ent_enc_ok (e : ent) : Prop :=
  match e with Slot _ d => d <= SPECIAL_THRESHOLD | Spec _ d => 1 <= d end.

Lemma enc_special e : ent_enc_ok e -> is_special (enc_def e) = negb (is_slot e).
Proof.
  unfold is_special, SPECIAL_THRESHOLD. destruct e as [r d|r d]; cbn [enc_def is_slot negb ent_enc_ok]; intros H.
  - apply N.ltb_ge. exact H.
  - apply N.ltb_lt. unfold SPECIAL_THRESHOLD. lia.
Qed.

Lemma slots_app a b : slots (a ++ b) = (slots a + slots b)%nat.
Proof. unfold slots. rewrite filter_app, app_length. reflexivity. Qed.
Lemma specs_app a b : specs (a ++ b) = (specs a + specs b)%nat.
Proof. unfold specs. rewrite filter_app, app_length. reflexivity. Qed.
Lemma slots_cons_slot r d t : slots (Slot r d :: t) = S (slots t).
Proof. reflexivity. Qed.
Lemma slots_cons_spec r d t : slots (Spec r d :: t) = slots t.
Proof. reflexivity. Qed.
Lemma specs_cons_slot r d t : specs (Slot r d :: t) = specs t.
Proof. reflexivity. Qed.
Lemma specs_cons_spec r d t : specs (Spec r d :: t) = S (specs t).
Proof. reflexivity. Qed.

Lemma slots_specs_length es : (slots es + specs es)%nat = length es.
Proof.
  induction es as [|[r d|r d] t IH]; [reflexivity| |].
  - rewrite slots_cons_slot, specs_cons_slot. cbn [length]. lia.
  - rewrite slots_cons_spec, specs_cons_spec. cbn [length]. lia.
Qed.

Lemma all_spec_slots l : all_spec l -> slots l = O.
Proof.
  induction 1 as [|e t He _ IH]; [reflexivity|]. destruct e; cbn in He; [discriminate|].
  rewrite slots_cons_spec. exact IH.
Qed.
Lemma all_spec_specs l : all_spec l -> specs l = length l.
Proof. intros H. pose proof (slots_specs_length l). rewrite (all_spec_slots l H) in *. lia. Qed.

Lemma slots_zero_all_spec es : slots es = O -> all_spec es.
Proof.
  induction es as [|[r d|r d] t IH]; intros H.
  - constructor.
  - rewrite slots_cons_slot in H. discriminate.
  - rewrite slots_cons_spec in H. constructor; [reflexivity | exact (IH H)].
Qed.

Lemma split_first_slot es n : slots es = S n ->
  exists pre r d rest, es = pre ++ Slot r d :: rest /\ all_spec pre /\ slots rest = n.
Proof.
  induction es as [|[r d|r d] t IH]; intros H.
  - discriminate.
  - exists [], r, d, t. rewrite slots_cons_slot in H. repeat split; [constructor | congruence].
  - rewrite slots_cons_spec in H. destruct (IH H) as (pre & r' & d' & rest & E & Hp & Hs).
    exists (Spec r d :: pre), r', d', rest. subst t. repeat split; [constructor; [reflexivity|exact Hp] | exact Hs].
Qed.

Lemma sv_pre vs nl pre l : all_spec pre -> sv vs nl (pre ++ l) = pre ++ sv vs nl l.
Proof.
  induction 1 as [|e t He _ IH]; [reflexivity|]. destruct e; cbn in He; [discriminate|].
  cbn [app sv]. rewrite IH. reflexivity.
Qed.
Lemma sv_all_spec vs nl l : all_spec l -> sv vs nl l = l.
Proof. intros H. rewrite <- (app_nil_r l) at 1. rewrite sv_pre by exact H. cbn. apply app_nil_r. Qed.
Lemma so_pre lens rl el pre l : all_spec pre -> so lens rl el (pre ++ l) = pre ++ so lens rl el l.
Proof.
  induction 1 as [|e t He _ IH]; [reflexivity|]. destruct e; cbn in He; [discriminate|].
  cbn [app so]. rewrite IH. reflexivity.
Qed.
Lemma so_all_spec lens rl el l : all_spec l -> so lens rl el l = l.
Proof. intros H. rewrite <- (app_nil_r l) at 1. rewrite so_pre by exact H. cbn. apply app_nil_r. Qed.

Lemma sv_length vs nl es : length (sv vs nl es) = length es.
Proof.
  revert vs; induction es as [|[r d|r d] t IH]; intros vs; [reflexivity| |].
  - destruct vs; cbn [sv length]; rewrite IH; reflexivity.
  - cbn [sv length]. rewrite IH. reflexivity.
Qed.
Lemma sv_slots vs nl es : slots (sv vs nl es) = slots es.
Proof.
  revert vs; induction es as [|[r d|r d] t IH]; intros vs; [reflexivity| |].
  - destruct vs; cbn [sv]; rewrite !slots_cons_slot, IH; reflexivity.
  - cbn [sv]. rewrite !slots_cons_spec, IH. reflexivity.
Qed.
Lemma sv_specs vs nl es : specs (sv vs nl es) = specs es.
Proof. pose proof (slots_specs_length (sv vs nl es)). pose proof (slots_specs_length es).
  rewrite sv_length, sv_slots in *. lia. Qed.

Lemma sv_rep vs nl es : map e_rep (sv vs nl es) = map e_rep es.
Proof.
  revert vs; induction es as [|[r d|r d] t IH]; intros vs; [reflexivity| |].
  - destruct vs; cbn [sv map e_rep]; rewrite IH; reflexivity.
  - cbn [sv map e_rep]. rewrite IH. reflexivity.
Qed.

Lemma sv_enc_ok vs nl es : nl <= SPECIAL_THRESHOLD -> Forall ent_enc_ok es -> Forall ent_enc_ok (sv vs nl es).
Proof.
  intros Hnl H. revert vs. induction H as [|e t He _ IH]; intros vs; [constructor|].
  destruct e as [r d|r d].
  - destruct vs as [|v vs']; cbn [sv]; constructor; try apply IH; cbn in *; [exact He|].
    destruct ((d =? 0) && negb v); [exact Hnl | exact He].
  - cbn [sv]. constructor; [exact He | apply IH].
Qed.

(* ---------------------------------------------------------------------------------------------- *)
(* 2.2 the read/write loops of do_record_validity                                                  *)

Lemma skip_def_pre pre d0 rest w p :
  all_spec pre -> Forall ent_enc_ok pre -> is_special d0 = false ->
  skip_def (map enc_def pre ++ d0 :: rest) w p = Ok (d0, rest, rev (map enc_def pre) ++ w, (p + length pre)%nat).
Proof.
  intros Hs Hok Hd. revert w p. induction pre as [|e t IH]; intros w p.
  - cbn. rewrite Hd. rewrite Nat.add_0_r. reflexivity.
  - inversion Hs as [|? ? He Hs']; subst. inversion Hok as [|? ? Ho Hok']; subst.
    cbn [map app skip_def]. rewrite (enc_special e Ho), He. cbn [negb].
    rewrite (IH Hs' Hok'). cbn [rev length]. rewrite <- app_assoc. cbn [app].
    f_equal. f_equal. lia.
Qed.

Lemma copy_n_all (l : list N) r w : copy_n (length l) (l ++ r) w = Ok (r, rev l ++ w).
Proof.
  revert w; induction l as [|x t IH]; intros w; [reflexivity|].
  cbn [length app copy_n]. rewrite IH. cbn [rev]. rewrite <- app_assoc. reflexivity.
Qed.

Lemma drv_loop_spec nl : forall vs es w p junk,
  Forall ent_enc_ok es -> slots es = length vs ->
  exists body tr, es = body ++ tr /\ all_spec tr /\
    drv_loop vs nl (map enc_def es ++ junk) w p
      = Ok (map enc_def tr ++ junk, rev (map enc_def (sv vs nl body)) ++ w, (p + specs body)%nat).
Proof.
  induction vs as [|v vs IH]; intros es w p junk Hok Hsl.
  - exists [], es. split; [reflexivity|]. split; [apply slots_zero_all_spec; exact Hsl|].
    cbn. rewrite Nat.add_0_r. reflexivity.
  - cbn [length] in Hsl. destruct (split_first_slot es _ Hsl) as (pre & r & d & rest & E & Hpre & Hrest). subst es.
    apply Forall_app in Hok as [Hokpre Hok2]. inversion Hok2 as [|? ? Hslot Hokrest]; subst.
    destruct (IH rest ((if (d =? 0) && negb v then nl else d) :: rev (map enc_def pre) ++ w) (p + length pre)%nat junk Hokrest Hrest)
      as (body & tr & E & Htr & Hloop).
    exists (pre ++ Slot r d :: body), tr. subst rest. split; [rewrite <- app_assoc; reflexivity|]. split; [exact Htr|].
    cbn [drv_loop]. rewrite map_app, <- app_assoc. cbn [map app enc_def].
    rewrite skip_def_pre; [|exact Hpre|exact Hokpre|].
    2:{ unfold is_special. apply N.ltb_ge. exact Hslot. }
    cbn [bind]. rewrite Hloop. f_equal. f_equal; [f_equal|].
    + rewrite sv_pre by exact Hpre. cbn [sv]. rewrite map_app. cbn [map enc_def]. rewrite rev_app_distr. cbn [rev].
      rewrite <- !app_assoc. cbn [app]. reflexivity.
    + rewrite specs_app, specs_cons_slot, (all_spec_specs pre Hpre). lia.
Qed.

Lemma commit_ok w spare : (length w <= length spare)%nat -> commit w spare = Ok (rev w ++ skipn (length w) spare).
Proof. intros H. unfold commit. apply Nat.leb_le in H. rewrite H. reflexivity. Qed.

Lemma sv_app_trail vs nl body tr : all_spec tr -> sv vs nl (body ++ tr) = sv vs nl body ++ tr.
Proof.
  intros Ht. revert vs. induction body as [|[r d|r d] t IH]; intros vs.
  - cbn [app]. apply sv_all_spec. exact Ht.
  - destruct vs; cbn [app sv]; rewrite IH; reflexivity.
  - cbn [app sv]. rewrite IH. reflexivity.
Qed.

(* ---------------------------------------------------------------------------------------------- *)
(* 2.3 the context invariant                                                                       *)

Record cinv (hr hd : bool) (total : nat) (c : ctx) (es : list ent) (cr cd : N) (ms : list meaning) (cl : nat) : Prop := {
  cv_rep : if hr then exists j, c_rep c = map e_rep es ++ j /\ length (c_rep c) = total /\ length (c_srep c) = total
           else c_rep c = [] /\ c_srep c = [];
  cv_def : if hd then exists j, c_def c = map enc_def es ++ j /\ length (c_def c) = total /\ length (c_sdef c) = total
           else c_def c = [] /\ c_sdef c = [] /\ Forall (fun e => e = Slot (e_rep e) 0) es;
  cv_specs : c_specials c = specs es;
  cv_len : c_len c = cl;
  cv_enc : Forall ent_enc_ok es;
  cv_cr : c_cur_rep c = cr;
  cv_cd : c_cur_def c = cd;
  cv_ms : c_meaning c = ms }.

Lemma drv_ok hr total c es cr cd ms cl v nl :
  cinv hr true total c es cr cd ms cl ->
  slots es = length v -> nl <= SPECIAL_THRESHOLD ->
  (cl = 0 \/ cl = length v + specs es)%nat ->
  (length es <= total)%nat ->
  exists c', do_record_validity c v nl = Ok c' /\ cinv hr true total c' (sv v nl es) cr cd ms (length v + specs es).
Proof.
  intros [Hrep Hdef Hsp Hlen Henc Hcr Hcd Hms] Hsl Hnl Hcl Htot.
  destruct Hdef as (j & Ed & Ld & Lsd).
  unfold do_record_validity.
  pose proof (slots_specs_length es) as Hss.
  replace (Nat.leb (length v + c_specials c) (length (c_def c))) with true
    by (symmetry; apply Nat.leb_le; rewrite Hsp, Ld; lia).
  cbn [assert_ bind].
  replace (Nat.eqb (c_len c) 0 || Nat.eqb (c_len c) (length v + c_specials c)) with true.
  2:{ symmetry. apply orb_true_iff. rewrite Hlen, Hsp. destruct Hcl as [->| ->]; [left|right]; apply Nat.eqb_refl. }
  cbn [assert_ bind].
  destruct (drv_loop_spec nl v es [] O j Henc Hsl) as (body & tr & E & Htr & Hloop).
  rewrite Ed, Hloop. cbn [bind].
  assert (Hsp2 : (c_specials c - (0 + specs body) = length (map enc_def tr))%nat).
  { rewrite Hsp, E, specs_app, (all_spec_specs tr Htr), map_length. lia. }
  rewrite Hsp2, copy_n_all. cbn [bind].
  assert (Hw : rev (map enc_def tr) ++ rev (map enc_def (sv v nl body)) ++ [] = rev (map enc_def (sv v nl es))).
  { rewrite app_nil_r, E, sv_app_trail by exact Htr. rewrite map_app, rev_app_distr. reflexivity. }
  rewrite Hw. rewrite commit_ok.
  2:{ rewrite rev_length, map_length, sv_length, Lsd. exact Htot. }
  cbn [bind]. eexists. split; [reflexivity|].
  constructor; cbn [c_rep c_srep c_def c_sdef c_specials c_len c_cur_rep c_cur_def c_meaning]; try assumption.
  - destruct hr; [|exact Hrep]. rewrite sv_rep. exact Hrep.
  - rewrite rev_involutive. eexists. split; [reflexivity|]. split; [|rewrite <- Ed; exact Ld].
    rewrite app_length, skipn_length, !rev_length, !map_length, sv_length. lia.
  - rewrite sv_specs. exact Hsp.
  - rewrite Hsp. reflexivity.
  - apply sv_enc_ok; assumption.
Qed.

(* ---------------------------------------------------------------------------------------------- *)
(* 2.4 record_offsets loops                                                                        *)

(* every slot paired with the input element it consumes *)
Fixpoint slot_pairs {A} (es : list ent) (xs : list A) : list (N * N * A) :=
  match es with
  | [] => []
  | Spec _ _ :: t => slot_pairs t xs
  | Slot r d :: t => match xs with x :: xs' => (r, d, x) :: slot_pairs t xs' | [] => [] end
  end.

Lemma slot_pairs_pre {A} pre l (xs : list A) : all_spec pre -> slot_pairs (pre ++ l) xs = slot_pairs l xs.
Proof.
  induction 1 as [|e t He _ IH]; [reflexivity|]. destruct e; cbn in He; [discriminate|]. cbn [app slot_pairs]. exact IH.
Qed.

Lemma slot_pairs_nil {A} es : @slot_pairs A es [] = [].
Proof. induction es as [|[r d|r d] t IH]; [reflexivity|reflexivity|exact IH]. Qed.

Definition so_el_ok (el : N) (es : list ent) (lens : list N) : Prop :=
  Forall (fun '(_, d, len) => d = 0 -> len = 0 -> 1 <= el) (slot_pairs es lens).

Lemma so_enc_ok lens rl el es :
  so_el_ok el es lens -> Forall ent_enc_ok es -> Forall ent_enc_ok (so lens rl el es).
Proof.
  unfold so_el_ok. intros Hel H. revert lens Hel. induction H as [|e t He _ IH]; intros lens Hel; [constructor|].
  destruct e as [r d|r d].
  - destruct lens as [|len lens']; cbn [so].
    + constructor; [exact He | apply IH; rewrite slot_pairs_nil; constructor].
    + cbn [slot_pairs] in Hel. inversion Hel as [|? ? H1 H2]; subst.
      apply Forall_app. split; [|apply IH; exact H2].
      destruct (d =? 0) eqn:Ed; cbn [andb].
      * destruct (0 <? len) eqn:El.
        -- constructor; [cbn; unfold SPECIAL_THRESHOLD; lia|]. apply Forall_forall. intros x Hx.
           apply repeat_spec in Hx. subst x. cbn. unfold SPECIAL_THRESHOLD. lia.
        -- constructor; [|constructor]. cbn. apply H1; [apply N.eqb_eq; exact Ed|]. apply N.ltb_ge in El. lia.
      * constructor; [|constructor]. cbn in *. apply N.eqb_neq in Ed. lia.
  - cbn [so]. constructor; [exact He | apply IH; exact Hel].
Qed.

Lemma skip_both_pre pre d0 drest rrest dw rw nl p :
  all_spec pre -> Forall ent_enc_ok pre -> is_special d0 = false ->
  skip_both (map enc_def pre ++ d0 :: drest) (map e_rep pre ++ rrest) dw rw nl p
  = Ok (d0, drest, rrest, rev (map enc_def pre) ++ dw, rev (map e_rep pre) ++ rw, (nl + length pre)%nat, (p + length pre)%nat).
Proof.
  intros Hs Hok Hd. revert dw rw nl p. induction pre as [|e t IH]; intros dw rw nl p.
  - cbn. rewrite Hd, !Nat.add_0_r. reflexivity.
  - inversion Hs as [|? ? He Hs']; subst. inversion Hok as [|? ? Ho Hok']; subst.
    cbn [map app skip_both]. rewrite (enc_special e Ho), He. cbn [negb].
    rewrite (IH Hs' Hok'). cbn [rev length]. rewrite <- !app_assoc. cbn [app].
    rewrite !Nat.add_succ_r. cbn [Nat.add]. reflexivity.
Qed.

Lemma push_zeros_eq k x w : 0 < k -> push_zeros k (x :: w) = rev (x :: zeros (N.to_nat (k - 1))) ++ w.
Proof.
  intros _. unfold push_zeros, zeros. cbn [rev]. rewrite rev_repeat, <- app_assoc. reflexivity.
Qed.

Lemma so_app_trail lens rl el body tr : all_spec tr -> so lens rl el (body ++ tr) = so lens rl el body ++ tr.
Proof.
  intros Ht. revert lens. induction body as [|[r d|r d] t IH]; intros lens.
  - cbn [app]. apply so_all_spec. exact Ht.
  - destruct lens; cbn [app so]; rewrite IH; [reflexivity|]. rewrite app_assoc. reflexivity.
  - cbn [app so]. rewrite IH. reflexivity.
Qed.

Lemma map_enc_chunk ll k : map enc_def (Slot ll 0 :: repeat (Slot 0 0) k) = 0 :: zeros k.
Proof. cbn [map enc_def]. unfold zeros. rewrite map_repeat'. reflexivity. Qed.
Lemma map_rep_chunk ll k : map e_rep (Slot ll 0 :: repeat (Slot 0 0) k) = ll :: zeros k.
Proof. cbn [map e_rep]. unfold zeros. rewrite map_repeat'. reflexivity. Qed.
Lemma length_chunk ll len : 0 < len -> length (Slot ll 0 :: repeat (Slot 0 0) (N.to_nat (len - 1))) = N.to_nat len.
Proof. intros H. cbn [length]. rewrite repeat_length. lia. Qed.

Lemma ro_def_spec rl el : forall lens es dw rw nl p jd jr,
  Forall ent_enc_ok es -> slots es = length lens ->
  exists body tr, es = body ++ tr /\ all_spec tr /\
    ro_def lens rl el (map enc_def es ++ jd) (map e_rep es ++ jr) dw rw nl p
      = Ok (map enc_def tr ++ jd, map e_rep tr ++ jr,
            rev (map enc_def (so lens rl el body)) ++ dw, rev (map e_rep (so lens rl el body)) ++ rw,
            (nl + length (so lens rl el body))%nat, (p + specs body)%nat).
Proof.
  induction lens as [|len lens IH]; intros es dw rw nl p jd jr Hok Hsl.
  - exists [], es. split; [reflexivity|]. split; [apply slots_zero_all_spec; exact Hsl|].
    cbn. rewrite !Nat.add_0_r. reflexivity.
  - cbn [length] in Hsl. destruct (split_first_slot es _ Hsl) as (pre & r & d & rest & E & Hpre & Hrest). subst es.
    apply Forall_app in Hok as [Hokpre Hok2]. inversion Hok2 as [|? ? Hslot Hokrest]; subst.
    set (ll := if r =? 0 then rl else r).
    set (chunk := if (d =? 0) && (0 <? len) then Slot ll 0 :: repeat (Slot 0 0) (N.to_nat (len - 1))
                  else if d =? 0 then [Spec ll el] else [Spec ll d]).
    destruct (IH rest (rev (map enc_def chunk) ++ rev (map enc_def pre) ++ dw)
                      (rev (map e_rep chunk) ++ rev (map e_rep pre) ++ rw)
                      (nl + length pre + length chunk)%nat (p + length pre)%nat jd jr Hokrest Hrest)
      as (body & tr & E & Htr & Hloop).
    exists (pre ++ Slot r d :: body), tr. subst rest. split; [rewrite <- app_assoc; reflexivity|]. split; [exact Htr|].
    cbn [ro_def]. rewrite !map_app, <- !app_assoc. cbn [map app enc_def e_rep].
    rewrite skip_both_pre; [|exact Hpre|exact Hokpre|].
    2:{ unfold is_special. apply N.ltb_ge. exact Hslot. }
    cbn [bind]. fold ll.
    assert (Hso : so (len :: lens) rl el (pre ++ Slot r d :: body) = pre ++ chunk ++ so lens rl el body).
    { rewrite so_pre by exact Hpre. cbn [so]. fold ll. reflexivity. }
    rewrite Hso. rewrite !map_app, !rev_app_distr, !app_length, <- !app_assoc.
    rewrite !map_app, <- !app_assoc in Hloop.
    destruct (d =? 0) eqn:Ed; cbn [andb] in *.
    + destruct (0 <? len) eqn:El.
      * apply N.ltb_lt in El.
        rewrite !push_zeros_eq by exact El. subst chunk.
        rewrite map_enc_chunk, map_rep_chunk, length_chunk in * by exact El.
        rewrite Hloop. f_equal. f_equal; [f_equal|].
        -- lia.
        -- rewrite specs_app, specs_cons_slot, (all_spec_specs pre Hpre). lia.
      * subst chunk. cbn [map enc_def e_rep rev app] in *.
        replace (S (nl + length pre)) with (nl + length pre + length [Spec ll el])%nat by (cbn; lia).
        rewrite Hloop. f_equal. f_equal; [f_equal|].
        -- cbn [length]. lia.
        -- rewrite specs_app, specs_cons_slot, (all_spec_specs pre Hpre). lia.
    + subst chunk. cbn [map enc_def e_rep rev app] in *.
      replace (S (nl + length pre)) with (nl + length pre + length [Spec ll d])%nat by (cbn; lia).
      rewrite Hloop. f_equal. f_equal; [f_equal|].
      * cbn [length]. lia.
      * rewrite specs_app, specs_cons_slot, (all_spec_specs pre Hpre). lia.
Qed.

Lemma copy_both_all (ld lr : list N) jd jr dw rw : length ld = length lr ->
  copy_both (length ld) (ld ++ jd) (lr ++ jr) dw rw = Ok (rev ld ++ dw, rev lr ++ rw).
Proof.
  revert lr dw rw. induction ld as [|x t IH]; intros [|y lr] dw rw H; try discriminate; [reflexivity|].
  cbn [length app copy_both]. rewrite IH by (cbn in H; lia). cbn [rev]. rewrite <- !app_assoc. reflexivity.
Qed.

Lemma so_length_ge lens rl el es : (length es <= length (so lens rl el es))%nat.
Proof.
  revert lens. induction es as [|[r d|r d] t IH]; intros lens; [cbn; lia| |].
  - destruct lens as [|len lens']; cbn [so length]; [specialize (IH []); lia|].
    rewrite app_length. specialize (IH lens').
    destruct ((d =? 0) && (0 <? len)); [|destruct (d =? 0)]; cbn [length]; lia.
  - cbn [so length]. specialize (IH lens). lia.
Qed.

(* the part of record_offsets after the optional do_record_validity *)
Definition ro_tail (c3 : ctx) (lens : list N) (rl el : N) (num_values num_specials : nat) : outcome ctx :=
  do _ <- assert_ (negb (Nat.eqb (num_values + c_specials c3) 0));
  do _ <- assert_ (Nat.leb (num_values + c_specials c3 - 1) (length (c_rep c3)));
  if is_nil (c_def c3) then
    do '(w, new_len) <- ro_nodef lens rl (c_rep c3) [] O;
    do nr <- commit w (c_srep c3);
    Ok (set_bufs c3 nr (c_rep c3) (c_def c3) (c_sdef c3) new_len (c_specials c3 + num_specials))
  else
    do _ <- assert_ (Nat.leb (num_values + c_specials c3 - 1) (length (c_def c3)));
    do '(dr, rr, dw, rw, new_len, passed) <- ro_def lens rl el (c_def c3) (c_rep c3) [] [] O O;
    do '(dw', rw') <- copy_both (c_specials c3 - passed) dr rr dw rw;
    let new_len' := (new_len + (c_specials c3 - passed))%nat in
    do nd <- commit dw' (c_sdef c3);
    do nr <- commit rw' (c_srep c3);
    Ok (set_bufs c3 nr (c_rep c3) nd (c_def c3) new_len' (c_specials c3 + num_specials)).

Lemma ro_tail_def_ok total c es cr cd ms cl lens rl el nv nsp :
  cinv true true total c es cr cd ms cl ->
  slots es = length lens -> nv = length lens -> (1 <= length es)%nat ->
  so_el_ok el es lens ->
  (length (so lens rl el es) <= total)%nat ->
  specs (so lens rl el es) = (specs es + nsp)%nat ->
  exists c', ro_tail c lens rl el nv nsp = Ok c' /\
    cinv true true total c' (so lens rl el es) cr cd ms (length (so lens rl el es)).
Proof.
  intros [Hrep Hdef Hsp Hlen Henc Hcr Hcd Hms] Hsl Hnv H1 Hel Htot Hnsp.
  destruct Hdef as (jd & Ed & Ld & Lsd). destruct Hrep as (jr & Er & Lr & Lsr).
  pose proof (slots_specs_length es) as Hss. pose proof (so_length_ge lens rl el es) as Hge.
  unfold ro_tail.
  replace (negb (Nat.eqb (nv + c_specials c) 0)) with true
    by (symmetry; apply negb_true_iff, Nat.eqb_neq; rewrite Hsp; lia).
  cbn [assert_ bind].
  replace (Nat.leb (nv + c_specials c - 1) (length (c_rep c))) with true
    by (symmetry; apply Nat.leb_le; rewrite Hsp, Lr; lia).
  cbn [assert_ bind].
  assert (Hnil : is_nil (c_def c) = false).
  { destruct (c_def c) eqn:E; [|reflexivity]. cbn in Ld. lia. }
  rewrite Hnil.
  replace (Nat.leb (nv + c_specials c - 1) (length (c_def c))) with true
    by (symmetry; apply Nat.leb_le; rewrite Hsp, Ld; lia).
  cbn [assert_ bind].
  destruct (ro_def_spec rl el lens es [] [] O O jd jr Henc Hsl) as (body & tr & E & Htr & Hloop).
  rewrite Ed, Er, Hloop. cbn [bind].
  assert (Hsp2 : (c_specials c - (0 + specs body) = length (map enc_def tr))%nat).
  { rewrite Hsp, E, specs_app, (all_spec_specs tr Htr), map_length. lia. }
  rewrite Hsp2, copy_both_all by (rewrite !map_length; reflexivity). cbn [bind].
  assert (Hso : so lens rl el es = so lens rl el body ++ tr) by (rewrite E; apply so_app_trail; exact Htr).
  assert (Hwd : rev (map enc_def tr) ++ rev (map enc_def (so lens rl el body)) ++ [] = rev (map enc_def (so lens rl el es))).
  { rewrite app_nil_r, Hso, map_app, rev_app_distr. reflexivity. }
  assert (Hwr : rev (map e_rep tr) ++ rev (map e_rep (so lens rl el body)) ++ [] = rev (map e_rep (so lens rl el es))).
  { rewrite app_nil_r, Hso, map_app, rev_app_distr. reflexivity. }
  rewrite Hwd, Hwr.
  rewrite !commit_ok by (rewrite rev_length, map_length; lia).
  cbn [bind]. eexists. split; [reflexivity|].
  constructor; cbn [set_bufs c_rep c_srep c_def c_sdef c_specials c_len c_cur_rep c_cur_def c_meaning]; try assumption.
  - rewrite rev_involutive. eexists. split; [reflexivity|]. split; [|rewrite <- Er; exact Lr].
    rewrite app_length, skipn_length, !rev_length, !map_length. lia.
  - rewrite rev_involutive. eexists. split; [reflexivity|]. split; [|rewrite <- Ed; exact Ld].
    rewrite app_length, skipn_length, !rev_length, !map_length. lia.
  - rewrite Hnsp, Hsp. reflexivity.
  - rewrite map_length. rewrite Hso, app_length. lia.
  - apply so_enc_ok; assumption.
Qed.

Definition plain (e : ent) : Prop := e = Slot (e_rep e) 0.

Lemma plain_specs es : Forall plain es -> specs es = O /\ slots es = length es.
Proof.
  induction 1 as [|e t He _ [IH1 IH2]]; [split; reflexivity|]. rewrite He.
  rewrite specs_cons_slot, slots_cons_slot. cbn [length]. split; [exact IH1 | rewrite IH2; reflexivity].
Qed.

Lemma so_plain lens rl el es : Forall plain es -> length es = length lens -> Forall (fun l => 0 < l) lens ->
  Forall plain (so lens rl el es).
Proof.
  intros H. revert lens. induction H as [|e t He _ IH]; intros lens Hlen Hpos; [constructor|].
  rewrite He. destruct lens as [|len lens']; [discriminate|]. cbn [so].
  inversion Hpos as [|? ? Hl Hpos']; subst. apply N.ltb_lt in Hl. rewrite N.eqb_refl, Hl. cbn [andb].
  apply Forall_app. split; [|apply IH; [cbn in Hlen; lia | exact Hpos']].
  constructor; [reflexivity|]. apply Forall_forall. intros x Hx. apply repeat_spec in Hx. subst x. reflexivity.
Qed.

Lemma ro_nodef_spec rl el : forall lens es w nl jr,
  Forall plain es -> length es = length lens -> Forall (fun l => 0 < l) lens ->
  ro_nodef lens rl (map e_rep es ++ jr) w nl
  = Ok (rev (map e_rep (so lens rl el es)) ++ w, (nl + length (so lens rl el es))%nat).
Proof.
  induction lens as [|len lens IH]; intros es w nl jr Hp Hlen Hpos.
  - destruct es; [|discriminate]. cbn. rewrite Nat.add_0_r. reflexivity.
  - destruct es as [|e t]; [discriminate|]. inversion Hp as [|? ? He Hp']; subst.
    inversion Hpos as [|? ? Hl Hpos']; subst. rewrite He.
    cbn [map app e_rep ro_nodef so].
    assert (El : len =? 0 = false) by (apply N.eqb_neq; lia). rewrite El.
    apply N.ltb_lt in Hl. rewrite N.eqb_refl, Hl. cbn [andb]. apply N.ltb_lt in Hl.
    rewrite push_zeros_eq by exact Hl.
    rewrite IH; [|exact Hp'|cbn in Hlen; lia|exact Hpos'].
    rewrite map_app, rev_app_distr, map_rep_chunk, app_length, length_chunk by exact Hl.
    rewrite <- app_assoc. f_equal. f_equal. lia.
Qed.

Lemma ro_tail_nodef_ok total c es cr cd ms cl lens rl el nv nsp :
  cinv true false total c es cr cd ms cl ->
  length es = length lens -> nv = length lens -> (1 <= length es)%nat ->
  Forall (fun l => 0 < l) lens -> nsp = O ->
  (length (so lens rl el es) <= total)%nat ->
  exists c', ro_tail c lens rl el nv nsp = Ok c' /\
    cinv true false total c' (so lens rl el es) cr cd ms (length (so lens rl el es)).
Proof.
  intros [Hrep Hdef Hsp Hlen Henc Hcr Hcd Hms] Hsl Hnv H1 Hpos Hnsp Htot.
  destruct Hdef as (Ed & Esd & Hplain). destruct Hrep as (jr & Er & Lr & Lsr).
  destruct (plain_specs es Hplain) as [Hs0 Hsl2].
  pose proof (so_length_ge lens rl el es) as Hge.
  unfold ro_tail.
  replace (negb (Nat.eqb (nv + c_specials c) 0)) with true
    by (symmetry; apply negb_true_iff, Nat.eqb_neq; rewrite Hsp; lia).
  cbn [assert_ bind].
  replace (Nat.leb (nv + c_specials c - 1) (length (c_rep c))) with true
    by (symmetry; apply Nat.leb_le; rewrite Hsp, Lr; lia).
  cbn [assert_ bind]. rewrite Ed. cbn [is_nil].
  rewrite Er, (ro_nodef_spec rl el lens es [] O jr Hplain Hsl Hpos). cbn [bind].
  rewrite app_nil_r, commit_ok by (rewrite rev_length, map_length; lia).
  cbn [bind]. eexists. split; [reflexivity|].
  pose proof (so_plain lens rl el es Hplain Hsl Hpos) as Hplain2.
  constructor; cbn [set_bufs c_rep c_srep c_def c_sdef c_specials c_len c_cur_rep c_cur_def c_meaning]; try assumption.
  - rewrite rev_involutive. eexists. split; [reflexivity|]. split; [|rewrite <- Er; exact Lr].
    rewrite app_length, skipn_length, !rev_length, !map_length. lia.
  - repeat split; assumption.
  - rewrite Hnsp, Hsp, Hs0. destruct (plain_specs _ Hplain2) as [-> _]. reflexivity.
  - reflexivity.
  - apply Forall_forall. intros x Hx. rewrite Forall_forall in Hplain2. rewrite (Hplain2 x Hx). cbn. unfold SPECIAL_THRESHOLD. lia.
Qed.

(* ---------------------------------------------------------------------------------------------- *)
(* 2.5 layers: preconditions under which the buffer model follows the abstract serializer          *)

Definition list_levels (v : option (list bool)) (he : bool) (cd : N) : meaning * N * N :=
  match is_some v, he with
  | true, true => (NullableAndEmptyableList, cd - 1, cd)
  | true, false => (NullableList, cd, 0)
  | false, true => (EmptyableList, 0, cd)
  | false, false => (AllValidList, 0, 0)
  end.

Definition layer_pre (hr hd : bool) (total : nat) (r : raw) (es : list ent) (cr cd : N) (cl : nat) : Prop :=
  match r with
  | RValidity None _ => True
  | RValidity (Some v) _ =>
      hd = true /\ slots es = length v /\ cd <= SPECIAL_THRESHOLD /\ (cl = 0 \/ cl = length v + specs es)%nat
      /\ (length es <= total)%nat
  | RFsl _ _ _ => False
  | ROffsets o v he n sp =>
      let '(m, nl, el) := list_levels v he cd in
      let lens := windows_len o in
      let es1 := match v with Some vs => sv vs nl es | None => es end in
      hr = true /\ slots es = length lens /\ n = length lens /\ (1 <= length es)%nat /\ (length es <= total)%nat /\
      match v with
      | Some vs => hd = true /\ length vs = n /\ nl <= SPECIAL_THRESHOLD /\ (cl = 0 \/ cl = n + specs es)%nat
      | None => True
      end /\
      (if hd then so_el_ok el es1 lens else Forall (fun l => 0 < l) lens /\ sp = O) /\
      (length (so lens cr el es1) <= total)%nat /\ specs (so lens cr el es1) = (specs es + sp)%nat
  end.

(* current_len after the layer *)
Definition layer_len (r : raw) (st : astate) (cl : nat) : nat :=
  match r with
  | RValidity None _ => cl
  | RValidity (Some v) _ => let '(es, _, _, _) := st in (length v + specs es)%nat
  | RFsl _ _ _ => cl
  | ROffsets _ _ _ _ _ => let '(es, _, _, _) := a_layer r st in length es
  end.

Fixpoint layers_pre (hr hd : bool) (total : nat) (rs : list raw) (st : astate) (cl : nat) : Prop :=
  match rs with
  | [] => True
  | r :: rs' =>
      let '(es, cr, cd, _) := st in
      layer_pre hr hd total r es cr cd cl /\ layers_pre hr hd total rs' (a_layer r st) (layer_len r st cl)
  end.
Fixpoint layers_len (rs : list raw) (st : astate) (cl : nat) : nat :=
  match rs with
  | [] => cl
  | r :: rs' => layers_len rs' (a_layer r st) (layer_len r st cl)
  end.

Lemma checkout_cinv hr hd total c es cr cd ms cl m :
  cinv hr hd total c es cr cd ms cl ->
  snd (checkout_def c m) = cd /\ cinv hr hd total (fst (checkout_def c m)) es cr (cd - num_def_levels m) (ms ++ [m]) cl.
Proof.
  intros [Hrep Hdef Hsp Hlen Henc Hcr Hcd Hms]. unfold checkout_def. cbn [fst snd]. split; [exact Hcd|].
  constructor; cbn [c_rep c_srep c_def c_sdef c_specials c_len c_cur_rep c_cur_def c_meaning]; try assumption; congruence.
Qed.

Lemma record_layer_ok hr hd total c r es cr cd ms cl :
  cinv hr hd total c es cr cd ms cl ->
  layer_pre hr hd total r es cr cd cl ->
  exists c', record_layer c r = Ok c' /\
    let '(es', cr', cd', ms') := a_layer r (es, cr, cd, ms) in
    cinv hr hd total c' es' cr' cd' ms' (layer_len r (es, cr, cd, ms) cl).
Proof.
  intros Hc Hpre. destruct r as [o v he n sp | v n | v dim n]; cbn [layer_pre] in Hpre; [| |contradiction].
  - (* offsets *)
    cbn [record_layer layer_len a_layer].
    unfold record_offsets.
    assert (Hlv : (match is_some v, he with
                   | true, true => let '(c', level) := checkout_def c NullableAndEmptyableList in (c', level - 1, level)
                   | true, false => let '(c', level) := checkout_def c NullableList in (c', level, 0)
                   | false, true => let '(c', level) := checkout_def c EmptyableList in (c', 0, level)
                   | false, false => let '(c', _) := checkout_def c AllValidList in (c', 0, 0)
                   end) = (fst (checkout_def c (fst (fst (list_levels v he cd)))), snd (fst (list_levels v he cd)), snd (list_levels v he cd))).
    { pose proof (cv_cd _ _ _ _ _ _ _ _ _ Hc) as Hcd. unfold list_levels.
      destruct (is_some v), he; unfold checkout_def; cbn [fst snd]; rewrite Hcd; reflexivity. }
    rewrite Hlv. clear Hlv.
    destruct (list_levels v he cd) as [[m nl] el] eqn:Elv. cbn [fst snd] in *.
    destruct Hpre as (Hhr & Hsl & Hn & H1 & Hle & Hv & Hel & Htot & Hsp). subst hr.
    destruct (checkout_cinv _ _ _ _ _ _ _ _ _ m Hc) as [_ Hc1].
    set (c1 := fst (checkout_def c m)) in *.
    set (c2 := {| c_meaning := c_meaning c1; c_rep := c_rep c1; c_srep := c_srep c1; c_def := c_def c1; c_sdef := c_sdef c1;
                  c_cur_rep := c_cur_rep c1 - 1; c_cur_def := c_cur_def c1; c_len := c_len c1; c_specials := c_specials c1 |}).
    assert (Hc2 : cinv true hd total c2 es (cr - 1) (cd - num_def_levels m) (ms ++ [m]) cl).
    { destruct Hc1 as [Hrep Hdef Hsp' Hlen Henc Hcr Hcd Hms]. subst c2.
      constructor; cbn [c_rep c_srep c_def c_sdef c_specials c_len c_cur_rep c_cur_def c_meaning]; try assumption.
      rewrite Hcr. reflexivity. }
    assert (Hrl : c_cur_rep c = cr) by (apply (cv_cr _ _ _ _ _ _ _ _ _ Hc)). rewrite Hrl.
    fold (ro_tail).
    change (do c3 <- match v with Some v0 => do_record_validity c2 v0 nl | None => Ok c2 end;
            ro_tail c3 (windows_len o) cr el n sp) with
      (bind (match v with Some v0 => do_record_validity c2 v0 nl | None => Ok c2 end)
            (fun c3 => ro_tail c3 (windows_len o) cr el n sp)).
    destruct v as [vs|].
    + destruct Hv as (Hhd & Hlv & Hnl & Hcl). subst hd.
      destruct (drv_ok true total c2 es (cr - 1) (cd - num_def_levels m) (ms ++ [m]) cl vs nl Hc2) as (c3 & E3 & Hc3);
        [congruence | exact Hnl | rewrite Hlv; exact Hcl | exact Hle |].
      rewrite E3. cbn [bind].
      destruct (ro_tail_def_ok total c3 (sv vs nl es) (cr - 1) (cd - num_def_levels m) (ms ++ [m]) (length vs + specs es)%nat
                               (windows_len o) cr el n sp Hc3) as (c' & E' & Hc');
        [rewrite sv_slots; exact Hsl | exact Hn | rewrite sv_length; exact H1 | exact Hel | exact Htot
        | rewrite sv_specs; exact Hsp |].
      exists c'. split; [exact E'|]. unfold list_levels in Elv. cbn [is_some] in *.
      destruct he; inversion Elv; subst; exact Hc'.
    + cbn [bind]. destruct hd.
      * destruct (ro_tail_def_ok total c2 es (cr - 1) (cd - num_def_levels m) (ms ++ [m]) cl
                               (windows_len o) cr el n sp Hc2) as (c' & E' & Hc'); try assumption.
        exists c'. split; [exact E'|]. unfold list_levels in Elv. cbn [is_some] in *.
        destruct he; inversion Elv; subst; exact Hc'.
      * destruct Hel as [Hpos Hsp0].
        assert (Hplain : Forall plain es) by (destruct Hc2 as [_ (_ & _ & Hp) _ _ _ _ _ _]; exact Hp).
        destruct (plain_specs es Hplain) as [_ Hsl2].
        destruct (ro_tail_nodef_ok total c2 es (cr - 1) (cd - num_def_levels m) (ms ++ [m]) cl
                               (windows_len o) cr el n sp Hc2) as (c' & E' & Hc'); try assumption; [congruence|].
        exists c'. split; [exact E'|]. unfold list_levels in Elv. cbn [is_some] in *.
        destruct he; inversion Elv; subst; exact Hc'.
  - (* validity *)
    cbn [record_layer]. unfold record_validity_buf. destruct v as [vs|].
    + destruct Hpre as (Hhd & Hsl & Hcd & Hcl & Hle). subst hd.
      destruct (checkout_cinv _ _ _ _ _ _ _ _ _ NullableItem Hc) as [Hlevel Hc1].
      destruct (checkout_def c NullableItem) as [c1 level] eqn:Eco. cbn [fst snd] in *. subst level.
      destruct (drv_ok hr total c1 es cr (cd - 1) (ms ++ [NullableItem]) cl vs cd Hc1 Hsl Hcd Hcl Hle) as (c' & E' & Hc').
      exists c'. split; [exact E'|]. cbn [a_layer a_validity layer_len]. exact Hc'.
    + destruct (checkout_cinv _ _ _ _ _ _ _ _ _ AllValidItem Hc) as [_ Hc1].
      eexists. split; [reflexivity|]. cbn [a_layer a_validity layer_len num_def_levels] in *.
      rewrite N.sub_0_r in Hc1. exact Hc1.
Qed.

Lemma record_layers_ok hr hd total : forall rs c es cr cd ms cl,
  cinv hr hd total c es cr cd ms cl ->
  layers_pre hr hd total rs (es, cr, cd, ms) cl ->
  exists c', record_layers c rs = Ok c' /\
    let '(es', cr', cd', ms') := a_layers rs (es, cr, cd, ms) in
    cinv hr hd total c' es' cr' cd' ms' (layers_len rs (es, cr, cd, ms) cl).
Proof.
  induction rs as [|r rs IH]; intros c es cr cd ms cl Hc Hpre.
  - exists c. split; [reflexivity|]. exact Hc.
  - cbn [layers_pre] in Hpre. destruct Hpre as [Hp1 Hp2].
    destruct (record_layer_ok _ _ _ _ _ _ _ _ _ _ Hc Hp1) as (c1 & E1 & Hc1).
    cbn [record_layers]. rewrite E1. cbn [bind].
    unfold a_layers. cbn [fold_left layers_len]. fold (a_layers rs (a_layer r (es, cr, cd, ms))).
    destruct (a_layer r (es, cr, cd, ms)) as [[[es1 cr1] cd1] ms1] eqn:E.
    exact (IH c1 es1 cr1 cd1 ms1 _ Hc1 Hp2).
Qed.

(* ============================================================================================== *)
(* 3. Unraveler                                                                                     *)

(* counts over meaning lists *)
Fixpoint mlev (ms : list meaning) : N := match ms with [] => 0 | m :: t => num_def_levels m + mlev t end.
Definition m_real_list (m : meaning) : bool :=
  match m with NullableList | EmptyableList | NullableAndEmptyableList => true | _ => false end.
Fixpoint mrc (ms : list meaning) : N := match ms with [] => 0 | m :: t => (if m_real_list m then 1 else 0) + mrc t end.
Fixpoint mlists (ms : list meaning) : N := match ms with [] => 0 | m :: t => (if m_is_list m then 1 else 0) + mlists t end.

Lemma mlev_app a b : mlev (a ++ b) = mlev a + mlev b.
Proof. induction a as [|m t IH]; cbn [app mlev]; [reflexivity|]. rewrite IH. lia. Qed.
Lemma mrc_app a b : mrc (a ++ b) = mrc a + mrc b.
Proof. induction a as [|m t IH]; cbn [app mrc]; [reflexivity|]. rewrite IH. lia. Qed.
Lemma mlists_app a b : mlists (a ++ b) = mlists a + mlists b.
Proof. induction a as [|m t IH]; cbn [app mlists]; [reflexivity|]. rewrite IH. lia. Qed.
Lemma mlev_rev a : mlev (rev a) = mlev a.
Proof. induction a as [|m t IH]; [reflexivity|]. cbn [rev mlev]. rewrite mlev_app, IH. cbn [mlev]. lia. Qed.
Lemma mrc_rev a : mrc (rev a) = mrc a.
Proof. induction a as [|m t IH]; [reflexivity|]. cbn [rev mrc]. rewrite mrc_app, IH. cbn [mrc]. lia. Qed.
Lemma mlists_rev a : mlists (rev a) = mlists a.
Proof. induction a as [|m t IH]; [reflexivity|]. cbn [rev mlists]. rewrite mlists_app, IH. cbn [mlists]. lia. Qed.
Lemma mrc_le_mlists a : mrc a <= mlists a.
Proof. induction a as [|m t IH]; cbn [mrc mlists]; [lia|]. destruct m; cbn; lia. Qed.

Lemma l2r_aux_app a b rc : levels_to_rep_aux (a ++ b) rc = levels_to_rep_aux a rc ++ levels_to_rep_aux b (rc + mrc a).
Proof.
  revert rc. induction a as [|m t IH]; intros rc; cbn [app mrc].
  - rewrite N.add_0_r. reflexivity.
  - destruct m; cbn [levels_to_rep_aux m_real_list]; rewrite IH; cbn [app]; rewrite ?N.add_0_l, ?N.add_assoc; reflexivity.
Qed.
Lemma l2r_aux_length a rc : length (levels_to_rep_aux a rc) = N.to_nat (mlev a).
Proof.
  revert rc. induction a as [|m t IH]; intros rc; [reflexivity|].
  destruct m; cbn [levels_to_rep_aux mlev num_def_levels length]; rewrite IH; lia.
Qed.
Lemma l2r_aux_bound a rc : Forall (fun x => x <= rc + mrc a) (levels_to_rep_aux a rc).
Proof.
  revert rc. induction a as [|m t IH]; intros rc; [constructor|].
  destruct m; cbn [levels_to_rep_aux mrc m_real_list];
    repeat (constructor; [lia|]);
    (eapply Forall_impl; [|apply IH]); cbn; intros; lia.
Qed.

(* the level table of a stack whose innermost part is [a] *)
Lemma l2r_low a rest j :
  j <= mlev a -> exists x, nth_error (levels_to_rep (a ++ rest)) (N.to_nat j) = Some x /\ x <= mrc a.
Proof.
  intros Hj. unfold levels_to_rep. destruct (N.to_nat j) as [|k] eqn:Ej.
  - exists 0. split; [reflexivity|lia].
  - cbn [nth_error]. rewrite l2r_aux_app.
    assert (Hk : (k < length (levels_to_rep_aux a 0))%nat) by (rewrite l2r_aux_length; lia).
    rewrite nth_error_app1 by exact Hk.
    destruct (nth_error (levels_to_rep_aux a 0) k) as [x|] eqn:En; [|apply nth_error_None in En; lia].
    exists x. split; [reflexivity|]. apply nth_error_In in En.
    pose proof (l2r_aux_bound a 0) as Hb. rewrite Forall_forall in Hb. specialize (Hb x En). lia.
Qed.

Lemma l2r_at a m rest k :
  (k < N.to_nat (num_def_levels m))%nat ->
  nth_error (levels_to_rep (a ++ m :: rest)) (N.to_nat (mlev a) + 1 + k)
  = Some (if m_real_list m then mrc a + 1 else mrc a).
Proof.
  intros Hk. unfold levels_to_rep. replace (N.to_nat (mlev a) + 1 + k)%nat with (S (N.to_nat (mlev a) + k)) by lia.
  cbn [nth_error]. rewrite l2r_aux_app, nth_error_app2 by (rewrite l2r_aux_length; lia).
  rewrite l2r_aux_length. replace (N.to_nat (mlev a) + k - N.to_nat (mlev a))%nat with k by lia.
  rewrite N.add_0_l.
  destruct m; cbn [num_def_levels] in Hk; cbn [levels_to_rep_aux m_real_list];
    try (exfalso; lia); destruct k as [|[|k]]; try (exfalso; cbn in Hk; lia); reflexivity.
Qed.

(* ---------------------------------------------------------------------------------------------- *)
(* 3.1 relation between the unraveler's level buffers and the abstract entries                     *)

(* definition level [du] held by the unraveler for entry [e], when [b] levels have been unravelled *)
Definition reld (b : N) (du : N) (e : ent) : Prop :=
  match e with
  | Slot _ d => if d =? 0 then du <= b else du = d
  | Spec _ d => du = d
  end.

Lemma reld_slot0 b du r : reld b du (Slot r 0) <-> du <= b.
Proof. cbn [reld]. change (0 =? 0) with true. cbn iota. reflexivity. Qed.

Lemma reld_mono b1 b2 du e : b1 <= b2 -> reld b1 du e -> reld b2 du e.
Proof. intros H. destruct e as [r d|r d]; cbn [reld]; [|exact (fun x => x)]. destruct (d =? 0); [lia|exact (fun x => x)]. Qed.
Lemma Forall2_impl_reld b1 b2 ds es : b1 <= b2 -> Forall2 (reld b1) ds es -> Forall2 (reld b2) ds es.
Proof. intros H. induction 1; constructor; [eapply reld_mono; eassumption | assumption]. Qed.

Definition rel_def (b : N) (od : option (list N)) (es : list ent) : Prop :=
  match od with Some ds => Forall2 (reld b) ds es | None => Forall plain es end.
Definition rel_rep (c : N) (orp : option (list N)) (es : list ent) : Prop :=
  match orp with Some rs => rs = map (fun e => e_rep e - c) es | None => True end.

(* visibility facts an unravel_validity step needs about an entry *)
Definition vis_ok (l2r : list N) (b c : N) (e : ent) : Prop :=
  match e with
  | Slot _ d => d = 0 \/ (b < d /\ exists x, nth_error l2r (N.to_nat d) = Some x /\ x <= c)
  | Spec _ d => exists x, nth_error l2r (N.to_nat d) = Some x /\ c < x
  end.

Definition slot_bits (es : list ent) : list bool := map (fun e => e_def e =? 0) (filter is_slot es).

Lemma uv_filter_ok l2r b c : 
  (forall j, j <= b -> exists x, nth_error l2r (N.to_nat j) = Some x /\ x <= c) ->
  forall es ds acc, Forall2 (reld b) ds es -> Forall (vis_ok l2r b c) es ->
  uv_filter ds l2r c b acc = Ok (rev acc ++ slot_bits es).
Proof.
  intros Hlow. induction es as [|e t IH]; intros ds acc Hrel Hvis.
  - inversion Hrel; subst. cbn. rewrite app_nil_r. reflexivity.
  - inversion Hrel as [|du ? ds' ? Hr Hrel']; subst. inversion Hvis as [|? ? Hv Hvis']; subst.
    cbn [uv_filter]. destruct e as [r d|r d]; cbn [reld vis_ok] in *.
    + destruct (d =? 0) eqn:Ed.
      * destruct (Hlow du Hr) as (x & En & Hx). rewrite En. apply N.leb_le in Hx. rewrite Hx.
        rewrite (IH ds' _ Hrel' Hvis'). cbn [rev]. rewrite <- app_assoc. unfold slot_bits. cbn [filter is_slot map e_def app].
        rewrite Ed. apply N.leb_le in Hr. rewrite Hr. reflexivity.
      * subst du. apply N.eqb_neq in Ed. destruct Hv as [Hv|(Hb & x & En & Hx)]; [contradiction|].
        rewrite En. apply N.leb_le in Hx. rewrite Hx.
        rewrite (IH ds' _ Hrel' Hvis'). cbn [rev]. rewrite <- app_assoc. unfold slot_bits. cbn [filter is_slot map e_def app].
        apply N.eqb_neq in Ed. rewrite Ed. replace (d <=? b) with false by (symmetry; apply N.leb_gt; exact Hb). reflexivity.
    + subst du. destruct Hv as (x & En & Hx). rewrite En. replace (x <=? c) with false by (symmetry; apply N.leb_gt; exact Hx).
      rewrite (IH ds' _ Hrel' Hvis'). reflexivity.
Qed.

(* after unravelling a NullableItem layer with null level b + 1 *)
Lemma reld_sv b : forall es vs ds,
  Forall2 (reld b) ds (sv vs (b + 1) es) ->
  Forall (fun e => match e with Slot _ d => d = 0 \/ b + 1 < d | Spec _ _ => True end) es ->
  Forall2 (reld (b + 1)) ds es.
Proof.
  induction es as [|e t IH]; intros vs ds Hrel Hok.
  - cbn in Hrel. inversion Hrel; subst. constructor.
  - inversion Hok as [|? ? Ho Hok']; subst. destruct e as [r d|r d].
    + destruct vs as [|v vs']; cbn [sv] in Hrel; inversion Hrel as [|du ? ds' ? Hr Hrel']; subst;
        (constructor; [|eapply IH; eassumption]); cbn [reld] in *.
      * destruct (d =? 0); [lia|exact Hr].
      * destruct (d =? 0) eqn:Ed; cbn [andb] in Hr.
        -- destruct (negb v); [|rewrite Ed in Hr; lia]. replace (b + 1 =? 0) with false in Hr by (symmetry; apply N.eqb_neq; lia). lia.
        -- rewrite Ed in Hr. exact Hr.
    + cbn [sv] in Hrel. inversion Hrel as [|du ? ds' ? Hr Hrel']; subst. constructor; [exact Hr | eapply IH; eassumption].
Qed.

(* ---------------------------------------------------------------------------------------------- *)
(* 3.2 unravel_offsets                                                                              *)

(* offsets pushed / validity bits produced for a list layer, from the entries before the layer *)
Fixpoint lo_offs (es1 : list ent) (lens : list N) (cur : N) : list N * N :=
  match es1 with
  | [] => ([], cur)
  | Spec _ _ :: t => lo_offs t lens cur
  | Slot r d :: t =>
      match lens with
      | len :: lens' => let '(o, f) := lo_offs t lens' (cur + (if d =? 0 then len else 0)) in (cur :: o, f)
      | [] => lo_offs t [] cur
      end
  end.

Lemma uo_def_zeros nl el ml un : forall n ds rr dr curlen wr wd offs vals, length ds = n ->
  uo_def (repeat 0 n ++ rr) (ds ++ dr) nl el ml un curlen wr wd offs vals
  = uo_def rr dr nl el ml un (curlen + N.of_nat n) wr wd offs vals.
Proof.
  induction n as [|n IH]; intros ds rr dr curlen wr wd offs vals Hl.
  - destruct ds; [|discriminate]. cbn [repeat app]. rewrite N.add_0_r. reflexivity.
  - destruct ds as [|d ds]; [discriminate|]. cbn [repeat app uo_def].
    replace (negb (0 =? 0)) with false by reflexivity.
    rewrite IH by (cbn in Hl; lia).
    replace (curlen + N.of_nat (S n)) with (curlen + 1 + N.of_nat n) by lia. reflexivity.
Qed.

Definition lo_ok (c nl un ml : N) (e : ent) : Prop :=
  match e with
  | Slot r d => (r = 0 \/ c < r) /\ (d = 0 \/ d = nl \/ (un < d /\ d <= ml))
  | Spec r d => c < r /\ ml < d
  end.

Lemma Forall2_len {A B} (R : A -> B -> Prop) l1 l2 : Forall2 R l1 l2 -> length l1 = length l2.
Proof. induction 1; cbn; congruence. Qed.

Lemma Forall2_app_inv_r' {A B} (R : A -> B -> Prop) l (l1 l2 : list B) :
  Forall2 R l (l1 ++ l2) -> exists a b, l = a ++ b /\ Forall2 R a l1 /\ Forall2 R b l2.
Proof.
  revert l. induction l1 as [|x t IH]; intros l H.
  - exists [], l. repeat split; [constructor | exact H].
  - cbn [app] in H. inversion H as [|y ? l' ? Hxy H']; subst.
    destruct (IH l' H') as (a & b & E & Ha & Hb). exists (y :: a), b. subst l'. repeat split; [constructor; assumption | exact Hb].
Qed.

Lemma uo_def_ok b' c' nl el ml un :
  let c := c' + 1 in
  b' <= un -> un <= ml -> nl <= un -> el <= un ->
  (nl = 0 \/ b' < nl) -> (el = 0 \/ b' < el) -> (el = 0 \/ el <> nl) ->
  forall es1 lens dr curlen wr wd offs vals,
  slots es1 = length lens ->
  so_el_ok el es1 lens ->
  Forall (lo_ok c nl un ml) es1 ->
  Forall2 (reld b') dr (so lens c el es1) ->
  exists ds1, Forall2 (reld un) ds1 es1 /\
    uo_def (map (fun e => e_rep e - c') (so lens c el es1)) dr nl el ml un curlen wr wd offs vals
    = (snd (lo_offs es1 lens curlen),
       rev (map (fun e => e_rep e - c) es1) ++ wr,
       rev ds1 ++ wd,
       rev (fst (lo_offs es1 lens curlen)) ++ offs,
       rev (slot_bits es1) ++ vals).
Proof.
  intros c Hbun Hunml Hnlun Helun Hnl Hel Hne.
  induction es1 as [|e t IH]; intros lens dr curlen wr wd offs vals Hsl Helok Hok Hrel.
  - cbn [so] in Hrel. inversion Hrel; subst. exists []. split; [constructor|]. reflexivity.
  - inversion Hok as [|? ? Ho Hok']; subst. destruct e as [r d|r d].
    + (* a slot: a list of this layer *)
      destruct lens as [|len lens']; [rewrite slots_cons_slot in Hsl; discriminate|].
      rewrite slots_cons_slot in Hsl. cbn [length] in Hsl. injection Hsl as Hsl.
      unfold so_el_ok in Helok. cbn [slot_pairs] in Helok. inversion Helok as [|? ? He1 Helok']; subst.
      destruct Ho as [Hr Hd]. cbn [so] in Hrel |- *.
      set (ll := if r =? 0 then c else r) in *.
      assert (Hll : ll - c' <> 0 /\ ll - c' - 1 = r - c).
      { subst ll c. destruct (r =? 0) eqn:Er; [apply N.eqb_eq in Er; subst r|apply N.eqb_neq in Er]; lia. }
      destruct Hll as [Hll1 Hll2].
      cbn [lo_offs]. destruct (lo_offs t lens' (curlen + (if d =? 0 then len else 0))) as [o f] eqn:Elo.
      cbn [fst snd]. unfold slot_bits. cbn [filter is_slot map e_def]. fold (slot_bits t).
      destruct (d =? 0) eqn:Ed; cbn [andb] in *.
      * apply N.eqb_eq in Ed. subst d.
        destruct (0 <? len) eqn:El.
        -- (* non-empty valid list *)
           apply N.ltb_lt in El. cbn [app] in Hrel.
           inversion Hrel as [|du ? dr1 ? Hr1 Hrel1]; subst.
           apply Forall2_app_inv_r' in Hrel1 as (dz & dr2 & E & Hz & Hrel2). subst dr1.
           apply reld_slot0 in Hr1.
           destruct (IH lens' dr2 (curlen + len) ((ll - c' - 1) :: wr) (du :: wd) (curlen :: offs) (true :: vals) Hsl Helok' Hok' Hrel2)
             as (ds1 & Hds1 & Huo).
           exists (du :: ds1). split; [constructor; [apply reld_slot0; lia | exact Hds1]|].
           cbn [map app e_rep uo_def]. rewrite map_app, map_repeat'. cbn [e_rep].
           replace (0 - c') with 0 by lia.
           replace (negb (ll - c' =? 0)) with true by (symmetry; apply negb_true_iff, N.eqb_neq; exact Hll1).
           assert (Hlz : length dz = N.to_nat (len - 1)).
           { apply Forall2_len in Hz. rewrite repeat_length in Hz. exact Hz. }
           assert (Hstep : forall X, uo_def (repeat 0 (N.to_nat (len - 1)) ++ map (fun e => e_rep e - c') (so lens' c el t)) (dz ++ dr2) nl el ml un X
                                      ((ll - c' - 1) :: wr) (du :: wd) (curlen :: offs) (true :: vals)
                          = uo_def (map (fun e => e_rep e - c') (so lens' c el t)) dr2 nl el ml un (X + N.of_nat (N.to_nat (len - 1)))
                                      ((ll - c' - 1) :: wr) (du :: wd) (curlen :: offs) (true :: vals))
             by (intros X; apply uo_def_zeros; exact Hlz).
           destruct (du =? 0) eqn:Edu.
           ++ rewrite Hstep. replace (curlen + 1 + N.of_nat (N.to_nat (len - 1))) with (curlen + len) by lia.
              rewrite Huo. rewrite Elo. cbn [fst snd map e_rep rev]. rewrite Hll2, <- !app_assoc. reflexivity.
           ++ apply N.eqb_neq in Edu.
              replace (ml <? du) with false by (symmetry; apply N.ltb_ge; lia).
              replace (du =? nl) with false by (symmetry; apply N.eqb_neq; lia).
              replace (un <? du) with false by (symmetry; apply N.ltb_ge; lia).
              replace (du =? el) with false by (symmetry; apply N.eqb_neq; lia).
              cbn [orb]. rewrite Hstep. replace (curlen + 1 + N.of_nat (N.to_nat (len - 1))) with (curlen + len) by lia.
              rewrite Huo. rewrite Elo. cbn [fst snd map e_rep rev]. rewrite Hll2, <- !app_assoc. reflexivity.
        -- (* empty list *)
           apply N.ltb_ge in El. assert (len = 0) by lia. subst len.
           assert (H1el : 1 <= el) by (apply He1; reflexivity).
           cbn [app] in Hrel. inversion Hrel as [|du ? dr2 ? Hr1 Hrel2]; subst. cbn [reld] in Hr1. subst du.
           destruct (IH lens' dr2 curlen ((ll - c' - 1) :: wr) (el :: wd) (curlen :: offs) (true :: vals) Hsl Helok' Hok' Hrel2)
             as (ds1 & Hds1 & Huo).
           exists (el :: ds1). split; [constructor; [apply reld_slot0; lia | exact Hds1]|].
           cbn [map app e_rep uo_def].
           replace (negb (ll - c' =? 0)) with true by (symmetry; apply negb_true_iff, N.eqb_neq; exact Hll1).
           replace (el =? 0) with false by (symmetry; apply N.eqb_neq; lia).
           replace (ml <? el) with false by (symmetry; apply N.ltb_ge; lia).
           replace (el =? nl) with false by (symmetry; apply N.eqb_neq; lia).
           replace (un <? el) with false by (symmetry; apply N.ltb_ge; lia).
           rewrite N.eqb_refl. cbn [orb].
           rewrite N.add_0_r in Elo. rewrite Huo, Elo. cbn [fst snd map e_rep rev]. rewrite Hll2, <- !app_assoc. reflexivity.
      * (* null list or list behind a null struct *)
        apply N.eqb_neq in Ed. destruct Hd as [Hd|Hd]; [contradiction|].
        cbn [app] in Hrel. inversion Hrel as [|du ? dr2 ? Hr1 Hrel2]; subst. cbn [reld] in Hr1. subst du.
        destruct (IH lens' dr2 curlen ((ll - c' - 1) :: wr) (d :: wd) (curlen :: offs) (false :: vals) Hsl Helok' Hok' Hrel2)
          as (ds1 & Hds1 & Huo).
        exists (d :: ds1). split.
        { constructor; [|exact Hds1]. cbn [reld]. replace (d =? 0) with false by (symmetry; apply N.eqb_neq; exact Ed). reflexivity. }
        cbn [map app e_rep uo_def].
        replace (negb (ll - c' =? 0)) with true by (symmetry; apply negb_true_iff, N.eqb_neq; exact Hll1).
        replace (d =? 0) with false by (symmetry; apply N.eqb_neq; exact Ed).
        replace (ml <? d) with false by (symmetry; apply N.ltb_ge; lia).
        replace ((d =? nl) || (un <? d)) with true.
        2:{ symmetry. apply orb_true_iff. destruct Hd as [Hd|[Hd _]]; [left; apply N.eqb_eq; exact Hd | right; apply N.ltb_lt; exact Hd]. }
        rewrite N.add_0_r in Elo. rewrite Huo, Elo. cbn [fst snd map e_rep rev]. rewrite Hll2, <- !app_assoc.
        replace (d =? 0) with false by (symmetry; apply N.eqb_neq; exact Ed). reflexivity.
    + (* a special entry of an outer list: kept, invisible *)
      destruct Ho as [Hr Hd]. rewrite slots_cons_spec in Hsl.
      cbn [so] in Hrel |- *. inversion Hrel as [|du ? dr2 ? Hr1 Hrel2]; subst. cbn [reld] in Hr1. subst du.
      destruct (IH lens dr2 curlen ((r - c' - 1) :: wr) (d :: wd) offs vals Hsl Helok Hok' Hrel2) as (ds1 & Hds1 & Huo).
      exists (d :: ds1). split; [constructor; [reflexivity | exact Hds1]|].
      cbn [map e_rep uo_def].
      replace (negb (r - c' =? 0)) with true by (symmetry; apply negb_true_iff, N.eqb_neq; subst c; lia).
      replace (d =? 0) with false by (symmetry; apply N.eqb_neq; lia).
      replace (ml <? d) with true by (symmetry; apply N.ltb_lt; exact Hd).
      rewrite Huo. cbn [lo_offs fst snd map e_rep rev]. unfold slot_bits. cbn [filter is_slot].
      replace (r - c' - 1) with (r - c) by (subst c; lia). rewrite <- !app_assoc. reflexivity.
Qed.

Lemma uo_nodef_zeros : forall n rr curlen wr offs,
  uo_nodef (repeat 0 n ++ rr) curlen wr offs = uo_nodef rr (curlen + N.of_nat n) wr offs.
Proof.
  induction n as [|n IH]; intros rr curlen wr offs.
  - cbn [repeat app]. rewrite N.add_0_r. reflexivity.
  - cbn [repeat app uo_nodef]. replace (negb (0 =? 0)) with false by reflexivity.
    rewrite IH. replace (curlen + N.of_nat (S n)) with (curlen + 1 + N.of_nat n) by lia. reflexivity.
Qed.

Lemma uo_nodef_ok c' el :
  let c := c' + 1 in
  forall es1 lens curlen wr offs,
  length es1 = length lens -> Forall plain es1 -> Forall (fun l => 0 < l) lens ->
  Forall (fun e => e_rep e = 0 \/ c < e_rep e) es1 ->
  uo_nodef (map (fun e => e_rep e - c') (so lens c el es1)) curlen wr offs
  = (snd (lo_offs es1 lens curlen), rev (map (fun e => e_rep e - c) es1) ++ wr, rev (fst (lo_offs es1 lens curlen)) ++ offs).
Proof.
  intros c. induction es1 as [|e t IH]; intros lens curlen wr offs Hlen Hp Hpos Hr.
  - reflexivity.
  - destruct lens as [|len lens']; [discriminate|].
    inversion Hp as [|? ? He Hp']; subst. inversion Hpos as [|? ? Hl Hpos']; subst. inversion Hr as [|? ? Hr1 Hr']; subst.
    rewrite He in *. cbn [e_rep] in *. set (r := e_rep e) in *.
    cbn [so lo_offs]. change (0 =? 0) with true. cbn [andb].
    replace (0 <? len) with true by (symmetry; apply N.ltb_lt; exact Hl).
    set (ll := if r =? 0 then c else r).
    assert (Hll : ll - c' <> 0 /\ ll - c' - 1 = r - c).
    { subst ll c. destruct (r =? 0) eqn:Er; [apply N.eqb_eq in Er; rewrite Er|apply N.eqb_neq in Er]; lia. }
    destruct Hll as [Hll1 Hll2].
    destruct (lo_offs t lens' (curlen + len)) as [o f] eqn:Elo. cbn [fst snd].
    cbn [app map e_rep uo_nodef]. rewrite map_app, map_repeat'. cbn [e_rep]. replace (0 - c') with 0 by lia.
    replace (negb (ll - c' =? 0)) with true by (symmetry; apply negb_true_iff, N.eqb_neq; exact Hll1).
    rewrite uo_nodef_zeros. replace (curlen + 1 + N.of_nat (N.to_nat (len - 1))) with (curlen + len) by lia.
    rewrite IH; [|cbn in Hlen; lia|exact Hp'|exact Hpos'|exact Hr'].
    rewrite Elo. cbn [fst snd rev]. rewrite Hll2, <- !app_assoc. reflexivity.
Qed.

Lemma lo_offs_length es1 lens cur : slots es1 = length lens -> length (fst (lo_offs es1 lens cur)) = slots es1.
Proof.
  revert lens cur. induction es1 as [|[r d|r d] t IH]; intros lens cur H; [reflexivity| |].
  - destruct lens as [|len lens']; [rewrite slots_cons_slot in H; discriminate|].
    rewrite slots_cons_slot in *. cbn [length] in H. cbn [lo_offs].
    destruct (lo_offs t lens' (cur + (if d =? 0 then len else 0))) as [o f] eqn:E. cbn [fst length].
    specialize (IH lens' (cur + (if d =? 0 then len else 0))). rewrite E in IH. cbn [fst] in IH. rewrite IH by lia. reflexivity.
  - rewrite slots_cons_spec in *. cbn [lo_offs]. apply IH. exact H.
Qed.

(* ---------------------------------------------------------------------------------------------- *)
(* 3.3 the entry invariant of the round trip                                                       *)

Definition reach (mo : list meaning) : N := bump_max_level mo 0.
Lemma bump_add mo a : bump_max_level mo a = a + reach mo.
Proof.
  unfold reach. revert a. induction mo as [|m t IH]; intros a; cbn [bump_max_level]; [lia|].
  destruct m; try lia; rewrite IH; [|rewrite (IH (0 + 1))]; lia.
Qed.

(* [b c rc]: definition levels / list layers / list layers that own a level, of the layers still to be
   serialized (= inside); [mo]: meanings of the layers already serialized, nearest first *)
Definition eok (l2r : list N) (b c rc : N) (mo : list meaning) (e : ent) : Prop :=
  match e with
  | Slot r d => (r = 0 \/ c < r) /\
                (d = 0 \/ (b < d /\ d <= b + reach mo /\ nth_error l2r (N.to_nat d) = Some rc))
  | Spec r d => c < r /\ b + reach mo < d /\ exists x, nth_error l2r (N.to_nat d) = Some x /\ rc < x
  end.

(* a NullableItem layer with null level b (b = b' + 1) *)
Lemma eok_sv l2r b' c rc mo vs : 
  nth_error l2r (N.to_nat (b' + 1)) = Some rc ->
  forall es, Forall (eok l2r (b' + 1) c rc mo) es ->
  Forall (eok l2r b' c rc (NullableItem :: mo)) (sv vs (b' + 1) es).
Proof.
  intros Hn es H. revert vs. induction H as [|e t He _ IH]; intros vs; [constructor|].
  assert (Hreach : reach (NullableItem :: mo) = 1 + reach mo).
  { unfold reach. cbn [bump_max_level]. rewrite bump_add. unfold reach. lia. }
  destruct e as [r d|r d].
  - destruct He as [Hr Hd].
    assert (Hold : eok l2r b' c rc (NullableItem :: mo) (Slot r d)).
    { split; [exact Hr|]. destruct Hd as [Hd|(H1 & H2 & H3)]; [left; exact Hd|right]. rewrite Hreach. repeat split; [lia|lia|exact H3]. }
    destruct vs as [|v vs']; cbn [sv]; (constructor; [|apply IH]); [exact Hold|].
    destruct ((d =? 0) && negb v); [|exact Hold].
    split; [exact Hr|]. right. rewrite Hreach. repeat split; [lia|lia|exact Hn].
  - cbn [sv]. constructor; [|apply IH]. destruct He as (Hr & Hd & x & Hx & Hlt).
    split; [exact Hr|]. split; [rewrite Hreach; lia|]. exists x. split; assumption.
Qed.

Lemma eok_allvalid_item l2r b c rc mo e : eok l2r b c rc mo e -> eok l2r b c rc (AllValidItem :: mo) e.
Proof.
  assert (Hreach : reach (AllValidItem :: mo) = reach mo) by (unfold reach; cbn [bump_max_level]; reflexivity).
  destruct e; cbn [eok]; rewrite Hreach; exact (fun H => H).
Qed.

Definition eok1 (l2r : list N) (b c rc : N) (mo : list meaning) (nl : N) (e : ent) : Prop :=
  match e with
  | Slot r d => (r = 0 \/ c < r) /\
                (d = 0 \/ (d = nl /\ nl <> 0) \/ (b < d /\ d <= b + reach mo /\ nth_error l2r (N.to_nat d) = Some rc))
  | Spec r d => c < r /\ b + reach mo < d /\ exists x, nth_error l2r (N.to_nat d) = Some x /\ rc < x
  end.

Lemma eok1_of_eok l2r b c rc mo nl e : eok l2r b c rc mo e -> eok1 l2r b c rc mo nl e.
Proof. destruct e; cbn [eok eok1]; [|exact (fun H => H)]. intros [Hr [Hd|Hd]]; (split; [exact Hr|]); auto. Qed.

Lemma eok1_sv l2r b c rc mo nl vs : nl <> 0 ->
  forall es, Forall (eok l2r b c rc mo) es -> Forall (eok1 l2r b c rc mo nl) (sv vs nl es).
Proof.
  intros Hnl es H. revert vs. induction H as [|e t He _ IH]; intros vs; [constructor|].
  destruct e as [r d|r d].
  - pose proof (eok1_of_eok _ _ _ _ _ nl _ He) as Hold.
    destruct vs as [|v vs']; cbn [sv]; (constructor; [|apply IH]); [exact Hold|].
    destruct ((d =? 0) && negb v); [|exact Hold]. destruct He as [Hr _]. split; [exact Hr|]. right. left. split; [reflexivity|exact Hnl].
  - cbn [sv]. constructor; [exact He | apply IH].
Qed.

(* a list layer: position before (b, c' + 1, rc), after (b', c', rc') *)
Lemma eok_so l2r b b' c' rc rc' m mo nl el :
  m_is_list m = true -> b' <= b -> rc' <= rc ->
  (nl = 0 \/ (b' < nl /\ nth_error l2r (N.to_nat nl) = Some (rc' + 1))) ->
  (el = 0 \/ (b' < el /\ nth_error l2r (N.to_nat el) = Some (rc' + 1))) ->
  forall es1 lens, Forall (eok1 l2r b (c' + 1) rc mo nl) es1 ->
  slots es1 = length lens ->
  (* slots behind a null ancestor only occur when the list layer owns a level *)
  (rc' < rc \/ Forall (fun e => match e with Slot _ d => d = 0 | _ => True end) es1) ->
  so_el_ok el es1 lens ->
  Forall (eok l2r b' c' rc' (m :: mo)) (so lens (c' + 1) el es1).
Proof.
  intros Hm Hb Hrc Hnl Hel es1 lens H. revert lens.
  assert (Hreach : reach (m :: mo) = 0) by (unfold reach; destruct m; cbn in Hm; try discriminate; reflexivity).
  induction H as [|e t He _ IH]; intros lens Hsl Hmask Helok; [constructor|].
  assert (Hmask' : rc' < rc \/ Forall (fun e => match e with Slot _ d => d = 0 | _ => True end) t).
  { destruct Hmask as [Hm1|Hm1]; [left; exact Hm1|right]. inversion Hm1; assumption. }
  destruct e as [r d|r d].
  - destruct lens as [|len lens']; [rewrite slots_cons_slot in Hsl; discriminate|].
    rewrite slots_cons_slot in Hsl. cbn [length] in Hsl. injection Hsl as Hsl. cbn [so].
    unfold so_el_ok in Helok. cbn [slot_pairs] in Helok. inversion Helok as [|? ? He1 Helok']; subst.
    apply Forall_app. split; [|apply IH; [exact Hsl|exact Hmask'|exact Helok']].
    destruct He as [Hr Hd].
    assert (Hll : c' < (if r =? 0 then c' + 1 else r)).
    { destruct (r =? 0) eqn:Er; [lia|]. apply N.eqb_neq in Er. destruct Hr; [contradiction|lia]. }
    destruct (d =? 0) eqn:Ed; cbn [andb].
    + destruct (0 <? len) eqn:El.
      * constructor; [split; [right; exact Hll|left; reflexivity]|].
        apply Forall_forall. intros x Hx. apply repeat_spec in Hx. subst x. split; left; reflexivity.
      * constructor; [|constructor]. apply N.eqb_eq in Ed. apply N.ltb_ge in El.
        assert (H1el : 1 <= el) by (apply He1; [exact Ed|lia]).
        destruct Hel as [Hel|[Hel1 Hel2]]; [lia|].
        split; [exact Hll|]. split; [rewrite Hreach; lia|]. exists (rc' + 1). split; [exact Hel2|lia].
    + constructor; [|constructor]. apply N.eqb_neq in Ed.
      split; [exact Hll|]. rewrite Hreach.
      destruct Hd as [Hd|[[Hd Hn0]|(H1 & H2 & H3)]]; [contradiction| |].
      * subst d. destruct Hnl as [Hnl|[Hnl1 Hnl2]]; [contradiction|]. split; [lia|]. exists (rc' + 1). split; [exact Hnl2|lia].
      * split; [lia|]. exists rc. split; [exact H3|].
        destruct Hmask as [Hm1|Hm1]; [exact Hm1|]. inversion Hm1; subst. contradiction.
  - rewrite slots_cons_spec in Hsl. cbn [so]. constructor; [|apply IH; assumption].
    destruct He as (Hr & Hd & x & Hx & Hlt). split; [lia|]. split; [rewrite Hreach; lia|]. exists x. split; [exact Hx|lia].
Qed.

(* ---------------------------------------------------------------------------------------------- *)
(* 3.4 one unraveler, one layer                                                                    *)

Record relu (hr hd : bool) (M : list meaning) (items : nat) (b c : N) (k : nat) (u : unr) (es : list ent) : Prop := {
  ru_rep : rel_rep c (u_rep u) es;
  ru_def : rel_def b (u_def u) es;
  ru_hr : is_some (u_rep u) = hr;
  ru_hd : is_some (u_def u) = hd;
  ru_l2r : u_l2r u = levels_to_rep M;
  ru_m : u_meaning u = M;
  ru_cdc : u_cdc u = b;
  ru_crc : u_crc u = c;
  ru_layer : u_layer u = k;
  ru_items : u_items u = items }.

Lemma sv_rep_sub vs nl c es : map (fun e => e_rep e - c) (sv vs nl es) = map (fun e => e_rep e - c) es.
Proof.
  rewrite <- (map_map e_rep (fun r => r - c)), sv_rep, map_map. reflexivity.
Qed.

Lemma step_validity_some hr M items b' c k u vs es :
  relu hr true M items b' c k u (sv vs (b' + 1) es) ->
  nth_error M k = Some NullableItem ->
  (forall j, j <= b' -> exists x, nth_error (levels_to_rep M) (N.to_nat j) = Some x /\ x <= c) ->
  Forall (vis_ok (levels_to_rep M) b' c) (sv vs (b' + 1) es) ->
  Forall (fun e => match e with Slot _ d => d = 0 \/ b' + 1 < d | Spec _ _ => True end) es ->
  exists u', comp_unravel_validity [u] = Ok ([u'], Some (slot_bits (sv vs (b' + 1) es))) /\
             relu hr true M items (b' + 1) c (S k) u' es.
Proof.
  intros [Hrep Hdef Hhr Hhd Hl2r Hm Hcdc Hcrc Hlay Hit] Hnth Hlow Hvis Hok.
  unfold comp_unravel_validity, unr_is_all_valid. rewrite Hm, Hlay, Hnth. cbn [m_is_all_valid bind].
  cbn [comp_uv]. unfold unravel_validity. rewrite Hm, Hlay, Hnth.
  destruct (u_def u) as [ds|] eqn:Ed; [|discriminate]. cbn [rel_def] in Hdef.
  rewrite Hl2r, Hcrc, Hcdc. rewrite (uv_filter_ok _ _ _ Hlow _ _ [] Hdef Hvis). cbn [bind rev app].
  eexists. split; [reflexivity|].
  constructor; cbn [set_unr u_rep u_def u_l2r u_meaning u_cdc u_crc u_layer u_items]; try assumption; try reflexivity.
  - unfold rel_rep in *. destruct (u_rep u); [|exact I]. rewrite Hrep. apply sv_rep_sub.
  - cbn [rel_def]. eapply reld_sv; eassumption.
Qed.

Lemma step_validity_none hr hd M items b c k u es :
  relu hr hd M items b c k u es ->
  nth_error M k = Some AllValidItem ->
  exists u', comp_unravel_validity [u] = Ok ([u'], None) /\ relu hr hd M items b c (S k) u' es.
Proof.
  intros [Hrep Hdef Hhr Hhd Hl2r Hm Hcdc Hcrc Hlay Hit] Hnth.
  unfold comp_unravel_validity, unr_is_all_valid. rewrite Hm, Hlay, Hnth. cbn [m_is_all_valid bind map_out].
  unfold skip_validity. rewrite Hm, Hlay, Hnth. cbn [bind].
  eexists. split; [reflexivity|].
  constructor; cbn [set_unr u_rep u_def u_l2r u_meaning u_cdc u_crc u_layer u_items]; try assumption; try reflexivity.
Qed.

(* levels of a list layer as the unraveler computes them from valid_level = b' *)
Definition ulist_levels (m : meaning) (b' : N) : N * N * N :=   (* null_level, empty_level, new cdc *)
  match m with
  | NullableList => (b' + 1, 0, b' + 1)
  | EmptyableList => (0, b' + 1, b' + 1)
  | NullableAndEmptyableList => (b' + 1, b' + 2, b' + 2)
  | _ => (0, 0, b')
  end.

Lemma step_offsets_def M items b' c' k u m mo es1 lens :
  let '(nl, el, b) := ulist_levels m b' in
  let un := N.max (N.max nl el) b' in
  let ml := un + reach mo in
  m_is_list m = true ->
  relu true true M items b' c' k u (so lens (c' + 1) el es1) ->
  nth_error M k = Some m -> skipn (S k) M = mo ->
  slots es1 = length lens -> so_el_ok el es1 lens ->
  Forall (lo_ok (c' + 1) nl un ml) es1 ->
  exists u', comp_unravel_offsets [u]
             = Ok ([u'], fst (lo_offs es1 lens 0) ++ [snd (lo_offs es1 lens 0)],
                   if m_is_all_valid m then None else Some (slot_bits es1)) /\
             relu true true M items b (c' + 1) (S k) u' es1.
Proof.
  destruct (ulist_levels m b') as [[nl el] b] eqn:Elv. intros un ml Hm [Hrep Hdef Hhr Hhd Hl2r HM Hcdc Hcrc Hlay Hit] Hnth Hsk Hsl Helok Hok.
  assert (Hbun : b' <= un) by (subst un; lia).
  assert (Hfacts : un <= ml /\ nl <= un /\ el <= un /\ (nl = 0 \/ b' < nl) /\ (el = 0 \/ b' < el) /\ (el = 0 \/ el <> nl) /\ un <= b /\ b' <= b).
  { subst un ml. unfold ulist_levels in Elv. destruct m; cbn in Hm; try discriminate; inversion Elv; subst; cbn [m_is_all_valid]; repeat split; lia. }
  destruct Hfacts as (F1 & F2 & F3 & F4 & F5 & F6 & F8 & F9).
  destruct (u_rep u) as [rs|] eqn:Er; [|discriminate].
  destruct (u_def u) as [ds|] eqn:Ed; [|discriminate].
  cbn [rel_rep rel_def] in Hrep, Hdef.
  destruct (uo_def_ok b' c' nl el ml un Hbun F1 F2 F3 F4 F5 F6 es1 lens ds 0 [] [] [] [] Hsl Helok Hok Hdef) as (ds1 & Hds1 & Huo).
  unfold comp_unravel_offsets. cbn [all_valid_all map_out]. unfold unr_is_all_valid, unr_max_lists. rewrite HM, Hlay, Hnth.
  cbn [bind]. 
  assert (Hml : (match m with NullableItem => Panic | _ => Ok (match u_rep u with Some r => length r | None => O end) end)
                = Ok (match u_rep u with Some r => length r | None => O end)) by (destruct m; cbn in Hm; try discriminate; reflexivity).
  rewrite Hml. cbn [bind comp_uo]. unfold unravel_offsets. rewrite Er, HM, Hlay, Hnth, Hcdc.
  assert (Hlv : (match m with
                 | NullableList => Ok (b' + 1, 0, b' + 1)
                 | EmptyableList => Ok (0, b' + 1, b' + 1)
                 | NullableAndEmptyableList => Ok (b' + 1, b' + 2, b' + 2)
                 | AllValidList => Ok (0, 0, b')
                 | _ => Panic
                 end) = Ok (nl, el, b)).
  { unfold ulist_levels in Elv. destruct m; cbn in Hm; try discriminate; inversion Elv; reflexivity. }
  rewrite Hlv. cbn [bind]. rewrite Hsk, bump_add. fold un. fold ml.
  rewrite Ed. rewrite Hrep, map_length, (Forall2_len _ _ _ Hdef), Nat.eqb_refl. cbn [assert_ bind last removelast].
  rewrite Huo. cbn [app]. rewrite !app_nil_r, !rev_involutive.
  eexists. split.
  { f_equal. f_equal. destruct (m_is_all_valid m && true) eqn:Eav; rewrite andb_true_r in Eav; rewrite Eav; reflexivity. }
  constructor; cbn [set_unr u_rep u_def u_l2r u_meaning u_cdc u_crc u_layer u_items]; try assumption; try reflexivity.
  - cbn [rel_def]. eapply Forall2_impl_reld; [|exact Hds1]. exact F8.
  - rewrite Hcrc. reflexivity.
Qed.

Lemma step_offsets_nodef M items b' c' k u el es1 lens :
  relu true false M items b' c' k u (so lens (c' + 1) el es1) ->
  nth_error M k = Some AllValidList ->
  length es1 = length lens -> Forall plain es1 -> Forall (fun l => 0 < l) lens ->
  Forall (fun e => e_rep e = 0 \/ c' + 1 < e_rep e) es1 ->
  exists u', comp_unravel_offsets [u]
             = Ok ([u'], fst (lo_offs es1 lens 0) ++ [snd (lo_offs es1 lens 0)], None) /\
             relu true false M items b' (c' + 1) (S k) u' es1.
Proof.
  intros [Hrep Hdef Hhr Hhd Hl2r HM Hcdc Hcrc Hlay Hit] Hnth Hlen Hplain Hpos Hr.
  destruct (u_rep u) as [rs|] eqn:Er; [|discriminate].
  destruct (u_def u) as [ds|] eqn:Ed; [discriminate|].
  cbn [rel_rep rel_def] in Hrep, Hdef.
  unfold comp_unravel_offsets. cbn [all_valid_all map_out]. unfold unr_is_all_valid, unr_max_lists. rewrite HM, Hlay, Hnth.
  cbn [bind m_is_all_valid andb comp_uo]. unfold unravel_offsets. rewrite Er, HM, Hlay, Hnth, Ed. cbn [bind last removelast].
  rewrite Hrep, (uo_nodef_ok c' el es1 lens 0 [] [] Hlen Hplain Hpos Hr). cbn [app option_map]. rewrite !app_nil_r, !rev_involutive.
  destruct (plain_specs es1 Hplain) as [_ Hsl].
  assert (Hlo : length (fst (lo_offs es1 lens 0)) = length es1) by (rewrite lo_offs_length; [exact Hsl | congruence]).
  set (f := fun e => e_rep e - (c' + 1)).
  assert (Hfirst : forall X, firstn (length (fst (lo_offs es1 lens 0) ++ [snd (lo_offs es1 lens 0)]) - 1) (map f es1 ++ X) = map f es1).
  { intros X. rewrite app_length, Hlo. cbn [length].
    replace (length es1 + 1 - 1)%nat with (length (map f es1) + 0)%nat by (rewrite map_length; lia).
    rewrite firstn_app_2. cbn [firstn]. apply app_nil_r. }
  rewrite Hfirst.
  eexists. split; [reflexivity|].
  constructor; cbn [set_unr u_rep u_def u_l2r u_meaning u_cdc u_crc u_layer u_items rel_rep rel_def is_some]; try assumption; try reflexivity.
  rewrite Hcrc. reflexivity.
Qed.

(* ---------------------------------------------------------------------------------------------- *)
(* 3.5 the whole stack                                                                             *)

Fixpoint unravel_st (us : list unr) (ks : list ukind) : outcome (list unr * list layer_out) :=
  match ks with
  | [] => Ok (us, [])
  | UValidity :: ks' =>
      do '(us', v) <- comp_unravel_validity us; do '(us'', rest) <- unravel_st us' ks'; Ok (us'', (v, None) :: rest)
  | UFsl dim :: ks' =>
      do '(us', v) <- comp_unravel_fsl_validity us dim; do '(us'', rest) <- unravel_st us' ks'; Ok (us'', (v, None) :: rest)
  | UOffsets :: ks' =>
      do '(us', o, v) <- comp_unravel_offsets us; do '(us'', rest) <- unravel_st us' ks'; Ok (us'', (v, Some o) :: rest)
  end.

Lemma unravel_all_st us ks : unravel_all us ks = do '(_, o) <- unravel_st us ks; Ok o.
Proof.
  revert us. induction ks as [|k ks IH]; intros us; [reflexivity|].
  destruct k; cbn [unravel_all unravel_st].
  - destruct (comp_unravel_validity us) as [[us' v]| |]; cbn [bind]; try reflexivity.
    rewrite IH. destruct (unravel_st us' ks) as [[us'' rest]| |]; reflexivity.
  - destruct (comp_unravel_offsets us) as [[[us' o] v]| |]; cbn [bind]; try reflexivity.
    rewrite IH. destruct (unravel_st us' ks) as [[us'' rest]| |]; reflexivity.
  - destruct (comp_unravel_fsl_validity us dim) as [[us' v]| |]; cbn [bind]; try reflexivity.
    rewrite IH. destruct (unravel_st us' ks) as [[us'' rest]| |]; reflexivity.
Qed.

Lemma unravel_st_app us ks1 ks2 us1 o1 :
  unravel_st us ks1 = Ok (us1, o1) ->
  unravel_st us (ks1 ++ ks2) = do '(us2, o2) <- unravel_st us1 ks2; Ok (us2, o1 ++ o2).
Proof.
  revert us us1 o1. induction ks1 as [|k ks IH]; intros us us1 o1 H.
  - cbn in H. inversion H; subst. cbn [app]. destruct (unravel_st us1 ks2) as [[a b]| |]; reflexivity.
  - destruct k; cbn [app unravel_st] in *.
    + destruct (comp_unravel_validity us) as [[us' v]| |]; cbn [bind] in *; try discriminate.
      destruct (unravel_st us' ks) as [[us'' rest]| |] eqn:E; cbn [bind] in *; try discriminate. inversion H; subst.
      rewrite (IH _ _ _ E). destruct (unravel_st us1 ks2) as [[a b]| |]; reflexivity.
    + destruct (comp_unravel_offsets us) as [[[us' o] v]| |]; cbn [bind] in *; try discriminate.
      destruct (unravel_st us' ks) as [[us'' rest]| |] eqn:E; cbn [bind] in *; try discriminate. inversion H; subst.
      rewrite (IH _ _ _ E). destruct (unravel_st us1 ks2) as [[a b]| |]; reflexivity.
    + destruct (comp_unravel_fsl_validity us dim) as [[us' v]| |]; cbn [bind] in *; try discriminate.
      destruct (unravel_st us' ks) as [[us'' rest]| |] eqn:E; cbn [bind] in *; try discriminate. inversion H; subst.
      rewrite (IH _ _ _ E). destruct (unravel_st us1 ks2) as [[a b]| |]; reflexivity.
Qed.

Definition lm (r : raw) : meaning :=
  match r with
  | RValidity (Some _) _ | RFsl (Some _) _ _ => NullableItem
  | RValidity None _ | RFsl None _ _ => AllValidItem
  | ROffsets _ v he _ _ =>
      match is_some v, he with
      | true, true => NullableAndEmptyableList | true, false => NullableList
      | false, true => EmptyableList | false, false => AllValidList
      end
  end.
Definition lkind (r : raw) : ukind :=
  match r with RValidity _ _ => UValidity | ROffsets _ _ _ _ _ => UOffsets | RFsl _ dim _ => UFsl dim end.

(* what the reader must get back for one layer, from the entries before the layer *)
Definition a_out (r : raw) (es : list ent) (cd : N) : layer_out :=
  match r with
  | RValidity (Some vs) _ => (Some (slot_bits (sv vs cd es)), None)
  | RValidity None _ => (None, None)
  | RFsl _ _ _ => (None, None)
  | ROffsets o v he _ _ =>
      let '(m, nl, el) := list_levels v he cd in
      let es1 := match v with Some vs => sv vs nl es | None => es end in
      let lo := lo_offs es1 (windows_len o) 0 in
      (match v with Some _ => Some (slot_bits es1) | None => None end, Some (fst lo ++ [snd lo]))
  end.

Fixpoint a_outs (rs : list raw) (st : astate) : list layer_out :=
  match rs with
  | [] => []
  | r :: rs' => let '(es, _, cd, _) := st in a_out r es cd :: a_outs rs' (a_layer r st)
  end.

Lemma a_layer_shape r es cr cd ms :
  exists es', a_layer r (es, cr, cd, ms) = (es', cr - (if m_is_list (lm r) then 1 else 0), cd - num_def_levels (lm r), ms ++ [lm r]).
Proof.
  destruct r as [o v he n sp | [v|] n | [v|] dim n]; cbn [a_layer a_validity lm]; try (eexists; rewrite ?N.sub_0_r; reflexivity).
  destruct (is_some v), he; cbn [m_is_list num_def_levels]; eexists; reflexivity.
Qed.

Lemma specs_zero_no_spec l r d : specs l = O -> In (Spec r d) l -> False.
Proof.
  induction l as [|[r' d'|r' d'] t IH]; intros H Hin; [contradiction| |].
  - rewrite specs_cons_slot in H. destruct Hin as [E|Hin]; [discriminate|exact (IH H Hin)].
  - rewrite specs_cons_spec in H. discriminate.
Qed.

(* preconditions of the reader side, per layer *)
Definition ul_pre (hr hd : bool) (r : raw) (inner : list meaning) (es : list ent) (cd : N) : Prop :=
  match r with
  | RValidity None _ => True
  | RValidity (Some vs) _ => hd = true /\ (specs es = O \/ mrc inner = mlists inner)
  | RFsl _ _ _ => False
  | ROffsets o v he _ _ =>
      let '(m, nl, el) := list_levels v he cd in
      let lens := windows_len o in
      let es1 := match v with Some vs => sv vs nl es | None => es end in
      hr = true /\ slots es = length lens /\ so_el_ok el es1 lens /\
      (m = AllValidList -> Forall (fun e => match e with Slot _ d => d = 0 | _ => True end) es) /\
      (match v with Some _ => hd = true | None => True end) /\
      (hd = false -> m = AllValidList /\ Forall (fun l => 0 < l) lens /\ Forall plain es)
  end.

Fixpoint uls_pre (hr hd : bool) (rs : list raw) (st : astate) : Prop :=
  match rs with
  | [] => True
  | r :: rs' => let '(es, _, cd, _) := st in ul_pre hr hd r (map lm rs') es cd /\ uls_pre hr hd rs' (a_layer r st)
  end.

Lemma nth_error_mid {A} (a : list A) x b : nth_error (a ++ x :: b) (length a) = Some x.
Proof. rewrite nth_error_app2 by lia. rewrite Nat.sub_diag. reflexivity. Qed.
Lemma skipn_mid {A} (a : list A) x b : skipn (S (length a)) (a ++ x :: b) = b.
Proof.
  replace (a ++ x :: b) with ((a ++ [x]) ++ b) by (rewrite <- app_assoc; reflexivity).
  replace (S (length a)) with (length (a ++ [x])) by (rewrite app_length; cbn; lia).
  rewrite skipn_app, skipn_all, Nat.sub_diag. reflexivity.
Qed.

Lemma lo_ok_of_eok1 l2r b c rc mo nl un e :
  un = b -> eok1 l2r b c rc mo nl e -> lo_ok c nl un (un + reach mo) e.
Proof.
  intros ->. destruct e as [r d|r d]; cbn [eok1 lo_ok].
  - intros [Hr Hd]. split; [exact Hr|]. destruct Hd as [Hd|[[Hd _]|(H1 & H2 & _)]]; auto.
  - intros (Hr & Hd & _). split; assumption.
Qed.

Lemma list_layer_step hr hd M items A mo m b' c' rc' nl el cd es1 lens :
  M = A ++ m :: mo -> mlev A = b' -> mlists A = c' -> mrc A = rc' -> m_is_list m = true ->
  ulist_levels m b' = (nl, el, cd) ->
  Forall (eok1 (levels_to_rep M) cd (c' + 1) (rc' + (if m_real_list m then 1 else 0)) mo nl) es1 ->
  slots es1 = length lens -> so_el_ok el es1 lens ->
  (m = AllValidList -> Forall (fun e => match e with Slot _ d => d = 0 | _ => True end) es1) ->
  (hd = false -> m = AllValidList /\ Forall (fun l => 0 < l) lens /\ Forall plain es1) ->
  hr = true ->
  Forall (eok (levels_to_rep M) b' c' rc' (m :: mo)) (so lens (c' + 1) el es1) /\
  forall u1', relu hr hd M items b' c' (length A) u1' (so lens (c' + 1) el es1) ->
    exists u1, comp_unravel_offsets [u1']
               = Ok ([u1], fst (lo_offs es1 lens 0) ++ [snd (lo_offs es1 lens 0)],
                     if m_is_all_valid m then None else Some (slot_bits es1)) /\
               relu hr hd M items cd (c' + 1) (S (length A)) u1 es1.
Proof.
  intros HM HA1 HA2 HA3 Hm Hlv Heok1 Hsl Helok Hav Hnodef Hhr. subst hr.
  assert (Hnth : forall k, (k < N.to_nat (num_def_levels m))%nat ->
                 nth_error (levels_to_rep M) (N.to_nat b' + 1 + k) = Some (if m_real_list m then rc' + 1 else rc')).
  { intros k Hk. rewrite HM, <- HA1, <- HA3. apply l2r_at. exact Hk. }
  assert (Hfacts : b' <= cd /\ (nl = 0 \/ (b' < nl /\ nth_error (levels_to_rep M) (N.to_nat nl) = Some (rc' + 1))) /\
                   (el = 0 \/ (b' < el /\ nth_error (levels_to_rep M) (N.to_nat el) = Some (rc' + 1))) /\
                   (m <> AllValidList -> N.max nl el = cd /\ m_real_list m = true) /\ (m = AllValidList -> nl = 0 /\ el = 0 /\ cd = b' /\ m_real_list m = false)).
  { unfold ulist_levels in Hlv. destruct m; cbn in Hm; try discriminate; inversion Hlv; subst; cbn [num_def_levels m_real_list] in *.
    - repeat split; try lia; try (left; reflexivity); try congruence.
    - repeat split; try lia; try (left; reflexivity); try congruence.
      right. split; [lia|]. replace (N.to_nat (mlev A + 1)) with (N.to_nat (mlev A) + 1 + 0)%nat by lia. apply Hnth. cbn. lia.
    - repeat split; try lia; try (left; reflexivity); try congruence.
      right. split; [lia|]. replace (N.to_nat (mlev A + 1)) with (N.to_nat (mlev A) + 1 + 0)%nat by lia. apply Hnth. cbn. lia.
    - repeat split; try lia; try congruence.
      + right. split; [lia|]. replace (N.to_nat (mlev A + 1)) with (N.to_nat (mlev A) + 1 + 0)%nat by lia. apply Hnth. cbn. lia.
      + right. split; [lia|]. replace (N.to_nat (mlev A + 2)) with (N.to_nat (mlev A) + 1 + 1)%nat by lia. apply Hnth. cbn. lia. }
  destruct Hfacts as (F1 & F2 & F3 & F4 & F5).
  split.
  - eapply (eok_so _ cd b' c' _ rc' m mo nl el Hm F1); try eassumption.
    + destruct (m_real_list m); lia.
    + destruct (m_real_list m) eqn:Er; [left; lia|right].
      apply Hav. destruct m; cbn in Hm, Er; try discriminate. reflexivity.
  - intros u1' Hu1'. destruct hd.
    + (* definition levels present *)
      pose proof (step_offsets_def M items b' c' (length A) u1' m mo es1 lens) as Hs. rewrite Hlv in Hs. cbn zeta in Hs.
      assert (Hun : N.max (N.max nl el) b' = cd).
      { destruct (meaning_eqb m AllValidList) eqn:Em.
        - assert (m = AllValidList) by (destruct m; cbn in Em; congruence). destruct (F5 H) as (-> & -> & -> & _). lia.
        - destruct F4 as [F4 _]; [intros ->; discriminate|]. lia. }
      apply Hs; try assumption.
      * rewrite HM. apply nth_error_mid.
      * rewrite HM. apply skipn_mid.
      * rewrite Hun. eapply Forall_impl; [|exact Heok1]. intros e. apply lo_ok_of_eok1. reflexivity.
    + (* no definition levels at all *)
      destruct (Hnodef eq_refl) as (Hmav & Hpos & Hplain). destruct (F5 Hmav) as (-> & -> & -> & Hreal).
      subst m. cbn [m_is_all_valid].
      apply (step_offsets_nodef M items b' c' (length A) u1' 0 es1 lens Hu1'); try assumption.
      * rewrite HM. apply nth_error_mid.
      * destruct (plain_specs es1 Hplain) as [_ H]. congruence.
      * eapply Forall_impl; [|exact Heok1]. intros e He. destruct e as [r d|r d]; cbn [eok1 e_rep] in *; destruct He as [He _]; [exact He|right; exact He].
Qed.

Definition st_es (st : astate) : list ent := let '(es, _, _, _) := st in es.

Lemma rel_def_sv b od vs nl es : nl <> 0 -> nl <= b -> rel_def b od (sv vs nl es) -> rel_def b od es.
Proof.
  intros Hn Hle. destruct od as [ds|]; cbn [rel_def].
  - revert vs ds. induction es as [|e t IH]; intros vs ds H.
    + cbn in H. inversion H. constructor.
    + destruct e as [r d|r d].
      * destruct vs as [|v vs']; cbn [sv] in H; inversion H as [|du ? ds' ? Hr H']; subst; (constructor; [|eapply IH; eassumption]); [exact Hr|].
        cbn [reld] in *. destruct (d =? 0) eqn:Ed; cbn [andb] in Hr; [|rewrite Ed in Hr; exact Hr].
        destruct (negb v); [|rewrite Ed in Hr; exact Hr].
        replace (nl =? 0) with false in Hr by (symmetry; apply N.eqb_neq; exact Hn). lia.
      * cbn [sv] in H. inversion H as [|du ? ds' ? Hr H']; subst. constructor; [exact Hr|eapply IH; eassumption].
  - revert vs. induction es as [|e t IH]; intros vs H; [constructor|].
    destruct e as [r d|r d].
    + destruct vs as [|v vs']; cbn [sv] in H; inversion H as [|? ? Hp H']; subst; (constructor; [|eapply IH; eassumption]); [exact Hp|].
      unfold plain in *. cbn [e_rep] in *. injection Hp as Hp. f_equal.
      destruct (d =? 0) eqn:Ed; cbn [andb] in Hp; [apply N.eqb_eq in Ed; exact Ed|exact Hp].
    + cbn [sv] in H. inversion H as [|? ? Hp H']; subst. constructor; [exact Hp|eapply IH; eassumption].
Qed.


Theorem unravel_layers hr hd M items : forall rs es cr cd ms,
  M = rev (ms ++ map lm rs) ->
  cd = mlev (map lm rs) -> cr = mlists (map lm rs) ->
  Forall (eok (levels_to_rep M) cd cr (mrc (map lm rs)) (rev ms)) es ->
  uls_pre hr hd rs (es, cr, cd, ms) ->
  forall u0, relu hr hd M items 0 0 O u0 (st_es (a_layers rs (es, cr, cd, ms))) ->
  exists u1, unravel_st [u0] (rev (map lkind rs)) = Ok ([u1], rev (a_outs rs (es, cr, cd, ms))) /\
             relu hr hd M items cd cr (length rs) u1 es.
Proof.
  induction rs as [|r rs IH]; intros es cr cd ms HM Hcd Hcr Heok Hpre u0 Hu0.
  - cbn in *. subst cd cr. exists u0. split; [reflexivity|exact Hu0].
  - cbn [map] in HM, Hcd, Hcr, Heok. cbn [uls_pre] in Hpre. destruct Hpre as [Hpre1 Hpre2].
    set (inner := map lm rs) in *. set (m := lm r) in *.
    set (A := rev inner). set (mo := rev ms) in *.
    assert (HM2 : M = A ++ m :: mo).
    { rewrite HM, rev_app_distr. cbn [rev]. rewrite <- app_assoc. reflexivity. }
    assert (HlenA : length A = length rs) by (subst A inner; rewrite rev_length, map_length; reflexivity).
    assert (HA : mlev A = mlev inner /\ mlists A = mlists inner /\ mrc A = mrc inner)
      by (subst A; rewrite mlev_rev, mlists_rev, mrc_rev; auto).
    destruct HA as (HA1 & HA2 & HA3).
    cbn [mlev mlists mrc] in Hcd, Hcr, Heok.
    set (b' := mlev inner) in *. set (c' := mlists inner) in *. set (rc' := mrc inner) in *.
    destruct (a_layer_shape r es cr cd ms) as (es' & Est). fold m in Est.
    assert (Hb' : cd - num_def_levels m = b') by lia.
    assert (Hc' : cr - (if m_is_list m then 1 else 0) = c') by lia.
    rewrite Hb', Hc' in Est.
    assert (HM3 : M = rev ((ms ++ [m]) ++ map lm rs)) by (rewrite HM, <- app_assoc; reflexivity).
    assert (Hmo' : rev (ms ++ [m]) = m :: mo) by (rewrite rev_app_distr; reflexivity).
    (* the rest of the proof establishes, per kind of layer: the invariant for es', and the reader step *)
    assert (Hstep : Forall (eok (levels_to_rep M) b' c' rc' (m :: mo)) es' /\
                    forall u1', relu hr hd M items b' c' (length rs) u1' es' ->
                    exists u1 o v, (match lkind r with
                                    | UValidity => do '(us', v) <- comp_unravel_validity [u1']; Ok (us', v, None)
                                    | UOffsets => do '(us', o, v) <- comp_unravel_offsets [u1']; Ok (us', v, Some o)
                                    | UFsl dim => do '(us', v) <- comp_unravel_fsl_validity [u1'] dim; Ok (us', v, None)
                                    end) = Ok ([u1], v, o) /\ (v, o) = a_out r es cd /\
                                   relu hr hd M items cd cr (S (length rs)) u1 es).
    { destruct r as [o v he n sp | [vs|] n | v dim n]; cbn [ul_pre] in Hpre1; [| | |contradiction].
      - (* list layer *)
        destruct (list_levels v he cd) as [[m0 nl] el] eqn:Elv.
        destruct Hpre1 as (Hhr & Hsl & Helok & Hav & Hvhd & Hnd).
        assert (Hm0 : m0 = m) by (unfold list_levels in Elv; subst m; cbn [lm]; destruct (is_some v), he; inversion Elv; reflexivity).
        subst m0.
        assert (Hmlist : m_is_list m = true) by (subst m; cbn [lm]; destruct (is_some v), he; reflexivity).
        rewrite Hmlist in *.
        assert (Hulv : ulist_levels m b' = (nl, el, cd) /\ (is_some v = true -> nl <> 0 /\ nl <= cd /\ m_is_all_valid m = false) /\ (is_some v = false -> m_is_all_valid m = true)).
        { unfold list_levels in Elv. subst m. cbn [lm] in *. destruct (is_some v), he; inversion Elv; subst; cbn [ulist_levels num_def_levels m_is_all_valid] in *;
            (split; [repeat match goal with |- (_, _) = (_, _) => apply f_equal2 end; try reflexivity; lia|]);
            split; intros; try discriminate; try reflexivity; repeat split; try lia. }
        destruct Hulv as (Hulv & Hvsome & Hvnone).
        set (es1 := match v with Some vs => sv vs nl es | None => es end) in *.
        assert (Hcrc : cr = c' + 1) by lia.
        assert (Ees' : es' = so (windows_len o) (c' + 1) el es1).
        { pose proof (f_equal st_es Est) as E. cbn [a_layer st_es] in E. rewrite <- Hcrc.
          unfold list_levels in Elv. subst es1. destruct (is_some v), he; inversion Elv; subst; first [exact (eq_sym E) | reflexivity]. }
        assert (Hrcadd : (if m_real_list m then 1 else 0) + rc' = rc' + (if m_real_list m then 1 else 0)) by lia.
        rewrite Hrcadd, Hcrc in Heok.
        assert (Heok1 : Forall (eok1 (levels_to_rep M) cd (c' + 1) (rc' + (if m_real_list m then 1 else 0)) mo nl) es1).
        { subst es1. destruct v as [vs|].
          - apply eok1_sv; [apply Hvsome; reflexivity|exact Heok].
          - eapply Forall_impl; [|exact Heok]. intros e. apply eok1_of_eok. }
        assert (Hsl1 : slots es1 = length (windows_len o)).
        { subst es1. destruct v; [rewrite sv_slots|]; exact Hsl. }
        destruct (list_layer_step hr hd M items A mo m b' c' rc' nl el cd es1 (windows_len o) HM2 HA1 HA2 HA3 Hmlist Hulv Heok1 Hsl1 Helok)
          as [Heok' Hstep']; [| |exact Hhr|].
        { intros Hmav. pose proof (Hav Hmav) as H2.
          assert (v = None) by (destruct v; [|reflexivity]; exfalso; destruct (Hvsome eq_refl) as (_ & _ & H); rewrite Hmav in H; discriminate).
          subst es1. rewrite H. exact H2. }
        { intros Hhd. destruct (Hnd Hhd) as (H1 & H2 & H3). repeat split; [exact H1|exact H2|].
          assert (v = None) by (destruct v; [|reflexivity]; exfalso; destruct (Hvsome eq_refl) as (_ & _ & H); rewrite H1 in H; discriminate).
          subst es1. rewrite H. exact H3. }
        rewrite Ees'. split; [exact Heok'|].
        intros u1' Hu1'. rewrite <- HlenA. cbn [lkind].
        destruct (Hstep' u1' ltac:(rewrite HlenA; exact Hu1')) as (u1 & Eu & Hu1).
        rewrite Eu. cbn [bind].
        exists u1, (Some (fst (lo_offs es1 (windows_len o) 0) ++ [snd (lo_offs es1 (windows_len o) 0)])),
                   (if m_is_all_valid m then None else Some (slot_bits es1)).
        split; [reflexivity|]. split.
        { cbn [a_out]. rewrite Elv. fold es1. f_equal. destruct v as [vs|].
          - destruct (Hvsome eq_refl) as (_ & _ & ->). reflexivity.
          - rewrite (Hvnone eq_refl). reflexivity. }
        rewrite Hcrc. destruct Hu1 as [Hrep Hdef H3 H4 H5 H6 H7 H8 H9 H10].
        constructor; try assumption.
        + unfold rel_rep in *. destruct (u_rep u1); [|exact I]. subst es1. destruct v as [vs|]; [|exact Hrep]. rewrite Hrep. apply sv_rep_sub.
        + subst es1. destruct v as [vs|]; [|exact Hdef]. destruct (Hvsome eq_refl) as (Hn1 & Hn2 & _).
          eapply rel_def_sv; eassumption.
      - (* nullable item layer *)
        cbn [lm] in m. destruct Hpre1 as [Hhd HK6]. subst hd.
        pose proof (f_equal st_es Est) as Ees'. cbn [a_layer a_validity st_es] in Ees'. clear Est. subst es'.
        subst m. cbn [num_def_levels m_is_list m_real_list] in *.
        assert (Hcdb : cd = b' + 1) by lia. assert (Hcrc : cr = c') by lia.
        rewrite Hcdb in *. rewrite Hcrc in *. rewrite N.add_0_l in Heok.
        assert (Hnth : nth_error (levels_to_rep M) (N.to_nat (b' + 1)) = Some rc').
        { rewrite HM2. replace (N.to_nat (b' + 1)) with (N.to_nat (mlev A) + 1 + 0)%nat by lia.
          rewrite l2r_at by (cbn; lia). cbn [m_real_list]. rewrite HA3. reflexivity. }
        pose proof (eok_sv _ _ _ _ _ vs Hnth es Heok) as Heok'.
        split; [exact Heok'|].
        intros u1' Hu1'. cbn [lkind].
        destruct (step_validity_some hr M items b' c' (length rs) u1' vs es Hu1') as (u1 & Eu & Hu1).
        + rewrite HM2, <- HlenA. apply nth_error_mid.
        + intros j Hj. rewrite HM2. destruct (l2r_low A (NullableItem :: mo) j) as (x & Hx1 & Hx2); [lia|].
          exists x. split; [exact Hx1|]. pose proof (mrc_le_mlists inner). lia.
        + rewrite Forall_forall in Heok' |- *. intros e He. specialize (Heok' e He). destruct e as [r0 d0|r0 d0]; cbn [eok vis_ok] in *.
          * destruct Heok' as [_ [Hd|(H1 & H2 & H3)]]; [left; exact Hd|right]. split; [exact H1|]. exists rc'. split; [exact H3|].
            pose proof (mrc_le_mlists inner). lia.
          * destruct Heok' as (_ & _ & x & Hx & Hlt). exists x. split; [exact Hx|].
            destruct HK6 as [HK6|HK6]; [|lia]. exfalso. rewrite <- (sv_specs vs (b' + 1) es) in HK6.
            exact (specs_zero_no_spec _ _ _ HK6 He).
        + rewrite Forall_forall in Heok |- *. intros e He. specialize (Heok e He). destruct e as [r0 d0|r0 d0]; [|exact I].
          destruct Heok as [_ [Hd|(H1 & _)]]; [left; exact Hd|right; exact H1].
        + rewrite Eu. cbn [bind]. exists u1, None, (Some (slot_bits (sv vs (b' + 1) es))).
          split; [reflexivity|]. split; [reflexivity|exact Hu1].
      - (* all-valid item layer *)
        cbn [lm] in m. pose proof (f_equal st_es Est) as Ees'. cbn [a_layer a_validity st_es] in Ees'. clear Est. subst es'.
        subst m. cbn [num_def_levels m_is_list m_real_list] in *.
        assert (Hcdb : cd = b') by lia. assert (Hcrc : cr = c') by lia. rewrite Hcdb, Hcrc in *. rewrite N.add_0_l in Heok.
        split; [eapply Forall_impl; [|exact Heok]; intros e; apply eok_allvalid_item|].
        intros u1' Hu1'. cbn [lkind].
        destruct (step_validity_none hr hd M items b' c' (length rs) u1' es Hu1') as (u1 & Eu & Hu1).
        + rewrite HM2, <- HlenA. apply nth_error_mid.
        + rewrite Eu. cbn [bind]. exists u1, None, None. split; [reflexivity|]. split; [reflexivity|exact Hu1]. }
    destruct Hstep as [Heok' Hstep].
    (* inner layers by the induction hypothesis *)
    assert (Hlayers : a_layers (r :: rs) (es, cr, cd, ms) = a_layers rs (es', c', b', ms ++ [m])).
    { unfold a_layers. cbn [fold_left]. rewrite Est. reflexivity. }
    rewrite Hlayers in Hu0.
    assert (Hpre2' : uls_pre hr hd rs (es', c', b', ms ++ [m])) by (rewrite <- Est; exact Hpre2).
    assert (Heok'' : Forall (eok (levels_to_rep M) b' c' (mrc (map lm rs)) (rev (ms ++ [m]))) es') by (rewrite Hmo'; exact Heok').
    destruct (IH es' c' b' (ms ++ [m]) HM3 eq_refl eq_refl Heok'' Hpre2' u0 Hu0) as (u1' & Eu1' & Hu1').
    destruct (Hstep u1' Hu1') as (u1 & o & v & Estep & Eout & Hu1).
    exists u1. split; [|exact Hu1].
    cbn [map rev a_outs]. rewrite (unravel_st_app _ _ [lkind r] _ _ Eu1'). rewrite Est.
    cbn [unravel_st]. rewrite <- Eout.
    destruct (lkind r); cbn [unravel_st].
    + destruct (comp_unravel_validity [u1']) as [[us' v']| |]; cbn [bind] in *; try discriminate. inversion Estep; subst. reflexivity.
    + destruct (comp_unravel_offsets [u1']) as [[[us' o'] v']| |]; cbn [bind] in *; try discriminate. inversion Estep; subst. reflexivity.
    + destruct (comp_unravel_fsl_validity [u1'] dim) as [[us' v']| |]; cbn [bind] in *; try discriminate. inversion Estep; subst. reflexivity.
Qed.

(* ============================================================================================== *)
(* 4. Assembly                                                                                      *)

(* ---------------------------------------------------------------------------------------------- *)
(* 4.1 the builder records raw_of_call                                                             *)


Lemma prefix_sums_cons acc l : prefix_sums acc l = acc :: tl (prefix_sums acc l).
Proof. destruct l; reflexivity. Qed.

Ltac tuple_eq := repeat match goal with |- (_, _) = (_, _) => apply f_equal2 end.

Lemma add_offs_valid_spec : forall lens vs sp he hg lastv acc,
  let info := map2 (fun (b : bool) (l : N) => (b, if b then l else 0)) vs lens in
  exists hg' lastv', add_offs_valid lens vs sp he hg lastv acc
  = ((sp + length (filter info_special info))%nat, he || existsb info_empty info, hg', lastv',
     rev (tl (prefix_sums lastv (map snd info))) ++ acc).
Proof.
  induction lens as [|len lens IH]; intros vs sp he hg lastv acc info.
  - subst info. destruct vs; cbn; rewrite Nat.add_0_r, orb_false_r; eexists; eexists; reflexivity.
  - destruct vs as [|v vs]; [subst info; cbn; rewrite Nat.add_0_r, orb_false_r; eexists; eexists; reflexivity|].
    subst info. cbn [map2 add_offs_valid].
    set (info' := map2 (fun (b : bool) (l : N) => (b, if b then l else 0)) vs lens) in *.
    destruct v.
    + destruct (len =? 0) eqn:El.
      * destruct (IH vs (S sp) true hg lastv (lastv :: acc)) as (hg' & l' & E). rewrite E. exists hg', l'. fold info'.
        cbn [map snd filter info_special info_empty existsb negb orb andb prefix_sums tl]. rewrite El. cbn [length orb].
        apply N.eqb_eq in El. subst len. rewrite N.add_0_r.
        rewrite (prefix_sums_cons lastv). cbn [rev]. rewrite <- app_assoc. cbn [app].
        rewrite orb_true_r. tuple_eq; try reflexivity. lia.
      * destruct (IH vs sp he hg (lastv + len) ((lastv + len) :: acc)) as (hg' & l' & E). rewrite E. exists hg', l'. fold info'.
        cbn [map snd filter info_special info_empty existsb negb orb andb prefix_sums tl]. rewrite El. cbn [length orb].
        rewrite (prefix_sums_cons (lastv + len)). cbn [rev]. rewrite <- app_assoc. cbn [app].
        tuple_eq; reflexivity.
    + assert (Em : forall X Y : nat * bool * bool * N * list N, (if len =? 0 then X else Y) = (if len =? 0 then X else Y)) by reflexivity.
      destruct (IH vs (S sp) he (hg || negb (len =? 0)) lastv (lastv :: acc)) as (hg' & l' & E).
      exists hg', l'. fold info' in E.
      replace (if len =? 0 then add_offs_valid lens vs (S sp) he (hg || negb true) lastv (lastv :: acc)
               else add_offs_valid lens vs (S sp) he (hg || negb false) lastv (lastv :: acc))
        with (add_offs_valid lens vs (S sp) he (hg || negb (len =? 0)) lastv (lastv :: acc)) by (destruct (len =? 0); reflexivity).
      rewrite E.
      cbn [map snd filter info_special info_empty existsb negb orb andb prefix_sums tl length].
      change (0 =? 0) with true. cbn [orb andb length]. rewrite N.add_0_r.
      rewrite (prefix_sums_cons lastv). cbn [rev]. rewrite <- app_assoc. cbn [app].
      tuple_eq; try reflexivity. lia.
Qed.

Lemma add_offs_novalid_spec : forall lens sp he lastv acc,
  let info := map (fun l : N => (true, l)) lens in
  exists lastv', add_offs_novalid lens sp he lastv acc
  = ((sp + length (filter info_special info))%nat, he || existsb info_empty info, lastv',
     rev (tl (prefix_sums lastv (map snd info))) ++ acc).
Proof.
  induction lens as [|len lens IH]; intros sp he lastv acc info.
  - subst info. cbn. rewrite Nat.add_0_r, orb_false_r. eexists. reflexivity.
  - subst info. cbn [map add_offs_novalid].
    set (info' := map (fun l : N => (true, l)) lens) in *.
    destruct (len =? 0) eqn:El.
    + destruct (IH (S sp) true (lastv + len) ((lastv + len) :: acc)) as (l' & E). rewrite E. exists l'. fold info'.
      cbn [map snd filter info_special info_empty existsb negb orb andb prefix_sums tl]. rewrite El. cbn [length orb].
      rewrite (prefix_sums_cons (lastv + len)). cbn [rev]. rewrite <- app_assoc. cbn [app].
      rewrite orb_true_r. tuple_eq; try reflexivity. lia.
    + destruct (IH sp he (lastv + len) ((lastv + len) :: acc)) as (l' & E). rewrite E. exists l'. fold info'.
      cbn [map snd filter info_special info_empty existsb negb orb andb prefix_sums tl]. rewrite El. cbn [length orb].
      rewrite (prefix_sums_cons (lastv + len)). cbn [rev]. rewrite <- app_assoc. cbn [app].
      tuple_eq; reflexivity.
Qed.

Lemma prefix_sums_length acc l : length (prefix_sums acc l) = S (length l).
Proof. revert acc; induction l as [|x t IH]; intros acc; cbn [prefix_sums length]; [reflexivity|]. rewrite IH. reflexivity. Qed.

Lemma add_offsets_spec b offs v :
  (match b_len b with Some len => length (list_info offs v) = len | None => True end) ->
  exists hg, add_offsets b offs v
  = Ok ({| b_repdefs := b_repdefs b ++ [raw_of_call (COffsets offs v)];
           b_len := Some (N.to_nat (last (prefix_sums 0 (map snd (list_info offs v))) 0)) |}, hg).
Proof.
  intros Hlen. unfold add_offsets, raw_of_call, list_info in *.
  destruct v as [vs|].
  - destruct (add_offs_valid_spec (windows_len offs) vs O false false 0 [0]) as (hg & l' & E). cbn zeta in E. rewrite E.
    set (info := map2 (fun (b : bool) (l : N) => (b, if b then l else 0)) vs (windows_len offs)) in *.
    assert (Hn : rev (rev (tl (prefix_sums 0 (map snd info))) ++ [0]) = prefix_sums 0 (map snd info)).
    { rewrite rev_app_distr, rev_involutive. cbn [rev app]. symmetry. apply prefix_sums_cons. }
    rewrite Hn.
    assert (Ha : (match b_len b with Some len => assert_ (Nat.eqb (length (prefix_sums 0 (map snd info))) (len + 1)) | None => Ok tt end) = Ok tt).
    { destruct (b_len b); [|reflexivity]. rewrite prefix_sums_length, map_length, Hlen. replace (Nat.eqb (S n) (n + 1)) with true by (symmetry; apply Nat.eqb_eq; lia). reflexivity. }
    rewrite Ha. cbn [bind]. exists hg. cbn [orb plus]. reflexivity.
  - destruct (add_offs_novalid_spec (windows_len offs) O false 0 [0]) as (l' & E). cbn zeta in E. rewrite E.
    set (info := map (fun l : N => (true, l)) (windows_len offs)) in *.
    assert (Hn : rev (rev (tl (prefix_sums 0 (map snd info))) ++ [0]) = prefix_sums 0 (map snd info)).
    { rewrite rev_app_distr, rev_involutive. cbn [rev app]. symmetry. apply prefix_sums_cons. }
    rewrite Hn.
    assert (Ha : (match b_len b with Some len => assert_ (Nat.eqb (length (prefix_sums 0 (map snd info))) (len + 1)) | None => Ok tt end) = Ok tt).
    { destruct (b_len b); [|reflexivity]. rewrite prefix_sums_length, map_length, Hlen. replace (Nat.eqb (S n) (n + 1)) with true by (symmetry; apply Nat.eqb_eq; lia). reflexivity. }
    rewrite Ha. cbn [bind]. exists false. cbn [orb plus]. reflexivity.
Qed.

Definition is_fsl (c : call) : bool := match c with CFsl _ _ _ => true | _ => false end.
Definition no_fsl (cs : list call) : bool := negb (existsb is_fsl cs).

Fixpoint spec_items (n : nat) (cs : list call) : nat :=
  match cs with
  | [] => n
  | CValidity v :: t => spec_items (length v) t
  | CNoNull k :: t => spec_items k t
  | COffsets offs v :: t => spec_items (N.to_nat (last (prefix_sums 0 (map snd (list_info offs v))) 0)) t
  | CFsl _ dim k :: t => spec_items (k * dim) t
  end.

Lemma map2_length {A B C} (f : A -> B -> C) l1 l2 : length l1 = length l2 -> length (map2 f l1 l2) = length l1.
Proof. revert l2; induction l1 as [|a t IH]; intros [|b l2] H; cbn in *; try discriminate; [reflexivity|]. rewrite IH by lia. reflexivity. Qed.

Lemma windows_len_length offs : length (windows_len offs) = (length offs - 1)%nat.
Proof.
  induction offs as [|a [|b t] IH]; [reflexivity|reflexivity|].
  cbn [windows_len length] in *. rewrite IH. lia.
Qed.

Lemma list_info_length offs v n :
  length offs = S n -> match v with Some vs => length vs = n | None => True end -> length (list_info offs v) = n.
Proof.
  intros Ho Hv. unfold list_info. pose proof (windows_len_length offs) as Hw. rewrite Ho in Hw. cbn in Hw. rewrite Nat.sub_0_r in Hw.
  destruct v as [vs|]; [rewrite map2_length; lia | rewrite map_length; exact Hw].
Qed.

Lemma apply_calls_spec : forall cs mask b flags outs,
  spec_layers mask cs = Some outs -> no_fsl cs = true ->
  (b_len b = None \/ b_len b = Some (length mask)) ->
  exists b' fl, apply_calls b cs flags = Ok (b', fl) /\
    b_repdefs b' = b_repdefs b ++ map raw_of_call cs /\
    b_len b' = match cs with [] => b_len b | _ => Some (spec_items O cs) end.
Proof.
  induction cs as [|c cs IH]; intros mask b flags outs Hspec Hnf Hlen.
  - eexists. eexists. cbn. rewrite app_nil_r. repeat split; reflexivity.
  - unfold no_fsl in Hnf. cbn [existsb] in Hnf. apply negb_true_iff, orb_false_iff in Hnf. destruct Hnf as [Hc Hnf].
    assert (Hnf' : no_fsl cs = true) by (unfold no_fsl; rewrite Hnf; reflexivity).
    destruct c as [v | n | offs v | v dim n]; cbn [is_fsl] in Hc; [| | |discriminate]; cbn [spec_layers] in Hspec.
    + destruct (Nat.eqb (length v) (length mask)) eqn:El; [|discriminate]. apply Nat.eqb_eq in El.
      destruct (spec_layers (map2 andb mask v) cs) as [outs'|] eqn:Es; [|discriminate].
      assert (Hck : check_validity_len b (length v) = Ok (Some (length v))).
      { unfold check_validity_len. destruct Hlen as [-> | ->]; [reflexivity|]. rewrite El, Nat.eqb_refl. rewrite <- El. reflexivity. }
      cbn [apply_calls apply_call]. rewrite Hck. cbn [bind].
      destruct (IH (map2 andb mask v) {| b_repdefs := b_repdefs b ++ [RValidity (Some v) (length v)]; b_len := Some (length v) |} (false :: flags) outs' Es Hnf')
        as (b' & fl & E & Hr & Hl).
      { right. cbn [b_len]. rewrite map2_length by lia. f_equal. lia. }
      exists b', fl. split; [exact E|]. cbn [b_repdefs b_len] in Hr, Hl. split.
      * rewrite Hr, <- app_assoc. reflexivity.
      * rewrite Hl. destruct cs; reflexivity.
    + destruct (Nat.eqb n (length mask)) eqn:El; [|discriminate]. apply Nat.eqb_eq in El.
      destruct (spec_layers mask cs) as [outs'|] eqn:Es; [|discriminate].
      assert (Hck : check_validity_len b n = Ok (Some n)).
      { unfold check_validity_len. destruct Hlen as [-> | ->]; [reflexivity|]. rewrite El, Nat.eqb_refl. reflexivity. }
      cbn [apply_calls apply_call]. rewrite Hck. cbn [bind].
      destruct (IH mask {| b_repdefs := b_repdefs b ++ [RValidity None n]; b_len := Some n |} (false :: flags) outs' Es Hnf')
        as (b' & fl & E & Hr & Hl).
      { right. cbn [b_len]. f_equal. exact El. }
      exists b', fl. split; [exact E|]. cbn [b_repdefs b_len] in Hr, Hl. split.
      * rewrite Hr, <- app_assoc. reflexivity.
      * rewrite Hl. destruct cs; reflexivity.
    + destruct (sorted offs && Nat.eqb (length offs) (S (length mask))
                && match v with Some vs => Nat.eqb (length vs) (length mask) | None => true end
                && forallb (fun '(m, (_, len)) => m || (len =? 0)) (combine mask (list_info offs v))) eqn:Ec; [|discriminate].
      apply andb_true_iff in Ec as [Ec Hmasked]. apply andb_true_iff in Ec as [Ec Hvl]. apply andb_true_iff in Ec as [Hsorted Hol].
      apply Nat.eqb_eq in Hol.
      set (items := N.to_nat (last (prefix_sums 0 (map snd (list_info offs v))) 0)) in *.
      destruct (spec_layers (repeat true items) cs) as [outs'|] eqn:Es; [|discriminate].
      assert (Hil : length (list_info offs v) = length mask).
      { apply list_info_length; [exact Hol|]. destruct v; [apply Nat.eqb_eq; exact Hvl | exact I]. }
      destruct (add_offsets_spec b offs v) as (hg & Ea).
      { destruct Hlen as [-> | ->]; [exact I | exact Hil]. }
      cbn [apply_calls apply_call]. rewrite Ea. cbn [bind]. fold items.
      destruct (IH (repeat true items) {| b_repdefs := b_repdefs b ++ [raw_of_call (COffsets offs v)]; b_len := Some items |} (hg :: flags) outs' Es Hnf')
        as (b' & fl & E & Hr & Hl).
      { right. cbn [b_len]. rewrite repeat_length. reflexivity. }
      exists b', fl. split; [exact E|]. cbn [b_repdefs b_len] in Hr, Hl. split.
      * rewrite Hr, <- app_assoc. reflexivity.
      * rewrite Hl. cbn [spec_items]. fold items. destruct cs; reflexivity.
Qed.

(* ---------------------------------------------------------------------------------------------- *)
(* 4.2 serialize of a single builder                                                               *)

Definition raw_norm (r : raw) : Prop :=
  match r with ROffsets o _ _ _ _ => exists t, o = 0 :: t | _ => True end.

Lemma concat_single r : raw_norm r -> concat_layers [r] = r.
Proof.
  destruct r as [o v he n sp | v n | v dim n]; cbn [raw_norm]; intros Hn.
  - destruct Hn as (t & ->). unfold concat_layers.
    cbn [existsb raw_has_nulls fold_left raw_num_specials raw_num_values orb plus last tl].
    rewrite orb_false_r. destruct v as [vs|]; cbn [is_some]; cbn [fold_left app last tl map];
      rewrite ?Nat.add_0_l, ?orb_false_r; (replace (map (fun x => x + 0) t) with t by (symmetry; erewrite map_ext; [apply map_id|]; intros; cbn; lia)); reflexivity.
  - unfold concat_layers. cbn [existsb raw_has_nulls fold_left raw_num_specials raw_num_values orb plus].
    destruct v as [vs|]; cbn [is_some orb fold_left app]; reflexivity.
  - unfold concat_layers. cbn [existsb raw_has_nulls fold_left raw_num_specials raw_num_values orb plus].
    destruct v as [vs|]; cbn [is_some orb fold_left app]; reflexivity.
Qed.

Lemma raw_of_call_norm c : raw_norm (raw_of_call c).
Proof. destruct c; cbn [raw_of_call raw_norm]; try exact I. rewrite prefix_sums_cons. eexists. reflexivity. Qed.

Lemma combined_single b :
  Forall raw_norm (b_repdefs b) ->
  fold_right (fun i acc => do t <- acc;
                           do col <- fold_right (fun b0 acc0 => do t0 <- acc0; match nth_error (b_repdefs b0) i with Some r => Ok (r :: t0) | None => Panic end) (Ok []) [b];
                           Ok (concat_layers col :: t))
             (Ok []) (seq 0 (length (b_repdefs b)))
  = Ok (b_repdefs b).
Proof.
  intros Hn. 
  assert (H : forall pre rs, b_repdefs b = pre ++ rs -> Forall raw_norm rs ->
    fold_right (fun i acc => do t <- acc;
                           do col <- fold_right (fun b0 acc0 => do t0 <- acc0; match nth_error (b_repdefs b0) i with Some r => Ok (r :: t0) | None => Panic end) (Ok []) [b];
                           Ok (concat_layers col :: t))
             (Ok []) (seq (length pre) (length rs)) = Ok rs).
  { intros pre rs. revert pre. induction rs as [|r rs IH]; intros pre E Hf; [reflexivity|].
    cbn [length seq]. inversion Hf as [|? ? Hr Hf']; subst.
    match goal with |- fold_right ?f ?a (?x :: ?l) = _ => change (fold_right f a (x :: l)) with (f x (fold_right f a l)) end.
    cbv beta.
    replace (S (length pre)) with (length (pre ++ [r])) by (rewrite app_length; cbn; lia).
    rewrite (IH (pre ++ [r])); [|rewrite <- app_assoc; exact E|exact Hf'].
    cbn [bind fold_right]. rewrite E.
    replace (nth_error (pre ++ r :: rs) (length pre)) with (Some r) by (symmetry; apply nth_error_mid).
    cbn [bind]. rewrite concat_single by exact Hr. reflexivity. }
  apply (H [] (b_repdefs b)); [reflexivity|exact Hn].
Qed.

(* ---------------------------------------------------------------------------------------------- *)
(* 4.3 a list layer in terms of the spec's (mask, info)                                            *)

Lemma windows_prefix_sums acc l : windows_len (prefix_sums acc l) = l.
Proof.
  revert acc; induction l as [|x t IH]; intros acc; [reflexivity|].
  cbn [prefix_sums]. specialize (IH (acc + x)). rewrite (prefix_sums_cons (acc + x)) in *.
  cbn [windows_len] in *. rewrite IH. f_equal. lia.
Qed.

Lemma sv_true vs nl es : Forall (fun v => v = true) vs -> sv vs nl es = es.
Proof.
  intros H. revert es. induction H as [|v vs Hv _ IH]; intros es.
  - induction es as [|[r d|r d] t IHt]; cbn [sv]; [reflexivity| |]; rewrite IHt; reflexivity.
  - induction es as [|[r d|r d] t IHt]; cbn [sv]; [reflexivity| |].
    + subst v. cbn [negb]. rewrite andb_false_r, IH. reflexivity.
    + rewrite IHt. reflexivity.
Qed.

Definition sumN' (l : list N) : N := fold_right N.add 0 l.
Lemma last_prefix_sums acc l : last (prefix_sums acc l) 0 = acc + sumN' l.
Proof.
  revert acc; induction l as [|x t IH]; intros acc; cbn [prefix_sums sumN' fold_right last]; [lia|].
  specialize (IH (acc + x)). rewrite (prefix_sums_cons (acc + x)) in *. rewrite IH. fold (sumN' t). lia.
Qed.

Lemma removelast_cons_ps a b l : removelast (a :: prefix_sums b l) = a :: removelast (prefix_sums b l).
Proof. rewrite (prefix_sums_cons b). reflexivity. Qed.
Lemma last_cons_ps a b l d : last (a :: prefix_sums b l) d = last (prefix_sums b l) d.
Proof. rewrite (prefix_sums_cons b). reflexivity. Qed.

(* per slot: (mask bit is d = 0), info = (valid, normalized length) *)
Definition info_wf (p : N * N * (bool * N)) : Prop :=
  let '(_, d, (v, len)) := p in (d <> 0 -> len = 0) /\ (v = false -> len = 0).

Lemma list_step_facts cr nl el : nl <> 0 -> forall es info,
  slots es = length info ->
  Forall info_wf (slot_pairs es info) ->
  (existsb info_empty info = true -> 1 <= el) ->
  let es1 := sv (map fst info) nl es in
  let es2 := so (map snd info) cr el es1 in
  slot_bits es2 = repeat true (N.to_nat (sumN' (map snd info))) /\
  specs es2 = (specs es + length (filter info_special info))%nat /\
  so_el_ok el es1 (map snd info) /\
  (forall cur, lo_offs es1 (map snd info) cur = (removelast (prefix_sums cur (map snd info)), last (prefix_sums cur (map snd info)) 0)) /\
  slot_bits es1 = map2 andb (slot_bits es) (map fst info).
Proof.
  intros Hnl. induction es as [|e t IH]; intros info Hsl Hwf Hel.
  - destruct info; [|discriminate]. cbn. repeat split; try constructor.
  - destruct e as [r d|r d].
    + destruct info as [|[v len] info']; [rewrite slots_cons_slot in Hsl; discriminate|].
      rewrite slots_cons_slot in Hsl. cbn [length] in Hsl. injection Hsl as Hsl.
      cbn [slot_pairs] in Hwf. inversion Hwf as [|? ? Hw Hwf']; subst. cbn [info_wf] in Hw. destruct Hw as [Hw1 Hw2].
      assert (Hel' : existsb info_empty info' = true -> 1 <= el) by (intros H; apply Hel; cbn [existsb]; rewrite H; apply orb_true_r).
      destruct (IH info' Hsl Hwf' Hel') as (I1 & I2 & I3 & I4 & I5).
      cbn zeta. cbn [map fst snd sv so].
      set (d1 := if (d =? 0) && negb v then nl else d).
      assert (Hd1 : (d1 =? 0) = (d =? 0) && v).
      { subst d1. destruct (d =? 0) eqn:Ed; cbn [andb]; [|rewrite Ed; reflexivity]. destruct v; cbn [negb]; [exact Ed|]. apply N.eqb_neq. exact Hnl. }
      assert (Hlen0 : (d =? 0) && v = false -> len = 0).
      { intros H. apply andb_false_iff in H as [H|H]; [apply Hw1; apply N.eqb_neq; exact H | apply Hw2; exact H]. }
      unfold slot_bits in *. cbn [filter is_slot map e_def sumN' fold_right]. fold (sumN' (map snd info')).
      rewrite Hd1. 
      destruct ((d =? 0) && v) eqn:Edv; cbn [andb].
      * destruct (0 <? len) eqn:El.
        -- apply N.ltb_lt in El. repeat split.
           ++ rewrite filter_app, map_app. cbn [filter is_slot map e_def].
              assert (Hrep : forall k, map (fun e => e_def e =? 0) (filter is_slot (repeat (Slot 0 0) k)) = repeat true k).
              { induction k as [|k IHk]; [reflexivity|]. cbn [repeat filter is_slot map e_def]. rewrite IHk. reflexivity. }
              rewrite Hrep, I1. change (0 =? 0) with true.
              replace (N.to_nat (len + sumN' (map snd info'))) with (S (N.to_nat (len - 1)) + N.to_nat (sumN' (map snd info')))%nat by lia.
              rewrite repeat_app. reflexivity.
           ++ rewrite specs_app, I2. cbn [filter info_special]. apply andb_true_iff in Edv as [_ ->]. cbn [negb orb].
              replace (len =? 0) with false by (symmetry; apply N.eqb_neq; lia).
              assert (Hs0 : specs (Slot (if r =? 0 then cr else r) 0 :: repeat (Slot 0 0) (N.to_nat (len - 1))) = O).
              { rewrite specs_cons_slot. induction (N.to_nat (len - 1)); [reflexivity|]. cbn [repeat]. rewrite specs_cons_slot. assumption. }
              rewrite Hs0, specs_cons_slot. reflexivity.
           ++ unfold so_el_ok. cbn [slot_pairs]. constructor; [intros _ H0; lia|exact I3].
           ++ intros cur. cbn [lo_offs]. rewrite Hd1, I4. cbn [prefix_sums].
              rewrite removelast_cons_ps, last_cons_ps. reflexivity.
           ++ cbn [map2]. rewrite Edv. f_equal. exact I5.
        -- apply N.ltb_ge in El. assert (len = 0) by lia. subst len. repeat split.
           ++ cbn [app filter is_slot]. rewrite I1. rewrite N.add_0_l. reflexivity.
           ++ cbn [app]. rewrite specs_cons_spec, I2. cbn [filter info_special]. change (0 =? 0) with true. rewrite orb_true_r.
              rewrite specs_cons_slot. cbn [length]. lia.
           ++ unfold so_el_ok. cbn [slot_pairs]. constructor; [|exact I3]. intros _ _. apply Hel. cbn [existsb info_empty].
              apply andb_true_iff in Edv as [_ ->]. reflexivity.
           ++ intros cur. cbn [lo_offs]. rewrite Hd1, I4. cbn [prefix_sums].
              rewrite removelast_cons_ps, last_cons_ps. reflexivity.
           ++ cbn [map2]. rewrite Edv. f_equal. exact I5.
      * specialize (Hlen0 eq_refl). subst len. repeat split.
        -- cbn [app filter is_slot]. rewrite I1. rewrite N.add_0_l. reflexivity.
        -- cbn [app]. rewrite specs_cons_spec, I2. cbn [filter info_special]. change (0 =? 0) with true. rewrite orb_true_r.
           rewrite specs_cons_slot. cbn [length]. lia.
        -- unfold so_el_ok. cbn [slot_pairs]. constructor; [|exact I3]. intros H0. apply N.eqb_eq in H0. rewrite Hd1 in H0. discriminate.
        -- intros cur. cbn [lo_offs]. rewrite Hd1, I4. cbn [prefix_sums].
           rewrite removelast_cons_ps, last_cons_ps. reflexivity.
        -- cbn [map2]. rewrite Edv. f_equal. exact I5.
    + rewrite slots_cons_spec in Hsl. cbn [slot_pairs] in Hwf.
      destruct (IH info Hsl Hwf Hel) as (I1 & I2 & I3 & I4 & I5).
      cbn zeta. cbn [sv so]. unfold slot_bits in *. cbn [filter is_slot]. repeat split; try assumption.
      rewrite !specs_cons_spec, I2. reflexivity.
Qed.

(* ---------------------------------------------------------------------------------------------- *)
(* 4.4 known-finding classes (boolean predicates on the builder calls of one page)                  *)

Definition cmeaning (c : call) : meaning := lm (raw_of_call c).
Definition c_is_list (c : call) : bool := match c with COffsets _ _ => true | _ => false end.

Definition is_nonull (c : call) : bool := match c with CNoNull _ => true | _ => false end.

(* levels_to_rep ignores AllValidList: a nullable item layer with a list outside and an all-valid list inside *)
Fixpoint k6 (outside : bool) (cs : list call) : bool :=
  match cs with
  | [] => false
  | c :: t =>
      (match c with
       | CValidity _ => outside && existsb (fun c' => meaning_eqb (cmeaning c') AllValidList) t
       | _ => false
       end) || k6 (outside || c_is_list c) t
  end.
Definition Known_C27_allvalid_list_inside_nullable_struct (cs : list call) : bool := k6 false cs.

(* helper lemmas for the glue *)
Lemma map_fst_map2 {A B} (vs : list bool) (lens : list A) (g : bool -> A -> B) :
  length vs = length lens -> map fst (map2 (fun b l => (b, g b l)) vs lens) = vs.
Proof. revert lens; induction vs as [|v t IH]; intros [|l lens] H; cbn in *; try discriminate; [reflexivity|]. rewrite IH by lia. reflexivity. Qed.

Lemma slot_bits_length es : length (slot_bits es) = slots es.
Proof. unfold slot_bits, slots. apply map_length. Qed.

Lemma sv_bits nl : nl <> 0 -> forall es vs, slots es = length vs -> slot_bits (sv vs nl es) = map2 andb (slot_bits es) vs.
Proof.
  intros Hnl. unfold slot_bits. induction es as [|[r d|r d] t IH]; intros vs H.
  - destruct vs; [reflexivity|discriminate].
  - destruct vs as [|v vs]; [rewrite slots_cons_slot in H; discriminate|].
    rewrite slots_cons_slot in H. cbn [length] in H. cbn [sv filter is_slot map e_def map2]. rewrite IH by lia. f_equal.
    destruct (d =? 0) eqn:Ed; cbn [andb]; [|exact Ed]. destruct v; cbn [negb]; [exact Ed|apply N.eqb_neq; exact Hnl].
  - rewrite slots_cons_spec in H. cbn [sv filter is_slot]. apply IH. exact H.
Qed.

Lemma info_wf_of_spec es info :
  slots es = length info ->
  forallb (fun '(m, (_, len)) => m || (len =? 0)) (combine (slot_bits es) info) = true ->
  Forall (fun x : bool * N => fst x = false -> snd x = 0) info ->
  Forall info_wf (slot_pairs es info).
Proof.
  unfold slot_bits. revert info. induction es as [|[r d|r d] t IH]; intros info Hsl Hf Hv.
  - constructor.
  - destruct info as [|[v len] info']; [constructor|]. rewrite slots_cons_slot in Hsl. cbn [length] in Hsl.
    cbn [filter is_slot map e_def combine forallb] in Hf. apply andb_true_iff in Hf as [Hf1 Hf2].
    inversion Hv as [|? ? Hv1 Hv']; subst. cbn [slot_pairs]. constructor; [|apply IH; [lia|exact Hf2|exact Hv']].
    cbn [info_wf fst snd] in *. split; [|exact Hv1].
    intros Hd. apply N.eqb_neq in Hd. rewrite Hd in Hf1. cbn [orb] in Hf1. apply N.eqb_eq. exact Hf1.
  - rewrite slots_cons_spec in Hsl. cbn [filter is_slot slot_pairs]. apply IH; assumption.
Qed.

Lemma list_info_valid_len offs v : Forall (fun x : bool * N => fst x = false -> snd x = 0) (list_info offs v).
Proof.
  unfold list_info. destruct v as [vs|].
  - generalize (windows_len offs). induction vs as [|b t IH]; intros [|l lens]; cbn [map2]; try constructor; [|apply IH].
    cbn. intros ->. reflexivity.
  - apply Forall_forall. intros x Hx. apply in_map_iff in Hx as (l & <- & _). cbn. discriminate.
Qed.

Lemma no_av_mrc ms : existsb (fun m => meaning_eqb m AllValidList) ms = false -> mrc ms = mlists ms.
Proof.
  induction ms as [|m t IH]; cbn [existsb mrc mlists]; [reflexivity|]. intros H. apply orb_false_iff in H as [H1 H2].
  rewrite (IH H2). destruct m; cbn in *; try discriminate; reflexivity.
Qed.

Lemma a_layers_cons r rs st : a_layers (r :: rs) st = a_layers rs (a_layer r st).
Proof. reflexivity. Qed.

Lemma a_layers_mono rs : Forall (fun r => match r with RFsl _ _ _ => False | _ => True end) rs ->
  forall st, (length (st_es st) <= length (st_es (a_layers rs st)))%nat.
Proof.
  induction 1 as [|r rs Hr _ IH]; intros st; [cbn; lia|].
  rewrite a_layers_cons. etransitivity; [|apply IH].
  destruct st as [[[es cr] cd] ms]. destruct r as [o v he n sp | [vs|] n | v dim n]; [| | |contradiction]; cbn [a_layer a_validity st_es].
  - destruct (is_some v), he; cbn [st_es]; (etransitivity; [|apply so_length_ge]); destruct v; rewrite ?sv_length; lia.
  - rewrite sv_length. lia.
  - lia.
Qed.

Definition sumr (l : list nat) : nat := fold_right Nat.add O l.
Lemma sumnat_sumr l : sumnat l = sumr l.
Proof.
  unfold sumnat, sumr. rewrite <- fold_left_rev_right.
  assert (H : forall l a, fold_right (fun y x => (x + y)%nat) a l = (a + fold_right Nat.add O l)%nat).
  { induction l0 as [|x t IH]; intros a; cbn; [lia|]. rewrite IH. lia. }
  rewrite H. cbn. induction l as [|x t IH]; [reflexivity|]. cbn [rev]. 
  assert (H2 : forall l1 l2, fold_right Nat.add O (l1 ++ l2) = (fold_right Nat.add O l1 + fold_right Nat.add O l2)%nat).
  { induction l1; intros; cbn; [reflexivity|]. rewrite IHl1. lia. }
  rewrite H2, IH. cbn. lia.
Qed.

Lemma info_all_true_no_empty info :
  Forall (fun x : bool * N => fst x = true) info -> existsb info_empty info = false ->
  filter info_special info = [] /\ Forall (fun l => 0 < l) (map snd info).
Proof.
  induction info as [|[b l] t IH]; intros Hall He; [split; constructor|].
  inversion Hall as [|? ? Hb Hall']; subst. cbn in Hb. subst b. cbn [existsb info_empty andb] in He. apply orb_false_iff in He as [Hl Ht].
  destruct (IH Hall' Ht) as [IH1 IH2]. cbn [filter info_special negb orb map snd]. rewrite Hl, IH1. split; [reflexivity|].
  constructor; [apply N.eqb_neq in Hl; lia|exact IH2].
Qed.
Lemma list_info_none_true offs : Forall (fun x : bool * N => fst x = true) (list_info offs None).
Proof. unfold list_info. apply Forall_forall. intros x Hx. apply in_map_iff in Hx as (l & <- & _). reflexivity. Qed.

Lemma no_masked_slots es : forall info,
  Forall info_wf (slot_pairs es info) -> Forall (fun x : bool * N => fst x = true) info ->
  existsb info_empty info = false -> slots es = length info ->
  Forall (fun e => match e with Slot _ d => d = 0 | _ => True end) es.
Proof.
  induction es as [|[r d|r d] t IH]; intros info Hwf Hall He Hsl; [constructor| |].
  - destruct info as [|[b l] info']; [rewrite slots_cons_slot in Hsl; discriminate|].
    rewrite slots_cons_slot in Hsl. cbn [length] in Hsl.
    cbn [slot_pairs] in Hwf. inversion Hwf as [|? ? Hw Hwf']; subst. inversion Hall as [|? ? Hb Hall']; subst. cbn in Hb. subst b.
    cbn [existsb info_empty andb] in He. apply orb_false_iff in He as [Hl Ht].
    constructor; [|apply (IH info'); [exact Hwf'|exact Hall'|exact Ht|lia]].
    cbn [info_wf] in Hw. destruct Hw as [Hw _]. destruct (N.eq_dec d 0) as [E|E]; [exact E|]. specialize (Hw E). subst l. discriminate.
  - rewrite slots_cons_spec in Hsl. cbn [slot_pairs] in Hwf. constructor; [exact I|apply (IH info); assumption].
Qed.

Lemma glue_offsets hr hd total offs v es cr cd ms cl sp inner :
  let r := raw_of_call (COffsets offs v) in
  let info := list_info offs v in
  let m := cmeaning (COffsets offs v) in
  let items := N.to_nat (last (prefix_sums 0 (map snd info)) 0) in
  let spn := length (filter info_special info) in
  length offs = S (slots es) ->
  match v with Some vs => length vs = slots es | None => True end ->
  forallb (fun '(m, (_, len)) => m || (len =? 0)) (combine (slot_bits es) info) = true ->
  cd = num_def_levels m + mlev inner -> cd <= SPECIAL_THRESHOLD ->
  (0 < cd -> hd = true) -> hr = true ->
  match v with Some _ => (cl = 0 \/ cl = length info + sp)%nat | None => True end ->
  specs es = sp -> (hd = false -> Forall plain es) ->
  (1 <= length es)%nat -> (length es <= total)%nat ->
  (length (st_es (a_layer r (es, cr, cd, ms))) <= total)%nat ->
  layer_pre hr hd total r es cr cd cl /\ ul_pre hr hd r inner es cd /\
  a_out r es cd = (option_map (fun _ => map2 andb (slot_bits es) (map fst info)) v, Some (prefix_sums 0 (map snd info))) /\
  slot_bits (st_es (a_layer r (es, cr, cd, ms))) = repeat true items /\
  specs (st_es (a_layer r (es, cr, cd, ms))) = (sp + spn)%nat /\
  (hd = false -> Forall plain (st_es (a_layer r (es, cr, cd, ms)))) /\
  length (st_es (a_layer r (es, cr, cd, ms))) = (items + sp + spn)%nat.
Proof.
  intros r info m items spn Hol Hvl Hmasked Hcd HcdT Hhd Hhr Hbk Hsp Hplain H1 Hle Htot.
  assert (Hil : length info = slots es) by (apply list_info_length; assumption).
  remember (existsb info_empty info) as he eqn:Ehe.
  set (norm := prefix_sums 0 (map snd info)).
  assert (Er : r = ROffsets norm v he (length norm - 1) spn) by (subst he; reflexivity).
  assert (Hlens : windows_len norm = map snd info) by apply windows_prefix_sums.
  assert (Em : m = fst (fst (list_levels v he cd))).
  { unfold list_levels. subst m he. cbn [cmeaning raw_of_call lm]. fold info. destruct (is_some v), (existsb info_empty info); reflexivity. }
  clearbody m r.
  destruct (list_levels v he cd) as [[m0 nl] el] eqn:Elv. cbn [fst] in Em. subst m0.
  (* facts about the levels *)
  assert (Hlv : (he = true -> 1 <= el) /\ (is_some v = true -> nl <> 0 /\ nl <= SPECIAL_THRESHOLD /\ hd = true) /\
                (m = AllValidList <-> (is_some v = false /\ he = false)) /\ (hd = false -> is_some v = false /\ he = false)).
  { unfold list_levels in Elv. destruct (is_some v) eqn:Ev, he eqn:Eh; inversion Elv as [[E1 E2 E3]]; clear Elv;
      rewrite <- E1 in Hcd; cbn [num_def_levels] in Hcd.
    - assert (hd = true) by (apply Hhd; lia). repeat split; intros; try discriminate; try lia; try assumption; try congruence;
        try (match goal with H : _ /\ _ |- _ => destruct H; discriminate end).
    - assert (hd = true) by (apply Hhd; lia). repeat split; intros; try discriminate; try lia; try assumption; try congruence;
        try (match goal with H : _ /\ _ |- _ => destruct H; discriminate end).
    - assert (hd = true) by (apply Hhd; lia). repeat split; intros; try discriminate; try lia; try assumption; try congruence;
        try (match goal with H : _ /\ _ |- _ => destruct H; discriminate end).
    - repeat split; intros; try discriminate; try lia; try reflexivity. }
  destruct Hlv as (Hel & Hnl & Hav & Hnodef).
  set (nl' := if is_some v then nl else 1).
  assert (Hnl' : nl' <> 0) by (subst nl'; destruct (is_some v); [apply Hnl; reflexivity|lia]).
  assert (Hwl : length (windows_len offs) = slots es) by (rewrite windows_len_length, Hol; lia).
  assert (Hes1 : (match v with Some vs => sv vs nl es | None => es end) = sv (map fst info) nl' es).
  { subst nl' info. unfold list_info. destruct v as [vs|]; cbn [is_some].
    - rewrite map_fst_map2; [reflexivity|lia].
    - rewrite sv_true; [reflexivity|]. apply Forall_forall. intros x Hx. apply in_map_iff in Hx as ([b l] & <- & Hx). apply in_map_iff in Hx as (l' & E & _). inversion E. reflexivity. }
  assert (Hwf : Forall info_wf (slot_pairs es info)).
  { apply info_wf_of_spec; [lia|exact Hmasked|apply list_info_valid_len]. }
  destruct (list_step_facts cr nl' el Hnl' es info (eq_sym Hil) Hwf) as (F1 & F2 & F3 & F4 & F5).
  { intros H. apply Hel. congruence. }
  cbn zeta in F1, F2, F3, F4, F5. rewrite <- Hes1 in F1, F2, F3, F4, F5.
  set (es1 := match v with Some vs => sv vs nl es | None => es end) in *.
  assert (Ees2 : st_es (a_layer r (es, cr, cd, ms)) = so (map snd info) cr el es1).
  { rewrite Er. cbn [a_layer st_es]. unfold list_levels in Elv. fold norm. rewrite Hlens. subst es1.
    destruct (is_some v), he; inversion Elv; subst; reflexivity. }
  rewrite Ees2 in *.
  assert (Hitems : N.to_nat (sumN' (map snd info)) = items).
  { subst items. rewrite last_prefix_sums, N.add_0_l. reflexivity. }
  rewrite Hitems in F1.
  assert (Hlen2 : length (so (map snd info) cr el es1) = (items + sp + spn)%nat).
  { assert (Hs2 : slots (so (map snd info) cr el es1) = items) by (rewrite <- slot_bits_length, F1, repeat_length; reflexivity).
    rewrite <- (slots_specs_length (so (map snd info) cr el es1)), F2, Hsp, Hs2. subst spn. lia. }
  assert (Hnlen : (length norm - 1 = slots es)%nat) by (subst norm; rewrite prefix_sums_length, map_length; lia).
  repeat split; try assumption.
  - (* layer_pre *)
    rewrite Er. cbn [layer_pre]. rewrite Elv. fold norm. rewrite Hlens. fold es1.
    split; [exact Hhr|]. split; [rewrite map_length; lia|]. split; [rewrite map_length; lia|]. split; [exact H1|]. split; [exact Hle|].
    split.
    { destruct v as [vs|]; [|exact I]. destruct (Hnl eq_refl) as (Hn1 & Hn2 & Hn3). repeat split; try assumption; [lia|].
      destruct Hbk as [Hbk|Hbk]; [left; exact Hbk|right]. lia. }
    split; [|split; [exact Htot | rewrite F2, Hsp; reflexivity]].
    destruct hd; [exact F3|].
    destruct (Hnodef eq_refl) as [Hv0 Hhe0].
    assert (Hvn : v = None) by (destruct v; [discriminate|reflexivity]).
    assert (Hnospec : filter info_special info = [] /\ Forall (fun l => 0 < l) (map snd info)).
    { apply info_all_true_no_empty; [subst info; rewrite Hvn; apply list_info_none_true|congruence]. }
    destruct Hnospec as [Hns Hpos]. split; [exact Hpos|]. subst spn. rewrite Hns. reflexivity.
  - (* ul_pre *)
    rewrite Er. cbn [ul_pre]. rewrite Elv. fold norm. rewrite Hlens. fold es1.
    split; [exact Hhr|]. split; [rewrite map_length; lia|]. split; [exact F3|]. split; [|split].
    + intros Hmav. apply Hav in Hmav as [Hv0 Hhe0].
      (* a slot behind a null ancestor would be an empty valid list *)
      assert (Hvn : v = None) by (destruct v; [discriminate|reflexivity]).
      apply (no_masked_slots es info); [exact Hwf|subst info; rewrite Hvn; apply list_info_none_true|congruence|lia].
    + destruct v; [apply Hnl; reflexivity|exact I].
    + intros Hhd0. destruct (Hnodef Hhd0) as [Hv0 Hhe0]. split; [apply Hav; split; assumption|]. split; [|apply Hplain; exact Hhd0].
      assert (Hvn : v = None) by (destruct v; [discriminate|reflexivity]).
      apply info_all_true_no_empty; [subst info; rewrite Hvn; apply list_info_none_true|congruence].
  - (* a_out *)
    rewrite Er. cbn [a_out]. rewrite Elv. fold norm. rewrite Hlens. fold es1. rewrite F4. cbn [fst snd]. rewrite <- app_removelast_last.
    2:{ rewrite (prefix_sums_cons 0). discriminate. }
    f_equal. destruct v; [cbn [option_map]; rewrite F5; reflexivity|reflexivity].
  - rewrite F2, Hsp. reflexivity.
  - intros Hhd0. destruct (Hnodef Hhd0) as [Hv0 Hhe0].
    assert (Hvn : v = None) by (destruct v; [discriminate|reflexivity]).
    subst es1. rewrite Hvn. apply so_plain; [apply Hplain; exact Hhd0| |].
    + destruct (plain_specs es (Hplain Hhd0)) as [_ H]. rewrite map_length. lia.
    + apply info_all_true_no_empty; [subst info; rewrite Hvn; apply list_info_none_true|congruence].
Qed.


Lemma no_fsl_raws cs : no_fsl cs = true ->
  Forall (fun r => match r with RFsl _ _ _ => False | _ => True end) (map raw_of_call cs).
Proof.
  unfold no_fsl. induction cs as [|c t IH]; intros H; [constructor|].
  cbn [existsb] in H. apply negb_true_iff, orb_false_iff in H as [Hc Ht].
  cbn [map]. constructor; [destruct c; cbn in *; try exact I; discriminate|apply IH; rewrite Ht; reflexivity].
Qed.

Lemma existsb_map_meaning (cs : list call) :
  existsb (fun m => meaning_eqb m AllValidList) (map cmeaning cs) = existsb (fun c' => meaning_eqb (cmeaning c') AllValidList) cs.
Proof. induction cs as [|c t IH]; [reflexivity|]. cbn [map existsb]. rewrite IH. reflexivity. Qed.

Lemma glue hr hd total : forall cs mask es cr cd ms cl sp outside outs,
  spec_layers mask cs = Some outs -> no_fsl cs = true ->
  slot_bits es = mask -> specs es = sp -> (outside = false -> sp = O) -> (hd = false -> Forall plain es) ->
  cd = mlev (map cmeaning cs) -> cd <= SPECIAL_THRESHOLD ->
  (0 < mlev (map cmeaning cs) -> hd = true) -> (0 < mlists (map cmeaning cs) -> hr = true) ->
  (cl = O \/ cl = length es) ->
  k6 outside cs = false ->
  (1 <= length es)%nat ->
  (length (st_es (a_layers (map raw_of_call cs) (es, cr, cd, ms))) <= total)%nat ->
  layers_pre hr hd total (map raw_of_call cs) (es, cr, cd, ms) cl /\
  uls_pre hr hd (map raw_of_call cs) (es, cr, cd, ms) /\
  a_outs (map raw_of_call cs) (es, cr, cd, ms) = outs /\
  ((cl = length es \/ forallb is_nonull cs = false) ->
   layers_len (map raw_of_call cs) (es, cr, cd, ms) cl = length (st_es (a_layers (map raw_of_call cs) (es, cr, cd, ms)))) /\
  slots (st_es (a_layers (map raw_of_call cs) (es, cr, cd, ms))) = spec_items (length mask) cs /\
  specs (st_es (a_layers (map raw_of_call cs) (es, cr, cd, ms))) = (sp + sumr (map raw_num_specials (map raw_of_call cs)))%nat.
Proof.
  induction cs as [|c cs IH]; intros mask es cr cd ms cl sp outside outs Hspec Hnf Hmask Hsp Hout Hplain Hcd HcdT Hhd Hhr Hcl HK6 H1 Htot.
  - cbn [map layers_pre uls_pre a_outs layers_len a_layers fold_left st_es spec_items sumr fold_right forallb] in *.
    inversion Hspec; subst. rewrite slot_bits_length. repeat split; try reflexivity; [|lia].
    intros [H|H]; [exact H|discriminate].
  - subst sp. pose proof (no_fsl_raws _ Hnf) as Hraws. cbn [map] in Hraws. pose proof (Forall_inv_tail Hraws) as Hraws'.
    unfold no_fsl in Hnf. cbn [existsb] in Hnf. apply negb_true_iff, orb_false_iff in Hnf. destruct Hnf as [Hc Hnf].
    assert (Hnf' : no_fsl cs = true) by (unfold no_fsl; rewrite Hnf; reflexivity).
    cbn [map mlev mlists] in Hcd, Hhd, Hhr.
    cbn [k6] in HK6. apply orb_false_iff in HK6 as [HK6a HK6].
    cbn [map] in Htot |- *. rewrite a_layers_cons in Htot |- *.
    pose proof (a_layers_mono _ Hraws' (a_layer (raw_of_call c) (es, cr, cd, ms))) as Hmono.
    assert (Hmask_len : length mask = slots es) by (rewrite <- Hmask; apply slot_bits_length).
    pose proof (slots_specs_length es) as Hss.
    destruct c as [v | n | offs v | v dim n]; cbn [is_fsl] in Hc; [| | |discriminate]; cbn [spec_layers] in Hspec.
    + (* add_validity_bitmap *)
      destruct (Nat.eqb (length v) (length mask)) eqn:El; [|discriminate]. apply Nat.eqb_eq in El.
      destruct (spec_layers (map2 andb mask v) cs) as [outs'|] eqn:Es; [|discriminate].
      cbn [option_map] in Hspec. injection Hspec as Hspec. subst outs.
      assert (Ebk : (cl = 0 \/ cl = length v + specs es)%nat) by (destruct Hcl as [Hcl|Hcl]; [left; exact Hcl|right; lia]).
      cbn [cmeaning raw_of_call lm num_def_levels m_is_list] in Hcd, Hhd, Hhr.
      assert (Hhd1 : hd = true) by (apply Hhd; lia).
      assert (Hcdnz : mlev (map cmeaning cs) + 1 <> 0) by lia.
      cbn [raw_of_call a_layer a_validity] in Htot, Hmono |- *. cbn [st_es] in Hmono.
      rewrite sv_length in Hmono.
      assert (A1 : slot_bits (sv v cd es) = map2 andb mask v) by (rewrite sv_bits; [rewrite Hmask; reflexivity|lia|lia]).
      assert (A2 : specs (sv v cd es) = specs es) by apply sv_specs.
      assert (A4 : hd = false -> Forall plain (sv v cd es)) by (intros; subst hd; discriminate).
      assert (A5 : cd - 1 = mlev (map cmeaning cs)) by lia.
      assert (A6 : cd - 1 <= SPECIAL_THRESHOLD) by lia.
      assert (A7 : 0 < mlev (map cmeaning cs) -> hd = true) by (intros; exact Hhd1).
      assert (A8 : 0 < mlists (map cmeaning cs) -> hr = true) by (intros H; apply Hhr; lia).
      assert (A12 : (1 <= length (sv v cd es))%nat) by (rewrite sv_length; exact H1).
      cbn [c_is_list] in HK6. rewrite orb_false_r in HK6.
      assert (A9 : ((length v + specs es)%nat = O \/ (length v + specs es)%nat = length (sv v cd es))) by (right; rewrite sv_length; lia).
      destruct (IH (map2 andb mask v) (sv v cd es) cr (cd - 1) (ms ++ [NullableItem]) (length v + specs es)%nat (specs es) outside outs'
                   Es Hnf' A1 A2 Hout A4 A5 A6 A7 A8 A9 HK6 A12 Htot) as (I1 & I2 & I3 & I4 & I5 & I6).
      cbn [layers_pre uls_pre a_outs layers_len layer_len]. cbn [a_layer a_validity layer_pre ul_pre a_out].
      rewrite map2_length in I5 by lia.
      split; [split; [|exact I1]|].
      { split; [exact Hhd1|]. split; [lia|]. split; [exact HcdT|]. split; [exact Ebk|lia]. }
      split; [split; [|exact I2]|].
      { split; [exact Hhd1|].
        apply andb_false_iff in HK6a. destruct HK6a as [E|E]; [left; apply Hout; exact E|right].
        rewrite map_map. change (map (fun x => lm (raw_of_call x)) cs) with (map cmeaning cs).
        apply no_av_mrc. rewrite existsb_map_meaning. exact E. }
      split; [rewrite A1, I3; reflexivity|]. split; [intros _; apply I4; left; rewrite sv_length; lia|]. split.
      { rewrite I5. cbn [spec_items]. destruct cs; [cbn [spec_items]; lia|reflexivity]. }
      rewrite I6. unfold sumr. cbn [map raw_num_specials raw_of_call fold_right]. lia.
    + (* add_no_null *)
      destruct (Nat.eqb n (length mask)) eqn:El; [|discriminate]. apply Nat.eqb_eq in El.
      destruct (spec_layers mask cs) as [outs'|] eqn:Es; [|discriminate].
      cbn [option_map] in Hspec. injection Hspec as Hspec. subst outs.
      cbn [cmeaning raw_of_call lm num_def_levels m_is_list] in Hcd, Hhd, Hhr.
      cbn [raw_of_call a_layer a_validity] in Htot, Hmono |- *.
      cbn [c_is_list] in HK6. rewrite orb_false_r in HK6.
      assert (A5 : cd = mlev (map cmeaning cs)) by lia.
      assert (A7 : 0 < mlev (map cmeaning cs) -> hd = true) by (intros H; apply Hhd; lia).
      assert (A8 : 0 < mlists (map cmeaning cs) -> hr = true) by (intros H; apply Hhr; lia).
      destruct (IH mask es cr cd (ms ++ [AllValidItem]) cl (specs es) outside outs'
                   Es Hnf' Hmask eq_refl Hout Hplain A5 HcdT A7 A8 Hcl HK6 H1 Htot) as (I1 & I2 & I3 & I4 & I5 & I6).
      cbn [layers_pre uls_pre a_outs layers_len layer_len]. cbn [a_layer a_validity layer_pre ul_pre a_out].
      split; [split; [exact I|exact I1]|]. split; [split; [exact I|exact I2]|].
      split; [rewrite I3; reflexivity|]. split; [intros H; apply I4; cbn [forallb is_nonull andb] in H; exact H|]. split.
      { rewrite I5. cbn [spec_items]. destruct cs; [cbn [spec_items]; lia|reflexivity]. }
      rewrite I6. unfold sumr. cbn [map raw_num_specials raw_of_call fold_right]. lia.
    + (* add_offsets *)
      set (info := list_info offs v) in *.
      destruct (sorted offs && Nat.eqb (length offs) (S (length mask))
                && match v with Some vs => Nat.eqb (length vs) (length mask) | None => true end
                && forallb (fun '(m, (_, len)) => m || (len =? 0)) (combine mask info)) eqn:Ec; [|discriminate].
      apply andb_true_iff in Ec as [Ec Hmasked]. apply andb_true_iff in Ec as [Ec Hvl]. apply andb_true_iff in Ec as [Hsorted Hol].
      apply Nat.eqb_eq in Hol.
      set (items := N.to_nat (last (prefix_sums 0 (map snd info)) 0)) in *.
      destruct (spec_layers (repeat true items) cs) as [outs'|] eqn:Es; [|discriminate].
      cbn [option_map] in Hspec. injection Hspec as Hspec. subst outs.
      set (spn := length (filter info_special info)) in *.
      set (m := cmeaning (COffsets offs v)) in *.
      assert (Hmlist : m_is_list m = true) by (subst m; cbn [cmeaning raw_of_call lm]; destruct (is_some v), (existsb info_empty (list_info offs v)); reflexivity).
      rewrite Hmlist in Hhr.
      assert (Hhr1 : hr = true) by (apply Hhr; lia).
      cbn [c_is_list] in HK6. rewrite orb_true_r in HK6.
      destruct (a_layer_shape (raw_of_call (COffsets offs v)) es cr cd ms) as (es' & Est). fold (cmeaning (COffsets offs v)) in Est. fold m in Est.
      rewrite Hmlist in Est.
      assert (Hes' : st_es (a_layer (raw_of_call (COffsets offs v)) (es, cr, cd, ms)) = es') by (rewrite Est; reflexivity).
      rewrite Est in Htot, Hmono. cbn [st_es] in Hmono.
      assert (Htot1 : (length (st_es (a_layer (raw_of_call (COffsets offs v)) (es, cr, cd, ms))) <= total)%nat).
      { rewrite Hes'. etransitivity; [|exact Htot]. etransitivity; [|apply (a_layers_mono _ Hraws')]. cbn [st_es]. lia. }
      assert (Hle : (length es <= total)%nat).
      { pose proof (a_layers_mono _ Hraws (es, cr, cd, ms)) as H. cbn [st_es] in H. rewrite a_layers_cons, Est in H. lia. }
      destruct (glue_offsets hr hd total offs v es cr cd ms cl (specs es) (map cmeaning cs)) as (G1 & G2 & G3 & G4 & G5 & G6 & G7); try assumption; try reflexivity.
      { rewrite Hol, Hmask_len. reflexivity. }
      { destruct v; [apply Nat.eqb_eq in Hvl; lia|exact I]. }
      { rewrite Hmask. exact Hmasked. }
      { intros H. apply Hhd. lia. }
      { destruct v as [vs0|]; [|exact I]. destruct Hcl as [Hcl|Hcl]; [left; exact Hcl|right].
        apply Nat.eqb_eq in Hvl.
        assert (Hli : length (list_info offs (Some vs0)) = slots es) by (apply list_info_length; lia).
        rewrite Hli. lia. }
      fold info items spn in G3, G4, G5, G7. rewrite Hes' in G4, G5, G6, G7.
      assert (A5 : cd - num_def_levels m = mlev (map cmeaning cs)) by lia.
      assert (A6 : cd - num_def_levels m <= SPECIAL_THRESHOLD) by lia.
      assert (A7 : 0 < mlev (map cmeaning cs) -> hd = true) by (intros H; apply Hhd; lia).
      assert (A8 : 0 < mlists (map cmeaning cs) -> hr = true) by (intros; exact Hhr1).
      assert (A3 : true = false -> (specs es + spn)%nat = O) by discriminate.
      assert (Hge : (length es <= length es')%nat).
      { pose proof (a_layers_mono [raw_of_call (COffsets offs v)] (Forall_cons _ (Forall_inv Hraws) (Forall_nil _)) (es, cr, cd, ms)) as H.
        unfold a_layers in H. cbn [fold_left] in H. rewrite Est in H. exact H. }
      assert (A12 : (1 <= length es')%nat) by lia.
      assert (A9 : ((items + specs es + spn)%nat = O \/ (items + specs es + spn)%nat = length es')) by (right; symmetry; exact G7).
      destruct (IH (repeat true items) es' (cr - 1) (cd - num_def_levels m) (ms ++ [m]) (items + specs es + spn)%nat (specs es + spn)%nat true outs'
                   Es Hnf' G4 G5 A3 G6 A5 A6 A7 A8 A9 HK6 A12 Htot) as (I1 & I2 & I3 & I4 & I5 & I6).
      cbn [layers_pre uls_pre a_outs layers_len]. rewrite Est.
      assert (Hll : layer_len (raw_of_call (COffsets offs v)) (es, cr, cd, ms) cl = (items + specs es + spn)%nat).
      { transitivity (length (st_es (a_layer (raw_of_call (COffsets offs v)) (es, cr, cd, ms)))).
        - cbn [raw_of_call layer_len]. destruct (a_layer _ (es, cr, cd, ms)) as [[[? ?] ?] ?]. reflexivity.
        - rewrite Hes'. exact G7. }
      rewrite Hll.
      split; [split; [exact G1|exact I1]|]. split; [split; [|exact I2]|].
      { rewrite map_map. change (map (fun x => lm (raw_of_call x)) cs) with (map cmeaning cs). exact G2. }
      split; [rewrite G3, I3, Hmask; reflexivity|]. split; [intros _; apply I4; left; symmetry; exact G7|]. split.
      { rewrite I5. cbn [spec_items]. fold info. fold items. rewrite repeat_length. destruct cs; reflexivity. }
      rewrite I6. unfold sumr. cbn [map fold_right]. cbn [raw_of_call raw_num_specials]. fold info. fold spn. lia.
Qed.

(* ---------------------------------------------------------------------------------------------- *)
(* 4.5 final assembly                                                                              *)

Lemma sumN_fold l a : fold_left N.add l a = a + fold_right N.add 0 l.
Proof. revert a; induction l as [|x t IH]; intros a; cbn; [lia|]. rewrite IH. lia. Qed.

Lemma sumN_max_def rs : sumN (map raw_max_def rs) = mlev (map lm rs).
Proof.
  unfold sumN. rewrite sumN_fold, N.add_0_l. induction rs as [|r t IH]; [reflexivity|].
  cbn [map fold_right mlev]. rewrite IH. f_equal.
  destruct r as [o v he n sp | [v|] n | [v|] dim n]; cbn [raw_max_def lm]; try reflexivity.
  destruct v, he; reflexivity.
Qed.
Lemma sumN_max_rep rs : sumN (map raw_max_rep rs) = mlists (map lm rs).
Proof.
  unfold sumN. rewrite sumN_fold, N.add_0_l. induction rs as [|r t IH]; [reflexivity|].
  cbn [map fold_right mlists]. rewrite IH. f_equal.
  destruct r as [o v he n sp | [v|] n | [v|] dim n]; cbn [raw_max_rep lm m_is_list]; try reflexivity.
  destruct (is_some v), he; reflexivity.
Qed.

Lemma a_layers_ms rs : forall es cr cd ms,
  exists es' cr' cd', a_layers rs (es, cr, cd, ms) = (es', cr', cd', ms ++ map lm rs).
Proof.
  induction rs as [|r t IH]; intros es cr cd ms.
  - exists es, cr, cd. cbn. rewrite app_nil_r. reflexivity.
  - rewrite a_layers_cons. destruct (a_layer_shape r es cr cd ms) as (es1 & E). rewrite E.
    destruct (IH es1 (cr - (if m_is_list (lm r) then 1 else 0)) (cd - num_def_levels (lm r)) (ms ++ [lm r])) as (es' & cr' & cd' & E').
    exists es', cr', cd'. rewrite E'. cbn [map]. rewrite <- app_assoc. reflexivity.
Qed.

Lemma lkind_raw_of_call c : lkind (raw_of_call c) = call_kind c.
Proof. destruct c; reflexivity. Qed.

Definition ends_with_leaf (cs : list call) : bool :=
  match rev cs with CValidity _ :: _ | CNoNull _ :: _ => true | _ => false end.

Lemma last_leaf_values cs n c rest :
  rev cs = c :: rest -> match c with CValidity _ | CNoNull _ => True | _ => False end ->
  raw_num_values (raw_of_call c) = spec_items n cs.
Proof.
  intros Hrev Hc. assert (E : cs = rev rest ++ [c]) by (rewrite <- (rev_involutive cs), Hrev; reflexivity).
  subst cs. clear Hrev. revert n. induction (rev rest) as [|x t IH]; intros n.
  - destruct c; try contradiction; reflexivity.
  - cbn [app]. destruct x; cbn [spec_items]; apply IH.
Qed.

Lemma normalize_enc es : Forall ent_enc_ok es -> normalize_specials (map enc_def es) = map e_def es.
Proof.
  unfold normalize_specials. induction 1 as [|e t He _ IH]; [reflexivity|].
  cbn [map]. rewrite IH. f_equal. rewrite (enc_special e He). destruct e as [r d|r d]; cbn [is_slot negb enc_def e_def]; [reflexivity|lia].
Qed.

Lemma reld0_self es : Forall2 (reld 0) (map e_def es) es.
Proof.
  induction es as [|e t IH]; [constructor|]. cbn [map]. constructor; [|exact IH].
  destruct e as [r d|r d]; cbn [reld e_def]; [|reflexivity]. destruct (d =? 0) eqn:E; [apply N.eqb_eq in E; lia|reflexivity].
Qed.

Lemma ctx_new_cinv total rows max_rep max_def : (rows <= total)%nat ->
  cinv (0 <? max_rep) (0 <? max_def) total (ctx_new total max_rep max_def) (repeat (Slot 0 0) rows) max_rep max_def [] O.
Proof.
  intros Hle. unfold ctx_new.
  assert (Hz1 : zeros total = map e_rep (repeat (Slot 0 0) rows) ++ zeros (total - rows)).
  { unfold zeros. rewrite map_repeat'. cbn [e_rep]. rewrite <- repeat_app. replace (rows + (total - rows))%nat with total by lia. reflexivity. }
  assert (Hz2 : zeros total = map enc_def (repeat (Slot 0 0) rows) ++ zeros (total - rows)).
  { unfold zeros. rewrite map_repeat'. cbn [enc_def]. rewrite <- repeat_app. replace (rows + (total - rows))%nat with total by lia. reflexivity. }
  assert (Hzl : length (zeros total) = total) by apply repeat_length.
  assert (Hspecs : specs (repeat (Slot 0 0) rows) = O).
  { clear. induction rows as [|k IH]; [reflexivity|]. cbn [repeat]. rewrite specs_cons_slot. exact IH. }
  constructor; cbn [c_rep c_srep c_def c_sdef c_specials c_len c_cur_rep c_cur_def c_meaning]; try reflexivity.
  - destruct (0 <? max_rep); [|split; reflexivity]. exists (zeros (total - rows)). repeat split; assumption.
  - destruct (0 <? max_def).
    + exists (zeros (total - rows)). repeat split; assumption.
    + repeat split. apply Forall_forall. intros e He. apply repeat_spec in He. subst e. reflexivity.
  - symmetry. exact Hspecs.
  - apply Forall_forall. intros e He. apply repeat_spec in He. subst e. cbn. unfold SPECIAL_THRESHOLD. lia.
Qed.

Lemma empty_builder_meanings rs :
  forallb (fun r => match r with RValidity None _ => true | _ => false end) rs = true ->
  map lm rs = repeat AllValidItem (length rs) /\ map (fun _ : raw => AllValidItem) rs = repeat AllValidItem (length rs).
Proof.
  induction rs as [|r t IH]; intros H; [split; reflexivity|].
  cbn [forallb] in H. apply andb_true_iff in H as [Hr Ht]. destruct (IH Ht) as [I1 I2].
  destruct r as [| [v|] n |]; try discriminate. cbn [map lm length repeat]. rewrite I1, I2. split; reflexivity.
Qed.
Lemma repeat_avi_counts n : mlev (repeat AllValidItem n) = 0 /\ mlists (repeat AllValidItem n) = 0 /\ max_visible_level (repeat AllValidItem n) = None.
Proof.
  unfold max_visible_level. induction n as [|k (I1 & I2 & I3)]; [repeat split|]. cbn [repeat mlev mlists num_def_levels m_is_list first_list_pos].
  rewrite I1, I2. repeat split. destruct (first_list_pos (repeat AllValidItem k)); [discriminate|reflexivity].
Qed.

(* the declared domain of the round-trip theorem *)
Definition c27_dom (cs : list call) : bool :=
  no_fsl cs && ends_with_leaf cs
  && match cs with c :: _ => Nat.leb 1 (call_slots c) | [] => false end
  && (mlev (map cmeaning cs) <=? SPECIAL_THRESHOLD).

Lemma rev_last_cons {A} (l : list A) x rest : rev l = x :: rest -> l = rev rest ++ [x].
Proof. intros H. rewrite <- (rev_involutive l), H. reflexivity. Qed.

Theorem roundtrip_correct cs outs :
  spec_top cs = Some outs -> c27_dom cs = true ->
  Known_C27_allvalid_list_inside_nullable_struct cs = false ->
  roundtrip cs = Ok (rev outs).
Proof.
  intros Hspec Hdom HK6.
  unfold c27_dom in Hdom. apply andb_true_iff in Hdom as [Hdom HT]. apply andb_true_iff in Hdom as [Hdom Hrows].
  apply andb_true_iff in Hdom as [Hnf Hleaf]. apply N.leb_le in HT.
  destruct cs as [|c0 cs']; [discriminate|]. apply Nat.leb_le in Hrows.
  set (cs := c0 :: cs') in *. set (rows := call_slots c0) in *.
  unfold spec_top in Hspec. fold rows in Hspec. change (spec_layers (repeat true rows) cs = Some outs) in Hspec.
  set (rs := map raw_of_call cs).
  set (max_rep := sumN (map raw_max_rep rs)). set (max_def := sumN (map raw_max_def rs)).
  assert (Hmd : max_def = mlev (map cmeaning cs)) by (unfold max_def, rs; rewrite sumN_max_def, map_map; reflexivity).
  assert (Hmr : max_rep = mlists (map cmeaning cs)) by (unfold max_rep, rs; rewrite sumN_max_rep, map_map; reflexivity).
  set (hr := 0 <? max_rep). set (hd := 0 <? max_def).
  set (es0 := repeat (Slot 0 0) rows).
  set (st0 := (es0, max_rep, max_def, @nil meaning)).
  set (es_f := st_es (a_layers rs st0)).
  set (total := length es_f).
  (* glue *)
  assert (Hbits0 : slot_bits es0 = repeat true rows).
  { subst es0. clear. induction rows as [|k IH]; [reflexivity|]. unfold slot_bits in *. cbn [repeat filter is_slot map e_def]. rewrite IH. reflexivity. }
  assert (Hspecs0 : specs es0 = O).
  { subst es0. clear. induction rows as [|k IH]; [reflexivity|]. cbn [repeat]. rewrite specs_cons_slot. exact IH. }
  assert (Hplain0 : hd = false -> Forall plain es0).
  { intros _. apply Forall_forall. intros e He. apply repeat_spec in He. subst e. reflexivity. }
  assert (Hlen0 : length es0 = rows) by apply repeat_length.
  assert (B1 : false = false -> O = O) by reflexivity.
  assert (B2 : max_def <= SPECIAL_THRESHOLD) by (rewrite Hmd; exact HT).
  assert (B3 : 0 < mlev (map cmeaning cs) -> hd = true) by (intros H; subst hd; apply N.ltb_lt; rewrite Hmd; exact H).
  assert (B4 : 0 < mlists (map cmeaning cs) -> hr = true) by (intros H; subst hr; apply N.ltb_lt; rewrite Hmr; exact H).
  assert (B5 : (1 <= length es0)%nat) by (rewrite Hlen0; exact Hrows).
  assert (B6 : (length (st_es (a_layers (map raw_of_call cs) (es0, max_rep, max_def, []))) <= total)%nat) by (subst total es_f st0 rs; lia).
  destruct (glue hr hd total cs (repeat true rows) es0 max_rep max_def [] O O false outs
                 Hspec Hnf Hbits0 Hspecs0 B1 Hplain0 Hmd B2 B3 B4 (or_introl eq_refl) HK6 B5 B6)
    as (G1 & G2 & G3 & G4 & G5 & G6).
  fold rs in G1, G2, G3, G4, G5, G6. fold st0 in G1, G2, G3, G4, G5, G6. fold es_f in G5, G6.
  rewrite repeat_length in G5.
  (* builder *)
  destruct (apply_calls_spec cs (repeat true rows) builder_default [] outs Hspec Hnf (or_introl eq_refl)) as (b & fl & Eb & Hbr & Hbl).
  cbn [b_repdefs builder_default app] in Hbr. fold rs in Hbr.
  assert (Hbl' : b_len b = Some (spec_items O cs)) by (rewrite Hbl; reflexivity).
  (* the last layer is a leaf validity layer *)
  unfold ends_with_leaf in Hleaf. destruct (rev cs) as [|cl crest] eqn:Erev; [discriminate|].
  assert (Hlastleaf : match cl with CValidity _ | CNoNull _ => True | _ => False end) by (destruct cl; try discriminate; exact I).
  assert (Hrevrs : rev rs = raw_of_call cl :: map raw_of_call crest).
  { subst rs. rewrite <- map_rev, Erev. reflexivity. }
  assert (Htotal : total = (raw_num_values (raw_of_call cl) + sumnat (map raw_num_specials rs))%nat).
  { subst total. rewrite <- (slots_specs_length es_f), G5, G6, sumnat_sumr.
    rewrite (last_leaf_values cs rows cl crest Erev Hlastleaf). lia. }
  assert (Hrows_total : (rows <= total)%nat).
  { subst total es_f. pose proof (a_layers_mono rs (no_fsl_raws _ Hnf) st0) as H. cbn [st_es] in H. subst st0. cbn [st_es] in H. lia. }
  (* serialize *)
  assert (Hser : serialize_calls [cs] = Ok (a_serialized rs (a_layers rs st0))).
  { unfold serialize_calls. cbn [build_all]. unfold build_builder. rewrite Eb. cbn [bind].
    unfold serialize. cbn [forallb]. rewrite andb_true_r.
    destruct (builder_is_empty b) eqn:Eempty.
    - (* only add_no_null calls: SerializedRepDefs::empty *)
      unfold builder_is_empty in Eempty. rewrite Hbr in Eempty |- *.
      destruct (empty_builder_meanings rs Eempty) as [Em1 Em2].
      destruct (repeat_avi_counts (length rs)) as (C1 & C2 & C3).
      destruct (a_layers_ms rs es0 max_rep max_def []) as (es1 & cr1 & cd1 & E1). fold st0 in E1. rewrite E1. cbn [app].
      unfold a_serialized. fold max_rep max_def.
      assert (Hmd0 : max_def = 0) by (unfold max_def; rewrite sumN_max_def, Em1; exact C1).
      assert (Hmr0 : max_rep = 0) by (unfold max_rep; rewrite sumN_max_rep, Em1; exact C2).
      rewrite Hmd0, Hmr0. change (0 <? 0) with false. cbv iota.
      unfold serialized_new. rewrite Em1, Em2, rev_repeat, C3. reflexivity.
    - cbv zeta.
      assert (Hnorm : Forall raw_norm (b_repdefs b)).
      { rewrite Hbr. apply Forall_forall. intros r Hr. apply in_map_iff in Hr as (c & <- & _). apply raw_of_call_norm. }
      rewrite (combined_single b Hnorm). cbn [bind forallb]. rewrite Nat.eqb_refl. cbn [andb assert_ bind].
      rewrite Hbr, Hrevrs. fold max_rep max_def. rewrite <- Htotal.
      destruct (record_layers_ok hr hd total rs (ctx_new total max_rep max_def) es0 max_rep max_def [] O
                  (ctx_new_cinv total rows max_rep max_def Hrows_total) G1) as (c' & Ec' & Hc').
      rewrite Ec'. cbn [bind]. f_equal.
      destruct (a_layers rs (es0, max_rep, max_def, [])) as [[[esf crf] cdf] msf] eqn:Eal.
      fold st0 in Eal. assert (Eesf : esf = es_f) by (subst es_f; rewrite Eal; reflexivity).
      destruct Hc' as [Hrep Hdef Hsp Hlen Henc Hcr Hcd Hms].
      assert (Hnn : forallb is_nonull cs = false).
      { unfold builder_is_empty in Eempty. rewrite Hbr in Eempty. unfold rs in Eempty. rewrite <- Eempty. clear.
        induction cs as [|c t IH]; [reflexivity|]. cbn [map forallb]. rewrite IH. f_equal.
        destruct c as [?|?|? ?|[?|] ? ?]; reflexivity. }
      unfold ctx_build. rewrite Hlen. fold st0. rewrite (G4 (or_intror Hnn)). fold es_f. fold total.
      replace (Nat.eqb total 0) with false by (symmetry; apply Nat.eqb_neq; lia).
      unfold a_serialized. rewrite Eal. fold max_rep max_def. fold hr hd. rewrite Hms.
      assert (Htl : total = length esf) by (rewrite Eesf; reflexivity).
      assert (Hpos : (1 <= total)%nat) by lia.
      f_equal.
      + (* rep *)
        destruct hr.
        * destruct Hrep as (j & Er & Lr & _). assert (j = []).
          { apply (f_equal (@length N)) in Er. rewrite app_length, map_length, Lr in Er. destruct j; [reflexivity|cbn in Er; lia]. }
          subst j. rewrite app_nil_r in Er. rewrite Er. destruct (map e_rep esf) eqn:E; [|reflexivity].
          apply (f_equal (@length N)) in E. rewrite map_length in E. cbn in E. lia.
        * destruct Hrep as [-> _]. reflexivity.
      + (* def *)
        destruct hd.
        * destruct Hdef as (j & Ed & Ld & _). assert (j = []).
          { apply (f_equal (@length N)) in Ed. rewrite app_length, map_length, Ld in Ed. destruct j; [reflexivity|cbn in Ed; lia]. }
          subst j. rewrite app_nil_r in Ed. rewrite Ed, (normalize_enc esf Henc).
          destruct (map e_def esf) eqn:E; [|reflexivity].
          apply (f_equal (@length N)) in E. rewrite map_length in E. cbn in E. lia.
        * destruct Hdef as (-> & _ & _). reflexivity. }
  (* unravel *)
  unfold roundtrip. rewrite Hser. cbn [bind].
  assert (Hitems : items_of cs = Ok (spec_items O cs)).
  { unfold items_of, build_builder. rewrite Eb. cbn [bind]. rewrite Hbl'. reflexivity. }
  rewrite Hitems. cbn [bind].
  destruct (a_layers_ms rs es0 max_rep max_def []) as (esf & crf & cdf & Eal). fold st0 in Eal. cbn [app] in Eal.
  assert (Eesf : esf = es_f) by (subst es_f; rewrite Eal; reflexivity).
  unfold a_serialized. rewrite Eal. fold max_rep max_def. fold hr hd. unfold serialized_new, unr_of_serialized.
  set (M := rev (map lm rs)).
  set (u0 := unr_new (if hr then Some (map e_rep esf) else None) (if hd then Some (map e_def esf) else None) M (spec_items O cs)).
  assert (Hkinds : kinds_of cs = rev (map lkind rs)).
  { unfold kinds_of, rs. rewrite map_map. f_equal. apply map_ext. intros c. symmetry. apply lkind_raw_of_call. }
  rewrite Hkinds, unravel_all_st.
  assert (Hcinv_f : hd = false -> Forall plain esf).
  { intros Hhd0. destruct (record_layers_ok hr hd total rs (ctx_new total max_rep max_def) es0 max_rep max_def [] O
                  (ctx_new_cinv total rows max_rep max_def Hrows_total) G1) as (c' & _ & Hc').
    fold st0 in Hc'. rewrite Eal in Hc'. destruct Hc' as [_ Hdef _ _ _ _ _ _]. rewrite Hhd0 in Hdef. apply Hdef. }
  assert (Hu0 : relu hr hd M (spec_items O cs) 0 0 O u0 (st_es (a_layers rs (es0, max_rep, max_def, [])))).
  { fold st0. rewrite Eal. cbn [st_es]. subst u0. unfold unr_new.
    constructor; cbn [u_rep u_def u_l2r u_meaning u_cdc u_crc u_layer u_items]; try reflexivity.
    - destruct hr; cbn [rel_rep]; [|exact I]. apply map_ext. intros e. lia.
    - destruct hd eqn:Ehd; cbn [rel_def]; [apply reld0_self|apply Hcinv_f; reflexivity].
    - destruct hr; reflexivity.
    - destruct hd; reflexivity. }
  destruct (unravel_layers hr hd M (spec_items O cs) rs es0 max_rep max_def []) with (u0 := u0) as (u1 & Eu & _).
  - reflexivity.
  - unfold max_def. apply sumN_max_def.
  - unfold max_rep. apply sumN_max_rep.
  - apply Forall_forall. intros e He. apply repeat_spec in He. subst e. split; left; reflexivity.
  - exact G2.
  - exact Hu0.
  - rewrite Eu. cbn [bind]. fold st0. rewrite G3. reflexivity.
Qed.

(* ============================================================================================== *)
(* 5. Control words                                                                                 *)

Lemma size_bound m k : 1 <= m -> m < 2 ^ k -> N.size m <= k /\ 1 <= N.size m.
Proof.
  intros H1 H2. rewrite N.size_log2 by lia. split; [|lia].
  assert (N.log2 m < k) by (apply N.log2_lt_pow2; lia). lia.
Qed.

Lemma le_size x m : x <= m -> x < 2 ^ N.size m.
Proof. intros H. pose proof (N.size_gt m). lia. Qed.

Lemma land_mask x w : x < 2 ^ w -> N.land x (2 ^ w - 1) = x.
Proof.
  intros H. replace (2 ^ w - 1) with (N.ones w) by (rewrite N.ones_equiv, N.sub_1_r; reflexivity).
  rewrite N.land_ones. apply N.mod_small. exact H.
Qed.

Lemma from_le_bytes n x : x < 256 ^ N.of_nat n -> from_le (le_bytes n x) = x.
Proof.
  revert x. induction n as [|n IH]; intros x H.
  - cbn in *. lia.
  - cbn [le_bytes from_le]. rewrite IH.
    + pose proof (N.div_mod x 256). lia.
    + replace (N.of_nat (S n)) with (N.succ (N.of_nat n)) in H by lia. rewrite N.pow_succ_r' in H.
      apply N.div_lt_upper_bound; lia.
Qed.
Lemma le_bytes_length n x : length (le_bytes n x) = n.
Proof. revert x; induction n; intros; cbn; [reflexivity|]. rewrite IHn. reflexivity. Qed.

Definition nb_ok (nb : N) : Prop := nb = 1 \/ nb = 2 \/ nb = 4.

Lemma pow_bits nb : nb_ok nb -> 2 ^ (8 * nb) = 256 ^ N.of_nat (N.to_nat nb).
Proof. intros [->|[->| ->]]; reflexivity. Qed.

Section Binary.
  Variables (nb rw dw mr mv : N).
  Hypothesis Hnb : nb_ok nb.
  Hypothesis Hfit : rw + dw <= 8 * nb.
  Hypothesis Hrw : 1 <= rw.
  Hypothesis Hrw16 : rw <= 16.
  Hypothesis Hdw16 : dw <= 15.

  Let it := {| cw_kind_ := CWBinary; cw_bytes := nb; cw_rep_mask := 2 ^ rw - 1; cw_def_mask := 2 ^ dw - 1;
               cw_def_width := dw; cw_max_rep := mr; cw_max_vis := mv; cw_bits_rep := rw; cw_bits_def := dw |}.

  Lemma word_lt r d : r < 2 ^ rw -> d < 2 ^ dw -> r * 2 ^ dw + d < 2 ^ (8 * nb).
  Proof.
    intros Hr Hd. assert (2 ^ (rw + dw) <= 2 ^ (8 * nb)) by (apply N.pow_le_mono_r; lia).
    rewrite N.pow_add_r in H. nia.
  Qed.

  Lemma binary_step r d : r < 2 ^ rw -> d < 2 ^ dw ->
    cw_binary_step it r d = Ok (le_bytes (N.to_nat nb) (r * 2 ^ dw + d), (r =? mr, d <=? mv, d =? 0)).
  Proof.
    intros Hr Hd. unfold cw_binary_step. subst it. cbn [cw_bytes cw_rep_mask cw_def_mask cw_def_width cw_max_rep cw_max_vis].
    pose proof (word_lt r d Hr Hd) as Hw.
    assert (Hpr : 2 ^ rw <= 2 ^ (8 * nb)) by (apply N.pow_le_mono_r; lia).
    assert (Hpd : 2 ^ dw <= 2 ^ (8 * nb)) by (apply N.pow_le_mono_r; lia).
    rewrite !land_mask by assumption. rewrite !N.mod_small by lia.
    unfold shl_w. replace (8 * nb <=? dw) with false by (symmetry; apply N.leb_gt; lia). cbn [bind].
    assert (Hpos : 0 < 2 ^ dw) by (apply N.neq_0_lt_0, N.pow_nonzero; lia).
    rewrite N.mod_small by nia.
    unfold add_w. replace (2 ^ (8 * nb) <=? r * 2 ^ dw + d) with false by (symmetry; apply N.leb_gt; exact Hw).
    reflexivity.
  Qed.

  Lemma binary_parse r d rest : r < 2 ^ rw -> d < 2 ^ dw ->
    parse_word (P_BOTH nb dw (2 ^ dw - 1)) (le_bytes (N.to_nat nb) (r * 2 ^ dw + d) ++ rest) = Ok (Some r, Some d) /\
    parse_desc (P_BOTH nb dw (2 ^ dw - 1)) (le_bytes (N.to_nat nb) (r * 2 ^ dw + d) ++ rest) mr mv = Ok (r =? mr, d <=? mv, d =? 0).
  Proof.
    intros Hr Hd. pose proof (word_lt r d Hr Hd) as Hw.
    assert (Hpd : 2 ^ dw <= 2 ^ (8 * nb)) by (apply N.pow_le_mono_r; lia).
    assert (Hpos : 0 < 2 ^ dw) by (apply N.neq_0_lt_0, N.pow_nonzero; lia).
    assert (Hr16 : r < 65536) by (assert (2 ^ rw <= 2 ^ 16) by (apply N.pow_le_mono_r; lia); change (2 ^ 16) with 65536 in *; lia).
    assert (Hd16 : d < 65536) by (assert (2 ^ dw <= 2 ^ 16) by (apply N.pow_le_mono_r; lia); change (2 ^ 16) with 65536 in *; lia).
    assert (Hlen : Nat.leb (N.to_nat nb) (length (le_bytes (N.to_nat nb) (r * 2 ^ dw + d) ++ rest)) = true).
    { apply Nat.leb_le. rewrite app_length, le_bytes_length. lia. }
    assert (Hfirst : firstn (N.to_nat nb) (le_bytes (N.to_nat nb) (r * 2 ^ dw + d) ++ rest) = le_bytes (N.to_nat nb) (r * 2 ^ dw + d)).
    { rewrite firstn_app, le_bytes_length, Nat.sub_diag. cbn [firstn]. rewrite app_nil_r. apply firstn_all2. rewrite le_bytes_length. lia. }
    assert (Hword : from_le (le_bytes (N.to_nat nb) (r * 2 ^ dw + d)) = r * 2 ^ dw + d).
    { apply from_le_bytes. rewrite <- pow_bits by exact Hnb. exact Hw. }
    assert (Hdiv : (r * 2 ^ dw + d) / 2 ^ dw = r) by (rewrite N.div_add_l by lia; rewrite N.div_small by exact Hd; lia).
    assert (Hland : N.land (r * 2 ^ dw + d) ((2 ^ dw - 1) mod 2 ^ (8 * nb)) = d).
    { rewrite (N.mod_small (2 ^ dw - 1)) by lia.
      replace (2 ^ dw - 1) with (N.ones dw) by (rewrite N.ones_equiv, N.sub_1_r; reflexivity).
      rewrite N.land_ones. rewrite N.add_comm, N.mod_add by lia. apply N.mod_small. exact Hd. }
    unfold parse_word, parse_desc. rewrite Hlen. cbn [assert_ bind]. rewrite Hfirst, Hword.
    unfold shr_w. replace (8 * nb <=? dw) with false by (symmetry; apply N.leb_gt; lia). cbn [bind].
    rewrite Hdiv, Hland, !N.mod_small by assumption. split; reflexivity.
  Qed.
End Binary.

Lemma run_parse_binary nb rw dw mr mv : nb_ok nb -> rw + dw <= 8 * nb -> 1 <= rw -> rw <= 16 -> dw <= 15 ->
  let it := {| cw_kind_ := CWBinary; cw_bytes := nb; cw_rep_mask := 2 ^ rw - 1; cw_def_mask := 2 ^ dw - 1;
               cw_def_width := dw; cw_max_rep := mr; cw_max_vis := mv; cw_bits_rep := rw; cw_bits_def := dw |} in
  forall rep def fuel, length rep = length def -> (length rep < fuel)%nat ->
  Forall (fun r => r < 2 ^ rw) rep -> Forall (fun d => d < 2 ^ dw) def ->
  exists bs, cw_run_binary it rep def = Ok (bs, map2 (fun r d => (r =? mr, d <=? mv, d =? 0)) rep def) /\
             (length rep <= length bs)%nat /\
             parse_all (P_BOTH nb dw (2 ^ dw - 1)) bs mr mv fuel = Ok (rep, def, map2 (fun r d => (r =? mr, d <=? mv, d =? 0)) rep def).
Proof.
  intros Hnb Hfit Hrw Hrw16 Hdw16 it. 
  assert (Hnbpos : (1 <= N.to_nat nb)%nat) by (destruct Hnb as [->|[->| ->]]; cbn; lia).
  induction rep as [|r rep IH]; intros def fuel Hlen Hfuel Hr Hd.
  - destruct def; [|discriminate]. exists []. split; [reflexivity|]. split; [cbn; lia|].
    destruct fuel; [lia|]. cbn [parse_all parser_bytes length]. 
    replace (Nat.eqb (N.to_nat nb) 0) with false by (symmetry; apply Nat.eqb_neq; lia).
    replace (Nat.ltb 0 (N.to_nat nb)) with true by (symmetry; apply Nat.ltb_lt; lia). reflexivity.
  - destruct def as [|d def]; [discriminate|]. inversion Hr as [|? ? Hr1 Hr']; subst. inversion Hd as [|? ? Hd1 Hd']; subst.
    destruct fuel as [|fuel]; [lia|].
    destruct (IH def fuel) as (bs & Erun & Hbl & Eparse); [cbn in Hlen; lia|cbn in Hfuel; lia|assumption|assumption|].
    exists (le_bytes (N.to_nat nb) (r * 2 ^ dw + d) ++ bs).
    cbn [cw_run_binary map2].
    assert (Hbs : cw_binary_step it r d = Ok (le_bytes (N.to_nat nb) (r * 2 ^ dw + d), (r =? mr, d <=? mv, d =? 0))) by (apply binary_step; assumption).
    rewrite Hbs. cbn [bind].
    rewrite Erun. cbn [bind]. split; [reflexivity|]. split; [rewrite app_length, le_bytes_length; cbn [length]; lia|].
    destruct (binary_parse nb rw dw mr mv) with (r := r) (d := d) (rest := bs) as [Ew Ed]; try assumption.
    cbn [parse_all parser_bytes].
    replace (Nat.eqb (N.to_nat nb) 0) with false by (symmetry; apply Nat.eqb_neq; lia).
    replace (Nat.ltb (length (le_bytes (N.to_nat nb) (r * 2 ^ dw + d) ++ bs)) (N.to_nat nb)) with false
      by (symmetry; apply Nat.ltb_ge; rewrite app_length, le_bytes_length; lia).
    rewrite Ew, Ed. cbn [bind].
    replace (skipn (N.to_nat nb) (le_bytes (N.to_nat nb) (r * 2 ^ dw + d) ++ bs)) with bs.
    2:{ rewrite skipn_app, le_bytes_length, Nat.sub_diag. cbn [skipn]. rewrite skipn_all2 by (rewrite le_bytes_length; lia). reflexivity. }
    rewrite Eparse. reflexivity.
Qed.

Lemma word_bytes_ok tw : tw <= 32 -> nb_ok (word_bytes tw) /\ tw <= 8 * word_bytes tw.
Proof.
  intros H. unfold word_bytes, nb_ok. destruct (tw <=? 8) eqn:E1; [apply N.leb_le in E1; split; [auto|lia]|].
  destruct (tw <=? 16) eqn:E2; [apply N.leb_le in E2; split; [auto|lia]|]. split; [auto|lia].
Qed.

Theorem control_words_roundtrip rep def mr md mv len :
  length rep = length def ->
  1 <= mr -> mr < 32768 -> 1 <= md -> md < 32768 ->
  Forall (fun r => r <= mr) rep -> Forall (fun d => d <= md) def ->
  let descs := map2 (fun r d => (r =? mr, d <=? mv, d =? 0)) rep def in
  exists bpw br bd bs,
    cw_encode (Some rep) (Some def) mr md mv len = Ok (bpw, br, bd, true, bs, descs, true) /\
    (do p <- parser_new br bd; parse_all p bs mr mv (S (length bs))) = Ok (rep, def, descs).
Proof.
  intros Hlen Hmr1 Hmr2 Hmd1 Hmd2 Hr Hd descs.
  change 32768 with (2 ^ 15) in *.
  destruct (size_bound mr 15 Hmr1 Hmr2) as [Hrw15 Hrw1]. destruct (size_bound md 15 Hmd1 Hmd2) as [Hdw15 Hdw1].
  set (rw := N.size mr) in *. set (dw := N.size md) in *.
  destruct (word_bytes_ok (rw + dw)) as [Hnb Hfit]; [lia|].
  assert (Hr' : Forall (fun r => r < 2 ^ rw) rep) by (eapply Forall_impl; [|exact Hr]; intros; apply le_size; assumption).
  assert (Hd' : Forall (fun d => d < 2 ^ dw) def) by (eapply Forall_impl; [|exact Hd]; intros; apply le_size; assumption).
  destruct (run_parse_binary (word_bytes (rw + dw)) rw dw mr mv Hnb Hfit Hrw1 ltac:(lia) Hdw15 rep def) with (fuel := S (length rep)) as (bs & Erun & Hbl & _);
    [exact Hlen|lia|exact Hr'|exact Hd'|].
  destruct (run_parse_binary (word_bytes (rw + dw)) rw dw mr mv Hnb Hfit Hrw1 ltac:(lia) Hdw15 rep def) with (fuel := S (length bs)) as (bs' & Erun' & _ & Eparse);
    [exact Hlen|lia|exact Hr'|exact Hd'|].
  rewrite Erun in Erun'. inversion Erun'; subst bs'. clear Erun'.
  exists (word_bytes (rw + dw)), rw, dw, bs.
  unfold cw_encode, build_cw. cbn [is_some].
  replace (mr =? 0) with false by (symmetry; apply N.eqb_neq; lia). replace (md =? 0) with false by (symmetry; apply N.eqb_neq; lia).
  unfold log_2_ceil. replace (mr =? 0) with false by (symmetry; apply N.eqb_neq; lia). replace (md =? 0) with false by (symmetry; apply N.eqb_neq; lia).
  cbn [bind]. fold rw dw. unfold get_mask.
  replace (16 <=? rw) with false by (symmetry; apply N.leb_gt; lia). replace (16 <=? dw) with false by (symmetry; apply N.leb_gt; lia).
  cbn [bind]. rewrite !N.mod_small by lia.
  split.
  - rewrite Erun. cbn [bind cw_bytes cw_bits_rep cw_bits_def]. reflexivity.
  - unfold parser_new, add_w. replace (2 ^ 8 <=? rw + dw) with false by (symmetry; apply N.leb_gt; change (2 ^ 8) with 256; lia).
    cbn [bind]. replace (0 <? rw) with true by (symmetry; apply N.ltb_lt; lia). replace (0 <? dw) with true by (symmetry; apply N.ltb_lt; lia).
    unfold get_mask. replace (16 <=? dw) with false by (symmetry; apply N.leb_gt; lia). cbn [bind]. exact Eparse.
Qed.
