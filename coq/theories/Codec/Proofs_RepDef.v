(* Proofs about Codec/Model_RepDef.v.

   Structure:
   1. Spec: a model-independent description of what a stack of builder calls MEANS ([spec_layers]):
      per layer the effective validity (AND-ed with the enclosing layers) and the normalized offsets.
   2. Abstract serializer on tagged entries ([ent], [sv], [slist]); refinement of the buffer-level model
      ([record_layers] on [ctx]) to it (Theorem A).
   3. Unraveler: per-layer lemmas and the round trip by induction on the stack (Theorem B).
   4. Known-finding classes and the main theorem.
   5. Control words.  *)
From LanceV Require Import Common.Base Codec.Model_RepDef.
Local Open Scope N_scope.

(* ============================================================================================== *)
(* 0. small generic lemmas                                                                          *)

Lemma bind_ok {A B} (x : outcome A) (f : A -> outcome B) (b : B) :
  bind x f = Ok b -> exists a, x = Ok a /\ f a = Ok b.
Proof. destruct x; cbn; intros H; try discriminate. eauto. Qed.

Lemma assert_true b : assert_ b = Ok tt <-> b = true.
Proof. destruct b; cbn; split; intros; congruence. Qed.

Lemma repeat_app_comm {A} (x : A) n l : repeat x n ++ x :: l = x :: repeat x n ++ l.
Proof. induction n; cbn; [reflexivity|]. rewrite IHn. reflexivity. Qed.

Lemma map_repeat' {A B} (f : A -> B) x n : map f (repeat x n) = repeat (f x) n.
Proof. induction n; cbn; [reflexivity|]. rewrite IHn. reflexivity. Qed.

Lemma rev_repeat {A} (x : A) n : rev (repeat x n) = repeat x n.
Proof.
  induction n; cbn; [reflexivity|]. rewrite IHn.
  replace (repeat x n ++ [x]) with (repeat x n ++ x :: []) by reflexivity.
  rewrite repeat_app_comm, app_nil_r. reflexivity.
Qed.

(* ============================================================================================== *)
(* 1. Spec                                                                                          *)

Fixpoint map2 {A B C} (f : A -> B -> C) (l1 : list A) (l2 : list B) : list C :=
  match l1, l2 with
  | a :: t1, b :: t2 => f a b :: map2 f t1 t2
  | _, _ => []
  end.

Fixpoint prefix_sums (acc : N) (l : list N) : list N :=
  match l with [] => [acc] | x :: t => acc :: prefix_sums (acc + x) t end.

Fixpoint sorted (l : list N) : bool :=
  match l with
  | a :: ((b :: _) as t) => (a <=? b) && sorted t
  | _ => true
  end.

(* per list: (valid, normalized length) *)
Definition list_info (offs : list N) (v : option (list bool)) : list (bool * N) :=
  let lens := windows_len offs in
  match v with
  | Some vs => map2 (fun (b : bool) (l : N) => (b, if b then l else 0)) vs lens
  | None => map (fun l => (true, l)) lens
  end.

(* [mask]: for every slot of the layer, whether all enclosing layers are valid there.
   Returns the per-layer outputs, outermost first; None if the calls are not well formed. *)
Fixpoint spec_layers (mask : list bool) (cs : list call) : option (list layer_out) :=
  match cs with
  | [] => Some []
  | CValidity v :: cs' =>
      if Nat.eqb (length v) (length mask) then
        let eff := map2 andb mask v in
        option_map (cons (Some eff, None)) (spec_layers eff cs')
      else None
  | CNoNull n :: cs' =>
      if Nat.eqb n (length mask) then option_map (cons (None, None)) (spec_layers mask cs') else None
  | COffsets offs v :: cs' =>
      let info := list_info offs v in
      if sorted offs && Nat.eqb (length offs) (S (length mask))
         && match v with Some vs => Nat.eqb (length vs) (length mask) | None => true end
         (* lists behind a null ancestor are empty once normalized *)
         && forallb (fun '(m, (_, len)) => m || (len =? 0)) (combine mask info)
      then
        let norm := prefix_sums 0 (map snd info) in
        let items := N.to_nat (last norm 0) in
        option_map (cons (option_map (fun _ => map2 andb mask (map fst info)) v, Some norm))
                   (spec_layers (repeat true items) cs')
      else None
  | CFsl v dim n :: cs' =>
      if Nat.eqb n (length mask) && match v with Some vs => Nat.eqb (length vs) n | None => true end then
        let eff := match v with Some vs => map2 andb mask vs | None => mask end in
        option_map (cons (option_map (fun _ => eff) v, None))
                   (spec_layers (flat_map (fun b => repeat b dim) eff) cs')
      else None
  end.

Definition call_slots (c : call) : nat :=
  match c with
  | CValidity v => length v | CNoNull n => n | COffsets offs _ => (length offs - 1)%nat | CFsl _ _ n => n
  end.

Definition spec_top (cs : list call) : option (list layer_out) :=
  match cs with
  | [] => None
  | c :: _ => spec_layers (repeat true (call_slots c)) cs
  end.

(* ============================================================================================== *)
(* 2. Abstract serializer                                                                           *)

Inductive ent := Slot (r d : N) | Spec (r d : N).

Definition e_rep (e : ent) : N := match e with Slot r _ | Spec r _ => r end.
Definition e_def (e : ent) : N := match e with Slot _ d | Spec _ d => d end.
Definition enc_def (e : ent) : N := match e with Slot _ d => d | Spec _ d => d + SPECIAL_THRESHOLD end.
Definition is_slot (e : ent) : bool := match e with Slot _ _ => true | Spec _ _ => false end.

Definition slots (es : list ent) : nat := length (filter is_slot es).
Definition specs (es : list ent) : nat := length (filter (fun e => negb (is_slot e)) es).

(* do_record_validity *)
Fixpoint sv (vs : list bool) (nl : N) (es : list ent) : list ent :=
  match es with
  | [] => []
  | Spec r d :: t => Spec r d :: sv vs nl t
  | Slot r d :: t =>
      match vs with
      | v :: vs' => Slot r (if (d =? 0) && negb v then nl else d) :: sv vs' nl t
      | [] => Slot r d :: sv [] nl t
      end
  end.

(* the record_offsets loop *)
Fixpoint so (lens : list N) (rl el : N) (es : list ent) : list ent :=
  match es with
  | [] => []
  | Spec r d :: t => Spec r d :: so lens rl el t
  | Slot r d :: t =>
      match lens with
      | len :: lens' =>
          let ll := if r =? 0 then rl else r in
          (if (d =? 0) && (0 <? len) then Slot ll 0 :: repeat (Slot 0 0) (N.to_nat (len - 1))
           else if d =? 0 then [Spec ll el]
           else [Spec ll d]) ++ so lens' rl el t
      | [] => Slot r d :: so [] rl el t
      end
  end.

(* multiply_levels *)
Fixpoint sm (m : nat) (es : list ent) : list ent :=
  match es with
  | [] => []
  | Spec r d :: t => Spec r d :: sm m t
  | Slot r d :: t => repeat (Slot r d) m ++ sm m t
  end.

(* abstract context: entries, current_rep, current_def, meanings (outer first) *)
Definition astate := (list ent * N * N * list meaning)%type.

Definition a_validity (v : option (list bool)) (st : astate) : astate :=
  let '(es, cr, cd, ms) := st in
  match v with
  | Some vs => (sv vs cd es, cr, cd - 1, ms ++ [NullableItem])
  | None => (es, cr, cd, ms ++ [AllValidItem])
  end.

Definition a_layer (r : raw) (st : astate) : astate :=
  match r with
  | RValidity v _ => a_validity v st
  | RFsl v dim _ => let '(es, cr, cd, ms) := a_validity v st in (sm dim es, cr, cd, ms)
  | ROffsets o v he _ _ =>
      let '(es, cr, cd, ms) := st in
      let '(m, nl, el) :=
        match is_some v, he with
        | true, true => (NullableAndEmptyableList, cd - 1, cd)
        | true, false => (NullableList, cd, 0)
        | false, true => (EmptyableList, 0, cd)
        | false, false => (AllValidList, 0, 0)
        end in
      let es1 := match v with Some vs => sv vs nl es | None => es end in
      (so (windows_len o) cr el es1, cr - 1, cd - num_def_levels m, ms ++ [m])
  end.

Definition a_layers (rs : list raw) (st : astate) : astate := fold_left (fun s r => a_layer r s) rs st.

Definition a_init (rows : nat) (rs : list raw) : astate :=
  (repeat (Slot 0 0) rows, sumN (map raw_max_rep rs), sumN (map raw_max_def rs), []).

(* the serialized output the abstract state denotes *)
Definition a_serialized (rs : list raw) (st : astate) : serialized :=
  let '(es, _, _, ms) := st in
  let max_rep := sumN (map raw_max_rep rs) in
  let max_def := sumN (map raw_max_def rs) in
  serialized_new (if 0 <? max_rep then Some (map e_rep es) else None)
                 (if 0 <? max_def then Some (map e_def es) else None)
                 (rev ms).

(* raw layer of a call given the builder length so far (what apply_call pushes) *)
Definition raw_of_call (c : call) : raw :=
  match c with
  | CValidity v => RValidity (Some v) (length v)
  | CNoNull n => RValidity None n
  | CFsl v dim n => RFsl v dim n
  | COffsets offs v =>
      let info := list_info offs v in
      let norm := prefix_sums 0 (map snd info) in
      let sp := length (filter (fun '(b, l) => negb b || (l =? 0)) info) in
      let he := existsb (fun '(b, l) => b && (l =? 0)) info in
      ROffsets norm v he (length norm - 1) sp
  end.

(* ---------------------------------------------------------------------------------------------- *)
(* 2.1 entries: basic facts                                                                        *)

Definition all_spec (l : list ent) : Prop := Forall (fun e => is_slot e = false) l.
Definition ent_enc_ok (e : ent) : Prop :=
  match e with Slot _ d => d <= SPECIAL_THRESHOLD | Spec _ d => 1 <= d end.

Lemma enc_special e : ent_enc_ok e -> is_special (enc_def e) = negb (is_slot e).
Proof.
  unfold is_special, SPECIAL_THRESHOLD. destruct e as [r d|r d]; cbn [enc_def is_slot negb ent_enc_ok]; intros H.
  - apply N.ltb_ge. exact H.
  - apply N.ltb_lt. unfold SPECIAL_THRESHOLD. lia.
Qed.

Lemma slots_app a b : slots (a ++ b) = (slots a + slots b)%nat.
Proof. unfold slots. rewrite filter_app, app_length. reflexivity. Qed.
Lemma specs_app a b : specs (a ++ b) = (specs a + specs b)%nat.
Proof. unfold specs. rewrite filter_app, app_length. reflexivity. Qed.
Lemma slots_cons_slot r d t : slots (Slot r d :: t) = S (slots t).
Proof. reflexivity. Qed.
Lemma slots_cons_spec r d t : slots (Spec r d :: t) = slots t.
Proof. reflexivity. Qed.
Lemma specs_cons_slot r d t : specs (Slot r d :: t) = specs t.
Proof. reflexivity. Qed.
Lemma specs_cons_spec r d t : specs (Spec r d :: t) = S (specs t).
Proof. reflexivity. Qed.

Lemma slots_specs_length es : (slots es + specs es)%nat = length es.
Proof.
  induction es as [|[r d|r d] t IH]; [reflexivity| |].
  - rewrite slots_cons_slot, specs_cons_slot. cbn [length]. lia.
  - rewrite slots_cons_spec, specs_cons_spec. cbn [length]. lia.
Qed.

Lemma all_spec_slots l : all_spec l -> slots l = O.
Proof.
  induction 1 as [|e t He _ IH]; [reflexivity|]. destruct e; cbn in He; [discriminate|].
  rewrite slots_cons_spec. exact IH.
Qed.
Lemma all_spec_specs l : all_spec l -> specs l = length l.
Proof. intros H. pose proof (slots_specs_length l). rewrite (all_spec_slots l H) in *. lia. Qed.

Lemma slots_zero_all_spec es : slots es = O -> all_spec es.
Proof.
  induction es as [|[r d|r d] t IH]; intros H.
  - constructor.
  - rewrite slots_cons_slot in H. discriminate.
  - rewrite slots_cons_spec in H. constructor; [reflexivity | exact (IH H)].
Qed.

Lemma split_first_slot es n : slots es = S n ->
  exists pre r d rest, es = pre ++ Slot r d :: rest /\ all_spec pre /\ slots rest = n.
Proof.
  induction es as [|[r d|r d] t IH]; intros H.
  - discriminate.
  - exists [], r, d, t. rewrite slots_cons_slot in H. repeat split; [constructor | congruence].
  - rewrite slots_cons_spec in H. destruct (IH H) as (pre & r' & d' & rest & E & Hp & Hs).
    exists (Spec r d :: pre), r', d', rest. subst t. repeat split; [constructor; [reflexivity|exact Hp] | exact Hs].
Qed.

Lemma sv_pre vs nl pre l : all_spec pre -> sv vs nl (pre ++ l) = pre ++ sv vs nl l.
Proof.
  induction 1 as [|e t He _ IH]; [reflexivity|]. destruct e; cbn in He; [discriminate|].
  cbn [app sv]. rewrite IH. reflexivity.
Qed.
Lemma sv_all_spec vs nl l : all_spec l -> sv vs nl l = l.
Proof. intros H. rewrite <- (app_nil_r l) at 1. rewrite sv_pre by exact H. cbn. apply app_nil_r. Qed.
Lemma so_pre lens rl el pre l : all_spec pre -> so lens rl el (pre ++ l) = pre ++ so lens rl el l.
Proof.
  induction 1 as [|e t He _ IH]; [reflexivity|]. destruct e; cbn in He; [discriminate|].
  cbn [app so]. rewrite IH. reflexivity.
Qed.
Lemma so_all_spec lens rl el l : all_spec l -> so lens rl el l = l.
Proof. intros H. rewrite <- (app_nil_r l) at 1. rewrite so_pre by exact H. cbn. apply app_nil_r. Qed.

Lemma sv_length vs nl es : length (sv vs nl es) = length es.
Proof.
  revert vs; induction es as [|[r d|r d] t IH]; intros vs; [reflexivity| |].
  - destruct vs; cbn [sv length]; rewrite IH; reflexivity.
  - cbn [sv length]. rewrite IH. reflexivity.
Qed.
Lemma sv_slots vs nl es : slots (sv vs nl es) = slots es.
Proof.
  revert vs; induction es as [|[r d|r d] t IH]; intros vs; [reflexivity| |].
  - destruct vs; cbn [sv]; rewrite !slots_cons_slot, IH; reflexivity.
  - cbn [sv]. rewrite !slots_cons_spec, IH. reflexivity.
Qed.
Lemma sv_specs vs nl es : specs (sv vs nl es) = specs es.
Proof. pose proof (slots_specs_length (sv vs nl es)). pose proof (slots_specs_length es).
  rewrite sv_length, sv_slots in *. lia. Qed.

Lemma sv_rep vs nl es : map e_rep (sv vs nl es) = map e_rep es.
Proof.
  revert vs; induction es as [|[r d|r d] t IH]; intros vs; [reflexivity| |].
  - destruct vs; cbn [sv map e_rep]; rewrite IH; reflexivity.
  - cbn [sv map e_rep]. rewrite IH. reflexivity.
Qed.

Lemma sv_enc_ok vs nl es : nl <= SPECIAL_THRESHOLD -> Forall ent_enc_ok es -> Forall ent_enc_ok (sv vs nl es).
Proof.
  intros Hnl H. revert vs. induction H as [|e t He _ IH]; intros vs; [constructor|].
  destruct e as [r d|r d].
  - destruct vs as [|v vs']; cbn [sv]; constructor; try apply IH; cbn in *; [exact He|].
    destruct ((d =? 0) && negb v); [exact Hnl | exact He].
  - cbn [sv]. constructor; [exact He | apply IH].
Qed.

(* ---------------------------------------------------------------------------------------------- *)
(* 2.2 the read/write loops of do_record_validity                                                  *)

Lemma skip_def_pre pre d0 rest w p :
  all_spec pre -> Forall ent_enc_ok pre -> is_special d0 = false ->
  skip_def (map enc_def pre ++ d0 :: rest) w p = Ok (d0, rest, rev (map enc_def pre) ++ w, (p + length pre)%nat).
Proof.
  intros Hs Hok Hd. revert w p. induction pre as [|e t IH]; intros w p.
  - cbn. rewrite Hd. rewrite Nat.add_0_r. reflexivity.
  - inversion Hs as [|? ? He Hs']; subst. inversion Hok as [|? ? Ho Hok']; subst.
    cbn [map app skip_def]. rewrite (enc_special e Ho), He. cbn [negb].
    rewrite (IH Hs' Hok'). cbn [rev length]. rewrite <- app_assoc. cbn [app].
    f_equal. f_equal. lia.
Qed.

Lemma copy_n_all (l : list N) r w : copy_n (length l) (l ++ r) w = Ok (r, rev l ++ w).
Proof.
  revert w; induction l as [|x t IH]; intros w; [reflexivity|].
  cbn [length app copy_n]. rewrite IH. cbn [rev]. rewrite <- app_assoc. reflexivity.
Qed.

Lemma drv_loop_spec nl : forall vs es w p junk,
  Forall ent_enc_ok es -> slots es = length vs ->
  exists body tr, es = body ++ tr /\ all_spec tr /\
    drv_loop vs nl (map enc_def es ++ junk) w p
      = Ok (map enc_def tr ++ junk, rev (map enc_def (sv vs nl body)) ++ w, (p + specs body)%nat).
Proof.
  induction vs as [|v vs IH]; intros es w p junk Hok Hsl.
  - exists [], es. split; [reflexivity|]. split; [apply slots_zero_all_spec; exact Hsl|].
    cbn. rewrite Nat.add_0_r. reflexivity.
  - cbn [length] in Hsl. destruct (split_first_slot es _ Hsl) as (pre & r & d & rest & E & Hpre & Hrest). subst es.
    apply Forall_app in Hok as [Hokpre Hok2]. inversion Hok2 as [|? ? Hslot Hokrest]; subst.
    destruct (IH rest ((if (d =? 0) && negb v then nl else d) :: rev (map enc_def pre) ++ w) (p + length pre)%nat junk Hokrest Hrest)
      as (body & tr & E & Htr & Hloop).
    exists (pre ++ Slot r d :: body), tr. subst rest. split; [rewrite <- app_assoc; reflexivity|]. split; [exact Htr|].
    cbn [drv_loop]. rewrite map_app, <- app_assoc. cbn [map app enc_def].
    rewrite skip_def_pre; [|exact Hpre|exact Hokpre|].
    2:{ unfold is_special. apply N.ltb_ge. exact Hslot. }
    cbn [bind]. rewrite Hloop. f_equal. f_equal; [f_equal|].
    + rewrite sv_pre by exact Hpre. cbn [sv]. rewrite map_app. cbn [map enc_def]. rewrite rev_app_distr. cbn [rev].
      rewrite <- !app_assoc. cbn [app]. reflexivity.
    + rewrite specs_app, specs_cons_slot, (all_spec_specs pre Hpre). lia.
Qed.

Lemma commit_ok w spare : (length w <= length spare)%nat -> commit w spare = Ok (rev w ++ skipn (length w) spare).
Proof. intros H. unfold commit. apply Nat.leb_le in H. rewrite H. reflexivity. Qed.

Lemma sv_app_trail vs nl body tr : all_spec tr -> sv vs nl (body ++ tr) = sv vs nl body ++ tr.
Proof.
  intros Ht. revert vs. induction body as [|[r d|r d] t IH]; intros vs.
  - cbn [app]. apply sv_all_spec. exact Ht.
  - destruct vs; cbn [app sv]; rewrite IH; reflexivity.
  - cbn [app sv]. rewrite IH. reflexivity.
Qed.

(* ---------------------------------------------------------------------------------------------- *)
(* 2.3 the context invariant                                                                       *)

Record cinv (hr hd : bool) (total : nat) (c : ctx) (es : list ent) (cr cd : N) (ms : list meaning) (cl : nat) : Prop := {
  cv_rep : if hr then exists j, c_rep c = map e_rep es ++ j /\ length (c_rep c) = total /\ length (c_srep c) = total
           else c_rep c = [] /\ c_srep c = [];
  cv_def : if hd then exists j, c_def c = map enc_def es ++ j /\ length (c_def c) = total /\ length (c_sdef c) = total
           else c_def c = [] /\ c_sdef c = [] /\ Forall (fun e => e = Slot (e_rep e) 0) es;
  cv_specs : c_specials c = specs es;
  cv_len : c_len c = cl;
  cv_enc : Forall ent_enc_ok es;
  cv_cr : c_cur_rep c = cr;
  cv_cd : c_cur_def c = cd;
  cv_ms : c_meaning c = ms }.

Lemma drv_ok hr total c es cr cd ms cl v nl :
  cinv hr true total c es cr cd ms cl ->
  slots es = length v -> nl <= SPECIAL_THRESHOLD ->
  (cl = 0 \/ cl = length v + specs es)%nat ->
  (length es <= total)%nat ->
  exists c', do_record_validity c v nl = Ok c' /\ cinv hr true total c' (sv v nl es) cr cd ms (length v).
Proof.
  intros [Hrep Hdef Hsp Hlen Henc Hcr Hcd Hms] Hsl Hnl Hcl Htot.
  destruct Hdef as (j & Ed & Ld & Lsd).
  unfold do_record_validity.
  pose proof (slots_specs_length es) as Hss.
  replace (Nat.leb (length v + c_specials c) (length (c_def c))) with true
    by (symmetry; apply Nat.leb_le; rewrite Hsp, Ld; lia).
  cbn [assert_ bind].
  replace (Nat.eqb (c_len c) 0 || Nat.eqb (c_len c) (length v + c_specials c)) with true.
  2:{ symmetry. apply orb_true_iff. rewrite Hlen, Hsp. destruct Hcl as [->| ->]; [left|right]; apply Nat.eqb_refl. }
  cbn [assert_ bind].
  destruct (drv_loop_spec nl v es [] O j Henc Hsl) as (body & tr & E & Htr & Hloop).
  rewrite Ed, Hloop. cbn [bind].
  assert (Hsp2 : (c_specials c - (0 + specs body) = length (map enc_def tr))%nat).
  { rewrite Hsp, E, specs_app, (all_spec_specs tr Htr), map_length. lia. }
  rewrite Hsp2, copy_n_all. cbn [bind].
  assert (Hw : rev (map enc_def tr) ++ rev (map enc_def (sv v nl body)) ++ [] = rev (map enc_def (sv v nl es))).
  { rewrite app_nil_r, E, sv_app_trail by exact Htr. rewrite map_app, rev_app_distr. reflexivity. }
  rewrite Hw. rewrite commit_ok.
  2:{ rewrite rev_length, map_length, sv_length, Lsd. exact Htot. }
  cbn [bind]. eexists. split; [reflexivity|].
  constructor; cbn [c_rep c_srep c_def c_sdef c_specials c_len c_cur_rep c_cur_def c_meaning]; try assumption.
  - destruct hr; [|exact Hrep]. rewrite sv_rep. exact Hrep.
  - rewrite rev_involutive. eexists. split; [reflexivity|]. split; [|rewrite <- Ed; exact Ld].
    rewrite app_length, skipn_length, !rev_length, !map_length, sv_length. lia.
  - rewrite sv_specs. exact Hsp.
  - reflexivity.
  - apply sv_enc_ok; assumption.
Qed.

(* ---------------------------------------------------------------------------------------------- *)
(* 2.4 record_offsets loops                                                                        *)

(* every slot paired with the input element it consumes *)
Fixpoint slot_pairs {A} (es : list ent) (xs : list A) : list (N * N * A) :=
  match es with
  | [] => []
  | Spec _ _ :: t => slot_pairs t xs
  | Slot r d :: t => match xs with x :: xs' => (r, d, x) :: slot_pairs t xs' | [] => [] end
  end.

Lemma slot_pairs_pre {A} pre l (xs : list A) : all_spec pre -> slot_pairs (pre ++ l) xs = slot_pairs l xs.
Proof.
  induction 1 as [|e t He _ IH]; [reflexivity|]. destruct e; cbn in He; [discriminate|]. cbn [app slot_pairs]. exact IH.
Qed.

Lemma slot_pairs_nil {A} es : @slot_pairs A es [] = [].
Proof. induction es as [|[r d|r d] t IH]; [reflexivity|reflexivity|exact IH]. Qed.

Definition so_el_ok (el : N) (es : list ent) (lens : list N) : Prop :=
  Forall (fun '(_, d, len) => d = 0 -> len = 0 -> 1 <= el) (slot_pairs es lens).

Lemma so_enc_ok lens rl el es :
  so_el_ok el es lens -> Forall ent_enc_ok es -> Forall ent_enc_ok (so lens rl el es).
Proof.
  unfold so_el_ok. intros Hel H. revert lens Hel. induction H as [|e t He _ IH]; intros lens Hel; [constructor|].
  destruct e as [r d|r d].
  - destruct lens as [|len lens']; cbn [so].
    + constructor; [exact He | apply IH; rewrite slot_pairs_nil; constructor].
    + cbn [slot_pairs] in Hel. inversion Hel as [|? ? H1 H2]; subst.
      apply Forall_app. split; [|apply IH; exact H2].
      destruct (d =? 0) eqn:Ed; cbn [andb].
      * destruct (0 <? len) eqn:El.
        -- constructor; [cbn; unfold SPECIAL_THRESHOLD; lia|]. apply Forall_forall. intros x Hx.
           apply repeat_spec in Hx. subst x. cbn. unfold SPECIAL_THRESHOLD. lia.
        -- constructor; [|constructor]. cbn. apply H1; [apply N.eqb_eq; exact Ed|]. apply N.ltb_ge in El. lia.
      * constructor; [|constructor]. cbn in *. apply N.eqb_neq in Ed. lia.
  - cbn [so]. constructor; [exact He | apply IH; exact Hel].
Qed.

Lemma skip_both_pre pre d0 drest rrest dw rw nl p :
  all_spec pre -> Forall ent_enc_ok pre -> is_special d0 = false ->
  skip_both (map enc_def pre ++ d0 :: drest) (map e_rep pre ++ rrest) dw rw nl p
  = Ok (d0, drest, rrest, rev (map enc_def pre) ++ dw, rev (map e_rep pre) ++ rw, (nl + length pre)%nat, (p + length pre)%nat).
Proof.
  intros Hs Hok Hd. revert dw rw nl p. induction pre as [|e t IH]; intros dw rw nl p.
  - cbn. rewrite Hd, !Nat.add_0_r. reflexivity.
  - inversion Hs as [|? ? He Hs']; subst. inversion Hok as [|? ? Ho Hok']; subst.
    cbn [map app skip_both]. rewrite (enc_special e Ho), He. cbn [negb].
    rewrite (IH Hs' Hok'). cbn [rev length]. rewrite <- !app_assoc. cbn [app].
    rewrite !Nat.add_succ_r. cbn [Nat.add]. reflexivity.
Qed.

Lemma push_zeros_eq k x w : 0 < k -> push_zeros k (x :: w) = rev (x :: zeros (N.to_nat (k - 1))) ++ w.
Proof.
  intros _. unfold push_zeros, zeros. cbn [rev]. rewrite rev_repeat, <- app_assoc. reflexivity.
Qed.

Lemma so_app_trail lens rl el body tr : all_spec tr -> so lens rl el (body ++ tr) = so lens rl el body ++ tr.
Proof.
  intros Ht. revert lens. induction body as [|[r d|r d] t IH]; intros lens.
  - cbn [app]. apply so_all_spec. exact Ht.
  - destruct lens; cbn [app so]; rewrite IH; [reflexivity|]. rewrite app_assoc. reflexivity.
  - cbn [app so]. rewrite IH. reflexivity.
Qed.

Lemma map_enc_chunk ll k : map enc_def (Slot ll 0 :: repeat (Slot 0 0) k) = 0 :: zeros k.
Proof. cbn [map enc_def]. unfold zeros. rewrite map_repeat'. reflexivity. Qed.
Lemma map_rep_chunk ll k : map e_rep (Slot ll 0 :: repeat (Slot 0 0) k) = ll :: zeros k.
Proof. cbn [map e_rep]. unfold zeros. rewrite map_repeat'. reflexivity. Qed.
Lemma length_chunk ll len : 0 < len -> length (Slot ll 0 :: repeat (Slot 0 0) (N.to_nat (len - 1))) = N.to_nat len.
Proof. intros H. cbn [length]. rewrite repeat_length. lia. Qed.

Lemma ro_def_spec rl el : forall lens es dw rw nl p jd jr,
  Forall ent_enc_ok es -> slots es = length lens ->
  exists body tr, es = body ++ tr /\ all_spec tr /\
    ro_def lens rl el (map enc_def es ++ jd) (map e_rep es ++ jr) dw rw nl p
      = Ok (map enc_def tr ++ jd, map e_rep tr ++ jr,
            rev (map enc_def (so lens rl el body)) ++ dw, rev (map e_rep (so lens rl el body)) ++ rw,
            (nl + length (so lens rl el body))%nat, (p + specs body)%nat).
Proof.
  induction lens as [|len lens IH]; intros es dw rw nl p jd jr Hok Hsl.
  - exists [], es. split; [reflexivity|]. split; [apply slots_zero_all_spec; exact Hsl|].
    cbn. rewrite !Nat.add_0_r. reflexivity.
  - cbn [length] in Hsl. destruct (split_first_slot es _ Hsl) as (pre & r & d & rest & E & Hpre & Hrest). subst es.
    apply Forall_app in Hok as [Hokpre Hok2]. inversion Hok2 as [|? ? Hslot Hokrest]; subst.
    set (ll := if r =? 0 then rl else r).
    set (chunk := if (d =? 0) && (0 <? len) then Slot ll 0 :: repeat (Slot 0 0) (N.to_nat (len - 1))
                  else if d =? 0 then [Spec ll el] else [Spec ll d]).
    destruct (IH rest (rev (map enc_def chunk) ++ rev (map enc_def pre) ++ dw)
                      (rev (map e_rep chunk) ++ rev (map e_rep pre) ++ rw)
                      (nl + length pre + length chunk)%nat (p + length pre)%nat jd jr Hokrest Hrest)
      as (body & tr & E & Htr & Hloop).
    exists (pre ++ Slot r d :: body), tr. subst rest. split; [rewrite <- app_assoc; reflexivity|]. split; [exact Htr|].
    cbn [ro_def]. rewrite !map_app, <- !app_assoc. cbn [map app enc_def e_rep].
    rewrite skip_both_pre; [|exact Hpre|exact Hokpre|].
    2:{ unfold is_special. apply N.ltb_ge. exact Hslot. }
    cbn [bind]. fold ll.
    assert (Hso : so (len :: lens) rl el (pre ++ Slot r d :: body) = pre ++ chunk ++ so lens rl el body).
    { rewrite so_pre by exact Hpre. cbn [so]. fold ll. reflexivity. }
    rewrite Hso. rewrite !map_app, !rev_app_distr, !app_length, <- !app_assoc.
    rewrite !map_app, <- !app_assoc in Hloop.
    destruct (d =? 0) eqn:Ed; cbn [andb] in *.
    + destruct (0 <? len) eqn:El.
      * apply N.ltb_lt in El.
        rewrite !push_zeros_eq by exact El. subst chunk.
        rewrite map_enc_chunk, map_rep_chunk, length_chunk in * by exact El.
        rewrite Hloop. f_equal. f_equal; [f_equal|].
        -- lia.
        -- rewrite specs_app, specs_cons_slot, (all_spec_specs pre Hpre). lia.
      * subst chunk. cbn [map enc_def e_rep rev app] in *.
        replace (S (nl + length pre)) with (nl + length pre + length [Spec ll el])%nat by (cbn; lia).
        rewrite Hloop. f_equal. f_equal; [f_equal|].
        -- cbn [length]. lia.
        -- rewrite specs_app, specs_cons_slot, (all_spec_specs pre Hpre). lia.
    + subst chunk. cbn [map enc_def e_rep rev app] in *.
      replace (S (nl + length pre)) with (nl + length pre + length [Spec ll d])%nat by (cbn; lia).
      rewrite Hloop. f_equal. f_equal; [f_equal|].
      * cbn [length]. lia.
      * rewrite specs_app, specs_cons_slot, (all_spec_specs pre Hpre). lia.
Qed.

Lemma copy_both_all (ld lr : list N) jd jr dw rw : length ld = length lr ->
  copy_both (length ld) (ld ++ jd) (lr ++ jr) dw rw = Ok (rev ld ++ dw, rev lr ++ rw).
Proof.
  revert lr dw rw. induction ld as [|x t IH]; intros [|y lr] dw rw H; try discriminate; [reflexivity|].
  cbn [length app copy_both]. rewrite IH by (cbn in H; lia). cbn [rev]. rewrite <- !app_assoc. reflexivity.
Qed.

Lemma so_length_ge lens rl el es : (length es <= length (so lens rl el es))%nat.
Proof.
  revert lens. induction es as [|[r d|r d] t IH]; intros lens; [cbn; lia| |].
  - destruct lens as [|len lens']; cbn [so length]; [specialize (IH []); lia|].
    rewrite app_length. specialize (IH lens').
    destruct ((d =? 0) && (0 <? len)); [|destruct (d =? 0)]; cbn [length]; lia.
  - cbn [so length]. specialize (IH lens). lia.
Qed.

(* the part of record_offsets after the optional do_record_validity *)
Definition ro_tail (c3 : ctx) (lens : list N) (rl el : N) (num_values num_specials : nat) : outcome ctx :=
  do _ <- assert_ (negb (Nat.eqb (num_values + c_specials c3) 0));
  do _ <- assert_ (Nat.leb (num_values + c_specials c3 - 1) (length (c_rep c3)));
  if is_nil (c_def c3) then
    do '(w, new_len) <- ro_nodef lens rl (c_rep c3) [] O;
    do nr <- commit w (c_srep c3);
    Ok (set_bufs c3 nr (c_rep c3) (c_def c3) (c_sdef c3) new_len (c_specials c3 + num_specials))
  else
    do _ <- assert_ (Nat.leb (num_values + c_specials c3 - 1) (length (c_def c3)));
    do '(dr, rr, dw, rw, new_len, passed) <- ro_def lens rl el (c_def c3) (c_rep c3) [] [] O O;
    do '(dw', rw') <- copy_both (c_specials c3 - passed) dr rr dw rw;
    let new_len' := (new_len + (c_specials c3 - passed))%nat in
    do nd <- commit dw' (c_sdef c3);
    do nr <- commit rw' (c_srep c3);
    Ok (set_bufs c3 nr (c_rep c3) nd (c_def c3) new_len' (c_specials c3 + num_specials)).

Lemma ro_tail_def_ok total c es cr cd ms cl lens rl el nv nsp :
  cinv true true total c es cr cd ms cl ->
  slots es = length lens -> nv = length lens -> (1 <= length es)%nat ->
  so_el_ok el es lens ->
  (length (so lens rl el es) <= total)%nat ->
  specs (so lens rl el es) = (specs es + nsp)%nat ->
  exists c', ro_tail c lens rl el nv nsp = Ok c' /\
    cinv true true total c' (so lens rl el es) cr cd ms (length (so lens rl el es)).
Proof.
  intros [Hrep Hdef Hsp Hlen Henc Hcr Hcd Hms] Hsl Hnv H1 Hel Htot Hnsp.
  destruct Hdef as (jd & Ed & Ld & Lsd). destruct Hrep as (jr & Er & Lr & Lsr).
  pose proof (slots_specs_length es) as Hss. pose proof (so_length_ge lens rl el es) as Hge.
  unfold ro_tail.
  replace (negb (Nat.eqb (nv + c_specials c) 0)) with true
    by (symmetry; apply negb_true_iff, Nat.eqb_neq; rewrite Hsp; lia).
  cbn [assert_ bind].
  replace (Nat.leb (nv + c_specials c - 1) (length (c_rep c))) with true
    by (symmetry; apply Nat.leb_le; rewrite Hsp, Lr; lia).
  cbn [assert_ bind].
  assert (Hnil : is_nil (c_def c) = false).
  { destruct (c_def c) eqn:E; [|reflexivity]. cbn in Ld. lia. }
  rewrite Hnil.
  replace (Nat.leb (nv + c_specials c - 1) (length (c_def c))) with true
    by (symmetry; apply Nat.leb_le; rewrite Hsp, Ld; lia).
  cbn [assert_ bind].
  destruct (ro_def_spec rl el lens es [] [] O O jd jr Henc Hsl) as (body & tr & E & Htr & Hloop).
  rewrite Ed, Er, Hloop. cbn [bind].
  assert (Hsp2 : (c_specials c - (0 + specs body) = length (map enc_def tr))%nat).
  { rewrite Hsp, E, specs_app, (all_spec_specs tr Htr), map_length. lia. }
  rewrite Hsp2, copy_both_all by (rewrite !map_length; reflexivity). cbn [bind].
  assert (Hso : so lens rl el es = so lens rl el body ++ tr) by (rewrite E; apply so_app_trail; exact Htr).
  assert (Hwd : rev (map enc_def tr) ++ rev (map enc_def (so lens rl el body)) ++ [] = rev (map enc_def (so lens rl el es))).
  { rewrite app_nil_r, Hso, map_app, rev_app_distr. reflexivity. }
  assert (Hwr : rev (map e_rep tr) ++ rev (map e_rep (so lens rl el body)) ++ [] = rev (map e_rep (so lens rl el es))).
  { rewrite app_nil_r, Hso, map_app, rev_app_distr. reflexivity. }
  rewrite Hwd, Hwr.
  rewrite !commit_ok by (rewrite rev_length, map_length; lia).
  cbn [bind]. eexists. split; [reflexivity|].
  constructor; cbn [set_bufs c_rep c_srep c_def c_sdef c_specials c_len c_cur_rep c_cur_def c_meaning]; try assumption.
  - rewrite rev_involutive. eexists. split; [reflexivity|]. split; [|rewrite <- Er; exact Lr].
    rewrite app_length, skipn_length, !rev_length, !map_length. lia.
  - rewrite rev_involutive. eexists. split; [reflexivity|]. split; [|rewrite <- Ed; exact Ld].
    rewrite app_length, skipn_length, !rev_length, !map_length. lia.
  - rewrite Hnsp, Hsp. reflexivity.
  - rewrite map_length. rewrite Hso, app_length. lia.
  - apply so_enc_ok; assumption.
Qed.

Definition plain (e : ent) : Prop := e = Slot (e_rep e) 0.

Lemma plain_specs es : Forall plain es -> specs es = O /\ slots es = length es.
Proof.
  induction 1 as [|e t He _ [IH1 IH2]]; [split; reflexivity|]. rewrite He.
  rewrite specs_cons_slot, slots_cons_slot. cbn [length]. split; [exact IH1 | rewrite IH2; reflexivity].
Qed.

Lemma so_plain lens rl el es : Forall plain es -> length es = length lens -> Forall (fun l => 0 < l) lens ->
  Forall plain (so lens rl el es).
Proof.
  intros H. revert lens. induction H as [|e t He _ IH]; intros lens Hlen Hpos; [constructor|].
  rewrite He. destruct lens as [|len lens']; [discriminate|]. cbn [so].
  inversion Hpos as [|? ? Hl Hpos']; subst. apply N.ltb_lt in Hl. rewrite N.eqb_refl, Hl. cbn [andb].
  apply Forall_app. split; [|apply IH; [cbn in Hlen; lia | exact Hpos']].
  constructor; [reflexivity|]. apply Forall_forall. intros x Hx. apply repeat_spec in Hx. subst x. reflexivity.
Qed.

Lemma ro_nodef_spec rl el : forall lens es w nl jr,
  Forall plain es -> length es = length lens -> Forall (fun l => 0 < l) lens ->
  ro_nodef lens rl (map e_rep es ++ jr) w nl
  = Ok (rev (map e_rep (so lens rl el es)) ++ w, (nl + length (so lens rl el es))%nat).
Proof.
  induction lens as [|len lens IH]; intros es w nl jr Hp Hlen Hpos.
  - destruct es; [|discriminate]. cbn. rewrite Nat.add_0_r. reflexivity.
  - destruct es as [|e t]; [discriminate|]. inversion Hp as [|? ? He Hp']; subst.
    inversion Hpos as [|? ? Hl Hpos']; subst. rewrite He.
    cbn [map app e_rep ro_nodef so].
    assert (El : len =? 0 = false) by (apply N.eqb_neq; lia). rewrite El.
    apply N.ltb_lt in Hl. rewrite N.eqb_refl, Hl. cbn [andb]. apply N.ltb_lt in Hl.
    rewrite push_zeros_eq by exact Hl.
    rewrite IH; [|exact Hp'|cbn in Hlen; lia|exact Hpos'].
    rewrite map_app, rev_app_distr, map_rep_chunk, app_length, length_chunk by exact Hl.
    rewrite <- app_assoc. f_equal. f_equal. lia.
Qed.

Lemma ro_tail_nodef_ok total c es cr cd ms cl lens rl el nv nsp :
  cinv true false total c es cr cd ms cl ->
  length es = length lens -> nv = length lens -> (1 <= length es)%nat ->
  Forall (fun l => 0 < l) lens -> nsp = O ->
  (length (so lens rl el es) <= total)%nat ->
  exists c', ro_tail c lens rl el nv nsp = Ok c' /\
    cinv true false total c' (so lens rl el es) cr cd ms (length (so lens rl el es)).
Proof.
  intros [Hrep Hdef Hsp Hlen Henc Hcr Hcd Hms] Hsl Hnv H1 Hpos Hnsp Htot.
  destruct Hdef as (Ed & Esd & Hplain). destruct Hrep as (jr & Er & Lr & Lsr).
  destruct (plain_specs es Hplain) as [Hs0 Hsl2].
  pose proof (so_length_ge lens rl el es) as Hge.
  unfold ro_tail.
  replace (negb (Nat.eqb (nv + c_specials c) 0)) with true
    by (symmetry; apply negb_true_iff, Nat.eqb_neq; rewrite Hsp; lia).
  cbn [assert_ bind].
  replace (Nat.leb (nv + c_specials c - 1) (length (c_rep c))) with true
    by (symmetry; apply Nat.leb_le; rewrite Hsp, Lr; lia).
  cbn [assert_ bind]. rewrite Ed. cbn [is_nil].
  rewrite Er, (ro_nodef_spec rl el lens es [] O jr Hplain Hsl Hpos). cbn [bind].
  rewrite app_nil_r, commit_ok by (rewrite rev_length, map_length; lia).
  cbn [bind]. eexists. split; [reflexivity|].
  pose proof (so_plain lens rl el es Hplain Hsl Hpos) as Hplain2.
  constructor; cbn [set_bufs c_rep c_srep c_def c_sdef c_specials c_len c_cur_rep c_cur_def c_meaning]; try assumption.
  - rewrite rev_involutive. eexists. split; [reflexivity|]. split; [|rewrite <- Er; exact Lr].
    rewrite app_length, skipn_length, !rev_length, !map_length. lia.
  - repeat split; assumption.
  - rewrite Hnsp, Hsp, Hs0. destruct (plain_specs _ Hplain2) as [-> _]. reflexivity.
  - reflexivity.
  - apply Forall_forall. intros x Hx. rewrite Forall_forall in Hplain2. rewrite (Hplain2 x Hx). cbn. unfold SPECIAL_THRESHOLD. lia.
Qed.

(* ---------------------------------------------------------------------------------------------- *)
(* 2.5 layers: preconditions under which the buffer model follows the abstract serializer          *)

Definition list_levels (v : option (list bool)) (he : bool) (cd : N) : meaning * N * N :=
  match is_some v, he with
  | true, true => (NullableAndEmptyableList, cd - 1, cd)
  | true, false => (NullableList, cd, 0)
  | false, true => (EmptyableList, 0, cd)
  | false, false => (AllValidList, 0, 0)
  end.

Definition layer_pre (hr hd : bool) (total : nat) (r : raw) (es : list ent) (cr cd : N) (cl : nat) : Prop :=
  match r with
  | RValidity None _ => True
  | RValidity (Some v) _ =>
      hd = true /\ slots es = length v /\ cd <= SPECIAL_THRESHOLD /\ (cl = 0 \/ cl = length v + specs es)%nat
      /\ (length es <= total)%nat
  | RFsl _ _ _ => False
  | ROffsets o v he n sp =>
      let '(m, nl, el) := list_levels v he cd in
      let lens := windows_len o in
      let es1 := match v with Some vs => sv vs nl es | None => es end in
      hr = true /\ slots es = length lens /\ n = length lens /\ (1 <= length es)%nat /\ (length es <= total)%nat /\
      match v with
      | Some vs => hd = true /\ length vs = n /\ nl <= SPECIAL_THRESHOLD /\ (cl = 0 \/ cl = n + specs es)%nat
      | None => True
      end /\
      (if hd then so_el_ok el es1 lens else Forall (fun l => 0 < l) lens /\ sp = O) /\
      (length (so lens cr el es1) <= total)%nat /\ specs (so lens cr el es1) = (specs es + sp)%nat
  end.

(* current_len after the layer *)
Definition layer_len (r : raw) (st : astate) (cl : nat) : nat :=
  match r with
  | RValidity None _ => cl
  | RValidity (Some v) _ => length v
  | RFsl _ _ _ => cl
  | ROffsets _ _ _ _ _ => let '(es, _, _, _) := a_layer r st in length es
  end.

Fixpoint layers_pre (hr hd : bool) (total : nat) (rs : list raw) (st : astate) (cl : nat) : Prop :=
  match rs with
  | [] => True
  | r :: rs' =>
      let '(es, cr, cd, _) := st in
      layer_pre hr hd total r es cr cd cl /\ layers_pre hr hd total rs' (a_layer r st) (layer_len r st cl)
  end.
Fixpoint layers_len (rs : list raw) (st : astate) (cl : nat) : nat :=
  match rs with
  | [] => cl
  | r :: rs' => layers_len rs' (a_layer r st) (layer_len r st cl)
  end.

Lemma checkout_cinv hr hd total c es cr cd ms cl m :
  cinv hr hd total c es cr cd ms cl ->
  snd (checkout_def c m) = cd /\ cinv hr hd total (fst (checkout_def c m)) es cr (cd - num_def_levels m) (ms ++ [m]) cl.
Proof.
  intros [Hrep Hdef Hsp Hlen Henc Hcr Hcd Hms]. unfold checkout_def. cbn [fst snd]. split; [exact Hcd|].
  constructor; cbn [c_rep c_srep c_def c_sdef c_specials c_len c_cur_rep c_cur_def c_meaning]; try assumption; congruence.
Qed.

Lemma record_layer_ok hr hd total c r es cr cd ms cl :
  cinv hr hd total c es cr cd ms cl ->
  layer_pre hr hd total r es cr cd cl ->
  exists c', record_layer c r = Ok c' /\
    let '(es', cr', cd', ms') := a_layer r (es, cr, cd, ms) in
    cinv hr hd total c' es' cr' cd' ms' (layer_len r (es, cr, cd, ms) cl).
Proof.
  intros Hc Hpre. destruct r as [o v he n sp | v n | v dim n]; cbn [layer_pre] in Hpre; [| |contradiction].
  - (* offsets *)
    cbn [record_layer layer_len a_layer].
    unfold record_offsets.
    assert (Hlv : (match is_some v, he with
                   | true, true => let '(c', level) := checkout_def c NullableAndEmptyableList in (c', level - 1, level)
                   | true, false => let '(c', level) := checkout_def c NullableList in (c', level, 0)
                   | false, true => let '(c', level) := checkout_def c EmptyableList in (c', 0, level)
                   | false, false => let '(c', _) := checkout_def c AllValidList in (c', 0, 0)
                   end) = (fst (checkout_def c (fst (fst (list_levels v he cd)))), snd (fst (list_levels v he cd)), snd (list_levels v he cd))).
    { pose proof (cv_cd _ _ _ _ _ _ _ _ _ Hc) as Hcd. unfold list_levels.
      destruct (is_some v), he; unfold checkout_def; cbn [fst snd]; rewrite Hcd; reflexivity. }
    rewrite Hlv. clear Hlv.
    destruct (list_levels v he cd) as [[m nl] el] eqn:Elv. cbn [fst snd] in *.
    destruct Hpre as (Hhr & Hsl & Hn & H1 & Hle & Hv & Hel & Htot & Hsp). subst hr.
    destruct (checkout_cinv _ _ _ _ _ _ _ _ _ m Hc) as [_ Hc1].
    set (c1 := fst (checkout_def c m)) in *.
    set (c2 := {| c_meaning := c_meaning c1; c_rep := c_rep c1; c_srep := c_srep c1; c_def := c_def c1; c_sdef := c_sdef c1;
                  c_cur_rep := c_cur_rep c1 - 1; c_cur_def := c_cur_def c1; c_len := c_len c1; c_specials := c_specials c1 |}).
    assert (Hc2 : cinv true hd total c2 es (cr - 1) (cd - num_def_levels m) (ms ++ [m]) cl).
    { destruct Hc1 as [Hrep Hdef Hsp' Hlen Henc Hcr Hcd Hms]. subst c2.
      constructor; cbn [c_rep c_srep c_def c_sdef c_specials c_len c_cur_rep c_cur_def c_meaning]; try assumption.
      rewrite Hcr. reflexivity. }
    assert (Hrl : c_cur_rep c = cr) by (apply (cv_cr _ _ _ _ _ _ _ _ _ Hc)). rewrite Hrl.
    fold (ro_tail).
    change (do c3 <- match v with Some v0 => do_record_validity c2 v0 nl | None => Ok c2 end;
            ro_tail c3 (windows_len o) cr el n sp) with
      (bind (match v with Some v0 => do_record_validity c2 v0 nl | None => Ok c2 end)
            (fun c3 => ro_tail c3 (windows_len o) cr el n sp)).
    destruct v as [vs|].
    + destruct Hv as (Hhd & Hlv & Hnl & Hcl). subst hd.
      destruct (drv_ok true total c2 es (cr - 1) (cd - num_def_levels m) (ms ++ [m]) cl vs nl Hc2) as (c3 & E3 & Hc3);
        [congruence | exact Hnl | rewrite Hlv; exact Hcl | exact Hle |].
      rewrite E3. cbn [bind].
      destruct (ro_tail_def_ok total c3 (sv vs nl es) (cr - 1) (cd - num_def_levels m) (ms ++ [m]) (length vs)
                               (windows_len o) cr el n sp Hc3) as (c' & E' & Hc');
        [rewrite sv_slots; exact Hsl | exact Hn | rewrite sv_length; exact H1 | exact Hel | exact Htot
        | rewrite sv_specs; exact Hsp |].
      exists c'. split; [exact E'|]. unfold list_levels in Elv. cbn [is_some] in *.
      destruct he; inversion Elv; subst; exact Hc'.
    + cbn [bind]. destruct hd.
      * destruct (ro_tail_def_ok total c2 es (cr - 1) (cd - num_def_levels m) (ms ++ [m]) cl
                               (windows_len o) cr el n sp Hc2) as (c' & E' & Hc'); try assumption.
        exists c'. split; [exact E'|]. unfold list_levels in Elv. cbn [is_some] in *.
        destruct he; inversion Elv; subst; exact Hc'.
      * destruct Hel as [Hpos Hsp0].
        assert (Hplain : Forall plain es) by (destruct Hc2 as [_ (_ & _ & Hp) _ _ _ _ _ _]; exact Hp).
        destruct (plain_specs es Hplain) as [_ Hsl2].
        destruct (ro_tail_nodef_ok total c2 es (cr - 1) (cd - num_def_levels m) (ms ++ [m]) cl
                               (windows_len o) cr el n sp Hc2) as (c' & E' & Hc'); try assumption; [congruence|].
        exists c'. split; [exact E'|]. unfold list_levels in Elv. cbn [is_some] in *.
        destruct he; inversion Elv; subst; exact Hc'.
  - (* validity *)
    cbn [record_layer]. unfold record_validity_buf. destruct v as [vs|].
    + destruct Hpre as (Hhd & Hsl & Hcd & Hcl & Hle). subst hd.
      destruct (checkout_cinv _ _ _ _ _ _ _ _ _ NullableItem Hc) as [Hlevel Hc1].
      destruct (checkout_def c NullableItem) as [c1 level] eqn:Eco. cbn [fst snd] in *. subst level.
      destruct (drv_ok hr total c1 es cr (cd - 1) (ms ++ [NullableItem]) cl vs cd Hc1 Hsl Hcd Hcl Hle) as (c' & E' & Hc').
      exists c'. split; [exact E'|]. cbn [a_layer a_validity layer_len]. exact Hc'.
    + destruct (checkout_cinv _ _ _ _ _ _ _ _ _ AllValidItem Hc) as [_ Hc1].
      eexists. split; [reflexivity|]. cbn [a_layer a_validity layer_len num_def_levels] in *.
      rewrite N.sub_0_r in Hc1. exact Hc1.
Qed.

Lemma record_layers_ok hr hd total : forall rs c es cr cd ms cl,
  cinv hr hd total c es cr cd ms cl ->
  layers_pre hr hd total rs (es, cr, cd, ms) cl ->
  exists c', record_layers c rs = Ok c' /\
    let '(es', cr', cd', ms') := a_layers rs (es, cr, cd, ms) in
    cinv hr hd total c' es' cr' cd' ms' (layers_len rs (es, cr, cd, ms) cl).
Proof.
  induction rs as [|r rs IH]; intros c es cr cd ms cl Hc Hpre.
  - exists c. split; [reflexivity|]. exact Hc.
  - cbn [layers_pre] in Hpre. destruct Hpre as [Hp1 Hp2].
    destruct (record_layer_ok _ _ _ _ _ _ _ _ _ _ Hc Hp1) as (c1 & E1 & Hc1).
    cbn [record_layers]. rewrite E1. cbn [bind].
    unfold a_layers. cbn [fold_left layers_len]. fold (a_layers rs (a_layer r (es, cr, cd, ms))).
    destruct (a_layer r (es, cr, cd, ms)) as [[[es1 cr1] cd1] ms1] eqn:E.
    exact (IH c1 es1 cr1 cd1 ms1 _ Hc1 Hp2).
Qed.
