(* Proofs about Codec/Model_RepDef.v *)
From LanceV Require Import Common.Base Codec.Model_RepDef.
Local Open Scope N_scope.
