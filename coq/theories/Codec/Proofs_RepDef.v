(* Proofs about Codec/Model_RepDef.v.

   Structure:
   1. Spec: a model-independent description of what a stack of builder calls MEANS ([spec_layers]):
      per layer the effective validity (AND-ed with the enclosing layers) and the normalized offsets.
   2. Abstract serializer on tagged entries ([ent], [sv], [slist]); refinement of the buffer-level model
      ([record_layers] on [ctx]) to it (Theorem A).
   3. Unraveler: per-layer lemmas and the round trip by induction on the stack (Theorem B).
   4. Known-finding classes and the main theorem.
   5. Control words.  *)
From LanceV Require Import Common.Base Codec.Model_RepDef.
Local Open Scope N_scope.

(* ============================================================================================== *)
(* 0. small generic lemmas                                                                          *)

Lemma bind_ok {A B} (x : outcome A) (f : A -> outcome B) (b : B) :
  bind x f = Ok b -> exists a, x = Ok a /\ f a = Ok b.
Proof. destruct x; cbn; intros H; try discriminate. eauto. Qed.

Lemma assert_true b : assert_ b = Ok tt <-> b = true.
Proof. destruct b; cbn; split; intros; congruence. Qed.

Lemma repeat_app_comm {A} (x : A) n l : repeat x n ++ x :: l = x :: repeat x n ++ l.
Proof. induction n; cbn; [reflexivity|]. rewrite IHn. reflexivity. Qed.

Lemma rev_repeat {A} (x : A) n : rev (repeat x n) = repeat x n.
Proof.
  induction n; cbn; [reflexivity|]. rewrite IHn.
  replace (repeat x n ++ [x]) with (repeat x n ++ x :: []) by reflexivity.
  rewrite repeat_app_comm, app_nil_r. reflexivity.
Qed.

(* ============================================================================================== *)
(* 1. Spec                                                                                          *)

Fixpoint map2 {A B C} (f : A -> B -> C) (l1 : list A) (l2 : list B) : list C :=
  match l1, l2 with
  | a :: t1, b :: t2 => f a b :: map2 f t1 t2
  | _, _ => []
  end.

Fixpoint prefix_sums (acc : N) (l : list N) : list N :=
  match l with [] => [acc] | x :: t => acc :: prefix_sums (acc + x) t end.

Fixpoint sorted (l : list N) : bool :=
  match l with
  | a :: ((b :: _) as t) => (a <=? b) && sorted t
  | _ => true
  end.

(* per list: (valid, normalized length) *)
Definition list_info (offs : list N) (v : option (list bool)) : list (bool * N) :=
  let lens := windows_len offs in
  match v with
  | Some vs => map2 (fun (b : bool) (l : N) => (b, if b then l else 0)) vs lens
  | None => map (fun l => (true, l)) lens
  end.

(* [mask]: for every slot of the layer, whether all enclosing layers are valid there.
   Returns the per-layer outputs, outermost first; None if the calls are not well formed. *)
Fixpoint spec_layers (mask : list bool) (cs : list call) : option (list layer_out) :=
  match cs with
  | [] => Some []
  | CValidity v :: cs' =>
      if Nat.eqb (length v) (length mask) then
        let eff := map2 andb mask v in
        option_map (cons (Some eff, None)) (spec_layers eff cs')
      else None
  | CNoNull n :: cs' =>
      if Nat.eqb n (length mask) then option_map (cons (None, None)) (spec_layers mask cs') else None
  | COffsets offs v :: cs' =>
      let info := list_info offs v in
      if sorted offs && Nat.eqb (length offs) (S (length mask))
         && match v with Some vs => Nat.eqb (length vs) (length mask) | None => true end
         (* lists behind a null ancestor are empty once normalized *)
         && forallb (fun '(m, (_, len)) => m || (len =? 0)) (combine mask info)
      then
        let norm := prefix_sums 0 (map snd info) in
        let items := N.to_nat (last norm 0) in
        option_map (cons (option_map (fun _ => map2 andb mask (map fst info)) v, Some norm))
                   (spec_layers (repeat true items) cs')
      else None
  | CFsl v dim n :: cs' =>
      if Nat.eqb n (length mask) && match v with Some vs => Nat.eqb (length vs) n | None => true end then
        let eff := match v with Some vs => map2 andb mask vs | None => mask end in
        option_map (cons (option_map (fun _ => eff) v, None))
                   (spec_layers (flat_map (fun b => repeat b dim) eff) cs')
      else None
  end.

Definition call_slots (c : call) : nat :=
  match c with
  | CValidity v => length v | CNoNull n => n | COffsets offs _ => (length offs - 1)%nat | CFsl _ _ n => n
  end.

Definition spec_top (cs : list call) : option (list layer_out) :=
  match cs with
  | [] => None
  | c :: _ => spec_layers (repeat true (call_slots c)) cs
  end.

(* ============================================================================================== *)
(* 2. Abstract serializer                                                                           *)

Inductive ent := Slot (r d : N) | Spec (r d : N).

Definition e_rep (e : ent) : N := match e with Slot r _ | Spec r _ => r end.
Definition e_def (e : ent) : N := match e with Slot _ d | Spec _ d => d end.
Definition enc_def (e : ent) : N := match e with Slot _ d => d | Spec _ d => d + SPECIAL_THRESHOLD end.
Definition is_slot (e : ent) : bool := match e with Slot _ _ => true | Spec _ _ => false end.

Definition slots (es : list ent) : nat := length (filter is_slot es).
Definition specs (es : list ent) : nat := length (filter (fun e => negb (is_slot e)) es).

(* do_record_validity *)
Fixpoint sv (vs : list bool) (nl : N) (es : list ent) : list ent :=
  match es with
  | [] => []
  | Spec r d :: t => Spec r d :: sv vs nl t
  | Slot r d :: t =>
      match vs with
      | v :: vs' => Slot r (if (d =? 0) && negb v then nl else d) :: sv vs' nl t
      | [] => Slot r d :: sv [] nl t
      end
  end.

(* the record_offsets loop *)
Fixpoint so (lens : list N) (rl el : N) (es : list ent) : list ent :=
  match es with
  | [] => []
  | Spec r d :: t => Spec r d :: so lens rl el t
  | Slot r d :: t =>
      match lens with
      | len :: lens' =>
          let ll := if r =? 0 then rl else r in
          (if (d =? 0) && (0 <? len) then Slot ll 0 :: repeat (Slot 0 0) (N.to_nat (len - 1))
           else if d =? 0 then [Spec ll el]
           else [Spec ll d]) ++ so lens' rl el t
      | [] => Slot r d :: so [] rl el t
      end
  end.

(* multiply_levels *)
Fixpoint sm (m : nat) (es : list ent) : list ent :=
  match es with
  | [] => []
  | Spec r d :: t => Spec r d :: sm m t
  | Slot r d :: t => repeat (Slot r d) m ++ sm m t
  end.

(* abstract context: entries, current_rep, current_def, meanings (outer first) *)
Definition astate := (list ent * N * N * list meaning)%type.

Definition a_validity (v : option (list bool)) (st : astate) : astate :=
  let '(es, cr, cd, ms) := st in
  match v with
  | Some vs => (sv vs cd es, cr, cd - 1, ms ++ [NullableItem])
  | None => (es, cr, cd, ms ++ [AllValidItem])
  end.

Definition a_layer (r : raw) (st : astate) : astate :=
  match r with
  | RValidity v _ => a_validity v st
  | RFsl v dim _ => let '(es, cr, cd, ms) := a_validity v st in (sm dim es, cr, cd, ms)
  | ROffsets o v he _ _ =>
      let '(es, cr, cd, ms) := st in
      let '(m, nl, el) :=
        match is_some v, he with
        | true, true => (NullableAndEmptyableList, cd - 1, cd)
        | true, false => (NullableList, cd, 0)
        | false, true => (EmptyableList, 0, cd)
        | false, false => (AllValidList, 0, 0)
        end in
      let es1 := match v with Some vs => sv vs nl es | None => es end in
      (so (windows_len o) cr el es1, cr - 1, cd - num_def_levels m, ms ++ [m])
  end.

Definition a_layers (rs : list raw) (st : astate) : astate := fold_left (fun s r => a_layer r s) rs st.

Definition a_init (rows : nat) (rs : list raw) : astate :=
  (repeat (Slot 0 0) rows, sumN (map raw_max_rep rs), sumN (map raw_max_def rs), []).

(* the serialized output the abstract state denotes *)
Definition a_serialized (rs : list raw) (st : astate) : serialized :=
  let '(es, _, _, ms) := st in
  let max_rep := sumN (map raw_max_rep rs) in
  let max_def := sumN (map raw_max_def rs) in
  serialized_new (if 0 <? max_rep then Some (map e_rep es) else None)
                 (if 0 <? max_def then Some (map e_def es) else None)
                 (rev ms).

(* raw layer of a call given the builder length so far (what apply_call pushes) *)
Definition raw_of_call (c : call) : raw :=
  match c with
  | CValidity v => RValidity (Some v) (length v)
  | CNoNull n => RValidity None n
  | CFsl v dim n => RFsl v dim n
  | COffsets offs v =>
      let info := list_info offs v in
      let norm := prefix_sums 0 (map snd info) in
      let sp := length (filter (fun '(b, l) => negb b || (l =? 0)) info) in
      let he := existsb (fun '(b, l) => b && (l =? 0)) info in
      ROffsets norm v he (length norm - 1) sp
  end.
