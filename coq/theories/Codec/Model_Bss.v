(* C26 - byte-stream-split mini-block codec: transcription of
   rust/lance-encoding/src/encodings/physical/byte_stream_split.rs
   (ByteStreamSplitEncoder::compress, ByteStreamSplitDecompressor::decompress).
   [w] = bytes per value (4 or 8). Data is the flat little-endian byte buffer. Definitions only. *)
From LanceV Require Import Common.Base Codec.Model_Bytes.
Local Open Scope N_scope.

(* max_chunk_size: 32 bit -> 1024, 64 bit -> 512, anything else unreachable!() *)
Definition bss_max_chunk (w : N) : option N :=
  if w =? 4 then Some 1024 else if w =? 8 then Some 512 else None.

(* chunk-local transposition: dst[j*k + i] = src[i*w + j]  (k values of w bytes) *)
Definition bss_split (w k : nat) (src : list N) : list N :=
  flat_map (fun j => map (fun i => nth (i * w + j) src 0) (seq 0 k)) (seq 0 w).

(* decompress: out[i*w + j] = in[j*n + i] *)
Definition bss_join (w n : nat) (src : list N) : list N :=
  flat_map (fun i => map (fun j => nth (j * n + i) src 0) (seq 0 w)) (seq 0 n).

(* the `while processed_values < num_values` loop; [rest] = bytes not yet processed,
   [remaining] = values not yet processed *)
Fixpoint bss_loop (fuel : nat) (w maxc : N) (rest : list N) (remaining : N)
  : option (list N * list chunk) :=
  if remaining =? 0 then Some ([], [])
  else match fuel with
  | O => None
  | S fuel' =>
      let k := N.min remaining maxc in
      let nb := N.to_nat (k * w) in
      let piece := bss_split (N.to_nat w) (N.to_nat k) (firstn nb rest) in
      let log := if k =? remaining then 0 else N.log2 k in
      match bss_loop fuel' w maxc (skipn nb rest) (remaining - k) with
      | Some (buf, cs) => Some (piece ++ buf, (([u16 (k * w)], log) : chunk) :: cs)
      | None => None
      end
  end.

(* compress: (buffers, chunk table); Panic for an unsupported width (constructor assertion) *)
Definition bss_encode (w : N) (bytes : list N) (num_values : N) : option (outcome (list (list N) * list chunk)) :=
  match bss_max_chunk w with
  | None => Some Panic
  | Some maxc =>
      if num_values =? 0 then Some (Ok ([], []))
      else match bss_loop (S (N.to_nat num_values)) w maxc bytes num_values with
           | Some (buf, cs) => Some (Ok ([buf], cs))
           | None => None
           end
  end.

(* decompress one chunk *)
Definition bss_decode (w : N) (bufs : list (list N)) (n : N) : outcome (list N) :=
  match bss_max_chunk w with
  | None => Panic
  | Some _ =>
    if n =? 0 then Ok []
    else match bufs with
    | [b] => if nlen b =? n * w then Ok (bss_join (N.to_nat w) (N.to_nat n) b) else Err
    | _ => Err
    end
  end.

Definition bss_decode_page (w : N) (bufs : list (list N)) (chunks : list chunk) (total : N) : outcome (list N) :=
  outcome_map (@concat N) (decode_chunks (bss_decode w) bufs chunks 0 total).

(* ---- correspondence checkers ---- *)
Definition chk_bss_encode (i : N * list N) (o : outcome (list (list N) * list chunk)) : bool :=
  let '(w, bytes) := i in
  match bss_encode w bytes (nlen bytes / w), o with
  | Some (Ok (b, c)), Ok (b', c') => list_eqb nlist_eqb b b' && list_eqb chunk_eqb c c'
  | Some Err, Err => true
  | Some Panic, Panic => true
  | _, _ => false
  end.

Definition chk_bss_decode (i : N * list (list N) * N) (o : outcome (list N)) : bool :=
  let '(w, bufs, n) := i in outcome_eqb nlist_eqb (bss_decode w bufs n) o.
