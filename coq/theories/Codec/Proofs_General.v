(* C26 - wrappers around opaque compressors (general LZ4/ZSTD mini-block wrapper, per-value
   compression, FSST) and the dictionary encoder: losslessness follows from the round-trip
   hypothesis on the opaque byte compressor, for every page the inner codec produces. *)
From LanceV Require Import Common.Base Codec.Model_Bytes Codec.Proofs_Bytes Codec.Model_Binary
  Codec.Model_General Codec.Model_Value Codec.Model_Packed.
Local Open Scope N_scope.

Section GeneralProofs.
  Variable comp : list N -> list N.
  Variable decomp : list N -> list N.
  Hypothesis comp_roundtrip : forall x, decomp (comp x) = x.
  (* the chunk's compressed size must fit the u16 of the chunk table: true for LZ4
     (n + n/255 + 16 + 4) and ZSTD on slices of at most 65535 input bytes of a mini-block chunk *)
  Hypothesis comp_u16 : forall x, nlen x < 65536 -> nlen (comp x) < 65536.

  Definition sizes_ok (chunks : list chunk) : Prop :=
    Forall (fun c : chunk => exists s0 ss, fst c = s0 :: ss /\ s0 < 65536) chunks.

  (* decoding the wrapped page with (decompress first buffer; inner decoder) gives exactly what
     the inner decoder gives on the inner page - for EVERY inner decoder and page *)
  Lemma general_chunks_decode : forall (A : Type) (inner : list (list N) -> N -> outcome A)
      (chunks : list chunk) (first : list N) (others : list (list N)) (prev total : N),
    sizes_ok chunks ->
    decode_chunks (general_decode decomp inner)
                  (fst (general_chunks comp first chunks) :: others)
                  (snd (general_chunks comp first chunks)) prev total
    = decode_chunks inner (first :: others) chunks prev total.
  Proof.
    intros A inner chunks. induction chunks as [|c cs IH]; intros first others prev total Hs; [reflexivity|].
    inversion Hs as [|? ? (s0 & ss & Ec & Hs0) Hs']; subst.
    destruct c as [sizes log]. cbn [fst] in Ec. subst sizes.
    cbn [general_chunks fst hd tl snd].
    set (sz := N.to_nat s0).
    set (piece := comp (firstn sz first)).
    destruct (general_chunks comp (skipn sz first) cs) as [buf cs'] eqn:Eg.
    cbn [fst snd decode_chunks].
    assert (Hcnv : chunk_num_values (u16 (nlen piece) :: ss, log) prev total = chunk_num_values (s0 :: ss, log) prev total)
      by reflexivity.
    rewrite Hcnv.
    assert (Hpl : nlen piece < 65536).
    { unfold piece. apply comp_u16. unfold nlen. rewrite firstn_length. unfold sz. lia. }
    rewrite (u16_small _ Hpl).
    cbn [take_bufs drop_bufs].
    assert (Ef : firstn (N.to_nat (nlen piece)) (piece ++ buf) = piece).
    { unfold nlen. rewrite Nat2N.id, firstn_app, Nat.sub_diag, firstn_O, app_nil_r. apply firstn_all. }
    assert (Es : skipn (N.to_nat (nlen piece)) (piece ++ buf) = buf).
    { unfold nlen. rewrite Nat2N.id, skipn_app, Nat.sub_diag, skipn_O, skipn_all. reflexivity. }
    rewrite Ef, Es.
    cbn [general_decode]. unfold piece. rewrite comp_roundtrip. fold sz.
    specialize (IH (skipn sz first) (drop_bufs ss others) (prev + chunk_num_values (s0 :: ss, log) prev total) total Hs').
    rewrite Eg in IH. cbn [fst snd] in IH. rewrite IH. reflexivity.
  Qed.

  (* GeneralMiniBlockCompressor followed by the decompressor the description selects:
     wrapped pages need GeneralMiniBlockDecompressor, unwrapped pages are the inner page *)
  Theorem general_roundtrip : forall (A : Type) (inner : list (list N) -> N -> outcome A)
      (bufs : list (list N)) (chunks : list chunk) (prev total : N),
    sizes_ok chunks ->
    let '(wrapped, bufs', chunks') := general_compress comp bufs chunks in
    decode_chunks (if wrapped then general_decode decomp inner else inner) bufs' chunks' prev total
    = decode_chunks inner bufs chunks prev total.
  Proof.
    intros A inner bufs chunks prev total Hs. unfold general_compress.
    destruct bufs as [|first others]; [reflexivity|].
    destruct (nlen first <? MIN_BUFFER_SIZE_FOR_COMPRESSION); [reflexivity|].
    destruct (general_chunks comp first chunks) as [cbuf cs] eqn:Eg.
    match goal with |- context [if ?b then _ else _] => destruct b end.
    - reflexivity.
    - pose proof (general_chunks_decode A inner chunks first others prev total Hs) as H.
      rewrite Eg in H. cbn [fst snd] in H. exact H.
  Qed.

  (* the wrapper never changes the value counts of the chunks *)
  Lemma general_chunks_logs : forall chunks first,
    map snd (snd (general_chunks comp first chunks)) = map snd chunks.
  Proof.
    induction chunks as [|c cs IH]; intro first; [reflexivity|].
    cbn [general_chunks]. specialize (IH (skipn (N.to_nat (hd 0 (fst c))) first)).
    destruct (general_chunks comp (skipn (N.to_nat (hd 0 (fst c))) first) cs) as [buf cs'].
    cbn [snd map] in *. rewrite IH. reflexivity.
  Qed.

  (* CompressedBufferEncoder per value *)
  Theorem per_value_roundtrip : forall vals, per_value_decompress decomp (per_value_compress comp vals) = vals.
  Proof.
    intro vals. unfold per_value_decompress, per_value_compress. rewrite map_map.
    induction vals as [|v r IH]; [reflexivity|]. cbn [map]. rewrite comp_roundtrip, IH. reflexivity.
  Qed.
End GeneralProofs.

Section FsstProofs.
  Variable table : Type.
  Variable fsst_train : list (list N) -> table.
  Variable fsst_enc : table -> list N -> list N.
  Variable fsst_dec : table -> list N -> list N.
  (* C28 proves this for the real symbol-table kernel: decompress (compress v) = v under the page's table *)
  Hypothesis fsst_roundtrip : forall vals v, In v vals ->
    fsst_dec (fsst_train vals) (fsst_enc (fsst_train vals) v) = v.

  (* whatever lossless inner (binary) codec carries the compressed values, FSST gives the page back *)
  Theorem fsst_wrapper_roundtrip : forall vals,
    let '(t, cvals) := fsst_compress table fsst_train fsst_enc vals in
    fsst_decode table fsst_dec t (Ok cvals) = Ok vals.
  Proof.
    intro vals. unfold fsst_compress, fsst_decode. cbn [outcome_map]. f_equal.
    rewrite map_map.
    assert (H : forall l, (forall v, In v l -> In v vals) ->
                map (fun x => fsst_dec (fsst_train vals) (fsst_enc (fsst_train vals) x)) l = l).
    { induction l as [|v r IH]; intro Hin; [reflexivity|].
      cbn [map]. rewrite fsst_roundtrip by (apply Hin; left; reflexivity).
      rewrite IH by (intros; apply Hin; right; assumption). reflexivity. }
    apply H. intros v Hv. exact Hv.
  Qed.
End FsstProofs.

(* ---------- dictionary encoding (dict.rs) ---------- *)
Lemma nlist_eqb_eq : forall a b, nlist_eqb a b = true <-> a = b.
Proof. apply list_eqb_eq. intros x y. apply N.eqb_eq. Qed.

Lemma index_of_spec : forall v dict k i, index_of v dict k = Some i ->
  k <= i /\ (N.to_nat (i - k) < length dict)%nat /\ nth (N.to_nat (i - k)) dict [] = v.
Proof.
  intros v dict. induction dict as [|d ds IH]; intros k i H; cbn [index_of] in H; [discriminate|].
  destruct (nlist_eqb d v) eqn:E.
  - inversion H; subst i. apply nlist_eqb_eq in E. subst d.
    rewrite N.sub_diag. cbn. repeat split; lia.
  - destruct (IH (k + 1) i H) as (H1 & H2 & H3). split; [lia|].
    replace (N.to_nat (i - k)) with (S (N.to_nat (i - (k + 1)))) by lia.
    cbn [length nth]. split; [lia | exact H3].
Qed.

Lemma dict_encode_loop_spec : forall vals dict idx d,
  dict_encode_loop vals dict = (idx, d) ->
  (exists ext, d = dict ++ ext) /\ dict_decode idx d = vals.
Proof.
  induction vals as [|v vs IH]; intros dict idx d H; cbn [dict_encode_loop] in H.
  - inversion H; subst. split; [exists []; rewrite app_nil_r; reflexivity | reflexivity].
  - destruct (index_of v dict 0) as [i|] eqn:Ei.
    + destruct (dict_encode_loop vs dict) as [idx' d'] eqn:El. inversion H; subst idx d.
      destruct (IH dict idx' d' El) as ((ext & Ed) & Hdec).
      split; [exists ext; exact Ed|].
      unfold dict_decode in *. cbn [map]. rewrite Hdec. f_equal.
      destruct (index_of_spec v dict 0 i Ei) as (_ & Hlt & Hn). rewrite N.sub_0_r in *.
      rewrite Ed, app_nth1 by exact Hlt. exact Hn.
    + destruct (dict_encode_loop vs (dict ++ [v])) as [idx' d'] eqn:El. inversion H; subst idx d.
      destruct (IH (dict ++ [v]) idx' d' El) as ((ext & Ed) & Hdec).
      split; [exists ([v] ++ ext); rewrite Ed, <- app_assoc; reflexivity|].
      unfold dict_decode in *. cbn [map]. rewrite Hdec. f_equal.
      rewrite Ed, <- app_assoc. unfold nlen. rewrite Nat2N.id.
      rewrite app_nth2 by lia. rewrite Nat.sub_diag. reflexivity.
Qed.

(* for EVERY list of values (byte strings or 128-bit words): indices into the dictionary
   reproduce the values *)
Theorem dict_roundtrip : forall vals,
  dict_decode (fst (dict_encode vals)) (snd (dict_encode vals)) = vals.
Proof.
  intro vals. unfold dict_encode. destruct (dict_encode_loop vals []) as [idx d] eqn:E.
  cbn [fst snd]. apply (dict_encode_loop_spec vals [] idx d E).
Qed.
