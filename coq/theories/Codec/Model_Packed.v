(* C26 - packed struct codecs (rust/lance-encoding/src/encodings/physical/packed.rs) and the
   dictionary encoder (rust/lance-encoding/src/encodings/logical/primitive/dict.rs).
   Fixed-width packed struct: row-major interleave of the children followed by the value
   mini-block chunking (Model_Value); decoder de-interleaves a decoded chunk.
   Variable packed struct (per value): each row is the concatenation of the fields, a
   variable-width field being length prefixed. Definitions only. *)
From LanceV Require Import Common.Base Codec.Model_Bytes Codec.Model_Value.
Local Open Scope N_scope.

(* ---- fixed-width packed struct ---- *)
(* struct_data_block_to_fixed_width_data_block: children = (bytes_per_value, data bytes) *)
Definition packed_row (children : list (nat * list N)) (i : nat) : list N :=
  flat_map (fun ch => firstn (fst ch) (skipn (fst ch * i) (snd ch))) children.

Definition packed_interleave (children : list (nat * list N)) (num_values : nat) : list N :=
  flat_map (packed_row children) (seq 0 num_values).

(* prefix sums of the field widths *)
Fixpoint prefix_sums (acc : nat) (ws : list nat) : list nat :=
  match ws with
  | [] => []
  | w :: r => acc :: prefix_sums (acc + w) r
  end.

(* PackedStructFixedWidthMiniBlockDecompressor::decompress: child i, row j is the slice
   [prefix_sum[i] + j*row_bytes, +bytes_per_value[i]) of the decoded row-major data *)
Definition packed_split (widths : list nat) (rows : list N) (num_values : nat) : list (list N) :=
  let row_bytes := fold_right Nat.add 0%nat widths in
  map (fun pw => flat_map (fun j => firstn (snd pw) (skipn (fst pw + j * row_bytes) rows)) (seq 0 num_values))
      (combine (prefix_sums 0 widths) widths).

(* PackedStructFixedWidthMiniBlockEncoder::compress: (row-major buffer, chunk table) *)
Definition packed_fixed_encode (children : list (nat * list N)) (num_values : N)
  : option (outcome (list N * list chunk)) :=
  let rows := packed_interleave children (N.to_nat num_values) in
  let bits := 8 * N.of_nat (fold_right Nat.add 0%nat (map fst children)) in
  match value_chunk_data bits num_values (nlen rows) with
  | Some (Ok cs) => Some (Ok (rows, cs))
  | Some Err => Some Err
  | Some Panic => Some Panic
  | None => None
  end.

Definition packed_fixed_decode (widths : list nat) (bufs : list (list N)) (n : N) : outcome (list (list N)) :=
  match bufs with
  | [b] => Ok (packed_split widths b (N.to_nat n))
  | _ => Panic
  end.

(* ---- variable packed struct (per value) ---- *)
Inductive pfield :=
| PFixed (w : nat) (data : list N)                       (* bytes per value, data *)
| PVar (pw : nat) (offsets : list N) (data : list N).    (* prefix bytes (4/8), offsets, data *)

Inductive pkind := KFixed (w : nat) | KVar (pw : nat).
Definition kind_of (f : pfield) : pkind :=
  match f with PFixed w _ => KFixed w | PVar pw _ _ => KVar pw end.

(* append_row_bytes *)
Definition pfield_row (f : pfield) (i : nat) : list N :=
  match f with
  | PFixed w d => firstn w (skipn (w * i) d)
  | PVar pw offs d =>
      let s := nth i offs 0 in
      let e := nth (S i) offs 0 in
      le_bytes pw ((e - s) mod 2 ^ (8 * N.of_nat pw)) ++ firstn (N.to_nat (e - s)) (skipn (N.to_nat s) d)
  end.

(* PackedStructVariablePerValueEncoder::compress: the rows (a variable-width block as values) *)
Definition packed_var_rows (fields : list pfield) (num_values : nat) : list (list N) :=
  map (fun i => flat_map (fun f => pfield_row f i) fields) (seq 0 num_values).

(* decoder: split one row into the field values; Err when a field runs past the row end *)
Fixpoint parse_row (kinds : list pkind) (row : list N) : outcome (list (list N)) :=
  match kinds with
  | [] => match row with [] => Ok [] | _ => Err end     (* "did not consume full row" *)
  | KFixed w :: ks =>
      if Nat.ltb (length row) w then Err
      else match parse_row ks (skipn w row) with
           | Ok r => Ok (firstn w row :: r)
           | e => e
           end
  | KVar pw :: ks =>
      if Nat.ltb (length row) pw then Err
      else
        let len := N.to_nat (le_val (firstn pw row)) in
        let rest := skipn pw row in
        if Nat.ltb (length rest) len then Err
        else match parse_row ks (skipn len rest) with
             | Ok r => Ok (firstn len rest :: r)
             | e => e
             end
  end.

(* PackedStructVariablePerValueDecompressor::decompress: per row the list of field values *)
Fixpoint packed_var_decode (kinds : list pkind) (rows : list (list N)) : outcome (list (list (list N))) :=
  match rows with
  | [] => Ok []
  | r :: rs =>
      match parse_row kinds r with
      | Ok fs => match packed_var_decode kinds rs with
                 | Ok t => Ok (fs :: t)
                 | e => e
                 end
      | Err => Err
      | Panic => Panic
      end
  end.

(* ---- dictionary encoding ---- *)
Fixpoint index_of (v : list N) (dict : list (list N)) (i : N) : option N :=
  match dict with
  | [] => None
  | d :: ds => if nlist_eqb d v then Some i else index_of v ds (i + 1)
  end.

(* dictionary_encode: first-occurrence order; returns (indices, dictionary) *)
Fixpoint dict_encode_loop (vals : list (list N)) (dict : list (list N)) : list N * list (list N) :=
  match vals with
  | [] => ([], dict)
  | v :: vs =>
      match index_of v dict 0 with
      | Some i => let '(idx, d) := dict_encode_loop vs dict in (i :: idx, d)
      | None => let '(idx, d) := dict_encode_loop vs (dict ++ [v]) in (nlen dict :: idx, d)
      end
  end.
Definition dict_encode (vals : list (list N)) : list N * list (list N) := dict_encode_loop vals [].

Definition dict_decode (indices : list N) (dict : list (list N)) : list (list N) :=
  map (fun i => nth (N.to_nat i) dict []) indices.

(* ---- correspondence checkers ---- *)
Definition children_t : Type := list (N * list N).
Definition to_children (c : children_t) : list (nat * list N) := map (fun x => (N.to_nat (fst x), snd x)) c.

(* input (children as (bytes_per_value, data), num_values) ; output (row buffer, chunk table) *)
Definition chk_packed_fixed_encode (i : children_t * N) (o : outcome (list N * list chunk)) : bool :=
  match packed_fixed_encode (to_children (fst i)) (snd i), o with
  | Some (Ok (b, c)), Ok (b', c') => nlist_eqb b b' && list_eqb chunk_eqb c c'
  | Some Panic, Panic => true
  | Some Err, Err => true
  | _, _ => false
  end.

(* input (widths, chunk buffer, n) ; output children buffers *)
Definition chk_packed_fixed_decode (i : list N * list N * N) (o : outcome (list (list N))) : bool :=
  let '(ws, b, n) := i in
  outcome_eqb (list_eqb nlist_eqb) (packed_fixed_decode (map N.to_nat ws) [b] n) o.

(* variable packed struct: fields given as (is_var, width/prefix, offsets, data) *)
Definition pfield_t : Type := (bool * N * list N * list N)%type.
Definition to_pfield (f : pfield_t) : pfield :=
  match f with
  | (true, w, offs, d) => PVar (N.to_nat w) offs d
  | (false, w, _, d) => PFixed (N.to_nat w) d
  end.

(* input (fields, num_values) ; output the rows produced by the real encoder *)
Definition chk_packed_var_encode (i : list pfield_t * N) (o : list (list N)) : bool :=
  list_eqb nlist_eqb (packed_var_rows (map to_pfield (fst i)) (N.to_nat (snd i))) o.

(* input (kinds as (is_var, width), rows) ; output per FIELD the list of values (the decoder
   returns column blocks) *)
Fixpoint transpose_fields (nf : nat) (rows : list (list (list N))) : list (list (list N)) :=
  match nf with
  | O => []
  | S k => map (fun r => hd [] r) rows :: transpose_fields k (map (fun r => tl r) rows)
  end.
Definition chk_packed_var_decode (i : list (bool * N) * list (list N)) (o : outcome (list (list (list N)))) : bool :=
  let kinds := map (fun k : bool * N => if fst k then KVar (N.to_nat (snd k)) else KFixed (N.to_nat (snd k))) (fst i) in
  outcome_eqb (list_eqb (list_eqb nlist_eqb))
    (outcome_map (transpose_fields (length kinds)) (packed_var_decode kinds (snd i))) o.

(* input values ; output (indices, dictionary values) *)
Definition chk_dict_encode (i : list (list N)) (o : list N * list (list N)) : bool :=
  let '(idx, d) := dict_encode i in nlist_eqb idx (fst o) && list_eqb nlist_eqb d (snd o).
