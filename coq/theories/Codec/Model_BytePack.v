(* C26 - byte packing of integers (rust/lance-encoding/src/utils/bytepack.rs):
   BytepackedIntegerEncoder::{with_capacity, append, into_data} and ByteUnpacker. Definitions only. *)
From LanceV Require Import Common.Base Codec.Model_Bytes.
Local Open Scope N_scope.

Inductive bp_kind := BPZero | BPU8 | BPU16 | BPU32 | BPU64.

(* with_capacity(_, max_value) *)
Definition bp_kind_of (max_value : N) : bp_kind :=
  if max_value =? 0 then BPZero
  else if max_value <=? 255 then BPU8
  else if max_value <=? 65535 then BPU16
  else if max_value <=? 4294967295 then BPU32
  else BPU64.

Definition bp_width (k : bp_kind) : nat :=
  match k with BPZero => 0 | BPU8 => 1 | BPU16 => 2 | BPU32 => 4 | BPU64 => 8 end.

(* append: `value as uN` truncates silently, then to_le_bytes *)
Definition bp_append (k : bp_kind) (v : N) : list N :=
  match k with
  | BPZero => []
  | _ => le_bytes (bp_width k) (v mod 2 ^ (8 * N.of_nat (bp_width k)))
  end.

Definition bp_pack (max_value : N) (vals : list N) : list N :=
  flat_map (bp_append (bp_kind_of max_value)) vals.

(* ByteUnpacker::new(data, size).collect(): panics on an invalid size and (via unwrap) on a
   trailing partial word. [fuel] >= number of bytes. *)
Fixpoint bp_unpack_loop (fuel : nat) (w : nat) (bytes : list N) : outcome (list N) :=
  match bytes with
  | [] => Ok []
  | _ =>
    match fuel with
    | O => Panic
    | S fuel' =>
        if Nat.ltb (length bytes) w then Panic
        else match bp_unpack_loop fuel' w (skipn w bytes) with
             | Ok r => Ok (le_val (firstn w bytes) :: r)
             | e => e
             end
    end
  end.

Definition bp_unpack (size : N) (bytes : list N) : outcome (list N) :=
  if (size =? 1) || (size =? 2) || (size =? 4) || (size =? 8)
  then bp_unpack_loop (S (length bytes)) (N.to_nat size) bytes
  else Panic.

(* ---- correspondence checkers ---- *)
(* input (max_value, values) ; output bytes of into_data() *)
Definition chk_bp_pack (i : N * list N) (o : list N) : bool :=
  nlist_eqb (bp_pack (fst i) (snd i)) o.
(* input (size, bytes) ; output collected values *)
Definition chk_bp_unpack (i : N * list N) (o : outcome (list N)) : bool :=
  outcome_eqb nlist_eqb (bp_unpack (fst i) (snd i)) o.
