(* C26 - RLE mini-block codec, page level: the outer loop of encode_data terminates, covers every
   value, the page decodes chunk by chunk to the input, and the chunk table respects the limits. *)
From LanceV Require Import Common.Base Codec.Model_Bytes Codec.Proofs_Bytes Codec.Model_Rle Codec.Proofs_Rle.
Local Open Scope N_scope.

(* the accumulators only prefix the result *)
Lemma rle_encode_loop_acc : forall fuel ts data ar ac,
  rle_encode_loop fuel ts data ar ac =
  match rle_encode_loop fuel ts data [] [] with
  | Some (Ok (r, c)) => Some (Ok (ar ++ r, ac ++ c))
  | Some Err => Some Err
  | Some Panic => Some Panic
  | None => None
  end.
Proof.
  induction fuel as [|fuel IH]; intros ts data ar ac.
  - destruct data; cbn [rle_encode_loop]; [rewrite !app_nil_r|]; reflexivity.
  - destruct data as [|d0 dt]; cbn [rle_encode_loop]; [rewrite !app_nil_r; reflexivity|].
    set (data := d0 :: dt).
    destruct (rle_encode_chunk ts (nlen data) (firstn (N.to_nat (N.min (nlen data) 2048)) data)) as [[runs processed] is_last].
    destruct (processed =? 0); [cbn [app]; rewrite app_nil_r; reflexivity|].
    destruct (negb is_last && negb (is_pow2 processed)); [reflexivity|].
    rewrite (IH ts _ (ar ++ runs) (ac ++ _)).
    rewrite (IH ts _ ([] ++ runs) ([] ++ _)).
    destruct (rle_encode_loop fuel ts (skipn (N.to_nat processed) data) [] []) as [[[r c]| |]|]; try reflexivity.
    cbn [app]. rewrite <- !app_assoc. reflexivity.
Qed.

Lemma in_expand_of_wf : forall (rr : list run) (r : run), runs_wf rr -> In r rr -> In (fst r) (expand rr).
Proof.
  induction rr as [|[v l] rs IH]; intros r Hwf Hin; [contradiction|].
  inversion Hwf as [|? ? [H1 H2] Hr]; subst. cbn [snd] in *.
  cbn [expand flat_map fst snd]. fold (expand rs). apply in_or_app.
  destruct Hin as [<- | Hin].
  - left. cbn [fst]. destruct (N.to_nat l) eqn:El; [lia|]. left. reflexivity.
  - right. apply IH; assumption.
Qed.

Lemma vals_ok_incl : forall ts (a b : list N), (forall x, In x a -> In x b) -> vals_ok ts b -> vals_ok ts a.
Proof. intros ts a b H Hb. unfold vals_ok in *. rewrite Forall_forall in *. intros x Hx. apply Hb, H, Hx. Qed.

Lemma bytes_of_words_app : forall w a b, bytes_of_words w (a ++ b) = bytes_of_words w a ++ bytes_of_words w b.
Proof. intros. unfold bytes_of_words. apply flat_map_app. Qed.

Lemma rle_buffers_app : forall ts a b,
  rle_buffers ts (a ++ b) =
  [flat_map (fun r : run => le_bytes (N.to_nat ts) (fst r)) a ++ flat_map (fun r : run => le_bytes (N.to_nat ts) (fst r)) b;
   map snd a ++ map snd b].
Proof. intros. unfold rle_buffers. rewrite flat_map_app, map_app. reflexivity. Qed.

Lemma rle_values_length : forall ts (a : list run),
  length (flat_map (fun r : run => le_bytes (N.to_nat ts) (fst r)) a) = (length a * N.to_nat ts)%nat.
Proof. intros. apply flat_map_length_const. intros; apply le_bytes_length. Qed.

Lemma log2_pow2_bounds : forall p, is_pow2 p = true -> 64 <= p -> p <= 2048 ->
  2 ^ N.log2 p = p /\ 6 <= N.log2 p /\ N.log2 p <= 11.
Proof.
  intros p Hp H64 H2048. destruct (is_pow2_spec p Hp) as [E _]. split; [exact E|].
  split.
  - change 6 with (N.log2 64). apply N.log2_le_mono. exact H64.
  - change 11 with (N.log2 2048). apply N.log2_le_mono. exact H2048.
Qed.

Lemma rle_page : forall fuel ts data prev total,
  ts_ok ts -> vals_ok ts data -> (length data <= fuel)%nat -> prev + nlen data = total ->
  exists runs chunks outs,
    rle_encode_loop fuel ts data [] [] = Some (Ok (runs, chunks)) /\
    decode_chunks (rle_decode ts) (rle_buffers ts runs) chunks prev total = Ok outs /\
    concat outs = bytes_of_words (N.to_nat ts) data /\
    chunks_ok_from chunks prev total = true /\
    (data = [] -> chunks = []).
Proof.
  induction fuel as [|fuel IH]; intros ts data prev total Hts Hv Hf Htot.
  - destruct data; [|cbn in Hf; lia]. cbn [rle_encode_loop]. exists [], [], [].
    cbn. repeat split; try reflexivity. apply N.eqb_eq. cbn in Htot. lia.
  - destruct data as [|d0 dt].
    { cbn [rle_encode_loop]. exists [], [], []. cbn. repeat split; try reflexivity.
      apply N.eqb_eq. cbn in Htot. lia. }
    set (data := d0 :: dt) in *.
    assert (Hrem : 1 <= nlen data) by (unfold nlen, data; cbn [length]; lia).
    cbn [rle_encode_loop]. fold data.
    set (remaining := nlen data) in *.
    set (typed := firstn (N.to_nat (N.min remaining 2048)) data).
    assert (Htyped : nlen typed = N.min remaining 2048).
    { unfold typed, nlen, remaining, nlen. rewrite firstn_length. lia. }
    destruct (rle_encode_chunk ts remaining typed) as [[rr p] il] eqn:Eenc.
    destruct (rle_encode_chunk_spec ts Hts remaining typed Htyped rr p il Hrem Eenc)
      as ((Hwf & Hbytes & Hp1 & Hpe & Hfirst & Hpt & (tail & Htail)) & Hlast & Hnot).
    assert (E0 : (p =? 0) = false) by (apply N.eqb_neq; lia).
    rewrite E0.
    assert (Epanic : negb il && negb (is_pow2 p) = false).
    { destruct il; [reflexivity|]. destruct (Hnot eq_refl) as (Hp2 & _). rewrite Hp2. reflexivity. }
    rewrite Epanic.
    set (log := if il then 0 else N.log2 p).
    set (c := ([u16 (nlen rr * ts); u16 (nlen rr)], log) : chunk).
    rewrite rle_encode_loop_acc. cbn [app].
    (* facts about the position *)
    assert (Hp2048 : p <= 2048) by lia.
    assert (Hpdata : p <= nlen data) by (unfold remaining in *; lia).
    assert (Hts8 : 1 <= ts /\ ts <= 8) by (destruct Hts as [-> | [-> | [-> | ->]]]; lia).
    (* recursive call *)
    destruct (IH ts (skipn (N.to_nat p) data) (prev + p) total Hts) as (runs' & chunks' & outs' & El & Ed & Ec & Eok & Hnil).
    { apply (vals_ok_incl ts _ data); [|exact Hv]. intros x Hx.
      rewrite <- (firstn_skipn (N.to_nat p) data). apply in_or_app. right. exact Hx. }
    { rewrite skipn_length. unfold nlen in *. lia. }
    { unfold nlen in *. rewrite skipn_length. lia. }
    rewrite El.
    exists (rr ++ runs'), (c :: chunks'), (bytes_of_words (N.to_nat ts) (firstn (N.to_nat p) data) :: outs').
    split; [reflexivity|].
    (* this chunk's value count as the reader computes it *)
    assert (Hcnv : chunk_num_values c prev total = p).
    { unfold chunk_num_values, c, log. cbn [snd]. destruct il.
      - rewrite N.eqb_refl. rewrite (Hlast eq_refl). unfold remaining. lia.
      - destruct (Hnot eq_refl) as (Hp2 & H64 & Hlt).
        destruct (log2_pow2_bounds p Hp2 H64 Hp2048) as (Epow & Hl6 & Hl11).
        destruct (N.log2 p =? 0) eqn:El0; [lia | exact Epow]. }
    assert (Hu1 : u16 (nlen rr * ts) = nlen rr * ts) by (apply u16_small; unfold MAX_MINIBLOCK_BYTES in Hbytes; nia).
    assert (Hu2 : u16 (nlen rr) = nlen rr) by (apply u16_small; unfold MAX_MINIBLOCK_BYTES in Hbytes; nia).
    (* the reader's slices are exactly this chunk's runs *)
    assert (Htake : take_bufs (fst c) (rle_buffers ts (rr ++ runs')) = rle_buffers ts rr
                    /\ drop_bufs (fst c) (rle_buffers ts (rr ++ runs')) = rle_buffers ts runs').
    { rewrite rle_buffers_app. unfold c. cbn [fst take_bufs drop_bufs]. rewrite Hu1, Hu2.
      assert (L1 : N.to_nat (nlen rr * ts) = length (flat_map (fun r : run => le_bytes (N.to_nat ts) (fst r)) rr))
        by (rewrite rle_values_length; unfold nlen; lia).
      assert (L2 : N.to_nat (nlen rr) = length (map snd rr)) by (rewrite map_length; unfold nlen; apply Nat2N.id).
      rewrite L1, L2.
      rewrite !firstn_app, !Nat.sub_diag, !firstn_O, !app_nil_r, !firstn_all.
      rewrite !skipn_app, !Nat.sub_diag, !skipn_O, !skipn_all. cbn [app].
      split; reflexivity. }
    destruct Htake as [Htk Hdr].
    assert (Hrrne : rr <> []).
    { intro E. subst rr. cbn in Hpe. lia. }
    assert (Hvrr : vals_ok ts (map fst rr)).
    { unfold vals_ok in *. rewrite Forall_forall in *. intros x Hx.
      apply in_map_iff in Hx as (r & <- & Hr). apply Hv.
      assert (Hin : In (fst r) typed) by (rewrite Htail; apply in_or_app; left; apply in_expand_of_wf; assumption).
      unfold typed in Hin. rewrite <- (firstn_skipn (N.to_nat (N.min remaining 2048)) data).
      apply in_or_app. left. exact Hin. }
    assert (Hfd : firstn (N.to_nat p) (expand rr) = firstn (N.to_nat p) data).
    { rewrite Hfirst. unfold typed. rewrite firstn_firstn. f_equal. unfold nlen in *. lia. }
    split.
    { cbn [decode_chunks]. rewrite Hcnv, Htk, Hdr.
      rewrite (rle_decode_chunk ts rr p Hts Hrrne Hvrr Hp1 Hpe). rewrite Ed, Hfd. reflexivity. }
    split.
    { cbn [concat]. rewrite Ec, <- bytes_of_words_app, firstn_skipn. reflexivity. }
    split.
    { cbn [chunks_ok_from]. rewrite Hcnv, Eok.
      assert (Hsum : sum_N (fst c) = nlen rr * (ts + 1)).
      { unfold c. cbn [fst]. unfold sum_N. cbn [fold_right]. rewrite Hu1, Hu2. lia. }
      rewrite Hsum.
      assert (Hlogc : match chunks' with [] => true | _ :: _ => (1 <=? snd c) && (snd c <=? 12) end = true).
      { destruct chunks' as [|c1 cs1] eqn:Ech; [reflexivity|].
        unfold c, log. cbn [snd]. destruct il.
        - (* a last chunk leaves nothing behind *)
          exfalso. assert (Hsk : skipn (N.to_nat p) data = []).
          { apply skipn_all2. rewrite (Hlast eq_refl). unfold remaining, nlen. lia. }
          specialize (Hnil Hsk). discriminate.
        - destruct (Hnot eq_refl) as (Hp2 & H64 & Hlt).
          destruct (log2_pow2_bounds p Hp2 H64 Hp2048) as (Epow & Hl6 & Hl11).
          apply andb_true_iff; split; apply N.leb_le; lia. }
      rewrite Hlogc. unfold MAX_MINIBLOCK_VALUES.
      repeat (apply andb_true_iff; split); try reflexivity; apply N.leb_le; lia. }
    { intro E. discriminate. }
Qed.

(* RleMiniBlockEncoder::compress / RleMiniBlockDecompressor::decompress on whole pages *)
Theorem rle_roundtrip : forall (ts : N) (data : list N),
  ts_ok ts -> vals_ok ts data ->
  exists bufs chunks,
    rle_encode ts data = Some (Ok (bufs, chunks)) /\
    rle_decode_page ts bufs chunks (nlen data) = Ok (bytes_of_words (N.to_nat ts) data) /\
    chunks_ok chunks (nlen data) = true.
Proof.
  intros ts data Hts Hv. unfold rle_encode.
  destruct data as [|d0 dt].
  - exists [], []. repeat split; reflexivity.
  - set (data := d0 :: dt) in *.
    destruct (rle_page (S (length data)) ts data 0 (nlen data) Hts Hv ltac:(lia) ltac:(lia))
      as (runs & chunks & outs & El & Ed & Ec & Eok & _).
    rewrite El. exists (rle_buffers ts runs), chunks. split; [reflexivity|].
    split.
    + unfold rle_decode_page. rewrite Ed. cbn [outcome_map]. rewrite Ec. reflexivity.
    + unfold chunks_ok. destruct chunks as [|c cs].
      * cbn [chunks_ok_from] in Eok. apply N.eqb_eq in Eok. unfold nlen, data in Eok. cbn [length] in Eok. lia.
      * exact Eok.
Qed.
