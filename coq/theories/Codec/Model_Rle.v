(* C26 - RLE mini-block codec: transcription of rust/lance-encoding/src/encodings/physical/rle.rs
   (RleMiniBlockEncoder::{encode_data, encode_chunk_rolling, add_run},
    RleMiniBlockDecompressor::{decode_data, decode_generic}).
   Values are the typed little-endian words (u8/u16/u32/u64 as N), [ts] = size_of::<T>() in bytes.
   The two global buffers all_values / all_lengths always grow in lock step, so the model keeps
   one list of runs (value, length) and prints it as two byte buffers at the end. Definitions only. *)
From LanceV Require Import Common.Base Codec.Model_Bytes.
Local Open Scope N_scope.

Definition run : Type := (N * N)%type.

(* add_run: num_full_chunks runs of 255 plus the remainder *)
Definition add_run (v len : N) : list run :=
  repeat (v, 255) (N.to_nat (len / 255)) ++ (if 0 <? len mod 255 then [(v, len mod 255)] else []).
(* its return value total_chunks * (type_size + 1) *)
Definition add_run_bytes (ts len : N) : N :=
  (len / 255 + (if 0 <? len mod 255 then 1 else 0)) * (ts + 1).

Definition rle_checkpoints (ts : N) : list N :=
  if ts =? 1 then [256; 512; 1024; 2048; 4096]
  else if ts =? 2 then [128; 256; 512; 1024; 2048; 4096]
  else [64; 128; 256; 512; 1024; 2048; 4096].

Record rst := mk_rst {
  r_cv : N;           (* current_value *)
  r_cl : N;           (* current_length *)
  r_used : N;         (* bytes_used *)
  r_total : N;        (* total_values_encoded *)
  r_runs : list run;  (* runs appended to the global buffers by this call *)
  r_cpi : nat;        (* checkpoint_idx *)
  r_last : option (nat * N)  (* last_checkpoint_state: (number of runs, checkpoint_values) *)
}.

(* "Check if we reached a power-of-2 checkpoint" *)
Definition rle_checkpoint (cps : list N) (s : rst) : rst :=
  match nth_error cps (r_cpi s) with
  | Some c =>
      if c <=? r_total s
      then mk_rst (r_cv s) (r_cl s) (r_used s) (r_total s) (r_runs s) (S (r_cpi s))
                  (Some (length (r_runs s), c))
      else s
  | None => s
  end.

(* the `for &value in typed_data[1..]` loop. inl = state at loop exit (end of data or `break`),
   inr = early `return` after rolling back to the last checkpoint: (runs kept, checkpoint_values) *)
Fixpoint rle_loop (ts : N) (cps : list N) (rest : list N) (s : rst) : rst + (list run * N) :=
  match rest with
  | [] => inl s
  | v :: rest' =>
      if v =? r_cv s then
        rle_loop ts cps rest'
          (rle_checkpoint cps (mk_rst (r_cv s) (r_cl s + 1) (r_used s) (r_total s) (r_runs s) (r_cpi s) (r_last s)))
      else
        let needed := div_ceil (r_cl s) 255 * (ts + 1) in
        if MAX_MINIBLOCK_BYTES <? r_used s + needed then
          match r_last s with
          | Some (nr, c) => inr (firstn nr (r_runs s), c)
          | None => inl s
          end
        else
          rle_loop ts cps rest'
            (rle_checkpoint cps
               (mk_rst v 1 (r_used s + add_run_bytes ts (r_cl s)) (r_total s + r_cl s)
                       (r_runs s ++ add_run (r_cv s) (r_cl s)) (r_cpi s) (r_last s)))
  end.

(* encode_chunk_rolling on the typed slice [typed] (already cut to min(values_remaining, 2048)
   values): (runs left in the global buffers, values_processed, is_last_chunk) *)
Definition rle_encode_chunk (ts : N) (values_remaining : N) (typed : list N) : list run * N * bool :=
  match typed with
  | [] => ([], 0, false)
  | v0 :: rest =>
      let cps := filter (fun p => p <=? values_remaining) (rle_checkpoints ts) in
      match rle_loop ts cps rest (mk_rst v0 1 0 0 [] 0 None) with
      | inr (runs, c) => (runs, c, false)
      | inl s =>
          (* pending run *)
          let needed := div_ceil (r_cl s) 255 * (ts + 1) in
          let fits := (0 <? r_cl s) && (r_used s + needed <=? MAX_MINIBLOCK_BYTES) in
          let runs := if fits then r_runs s ++ add_run (r_cv s) (r_cl s) else r_runs s in
          let total := if fits then r_total s + r_cl s else r_total s in
          let is_last := total =? values_remaining in
          if is_last then (runs, total, true)
          else if is_pow2 total then (runs, total, false)
          else match r_last s with
               | Some (nr, c) => (firstn nr runs, c, false)
               | None => (runs, 0, false)     (* nothing is truncated on this path *)
               end
      end
  end.

(* encode_data: the outer `while values_remaining > 0` loop. [fuel] bounds the iterations;
   None = out of fuel. Result: per chunk the runs it owns, and the chunk table;
   [junk] are runs left behind by a (0,0,false) return (the `break`). *)
Fixpoint rle_encode_loop (fuel : nat) (ts : N) (data : list N) (acc_runs : list run) (acc_chunks : list chunk)
  : option (outcome (list run * list chunk)) :=
  match data with
  | [] => Some (Ok (acc_runs, acc_chunks))
  | _ =>
    match fuel with
    | O => None
    | S fuel' =>
        let remaining := nlen data in
        let typed := firstn (N.to_nat (N.min remaining 2048)) data in
        let '(runs, processed, is_last) := rle_encode_chunk ts remaining typed in
        if processed =? 0 then Some (Ok (acc_runs ++ runs, acc_chunks))
        else if negb is_last && negb (is_pow2 processed) then Some Panic
        else
          let log := if is_last then 0 else N.log2 processed in
          let c : chunk := ([u16 (nlen runs * ts); u16 (nlen runs)], log) in
          rle_encode_loop fuel' ts (skipn (N.to_nat processed) data) (acc_runs ++ runs) (acc_chunks ++ [c])
    end
  end.

Definition rle_buffers (ts : N) (runs : list run) : list (list N) :=
  [flat_map (fun r => le_bytes (N.to_nat ts) (fst r)) runs; map snd runs].

(* RleMiniBlockEncoder::compress on a FixedWidth block of typed values:
   (buffers, chunks). num_values = 0 gives no buffers at all. *)
Definition rle_encode (ts : N) (data : list N) : option (outcome (list (list N) * list chunk)) :=
  match data with
  | [] => Some (Ok ([], []))
  | _ =>
      match rle_encode_loop (S (length data)) ts data [] [] with
      | Some (Ok (runs, chunks)) => Some (Ok (rle_buffers ts runs, chunks))
      | Some Err => Some Err
      | Some Panic => Some Panic
      | None => None
      end
  end.

(* ---- decoder ---- *)
(* the zip loop of decode_generic at value granularity: [d] values decoded so far of [n] *)
Fixpoint rle_expand (runs : list run) (d n : N) : list N :=
  match runs with
  | [] => []
  | (v, len) :: rs =>
      if n <? d + len then repeat v (N.to_nat (n - d))
      else repeat v (N.to_nat len) ++ rle_expand rs (d + len) n
  end.

(* RleMiniBlockDecompressor::decompress for one chunk: buffers [values; lengths], output bytes *)
Definition rle_decode (ts : N) (bufs : list (list N)) (n : N) : outcome (list N) :=
  if n =? 0 then Ok []
  else match bufs with
  | [vb; lb] =>
      match vb, lb with
      | [], _ | _, [] => Err
      | _, _ =>
        if negb (N.of_nat (length vb) mod ts =? 0) then Err
        else if negb (N.of_nat (length vb) / ts =? nlen lb) then Panic
        else
          let vals := words_of_bytes (N.to_nat ts) vb in
          let out := rle_expand (combine vals lb) 0 n in
          if nlen out =? n then Ok (bytes_of_words (N.to_nat ts) out) else Err
      end
  | _ => Panic
  end.

(* whole page: decode every chunk and concatenate *)
Definition rle_decode_page (ts : N) (bufs : list (list N)) (chunks : list chunk) (total : N) : outcome (list N) :=
  outcome_map (@concat N) (decode_chunks (rle_decode ts) bufs chunks 0 total).

(* ---- correspondence checkers ---- *)
Definition bufs_eqb := list_eqb nlist_eqb.
Definition chunks_eqb := list_eqb chunk_eqb.

(* input (ts, typed values); output of the real compressor (buffers, chunk table) *)
Definition chk_rle_encode (i : N * list N) (o : outcome (list (list N) * list chunk)) : bool :=
  match rle_encode (fst i) (snd i), o with
  | Some (Ok (b, c)), Ok (b', c') => bufs_eqb b b' && chunks_eqb c c'
  | Some Err, Err => true
  | Some Panic, Panic => true
  | _, _ => false
  end.

(* the same comparison for large cases in a compact notation: the input is given as a list of
   (value, repeat count) and the implementation's value buffer as its typed words *)
Definition expand_spec (spec : list (N * N)) : list N :=
  flat_map (fun r => repeat (fst r) (N.to_nat (snd r))) spec.
Definition chk_rle_encode_w (i : N * list (N * N)) (o : outcome (list N * list N * list chunk)) : bool :=
  match rle_encode (fst i) (expand_spec (snd i)), o with
  | Some (Ok (b, c)), Ok (w, l, c') =>
      bufs_eqb b (match w, l with [], [] => [] | _, _ => [bytes_of_words (N.to_nat (fst i)) w; l] end)
      && chunks_eqb c c'
  | Some Err, Err => true
  | Some Panic, Panic => true
  | _, _ => false
  end.

(* input (ts, chunk buffers, num_values); output bytes of the real decompressor *)
Definition chk_rle_decode (i : N * list (list N) * N) (o : outcome (list N)) : bool :=
  let '(ts, bufs, n) := i in
  outcome_eqb nlist_eqb (rle_decode ts bufs n) o.
