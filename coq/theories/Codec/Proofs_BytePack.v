(* C26 - byte packing round trip (utils/bytepack.rs). *)
From LanceV Require Import Common.Base Codec.Model_Bytes Codec.Proofs_Bytes Codec.Model_BytePack.
Local Open Scope N_scope.

Lemma bp_width_bound : forall mx v, 0 < mx -> mx < two64 -> v <= mx ->
  v < 256 ^ N.of_nat (bp_width (bp_kind_of mx)) /\ (0 < bp_width (bp_kind_of mx))%nat.
Proof.
  intros mx v H0 H64 Hv. unfold bp_kind_of, two64 in *.
  destruct (mx =? 0) eqn:E0; [lia|].
  destruct (mx <=? 255) eqn:E1; [cbn; split; lia|].
  destruct (mx <=? 65535) eqn:E2; [cbn; split; lia|].
  destruct (mx <=? 4294967295) eqn:E3; cbn; split; lia.
Qed.

Lemma bp_append_in_range : forall k v, k <> BPZero -> v < 256 ^ N.of_nat (bp_width k) ->
  bp_append k v = le_bytes (bp_width k) v.
Proof.
  intros k v Hk Hv. unfold bp_append.
  assert (E : v mod 2 ^ (8 * N.of_nat (bp_width k)) = v).
  { apply N.mod_small. replace (2 ^ (8 * N.of_nat (bp_width k))) with (256 ^ N.of_nat (bp_width k)); [exact Hv|].
    change 256 with (2 ^ 8). rewrite <- N.pow_mul_r. reflexivity. }
  destruct k; try congruence; rewrite E; reflexivity.
Qed.

Lemma bp_unpack_loop_pack : forall (w : nat) (vals : list N) (fuel : nat),
  (0 < w)%nat -> (length vals <= fuel)%nat ->
  Forall (fun v => v < 256 ^ N.of_nat w) vals ->
  bp_unpack_loop fuel w (flat_map (le_bytes w) vals) = Ok vals.
Proof.
  intros w vals. induction vals as [|v r IH]; intros fuel Hw Hf Hall.
  - destruct fuel; reflexivity.
  - inversion Hall as [|? ? Hv Hr]; subst.
    destruct fuel as [|fuel]; [cbn in Hf; lia|].
    cbn [flat_map].
    assert (Hlen : length (le_bytes w v ++ flat_map (le_bytes w) r) = (w + length (flat_map (le_bytes w) r))%nat)
      by (rewrite app_length, le_bytes_length; reflexivity).
    remember (le_bytes w v ++ flat_map (le_bytes w) r) as l eqn:El.
    destruct l as [|b t]; [exfalso; clear - Hlen Hw; cbn [length] in Hlen; lia|].
    cbn [bp_unpack_loop]. rewrite El.
    assert (Hlt : Nat.ltb (length (le_bytes w v ++ flat_map (le_bytes w) r)) w = false)
      by (apply Nat.ltb_ge; rewrite app_length, le_bytes_length; lia).
    rewrite Hlt.
    rewrite skipn_app, le_bytes_length, Nat.sub_diag, skipn_O.
    rewrite (skipn_all2 (le_bytes w v)) by (rewrite le_bytes_length; lia). cbn [app].
    rewrite IH by (try assumption; cbn in Hf; lia).
    rewrite firstn_app, le_bytes_length, Nat.sub_diag, firstn_O, app_nil_r.
    rewrite firstn_all2 by (rewrite le_bytes_length; lia).
    rewrite le_val_le_bytes by exact Hv. reflexivity.
Qed.

(* the encoder picked from the maximum reproduces every value <= max; the decoder is told the
   width the encoder chose (bytes per value), as the rep-index reader is *)
Theorem bytepack_roundtrip : forall (mx : N) (vals : list N),
  0 < mx -> mx < two64 -> Forall (fun v => v <= mx) vals ->
  bp_unpack (N.of_nat (bp_width (bp_kind_of mx))) (bp_pack mx vals) = Ok vals
  /\ length (bp_pack mx vals) = (length vals * bp_width (bp_kind_of mx))%nat.
Proof.
  intros mx vals H0 H64 Hall.
  destruct (bp_width_bound mx mx H0 H64 (N.le_refl _)) as [_ Hw].
  assert (Hk : bp_kind_of mx <> BPZero).
  { intro E. rewrite E in Hw. cbn in Hw. lia. }
  assert (Hall' : Forall (fun v => v < 256 ^ N.of_nat (bp_width (bp_kind_of mx))) vals).
  { eapply Forall_impl; [|exact Hall]. intros v Hv. cbv beta in Hv. apply (bp_width_bound mx v H0 H64 Hv). }
  assert (Epack : bp_pack mx vals = flat_map (le_bytes (bp_width (bp_kind_of mx))) vals).
  { unfold bp_pack. clear Hall. induction Hall' as [|v r Hv Hr IH]; [reflexivity|].
    cbn [flat_map]. rewrite bp_append_in_range by assumption. now rewrite IH. }
  split.
  - unfold bp_unpack.
    assert (Esz : ((N.of_nat (bp_width (bp_kind_of mx)) =? 1) || (N.of_nat (bp_width (bp_kind_of mx)) =? 2)
                  || (N.of_nat (bp_width (bp_kind_of mx)) =? 4) || (N.of_nat (bp_width (bp_kind_of mx)) =? 8)) = true).
    { destruct (bp_kind_of mx); try congruence; reflexivity. }
    rewrite Esz, Nat2N.id, Epack.
    apply bp_unpack_loop_pack; [exact Hw| |exact Hall'].
    rewrite (flat_map_length_const _ (bp_width (bp_kind_of mx))) by (intros; apply le_bytes_length). nia.
  - rewrite Epack. apply flat_map_length_const. intros; apply le_bytes_length.
Qed.

(* max_value = 0: the Zero encoder stores nothing (every value is 0, the reader skips the index) *)
Theorem bytepack_zero : forall vals, bp_pack 0 vals = [].
Proof. intro vals. unfold bp_pack. cbn. induction vals as [|v r IH]; [reflexivity | cbn [flat_map]; exact IH]. Qed.
