(* Model of rust/compression/bitpacking/src/lib.rs (FastLanes bit packing, 1024 values per block).
   Executable definitions only.

   What is transcribed:
     - FL_ORDER, `index(row, lane)`                          -> fl_index
     - macro `pack!`   (branches W = 0 / W = T / general)    -> pack_lane  (one lane, the sequence of writes
                                                                 `packed[LANES * curr_word + lane] = tmp`)
     - macro `unpack!` (branches W = 0 / W = T / general,
                        inner fn `mask`)                     -> unpack_lane (one lane, the sequence of kernel calls
                                                                 `output[index(row, lane)] = tmp`)
     - `pack_T_W` / `unpack_T_W` (loop `for lane in 0..LANES`)-> pack_writes / unpack_writes + scatter
     - `BitPacking::unchecked_pack / unchecked_unpack` for u8/u16/u32/u64 (debug_assert on the three
        contract conditions, `match width`, width 0 special cases) -> unchecked_pack / unchecked_unpack

   T (bits of the element type) and W (packed width) are ordinary arguments; the Rust code instantiates
   T in {8,16,32,64} and W in 0..=T by macro expansion.  All values are N; the truncation of `<<` to T bits
   is explicit (`trunc T`).  Array writes are modelled as functional updates of the caller's buffer
   in program order (scatter), array reads as nth.  *)
From LanceV Require Import Common.Base.
From Coq Require Export Uint63.   (* only for the wire format of the correspondence checkers, at the end *)
Local Open Scope N_scope.

Definition FL_ORDER : list N := [0; 4; 2; 6; 1; 5; 3; 7].

(* fn index(row, lane) = FL_ORDER[row / 8] * 16 + (row % 8) * 128 + lane *)
Definition fl_index (row lane : N) : N :=
  let o := row / 8 in
  let s := row mod 8 in
  nth (N.to_nat o) FL_ORDER 0 * 16 + s * 128 + lane.

Definition fl_lanes (T : N) : N := 1024 / T.

(* rows 0..T-1 / lanes 0..LANES-1 as lists of N *)
Definition nseq (n : N) : list N := map N.of_nat (seq 0 (N.to_nat n)).

(* functional array update; an out-of-range index leaves the list unchanged (never happens for the
   buffer sizes enforced by unchecked_pack/unchecked_unpack) *)
Fixpoint upd {A} (l : list A) (i : nat) (v : A) : list A :=
  match l, i with
  | [], _ => []
  | _ :: t, O => v :: t
  | x :: t, S j => x :: upd t j v
  end.

(* perform the writes (position, value) in order *)
Definition scatter (out : list N) (ws : list (N * N)) : list N :=
  fold_left (fun o w => upd o (N.to_nat (fst w)) (snd w)) ws out.

Definition rd (a : list N) (i : N) : N := nth (N.to_nat i) a 0.

(* keep the low T bits (what a T-bit register holds after `<<`): x mod 2^T *)
Definition trunc (T x : N) : N := N.land x (N.ones T).

(* ---------------- pack!: one lane ----------------
   src_of row = the kernel `input[index(row, lane)]`.
   Result: the writes (word index within the lane, value) in program order. *)

(* general branch 0 < W < T: state (tmp, writes so far) *)
Definition pack_step (T W : N) (src_of : N -> N) (st : N * list (N * N)) (row : N) : N * list (N * N) :=
  let '(tmp, ws) := st in
  let mask := N.shiftl 1 W - 1 in                       (* let mask: T = (1 << W) - 1 *)
  let src := N.land (src_of row) mask in
  let tmp := if row =? 0 then src
             else N.lor tmp (trunc T (N.shiftl src ((row * W) mod T))) in   (* tmp |= src << (row*W)%T *)
  let curr_word := (row * W) / T in
  let next_word := ((row + 1) * W) / T in
  if curr_word <? next_word then
    let remaining_bits := ((row + 1) * W) mod T in
    (N.shiftr src (W - remaining_bits), ws ++ [(curr_word, tmp)])
  else (tmp, ws).

Definition pack_lane (T W : N) (src_of : N -> N) : list (N * N) :=
  if W =? 0 then []
  else if W =? T then map (fun row => (row, src_of row)) (nseq T)
  else snd (fold_left (pack_step T W src_of) (nseq T) (0, [])).

(* ---------------- unpack!: one lane ----------------
   packed_of w = `packed[LANES * w + lane]`.
   Result: the kernel calls (row, value) in program order. *)
Definition unpack_mask (T width : N) : N :=
  if width =? T then N.ones T else N.shiftl 1 (width mod T) - 1.

Definition unpack_step (T W : N) (packed_of : N -> N) (st : N * list (N * N)) (row : N) : N * list (N * N) :=
  let '(src, outs) := st in
  let curr_word := (row * W) / T in
  let next_word := ((row + 1) * W) / T in
  let shift := (row * W) mod T in
  if curr_word <? next_word then
    let remaining_bits := ((row + 1) * W) mod T in
    let current_bits := W - remaining_bits in
    let tmp := N.land (N.shiftr src shift) (unpack_mask T current_bits) in
    if next_word <? W then
      let src' := packed_of next_word in
      let tmp' := N.lor tmp (trunc T (N.shiftl (N.land src' (unpack_mask T remaining_bits)) current_bits)) in
      (src', outs ++ [(row, tmp')])
    else (src, outs ++ [(row, tmp)])
  else
    let tmp := N.land (N.shiftr src shift) (unpack_mask T W) in
    (src, outs ++ [(row, tmp)]).

Definition unpack_lane (T W : N) (packed_of : N -> N) : list (N * N) :=
  if W =? 0 then map (fun row => (row, 0)) (nseq T)
  else if W =? T then map (fun row => (row, packed_of row)) (nseq T)
  else snd (fold_left (unpack_step T W packed_of) (nseq T) (packed_of 0, [])).

(* ---------------- pack_T_W / unpack_T_W: all lanes ---------------- *)
Definition pack_writes (T W : N) (input : list N) : list (N * N) :=
  flat_map (fun lane =>
              map (fun w => (fl_lanes T * fst w + lane, snd w))
                  (pack_lane T W (fun row => rd input (fl_index row lane))))
           (nseq (fl_lanes T)).

Definition unpack_writes (T W : N) (packed : list N) : list (N * N) :=
  flat_map (fun lane =>
              map (fun w => (fl_index (fst w) lane, snd w))
                  (unpack_lane T W (fun word => rd packed (fl_lanes T * word + lane))))
           (nseq (fl_lanes T)).

(* ---------------- BitPacking::unchecked_pack / unchecked_unpack ----------------
   `out0` is the caller's output buffer before the call; the result is the buffer after the call.
   The three debug_assert!s (debug build, which is what the harness runs) and the `_ => unreachable!`
   arm are the Panic outcomes. *)
Definition packed_len (T W : N) : N := 128 * W / (T / 8).   (* 128 * width / size_of::<Self>() *)

Definition unchecked_pack (T W : N) (input out0 : list N) : outcome (list N) :=
  if negb (N.of_nat (length out0) =? packed_len T W) then Panic
  else if negb (N.of_nat (length input) =? 1024) then Panic
  else if T <? W then Panic
  else if W =? 0 then Ok out0
  else Ok (scatter out0 (pack_writes T W input)).

Definition unchecked_unpack (T W : N) (packed out0 : list N) : outcome (list N) :=
  if negb (N.of_nat (length packed) =? packed_len T W) then Panic
  else if negb (N.of_nat (length out0) =? 1024) then Panic
  else if T <? W then Panic
  else if W =? 0 then Ok (map (fun _ => 0) out0)           (* output.fill(0) *)
  else Ok (scatter out0 (unpack_writes T W packed)).

(* ---------------- correspondence checkers ----------------
   Wire format of the value lists in the case files: primitive 63-bit integer literals (coqc parses them
   ~30x faster than N literals); for T = 64 every value is two consecutive integers (low 32 bits, high
   32 bits).  Only the checkers below use primitive integers. *)
Definition n_of_int (i : PrimInt63.int) : N := Z.to_N (Uint63.to_Z i).

Fixpoint wide_of_ints (l : list PrimInt63.int) : list N :=
  match l with
  | lo :: hi :: r => (n_of_int lo + 4294967296 * n_of_int hi) :: wide_of_ints r
  | _ => []
  end.

Definition vals_of_wire (T : N) (l : list PrimInt63.int) : list N :=
  if T =? 64 then wide_of_ints l else map n_of_int l.

Definition nlist_eqb := list_eqb N.eqb.

(* sparse, lossless encoding of a recorded output relative to a reference list of the same length:
   the recorded list is `patch ref diffs` *)
Definition patch (ref : list N) (diffs : list (N * N)) : list N := scatter ref diffs.

Definition wire_outcome (T : N) (o : outcome (list PrimInt63.int)) : outcome (list N) :=
  match o with Ok l => Ok (vals_of_wire T l) | Err => Err | Panic => Panic end.

(* pack: input (T, W, values, length and fill value of the output buffer);
   recorded: the output buffer after the call *)
Definition chk_fl_pack (i : N * N * list PrimInt63.int * (N * N)) (o : outcome (list PrimInt63.int)) : bool :=
  let '(T, W, input, (olen, fill)) := i in
  outcome_eqb nlist_eqb (unchecked_pack T W (vals_of_wire T input) (repeat fill (N.to_nat olen))) (wire_outcome T o).

(* unpack: input (T, W, packed words, length and fill of the output buffer); recorded: output buffer *)
Definition chk_fl_unpack (i : N * N * list PrimInt63.int * (N * N)) (o : outcome (list PrimInt63.int)) : bool :=
  let '(T, W, packed, (olen, fill)) := i in
  outcome_eqb nlist_eqb (unchecked_unpack T W (vals_of_wire T packed) (repeat fill (N.to_nat olen))) (wire_outcome T o).

(* pack then unpack in one case (halves the literal volume): recorded = (packed words,
   differences between the unpacked output and the input values) *)
Definition chk_fl_roundtrip (i : N * N * list PrimInt63.int * N) (o : list PrimInt63.int * list (N * N)) : bool :=
  let '(T, W, input, fill) := i in
  let '(packed, diffs) := o in
  let input := vals_of_wire T input in
  let packed := vals_of_wire T packed in
  outcome_eqb nlist_eqb (unchecked_pack T W input (repeat fill (N.to_nat (packed_len T W)))) (Ok packed)
  && outcome_eqb nlist_eqb (unchecked_unpack T W packed (repeat fill 1024)) (Ok (patch input diffs)).
