(* C26 - wrappers around opaque compressors: the general (LZ4 / ZSTD) mini-block wrapper of
   rust/lance-encoding/src/encodings/physical/general.rs, the per-value / block wrappers of
   block.rs (CompressedBufferEncoder), and the FSST wrappers of fsst.rs.
   The byte-level compressors are Section variables; the model is the glue around them.
   Definitions only. *)
From LanceV Require Import Common.Base Codec.Model_Bytes Codec.Model_Binary.
Local Open Scope N_scope.

Definition MIN_BUFFER_SIZE_FOR_COMPRESSION : N := 4096.

Section General.
  Variable comp : list N -> list N.      (* BufferCompressor::compress, appended output *)
  Variable decomp : list N -> list N.    (* BufferCompressor::decompress *)

  (* per chunk: compress that chunk's slice of the first buffer *)
  Fixpoint general_chunks (first : list N) (chunks : list chunk) : list N * list chunk :=
    match chunks with
    | [] => ([], [])
    | c :: cs =>
        let sz := N.to_nat (hd 0 (fst c)) in
        let piece := comp (firstn sz first) in
        let '(buf, cs') := general_chunks (skipn sz first) cs in
        (piece ++ buf, ((u16 (nlen piece) :: tl (fst c), snd c) : chunk) :: cs')
    end.

  (* GeneralMiniBlockCompressor::compress applied to the inner result:
     (wrapped?, buffers, chunks) *)
  Definition general_compress (bufs : list (list N)) (chunks : list chunk) : bool * list (list N) * list chunk :=
    match bufs with
    | [] => (false, bufs, chunks)
    | first :: others =>
        if nlen first <? MIN_BUFFER_SIZE_FOR_COMPRESSION then (false, bufs, chunks)
        else
          let '(cbuf, cs) := general_chunks first chunks in
          let total_original := sum_N (map (fun c => hd 0 (fst c)) chunks) in
          if total_original <=? nlen cbuf then (false, bufs, chunks)
          else (true, cbuf :: others, cs)
    end.

  (* GeneralMiniBlockDecompressor::decompress around an inner chunk decompressor *)
  Definition general_decode {A} (inner : list (list N) -> N -> outcome A) (bufs : list (list N)) (n : N) : outcome A :=
    match bufs with
    | [] => Panic
    | b :: others => inner (decomp b :: others) n
    end.

  (* CompressedBufferEncoder as per-value compressor: every value compressed on its own *)
  Definition per_value_compress (vals : list (list N)) : list (list N) := map comp vals.
  Definition per_value_decompress (vals : list (list N)) : list (list N) := map decomp vals.

  (* CompressedBufferEncoder as block compressor of a variable-width block:
     VariableEncoder layout, then compressed as a whole *)
  Definition general_block_compress (bw : N) (offsets_bytes data : list N) : list N :=
    comp (variable_block_encode bw offsets_bytes data).
  Definition general_block_decompress (buf : list N) (n : N) : outcome (N * list N * list N) :=
    variable_block_decode (decomp buf) n.
End General.

Section Fsst.
  Variable table : Type.
  Variable fsst_train : list (list N) -> table.          (* symbol table built from the page *)
  Variable fsst_enc : table -> list N -> list N.         (* per value *)
  Variable fsst_dec : table -> list N -> list N.

  (* FsstCompressed::fsst_compress: (symbol table, compressed values) *)
  Definition fsst_compress (vals : list (list N)) : table * list (list N) :=
    let t := fsst_train vals in (t, map (fsst_enc t) vals).

  (* FsstMiniBlockDecompressor / FsstPerValueDecompressor: inner binary decode, then FSST *)
  Definition fsst_decode (t : table) (inner : outcome (list (list N))) : outcome (list (list N)) :=
    outcome_map (map (fsst_dec t)) inner.
End Fsst.

(* ---- correspondence checker for the general mini-block wrapper ----
   The real LZ4/ZSTD output cannot be recomputed by the model; the checker takes the compressed
   pieces the implementation produced as the behaviour of [comp] on exactly those inputs and
   checks everything the wrapper decides: which slices were compressed, the new chunk table,
   the untouched other buffers, and the "did it help" decision.
   input: inner (buffers, chunks) and the list of pieces (one per chunk) ;
   output: (wrapped?, buffers, chunks) *)
Fixpoint assoc_comp (tbl : list (list N * list N)) (x : list N) : list N :=
  match tbl with
  | [] => []
  | (k, v) :: r => if nlist_eqb k x then v else assoc_comp r x
  end.

Fixpoint first_slices (first : list N) (chunks : list chunk) : list (list N) :=
  match chunks with
  | [] => []
  | c :: cs => let sz := N.to_nat (hd 0 (fst c)) in firstn sz first :: first_slices (skipn sz first) cs
  end.

Definition chk_general_compress (i : list (list N) * list chunk * list (list N))
           (o : bool * list (list N) * list chunk) : bool :=
  let '(bufs, chunks, pieces) := i in
  let tbl := combine (first_slices (hd [] bufs) chunks) pieces in
  let '(w, b, c) := general_compress (assoc_comp tbl) bufs chunks in
  let '(w', b', c') := o in
  Bool.eqb w w' && list_eqb nlist_eqb b b' && list_eqb chunk_eqb c c'.
