(* C26 - bit-packing codec layer: transcription of
   rust/lance-encoding/src/encodings/physical/bitpacking.rs
   (InlineBitpacking::{bitpack_chunked, unchunk}, bitpack_out_of_line, unpack_out_of_line),
   the BitWidth statistic of statistics.rs (max_bit_widths) and the selection rules
   try_bitpack_for_mini_block / try_bitpack_for_block of compression.rs.
   The 1024-value FastLanes kernel itself (C28) is a Section variable:
     pack T W vs   : the 1024*W/T words of T bits produced by BitPacking::unchecked_pack
     unpack T W ws : the 1024 values produced by BitPacking::unchecked_unpack.
   Words and values are N; [T] is the uncompressed word width in bits (8/16/32/64). Definitions only. *)
From LanceV Require Import Common.Base Codec.Model_Bytes.
Local Open Scope N_scope.

Definition ELEMS : N := 1024.

(* statistics.rs calculate_max_bit_width: bits - leading_zeros(OR of the chunk) *)
Definition bit_width_of (vals : list N) : N := N.size (fold_left N.lor vals 0).

Fixpoint bit_widths_loop (fuel : nat) (vals : list N) : list N :=
  match vals with
  | [] => []
  | _ => match fuel with
         | O => []
         | S f => bit_width_of (firstn 1024 vals) :: bit_widths_loop f (skipn 1024 vals)
         end
  end.
(* max_bit_widths: [0] for an empty block *)
Definition bit_widths (vals : list N) : list N :=
  match vals with [] => [0] | _ => bit_widths_loop (S (length vals)) vals end.

Definition pad_to (n : nat) (l : list N) : list N := l ++ repeat 0 (n - length l).

Section Kernel.
  Variable pack : N -> N -> list N -> list N.
  Variable unpack : N -> N -> list N -> list N.

  (* ---- InlineBitpacking ---- *)
  (* bitpack_chunked: per 1024-value chunk a header word (the bit width) followed by the packed
     words; all chunks but the last are full, the last is zero padded to 1024 values. *)
  Fixpoint inline_chunks (T : N) (widths : list N) (vals : list N) : list N * list chunk :=
    match widths with
    | [] => ([], [])
    | [bw] =>
        let sz := 1024 * bw / T in
        (bw :: pack T bw (pad_to 1024 vals), [(([u16 ((1 + sz) * (T / 8))], 0) : chunk)])
    | bw :: ws =>
        let sz := 1024 * bw / T in
        let '(words, cs) := inline_chunks T ws (skipn 1024 vals) in
        (bw :: pack T bw (firstn 1024 vals) ++ words,
         (([u16 ((1 + sz) * (T / 8))], 10) : chunk) :: cs)
    end.

  (* last_chunk_elem_num: a multiple of 1024 leaves a full last chunk *)
  Definition inline_compress (T : N) (vals : list N) : list N * list chunk :=
    inline_chunks T (bit_widths vals) vals.

  (* unchunk: one chunk = header word + packed words, [n] <= 1024 values wanted *)
  Definition inline_unchunk (T : N) (words : list N) (n : N) : outcome (list N) :=
    match words with
    | [] => Panic                                         (* assert!(data.len() >= size_of::<T>()) *)
    | bw :: packed =>
        if 1024 <? n then Panic
        else if negb (nlen packed * (T / 8) =? bw * 1024 / 8) then Panic
        else Ok (firstn (N.to_nat n) (unpack T bw packed))
    end.

  (* ---- OutOfLineBitpacking ---- *)
  Fixpoint ool_whole (fuel : nat) (T W : N) (vals : list N) : list N :=
    match fuel with
    | O => []
    | S f => pack T W (firstn 1024 vals) ++ ool_whole f T W (skipn 1024 vals)
    end.

  (* bitpack_out_of_line: whole chunks packed; the runt tail either padded+packed or appended raw.
     Panic models the two debug_assert!s (debug build). *)
  Definition ool_compress (T W : N) (vals : list N) : outcome (list N) :=
    let len := nlen vals in
    let whole := len / 1024 in
    let r := len mod 1024 in
    let packed := ool_whole (N.to_nat whole) T W vals in
    if r =? 0 then Ok packed
    else
      let savings := T - W in                                   (* saturating_sub *)
      let padding_cost := W * (1024 - r) in
      let tail := skipn (N.to_nat (whole * 1024)) vals in
      if savings =? 0 then Panic                                (* debug_assert!(tail_bit_savings > 0) *)
      else if padding_cost <? savings * r
      then Ok (packed ++ pack T W (pad_to 1024 tail))
      else Ok (packed ++ tail).

  Fixpoint ool_unwhole (fuel : nat) (T W wpc : N) (words : list N) : list N :=
    match fuel with
    | O => []
    | S f => unpack T W (firstn (N.to_nat wpc) words) ++ ool_unwhole f T W wpc (skipn (N.to_nat wpc) words)
    end.

  (* unpack_out_of_line: the tail layout is inferred from the buffer length *)
  Definition ool_decompress (T W : N) (words : list N) (n : N) : outcome (list N) :=
    let wpc := div_ceil (1024 * W) T in
    let whole := n / 1024 in
    let tailv := n mod 1024 in
    let full_words := whole * wpc in
    let tail_is_raw := (0 <? tailv) && (nlen words =? full_words + tailv) in
    if nlen words <? full_words then Panic                      (* slice out of range *)
    else
    let body := ool_unwhole (N.to_nat whole) T W wpc words in
    if tailv =? 0 then Ok body
    else
      let rest := skipn (N.to_nat full_words) words in
      if tail_is_raw then Ok (body ++ firstn (N.to_nat tailv) rest)
      else if nlen rest <? wpc then Panic                       (* slice out of range *)
      else Ok (body ++ firstn (N.to_nat tailv) (unpack T W (firstn (N.to_nat wpc) rest))).
End Kernel.

(* ---- selection rules of compression.rs ---- *)
Definition min_size_bytes (bw : N) : N := div_ceil (1024 * bw) 8.

(* try_bitpack_for_mini_block: true = InlineBitpacking is used *)
Definition bitpack_for_mini_block (T : N) (vals : list N) : bool :=
  let ws := bit_widths vals in
  let too_small := match ws with
                   | [w0] => nlen vals * (T / 8) <=? min_size_bytes w0
                   | _ => false
                   end in
  negb too_small.

Inductive block_choice := BlockNone | BlockInline | BlockOutOfLine (w : N).
Definition block_choice_eqb (a b : block_choice) : bool :=
  match a, b with
  | BlockNone, BlockNone | BlockInline, BlockInline => true
  | BlockOutOfLine x, BlockOutOfLine y => x =? y
  | _, _ => false
  end.

(* try_bitpack_for_block *)
Definition bitpack_for_block (T : N) (vals : list N) : block_choice :=
  let ws := bit_widths vals in
  let has_zero := existsb (N.eqb 0) ws in
  let maxw := fold_right N.max 0 ws in
  let too_small := match ws with
                   | [w0] => nlen vals * (T / 8) <=? min_size_bytes w0
                   | _ => false
                   end in
  if has_zero || too_small then BlockNone
  else if nlen vals <=? 1024 then BlockInline
  else BlockOutOfLine maxw.

(* ---- correspondence checkers (kernel independent structure) ---- *)
(* The kernel is not re-modelled here (C28 does that): the checker instantiates it with a
   placeholder that returns the right NUMBER of words, and compares everything the codec layer
   decides: chunk table, header words, and for the out-of-line raw tail the copied values. *)
Definition stub_pack (T W : N) (_ : list N) : list N := repeat 0 (N.to_nat (1024 * W / T)).

(* Known finding (KNOWN_FINDINGS.txt, class Known_C26_inline_bitpack_full_u64): a 1024-value chunk
   of 64-bit data with bit width 64 takes (1 + 1024) * 8 = 8200 bytes > MAX_MINIBLOCK_BYTES. *)
Definition Known_C26_inline_bitpack_full_u64 (i : N * list N) : bool :=
  let '(T, vals) := i in
  existsb (fun c : chunk => MAX_MINIBLOCK_BYTES <? sum_N (fst c)) (snd (inline_compress stub_pack T vals)).

(* positions of the header words inside the word buffer, given the chunk table *)
Fixpoint header_words (T : N) (words : list N) (chunks : list chunk) : list N :=
  match chunks with
  | [] => []
  | c :: cs =>
      let nwords := N.to_nat (hd 0 (fst c) / (T / 8)) in
      hd 0 words :: header_words T (skipn nwords words) cs
  end.

(* input (T, values) ; output (word buffer, chunk table) of InlineBitpacking::compress *)
Definition chk_inline_compress (i : N * list N) (o : list N * list chunk) : bool :=
  let '(T, vals) := i in
  let '(mw, mc) := inline_compress stub_pack T vals in
  list_eqb chunk_eqb mc (snd o)
  && (nlen mw =? nlen (fst o))
  && nlist_eqb (header_words T mw mc) (header_words T (fst o) (snd o))
  && nlist_eqb (header_words T mw mc) (bit_widths vals).

(* input (T, W, values) ; output: (number of words, raw tail words if the model says the tail is raw) *)
Definition chk_ool_compress (i : N * N * list N) (o : outcome (list N)) : bool :=
  let '(T, W, vals) := i in
  match ool_compress stub_pack T W vals, o with
  | Ok mw, Ok w =>
      (nlen mw =? nlen w) &&
      (let r := nlen vals mod 1024 in
       let raw := negb (r =? 0) && negb (W * (1024 - r) <? (T - W) * r) in
       if raw then nlist_eqb (skipn (length w - N.to_nat r) w) (skipn (length vals - N.to_nat r) vals) else true)
  | Panic, Panic => true
  | Err, Err => true
  | _, _ => false
  end.

(* input (T, values) ; output (mini-block uses inline bitpacking?, block choice) *)
Definition chk_bitpack_select (i : N * list N) (o : bool * block_choice) : bool :=
  let '(T, vals) := i in
  Bool.eqb (bitpack_for_mini_block T vals) (fst o) && block_choice_eqb (bitpack_for_block T vals) (snd o).
