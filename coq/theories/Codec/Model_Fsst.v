(* Model of rust/compression/fsst/src/fsst.rs (FSST string compression kernel).
   Executable definitions only.

   What is transcribed (branch for branch):
     - FsstDecoder::init           -> parse_table / fsst_decompress (magic check, table size check, the
                                      three buffer-size checks, symbols[]/lens[] filled from the table bytes)
     - FsstDecoder::decompress     -> fsst_decompress (switch off: copy; on: decompress_bulk)
     - decompress_bulk             -> dec_str: the 4-byte block loop (position of the first 0xFF byte of the
                                      block decides which of the five unrolled arms runs), the "remaining
                                      bytes" arm (in_curr + 2 <= in_end) and the "last code" arm, including
                                      the reads one byte past the value's end that those arms perform on
                                      malformed input (argument [la])
     - compress_bulk               -> comp_chunk (the `while in_curr < in_end` loop: 8-byte word, short_codes
                                      lookup, hash_tab probe with `s.val == word & (MAX >> ignored_bits)`,
                                      code byte, escape byte, `in_curr += code >> 12`, `out_curr += 1 + ((code&256)>>8)`)
                                      and comp_str (511-byte chunks copied into the 520-byte buffer that is
                                      re-used between chunks, terminator sentinel)
     - FsstEncoder::compress / init / export
                                   -> fsst_compress (size checks, the < 32 KiB copy path with the default
                                      header, otherwise compress_bulk with the emitted table)
   What is NOT transcribed: build_symbol_table / make_sample / SymbolTable::{add,finalize} (symbol table
   construction: randomised by StdRng::from_os_rng and by HashSet iteration order).  The table enters as
   data: the 2312-byte table the real compressor exported.  The lookup structures compress_bulk uses
   (short_codes, byte_codes, hash_tab: private, not exported) are rebuilt from those bytes by [mk_enc]
   following add()/finalize(); the one thing the exported bytes do not determine is which symbol was
   add()ed first (finalize() treats a 2-byte symbol whose pre-finalize code is exactly 256 as absent from
   short_codes: `> FSST_CODE_BASE` where byte_codes uses `>=`), so [mk_enc] takes that as [dead : option N]
   and the checker tries the (at most three) possibilities.

   Representation: bytes are N < 256; a u64 loaded from memory is the list of its 8 little-endian bytes,
   so `s.val == word & (u64::MAX >> ignored_bits)` is "the first len bytes of the word followed by zeros
   equal the 8 bytes of val".  Packed codes (len << 12 | escape bit 8 | code byte) are numbers.
   The output buffer of decompress_bulk is written 8 bytes at a time at out_curr and truncated to out_curr
   at the end; every write starts at out_curr, so the final contents are the concatenation of the first
   lens[code] bytes of each write (taken from zeros beyond byte 8 if lens[code] > 8: the harness passes a
   zero-filled buffer).  Declared domain for decompression: out capacity >= 8 * compressed length (what
   lance-encoding passes); with less, the unchecked 8-byte stores of the real code can leave the buffer.
   Declared domain for compression: out capacity >= 2 * input length (what lance-encoding passes).  *)
From LanceV Require Import Common.Base.
From Coq Require Export Uint63.   (* only for the wire format of the correspondence checkers, at the end *)
Local Open Scope N_scope.

Definition FSST_ESC : N := 255.
Definition FSST_SYMBOL_TABLE_SIZE : N := 2312.      (* 8 + 256 * 8 + 256 *)
Definition FSST_LEAST_INPUT_SIZE : N := 32768.
Definition FSST_MAGIC32 : N := 1179865940.           (* 0x46535354, the upper half of FSST_MAGIC *)
Definition FSST_HASH_PRIME : N := 2971215073.
Definition FSST_CORRUPT_BYTES : list N := [99; 111; 114; 114; 117; 112; 116; 0].   (* "corrupt\0" *)

Definition nlist_eqb := list_eqb N.eqb.
Definition nlists_eqb := list_eqb nlist_eqb.

(* little-endian value of a byte list *)
Definition le_val (bs : list N) : N := fold_right (fun b acc => b + 256 * acc) 0 bs.

Definition total_len (strs : list (list N)) : N :=
  fold_left (fun acc s => acc + N.of_nat (length s)) strs 0.

Definition nrange (n : N) : list N := map N.of_nat (seq 0 (N.to_nat n)).

(* fsst_hash(w) = (w *wrapping PRIME) ^ ((w *wrapping PRIME) >> 15) *)
Definition fsst_hash (w : N) : N :=
  let m := N.land (w * FSST_HASH_PRIME) (N.ones 64) in
  N.lxor m (N.shiftr m 15).

(* ------------------------------------------------------------------ table bytes *)
(* header u64 (little endian): byte 0 n_symbols, byte 1 terminator, byte 2 suffix_lim,
   byte 3 bit 0 encoder_switch, bytes 4..7 magic *)
Record table := {
  t_n : N;
  t_term : N;
  t_suffix_lim : N;
  t_switch : bool;
  t_syms : list (list N * N)       (* code k -> (8 bytes of symbols[k], lens[k]), k < n *)
}.

Fixpoint take_syms (n : nat) (vals lens : list N) : list (list N * N) :=
  match n with
  | O => []
  | S m => (firstn 8 vals, nth 0 lens 0) :: take_syms m (skipn 8 vals) (skipn 1 lens)
  end.

Definition magic_ok (tb : list N) : bool :=
  let m := le_val (firstn 4 (skipn 4 tb)) in
  N.land m FSST_MAGIC32 =? FSST_MAGIC32.

(* the fields FsstDecoder::init reads (caller has checked length = 2312) *)
Definition parse_table (tb : list N) : table :=
  let n := nth 0 tb 0 in
  {| t_n := n;
     t_term := nth 1 tb 0;
     t_suffix_lim := nth 2 tb 0;
     t_switch := N.odd (nth 3 tb 0);
     t_syms := take_syms (N.to_nat n) (skipn 8 tb) (skipn (8 + 8 * N.to_nat n) tb) |}.

(* ------------------------------------------------------------------ decompression *)
(* bytes appended to the output by one code: the 8 symbol bytes are stored at out_curr, then
   out_curr += lens[code]; codes >= n_symbols have lens = 0 *)
Definition sym_out (t : table) (code : N) : list N :=
  match nth_error (t_syms t) (N.to_nat code) with
  | Some (val8, len) => firstn (N.to_nat len) (val8 ++ repeat 0 (N.to_nat len - 8))
  | None => []
  end.

Definition oapp (l : list N) (r : outcome (list N)) : outcome (list N) :=
  match r with Ok x => Ok (l ++ x) | Err => Err | Panic => Panic end.

(* `compressed_strs[in_end]`: the byte after this value in the buffer, index out of bounds if none *)
Definition over_read (la : option N) : outcome (list N) :=
  match la with Some b => Ok [b] | None => Panic end.

(* one value: cs = compressed_strs[in_curr..in_end], la = compressed_strs[in_end] if it exists *)
Fixpoint dec_str (so : N -> list N) (la : option N) (cs : list N) {struct cs} : outcome (list N) :=
  match cs with
  | [] => Ok []
  | c0 :: r1 =>
    match r1 with
    | [] => Ok (so c0)                                         (* last code *)
    | c1 :: r2 =>
      match r2 with
      | [] =>                                                   (* 2 remaining bytes *)
        if c0 =? FSST_ESC then Ok [c1]
        else if c1 =? FSST_ESC then oapp (so c0) (over_read la)
        else Ok (so c0 ++ so c1)
      | c2 :: r3 =>
        match r3 with
        | [] =>                                                 (* 3 remaining bytes *)
          if c0 =? FSST_ESC then Ok (c1 :: so c2)
          else if c1 =? FSST_ESC then Ok (so c0 ++ [c2])
          else Ok (so c0 ++ so c1 ++ so c2)
        | c3 :: r4 =>                                           (* in_curr + 4 <= in_end *)
          if c0 =? FSST_ESC then oapp [c1] (dec_str so la r2)                    (* first_escape_pos = 0 *)
          else if c1 =? FSST_ESC then oapp (so c0 ++ [c2]) (dec_str so la r3)    (* = 1 *)
          else if c2 =? FSST_ESC then oapp (so c0 ++ so c1 ++ [c3]) (dec_str so la r4)   (* = 2 *)
          else if c3 =? FSST_ESC then                                            (* = 3 *)
            match r4 with
            | b :: r5 => oapp (so c0 ++ so c1 ++ so c2 ++ [b]) (dec_str so la r5)
            | [] => oapp (so c0 ++ so c1 ++ so c2) (over_read la)
            end
          else oapp (so c0 ++ so c1 ++ so c2 ++ so c3) (dec_str so la r4)        (* escape_mask == 0 *)
        end
      end
    end
  end.

(* first byte of the buffer after the current value *)
Fixpoint next_byte (rest : list (list N)) : option N :=
  match rest with
  | [] => None
  | [] :: r => next_byte r
  | (b :: _) :: _ => Some b
  end.

Fixpoint dec_bulk (so : N -> list N) (strs : list (list N)) : outcome (list (list N)) :=
  match strs with
  | [] => Ok []
  | s :: rest =>
    match dec_str so (next_byte rest) s with
    | Ok d => match dec_bulk so rest with Ok ds => Ok (d :: ds) | Err => Err | Panic => Panic end
    | Err => Err
    | Panic => Panic
    end
  end.

(* fsst::decompress(symbol_table, in_buf, in_offsets, out_buf, out_offsets); the buffers are given as the
   list of values (offsets contiguous from 0) and the two output capacities *)
Definition fsst_decompress (tb : list N) (strs : list (list N)) (out_cap offs_cap : N) : outcome (list (list N)) :=
  if N.of_nat (length tb) <? 8 then Panic                                       (* symbol_table[..8] *)
  else if negb (magic_ok tb) then Err
  else if negb (N.of_nat (length tb) =? FSST_SYMBOL_TABLE_SIZE) then Err
  else
    let t := parse_table tb in
    let in_len := total_len strs in
    if t_switch t && (out_cap <? in_len * 3) then Err
    else if negb (t_switch t) && (out_cap <? in_len) then Err
    else if offs_cap <? N.of_nat (length strs) + 1 then Err
    else if negb (t_switch t) then Ok strs
    else dec_bulk (sym_out t) strs.

(* ------------------------------------------------------------------ compression *)
Record enc := {
  e_term : N;
  e_single : list (N * N);                 (* first byte -> code, most recently add()ed first *)
  e_short : list (N * N);                  (* first two bytes (le) -> code, most recently add()ed first *)
  e_hash : list (N * (list N * N * N))     (* hash slot -> (8 bytes of val, len, code) *)
}.

Definition isyms (t : table) : list (N * (list N * N)) := combine (nrange (t_n t)) (t_syms t).

(* add() order: within symbols of one length the final code follows add order (rsum[len-1]++),
   except 2-byte symbols without a longer symbol sharing their first two bytes, which finalize()
   numbers downwards from rsum[2] (`j -= 1`); those are the codes >= suffix_lim *)
Definition mk_enc (t : table) (dead : option N) : enc :=
  let s := isyms t in
  let singles := filter (fun e => snd (snd e) =? 1) s in
  let pairs := filter (fun e => (snd (snd e) =? 2)
                                && negb (match dead with Some d => fst e =? d | None => false end)) s in
  let pa := filter (fun e => fst e <? t_suffix_lim t) pairs in
  let pb := filter (fun e => negb (fst e <? t_suffix_lim t)) pairs in
  let longs := filter (fun e => (3 <=? snd (snd e)) && (snd (snd e) <=? 8)) s in
  {| e_term := t_term t;
     e_single := map (fun e => (nth 0 (fst (snd e)) 0, fst e)) (rev singles);
     e_short := map (fun e => (le_val (firstn 2 (fst (snd e))), fst e)) (rev pa ++ pb);
     e_hash := map (fun e => (N.land (fsst_hash (le_val (firstn 3 (fst (snd e))))) 1023,
                              (fst (snd e), snd (snd e), fst e))) longs |}.

Definition assoc {A} (k : N) (l : list (N * A)) : option A :=
  match find (fun e => fst e =? k) l with Some e => Some (snd e) | None => None end.

(* byte_codes[b] after finalize: code | 1 << 12, or 511 | 1 << 12 (escape) *)
Definition byte_code (e : enc) (b : N) : N :=
  match assoc b (e_single e) with Some c => c + 4096 | None => 511 + 4096 end.

(* short_codes[b0 | b1 << 8] after finalize: code | 2 << 12, or byte_codes[b0] | 1 << 12 *)
Definition short_code (e : enc) (b0 b1 : N) : N :=
  match assoc (b0 + 256 * b1) (e_short e) with Some c => c + 8192 | None => byte_code e b0 end.

(* the code computed by one iteration of compress_bulk's closure from the 8-byte word at in_curr *)
Definition find_code (e : enc) (w : list N) : N :=
  let b0 := nth 0 w 0 in
  let b1 := nth 1 w 0 in
  let b2 := nth 2 w 0 in
  let sc := short_code e b0 b1 in
  let idx := N.land (fsst_hash (b0 + 256 * b1 + 65536 * b2)) 1023 in
  match assoc idx (e_hash e) with
  | Some (val8, len, code) =>
      let n := N.to_nat len in
      if nlist_eqb (firstn n w ++ repeat 0 (8 - n)) val8 then len * 4096 + code   (* (s.icl >> 16) as u16 *)
      else sc
  | None => sc
  end.

Definition FUEL_MARK : N := 1000.   (* not a byte: can never equal an implementation output *)

(* while in_curr < in_end: rest = buf[in_curr..], rem = in_end - in_curr *)
Fixpoint comp_chunk (e : enc) (fuel : nat) (rest : list N) (rem : N) : list N :=
  match fuel with
  | O => [FUEL_MARK]
  | S f =>
    if rem =? 0 then []
    else
      let w := firstn 8 rest in
      let code := find_code e w in
      let len := code / 4096 in                                  (* code >> 12 *)
      let o := if (code / 256) mod 2 =? 1                        (* (code & 256) >> 8 *)
               then [code mod 256; nth 0 w 0]                    (* escape: the speculatively written byte stays *)
               else [code mod 256] in
      o ++ (if len <? rem then comp_chunk e f (skipn (N.to_nat len) rest) (rem - len) else [])
  end.

(* one value: 511-byte chunks through the 520-byte buffer *)
Fixpoint comp_str (e : enc) (fuel : nat) (buf : list N) (s : list N) : list N :=
  match s with
  | [] => []
  | _ :: _ =>
    match fuel with
    | O => [FUEL_MARK]
    | S f =>
      let chunk := firstn 511 s in
      let buf' := chunk ++ e_term e :: skipn (length chunk + 1) buf in
      comp_chunk e (length chunk) buf' (N.of_nat (length chunk)) ++ comp_str e f buf' (skipn 511 s)
    end
  end.

Definition comp_bulk (e : enc) (strs : list (list N)) : list (list N) :=
  map (fun s => comp_str e (length s) (repeat 0 520) s) strs.

(* candidates for the symbol that was add()ed first and is a 2-byte symbol: it received either the first
   code below suffix_lim or the last 2-byte code *)
Definition dead_candidates (t : table) : list (option N) :=
  let h1 := N.of_nat (length (filter (fun e => snd e =? 2) (t_syms t))) in
  None :: (if 0 <? t_suffix_lim t then [Some 0] else [])
       ++ (if t_suffix_lim t <? h1 then [Some (h1 - 1)] else []).

(* hypothesis of the round-trip theorem, checked on every table the real compressor emits *)
Definition wf_sym (term : N) (s : list N * N) : bool :=
  let '(val8, len) := s in
  (1 <=? len) && (len <=? 8) && (length val8 =? 8)%nat
  && forallb (fun b => b <? 256) val8
  && forallb (fun b => negb (b =? term)) (skipn 1 (firstn (N.to_nat len) val8)).

Definition wf_table (tb : list N) : bool :=
  (N.of_nat (length tb) =? FSST_SYMBOL_TABLE_SIZE) && magic_ok tb
  && (nth 0 tb 0 <? 256)
  && forallb (wf_sym (t_term (parse_table tb))) (t_syms (parse_table tb)).

(* the header export() writes for the copy path: SymbolTable::new() has n_symbols 0, terminator 256,
   suffix_lim 512 (both & 255 = 0), encoder_switch false *)
Definition default_header : list N := [0; 0; 0; 0; 84; 83; 83; 70].

(* fsst::compress. [built] is what symbol-table construction produced for this input: None if
   build_symbol_table returned Err, otherwise the exported table bytes and the first-added 2-byte code.
   tb0 = the caller's symbol-table buffer before the call. *)
Definition fsst_compress (built : option (list N * option N)) (tb0 : list N) (strs : list (list N))
           (out_cap offs_cap : N) : outcome (list N * list (list N)) :=
  let in_len := total_len strs in
  if negb (N.of_nat (length tb0) =? FSST_SYMBOL_TABLE_SIZE) then Err
  else if in_len <? FSST_LEAST_INPUT_SIZE then Ok (default_header ++ skipn 8 tb0, strs)
  else if out_cap <? in_len then Err
  else if offs_cap <? N.of_nat (length strs) + 1 then Err
  else match built with
       | None => Err
       | Some (tb, dead) => Ok (tb, comp_bulk (mk_enc (parse_table tb) dead) strs)
       end.

(* ------------------------------------------------------------------ correspondence checkers
   Wire format: bytes travel as primitive 63-bit integer literals (coqc parses them much faster than N
   literals).  Only the checkers below use primitive integers. *)
Definition n_of_int (i : PrimInt63.int) : N := Z.to_N (Uint63.to_Z i).
Definition bytes_of_wire (l : list PrimInt63.int) : list N := map n_of_int l.
Definition strs_of_wire (l : list (list PrimInt63.int)) : list (list N) := map bytes_of_wire l.

Definition tb_strs_eqb (a b : list N * list (list N)) : bool :=
  nlist_eqb (fst a) (fst b) && nlists_eqb (snd a) (snd b).

(* compress + decompress of one array.
   input: (length and fill of the caller's symbol-table buffer, out capacity, offsets capacity, values)
   recorded: outcome of compress = (exported table bytes, compressed values) and, after Ok, the outcome of
   decompress(table, compressed, capacity 8 * compressed length): None = "equal to the input values",
   Some d = the values d. *)
Definition chk_fsst_roundtrip (i : (N * N) * N * N * list (list PrimInt63.int))
           (o : outcome (list PrimInt63.int * list (list PrimInt63.int) * outcome (option (list (list PrimInt63.int))))) : bool :=
  let '((tb_len, tb_fill), out_cap, offs_cap, wstrs) := i in
  let strs := strs_of_wire wstrs in
  let tb0 := repeat tb_fill (N.to_nat tb_len) in
  match o with
  | Ok (wtb, wcomp, dec) =>
      let tb := bytes_of_wire wtb in
      let comp := strs_of_wire wcomp in
      let on := FSST_LEAST_INPUT_SIZE <=? total_len strs in
      (* compress: the model with the emitted table (and one of the possible first-added symbols) *)
      existsb (fun dead => outcome_eqb tb_strs_eqb (fsst_compress (Some (tb, dead)) tb0 strs out_cap offs_cap)
                                       (Ok (tb, comp)))
              (dead_candidates (parse_table tb))
      (* the emitted table satisfies the hypothesis of the theorem and carries the right switch *)
      && (if on then wf_table tb && t_switch (parse_table tb) else true)
      (* decompress *)
      && outcome_eqb nlists_eqb
           (fsst_decompress tb comp (8 * total_len comp) (N.of_nat (length comp) + 1))
           (match dec with
            | Ok None => Ok strs
            | Ok (Some d) => Ok (strs_of_wire d)
            | Err => Err
            | Panic => Panic
            end)
  | Err => outcome_eqb tb_strs_eqb (fsst_compress None tb0 strs out_cap offs_cap) Err
  | Panic => false
  end.

(* decompress alone, on code streams that need not come from the compressor.
   input: (table bytes, compressed values, out capacity, offsets capacity); recorded: outcome values *)
Definition chk_fsst_decompress (i : list PrimInt63.int * list (list PrimInt63.int) * N * N)
           (o : outcome (list (list PrimInt63.int))) : bool :=
  let '(tb, strs, out_cap, offs_cap) := i in
  outcome_eqb nlists_eqb (fsst_decompress (bytes_of_wire tb) (strs_of_wire strs) out_cap offs_cap)
              (match o with Ok d => Ok (strs_of_wire d) | Err => Err | Panic => Panic end).
