(* C19 (and the planner side of C20) - rust/lance-index/src/scalar/expression.rs:
   the translation of a filter into an index search + a refine filter (apply_scalar_indices, visit_node,
   visit_and with maybe_range, visit_or, visit_not, IndexedExpression::{maybe_not, and, maybe_or, refine},
   the query parsers), the evaluation of the ScalarIndexExpr (through ScalarIndexExpr::evaluate of
   Index/Model_ExprResult.v, C21), the answers of B-tree / bitmap indices to SargableQuery
   (btree.rs, bitmap.rs, flat.rs), and the way FilteredReadExec turns an index answer into rows
   (no OFFSET/LIMIT; that part is C16).  Executable definitions only (+ chk_* correspondence checkers).

   Values: every column type is totally ordered (arrow's total order for floats, bytes for strings, false<true);
   a value is its position [Z] in that order, NULL is [None].  A literal is represented by the value
   safe_coerce_scalar produces for the column it is compared with; a literal that cannot be coerced
   (other type family, out of range) behaves like any non-literal expression for the translator and is a
   [TOther]. *)
From LanceV Require Import Common.Base Core.Model_Mask Index.Model_ExprResult.
Local Open Scope N_scope.

(* ================================================================ the SQL AST *)
Inductive lit := LNull | LVal (v : Z).

Inductive term :=
| TCol (c : N)        (* Expr::Column *)
| TLit (l : lit)      (* Expr::Literal (or Cast of a literal) coercible to the column type; LNull = NULL of that type *)
| TOther (k : N).     (* any other expression (arithmetic, function call, uncoercible literal, untyped NULL) *)

Inductive cmpop := OEq | ONotEq | OLt | OLtEq | OGt | OGtEq.

(* scalar functions the parsers know about *)
Inductive fnkind := FContains | FHasAll | FHasAny | FOtherFn.

Inductive sexpr :=
| XCol (c : N)                                    (* a bare column used as a predicate: WHERE on_sale *)
| XCmp (op : cmpop) (l r : term)                  (* Expr::BinaryExpr with a comparison operator *)
| XBetween (neg : bool) (e lo hi : term)          (* Expr::Between *)
| XInList (neg : bool) (e : term) (items : list term)   (* Expr::InList *)
| XIsNull (e : term)
| XIsNotNull (e : term)
| XIsTrue (e : sexpr)
| XIsFalse (e : sexpr)
| XNot (e : sexpr)
| XAnd (a b : sexpr)
| XOr (a b : sexpr)
| XFn (f : fnkind) (e : term) (arg : term)        (* Expr::ScalarFunction with two arguments *)
| XOther (k : N).                                 (* every other Expr variant / operator: never indexed *)

(* ================================================================ index queries *)
Inductive bnd := BIncl (v : lit) | BExcl (v : lit) | BUnb.        (* Bound<ScalarValue> *)

Inductive query :=
| QRange (lo hi : bnd)
| QIsIn (vs : list lit)
| QEquals (v : lit)
| QIsNull
| QFn (f : fnkind) (arg : lit).    (* LabelListQuery::{HasAllLabels,HasAnyLabel}, TextQuery::StringContains *)

(* which ScalarQueryParser an index provides *)
Inductive parser :=
| PSargable (recheck : bool)      (* BTree, Bitmap (false); ZoneMap (true) *)
| PBloom (recheck : bool)         (* BloomFilter *)
| PLabelList
| PText (recheck : bool).         (* NGram *)

(* ScalarIndexSearch *)
Record leaf := { l_col : N; l_idx : N; l_query : query; l_recheck : bool }.

(* ScalarIndexExpr with structured leaves *)
Inductive sidx :=
| SNot (e : sidx)
| SAnd (a b : sidx)
| SOr (a b : sidx)
| SQuery (l : leaf).

Record iexp := { scalar_query : option sidx; refine_expr : option sexpr }.

(* IndexInformationProvider::get_index: data type (only "is it Boolean" matters) and the parsers of the
   indices on the column, in MultiQueryParser order, each with its index name (a number) *)
Record colinfo := { ci_bool : bool; ci_parsers : list (N * parser) }.
Definition index_info := N -> option colinfo.

(* ================================================================ IndexedExpression *)
Definition refine_only (e : sexpr) : iexp := {| scalar_query := None; refine_expr := Some e |}.
Definition index_query_with_recheck (c idx : N) (q : query) (rc : bool) : iexp :=
  {| scalar_query := Some (SQuery {| l_col := c; l_idx := idx; l_query := q; l_recheck := rc |}); refine_expr := None |}.
Definition index_query (c idx : N) (q : query) : iexp := index_query_with_recheck c idx q false.

Fixpoint s_needs_recheck (e : sidx) : bool :=
  match e with
  | SNot i => s_needs_recheck i
  | SAnd a b | SOr a b => s_needs_recheck a || s_needs_recheck b
  | SQuery l => l_recheck l
  end.

(* maybe_not: Panic = `panic!("Empty node should not occur")` *)
Definition maybe_not (x : iexp) : outcome (option iexp) :=
  match scalar_query x, refine_expr x with
  | Some _, Some _ => Ok None
  | Some sq, None =>
      if s_needs_recheck sq then Ok None
      else Ok (Some {| scalar_query := Some (SNot sq); refine_expr := None |})
  | None, Some r => Ok (Some {| scalar_query := None; refine_expr := Some (XNot r) |})
  | None, None => Panic
  end.

Definition opt_combine {A} (f : A -> A -> A) (a b : option A) : option A :=
  match a, b with
  | Some x, Some y => Some (f x y)
  | Some x, None => Some x
  | None, Some y => Some y
  | None, None => None
  end.

Definition ie_and (x y : iexp) : iexp :=
  {| scalar_query := opt_combine SAnd (scalar_query x) (scalar_query y);
     refine_expr := opt_combine XAnd (refine_expr x) (refine_expr y) |}.

Definition maybe_or (x y : iexp) : option iexp :=
  match scalar_query x, scalar_query y with
  | Some a, Some b =>
      match refine_expr x, refine_expr y with
      | None, None => Some {| scalar_query := Some (SOr a b); refine_expr := None |}
      | _, _ => None
      end
  | _, _ => None
  end.

Definition ie_refine (x : iexp) (e : sexpr) : iexp :=
  match refine_expr x with
  | Some r => {| scalar_query := scalar_query x; refine_expr := Some (XAnd r e) |}
  | None => {| scalar_query := scalar_query x; refine_expr := Some e |}
  end.

(* ================================================================ the query parsers *)
Definition lit_is_null (l : lit) : bool := match l with LNull => true | LVal _ => false end.
Definition bnd_is_null (b : bnd) : bool :=
  match b with BIncl v | BExcl v => lit_is_null v | BUnb => false end.

Definition p_visit_between (c : N) (ip : N * parser) (lo hi : bnd) : option iexp :=
  match snd ip with
  | PSargable rc =>
      if bnd_is_null lo then None
      else if bnd_is_null hi then None
      else Some (index_query_with_recheck c (fst ip) (QRange lo hi) rc)
  | _ => None
  end.

Definition p_visit_in_list (c : N) (ip : N * parser) (vs : list lit) : option iexp :=
  match snd ip with
  | PSargable rc =>
      if existsb lit_is_null vs then None
      else Some (index_query_with_recheck c (fst ip) (QIsIn vs) rc)
  | PBloom rc => Some (index_query_with_recheck c (fst ip) (QIsIn vs) rc)
  | _ => None
  end.

(* value = the boolean as a position: false = 0, true = 1 *)
Definition bool_lit (b : bool) : lit := LVal (if b then 1%Z else 0%Z).

Definition p_visit_is_bool (c : N) (ip : N * parser) (value : bool) : option iexp :=
  match snd ip with
  | PSargable rc | PBloom rc => Some (index_query_with_recheck c (fst ip) (QEquals (bool_lit value)) rc)
  | _ => None
  end.

Definition p_visit_is_null (c : N) (ip : N * parser) : option iexp :=
  match snd ip with
  | PSargable rc | PBloom rc => Some (index_query_with_recheck c (fst ip) QIsNull rc)
  | _ => None
  end.

Definition p_visit_comparison (c : N) (ip : N * parser) (v : lit) (op : cmpop) : option iexp :=
  match snd ip with
  | PSargable rc =>
      if lit_is_null v then None
      else
        let q := match op with
                 | OLt => QRange BUnb (BExcl v)
                 | OLtEq => QRange BUnb (BIncl v)
                 | OGt => QRange (BExcl v) BUnb
                 | OGtEq => QRange (BIncl v) BUnb
                 | OEq => QEquals v
                 | ONotEq => QEquals v        (* negated by the caller *)
                 end in
        Some (index_query_with_recheck c (fst ip) q rc)
  | PBloom rc =>
      match op with
      | OEq | ONotEq => Some (index_query_with_recheck c (fst ip) (QEquals v) rc)
      | _ => None
      end
  | _ => None
  end.

(* args = [column, arg]; `maybe_scalar(&args[1], data_type)?` then the literal must be a non-null
   list / string *)
Definition p_visit_scalar_function (c : N) (ip : N * parser) (f : fnkind) (arg : option lit) : option iexp :=
  match snd ip with
  | PLabelList =>
      match arg with
      | Some (LVal v) =>
          match f with
          | FHasAll | FHasAny => Some (index_query c (fst ip) (QFn f (LVal v)))
          | _ => None
          end
      | _ => None
      end
  | PText rc =>
      match arg with
      | Some (LVal v) =>
          match f with
          | FContains => Some (index_query_with_recheck c (fst ip) (QFn FContains (LVal v)) rc)
          | _ => None
          end
      | _ => None
      end
  | _ => None
  end.

(* MultiQueryParser: the first parser that answers *)
Fixpoint find_map {A B} (f : A -> option B) (l : list A) : option B :=
  match l with
  | [] => None
  | x :: tl => match f x with Some y => Some y | None => find_map f tl end
  end.

(* ================================================================ the translator *)
Definition maybe_column (t : term) : option N := match t with TCol c => Some c | _ => None end.
(* is_valid_reference accepts a plain column for every parser *)
Definition maybe_indexed_column (info : index_info) (t : term) : option (N * colinfo) :=
  match t with
  | TCol c => match info c with Some ci => Some (c, ci) | None => None end
  | _ => None
  end.
Definition maybe_scalar (t : term) : option lit := match t with TLit l => Some l | _ => None end.
Fixpoint maybe_scalar_list (ts : list term) : option (list lit) :=
  match ts with
  | [] => Some []
  | t :: tl =>
      match maybe_scalar t with
      | Some v => match maybe_scalar_list tl with Some vs => Some (v :: vs) | None => None end
      | None => None
      end
  end.

Definition olift {A} (o : option A) : outcome (option A) := Ok o.

Definition negate_if (neg : bool) (x : option iexp) : outcome (option iexp) :=
  match x with
  | None => Ok None
  | Some ie => if neg then maybe_not ie else Ok (Some ie)
  end.

Definition visit_between (info : index_info) (neg : bool) (e lo hi : term) : outcome (option iexp) :=
  match maybe_indexed_column info e with
  | None => Ok None
  | Some (c, ci) =>
      match maybe_scalar lo with
      | None => Ok None
      | Some l =>
          match maybe_scalar hi with
          | None => Ok None
          | Some h => negate_if neg (find_map (fun ip => p_visit_between c ip (BIncl l) (BIncl h)) (ci_parsers ci))
          end
      end
  end.

Definition visit_in_list (info : index_info) (neg : bool) (e : term) (items : list term) : outcome (option iexp) :=
  match maybe_indexed_column info e with
  | None => Ok None
  | Some (c, ci) =>
      match maybe_scalar_list items with
      | None => Ok None
      | Some vs => negate_if neg (find_map (fun ip => p_visit_in_list c ip vs) (ci_parsers ci))
      end
  end.

(* IsTrue(expr) / IsFalse(expr): expr must be an indexed Boolean column *)
Definition visit_is_bool (info : index_info) (e : sexpr) (value : bool) : option iexp :=
  match e with
  | XCol c =>
      match info c with
      | Some ci => if ci_bool ci then find_map (fun ip => p_visit_is_bool c ip value) (ci_parsers ci) else None
      | None => None
      end
  | _ => None
  end.

Definition visit_column (info : index_info) (c : N) : option iexp :=
  match info c with
  | Some ci => if ci_bool ci then find_map (fun ip => p_visit_is_bool c ip true) (ci_parsers ci) else None
  | None => None
  end.

Definition visit_is_null (info : index_info) (e : term) (negated : bool) : outcome (option iexp) :=
  match maybe_indexed_column info e with
  | None => Ok None
  | Some (c, ci) => negate_if negated (find_map (fun ip => p_visit_is_null c ip) (ci_parsers ci))
  end.

Definition visit_comparison (info : index_info) (op : cmpop) (l r : term) : option iexp :=
  match maybe_indexed_column info l with
  | Some (c, ci) =>
      match maybe_scalar r with
      | Some v => find_map (fun ip => p_visit_comparison c ip v op) (ci_parsers ci)
      | None => None
      end
  | None => None
  end.

Definition maybe_range (info : index_info) (a b : sexpr) : option iexp :=
  match a, b with
  | XCmp opl ll lr, XCmp opr rl rr =>
      match maybe_indexed_column info ll with
      | None => None
      | Some (left_col, ci) =>
          match maybe_column rl with
          | None => None
          | Some right_col =>
              if negb (left_col =? right_col) then None
              else
                match maybe_scalar lr with
                | None => None
                | Some lv =>
                    match maybe_scalar rr with
                    | None => None
                    | Some rv =>
                        let bounds :=
                          match opl, opr with
                          | OGtEq, OLtEq => Some (BIncl lv, BIncl rv)
                          | OGtEq, OLt => Some (BIncl lv, BExcl rv)
                          | OGt, OLtEq => Some (BExcl lv, BIncl rv)
                          | OGt, OLt => Some (BExcl lv, BExcl rv)
                          | OLtEq, OGtEq => Some (BIncl rv, BIncl lv)
                          | OLtEq, OGt => Some (BExcl rv, BIncl lv)
                          | OLt, OGtEq => Some (BIncl rv, BExcl lv)
                          | OLt, OGt => Some (BExcl rv, BExcl lv)
                          | _, _ => None
                          end in
                        match bounds with
                        | None => None
                        | Some (lo, hi) => find_map (fun ip => p_visit_between left_col ip lo hi) (ci_parsers ci)
                        end
                    end
                end
          end
      end
  | _, _ => None
  end.

Definition visit_scalar_fn (info : index_info) (f : fnkind) (e arg : term) : option iexp :=
  match maybe_indexed_column info e with
  | None => None
  | Some (c, ci) => find_map (fun ip => p_visit_scalar_function c ip f (maybe_scalar arg)) (ci_parsers ci)
  end.

Definition MAX_DEPTH : N := 500.

(* Result<Option<IndexedExpression>>: Err = "the filter expression is too long" *)
Fixpoint visit_node (info : index_info) (e : sexpr) (depth : N) : outcome (option iexp) :=
  if MAX_DEPTH <=? depth then Err
  else
    match e with
    | XBetween neg t lo hi => visit_between info neg t lo hi
    | XCol c => Ok (visit_column info c)
    | XInList neg t items => visit_in_list info neg t items
    | XIsFalse x => Ok (visit_is_bool info x false)
    | XIsTrue x => Ok (visit_is_bool info x true)
    | XIsNull t => visit_is_null info t false
    | XIsNotNull t => visit_is_null info t true
    | XNot x =>
        match visit_node info x (depth + 1) with
        | Ok (Some node) => maybe_not node
        | Ok None => Ok None
        | Err => Err
        | Panic => Panic
        end
    | XCmp op l r =>
        match op with
        | ONotEq => negate_if true (visit_comparison info op l r)
        | _ => Ok (visit_comparison info op l r)
        end
    | XAnd a b =>
        match maybe_range info a b with
        | Some range_expr => Ok (Some range_expr)
        | None =>
            match visit_node info a (depth + 1) with
            | Ok lft =>
                match visit_node info b (depth + 1) with
                | Ok rgt =>
                    Ok (match lft, rgt with
                        | Some l, Some r => Some (ie_and l r)
                        | Some l, None => Some (ie_refine l b)
                        | None, Some r => Some (ie_refine r a)
                        | None, None => None
                        end)
                | Err => Err
                | Panic => Panic
                end
            | Err => Err
            | Panic => Panic
            end
        end
    | XOr a b =>
        match visit_node info a (depth + 1) with
        | Ok lft =>
            match visit_node info b (depth + 1) with
            | Ok rgt =>
                Ok (match lft, rgt with
                    | Some l, Some r => maybe_or l r
                    | _, _ => None
                    end)
            | Err => Err
            | Panic => Panic
            end
        | Err => Err
        | Panic => Panic
        end
    | XFn f t arg => Ok (visit_scalar_fn info f t arg)
    | XOther _ => Ok None
    end.

Definition apply_scalar_indices (info : index_info) (e : sexpr) : outcome iexp :=
  match visit_node info e 0 with
  | Ok (Some ie) => Ok ie
  | Ok None => Ok (refine_only e)
  | Err => Err
  | Panic => Panic
  end.

(* ================================================================ evaluation through C21's evaluate *)
(* leaves are numbered left to right from [n]; the table lists them in that order *)
Fixpoint number (e : sidx) (n : N) : iexpr * list leaf :=
  match e with
  | SQuery l => (EQuery n, [l])
  | SNot a => let '(ia, la) := number a n in (ENot ia, la)
  | SAnd a b =>
      let '(ia, la) := number a n in
      let '(ib, lb) := number b (n + llen la) in
      (EAnd ia ib, la ++ lb)
  | SOr a b =>
      let '(ia, la) := number a n in
      let '(ib, lb) := number b (n + llen la) in
      (EOr ia ib, la ++ lb)
  end.

Definition load_tbl (search : leaf -> outcome search_result) (tbl : list leaf) (i : N) : outcome search_result :=
  match nth_error tbl (N.to_nat i) with Some l => search l | None => Err end.

(* ScalarIndexExpr::evaluate with [search l] = load_index(l.index_name).search(l.query) *)
Definition s_evaluate (search : leaf -> outcome search_result) (e : sidx) : outcome expr_result :=
  let '(ie, tbl) := number e 0 in evaluate (load_tbl search tbl) ie.

Fixpoint s_leaves (e : sidx) : list leaf :=
  match e with
  | SQuery l => [l]
  | SNot a => s_leaves a
  | SAnd a b | SOr a b => s_leaves a ++ s_leaves b
  end.

(* ================================================================ SQL three-valued reference semantics *)
Definition tv := option bool.     (* None = NULL *)
Definition is_true (t : tv) : bool := match t with Some true => true | _ => false end.
Definition not3 (t : tv) : tv := match t with Some b => Some (negb b) | None => None end.
Definition and3 (a b : tv) : tv :=
  match a, b with
  | Some false, _ | _, Some false => Some false
  | Some true, Some true => Some true
  | _, _ => None
  end.
Definition or3 (a b : tv) : tv :=
  match a, b with
  | Some true, _ | _, Some true => Some true
  | Some false, Some false => Some false
  | _, _ => None
  end.

Definition cmp_holds (op : cmpop) (x y : Z) : bool :=
  match op with
  | OEq => (x =? y)%Z
  | ONotEq => negb (x =? y)%Z
  | OLt => (x <? y)%Z
  | OLtEq => (x <=? y)%Z
  | OGt => (y <? x)%Z
  | OGtEq => (y <=? x)%Z
  end.
Definition cmp3 (op : cmpop) (a b : option Z) : tv :=
  match a, b with Some x, Some y => Some (cmp_holds op x y) | _, _ => None end.

(* x IN (items): NULL if x is NULL; TRUE if some item equals; else NULL if some item is NULL; else FALSE *)
Fixpoint in3 (x : Z) (items : list (option Z)) : tv :=
  match items with
  | [] => Some false
  | None :: tl => match in3 x tl with Some true => Some true | _ => None end
  | Some y :: tl => if (x =? y)%Z then Some true else in3 x tl
  end.
Definition inlist3 (a : option Z) (items : list (option Z)) : tv :=
  match a with None => None | Some x => in3 x items end.

(* a row: its id, the fragment it lives in, its values by column number *)
Record rowT := { rid : N; rfrag : N; rvals : list (option Z) }.
Definition val (r : rowT) (c : N) : option Z := nth (N.to_nat c) (rvals r) None.

(* the meaning of everything the translator does not look into *)
Record env := {
  other_term : N -> rowT -> option Z;
  other_pred : N -> rowT -> tv;
  fn_sem : fnkind -> option Z -> option Z -> tv       (* f(column value, argument) *)
}.

Definition lit_val (l : lit) : option Z := match l with LNull => None | LVal v => Some v end.
Definition eval_term (en : env) (r : rowT) (t : term) : option Z :=
  match t with
  | TCol c => val r c
  | TLit l => lit_val l
  | TOther k => other_term en k r
  end.

(* a Boolean column holds 0 (false) / 1 (true) *)
Definition bool_of_val (v : option Z) : tv := match v with Some z => Some (z =? 1)%Z | None => None end.

Fixpoint eval (en : env) (r : rowT) (e : sexpr) : tv :=
  match e with
  | XCol c => bool_of_val (val r c)
  | XCmp op a b => cmp3 op (eval_term en r a) (eval_term en r b)
  | XBetween neg t lo hi =>
      let v := and3 (cmp3 OGtEq (eval_term en r t) (eval_term en r lo)) (cmp3 OLtEq (eval_term en r t) (eval_term en r hi)) in
      if neg then not3 v else v
  | XInList neg t items =>
      let v := inlist3 (eval_term en r t) (map (eval_term en r) items) in
      if neg then not3 v else v
  | XIsNull t => Some (match eval_term en r t with None => true | Some _ => false end)
  | XIsNotNull t => Some (match eval_term en r t with None => false | Some _ => true end)
  | XIsTrue x => Some (match eval en r x with Some true => true | _ => false end)
  | XIsFalse x => Some (match eval en r x with Some false => true | _ => false end)
  | XNot x => not3 (eval en r x)
  | XAnd a b => and3 (eval en r a) (eval en r b)
  | XOr a b => or3 (eval en r a) (eval en r b)
  | XFn f t arg => fn_sem en f (eval_term en r t) (eval_term en r arg)
  | XOther k => other_pred en k r
  end.

(* a scan without index: the rows for which the predicate is TRUE *)
Definition full_scan (en : env) (tbl : list rowT) (p : sexpr) : list N :=
  map rid (filter (fun r => is_true (eval en r p)) tbl).

(* ================================================================ what a query asks of a value *)
Definition above (lo : bnd) (x : Z) : bool :=
  match lo with
  | BIncl (LVal v) => (v <=? x)%Z
  | BExcl (LVal v) => (v <? x)%Z
  | BIncl LNull | BExcl LNull => true       (* NULL sorts before every value *)
  | BUnb => true
  end.
Definition below (hi : bnd) (x : Z) : bool :=
  match hi with
  | BIncl (LVal v) => (x <=? v)%Z
  | BExcl (LVal v) => (x <? v)%Z
  | BIncl LNull | BExcl LNull => false
  | BUnb => true
  end.
Definition lit_eqb_val (l : lit) (x : Z) : bool := match l with LVal v => (v =? x)%Z | LNull => false end.

(* two-valued: is the SQL predicate the query stands for TRUE on a row with this value
   (x = NULL, x IN (.., NULL) are never TRUE on a NULL x) *)
Definition qmatch (en : env) (q : query) (v : option Z) : bool :=
  match q with
  | QRange lo hi => match v with Some x => above lo x && below hi x | None => false end
  | QIsIn vs => match v with Some x => existsb (fun l => lit_eqb_val l x) vs | None => false end
  | QEquals l => match v with Some x => lit_eqb_val l x | None => false end
  | QIsNull => match v with None => true | Some _ => false end
  | QFn f arg => is_true (fn_sem en f v (lit_val arg))
  end.

(* ================================================================ exact indices: B-tree / bitmap / flat *)
(* the (value, row id) pairs an index holds; NULL rows are kept apart (null pages / null_map) *)
Record sindex := {
  ix_bitmap : bool;                (* BitmapIndex (true) or BTreeIndex (false) *)
  ix_frags : list N;               (* fragment_bitmap: the fragments the index covers *)
  ix_entries : list (Z * N);       (* sorted by value in the real structure; order is irrelevant to search *)
  ix_nulls : list N
}.

Definition rows_where (f : Z -> bool) (ix : sindex) : list N :=
  map snd (filter (fun e => f (fst e)) (ix_entries ix)).

(* BitmapIndex::search hands the bounds to `BTreeMap::range`, which panics when start > end, or when
   start = end and both are excluded *)
Definition range_inverted (lo hi : bnd) : bool :=
  match lo, hi with
  | BIncl (LVal a), BIncl (LVal b) | BIncl (LVal a), BExcl (LVal b) | BExcl (LVal a), BIncl (LVal b) => (b <? a)%Z
  | BExcl (LVal a), BExcl (LVal b) => (b <=? a)%Z
  | _, _ => false
  end.

(* BTreeIndex::search / BitmapIndex::search / FlatIndex::search on a SargableQuery: always Exact.
   (Range(Unbounded, Unbounded) panics in flat.rs; QFn is not a SargableQuery: the downcast unwrap panics) *)
Definition sarg_rows (q : query) (ix : sindex) : outcome (list N) :=
  match q with
  | QEquals LNull => Ok (ix_nulls ix)
  | QEquals (LVal v) => Ok (rows_where (fun x => (x =? v)%Z) ix)
  | QRange BUnb BUnb => Panic
  | QRange lo hi =>
      if ix_bitmap ix && range_inverted lo hi then Panic
      else Ok (rows_where (fun x => above lo x && below hi x) ix)
  | QIsIn vs =>
      Ok (rows_where (fun x => existsb (fun l => lit_eqb_val l x) vs) ix
          ++ (if existsb lit_is_null vs then ix_nulls ix else []))
  | QIsNull => Ok (ix_nulls ix)
  | QFn _ _ => Panic
  end.

Definition sarg_search (q : query) (ix : sindex) : outcome search_result :=
  match sarg_rows q ix with
  | Ok rows => Ok (SExact (tm_from_iter rows))
  | Err => Err
  | Panic => Panic
  end.

(* the index built over the rows of the covered fragments *)
Definition build_index (bitmap : bool) (c : N) (frags : list N) (tbl : list rowT) : sindex :=
  let rows := filter (fun r => lmem (rfrag r) frags) tbl in
  {| ix_bitmap := bitmap;
     ix_frags := frags;
     ix_entries := flat_map (fun r => match val r c with Some v => [(v, rid r)] | None => [] end) rows;
     ix_nulls := flat_map (fun r => match val r c with Some _ => [] | None => [rid r] end) rows |}.

(* ================================================================ the scan over an index answer *)
(* FilteredReadExec without OFFSET/LIMIT (plan_scan / apply_index_to_fragment / filter choice, see
   Index/Model_ScanPlan.v for the range-level model): per live row of a fragment
     - fragment in applicable_fragments (covered by ALL indices of the query):
         Exact mask   -> rows of the mask, refine filter
         AtMost mask  -> rows of the mask, full filter
         AtLeast mask -> all rows, full filter
     - otherwise all rows, full filter. *)
Definition keep_row (res : expr_result) (covered : bool) (refine_ok full_ok : bool) (id : N) : bool :=
  if covered then
    match res with
    | Exact m => selected m id && refine_ok
    | AtMost m => selected m id && full_ok
    | AtLeast _ => full_ok
    end
  else full_ok.

Definition opt_true (en : env) (r : rowT) (f : option sexpr) : bool :=
  match f with Some e => is_true (eval en r e) | None => true end.

(* fragments_covered_by_index_query: intersection over the leaves *)
Definition covered_by (cov : leaf -> list N) (e : sidx) (f : N) : bool :=
  forallb (fun l => lmem f (cov l)) (s_leaves e).

(* the rows the scanner returns with use_scalar_index(true) *)
Definition index_scan (en : env) (info : index_info) (search : leaf -> outcome search_result)
    (cov : leaf -> list N) (tbl : list rowT) (p : sexpr) : outcome (list N) :=
  match apply_scalar_indices info p with
  | Ok ie =>
      match scalar_query ie with
      | None => Ok (full_scan en tbl p)
      | Some sq =>
          match s_evaluate search sq with
          | Ok res =>
              Ok (map rid (filter (fun r =>
                     keep_row res (covered_by cov sq (rfrag r))
                              (opt_true en r (refine_expr ie)) (is_true (eval en r p)) (rid r)) tbl))
          | Err => Err
          | Panic => Panic
          end
      end
  | Err => Err
  | Panic => Panic
  end.

(* ---- the exact-index instance: one sindex per index name *)
Definition exact_search (ixs : N -> option sindex) (l : leaf) : outcome search_result :=
  match ixs (l_idx l) with Some ix => sarg_search (l_query l) ix | None => Err end.
Definition exact_cov (ixs : N -> option sindex) (l : leaf) : list N :=
  match ixs (l_idx l) with Some ix => ix_frags ix | None => [] end.

(* ================================================================ finding F1: the class *)
(* leaves whose SQL value is NULL when the column is NULL (three-valued leaves) on an indexed column that is
   NULL in row r *)
Definition col_null_indexed (info : index_info) (r : rowT) (t : term) : bool :=
  match t with
  | TCol c => match info c with Some _ => match val r c with None => true | Some _ => false end | None => false end
  | _ => false
  end.

Fixpoint nulls3 (info : index_info) (r : rowT) (e : sexpr) : bool :=
  match e with
  | XCol c => col_null_indexed info r (TCol c)
  | XCmp _ l _ => col_null_indexed info r l
  | XBetween _ t _ _ => col_null_indexed info r t
  | XInList _ t _ => col_null_indexed info r t
  | XFn _ t _ => col_null_indexed info r t
  | XIsNull _ | XIsNotNull _ | XOther _ => false
  | XIsTrue x | XIsFalse x => false
  | XNot x => nulls3 info r x
  | XAnd a b | XOr a b => nulls3 info r a || nulls3 info r b
  end.

(* a negation (NOT, <>, NOT BETWEEN, NOT IN) above a three-valued leaf on an indexed column that is NULL in r *)
Fixpoint neg_over_null (info : index_info) (r : rowT) (e : sexpr) : bool :=
  match e with
  | XCmp ONotEq l _ => col_null_indexed info r l
  | XBetween true t _ _ => col_null_indexed info r t
  | XInList true t _ => col_null_indexed info r t
  | XNot x => nulls3 info r x
  | XAnd a b | XOr a b => neg_over_null info r a || neg_over_null info r b
  | _ => false
  end.

Definition Known_C19_not_over_nullable (info : index_info) (tbl : list rowT) (p : sexpr) : bool :=
  existsb (fun r => neg_over_null info r p) tbl.

(* the two sub-domains of the complement *)
Fixpoint negation_free (e : sexpr) : bool :=
  match e with
  | XCmp ONotEq _ _ | XBetween true _ _ _ | XInList true _ _ | XNot _ => false
  | XAnd a b | XOr a b => negation_free a && negation_free b
  | _ => true
  end.
(* the columns a predicate compares / tests *)
Definition tcols (t : term) : list N := match t with TCol c => [c] | _ => [] end.
Fixpoint pcols (e : sexpr) : list N :=
  match e with
  | XCol c => [c]
  | XCmp _ l _ => tcols l
  | XBetween _ t _ _ | XInList _ t _ | XFn _ t _ | XIsNull t | XIsNotNull t => tcols t
  | XIsTrue x | XIsFalse x | XNot x => pcols x
  | XAnd a b | XOr a b => pcols a ++ pcols b
  | XOther _ => []
  end.
(* no indexed column the predicate looks at holds a NULL *)
Definition null_free (info : index_info) (tbl : list rowT) (p : sexpr) : bool :=
  forallb (fun r => forallb (fun c => match info c, val r c with Some _, None => false | _, _ => true end) (pcols p)) tbl.

(* ================================================================ finding: BitmapIndex panics on an empty range *)
(* the index expression the translator builds has a Range leaf whose bounds are inverted (x >= 7 AND x <= 1,
   x BETWEEN 7 AND 1, x > 5 AND x < 5) and the leaf is answered by a bitmap index *)
Definition leaf_bitmap_inverted (ixs : N -> option sindex) (l : leaf) : bool :=
  match ixs (l_idx l), l_query l with
  | Some ix, QRange lo hi => ix_bitmap ix && range_inverted lo hi
  | _, _ => false
  end.
Definition Known_C19_bitmap_inverted_range (info : index_info) (ixs : N -> option sindex) (p : sexpr) : bool :=
  match apply_scalar_indices info p with
  | Ok ie => match scalar_query ie with Some sq => existsb (leaf_bitmap_inverted ixs) (s_leaves sq) | None => false end
  | _ => false
  end.

(* ================================================================ the domain *)
(* what the index plugins construct: BloomFilterQueryParser::new(name, true) *)
Definition parser_ok (p : parser) : bool := match p with PBloom rc => rc | _ => true end.

(* a Boolean column holds false = 0 / true = 1 *)
Definition columns_of (r : rowT) : list N := map N.of_nat (seq 0 (length (rvals r))).
Definition row_ok (info : index_info) (r : rowT) : bool :=
  forallb (fun c => match info c, val r c with
                    | Some ci, Some z => if ci_bool ci then (z =? 0)%Z || (z =? 1)%Z else true
                    | _, _ => true
                    end) (columns_of r).

Fixpoint sdepth (e : sexpr) : N :=
  match e with
  | XNot x => 1 + sdepth x
  | XAnd a b | XOr a b => 1 + N.max (sdepth a) (sdepth b)
  | _ => 0
  end.

(* ================================================================ correspondence checkers *)
Definition lit_eqb (a b : lit) : bool :=
  match a, b with LNull, LNull => true | LVal x, LVal y => (x =? y)%Z | _, _ => false end.
Definition term_eqb (a b : term) : bool :=
  match a, b with
  | TCol x, TCol y => x =? y
  | TLit x, TLit y => lit_eqb x y
  | TOther x, TOther y => x =? y
  | _, _ => false
  end.
Definition cmpop_eqb (a b : cmpop) : bool :=
  match a, b with
  | OEq, OEq | ONotEq, ONotEq | OLt, OLt | OLtEq, OLtEq | OGt, OGt | OGtEq, OGtEq => true
  | _, _ => false
  end.
Definition fnkind_eqb (a b : fnkind) : bool :=
  match a, b with
  | FContains, FContains | FHasAll, FHasAll | FHasAny, FHasAny | FOtherFn, FOtherFn => true
  | _, _ => false
  end.
Fixpoint sexpr_eqb (a b : sexpr) : bool :=
  match a, b with
  | XCol x, XCol y => x =? y
  | XCmp o1 l1 r1, XCmp o2 l2 r2 => cmpop_eqb o1 o2 && term_eqb l1 l2 && term_eqb r1 r2
  | XBetween n1 e1 l1 h1, XBetween n2 e2 l2 h2 => Bool.eqb n1 n2 && term_eqb e1 e2 && term_eqb l1 l2 && term_eqb h1 h2
  | XInList n1 e1 i1, XInList n2 e2 i2 => Bool.eqb n1 n2 && term_eqb e1 e2 && list_eqb term_eqb i1 i2
  | XIsNull x, XIsNull y | XIsNotNull x, XIsNotNull y => term_eqb x y
  | XIsTrue x, XIsTrue y | XIsFalse x, XIsFalse y | XNot x, XNot y => sexpr_eqb x y
  | XAnd a1 b1, XAnd a2 b2 | XOr a1 b1, XOr a2 b2 => sexpr_eqb a1 a2 && sexpr_eqb b1 b2
  | XFn f1 e1 g1, XFn f2 e2 g2 => fnkind_eqb f1 f2 && term_eqb e1 e2 && term_eqb g1 g2
  | XOther x, XOther y => x =? y
  | _, _ => false
  end.
Definition bnd_eqb (a b : bnd) : bool :=
  match a, b with
  | BIncl x, BIncl y | BExcl x, BExcl y => lit_eqb x y
  | BUnb, BUnb => true
  | _, _ => false
  end.
Definition query_eqb (a b : query) : bool :=
  match a, b with
  | QRange l1 h1, QRange l2 h2 => bnd_eqb l1 l2 && bnd_eqb h1 h2
  | QIsIn x, QIsIn y => list_eqb lit_eqb x y
  | QEquals x, QEquals y => lit_eqb x y
  | QIsNull, QIsNull => true
  | QFn f1 a1, QFn f2 a2 => fnkind_eqb f1 f2 && lit_eqb a1 a2
  | _, _ => false
  end.
Definition leaf_eqb (a b : leaf) : bool :=
  (l_col a =? l_col b) && (l_idx a =? l_idx b) && query_eqb (l_query a) (l_query b) && Bool.eqb (l_recheck a) (l_recheck b).
Fixpoint sidx_eqb (a b : sidx) : bool :=
  match a, b with
  | SNot x, SNot y => sidx_eqb x y
  | SAnd a1 b1, SAnd a2 b2 | SOr a1 b1, SOr a2 b2 => sidx_eqb a1 a2 && sidx_eqb b1 b2
  | SQuery x, SQuery y => leaf_eqb x y
  | _, _ => false
  end.
Definition iexp_eqb (a b : iexp) : bool :=
  option_eqb sidx_eqb (scalar_query a) (scalar_query b) && option_eqb sexpr_eqb (refine_expr a) (refine_expr b).

(* index information as printed by the harness: (column, (is_boolean, parsers)) *)
Definition info_of (l : list (N * (bool * list (N * parser)))) : index_info :=
  fun c => match find (fun e => fst e =? c) l with
           | Some e => Some {| ci_bool := fst (snd e); ci_parsers := snd (snd e) |}
           | None => None
           end.
Definition mk_leaf (c idx : N) (q : query) (rc : bool) : leaf :=
  {| l_col := c; l_idx := idx; l_query := q; l_recheck := rc |}.
Definition mk_iexp (sq : option sidx) (rf : option sexpr) : iexp := {| scalar_query := sq; refine_expr := rf |}.
Definition mk_row (id frag : N) (vs : list (option Z)) : rowT := {| rid := id; rfrag := frag; rvals := vs |}.

(* stream "translate": apply_scalar_indices on the same AST *)
Definition chk_translate (i : list (N * (bool * list (N * parser))) * sexpr)
                         (o : outcome (option sidx * option sexpr)) : bool :=
  match apply_scalar_indices (info_of (fst i)) (snd i), o with
  | Ok ie, Ok (sq, rf) => iexp_eqb ie (mk_iexp sq rf)
  | Err, Err => true
  | Panic, Panic => true
  | _, _ => false
  end.

(* stream "leaf": BTree / Bitmap search of a SargableQuery over a column; rows sorted by the harness *)
Fixpoint insert_sorted (x : N) (l : list N) : list N :=
  match l with
  | [] => [x]
  | y :: tl => if x <=? y then x :: l else y :: insert_sorted x tl
  end.
Definition sort_n (l : list N) : list N := fold_right insert_sorted [] l.

Definition chk_leaf (i : bool * list (option Z * N) * query) (o : outcome (list N)) : bool :=
  let ix := {| ix_bitmap := fst (fst i); ix_frags := [];
               ix_entries := flat_map (fun e => match fst e with Some v => [(v, snd e)] | None => [] end) (snd (fst i));
               ix_nulls := flat_map (fun e => match fst e with Some _ => [] | None => [snd e] end) (snd (fst i)) |} in
  match sarg_rows (snd i) ix, o with
  | Ok rows, Ok got => list_eqb N.eqb (sort_n rows) got
  | Err, Err => true
  | Panic, Panic => true
  | _, _ => false
  end.

(* stream "scan": the whole indexed scan of the model (exact indices built over the covered fragments,
   an environment without opaque sub-expressions) against the rows the real scanner returned, in-class
   cases included *)
Definition plain_env : env :=
  {| other_term := fun _ _ => None; other_pred := fun _ _ => None; fn_sem := fun _ _ _ => None |}.

(* indices as printed: (index name, (column, covered fragments, is a bitmap index)) *)
Definition ixs_of (tbl : list rowT) (l : list (N * (N * list N * bool))) (name : N) : option sindex :=
  match find (fun e => fst e =? name) l with
  | Some e => Some (build_index (snd (snd e)) (fst (fst (snd e))) (snd (fst (snd e))) tbl)
  | None => None
  end.

Definition chk_scan (i : list (N * (bool * list (N * parser))) * list (N * (N * list N * bool)) * list (N * N * list (option Z)) * sexpr)
                    (o : outcome (list N)) : bool :=
  let '(info_l, ix_l, rows, p) := i in
  let tbl := map (fun r => mk_row (fst (fst r)) (snd (fst r)) (snd r)) rows in
  let ixs := ixs_of tbl ix_l in
  match index_scan plain_env (info_of info_l) (exact_search ixs) (exact_cov ixs) tbl p, o with
  | Ok got, Ok want => list_eqb N.eqb (sort_n got) want
  | Err, Err => true
  | Panic, Panic => true
  | _, _ => false
  end.

(* the class predicate as evaluated by the harness *)
Definition chk_class (i : list (N * (bool * list (N * parser))) * list (N * (N * list N * bool)) * list (N * N * list (option Z)) * sexpr)
                     (o : bool * bool) : bool :=
  let '(info_l, ix_l, rows, p) := i in
  let tbl := map (fun r => mk_row (fst (fst r)) (snd (fst r)) (snd r)) rows in
  Bool.eqb (Known_C19_not_over_nullable (info_of info_l) tbl p) (fst o) &&
  Bool.eqb (Known_C19_bitmap_inverted_range (info_of info_l) (ixs_of tbl ix_l) p) (snd o).
