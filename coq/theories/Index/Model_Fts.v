(* C23 - full-text search: posting lists with positions, term / OR / AND / phrase / boolean matching on the
   indexed path and on the flat path over unindexed rows.  Executable definitions only.

   The tokenizer is OUTSIDE the model: the harness applies the real tokenizer of the index to every document
   and every query string and hands token lists (tokens as numbers) to the model.

   Transcribed:
     InvertedPartition::bm25_search   (lance-index/src/scalar/inverted/index.rs)  token lookup: a query token that is
        not in the partition's vocabulary is SKIPPED for match queries (also under Operator::And) and makes a
        phrase query return nothing; match queries deduplicate token ids; empty token list -> nothing
     Wand::search                     (wand.rs)  only as a set: OR = some posting list holds the doc, AND = every one
        does (find_pivot_term: all `num_terms` iterators on the same doc); the cursor machinery (pivot selection,
        block-max skipping, bubble_up) is NOT transcribed - see C23_wand_safe_partial
     Wand::check_positions + PositionIterator  (wand.rs)  branch for branch, with fuel (-> cp_loop)
     flat_bm25_search_stream          (index.rs)  unindexed rows: kept iff score > 0 iff SOME query token occurs,
        whatever the operator; NULL text scores 0
     Scanner::plan_match_query / plan_phrase_query (lance/src/dataset/scanner.rs)  match = index UNION flat over the
        unindexed fragments; phrase = index only; no index -> flat only (phrase: Err)
     BooleanQueryExec                 (lance/src/io/exec/fts.rs)  must = intersection, else union of should;
        should only re-scores when there is a must; must_not removed
     prefilter mask: deleted rows are never returned
   Not modelled: scores (BM25 ranking is checked by the harness oracle only), fuzzy / boost / multi-match queries,
   phrase slop > 0 in the end-to-end function (cp_loop itself takes the slop), limits smaller than the match set. *)
From LanceV Require Import Common.Base.
Local Open Scope N_scope.

Inductive fquery : Type :=
| QMatch (and_op : bool) (terms : list N)
| QPhrase (terms : list N)
| QBool (must should must_not : list fquery).

Definition is_nil {A} (l : list A) : bool := match l with [] => true | _ => false end.
Definition mem (t : N) (l : list N) : bool := existsb (N.eqb t) l.

(* ---------------------------------------------------------------- specification: the tokenised evaluator *)
Fixpoint is_prefix (p l : list N) : bool :=
  match p, l with
  | [], _ => true
  | x :: p', y :: l' => (x =? y) && is_prefix p' l'
  | _ :: _, [] => false
  end.
Fixpoint has_sublist (p l : list N) : bool :=
  is_prefix p l || match l with [] => false | _ :: l' => has_sublist p l' end.

Fixpoint spec_match (q : fquery) (d : list N) : bool :=
  match q with
  | QMatch false ts => existsb (fun t => mem t d) ts
  | QMatch true ts => negb (is_nil ts) && forallb (fun t => mem t d) ts
  | QPhrase ts => negb (is_nil ts) && has_sublist ts d
  | QBool must should must_not =>
      (if is_nil must then existsb (fun s => spec_match s d) should else forallb (fun m => spec_match m d) must)
      && negb (existsb (fun n => spec_match n d) must_not)
  end.

(* ---------------------------------------------------------------- posting lists *)
Fixpoint positions_of (t : N) (d : list N) (i : Z) : list Z :=
  match d with
  | [] => []
  | x :: d' => if x =? t then i :: positions_of t d' (i + 1)%Z else positions_of t d' (i + 1)%Z
  end.

(* the posting list of a token as a function of the partition's documents: (row id, positions), in document order *)
Definition posting (t : N) (part : list (N * option (list N))) : list (N * list Z) :=
  flat_map (fun rd => match snd rd with
                      | Some d => match positions_of t d 0%Z with [] => [] | ps => [(fst rd, ps)] end
                      | None => []
                      end) part.

(* index construction, token occurrence by token occurrence (InnerBuilder: token -> posting list builder) *)
Definition index : Type := list (N * list (N * list Z)).
Fixpoint add_occ (t rid : N) (pos : Z) (idx : index) : index :=
  match idx with
  | [] => [(t, [(rid, [pos])])]
  | (t', pl) :: rest =>
      if t' =? t then
        match pl with
        | (r, ps) :: pl' => if r =? rid then (t', (r, pos :: ps) :: pl') :: rest else (t', (rid, [pos]) :: pl) :: rest
        | [] => (t', [(rid, [pos])]) :: rest
        end
      else (t', pl) :: add_occ t rid pos rest
  end.
Fixpoint add_tokens (rid : N) (d : list N) (i : Z) (idx : index) : index :=
  match d with
  | [] => idx
  | x :: d' => add_occ x rid i (add_tokens rid d' (i + 1)%Z idx)
  end.
(* documents are folded from the last to the first and tokens from the last to the first so that consing yields
   ascending row order and ascending positions *)
Fixpoint build (part : list (N * option (list N))) : index :=
  match part with
  | [] => []
  | (rid, Some d) :: rest => add_tokens rid d 0%Z (build rest)
  | (_, None) :: rest => build rest
  end.
Fixpoint lookup (t : N) (idx : index) : list (N * list Z) :=
  match idx with
  | [] => []
  | (t', pl) :: rest => if t' =? t then pl else lookup t rest
  end.

(* ---------------------------------------------------------------- Wand::check_positions *)
(* PositionIterator: all positions of the token in the document, the position of the token in the query, and the
   current suffix (= positions[index..]) *)
Record piter : Type := { pi_all : list Z; pi_q : Z; pi_cur : list Z }.
Fixpoint drop_lt (bound : Z) (l : list Z) : list Z :=        (* partition_point(|pos| pos < bound) *)
  match l with
  | [] => []
  | p :: l' => if (p <? bound)%Z then drop_lt bound l' else l
  end.
Definition pi_next (least_rel : Z) (it : piter) : piter :=
  {| pi_all := pi_all it; pi_q := pi_q it; pi_cur := drop_lt (least_rel + pi_q it)%Z (pi_all it) |}.
Definition pi_new (positions : list Z) (q : Z) : piter :=
  pi_next 0%Z {| pi_all := positions; pi_q := q; pi_cur := positions |}.
Definition pi_rel (it : piter) : option Z :=
  match pi_cur it with [] => None | p :: _ => Some (p - pi_q it)%Z end.

Inductive scan_result : Type := ScanFalse | ScanAligned | ScanMove (max_rel : Z).
Definition omax (a : option Z) (b : Z) : option Z :=
  match a with None => Some b | Some x => Some (Z.max x b) end.
(* one pass over position_iters.windows(2) *)
Fixpoint scan_windows (slop : Z) (its : list piter) (max_rel : option Z) : scan_result :=
  match its with
  | w0 :: ((w1 :: _) as tl) =>
      match pi_rel w0, pi_rel w1 with
      | Some last, Some next =>
          let move_to := if (next <? last)%Z then last else Z.max (last + 1) (next - slop) in
          let max_rel' := omax max_rel move_to in
          if ((last <=? next) && (next <=? last + slop))%Z then scan_windows slop tl max_rel'
          else match max_rel' with Some m => ScanMove m | None => ScanFalse end
      | _, _ => ScanFalse
      end
  | _ => ScanAligned
  end.
Fixpoint cp_loop (fuel : nat) (slop : Z) (its : list piter) : option bool :=
  match fuel with
  | O => None
  | S f =>
      match scan_windows slop its None with
      | ScanFalse => Some false
      | ScanAligned => Some true
      | ScanMove m => cp_loop f slop (map (pi_next m) its)
      end
  end.
Fixpoint mk_iters (ts : list N) (d : list N) (q : Z) : list piter :=
  match ts with
  | [] => []
  | t :: ts' => pi_new (positions_of t d 0%Z) q :: mk_iters ts' d (q + 1)%Z
  end.
(* every round that does not finish moves some iterator forward: fuel = total number of positions + 1 *)
Definition cp_fuel (its : list piter) : nat := S (fold_right (fun it n => (length (pi_all it) + n)%nat) O its).
Definition check_positions (slop : Z) (ts d : list N) : option bool :=
  let its := mk_iters ts d 0%Z in cp_loop (cp_fuel its) slop its.

(* ---------------------------------------------------------------- what the implementation returns, row by row *)
Fixpoint dedup (l : list N) : list N :=
  match l with
  | [] => []
  | x :: l' => if mem x l' then dedup l' else x :: dedup l'
  end.

(* `known`: the vocabulary of the row's index partition; `indexed`: the row's fragment is covered by the index.
   None = out of fuel in check_positions (excluded by C23_phrase_positions_terminate). *)
Fixpoint impl_match (known : N -> bool) (indexed : bool) (q : fquery) (d : list N) : option bool :=
  match q with
  | QMatch and_op ts =>
      if indexed then
        if and_op then
          let ts' := dedup (filter known ts) in
          Some (negb (is_nil ts') && forallb (fun t => mem t d) ts')
        else Some (existsb (fun t => mem t d) ts)
      else Some (existsb (fun t => mem t d) ts)
  | QPhrase ts =>
      if indexed then
        if negb (is_nil ts) && forallb known ts && forallb (fun t => mem t d) ts
        then check_positions 0%Z ts d
        else Some false
      else Some false
  | QBool must should must_not =>
      let all_some := fix all_some (l : list fquery) : option (list bool) :=
        match l with
        | [] => Some []
        | x :: l' => match impl_match known indexed x d, all_some l' with
                     | Some b, Some bs => Some (b :: bs)
                     | _, _ => None
                     end
        end in
      match all_some must, all_some should, all_some must_not with
      | Some ms, Some ss, Some ns =>
          Some ((if is_nil must then existsb (fun b => b) ss else forallb (fun b => b) ms) && negb (existsb (fun b => b) ns))
      | _, _, _ => None
      end
  end.

(* a row of the table: id, tokenised text (None: NULL), covered by the index?, deleted? *)
Definition frow : Type := (N * option (list N) * bool * bool)%type.

Definition vocab_of (rows : list (N * option (list N))) (t : N) : bool :=
  existsb (fun rd => match snd rd with Some d => mem t d | None => false end) rows.

Fixpoint insert_n (x : N) (l : list N) : list N :=
  match l with [] => [x] | y :: t => if x <=? y then x :: l else y :: insert_n x t end.
Fixpoint sort_n (l : list N) : list N := match l with [] => [] | x :: t => insert_n x (sort_n t) end.

(* Scanner::full_text_search with a limit above the match count: the returned row ids, ascending.
   indexed rows form ONE partition (the harness cannot observe partition boundaries; with several partitions
   `known` is per partition). *)
Definition fts_search (has_index : bool) (indexed fresh : list (N * option (list N))) (deleted : list N) (q : fquery) : outcome (list N) :=
  let known := vocab_of indexed in
  let phrase_leaf := fix phrase_leaf (q : fquery) : bool :=
    match q with
    | QPhrase _ => true
    | QMatch _ _ => false
    | QBool a b c => existsb phrase_leaf a || existsb phrase_leaf b || existsb phrase_leaf c
    end in
  if negb has_index && phrase_leaf q then Err
  else
    let eval := fun (ix : bool) (rd : N * option (list N)) =>
      match snd rd with
      | Some d => if mem (fst rd) deleted then Some false else impl_match known ix q d
      | None => Some false
      end in
    let res := map (fun rd => (fst rd, eval has_index rd)) indexed ++ map (fun rd => (fst rd, eval false rd)) fresh in
    if existsb (fun x => match snd x with None => true | _ => false end) res then Panic   (* out of fuel: never *)
    else Ok (sort_n (map fst (filter (fun x => match snd x with Some true => true | _ => false end) res))).

Definition chk_fts (i : bool * list (N * option (list N)) * list (N * option (list N)) * list N * fquery) (o : outcome (list N)) : bool :=
  let '(has_index, indexed, fresh, deleted, q) := i in
  outcome_eqb (list_eqb N.eqb) (fts_search has_index indexed fresh deleted q) o.
