(* Model of rust/lance-index/src/scalar/expression.rs: IndexExprResult and ScalarIndexExpr::evaluate
   (the NOT / AND / OR combination table over Exact / AtMost / AtLeast answers).
   Executable definitions only (+ chk_* correspondence checkers). *)
From LanceV Require Import Common.Base Core.Model_Mask.
Local Open Scope N_scope.

(* lance_index::scalar::SearchResult: what an index answers for a leaf query *)
Inductive search_result := SExact (t : treemap) | SAtMost (t : treemap) | SAtLeast (t : treemap).

Inductive expr_result := Exact (m : mask) | AtMost (m : mask) | AtLeast (m : mask).

Definition row_id_mask (r : expr_result) : mask :=
  match r with Exact m => m | AtMost m => m | AtLeast m => m end.
Definition discriminant (r : expr_result) : N :=
  match r with Exact _ => 0 | AtMost _ => 1 | AtLeast _ => 2 end.
Definition from_parts (m : mask) (d : N) : outcome expr_result :=
  match d with
  | 0 => Ok (Exact m)
  | 1 => Ok (AtMost m)
  | 2 => Ok (AtLeast m)
  | _ => Err
  end.

(* ScalarIndexExpr; a Query leaf is identified by a number (the harness names its indices "i<n>") *)
Inductive iexpr :=
| ENot (e : iexpr)
| EAnd (a b : iexpr)
| EOr (a b : iexpr)
| EQuery (leaf : N).

(* the three combination rules, on already evaluated operands *)
Definition combine_not (r : expr_result) : expr_result :=
  match r with
  | Exact m => Exact (mnot m)
  | AtMost m => AtLeast (mnot m)
  | AtLeast m => AtMost (mnot m)
  end.

Definition combine_and (l r : expr_result) : expr_result :=
  match l, r with
  | Exact a, Exact b => Exact (mand a b)
  | Exact a, AtMost b => AtMost (mand a b)
  | AtMost a, Exact b => AtMost (mand a b)
  | Exact a, AtLeast _ => AtMost a
  | AtLeast _, Exact b => AtMost b
  | AtMost a, AtMost b => AtMost (mand a b)
  | AtLeast a, AtLeast b => AtLeast (mand a b)
  | AtLeast _, AtMost b => AtMost b
  | AtMost a, AtLeast _ => AtMost a
  end.

Definition omap {A B} (f : A -> B) (o : outcome A) : outcome B :=
  match o with Ok a => Ok (f a) | Err => Err | Panic => Panic end.

Definition combine_or (l r : expr_result) : outcome expr_result :=
  match l, r with
  | Exact a, Exact b => omap Exact (mor a b)
  | Exact a, AtMost b => omap AtMost (mor a b)
  | AtMost a, Exact b => omap AtMost (mor a b)
  | Exact a, AtLeast b => omap AtLeast (mor a b)
  | AtLeast a, Exact b => omap AtLeast (mor a b)
  | AtMost a, AtMost b => omap AtMost (mor a b)
  | AtLeast a, AtLeast b => omap AtLeast (mor a b)
  | AtLeast a, AtMost _ => Ok (AtLeast a)
  | AtMost _, AtLeast b => Ok (AtLeast b)
  end.

Definition leaf_result (s : search_result) : expr_result :=
  match s with
  | SExact t => Exact {| allow := Some t; block := None |}
  | SAtMost t => AtMost {| allow := Some t; block := None |}
  | SAtLeast t => AtLeast {| allow := Some t; block := None |}
  end.

(* evaluate: [load] stands for load_index(..).search(..) of the leaf (Err = either of them failed).
   `join!` polls both sides; `lhs_result?` is applied first, then `rhs_result?`. *)
Fixpoint evaluate (load : N -> outcome search_result) (e : iexpr) : outcome expr_result :=
  match e with
  | ENot i =>
    match evaluate load i with
    | Ok r => Ok (combine_not r)
    | Err => Err
    | Panic => Panic
    end
  | EAnd a b =>
    match evaluate load a, evaluate load b with
    | Panic, _ => Panic
    | _, Panic => Panic
    | Err, _ => Err
    | _, Err => Err
    | Ok l, Ok r => Ok (combine_and l r)
    end
  | EOr a b =>
    match evaluate load a, evaluate load b with
    | Panic, _ => Panic
    | _, Panic => Panic
    | Err, _ => Err
    | _, Err => Err
    | Ok l, Ok r => combine_or l r
    end
  | EQuery leaf => omap leaf_result (load leaf)
  end.

Fixpoint needs_recheck (rc : N -> bool) (e : iexpr) : bool :=
  match e with
  | ENot i => needs_recheck rc i
  | EAnd a b | EOr a b => needs_recheck rc a || needs_recheck rc b
  | EQuery leaf => rc leaf
  end.

(* ---------- correspondence checkers ---------- *)
Definition result_obs := (N * (option treemap * option treemap))%type.  (* (discriminant, (allow, block)) *)
Definition result_obs_eqb (r : expr_result) (o : result_obs) : bool :=
  (discriminant r =? fst o) && mask_obs_eqb (row_id_mask r) (snd o).

Definition mk_result (o : result_obs) : expr_result :=
  match fst o with 0 => Exact (mk (snd o)) | 1 => AtMost (mk (snd o)) | _ => AtLeast (mk (snd o)) end.

(* leaves as printed by the harness: Some (kind, map) or None (the loader/index returns Err) *)
Definition leaf_of (l : option (N * treemap)) : outcome search_result :=
  match l with
  | None => Err
  | Some (0, t) => Ok (SExact t)
  | Some (1, t) => Ok (SAtMost t)
  | Some (_, t) => Ok (SAtLeast t)
  end.
Definition loader_of (leaves : list (option (N * treemap))) (i : N) : outcome search_result :=
  match nth_error leaves (N.to_nat i) with Some l => leaf_of l | None => Err end.

(* stream "eval": the real ScalarIndexExpr::evaluate over a stub loader. *)
Definition chk_eval (i : iexpr * list (option (N * treemap))) (o : outcome result_obs) : bool :=
  match evaluate (loader_of (snd i)) (fst i), o with
  | Ok r, Ok ob => result_obs_eqb r ob
  | Err, Err => true
  | Panic, Panic => true
  | _, _ => false
  end.

(* stream "parts": from_parts / discriminant *)
Definition chk_parts (i : (option treemap * option treemap) * N) (o : outcome result_obs) : bool :=
  match from_parts (mk (fst i)) (snd i), o with
  | Ok r, Ok ob => result_obs_eqb r ob
  | Err, Err => true
  | _, _ => false
  end.
