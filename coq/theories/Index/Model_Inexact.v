(* C20 - inexact scalar indices: zone map (rust/lance-index/src/scalar/zonemap.rs), split-block bloom filter
   (bloomfilter/sbbf.rs) and n-gram index (ngram.rs).  Executable definitions only (+ chk_* checkers).

   Values: a finite value is its position [Z] in the column type's total order (arrow / ScalarValue order:
   -0.0 < 0.0, every float below NaN); NaN is the largest value (positive NaN; a NaN with the sign bit set
   sorts first under total_cmp and is outside this model); NULL is [None] and sorts before everything, as in
   `ScalarValue::partial_cmp` on Options. *)
From LanceV Require Import Common.Base.
Local Open Scope N_scope.

(* ================================================================ zone map *)
Inductive fval := Fin (z : Z) | NaN.
Definition fle (a b : fval) : bool :=
  match a, b with
  | Fin x, Fin y => (x <=? y)%Z
  | _, NaN => true
  | NaN, Fin _ => false
  end.
Definition flt (a b : fval) : bool := negb (fle b a).
Definition feq (a b : fval) : bool := fle a b && fle b a.
(* ScalarValue comparison: None (NULL) below Some *)
Definition sle (a b : option fval) : bool :=
  match a, b with
  | None, _ => true
  | Some _, None => false
  | Some x, Some y => fle x y
  end.
Definition slt (a b : option fval) : bool := negb (sle b a).

(* ZoneMapStatistics *)
Record zone := {
  z_min : option fval; z_max : option fval; z_nulls : N; z_nans : N;
  z_frag : N; z_start : N; z_len : N
}.

(* MinAccumulator / MaxAccumulator: NULLs are skipped; NaN is the largest value *)
Definition omin (acc v : option fval) : option fval :=
  match v with
  | None => acc
  | Some x => match acc with None => Some x | Some a => Some (if fle a x then a else x) end
  end.
Definition omax (acc v : option fval) : option fval :=
  match v with
  | None => acc
  | Some x => match acc with None => Some x | Some a => Some (if fle a x then x else a) end
  end.
Definition count_if {A} (f : A -> bool) (l : list A) : N := N.of_nat (length (filter f l)).
Definition is_null (v : option fval) : bool := match v with None => true | Some _ => false end.
Definition is_nan (v : option fval) : bool := match v with Some NaN => true | _ => false end.

(* update_stats over the rows of one zone, then new_map *)
Definition mk_zone (frag start : N) (vs : list (option fval)) : zone :=
  {| z_min := fold_left omin vs None; z_max := fold_left omax vs None;
     z_nulls := count_if is_null vs; z_nans := count_if is_nan vs;
     z_frag := frag; z_start := start; z_len := N.of_nat (length vs) |}.

(* train: the rows of a fragment are cut into zones of rows_per_zone rows (the last one may be shorter);
   a zone never spans two fragments *)
Fixpoint chunks {A} (fuel size : nat) (start : N) (vs : list A) : list (N * list A) :=
  match fuel with
  | O => []
  | S f =>
      match vs with
      | [] => []
      | _ => (start, firstn size vs) :: chunks f size (start + N.of_nat size) (skipn size vs)
      end
  end.
Definition zones_of_fragment (size : nat) (fv : N * list (option fval)) : list zone :=
  map (fun c => mk_zone (fst fv) (fst c) (snd c)) (chunks (length (snd fv)) size 0 (snd fv)).
Definition build_zonemap (size : nat) (frags : list (N * list (option fval))) : list zone :=
  flat_map (zones_of_fragment size) frags.

(* SargableQuery as the zone map sees it; range bounds are never NULL (the parser refuses them) *)
Inductive zbound := ZIncl (v : fval) | ZExcl (v : fval) | ZUnb.
Inductive zquery :=
| ZIsNull
| ZEquals (t : option fval)
| ZRange (lo hi : zbound)
| ZIsIn (vs : list (option fval)).

Definition max_is_nan (z : zone) : bool := match z_max z with Some NaN => true | _ => false end.

(* evaluate_zone_against_query, arm by arm (the early `return`s of the Range arm included) *)
Definition eval_zone (z : zone) (q : zquery) : bool :=
  match q with
  | ZIsNull => 0 <? z_nulls z
  | ZEquals None => 0 <? z_nulls z
  | ZEquals (Some NaN) => 0 <? z_nans z
  | ZEquals (Some t) => sle (z_min z) (Some t) && (if max_is_nan z then true else sle (Some t) (z_max z))
  | ZRange lo hi =>
      match lo with
      | ZIncl NaN => 0 <? z_nans z
      | ZExcl NaN => false
      | _ =>
          let start_check :=
            match lo with
            | ZUnb => true
            | ZIncl s => if max_is_nan z then true else sle (Some s) (z_max z)
            | ZExcl s => slt (Some s) (z_max z)
            end in
          match hi with
          | ZIncl NaN => (0 <? z_nans z) || sle (z_min z) (Some NaN)
          | ZExcl NaN => true
          | ZUnb => start_check
          | ZIncl e => start_check && sle (z_min z) (Some e)
          | ZExcl e => start_check && slt (z_min z) (Some e)
          end
      end
  | ZIsIn vs =>
      existsb (fun v => match v with
                        | None => 0 <? z_nulls z
                        | Some NaN => 0 <? z_nans z
                        | Some t => sle (z_min z) (Some t) && sle (Some t) (z_max z)
                        end) vs
  end.

Definition two32N : N := 4294967296.
Definition zone_rows (z : zone) : list N :=
  map (fun j => z_frag z * two32N + z_start z + N.of_nat j) (seq 0 (N.to_nat (z_len z))).

(* ZoneMapIndex::search: AtMost (the rows of every zone that may match) *)
Definition zm_search (zones : list zone) (q : zquery) : list N :=
  flat_map (fun z => if eval_zone z q then zone_rows z else []) zones.

(* is the SQL predicate TRUE for a row with this value *)
Definition zabove (lo : zbound) (x : fval) : bool :=
  match lo with ZIncl s => fle s x | ZExcl s => flt s x | ZUnb => true end.
Definition zbelow (hi : zbound) (x : fval) : bool :=
  match hi with ZIncl e => fle x e | ZExcl e => flt x e | ZUnb => true end.
Definition zmatch (q : zquery) (v : option fval) : bool :=
  match q, v with
  | ZIsNull, None => true
  | ZEquals (Some t), Some x => feq x t
  | ZRange lo hi, Some x => zabove lo x && zbelow hi x
  | ZIsIn vs, Some x => existsb (fun t => match t with Some t => feq x t | None => false end) vs
  | _, _ => false
  end.

(* ================================================================ split block bloom filter *)
Definition SALT : list N := [1203114875; 1150766481; 2284105051; 2729912477; 1884591559; 770785867; 2667333959; 1550580529].

Definition mask_word (x salt : N) : N := N.shiftl 1 (N.shiftr (wrap32 (x * salt)) 27).
(* Block::mask *)
Definition mask (x : N) : list N := map (mask_word x) SALT.
Definition block := list N.      (* eight u32 words *)
Definition empty_block : block := [0; 0; 0; 0; 0; 0; 0; 0].
(* Block::insert / Block::check *)
Definition block_insert (b : block) (h : N) : block :=
  map (fun p => N.lor (fst p) (snd p)) (combine b (mask h)).
Definition block_check (b : block) (h : N) : bool :=
  forallb (fun p => negb (N.land (fst p) (snd p) =? 0)) (combine b (mask h)).

Definition u64max : N := 18446744073709551615.
Definition sat_mul (a b : N) : N := N.min (a * b) u64max.
(* Sbbf::hash_to_block_index *)
Definition block_index (nblocks h : N) : N := N.shiftr (sat_mul (N.shiftr h 32) nblocks) 32.

Definition sbbf := list block.
Fixpoint upd {A} (i : nat) (f : A -> A) (l : list A) : list A :=
  match l, i with
  | [], _ => []
  | x :: tl, O => f x :: tl
  | x :: tl, S k => x :: upd k f tl
  end.
(* insert_hash / check_hash; `hash as u32` = wrap32.  An index outside the block list would panic in Rust;
   [block_index_lt] shows it cannot happen *)
Definition sbbf_insert (f : sbbf) (h : N) : sbbf :=
  upd (N.to_nat (block_index (N.of_nat (length f)) h)) (fun b => block_insert b (wrap32 h)) f.
Definition sbbf_check (f : sbbf) (h : N) : bool :=
  match nth_error f (N.to_nat (block_index (N.of_nat (length f)) h)) with
  | Some b => block_check b (wrap32 h)
  | None => false
  end.

(* ================================================================ n-gram index *)
(* text = list of characters (code points); a trigram = three consecutive characters of the normalised text *)
Fixpoint windows3 (l : list N) : list (list N) :=
  match l with
  | a :: ((b :: c :: _) as tl) => [a; b; c] :: windows3 tl
  | _ => []
  end.

Fixpoint inter_all (ls : list (list N)) : list N :=
  match ls with
  | [] => []                                   (* NGramPostingList::intersect of nothing: unwrap_or_default *)
  | [l] => l
  | l :: tl => filter (fun x => existsb (N.eqb x) (inter_all tl)) l
  end.

Inductive nkind := NExact | NAtMost | NAtLeast.

Section NGram.
  Variable norm : list N -> list N.            (* lower casing + ascii folding *)
  Variable keep : list N -> bool.              (* AlphaNumOnlyFilter on a trigram *)
  Variable blen : N -> N.                      (* bytes of a character in UTF-8 *)

  Definition grams (s : list N) : list (list N) := filter keep (windows3 (norm s)).
  Definition byte_len (s : list N) : N := fold_right (fun c acc => blen c + acc) 0 s.

  Definition gram_eqb (a b : list N) : bool := list_eqb N.eqb a b.
  (* the posting list of a trigram: rows whose text yields it *)
  Definition posting (docs : list (N * list N)) (g : list N) : list N :=
    map fst (filter (fun d => existsb (gram_eqb g) (grams (snd d))) docs).

  (* NGramIndex::search(StringContains(s)) *)
  Definition ngram_search (docs : list (N * list N)) (s : list N) : nkind * list N :=
    if byte_len s <? 3 then (NAtLeast, [])
    else
      let gs := grams s in
      if existsb (fun g => match posting docs g with [] => true | _ => false end) gs then (NExact, [])
      else (NAtMost, inter_all (map (posting docs) gs)).

  (* finding F20b: the query has >= 3 bytes but yields no trigram *)
  Definition Known_C20_ngram_no_trigram_query (s : list N) : bool :=
    (3 <=? byte_len s) && match grams s with [] => true | _ => false end.
End NGram.

(* a concrete tokenizer for the witness and the examples: ASCII lower-casing character by character,
   trigrams of ASCII letters / digits only, UTF-8 lengths *)
Definition norm_ascii (s : list N) : list N := map (fun c => if (65 <=? c) && (c <=? 90) then c + 32 else c) s.
Definition alnum (c : N) : bool := ((48 <=? c) && (c <=? 57)) || ((97 <=? c) && (c <=? 122)).
Definition keep_alnum (g : list N) : bool := forallb alnum g.
Definition blen_utf8 (c : N) : N := if c <? 128 then 1 else if c <? 2048 then 2 else if c <? 65536 then 3 else 4.

(* ================================================================ correspondence checkers *)
Definition fval_of (p : bool * Z) : fval := if fst p then NaN else Fin (snd p).
Definition oval_of (o : option (bool * Z)) : option fval := match o with Some p => Some (fval_of p) | None => None end.
Definition zb_of (b : N * (bool * Z)) : zbound :=
  match fst b with 0 => ZUnb | 1 => ZIncl (fval_of (snd b)) | _ => ZExcl (fval_of (snd b)) end.
(* query as printed: (kind, (bounds / target / list)) *)
Definition zq_of (q : N * (list (option (bool * Z)) * (N * (bool * Z)) * (N * (bool * Z)))) : zquery :=
  let '(vals, lo, hi) := snd q in
  match fst q with
  | 0 => ZIsNull
  | 1 => ZEquals (match vals with v :: _ => oval_of v | [] => None end)
  | 2 => ZRange (zb_of lo) (zb_of hi)
  | _ => ZIsIn (map oval_of vals)
  end.

Fixpoint insert_sortedN (x : N) (l : list N) : list N :=
  match l with
  | [] => [x]
  | y :: tl => if x <=? y then x :: l else y :: insert_sortedN x tl
  end.
Definition sortN (l : list N) : list N := fold_right insert_sortedN [] l.

(* stream "zone": ZoneMapIndex::search on a table given as (fragment id, values) lists with a zone size,
   against the sorted row addresses of the real AtMost answer *)
Definition chk_zone (i : N * list (N * list (option (bool * Z))) * (N * (list (option (bool * Z)) * (N * (bool * Z)) * (N * (bool * Z)))))
                    (o : list N) : bool :=
  let '(size, frags, q) := i in
  let zones := build_zonemap (N.to_nat size) (map (fun f => (fst f, map oval_of (snd f))) frags) in
  list_eqb N.eqb (sortN (zm_search zones (zq_of q))) o.
