(* Proofs about Index/Model_ExprResult.v: every row of the NOT / AND / OR table preserves the guarantee
   of its operands, and so does a whole expression tree. *)
From LanceV Require Import Common.Base Core.Model_Mask Core.Proofs_Mask Index.Model_ExprResult.
Local Open Scope N_scope.

(* the rows a predicate is really true for *)
Definition truth := N -> bool.

(* what an answer claims about the truth *)
Definition sound (r : expr_result) (T : truth) : Prop :=
  match r with
  | Exact m => forall x, selected m x = T x
  | AtMost m => forall x, T x = true -> selected m x = true
  | AtLeast m => forall x, selected m x = true -> T x = true
  end.
Definition result_wf (r : expr_result) : Prop := mask_wf (row_id_mask r).

Ltac bool_finish a b Tl Tr x Hl Hr :=
  specialize (Hl x); specialize (Hr x);
  destruct (selected a x), (selected b x), (Tl x), (Tr x); cbn in *; intuition congruence.

Lemma combine_not_sound r T : result_wf r -> sound r T ->
  sound (combine_not r) (fun x => negb (T x)) /\ result_wf (combine_not r).
Proof.
  unfold result_wf. destruct r as [m|m|m]; cbn [combine_not sound row_id_mask]; intros Hw Hs;
    (split; [|apply mnot_wf; assumption]); intro x; rewrite mnot_selected by assumption;
    specialize (Hs x); destruct (selected m x), (T x); cbn in *; intuition congruence.
Qed.

Lemma combine_and_sound l r Tl Tr : result_wf l -> result_wf r -> sound l Tl -> sound r Tr ->
  sound (combine_and l r) (fun x => Tl x && Tr x) /\ result_wf (combine_and l r).
Proof.
  unfold result_wf.
  destruct l as [a|a|a], r as [b|b|b]; cbn [combine_and sound row_id_mask]; intros Hwa Hwb Hl Hr;
    (split; [|first [apply mand_wf; assumption | assumption]]); intro x;
    rewrite ?mand_selected by assumption; bool_finish a b Tl Tr x Hl Hr.
Qed.

Lemma combine_or_sound l r Tl Tr : result_wf l -> result_wf r -> sound l Tl -> sound r Tr ->
  exists res, combine_or l r = Ok res /\ sound res (fun x => Tl x || Tr x) /\ result_wf res.
Proof.
  unfold result_wf.
  destruct l as [a|a|a], r as [b|b|b]; cbn [combine_or sound row_id_mask]; intros Hwa Hwb Hl Hr.
  all: try (destruct (mor_spec a b Hwa Hwb) as [m [Em [Hwm Hm]]]; rewrite Em; cbn [omap];
            eexists; split; [reflexivity|]; cbn [sound row_id_mask]; split; [|exact Hwm]; intro x; rewrite Hm;
            bool_finish a b Tl Tr x Hl Hr).
  all: eexists; split; [reflexivity|]; cbn [sound row_id_mask]; split; [|assumption]; intro x;
       bool_finish a b Tl Tr x Hl Hr.
Qed.

(* ---- whole trees ---- *)
Fixpoint etruth (tr : N -> truth) (e : iexpr) : truth :=
  match e with
  | ENot i => fun x => negb (etruth tr i x)
  | EAnd a b => fun x => etruth tr a x && etruth tr b x
  | EOr a b => fun x => etruth tr a x || etruth tr b x
  | EQuery leaf => tr leaf
  end.

Fixpoint leaves (e : iexpr) : list N :=
  match e with
  | ENot i => leaves i
  | EAnd a b | EOr a b => leaves a ++ leaves b
  | EQuery leaf => [leaf]
  end.

Definition leaf_map (s : search_result) : treemap :=
  match s with SExact t => t | SAtMost t => t | SAtLeast t => t end.
(* what an index promises about its own answer *)
Definition leaf_sound (s : search_result) (T : truth) : Prop :=
  match s with
  | SExact t => forall x, tm_contains t x = T x
  | SAtMost t => forall x, T x = true -> tm_contains t x = true
  | SAtLeast t => forall x, tm_contains t x = true -> T x = true
  end.

Lemma leaf_result_sound s T : tm_wf (leaf_map s) -> leaf_sound s T ->
  sound (leaf_result s) T /\ result_wf (leaf_result s).
Proof.
  unfold result_wf. destruct s as [t|t|t]; cbn [leaf_map leaf_sound leaf_result sound row_id_mask]; intros Hw Hs;
    (split; [exact Hs | split; [exact Hw | exact I]]).
Qed.

Lemma evaluate_sound load tr e :
  (forall i s, In i (leaves e) -> load i = Ok s -> tm_wf (leaf_map s) /\ leaf_sound s (tr i)) ->
  (forall i, In i (leaves e) -> load i <> Panic) ->
  evaluate load e <> Panic /\
  forall r, evaluate load e = Ok r -> sound r (etruth tr e) /\ result_wf r.
Proof.
  induction e as [i IH|a IHa b IHb|a IHa b IHb|leaf]; intros Hl Hp; cbn [evaluate etruth leaves] in *.
  - destruct (IH Hl Hp) as [Hnp Hok]. destruct (evaluate load i) as [r0| |]; [|split; [discriminate | intros ? [=]]|congruence].
    split; [discriminate|]. intros r [= <-]. destruct (Hok r0 eq_refl) as [Hs Hw].
    apply combine_not_sound; assumption.
  - destruct IHa as [Hnpa Hoka]; [intros; apply Hl; [apply in_or_app; left|]; assumption | intros; apply Hp; apply in_or_app; left; assumption|].
    destruct IHb as [Hnpb Hokb]; [intros; apply Hl; [apply in_or_app; right|]; assumption | intros; apply Hp; apply in_or_app; right; assumption|].
    destruct (evaluate load a) as [ra| |]; destruct (evaluate load b) as [rb| |]; try congruence;
      try (split; [discriminate | intros ? H0; discriminate H0]).
    split; [discriminate|]. intros r [= <-].
    destruct (Hoka ra eq_refl) as [Hsa Hwa]. destruct (Hokb rb eq_refl) as [Hsb Hwb].
    apply combine_and_sound; assumption.
  - destruct IHa as [Hnpa Hoka]; [intros; apply Hl; [apply in_or_app; left|]; assumption | intros; apply Hp; apply in_or_app; left; assumption|].
    destruct IHb as [Hnpb Hokb]; [intros; apply Hl; [apply in_or_app; right|]; assumption | intros; apply Hp; apply in_or_app; right; assumption|].
    destruct (evaluate load a) as [ra| |]; destruct (evaluate load b) as [rb| |]; try congruence;
      try (split; [discriminate | intros ? H0; discriminate H0]).
    destruct (Hoka ra eq_refl) as [Hsa Hwa]. destruct (Hokb rb eq_refl) as [Hsb Hwb].
    destruct (combine_or_sound ra rb _ _ Hwa Hwb Hsa Hsb) as [res [Er [Hsr Hwr]]].
    rewrite Er. split; [discriminate|]. intros r [= <-]. split; assumption.
  - specialize (Hl leaf). specialize (Hp leaf (or_introl eq_refl)).
    destruct (load leaf) as [s| |]; cbn [omap]; [|split; [discriminate | intros ? [=]]|congruence].
    split; [discriminate|]. intros r [= <-]. destruct (Hl s (or_introl eq_refl) eq_refl) as [Hw Hs].
    apply leaf_result_sound; assumption.
Qed.

(* evaluate fails exactly when one of its leaves fails *)
Lemma evaluate_err_iff load tr e :
  (forall i s, In i (leaves e) -> load i = Ok s -> tm_wf (leaf_map s) /\ leaf_sound s (tr i)) ->
  (forall i, In i (leaves e) -> load i <> Panic) ->
  (evaluate load e = Err <-> exists i, In i (leaves e) /\ load i = Err).
Proof.
  induction e as [i IH|a IHa b IHb|a IHa b IHb|leaf]; intros Hl Hp; cbn [evaluate leaves] in *.
  - rewrite <- (IH Hl Hp). destruct (evaluate load i); split; intro H; try discriminate; reflexivity.
  - assert (Hla : forall i s, In i (leaves a) -> load i = Ok s -> tm_wf (leaf_map s) /\ leaf_sound s (tr i)) by (intros; apply Hl; [apply in_or_app; left|]; assumption).
    assert (Hlb : forall i s, In i (leaves b) -> load i = Ok s -> tm_wf (leaf_map s) /\ leaf_sound s (tr i)) by (intros; apply Hl; [apply in_or_app; right|]; assumption).
    assert (Hpa : forall i, In i (leaves a) -> load i <> Panic) by (intros; apply Hp; apply in_or_app; left; assumption).
    assert (Hpb : forall i, In i (leaves b) -> load i <> Panic) by (intros; apply Hp; apply in_or_app; right; assumption).
    pose proof (proj1 (evaluate_sound load tr a Hla Hpa)) as Na. pose proof (proj1 (evaluate_sound load tr b Hlb Hpb)) as Nb.
    specialize (IHa Hla Hpa). specialize (IHb Hlb Hpb).
    destruct (evaluate load a) as [ra| |]; [| |congruence]; (destruct (evaluate load b) as [rb| |]; [| |congruence]).
    + split; [discriminate|]. intros [i [Hi E]]. apply in_app_or in Hi as [Hi|Hi].
      * assert (X : Ok ra = Err) by (apply IHa; exists i; split; assumption). discriminate X.
      * assert (X : Ok rb = Err) by (apply IHb; exists i; split; assumption). discriminate X.
    + split; [intros _|reflexivity]. destruct (proj1 IHb eq_refl) as [i [Hi E]]. exists i. split; [apply in_or_app; right; assumption | assumption].
    + split; [intros _|reflexivity]. destruct (proj1 IHa eq_refl) as [i [Hi E]]. exists i. split; [apply in_or_app; left; assumption | assumption].
    + split; [intros _|reflexivity]. destruct (proj1 IHa eq_refl) as [i [Hi E]]. exists i. split; [apply in_or_app; left; assumption | assumption].
  - assert (Hla : forall i s, In i (leaves a) -> load i = Ok s -> tm_wf (leaf_map s) /\ leaf_sound s (tr i)) by (intros; apply Hl; [apply in_or_app; left|]; assumption).
    assert (Hlb : forall i s, In i (leaves b) -> load i = Ok s -> tm_wf (leaf_map s) /\ leaf_sound s (tr i)) by (intros; apply Hl; [apply in_or_app; right|]; assumption).
    assert (Hpa : forall i, In i (leaves a) -> load i <> Panic) by (intros; apply Hp; apply in_or_app; left; assumption).
    assert (Hpb : forall i, In i (leaves b) -> load i <> Panic) by (intros; apply Hp; apply in_or_app; right; assumption).
    pose proof (evaluate_sound load tr a Hla Hpa) as [Na Oa]. pose proof (evaluate_sound load tr b Hlb Hpb) as [Nb Ob].
    specialize (IHa Hla Hpa). specialize (IHb Hlb Hpb).
    destruct (evaluate load a) as [ra| |]; [| |congruence]; (destruct (evaluate load b) as [rb| |]; [| |congruence]).
    + destruct (Oa ra eq_refl) as [Hsa Hwa]. destruct (Ob rb eq_refl) as [Hsb Hwb].
      destruct (combine_or_sound ra rb _ _ Hwa Hwb Hsa Hsb) as [res [Er _]]. rewrite Er.
      split; [discriminate|]. intros [i [Hi E]]. apply in_app_or in Hi as [Hi|Hi].
      * assert (X : Ok ra = Err) by (apply IHa; exists i; split; assumption). discriminate X.
      * assert (X : Ok rb = Err) by (apply IHb; exists i; split; assumption). discriminate X.
    + split; [intros _|reflexivity]. destruct (proj1 IHb eq_refl) as [i [Hi E]]. exists i. split; [apply in_or_app; right; assumption | assumption].
    + split; [intros _|reflexivity]. destruct (proj1 IHa eq_refl) as [i [Hi E]]. exists i. split; [apply in_or_app; left; assumption | assumption].
    + split; [intros _|reflexivity]. destruct (proj1 IHa eq_refl) as [i [Hi E]]. exists i. split; [apply in_or_app; left; assumption | assumption].
  - specialize (Hp leaf (or_introl eq_refl)).
    destruct (load leaf) as [s| |] eqn:E; cbn [omap]; [| |congruence].
    + split; [discriminate|]. intros [i [[<-|[]] E']]. congruence.
    + split; [intros _|reflexivity]. exists leaf. split; [left; reflexivity | assumption].
Qed.
