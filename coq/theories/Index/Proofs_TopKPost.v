(* C22 - post-filtered searches: `adm_post` (Model_TopK.v) accepts the post-filter of EVERY sorted top-k selection,
   hence the output of `search` with prefilter = false for every heap meeting heap_ok (any tie-breaking at the
   k-th distance).  This is what justifies the acceptance rule of the `search` correspondence stream. *)
From LanceV Require Import Common.Base Index.Model_TopK Index.Proofs_TopK.
From Coq Require Import Permutation Sorted.

Lemma key_leb_ltb_trans : forall a b c, key_leb a b = true -> key_ltb b c = true -> key_ltb a c = true.
Proof.
  intros a b c H1 H2. unfold key_ltb in *. apply negb_true_iff in H2. apply negb_true_iff.
  destruct (key_leb c a) eqn:E; [|reflexivity]. rewrite (key_leb_trans c a b E H1) in H2. discriminate.
Qed.

Lemma nth_error_firstn_lt {A} : forall k (l : list A) n, (n < k)%nat -> nth_error (firstn k l) n = nth_error l n.
Proof.
  induction k as [|k IH]; intros l n H; [lia|]. destruct l as [|x t]; [reflexivity|].
  destruct n as [|n]; [reflexivity|]. cbn [firstn nth_error]. apply IH. lia.
Qed.

Lemma filter_comm {A} (p q : A -> bool) l : filter p (filter q l) = filter q (filter p l).
Proof.
  induction l as [|x t IH]; [reflexivity|]. cbn [filter].
  destruct (q x) eqn:Q, (p x) eqn:P; cbn [filter]; rewrite ?Q, ?P, IH; reflexivity.
Qed.

Lemma filter_filter_and {A} (p q : A -> bool) l : filter p (filter q l) = filter (fun x => q x && p x) l.
Proof.
  induction l as [|x t IH]; [reflexivity|]. cbn [filter].
  destruct (q x) eqn:Q; cbn [filter andb]; [destruct (p x); rewrite IH; reflexivity | exact IH].
Qed.

Lemma filter_split_length {A} (p : A -> bool) l :
  (length (filter p l) + length (filter (fun x => negb (p x)) l))%nat = length l.
Proof. induction l as [|x t IH]; [reflexivity|]. cbn [filter]. destruct (p x); cbn [negb length]; lia. Qed.

Lemma map_const_repeat {A B} (f : A -> B) c l : (forall x, In x l -> f x = c) -> map f l = repeat c (length l).
Proof.
  induction l as [|x t IH]; intros H; [reflexivity|]. cbn [map length repeat].
  rewrite (H x (or_introl eq_refl)), IH; [reflexivity|]. intros y Hy. apply H. right. exact Hy.
Qed.

Lemma filter_app_perm_length {A} (p : A -> bool) l s rest :
  Permutation l (s ++ rest) -> length (filter p l) = (length (filter p s) + length (filter p rest))%nat.
Proof. intros HP. rewrite (filter_perm_length p l (s ++ rest) HP), filter_app, app_length. reflexivity. Qed.

Section AdmPost.
  Variable R : Type.
  Variable d : R -> key.
  Variable flt : R -> bool.

  Notation sortedD := (StronglySorted (fun x y : R => key_leb (d x) (d y) = true)).

  Lemma sorted_keys_id : forall Sl, sortedD Sl -> isort key_leb (map d Sl) = map d Sl.
  Proof. intros Sl H. apply isort_sorted_id, map_sorted, H. Qed.

  Lemma perm_sorted_keys : forall l Sl, Permutation l Sl -> sortedD Sl -> isort key_leb (map d l) = map d Sl.
  Proof.
    intros l Sl HP HS. rewrite <- (sorted_keys_id Sl HS).
    apply (perm_isort_eq key_leb key_leb_total key_leb_trans key_leb_antisym), Permutation_map, HP.
  Qed.

  (* the post-filter of ANY sorted top-k selection of U is accepted *)
  Theorem adm_post_sound : forall k U Sl,
    is_topk key_leb d k U Sl -> sortedD Sl -> adm_post R d flt k U (map d (filter flt Sl)) = true.
  Proof.
    intros k U Sl HT HS. pose proof (is_topk_keys key_leb key_leb_total key_leb_trans d key_leb_antisym k U Sl HT) as HK.
    rewrite (sorted_keys_id Sl HS) in HK.
    destruct HT as (rest & HP & HL & HC).
    assert (LU : length U = (length Sl + length rest)%nat) by (rewrite (Permutation_length HP), app_length; reflexivity).
    unfold adm_post. destruct (Nat.leb_spec (length U) k) as [Hle|Hgt].
    - (* nothing is cut: every ranked row that passes the filter, in order *)
      assert (rest = []) by (destruct rest; [reflexivity | cbn [length] in LU; lia]). subst rest.
      rewrite app_nil_r in HP. apply (list_eqb_eq key_eqb key_eqb_eq). symmetry.
      apply perm_sorted_keys; [apply filter_perm, HP | apply filter_sorted, HS].
    - destruct k as [|k']; [rewrite Nat.min_0_l in HL; destruct Sl; [reflexivity | discriminate]|].
      rewrite Nat.min_l in HL by lia.
      rewrite <- (nth_error_firstn_lt (S k') (isort key_leb (map d U)) k') by lia. rewrite <- HK.
      (* the last element z of Sl carries the cut distance c *)
      assert (Sne : Sl <> []) by (intros ->; discriminate).
      destruct (exists_last Sne) as (S1 & z & ES).
      assert (L1 : length S1 = k') by (rewrite ES, app_length in HL; cbn [length] in HL; lia).
      assert (Ec : nth_error (map d Sl) k' = Some (d z)).
      { rewrite ES, map_app, nth_error_app2 by (rewrite map_length; lia). rewrite map_length, L1, Nat.sub_diag. reflexivity. }
      rewrite Ec. set (c := d z). cbv zeta.
      assert (Hz : In z Sl) by (rewrite ES; apply in_or_app; right; left; reflexivity).
      assert (Sle : forall x, In x Sl -> key_leb (d x) c = true).
      { intros x Hx. rewrite ES in Hx. apply in_app_or in Hx. destruct Hx as [Hx|[<-|[]]]; [|apply key_leb_refl].
        rewrite ES in HS. exact (sorted_app_cross (fun x y => key_leb (d x) (d y)) S1 [z] HS x z Hx (or_introl eq_refl)). }
      assert (Rge : forall y, In y rest -> key_leb c (d y) = true) by (intros y Hy; apply HC; assumption).
      set (lt := fun r : R => key_ltb (d r) c).
      assert (Rlt : forall y, In y rest -> lt y = false).
      { intros y Hy. unfold lt, key_ltb. rewrite (Rge y Hy). reflexivity. }
      assert (Seq : forall x, In x Sl -> lt x = false -> d x = c).
      { intros x Hx Hl. apply key_leb_antisym; [apply Sle, Hx|]. unfold lt in Hl. apply key_ltb_false, Hl. }
      assert (Slt : forall x, lt x = true -> d x <> c).
      { intros x Hl E. unfold lt, key_ltb in Hl. rewrite E, key_leb_refl in Hl. discriminate. }
      (* Sl = the rows strictly below the cut ++ the rows at the cut *)
      pose proof (sorted_filter_split (fun x y : R => key_leb (d x) (d y) = true) lt Sl) as Split.
      specialize (Split (fun x y Hxy Hy => key_leb_ltb_trans _ _ _ Hxy Hy) HS).
      set (SL := filter lt Sl) in *. set (SE := filter (fun x => negb (lt x)) Sl) in *.
      assert (SEc : forall x, In x SE -> d x = c).
      { intros x Hx. apply filter_In in Hx. destruct Hx as [Hx Hn]. apply negb_true_iff in Hn. apply Seq; assumption. }
      assert (LS : (length SL + length SE)%nat = S k') by (rewrite <- HL; apply filter_split_length).
      (* counts over U against counts over Sl *)
      assert (Cless : count_if R lt U = length SL).
      { unfold count_if. rewrite (filter_app_perm_length lt U Sl rest HP), (filter_none lt rest Rlt). cbn [length]. fold SL. lia. }
      set (ep := fun r : R => key_eqb (d r) c && flt r). set (en := fun r : R => key_eqb (d r) c && negb (flt r)).
      assert (Eeq : forall x, In x Sl -> key_eqb (d x) c = negb (lt x)).
      { intros x Hx. destruct (lt x) eqn:El; cbn [negb].
        - destruct (key_eqb (d x) c) eqn:E; [|reflexivity]. apply key_eqb_eq in E. exfalso. exact (Slt x El E).
        - apply key_eqb_eq, Seq; assumption. }
      assert (Cp : length (filter flt SE) = length (filter ep Sl)).
      { unfold SE. rewrite filter_filter_and. f_equal. apply filter_ext_in. intros x Hx. unfold ep. rewrite (Eeq x Hx). reflexivity. }
      assert (Cn : length (filter (fun x => negb (flt x)) SE) = length (filter en Sl)).
      { unfold SE. rewrite filter_filter_and. f_equal. apply filter_ext_in. intros x Hx. unfold en. rewrite (Eeq x Hx). reflexivity. }
      assert (Tp : (length (filter ep Sl) <= count_if R ep U)%nat).
      { unfold count_if. rewrite (filter_app_perm_length ep U Sl rest HP). lia. }
      assert (Tn : (length (filter en Sl) <= count_if R en U)%nat).
      { unfold count_if. rewrite (filter_app_perm_length en U Sl rest HP). lia. }
      pose proof (filter_split_length flt SE) as Fs.
      (* the returned keys *)
      assert (EG : map d (filter flt Sl) = map d (filter flt SL) ++ repeat c (length (filter flt SE))).
      { rewrite Split at 1. rewrite filter_app, map_app. f_equal.
        apply map_const_repeat. intros x Hx. apply SEc. apply filter_In in Hx. apply Hx. }
      assert (ELF : isort key_leb (map d (filter lt (filter flt U))) = map d (filter flt SL)).
      { apply perm_sorted_keys; [|apply filter_sorted, filter_sorted, HS].
        rewrite (filter_comm lt flt U). unfold SL.
        eapply Permutation_trans; [apply filter_perm, filter_perm, HP|].
        rewrite !filter_app, (filter_none lt rest Rlt). cbn [filter]. rewrite app_nil_r. apply Permutation_refl. }
      fold lt. fold ep. fold en. rewrite ELF, Cless.
      assert (Em : (length (map d (filter flt Sl)) - length (map d (filter flt SL)))%nat = length (filter flt SE)).
      { rewrite EG, app_length, repeat_length. lia. }
      rewrite Em. apply andb_true_iff. split; [apply andb_true_iff; split|].
      + apply (list_eqb_eq key_eqb key_eqb_eq). exact EG.
      + apply Nat.leb_le. lia.
      + apply Nat.leb_le. apply Nat.min_glb; lia.
  Qed.
End AdmPost.

(* ---- Scanner::nearest with prefilter = false and a filter, for EVERY heap meeting heap_ok: the reported keys are
   accepted by adm_post over the ranked rows `universe`, and every returned row is a ranked row. *)
Section SearchPost.
  Variable R : Type.
  Variable rid : R -> N.
  Variables d da : R -> key.
  Variables deleted flt : R -> bool.
  Variable peek : list R -> option R.
  Variable pop : list R -> list R.
  Hypothesis hok : heap_ok da peek pop.

  Lemma search_post_admissible : forall ef k refine np me fast ui deltas fresh rows b,
    refine <> Some 0%nat ->
    (ui = true -> forall r, In r (idx_rows R deleted flt me false np deltas) -> da r = d r /\ nonnull R d r = true) ->
    search R rid d da deleted flt peek pop ef k refine np me true false fast ui deltas fresh = Ok (rows, b) ->
    adm_post R d flt k (universe R d deleted flt np me false fast ui deltas fresh) (map d rows) = true /\
    (forall r, In r rows -> In r (universe R d deleted flt np me false fast ui deltas fresh) /\ flt r = true).
  Proof.
    intros ef k refine np me fast ui deltas fresh rows b Hrf Hidx H. unfold search in H.
    destruct k as [|k']; [discriminate|].
    destruct (vector_search R rid d da deleted flt peek pop ef (S k') refine np me false fast ui deltas fresh) as [[rows' b']| |] eqn:E; try discriminate.
    inversion H; subst rows b. clear H.
    rewrite (filter_ext (fun r => negb true || flt r) flt) by (intros r; reflexivity).
    pose proof (vsearch_sorted R rid d da deleted flt peek pop _ _ _ _ _ _ _ _ _ _ _ _ E) as Hs.
    assert (T : is_topk key_leb d (S k') (universe R d deleted flt np me false fast ui deltas fresh) rows' /\
                StronglySorted (fun x y => key_leb (d x) (d y) = true) rows').
    { destruct ui.
      - pose proof (vsearch_index_topk R rid d da deleted flt peek pop hok _ _ _ _ _ _ _ _ _ _ _ Hrf (Hidx eq_refl) E) as HT.
        split; [exact HT|]. destruct b'; [exact Hs|].
        apply (sorted_ext_in da d); [|exact Hs]. intros x Hx.
        destruct (vsearch_members R rid d da deleted flt peek pop hok _ _ _ _ _ _ _ _ _ _ _ _ E x Hx) as [[_ Hi]|(Hf & Hin & _)].
        + apply (Hidx eq_refl), Hi.
        + (* a fresh row in the output forces the recomputed distance: b' = true *)
          exfalso. destruct fast; [cbn in Hf; discriminate|].
          destruct fresh as [|f0 ft]; [destruct Hin|]. unfold vector_search in E.
          destruct refine as [[|n]|]; [congruence | |];
            (destruct (ann _ _ _ _ _ _ _ _ _ _ _ _ _); discriminate).
      - destruct (vsearch_flat_topk R rid d da deleted flt peek pop _ _ _ _ _ _ _ _ _ _ _ E) as [-> HT].
        split; [exact HT | exact Hs]. }
    destruct T as [HT HS]. split.
    - apply adm_post_sound; assumption.
    - intros r Hr. apply filter_In in Hr. destruct Hr as [Hr Hf]. split; [|exact Hf].
      eapply is_topk_incl; [exact HT | exact Hr].
  Qed.
End SearchPost.
