(* Proofs about Index/Model_ScalarExpr.v (C19; the generic part is reused by C20). *)
From LanceV Require Import Common.Base Core.Model_Mask Core.Proofs_Mask Index.Model_ExprResult Index.Proofs_ExprResult
  Index.Model_ScalarExpr.
Local Open Scope N_scope.

(* ================================================================ small facts *)
Lemma find_map_some {A B} (f : A -> option B) l y : find_map f l = Some y -> exists x, In x l /\ f x = Some y.
Proof.
  induction l as [|a tl IH]; cbn [find_map]; [discriminate|].
  destruct (f a) as [b|] eqn:E.
  - intros [= <-]. exists a. split; [left; reflexivity | exact E].
  - intro H. destruct (IH H) as [x [Hi Hx]]. exists x. split; [right; exact Hi | exact Hx].
Qed.

Lemma is_true_and3 a b : is_true (and3 a b) = is_true a && is_true b.
Proof. destruct a as [[|]|], b as [[|]|]; reflexivity. Qed.
Lemma is_true_or3 a b : is_true (or3 a b) = is_true a || is_true b.
Proof. destruct a as [[|]|], b as [[|]|]; reflexivity. Qed.

Lemma maybe_indexed_column_some info t c ci :
  maybe_indexed_column info t = Some (c, ci) -> t = TCol c /\ info c = Some ci.
Proof.
  destruct t as [c0|l|k]; cbn [maybe_indexed_column]; try discriminate.
  destruct (info c0) as [ci0|] eqn:E; [|discriminate]. intros [= <- <-]. split; [reflexivity | exact E].
Qed.

Lemma maybe_scalar_some t l : maybe_scalar t = Some l -> t = TLit l.
Proof. destruct t; cbn [maybe_scalar]; try discriminate. intros [= <-]. reflexivity. Qed.

Lemma maybe_scalar_list_some ts vs : maybe_scalar_list ts = Some vs -> ts = map TLit vs.
Proof.
  revert vs. induction ts as [|t tl IH]; intros vs; cbn [maybe_scalar_list].
  - intros [= <-]. reflexivity.
  - destruct (maybe_scalar t) as [v|] eqn:E; [|discriminate].
    destruct (maybe_scalar_list tl) as [vs0|]; [|discriminate]. intros [= <-].
    cbn [map]. rewrite (maybe_scalar_some _ _ E), (IH vs0 eq_refl). reflexivity.
Qed.

(* ================================================================ the translator never builds an empty node *)
Definition has_sq (ie : iexp) : Prop := scalar_query ie <> None.

Lemma has_sq_leaf c i q rc : has_sq (index_query_with_recheck c i q rc).
Proof. unfold has_sq. cbn. discriminate. Qed.

Lemma p_visit_between_sq c ip lo hi ie : p_visit_between c ip lo hi = Some ie -> has_sq ie.
Proof.
  unfold p_visit_between. destruct (snd ip); try discriminate.
  destruct (bnd_is_null lo); [discriminate|]. destruct (bnd_is_null hi); [discriminate|].
  intros [= <-]. apply has_sq_leaf.
Qed.
Lemma p_visit_in_list_sq c ip vs ie : p_visit_in_list c ip vs = Some ie -> has_sq ie.
Proof.
  unfold p_visit_in_list. destruct (snd ip); try discriminate.
  - destruct (existsb lit_is_null vs); [discriminate|]. intros [= <-]. apply has_sq_leaf.
  - intros [= <-]. apply has_sq_leaf.
Qed.
Lemma p_visit_is_bool_sq c ip v ie : p_visit_is_bool c ip v = Some ie -> has_sq ie.
Proof. unfold p_visit_is_bool. destruct (snd ip); try discriminate; intros [= <-]; apply has_sq_leaf. Qed.
Lemma p_visit_is_null_sq c ip ie : p_visit_is_null c ip = Some ie -> has_sq ie.
Proof. unfold p_visit_is_null. destruct (snd ip); try discriminate; intros [= <-]; apply has_sq_leaf. Qed.
Lemma p_visit_comparison_sq c ip v op ie : p_visit_comparison c ip v op = Some ie -> has_sq ie.
Proof.
  unfold p_visit_comparison. destruct (snd ip); try discriminate.
  - destruct (lit_is_null v); [discriminate|]. intros [= <-]. apply has_sq_leaf.
  - destruct op; try discriminate; intros [= <-]; apply has_sq_leaf.
Qed.
Lemma p_visit_scalar_function_sq c ip f arg ie : p_visit_scalar_function c ip f arg = Some ie -> has_sq ie.
Proof.
  unfold p_visit_scalar_function. destruct (snd ip); try discriminate.
  - destruct arg as [[|v]|]; try discriminate. destruct f; try discriminate; intros [= <-]; apply has_sq_leaf.
  - destruct arg as [[|v]|]; try discriminate. destruct f; try discriminate; intros [= <-]; apply has_sq_leaf.
Qed.

Lemma find_map_sq {A} (f : A -> option iexp) l ie :
  (forall x y, f x = Some y -> has_sq y) -> find_map f l = Some ie -> has_sq ie.
Proof. intros H E. destruct (find_map_some _ _ _ E) as [x [_ Hx]]. exact (H _ _ Hx). Qed.

Lemma maybe_not_sq x : has_sq x ->
  maybe_not x <> Panic /\ maybe_not x <> Err /\ forall y, maybe_not x = Ok (Some y) -> has_sq y.
Proof.
  unfold has_sq, maybe_not. destruct (scalar_query x) as [sq|]; [|congruence]. intros _.
  destruct (refine_expr x).
  - repeat split; try discriminate.
  - destruct (s_needs_recheck sq); repeat split; try discriminate. intros y [= <-]. cbn. discriminate.
Qed.

Lemma negate_if_sq neg o : (forall ie, o = Some ie -> has_sq ie) ->
  negate_if neg o <> Panic /\ negate_if neg o <> Err /\ forall y, negate_if neg o = Ok (Some y) -> has_sq y.
Proof.
  intros H. unfold negate_if. destruct o as [ie|].
  - destruct neg.
    + apply maybe_not_sq. apply H. reflexivity.
    + repeat split; try discriminate. intros y [= <-]. apply H. reflexivity.
  - repeat split; try discriminate.
Qed.

Lemma maybe_range_sq info a b ie : maybe_range info a b = Some ie -> has_sq ie.
Proof.
  unfold maybe_range. destruct a; try discriminate. destruct b; try discriminate.
  destruct (maybe_indexed_column info l) as [[lc ci]|]; [|discriminate].
  destruct (maybe_column l0); [|discriminate]. destruct (negb (lc =? n)); [discriminate|].
  destruct (maybe_scalar r); [|discriminate]. destruct (maybe_scalar r0); [|discriminate].
  match goal with |- match ?b with _ => _ end = _ -> _ => destruct b as [[lo hi]|] end; [|discriminate].
  apply find_map_sq. intros x y. apply p_visit_between_sq.
Qed.

Lemma ie_and_sq x y : has_sq x -> has_sq (ie_and x y).
Proof. unfold has_sq, ie_and. cbn. destruct (scalar_query x), (scalar_query y); cbn; congruence. Qed.
Lemma ie_refine_sq x e : has_sq x -> has_sq (ie_refine x e).
Proof. unfold has_sq, ie_refine. destruct (refine_expr x); cbn; auto. Qed.
Lemma maybe_or_sq x y z : maybe_or x y = Some z -> has_sq z.
Proof.
  unfold maybe_or, has_sq. destruct (scalar_query x); [|discriminate]. destruct (scalar_query y); [|discriminate].
  destruct (refine_expr x); [discriminate|]. destruct (refine_expr y); [discriminate|]. intros [= <-]. cbn. discriminate.
Qed.

Lemma visit_node_unfold info e depth :
  visit_node info e depth =
  if MAX_DEPTH <=? depth then Err
  else
    match e with
    | XBetween neg t lo hi => visit_between info neg t lo hi
    | XCol c => Ok (visit_column info c)
    | XInList neg t items => visit_in_list info neg t items
    | XIsFalse x => Ok (visit_is_bool info x false)
    | XIsTrue x => Ok (visit_is_bool info x true)
    | XIsNull t => visit_is_null info t false
    | XIsNotNull t => visit_is_null info t true
    | XNot x =>
        match visit_node info x (depth + 1) with
        | Ok (Some node) => maybe_not node
        | Ok None => Ok None
        | Err => Err
        | Panic => Panic
        end
    | XCmp op l r =>
        match op with
        | ONotEq => negate_if true (visit_comparison info op l r)
        | _ => Ok (visit_comparison info op l r)
        end
    | XAnd a b =>
        match maybe_range info a b with
        | Some range_expr => Ok (Some range_expr)
        | None =>
            match visit_node info a (depth + 1) with
            | Ok lft =>
                match visit_node info b (depth + 1) with
                | Ok rgt =>
                    Ok (match lft, rgt with
                        | Some l, Some r => Some (ie_and l r)
                        | Some l, None => Some (ie_refine l b)
                        | None, Some r => Some (ie_refine r a)
                        | None, None => None
                        end)
                | Err => Err
                | Panic => Panic
                end
            | Err => Err
            | Panic => Panic
            end
        end
    | XOr a b =>
        match visit_node info a (depth + 1) with
        | Ok lft =>
            match visit_node info b (depth + 1) with
            | Ok rgt =>
                Ok (match lft, rgt with
                    | Some l, Some r => maybe_or l r
                    | _, _ => None
                    end)
            | Err => Err
            | Panic => Panic
            end
        | Err => Err
        | Panic => Panic
        end
    | XFn f t arg => Ok (visit_scalar_fn info f t arg)
    | XOther _ => Ok None
    end.
Proof. destruct e; reflexivity. Qed.

Ltac triv3 := split; [discriminate | split; [discriminate | intros ? [=]]].

(* results of the leaf visitors carry a scalar query *)
Lemma visit_between_sq info neg t lo hi :
  visit_between info neg t lo hi <> Panic /\ visit_between info neg t lo hi <> Err /\
  forall y, visit_between info neg t lo hi = Ok (Some y) -> has_sq y.
Proof.
  unfold visit_between. destruct (maybe_indexed_column info t) as [[c ci]|]; [|triv3].
  destruct (maybe_scalar lo); [|triv3]. destruct (maybe_scalar hi); [|triv3].
  apply negate_if_sq. intros ie. apply find_map_sq. intros x y. apply p_visit_between_sq.
Qed.
Lemma visit_in_list_sq info neg t items :
  visit_in_list info neg t items <> Panic /\ visit_in_list info neg t items <> Err /\
  forall y, visit_in_list info neg t items = Ok (Some y) -> has_sq y.
Proof.
  unfold visit_in_list. destruct (maybe_indexed_column info t) as [[c ci]|]; [|triv3].
  destruct (maybe_scalar_list items); [|triv3].
  apply negate_if_sq. intros ie. apply find_map_sq. intros x y. apply p_visit_in_list_sq.
Qed.
Lemma visit_is_null_sq info t neg :
  visit_is_null info t neg <> Panic /\ visit_is_null info t neg <> Err /\
  forall y, visit_is_null info t neg = Ok (Some y) -> has_sq y.
Proof.
  unfold visit_is_null. destruct (maybe_indexed_column info t) as [[c ci]|]; [|triv3].
  apply negate_if_sq. intros ie. apply find_map_sq. intros x y. apply p_visit_is_null_sq.
Qed.
Lemma visit_is_bool_sq info x v ie : visit_is_bool info x v = Some ie -> has_sq ie.
Proof.
  unfold visit_is_bool. destruct x; try discriminate. destruct (info c) as [ci|]; [|discriminate].
  destruct (ci_bool ci); [|discriminate]. apply find_map_sq. intros a b. apply p_visit_is_bool_sq.
Qed.
Lemma visit_column_sq info c ie : visit_column info c = Some ie -> has_sq ie.
Proof.
  unfold visit_column. destruct (info c) as [ci|]; [|discriminate].
  destruct (ci_bool ci); [|discriminate]. apply find_map_sq. intros a b. apply p_visit_is_bool_sq.
Qed.
Lemma visit_comparison_sq info op l r ie : visit_comparison info op l r = Some ie -> has_sq ie.
Proof.
  unfold visit_comparison. destruct (maybe_indexed_column info l) as [[c ci]|]; [|discriminate].
  destruct (maybe_scalar r); [|discriminate]. apply find_map_sq. intros a b. apply p_visit_comparison_sq.
Qed.
Lemma visit_scalar_fn_sq info f t arg ie : visit_scalar_fn info f t arg = Some ie -> has_sq ie.
Proof.
  unfold visit_scalar_fn. destruct (maybe_indexed_column info t) as [[c ci]|]; [|discriminate].
  apply find_map_sq. intros a b. apply p_visit_scalar_function_sq.
Qed.

(* visit_node never panics, and every node it returns has an index part *)
Lemma visit_node_sq info e : forall depth,
  visit_node info e depth <> Panic /\ forall ie, visit_node info e depth = Ok (Some ie) -> has_sq ie.
Proof.
  induction e as [c|op l r|neg t lo hi|neg t items|t|t|x IH|x IH|x IH|a IHa b IHb|a IHa b IHb|f t arg|k];
    intro depth; rewrite visit_node_unfold; destruct (MAX_DEPTH <=? depth); try (split; [discriminate | intros ? [=]]).
  - split; [discriminate|]. intros ie [= E]. exact (visit_column_sq _ _ _ E).
  - destruct op; try (split; [discriminate|]; intros ie [= E]; exact (visit_comparison_sq _ _ _ _ _ E)).
    destruct (negate_if_sq true (visit_comparison info ONotEq l r)) as [H1 [_ H3]];
      [intros ie E; exact (visit_comparison_sq _ _ _ _ _ E) | split; assumption].
  - destruct (visit_between_sq info neg t lo hi) as [H1 [_ H3]]. split; assumption.
  - destruct (visit_in_list_sq info neg t items) as [H1 [_ H3]]. split; assumption.
  - destruct (visit_is_null_sq info t false) as [H1 [_ H3]]. split; assumption.
  - destruct (visit_is_null_sq info t true) as [H1 [_ H3]]. split; assumption.
  - split; [discriminate|]. intros ie [= E]. exact (visit_is_bool_sq _ _ _ _ E).
  - split; [discriminate|]. intros ie [= E]. exact (visit_is_bool_sq _ _ _ _ E).
  - destruct (IH (depth + 1)) as [Hp Hs]. destruct (visit_node info x (depth + 1)) as [[node|]| |]; try congruence;
      try (split; [discriminate | intros ? [=]]).
    destruct (maybe_not_sq node (Hs node eq_refl)) as [H1 [_ H3]]. split; assumption.
  - destruct (maybe_range info a b) as [re|] eqn:Er.
    + split; [discriminate|]. intros ie [= <-]. exact (maybe_range_sq _ _ _ _ Er).
    + destruct (IHa (depth + 1)) as [Hpa Hsa]. destruct (IHb (depth + 1)) as [Hpb Hsb].
      destruct (visit_node info a (depth + 1)) as [lft| |]; try congruence; try (split; [discriminate | intros ? [=]]).
      destruct (visit_node info b (depth + 1)) as [rgt| |]; try congruence; try (split; [discriminate | intros ? [=]]).
      split; [discriminate|]. intros ie [= E]. destruct lft as [l|], rgt as [r|]; try discriminate; injection E as <-.
      * apply ie_and_sq. apply Hsa. reflexivity.
      * apply ie_refine_sq. apply Hsa. reflexivity.
      * apply ie_refine_sq. apply Hsb. reflexivity.
  - destruct (IHa (depth + 1)) as [Hpa Hsa]. destruct (IHb (depth + 1)) as [Hpb Hsb].
    destruct (visit_node info a (depth + 1)) as [lft| |]; try congruence; try (split; [discriminate | intros ? [=]]).
    destruct (visit_node info b (depth + 1)) as [rgt| |]; try congruence; try (split; [discriminate | intros ? [=]]).
    split; [discriminate|]. intros ie [= E]. destruct lft as [l|], rgt as [r|]; try discriminate.
    exact (maybe_or_sq _ _ _ E).
  - split; [discriminate|]. intros ie [= E]. exact (visit_scalar_fn_sq _ _ _ _ _ E).
Qed.

(* depth: the translator fails only on trees nested 500 deep *)
Lemma visit_node_no_err info e : forall depth, depth + sdepth e < MAX_DEPTH -> visit_node info e depth <> Err.
Proof.
  induction e as [c|op l r|neg t lo hi|neg t items|t|t|x IH|x IH|x IH|a IHa b IHb|a IHa b IHb|f t arg|k];
    intros depth Hd; rewrite visit_node_unfold; cbn [sdepth] in Hd;
    (destruct (MAX_DEPTH <=? depth) eqn:El; [apply N.leb_le in El; lia|]); try discriminate.
  - destruct op; try discriminate.
    destruct (negate_if_sq true (visit_comparison info ONotEq l r)) as [_ [H2 _]];
      [intros ie E; exact (visit_comparison_sq _ _ _ _ _ E) | exact H2].
  - apply visit_between_sq.
  - apply visit_in_list_sq.
  - apply visit_is_null_sq.
  - apply visit_is_null_sq.
  - assert (Hx : visit_node info x (depth + 1) <> Err) by (apply IH; lia).
    destruct (visit_node_sq info x (depth + 1)) as [_ Hs].
    destruct (visit_node info x (depth + 1)) as [[node|]| |]; try congruence; try discriminate.
    apply maybe_not_sq. apply Hs. reflexivity.
  - destruct (maybe_range info a b); [discriminate|].
    assert (Ha : visit_node info a (depth + 1) <> Err) by (apply IHa; lia).
    assert (Hb : visit_node info b (depth + 1) <> Err) by (apply IHb; lia).
    destruct (visit_node info a (depth + 1)); try congruence; try discriminate.
    destruct (visit_node info b (depth + 1)); try congruence; discriminate.
  - assert (Ha : visit_node info a (depth + 1) <> Err) by (apply IHa; lia).
    assert (Hb : visit_node info b (depth + 1) <> Err) by (apply IHb; lia).
    destruct (visit_node info a (depth + 1)); try congruence; try discriminate.
    destruct (visit_node info b (depth + 1)); try congruence; discriminate.
Qed.
