(* Proofs about Index/Model_ScalarExpr.v (C19; the generic part is reused by C20). *)
From LanceV Require Import Common.Base Core.Model_Mask Core.Proofs_Mask Index.Model_ExprResult Index.Proofs_ExprResult
  Index.Model_ScalarExpr.
Local Open Scope N_scope.

(* ================================================================ small facts *)
Lemma find_map_some {A B} (f : A -> option B) l y : find_map f l = Some y -> exists x, In x l /\ f x = Some y.
Proof.
  induction l as [|a tl IH]; cbn [find_map]; [discriminate|].
  destruct (f a) as [b|] eqn:E.
  - intros [= <-]. exists a. split; [left; reflexivity | exact E].
  - intro H. destruct (IH H) as [x [Hi Hx]]. exists x. split; [right; exact Hi | exact Hx].
Qed.

Lemma is_true_and3 a b : is_true (and3 a b) = is_true a && is_true b.
Proof. destruct a as [[|]|], b as [[|]|]; reflexivity. Qed.
Lemma is_true_some b : is_true (Some b) = b.
Proof. destruct b; reflexivity. Qed.
Lemma is_true_or3 a b : is_true (or3 a b) = is_true a || is_true b.
Proof. destruct a as [[|]|], b as [[|]|]; reflexivity. Qed.

Lemma maybe_indexed_column_some info t c ci :
  maybe_indexed_column info t = Some (c, ci) -> t = TCol c /\ info c = Some ci.
Proof.
  destruct t as [c0|l|k]; cbn [maybe_indexed_column]; try discriminate.
  destruct (info c0) as [ci0|] eqn:E; [|discriminate]. intros [= <- <-]. split; [reflexivity | exact E].
Qed.

Lemma maybe_scalar_some t l : maybe_scalar t = Some l -> t = TLit l.
Proof. destruct t; cbn [maybe_scalar]; try discriminate. intros [= <-]. reflexivity. Qed.

Lemma maybe_scalar_list_some ts vs : maybe_scalar_list ts = Some vs -> ts = map TLit vs.
Proof.
  revert vs. induction ts as [|t tl IH]; intros vs; cbn [maybe_scalar_list].
  - intros [= <-]. reflexivity.
  - destruct (maybe_scalar t) as [v|] eqn:E; [|discriminate].
    destruct (maybe_scalar_list tl) as [vs0|]; [|discriminate]. intros [= <-].
    cbn [map]. rewrite (maybe_scalar_some _ _ E), (IH vs0 eq_refl). reflexivity.
Qed.

(* ================================================================ the translator never builds an empty node *)
Definition has_sq (ie : iexp) : Prop := scalar_query ie <> None.

Lemma has_sq_leaf c i q rc : has_sq (index_query_with_recheck c i q rc).
Proof. unfold has_sq. cbn. discriminate. Qed.

Lemma p_visit_between_sq c ip lo hi ie : p_visit_between c ip lo hi = Some ie -> has_sq ie.
Proof.
  unfold p_visit_between. destruct (snd ip); try discriminate.
  destruct (bnd_is_null lo); [discriminate|]. destruct (bnd_is_null hi); [discriminate|].
  intros [= <-]. apply has_sq_leaf.
Qed.
Lemma p_visit_in_list_sq c ip vs ie : p_visit_in_list c ip vs = Some ie -> has_sq ie.
Proof.
  unfold p_visit_in_list. destruct (snd ip); try discriminate.
  - destruct (existsb lit_is_null vs); [discriminate|]. intros [= <-]. apply has_sq_leaf.
  - intros [= <-]. apply has_sq_leaf.
Qed.
Lemma p_visit_is_bool_sq c ip v ie : p_visit_is_bool c ip v = Some ie -> has_sq ie.
Proof. unfold p_visit_is_bool. destruct (snd ip); try discriminate; intros [= <-]; apply has_sq_leaf. Qed.
Lemma p_visit_is_null_sq c ip ie : p_visit_is_null c ip = Some ie -> has_sq ie.
Proof. unfold p_visit_is_null. destruct (snd ip); try discriminate; intros [= <-]; apply has_sq_leaf. Qed.
Lemma p_visit_comparison_sq c ip v op ie : p_visit_comparison c ip v op = Some ie -> has_sq ie.
Proof.
  unfold p_visit_comparison. destruct (snd ip); try discriminate.
  - destruct (lit_is_null v); [discriminate|]. intros [= <-]. apply has_sq_leaf.
  - destruct op; try discriminate; intros [= <-]; apply has_sq_leaf.
Qed.
Lemma p_visit_scalar_function_sq c ip f arg ie : p_visit_scalar_function c ip f arg = Some ie -> has_sq ie.
Proof.
  unfold p_visit_scalar_function. destruct (snd ip); try discriminate.
  - destruct arg as [[|v]|]; try discriminate. destruct f; try discriminate; intros [= <-]; apply has_sq_leaf.
  - destruct arg as [[|v]|]; try discriminate. destruct f; try discriminate; intros [= <-]; apply has_sq_leaf.
Qed.

Lemma find_map_sq {A} (f : A -> option iexp) l ie :
  (forall x y, f x = Some y -> has_sq y) -> find_map f l = Some ie -> has_sq ie.
Proof. intros H E. destruct (find_map_some _ _ _ E) as [x [_ Hx]]. exact (H _ _ Hx). Qed.

Lemma maybe_not_sq x : has_sq x ->
  maybe_not x <> Panic /\ maybe_not x <> Err /\ forall y, maybe_not x = Ok (Some y) -> has_sq y.
Proof.
  unfold has_sq, maybe_not. destruct (scalar_query x) as [sq|]; [|congruence]. intros _.
  destruct (refine_expr x).
  - repeat split; try discriminate.
  - destruct (s_needs_recheck sq); repeat split; try discriminate. intros y [= <-]. cbn. discriminate.
Qed.

Lemma negate_if_sq neg o : (forall ie, o = Some ie -> has_sq ie) ->
  negate_if neg o <> Panic /\ negate_if neg o <> Err /\ forall y, negate_if neg o = Ok (Some y) -> has_sq y.
Proof.
  intros H. unfold negate_if. destruct o as [ie|].
  - destruct neg.
    + apply maybe_not_sq. apply H. reflexivity.
    + repeat split; try discriminate. intros y [= <-]. apply H. reflexivity.
  - repeat split; try discriminate.
Qed.

Lemma maybe_range_sq info a b ie : maybe_range info a b = Some ie -> has_sq ie.
Proof.
  unfold maybe_range. destruct a; try discriminate. destruct b; try discriminate.
  destruct (maybe_indexed_column info l) as [[lc ci]|]; [|discriminate].
  destruct (maybe_column l0); [|discriminate]. destruct (negb (lc =? n)); [discriminate|].
  destruct (maybe_scalar r); [|discriminate]. destruct (maybe_scalar r0); [|discriminate].
  match goal with |- match ?b with _ => _ end = _ -> _ => destruct b as [[lo hi]|] end; [|discriminate].
  apply find_map_sq. intros x y. apply p_visit_between_sq.
Qed.

Lemma ie_and_sq x y : has_sq x -> has_sq (ie_and x y).
Proof. unfold has_sq, ie_and. cbn. destruct (scalar_query x), (scalar_query y); cbn; congruence. Qed.
Lemma ie_refine_sq x e : has_sq x -> has_sq (ie_refine x e).
Proof. unfold has_sq, ie_refine. destruct (refine_expr x); cbn; auto. Qed.
Lemma maybe_or_sq x y z : maybe_or x y = Some z -> has_sq z.
Proof.
  unfold maybe_or, has_sq. destruct (scalar_query x); [|discriminate]. destruct (scalar_query y); [|discriminate].
  destruct (refine_expr x); [discriminate|]. destruct (refine_expr y); [discriminate|]. intros [= <-]. cbn. discriminate.
Qed.

Lemma visit_node_unfold info e depth :
  visit_node info e depth =
  if MAX_DEPTH <=? depth then Err
  else
    match e with
    | XBetween neg t lo hi => visit_between info neg t lo hi
    | XCol c => Ok (visit_column info c)
    | XInList neg t items => visit_in_list info neg t items
    | XIsFalse x => Ok (visit_is_bool info x false)
    | XIsTrue x => Ok (visit_is_bool info x true)
    | XIsNull t => visit_is_null info t false
    | XIsNotNull t => visit_is_null info t true
    | XNot x =>
        match visit_node info x (depth + 1) with
        | Ok (Some node) => maybe_not node
        | Ok None => Ok None
        | Err => Err
        | Panic => Panic
        end
    | XCmp op l r =>
        match op with
        | ONotEq => negate_if true (visit_comparison info op l r)
        | _ => Ok (visit_comparison info op l r)
        end
    | XAnd a b =>
        match maybe_range info a b with
        | Some range_expr => Ok (Some range_expr)
        | None =>
            match visit_node info a (depth + 1) with
            | Ok lft =>
                match visit_node info b (depth + 1) with
                | Ok rgt =>
                    Ok (match lft, rgt with
                        | Some l, Some r => Some (ie_and l r)
                        | Some l, None => Some (ie_refine l b)
                        | None, Some r => Some (ie_refine r a)
                        | None, None => None
                        end)
                | Err => Err
                | Panic => Panic
                end
            | Err => Err
            | Panic => Panic
            end
        end
    | XOr a b =>
        match visit_node info a (depth + 1) with
        | Ok lft =>
            match visit_node info b (depth + 1) with
            | Ok rgt =>
                Ok (match lft, rgt with
                    | Some l, Some r => maybe_or l r
                    | _, _ => None
                    end)
            | Err => Err
            | Panic => Panic
            end
        | Err => Err
        | Panic => Panic
        end
    | XFn f t arg => Ok (visit_scalar_fn info f t arg)
    | XOther _ => Ok None
    end.
Proof. destruct e; reflexivity. Qed.

Ltac triv3 := split; [discriminate | split; [discriminate | intros ? [=]]].

(* results of the leaf visitors carry a scalar query *)
Lemma visit_between_sq info neg t lo hi :
  visit_between info neg t lo hi <> Panic /\ visit_between info neg t lo hi <> Err /\
  forall y, visit_between info neg t lo hi = Ok (Some y) -> has_sq y.
Proof.
  unfold visit_between. destruct (maybe_indexed_column info t) as [[c ci]|]; [|triv3].
  destruct (maybe_scalar lo); [|triv3]. destruct (maybe_scalar hi); [|triv3].
  apply negate_if_sq. intros ie. apply find_map_sq. intros x y. apply p_visit_between_sq.
Qed.
Lemma visit_in_list_sq info neg t items :
  visit_in_list info neg t items <> Panic /\ visit_in_list info neg t items <> Err /\
  forall y, visit_in_list info neg t items = Ok (Some y) -> has_sq y.
Proof.
  unfold visit_in_list. destruct (maybe_indexed_column info t) as [[c ci]|]; [|triv3].
  destruct (maybe_scalar_list items); [|triv3].
  apply negate_if_sq. intros ie. apply find_map_sq. intros x y. apply p_visit_in_list_sq.
Qed.
Lemma visit_is_null_sq info t neg :
  visit_is_null info t neg <> Panic /\ visit_is_null info t neg <> Err /\
  forall y, visit_is_null info t neg = Ok (Some y) -> has_sq y.
Proof.
  unfold visit_is_null. destruct (maybe_indexed_column info t) as [[c ci]|]; [|triv3].
  apply negate_if_sq. intros ie. apply find_map_sq. intros x y. apply p_visit_is_null_sq.
Qed.
Lemma visit_is_bool_sq info x v ie : visit_is_bool info x v = Some ie -> has_sq ie.
Proof.
  unfold visit_is_bool. destruct x; try discriminate. destruct (info c) as [ci|]; [|discriminate].
  destruct (ci_bool ci); [|discriminate]. apply find_map_sq. intros a b. apply p_visit_is_bool_sq.
Qed.
Lemma visit_column_sq info c ie : visit_column info c = Some ie -> has_sq ie.
Proof.
  unfold visit_column. destruct (info c) as [ci|]; [|discriminate].
  destruct (ci_bool ci); [|discriminate]. apply find_map_sq. intros a b. apply p_visit_is_bool_sq.
Qed.
Lemma visit_comparison_sq info op l r ie : visit_comparison info op l r = Some ie -> has_sq ie.
Proof.
  unfold visit_comparison. destruct (maybe_indexed_column info l) as [[c ci]|]; [|discriminate].
  destruct (maybe_scalar r); [|discriminate]. apply find_map_sq. intros a b. apply p_visit_comparison_sq.
Qed.
Lemma visit_scalar_fn_sq info f t arg ie : visit_scalar_fn info f t arg = Some ie -> has_sq ie.
Proof.
  unfold visit_scalar_fn. destruct (maybe_indexed_column info t) as [[c ci]|]; [|discriminate].
  apply find_map_sq. intros a b. apply p_visit_scalar_function_sq.
Qed.

(* visit_node never panics, and every node it returns has an index part *)
Lemma visit_node_sq info e : forall depth,
  visit_node info e depth <> Panic /\ forall ie, visit_node info e depth = Ok (Some ie) -> has_sq ie.
Proof.
  induction e as [c|op l r|neg t lo hi|neg t items|t|t|x IH|x IH|x IH|a IHa b IHb|a IHa b IHb|f t arg|k];
    intro depth; rewrite visit_node_unfold; destruct (MAX_DEPTH <=? depth); try solve [split; [discriminate | intros ? [=]]].
  - split; [discriminate|]. intros ie [= E]. exact (visit_column_sq _ _ _ E).
  - destruct op; try (split; [discriminate|]; intros ie [= E]; exact (visit_comparison_sq _ _ _ _ _ E)).
    destruct (negate_if_sq true (visit_comparison info ONotEq l r)) as [H1 [_ H3]];
      [intros ie E; exact (visit_comparison_sq _ _ _ _ _ E) | split; assumption].
  - destruct (visit_between_sq info neg t lo hi) as [H1 [_ H3]]. split; assumption.
  - destruct (visit_in_list_sq info neg t items) as [H1 [_ H3]]. split; assumption.
  - destruct (visit_is_null_sq info t false) as [H1 [_ H3]]. split; assumption.
  - destruct (visit_is_null_sq info t true) as [H1 [_ H3]]. split; assumption.
  - split; [discriminate|]. intros ie [= E]. exact (visit_is_bool_sq _ _ _ _ E).
  - split; [discriminate|]. intros ie [= E]. exact (visit_is_bool_sq _ _ _ _ E).
  - destruct (IH (depth + 1)) as [Hp Hs]. destruct (visit_node info x (depth + 1)) as [[node|]| |]; try congruence;
      try solve [split; [discriminate | intros ? [=]]].
    destruct (maybe_not_sq node (Hs node eq_refl)) as [H1 [_ H3]]. split; assumption.
  - destruct (maybe_range info a b) as [re|] eqn:Er.
    + split; [discriminate|]. intros ie [= <-]. exact (maybe_range_sq _ _ _ _ Er).
    + destruct (IHa (depth + 1)) as [Hpa Hsa]. destruct (IHb (depth + 1)) as [Hpb Hsb].
      destruct (visit_node info a (depth + 1)) as [lft| |]; try congruence; try solve [split; [discriminate | intros ? [=]]].
      destruct (visit_node info b (depth + 1)) as [rgt| |]; try congruence; try solve [split; [discriminate | intros ? [=]]].
      split; [discriminate|]. intros ie [= E]. destruct lft as [l|], rgt as [r|]; try discriminate; injection E as <-.
      * apply ie_and_sq. apply Hsa. reflexivity.
      * apply ie_refine_sq. apply Hsa. reflexivity.
      * apply ie_refine_sq. apply Hsb. reflexivity.
  - destruct (IHa (depth + 1)) as [Hpa Hsa]. destruct (IHb (depth + 1)) as [Hpb Hsb].
    destruct (visit_node info a (depth + 1)) as [lft| |]; try congruence; try solve [split; [discriminate | intros ? [=]]].
    destruct (visit_node info b (depth + 1)) as [rgt| |]; try congruence; try solve [split; [discriminate | intros ? [=]]].
    split; [discriminate|]. intros ie [= E]. destruct lft as [l|], rgt as [r|]; try discriminate.
    exact (maybe_or_sq _ _ _ E).
  - split; [discriminate|]. intros ie [= E]. exact (visit_scalar_fn_sq _ _ _ _ _ E).
Qed.

(* depth: the translator fails only on trees nested 500 deep *)
Lemma visit_node_no_err info e : forall depth, depth + sdepth e < MAX_DEPTH -> visit_node info e depth <> Err.
Proof.
  induction e as [c|op l r|neg t lo hi|neg t items|t|t|x IH|x IH|x IH|a IHa b IHb|a IHa b IHb|f t arg|k];
    intros depth Hd; rewrite visit_node_unfold; cbn [sdepth] in Hd;
    (destruct (MAX_DEPTH <=? depth) eqn:El; [apply N.leb_le in El; lia|]); try discriminate.
  - destruct op; try discriminate.
    destruct (negate_if_sq true (visit_comparison info ONotEq l r)) as [_ [H2 _]];
      [intros ie E; exact (visit_comparison_sq _ _ _ _ _ E) | exact H2].
  - apply visit_between_sq.
  - apply visit_in_list_sq.
  - apply visit_is_null_sq.
  - apply visit_is_null_sq.
  - assert (Hx : visit_node info x (depth + 1) <> Err) by (apply IH; lia).
    destruct (visit_node_sq info x (depth + 1)) as [_ Hs].
    destruct (visit_node info x (depth + 1)) as [[node|]| |]; try congruence; try discriminate.
    apply maybe_not_sq. apply Hs. reflexivity.
  - destruct (maybe_range info a b); [discriminate|].
    assert (Ha : visit_node info a (depth + 1) <> Err) by (apply IHa; lia).
    assert (Hb : visit_node info b (depth + 1) <> Err) by (apply IHb; lia).
    destruct (visit_node info a (depth + 1)); try congruence; try discriminate.
    destruct (visit_node info b (depth + 1)); try congruence; discriminate.
  - assert (Ha : visit_node info a (depth + 1) <> Err) by (apply IHa; lia).
    assert (Hb : visit_node info b (depth + 1) <> Err) by (apply IHb; lia).
    destruct (visit_node info a (depth + 1)); try congruence; try discriminate.
    destruct (visit_node info b (depth + 1)); try congruence; discriminate.
Qed.

(* ================================================================ the translation preserves the SQL meaning *)
Lemma row_ok_bool info r c ci z : row_ok info r = true -> info c = Some ci -> ci_bool ci = true ->
  val r c = Some z -> z = 0%Z \/ z = 1%Z.
Proof.
  intros Hok Hi Hb Hv. unfold row_ok in Hok. rewrite forallb_forall in Hok.
  assert (Hin : In c (columns_of r)).
  { unfold columns_of. apply in_map_iff. exists (N.to_nat c). split; [apply N2Nat.id|]. apply in_seq.
    unfold val in Hv. destruct (Nat.lt_ge_cases (N.to_nat c) (length (rvals r))) as [Hl|Hl]; [lia|].
    rewrite nth_overflow in Hv by exact Hl. discriminate. }
  specialize (Hok c Hin). rewrite Hi, Hv, Hb in Hok. lia.
Qed.

Section Translate.
Variable en : env.
Variable info : index_info.

Fixpoint struth (r : rowT) (e : sidx) : bool :=
  match e with
  | SNot a => negb (struth r a)
  | SAnd a b => struth r a && struth r b
  | SOr a b => struth r a || struth r b
  | SQuery l => qmatch en (l_query l) (val r (l_col l))
  end.

Definition parsers_ok : Prop :=
  forall c ci ip, info c = Some ci -> In ip (ci_parsers ci) -> parser_ok (snd ip) = true.
Definition fn_definite : Prop := forall f x a, fn_sem en f (Some x) (Some a) <> None.

Hypothesis Hpar : parsers_ok.
Hypothesis Hfn : fn_definite.

(* [t] is the SQL value of the visited expression on row r, [n3] tells whether a three-valued leaf on an
   indexed column that is NULL in r occurs in it *)
Definition sound_tv (r : rowT) (t : tv) (n3 : bool) (ie : iexp) : Prop :=
  exists sq, scalar_query ie = Some sq /\
    is_true t = struth r sq && opt_true en r (refine_expr ie) /\
    (refine_expr ie = None -> s_needs_recheck sq = false -> n3 = false -> t = Some (struth r sq)).

Lemma sound_tv_leaf r t n3 c i q rc :
  is_true t = qmatch en q (val r c) ->
  (rc = false -> n3 = false -> t = Some (qmatch en q (val r c))) ->
  sound_tv r t n3 (index_query_with_recheck c i q rc).
Proof.
  intros HA HB. eexists. split; [reflexivity|]. cbn [refine_expr index_query_with_recheck opt_true struth l_query l_col s_needs_recheck l_recheck].
  split; [rewrite andb_true_r; exact HA|]. intros _ Hrc Hn. apply HB; assumption.
Qed.

Lemma maybe_not_sound r t n3 n3' ie y :
  sound_tv r t n3 ie -> n3 = false -> maybe_not ie = Ok (Some y) -> sound_tv r (not3 t) n3' y.
Proof.
  intros [sq [Hsq [HA HB]]] Hn. unfold maybe_not. rewrite Hsq.
  destruct (refine_expr ie) eqn:Er; [discriminate|].
  destruct (s_needs_recheck sq) eqn:Erc; [discriminate|]. intros [= <-].
  specialize (HB eq_refl eq_refl Hn). subst t.
  exists (SNot sq). split; [reflexivity|]. cbn [refine_expr opt_true struth not3 is_true s_needs_recheck].
  split; [destruct (struth r sq); reflexivity|]. intros _ _ _. reflexivity.
Qed.

Lemma negate_if_false_sound r t n3 o y : (forall ie, o = Some ie -> sound_tv r t n3 ie) ->
  negate_if false o = Ok (Some y) -> sound_tv r t n3 y.
Proof. unfold negate_if. destruct o; [|discriminate]. intros H [= <-]. apply H. reflexivity. Qed.

Lemma negate_if_true_sound r t n3 n3' o y : (forall ie, o = Some ie -> sound_tv r t n3 ie) -> n3 = false ->
  negate_if true o = Ok (Some y) -> sound_tv r (not3 t) n3' y.
Proof.
  unfold negate_if. destruct o as [ie|]; [|discriminate]. intros H Hn E.
  exact (maybe_not_sound r t n3 n3' ie y (H ie eq_refl) Hn E).
Qed.

Lemma col_null_indexed_col r c ci : info c = Some ci ->
  col_null_indexed info r (TCol c) = match val r c with None => true | Some _ => false end.
Proof. intro H. cbn [col_null_indexed]. rewrite H. reflexivity. Qed.

(* ---- comparisons *)
Lemma visit_comparison_noteq l rt : visit_comparison info ONotEq l rt = visit_comparison info OEq l rt.
Proof. reflexivity. Qed.

Lemma visit_comparison_sound r op l rt ie : op <> ONotEq ->
  visit_comparison info op l rt = Some ie ->
  sound_tv r (cmp3 op (eval_term en r l) (eval_term en r rt)) (col_null_indexed info r l) ie.
Proof.
  intros Hop. unfold visit_comparison.
  destruct (maybe_indexed_column info l) as [[c ci]|] eqn:El; [|discriminate].
  destruct (maybe_indexed_column_some _ _ _ _ El) as [-> Hi].
  destruct (maybe_scalar rt) as [v|] eqn:Ev; [|discriminate]. rewrite (maybe_scalar_some _ _ Ev).
  intro Ef. destruct (find_map_some _ _ _ Ef) as [ip [Hin Hp]].
  specialize (Hpar c ci ip Hi Hin). rewrite (col_null_indexed_col r c ci Hi).
  cbn [eval_term]. unfold p_visit_comparison in Hp. destruct (snd ip) as [rc|rc| |rc]; try discriminate.
  - destruct v as [|z]; cbn [lit_is_null] in Hp; [discriminate|]. injection Hp as <-.
    apply sound_tv_leaf; destruct (val r c) as [x|]; destruct op; try congruence;
      cbn [cmp3 lit_val qmatch above below cmp_holds lit_eqb_val]; rewrite ?is_true_some; intros; try reflexivity; try discriminate;
      rewrite ?andb_true_l, ?andb_true_r, ?(Z.eqb_sym x z); reflexivity.
  - cbn [parser_ok] in Hpar. subst rc. destruct op; try congruence; try discriminate. injection Hp as <-.
    apply sound_tv_leaf; [|discriminate].
    destruct (val r c) as [x|], v as [|z]; cbn [cmp3 lit_val qmatch lit_eqb_val cmp_holds]; rewrite ?is_true_some; try reflexivity.
    apply Z.eqb_sym.
Qed.

Lemma not3_cmp_eq a b : not3 (cmp3 OEq a b) = cmp3 ONotEq a b.
Proof. destruct a, b; reflexivity. Qed.

(* ---- BETWEEN *)
Lemma p_visit_between_sound r c ci ip lv hv ie : info c = Some ci -> In ip (ci_parsers ci) ->
  p_visit_between c ip (BIncl lv) (BIncl hv) = Some ie ->
  sound_tv r (and3 (cmp3 OGtEq (val r c) (lit_val lv)) (cmp3 OLtEq (val r c) (lit_val hv)))
           (match val r c with None => true | Some _ => false end) ie.
Proof.
  intros Hi Hin. unfold p_visit_between. destruct (snd ip) as [rc|rc| |rc]; try discriminate.
  destruct lv as [|lz]; cbn [bnd_is_null lit_is_null]; [discriminate|].
  destruct hv as [|hz]; cbn [bnd_is_null lit_is_null]; [discriminate|]. intros [= <-].
  apply sound_tv_leaf; destruct (val r c) as [x|]; cbn [cmp3 lit_val and3 is_true qmatch above below cmp_holds];
    intros; try reflexivity; try discriminate.
  - destruct (lz <=? x)%Z, (x <=? hz)%Z; reflexivity.
  - destruct (lz <=? x)%Z, (x <=? hz)%Z; reflexivity.
Qed.

(* ---- IN *)
Lemma in3_true x vs : is_true (in3 x (map lit_val vs)) = existsb (fun l => lit_eqb_val l x) vs.
Proof.
  induction vs as [|v tl IH]; [reflexivity|]. destruct v as [|z]; cbn [map lit_val in3 existsb lit_eqb_val].
  - rewrite <- IH. destruct (in3 x (map lit_val tl)) as [[|]|]; reflexivity.
  - rewrite (Z.eqb_sym x z). destruct (z =? x)%Z; [reflexivity | exact IH].
Qed.
Lemma in3_definite x vs : existsb lit_is_null vs = false ->
  in3 x (map lit_val vs) = Some (existsb (fun l => lit_eqb_val l x) vs).
Proof.
  induction vs as [|v tl IH]; [reflexivity|]. destruct v as [|z]; cbn [map lit_val in3 existsb lit_eqb_val lit_is_null orb].
  - discriminate.
  - intro H. rewrite (Z.eqb_sym x z). destruct (z =? x)%Z; [reflexivity | exact (IH H)].
Qed.
Lemma map_eval_lits r vs : map (eval_term en r) (map TLit vs) = map lit_val vs.
Proof. rewrite map_map. reflexivity. Qed.

Lemma p_visit_in_list_sound r c ci ip vs ie : info c = Some ci -> In ip (ci_parsers ci) ->
  p_visit_in_list c ip vs = Some ie ->
  sound_tv r (inlist3 (val r c) (map lit_val vs)) (match val r c with None => true | Some _ => false end) ie.
Proof.
  intros Hi Hin. specialize (Hpar c ci ip Hi Hin). unfold p_visit_in_list.
  destruct (snd ip) as [rc|rc| |rc]; try discriminate.
  - destruct (existsb lit_is_null vs) eqn:En; [discriminate|]. intros [= <-].
    apply sound_tv_leaf; destruct (val r c) as [x|]; cbn [inlist3 qmatch is_true]; intros; try reflexivity; try discriminate.
    + apply in3_true.
    + apply in3_definite. exact En.
  - cbn [parser_ok] in Hpar. subst rc. intros [= <-].
    apply sound_tv_leaf; [|discriminate]. destruct (val r c) as [x|]; cbn [inlist3 qmatch is_true]; [apply in3_true | reflexivity].
Qed.

(* ---- IS NULL *)
Lemma p_visit_is_null_sound r c ip n3 ie : p_visit_is_null c ip = Some ie ->
  sound_tv r (Some (match val r c with None => true | Some _ => false end)) n3 ie.
Proof.
  unfold p_visit_is_null. destruct (snd ip) as [rc|rc| |rc]; try discriminate; intros [= <-];
    apply sound_tv_leaf; destruct (val r c); intros; reflexivity.
Qed.

(* ---- Boolean columns *)
Lemma p_visit_is_bool_sound r c ci ip (b : bool) ie : row_ok info r = true -> info c = Some ci -> ci_bool ci = true ->
  p_visit_is_bool c ip b = Some ie ->
  (* the two-valued tests `c IS TRUE` / `c IS FALSE` *)
  (forall n3, sound_tv r (Some (match bool_of_val (val r c) with Some v => Bool.eqb v b | None => false end)) n3 ie) /\
  (* the bare column (b = true): NULL when the column is NULL *)
  (b = true -> sound_tv r (bool_of_val (val r c)) (match val r c with None => true | Some _ => false end) ie).
Proof.
  intros Hok Hi Hb. unfold p_visit_is_bool.
  assert (Hq : forall x, val r c = Some x -> lit_eqb_val (bool_lit b) x = Bool.eqb (x =? 1)%Z b).
  { intros x Hx. destruct (row_ok_bool _ _ _ _ _ Hok Hi Hb Hx) as [-> | ->]; destruct b; reflexivity. }
  destruct (snd ip) as [rc|rc| |rc]; try discriminate; intros [= <-]; (split; [intro n3|intros ->]);
    apply sound_tv_leaf; destruct (val r c) as [x|] eqn:Ex; cbn [bool_of_val qmatch]; rewrite ?is_true_some; intros;
    try reflexivity; try discriminate; rewrite ?(Hq x eq_refl); try reflexivity;
    destruct (x =? 1)%Z; reflexivity.
Qed.

(* ---- scalar functions *)
Lemma p_visit_scalar_function_sound r c ci ip f arg ie : info c = Some ci -> In ip (ci_parsers ci) ->
  p_visit_scalar_function c ip f (maybe_scalar arg) = Some ie ->
  sound_tv r (fn_sem en f (val r c) (eval_term en r arg)) (match val r c with None => true | Some _ => false end) ie.
Proof.
  intros Hi Hin. unfold p_visit_scalar_function.
  assert (Hdef : forall g v, match val r c with Some _ => false | None => true end = false ->
            fn_sem en g (val r c) (Some v) = Some (is_true (fn_sem en g (val r c) (Some v)))).
  { intros g v Hn. destruct (val r c) as [x|]; [|discriminate].
    destruct (fn_sem en g (Some x) (Some v)) as [[|]|] eqn:Ef; try reflexivity. exfalso. exact (Hfn _ _ _ Ef). }
  destruct (snd ip) as [rc|rc| |rc]; try discriminate.
  - destruct (maybe_scalar arg) as [[|v]|] eqn:Ea; try discriminate. rewrite (maybe_scalar_some _ _ Ea). cbn [eval_term lit_val].
    destruct f; try discriminate; intros [= <-]; apply sound_tv_leaf; cbn [qmatch lit_val]; try reflexivity;
      intros _ Hn; apply Hdef; exact Hn.
  - destruct (maybe_scalar arg) as [[|v]|] eqn:Ea; try discriminate. rewrite (maybe_scalar_some _ _ Ea). cbn [eval_term lit_val].
    destruct f; try discriminate; intros [= <-]; apply sound_tv_leaf; cbn [qmatch lit_val]; try reflexivity;
      intros _ Hn; apply Hdef; exact Hn.
Qed.

(* ---- x >= a AND x < b fused into one range *)
Lemma maybe_range_sound r a b ie : maybe_range info a b = Some ie ->
  sound_tv r (and3 (eval en r a) (eval en r b)) (nulls3 info r a || nulls3 info r b) ie.
Proof.
  unfold maybe_range.
  destruct a as [ | opl ll lr | | | | | | | | | | | ]; try discriminate.
  destruct b as [ | opr rl rr | | | | | | | | | | | ]; try discriminate.
  destruct (maybe_indexed_column info ll) as [[lc ci]|] eqn:El; [|discriminate].
  destruct (maybe_indexed_column_some _ _ _ _ El) as [-> Hi].
  destruct (maybe_column rl) as [rc|] eqn:Erl; [|discriminate].
  destruct rl as [rc'| |]; try discriminate. injection Erl as ->.
  destruct (lc =? rc) eqn:Ec; cbn [negb]; [|discriminate]. apply N.eqb_eq in Ec. subst rc.
  destruct (maybe_scalar lr) as [lv|] eqn:Elv; [|discriminate]. rewrite (maybe_scalar_some _ _ Elv).
  destruct (maybe_scalar rr) as [rv|] eqn:Erv; [|discriminate]. rewrite (maybe_scalar_some _ _ Erv).
  cbn [nulls3]. rewrite (col_null_indexed_col r lc ci Hi), orb_diag. cbn [eval eval_term].
  assert (Hgen : forall lo hi, find_map (fun ip => p_visit_between lc ip lo hi) (ci_parsers ci) = Some ie ->
            exists i rcq, ie = index_query_with_recheck lc i (QRange lo hi) rcq /\ bnd_is_null lo = false /\ bnd_is_null hi = false).
  { intros lo hi Ef. destruct (find_map_some _ _ _ Ef) as [ip [_ Hp]]. unfold p_visit_between in Hp.
    destruct (snd ip) as [rcq|rcq| |rcq]; try discriminate.
    destruct (bnd_is_null lo); [discriminate|]. destruct (bnd_is_null hi); [discriminate|]. injection Hp as <-.
    exists (fst ip), rcq. repeat split. }
  destruct opl, opr; try discriminate; intros Ef; destruct (Hgen _ _ Ef) as [i [rcq [-> [Hlo Hhi]]]];
    cbn [bnd_is_null] in Hlo, Hhi;
    destruct lv as [|lz]; try discriminate; destruct rv as [|rz]; try discriminate;
    apply sound_tv_leaf; destruct (val r lc) as [x|]; cbn [cmp3 lit_val and3 qmatch above below cmp_holds];
    intros; try reflexivity; try discriminate;
    repeat match goal with |- context [(?p <? ?q)%Z] => destruct (Z.ltb_spec p q) end;
    repeat match goal with |- context [(?p <=? ?q)%Z] => destruct (Z.leb_spec p q) end;
    try reflexivity; exfalso; lia.
Qed.

(* ---- AND / OR / refine *)
Lemma ie_and_sound r ta tb na nb x y : sound_tv r ta na x -> sound_tv r tb nb y ->
  sound_tv r (and3 ta tb) (na || nb) (ie_and x y).
Proof.
  intros [sa [Ea [HAa HBa]]] [sb [Eb [HAb HBb]]]. exists (SAnd sa sb). unfold ie_and. rewrite Ea, Eb.
  split; [reflexivity|]. cbn [scalar_query refine_expr opt_combine struth s_needs_recheck].
  split.
  - rewrite is_true_and3, HAa, HAb. destruct (refine_expr x), (refine_expr y); cbn [opt_combine opt_true eval];
      rewrite ?is_true_and3; destruct (struth r sa), (struth r sb); cbn [andb]; try reflexivity;
      rewrite ?andb_true_r, ?andb_false_r; reflexivity.
  - destruct (refine_expr x), (refine_expr y); cbn [opt_combine]; try discriminate.
    intros _ Hrc Hn. apply orb_false_iff in Hrc as [Hra Hrb]. apply orb_false_iff in Hn as [Hna Hnb].
    rewrite (HBa eq_refl Hra Hna), (HBb eq_refl Hrb Hnb). destruct (struth r sa), (struth r sb); reflexivity.
Qed.

Lemma ie_refine_sound_l r ta tb na n x e : sound_tv r ta na x -> tb = eval en r e ->
  sound_tv r (and3 ta tb) n (ie_refine x e).
Proof.
  intros [sa [Ea [HAa _]]] ->. exists sa. unfold ie_refine.
  destruct (refine_expr x) as [rf|] eqn:Er; cbn [scalar_query refine_expr]; (split; [exact Ea|]); (split; [|discriminate]);
    rewrite is_true_and3, HAa; cbn [opt_true eval]; rewrite ?is_true_and3, ?andb_true_r, ?andb_assoc; reflexivity.
Qed.
Lemma ie_refine_sound_r r ta tb nb n y e : sound_tv r tb nb y -> ta = eval en r e ->
  sound_tv r (and3 ta tb) n (ie_refine y e).
Proof.
  intros [sb [Eb [HAb _]]] ->. exists sb. unfold ie_refine.
  destruct (refine_expr y) as [rf|] eqn:Er; cbn [scalar_query refine_expr]; (split; [exact Eb|]); (split; [|discriminate]);
    rewrite is_true_and3, HAb; cbn [opt_true eval]; rewrite ?is_true_and3, ?andb_true_r.
  - destruct (is_true (eval en r e)), (struth r sb), (is_true (eval en r rf)); reflexivity.
  - apply andb_comm.
Qed.

Lemma maybe_or_sound r ta tb na nb x y z : sound_tv r ta na x -> sound_tv r tb nb y -> maybe_or x y = Some z ->
  sound_tv r (or3 ta tb) (na || nb) z.
Proof.
  intros [sa [Ea [HAa HBa]]] [sb [Eb [HAb HBb]]]. unfold maybe_or. rewrite Ea, Eb.
  destruct (refine_expr x) eqn:Erx; [discriminate|]. destruct (refine_expr y) eqn:Ery; [discriminate|]. intros [= <-].
  exists (SOr sa sb). split; [reflexivity|]. cbn [scalar_query refine_expr opt_true struth s_needs_recheck]. split.
  - rewrite is_true_or3, HAa, HAb. cbn [opt_true]. rewrite !andb_true_r. reflexivity.
  - intros _ Hrc Hn. apply orb_false_iff in Hrc as [Hra Hrb]. apply orb_false_iff in Hn as [Hna Hnb].
    rewrite (HBa eq_refl Hra Hna), (HBb eq_refl Hrb Hnb). destruct (struth r sa), (struth r sb); reflexivity.
Qed.

(* a negation over a NULL-valued leaf is in particular a NULL-valued leaf *)
Lemma neg_over_null_nulls3 r e : neg_over_null info r e = true -> nulls3 info r e = true.
Proof.
  induction e as [c|op l rt|neg t lo hi|neg t items|t|t|x IH|x IH|x IH|a IHa b IHb|a IHa b IHb|f t arg|k];
    cbn [neg_over_null nulls3]; try discriminate; try tauto.
  - destruct op; try discriminate; tauto.
  - destruct neg; [tauto | discriminate].
  - destruct neg; [tauto | discriminate].
  - intro H. apply orb_true_iff in H as [H|H]; apply orb_true_iff; [left; apply IHa | right; apply IHb]; exact H.
  - intro H. apply orb_true_iff in H as [H|H]; apply orb_true_iff; [left; apply IHa | right; apply IHb]; exact H.
Qed.

(* the main lemma: whatever visit_node returns means, row by row, what the SQL predicate means - outside
   the two finding classes *)
Lemma visit_node_sound r : row_ok info r = true -> forall e depth ie,
  visit_node info e depth = Ok (Some ie) ->
  neg_over_null info r e = false ->
  sound_tv r (eval en r e) (nulls3 info r e) ie.
Proof.
  intros Hok.
  induction e as [c|op l rt|neg t lo hi|neg t items|t|t|x IH|x IH|x IH|a IHa b IHb|a IHa b IHb|f t arg|k];
    intros depth ie; rewrite visit_node_unfold; (destruct (MAX_DEPTH <=? depth); [discriminate|]);
    cbn [neg_over_null nulls3 eval].
  - (* bare column *) intros [= E] _. unfold visit_column in E.
    destruct (info c) as [ci|] eqn:Hi; [|discriminate]. destruct (ci_bool ci) eqn:Hb; [|discriminate].
    destruct (find_map_some _ _ _ E) as [ip [Hin Hp]].
    rewrite (col_null_indexed_col r c ci Hi).
    exact (proj2 (p_visit_is_bool_sound r c ci ip true ie Hok Hi Hb Hp) eq_refl).
  - (* comparison *) destruct op.
    + intros [= E] _. apply visit_comparison_sound; [discriminate | exact E].
    + intros E Hn. rewrite visit_comparison_noteq in E. rewrite <- not3_cmp_eq.
      eapply negate_if_true_sound; [|exact Hn|exact E].
      intros ie0 E0. apply visit_comparison_sound; [discriminate | exact E0].
    + intros [= E] _. apply visit_comparison_sound; [discriminate | exact E].
    + intros [= E] _. apply visit_comparison_sound; [discriminate | exact E].
    + intros [= E] _. apply visit_comparison_sound; [discriminate | exact E].
    + intros [= E] _. apply visit_comparison_sound; [discriminate | exact E].
  - (* BETWEEN *) unfold visit_between.
    destruct (maybe_indexed_column info t) as [[c ci]|] eqn:Et; [|discriminate].
    destruct (maybe_indexed_column_some _ _ _ _ Et) as [-> Hi].
    destruct (maybe_scalar lo) as [lv|] eqn:El; [|discriminate]. rewrite (maybe_scalar_some _ _ El).
    destruct (maybe_scalar hi) as [hv|] eqn:Eh; [|discriminate]. rewrite (maybe_scalar_some _ _ Eh).
    rewrite (col_null_indexed_col r c ci Hi). cbn [eval_term].
    assert (Hleaf : forall ie0, find_map (fun ip => p_visit_between c ip (BIncl lv) (BIncl hv)) (ci_parsers ci) = Some ie0 ->
              sound_tv r (and3 (cmp3 OGtEq (val r c) (lit_val lv)) (cmp3 OLtEq (val r c) (lit_val hv)))
                       (match val r c with None => true | Some _ => false end) ie0).
    { intros ie0 E0. destruct (find_map_some _ _ _ E0) as [ip [Hin Hp]]. exact (p_visit_between_sound r c ci ip lv hv ie0 Hi Hin Hp). }
    destruct neg; intros E Hn.
    + eapply negate_if_true_sound; [exact Hleaf | exact Hn | exact E].
    + eapply negate_if_false_sound; [exact Hleaf | exact E].
  - (* IN *) unfold visit_in_list.
    destruct (maybe_indexed_column info t) as [[c ci]|] eqn:Et; [|discriminate].
    destruct (maybe_indexed_column_some _ _ _ _ Et) as [-> Hi].
    destruct (maybe_scalar_list items) as [vs|] eqn:Ei; [|discriminate]. rewrite (maybe_scalar_list_some _ _ Ei).
    rewrite (col_null_indexed_col r c ci Hi), map_eval_lits. cbn [eval_term].
    assert (Hleaf : forall ie0, find_map (fun ip => p_visit_in_list c ip vs) (ci_parsers ci) = Some ie0 ->
              sound_tv r (inlist3 (val r c) (map lit_val vs)) (match val r c with None => true | Some _ => false end) ie0).
    { intros ie0 E0. destruct (find_map_some _ _ _ E0) as [ip [Hin Hp]]. exact (p_visit_in_list_sound r c ci ip vs ie0 Hi Hin Hp). }
    destruct neg; intros E Hn.
    + eapply negate_if_true_sound; [exact Hleaf | exact Hn | exact E].
    + eapply negate_if_false_sound; [exact Hleaf | exact E].
  - (* IS NULL *) unfold visit_is_null.
    destruct (maybe_indexed_column info t) as [[c ci]|] eqn:Et; [|discriminate].
    destruct (maybe_indexed_column_some _ _ _ _ Et) as [-> Hi]. cbn [eval_term]. intros E _.
    eapply negate_if_false_sound; [|exact E]. intros ie0 E0.
    destruct (find_map_some _ _ _ E0) as [ip [Hin Hp]]. exact (p_visit_is_null_sound r c ip false ie0 Hp).
  - (* IS NOT NULL *) unfold visit_is_null.
    destruct (maybe_indexed_column info t) as [[c ci]|] eqn:Et; [|discriminate].
    destruct (maybe_indexed_column_some _ _ _ _ Et) as [-> Hi]. cbn [eval_term]. intros E _.
    replace (Some (match val r c with None => false | Some _ => true end))
      with (not3 (Some (match val r c with None => true | Some _ => false end))) by (destruct (val r c); reflexivity).
    eapply (negate_if_true_sound r _ false); [|reflexivity|exact E]. intros ie0 E0.
    destruct (find_map_some _ _ _ E0) as [ip [Hin Hp]]. exact (p_visit_is_null_sound r c ip false ie0 Hp).
  - (* IS TRUE *) intros [= E] _. unfold visit_is_bool in E. destruct x as [c| | | | | | | | | | | | ]; try discriminate.
    destruct (info c) as [ci|] eqn:Hi; [|discriminate]. destruct (ci_bool ci) eqn:Hb; [|discriminate].
    destruct (find_map_some _ _ _ E) as [ip [Hin Hp]]. cbn [eval].
    replace (Some (match bool_of_val (val r c) with Some true => true | _ => false end))
      with (Some (match bool_of_val (val r c) with Some v => Bool.eqb v true | None => false end))
      by (destruct (bool_of_val (val r c)) as [[|]|]; reflexivity).
    apply (proj1 (p_visit_is_bool_sound r c ci ip true ie Hok Hi Hb Hp)).
  - (* IS FALSE *) intros [= E] _. unfold visit_is_bool in E. destruct x as [c| | | | | | | | | | | | ]; try discriminate.
    destruct (info c) as [ci|] eqn:Hi; [|discriminate]. destruct (ci_bool ci) eqn:Hb; [|discriminate].
    destruct (find_map_some _ _ _ E) as [ip [Hin Hp]]. cbn [eval].
    replace (Some (match bool_of_val (val r c) with Some false => true | _ => false end))
      with (Some (match bool_of_val (val r c) with Some v => Bool.eqb v false | None => false end))
      by (destruct (bool_of_val (val r c)) as [[|]|]; reflexivity).
    apply (proj1 (p_visit_is_bool_sound r c ci ip false ie Hok Hi Hb Hp)).
  - (* NOT *) intros E Hn.
    destruct (visit_node info x (depth + 1)) as [[node|]| |] eqn:Ex; try discriminate.
    assert (Hn' : neg_over_null info r x = false).
    { destruct (neg_over_null info r x) eqn:En; [|reflexivity]. rewrite (neg_over_null_nulls3 r x En) in Hn. discriminate. }
    exact (maybe_not_sound r _ _ _ node ie (IH (depth + 1) node Ex Hn') Hn E).
  - (* AND *) intros E Hn. destruct (maybe_range info a b) as [re|] eqn:Er.
    + injection E as <-. apply maybe_range_sound. exact Er.
    + apply orb_false_iff in Hn as [Hna Hnb].
      destruct (visit_node info a (depth + 1)) as [lft| |] eqn:Ea; try discriminate.
      destruct (visit_node info b (depth + 1)) as [rgt| |] eqn:Eb; try discriminate.
      injection E as E. destruct lft as [l|], rgt as [rg|]; try discriminate; injection E as <-.
      * apply ie_and_sound; [exact (IHa _ _ Ea Hna) | exact (IHb _ _ Eb Hnb)].
      * eapply ie_refine_sound_l; [exact (IHa _ _ Ea Hna) | reflexivity].
      * eapply ie_refine_sound_r; [exact (IHb _ _ Eb Hnb) | reflexivity].
  - (* OR *) intros E Hn. apply orb_false_iff in Hn as [Hna Hnb].
    destruct (visit_node info a (depth + 1)) as [lft| |] eqn:Ea; try discriminate.
    destruct (visit_node info b (depth + 1)) as [rgt| |] eqn:Eb; try discriminate.
    injection E as E. destruct lft as [l|], rgt as [rg|]; try discriminate.
    exact (maybe_or_sound r _ _ _ _ l rg ie (IHa _ _ Ea Hna) (IHb _ _ Eb Hnb) E).
  - (* scalar function *) intros [= E] _. unfold visit_scalar_fn in E.
    destruct (maybe_indexed_column info t) as [[c ci]|] eqn:Et; [|discriminate].
    destruct (maybe_indexed_column_some _ _ _ _ Et) as [-> Hi].
    destruct (find_map_some _ _ _ E) as [ip [Hin Hp]].
    rewrite (col_null_indexed_col r c ci Hi). cbn [eval_term].
    exact (p_visit_scalar_function_sound r c ci ip f arg ie Hi Hin Hp).
  - discriminate.
Qed.
End Translate.

(* ================================================================ evaluation of the numbered tree (C21's evaluate) *)
Lemma number_snd e : forall n, snd (number e n) = s_leaves e.
Proof.
  induction e as [a IH|a IHa b IHb|a IHa b IHb|l]; intro n; cbn [number s_leaves].
  - specialize (IH n). destruct (number a n) as [ia la]. exact IH.
  - specialize (IHa n). destruct (number a n) as [ia la]. cbn [snd] in IHa. subst la.
    specialize (IHb (n + llen (s_leaves a))). destruct (number b (n + llen (s_leaves a))) as [ib lb]. cbn [snd] in *. subst lb. reflexivity.
  - specialize (IHa n). destruct (number a n) as [ia la]. cbn [snd] in IHa. subst la.
    specialize (IHb (n + llen (s_leaves a))). destruct (number b (n + llen (s_leaves a))) as [ib lb]. cbn [snd] in *. subst lb. reflexivity.
  - reflexivity.
Qed.

Section Eval.
Variable search : leaf -> outcome search_result.
Variable ltruth : leaf -> N -> bool.     (* the rows (by id) each leaf is really true for *)

Fixpoint struth_id (e : sidx) : N -> bool :=
  match e with
  | SNot a => fun x => negb (struth_id a x)
  | SAnd a b => fun x => struth_id a x && struth_id b x
  | SOr a b => fun x => struth_id a x || struth_id b x
  | SQuery l => ltruth l
  end.

Definition leaf_answers (l : leaf) : Prop :=
  exists s, search l = Ok s /\ tm_wf (leaf_map s) /\ leaf_sound s (ltruth l).

Lemma number_eval e : forall n tbl,
  (forall i l, nth_error (s_leaves e) i = Some l -> nth_error tbl (N.to_nat n + i) = Some l) ->
  (forall l, In l (s_leaves e) -> leaf_answers l) ->
  exists res, evaluate (load_tbl search tbl) (fst (number e n)) = Ok res /\ sound res (struth_id e) /\ result_wf res.
Proof.
  induction e as [a IH|a IHa b IHb|a IHa b IHb|l]; intros n tbl Hnth Hl; cbn [number s_leaves struth_id] in *.
  - destruct (IH n tbl Hnth Hl) as [res [Er [Hs Hw]]]. destruct (number a n) as [ia la]. cbn [fst evaluate] in *. rewrite Er.
    eexists. split; [reflexivity|]. apply combine_not_sound; assumption.
  - pose proof (number_snd a n) as Ea. destruct (number a n) as [ia la] eqn:Na. cbn [snd] in Ea. subst la.
    destruct (IHa n tbl) as [ra [Era [Hsa Hwa]]].
    { intros i l Hi. apply Hnth. rewrite nth_error_app1; [exact Hi|]. apply nth_error_Some. congruence. }
    { intros l Hi. apply Hl. apply in_or_app. left. exact Hi. }
    rewrite Na in Era. cbn [fst] in Era.
    destruct (IHb (n + llen (s_leaves a)) tbl) as [rb [Erb [Hsb Hwb]]].
    { intros i l Hi. unfold llen. rewrite N2Nat.inj_add, Nat2N.id, <- Nat.add_assoc. apply Hnth.
      rewrite nth_error_app2 by lia. replace (length (s_leaves a) + i - length (s_leaves a))%nat with i by lia. exact Hi. }
    { intros l Hi. apply Hl. apply in_or_app. right. exact Hi. }
    destruct (number b (n + llen (s_leaves a))) as [ib lb]. cbn [fst evaluate] in *. rewrite Era, Erb.
    eexists. split; [reflexivity|]. apply combine_and_sound; assumption.
  - pose proof (number_snd a n) as Ea. destruct (number a n) as [ia la] eqn:Na. cbn [snd] in Ea. subst la.
    destruct (IHa n tbl) as [ra [Era [Hsa Hwa]]].
    { intros i l Hi. apply Hnth. rewrite nth_error_app1; [exact Hi|]. apply nth_error_Some. congruence. }
    { intros l Hi. apply Hl. apply in_or_app. left. exact Hi. }
    rewrite Na in Era. cbn [fst] in Era.
    destruct (IHb (n + llen (s_leaves a)) tbl) as [rb [Erb [Hsb Hwb]]].
    { intros i l Hi. unfold llen. rewrite N2Nat.inj_add, Nat2N.id, <- Nat.add_assoc. apply Hnth.
      rewrite nth_error_app2 by lia. replace (length (s_leaves a) + i - length (s_leaves a))%nat with i by lia. exact Hi. }
    { intros l Hi. apply Hl. apply in_or_app. right. exact Hi. }
    destruct (number b (n + llen (s_leaves a))) as [ib lb]. cbn [fst evaluate] in *. rewrite Era, Erb.
    destruct (combine_or_sound ra rb _ _ Hwa Hwb Hsa Hsb) as [res [Er [Hsr Hwr]]]. exists res. split; [exact Er | split; [exact Hsr | exact Hwr]].
  - cbn [fst evaluate]. unfold load_tbl. specialize (Hnth 0%nat l eq_refl). rewrite Nat.add_0_r in Hnth. rewrite Hnth.
    destruct (Hl l (or_introl eq_refl)) as [s [Es [Hw Hs]]]. rewrite Es. cbn [omap].
    eexists. split; [reflexivity|]. apply leaf_result_sound; assumption.
Qed.

Lemma s_evaluate_sound e : (forall l, In l (s_leaves e) -> leaf_answers l) ->
  exists res, s_evaluate search e = Ok res /\ sound res (struth_id e) /\ result_wf res.
Proof.
  intro Hl. unfold s_evaluate. pose proof (number_snd e 0) as Es.
  destruct (number_eval e 0 (s_leaves e)) as [res [Er Hr]]; [intros i l Hi; exact Hi | exact Hl |].
  destruct (number e 0) as [ie tbl]. cbn [snd fst] in *. subst tbl. exists res. split; assumption.
Qed.
End Eval.

(* ================================================================ the indexed scan returns the rows of the full scan *)
Section Main.
Variable en : env.
Variable info : index_info.
Variable search : leaf -> outcome search_result.
Variable cov : leaf -> list N.
Variable ltruth : leaf -> N -> bool.
Variable tbl : list rowT.

(* what a usable index promises for a leaf: it answers (Exact / AtMost / AtLeast, truthfully), and on the
   live rows of the fragments it covers its notion of truth is the SQL one *)
Definition leaf_ok (l : leaf) : Prop :=
  leaf_answers search ltruth l /\
  forall r, In r tbl -> lmem (rfrag r) (cov l) = true -> ltruth l (rid r) = qmatch en (l_query l) (val r (l_col l)).

Lemma struth_id_row r e : In r tbl ->
  (forall l, In l (s_leaves e) -> leaf_ok l) -> covered_by cov e (rfrag r) = true ->
  struth_id ltruth e (rid r) = struth en r e.
Proof.
  intros Hr. induction e as [a IH|a IHa b IHb|a IHa b IHb|l]; intros Hl Hc; cbn [struth_id struth s_leaves] in *.
  - rewrite IH; [reflexivity | exact Hl | exact Hc].
  - unfold covered_by in *. cbn [s_leaves] in Hc. rewrite forallb_app in Hc. apply andb_true_iff in Hc as [Hca Hcb].
    rewrite IHa, IHb; [reflexivity | | exact Hcb | | exact Hca]; intros l Hi; apply Hl; apply in_or_app; [right|left]; exact Hi.
  - unfold covered_by in *. cbn [s_leaves] in Hc. rewrite forallb_app in Hc. apply andb_true_iff in Hc as [Hca Hcb].
    rewrite IHa, IHb; [reflexivity | | exact Hcb | | exact Hca]; intros l Hi; apply Hl; apply in_or_app; [right|left]; exact Hi.
  - unfold covered_by in Hc. cbn [s_leaves forallb] in Hc. rewrite andb_true_r in Hc.
    exact (proj2 (Hl l (or_introl eq_refl)) r Hr Hc).
Qed.

Theorem index_scan_eq_scan p :
  parsers_ok info -> fn_definite en ->
  (forall r, In r tbl -> row_ok info r = true) ->
  (forall ie sq, apply_scalar_indices info p = Ok ie -> scalar_query ie = Some sq ->
     forall l, In l (s_leaves sq) -> leaf_ok l) ->
  Known_C19_not_over_nullable info tbl p = false ->
  apply_scalar_indices info p <> Err ->
  index_scan en info search cov tbl p = Ok (full_scan en tbl p).
Proof.
  intros Hpar Hfn Hrows Hleaves Hk1 Hne. unfold index_scan. unfold apply_scalar_indices in *.
  destruct (visit_node_sq info p 0) as [Hnp Hsq].
  destruct (visit_node info p 0) as [[ie|]| |] eqn:Ev; try congruence; [|reflexivity].
  specialize (Hsq ie eq_refl). unfold has_sq in Hsq. destruct (scalar_query ie) as [sq|] eqn:Esq; [|congruence].
  specialize (Hleaves ie sq eq_refl Esq).
  destruct (s_evaluate_sound search ltruth sq) as [res [Er [Hs Hw]]]; [intros l Hl; exact (proj1 (Hleaves l Hl))|].
  rewrite Er. f_equal. unfold full_scan. f_equal. apply filter_ext_in. intros r Hr.
  assert (Hk1r : neg_over_null info r p = false).
  { unfold Known_C19_not_over_nullable in Hk1. destruct (neg_over_null info r p) eqn:E; [|reflexivity].
    assert (X : existsb (fun r => neg_over_null info r p) tbl = true) by (apply existsb_exists; exists r; split; assumption). congruence. }
  destruct (visit_node_sound en info Hpar Hfn r (Hrows r Hr) p 0 ie Ev Hk1r) as [sq' [Esq' [HA _]]].
  rewrite Esq in Esq'. injection Esq' as <-.
  unfold keep_row. destruct (covered_by cov sq (rfrag r)) eqn:Ec; [|reflexivity].
  pose proof (struth_id_row r sq Hr Hleaves Ec) as Hid.
  destruct res as [m|m|m]; cbn [sound] in Hs.
  - rewrite Hs, Hid. symmetry. exact HA.
  - destruct (is_true (eval en r p)) eqn:Et; [|apply andb_false_r].
    rewrite andb_true_r. apply Hs. rewrite Hid. symmetry in HA. apply andb_true_iff in HA. tauto.
  - reflexivity.
Qed.
End Main.

(* ================================================================ exact indices: B-tree / bitmap *)
Lemma tm_from_iter_contains vs x : x < two64 -> Forall (fun v => v < two64) vs ->
  tm_contains (tm_from_iter vs) x = lmem x vs.
Proof.
  intros Hx Hvs. unfold tm_from_iter. rewrite tm_extend_contains, tm_contains_nil. cbn [orb]. unfold lmem.
  induction Hvs as [|v tl Hv _ IH]; [reflexivity|]. cbn [existsb]. rewrite IH, same_parts_eq by assumption. reflexivity.
Qed.

(* an index in step with the live rows of the fragments it covers (stale entries of other row ids are allowed) *)
Definition index_ok (tbl : list rowT) (c : N) (ix : sindex) : Prop :=
  (forall r, In r tbl -> lmem (rfrag r) (ix_frags ix) = true ->
     (forall v, In (v, rid r) (ix_entries ix) <-> val r c = Some v) /\
     (In (rid r) (ix_nulls ix) <-> val r c = None)) /\
  (forall e, In e (ix_entries ix) -> snd e < two64) /\
  (forall x, In x (ix_nulls ix) -> x < two64).

(* queries the SargableQueryParser builds *)
Definition sarg_query_ok (q : query) : bool :=
  match q with
  | QRange lo hi => negb (bnd_is_null lo) && negb (bnd_is_null hi) && negb (match lo, hi with BUnb, BUnb => true | _, _ => false end)
  | QIsIn vs => negb (existsb lit_is_null vs)
  | QEquals v => negb (lit_is_null v)
  | QIsNull => true
  | QFn _ _ => false
  end.

Lemma lmem_rows_where f ix x : lmem x (rows_where f ix) = existsb (fun e => f (fst e) && (x =? snd e)) (ix_entries ix).
Proof.
  unfold rows_where. induction (ix_entries ix) as [|e tl IH]; [reflexivity|]. cbn [filter existsb].
  destruct (f (fst e)); cbn [map andb orb]; [rewrite lmem_cons, IH; reflexivity | exact IH].
Qed.

Definition not_bitmap_inverted (ix : sindex) (q : query) : bool :=
  negb (ix_bitmap ix && match q with QRange lo hi => range_inverted lo hi | _ => false end).

Lemma sarg_search_sound en tbl c ix q : index_ok tbl c ix -> sarg_query_ok q = true -> not_bitmap_inverted ix q = true ->
  exists t, sarg_search q ix = Ok (SExact t) /\ tm_wf t /\
    forall r, In r tbl -> rid r < two64 -> lmem (rfrag r) (ix_frags ix) = true ->
      tm_contains t (rid r) = qmatch en q (val r c).
Proof.
  intros [Hrows [He Hn]] Hq Hbi.
  assert (Hrw : forall f, Forall (fun v => v < two64) (rows_where f ix)).
  { intro f. unfold rows_where. apply Forall_forall. intros x Hx. apply in_map_iff in Hx as [e [<- Hi]].
    apply filter_In in Hi as [Hi _]. exact (He e Hi). }
  assert (Hnl : Forall (fun v => v < two64) (ix_nulls ix)) by (apply Forall_forall; exact Hn).
  assert (Hval : forall f r, In r tbl -> lmem (rfrag r) (ix_frags ix) = true ->
            lmem (rid r) (rows_where f ix) = match val r c with Some v => f v | None => false end).
  { intros f r Hr Hc. destruct (Hrows r Hr Hc) as [Hent Hnul]. rewrite lmem_rows_where.
    destruct (val r c) as [v|] eqn:Ev.
    - destruct (f v) eqn:Ef.
      + apply existsb_exists. exists (v, rid r). split; [apply Hent; reflexivity|]. cbn [fst snd]. rewrite Ef, N.eqb_refl. reflexivity.
      + apply not_true_is_false. intro H. apply existsb_exists in H as [[v' x] [Hi Hb]]. cbn [fst snd] in Hb.
        apply andb_true_iff in Hb as [Hf Hx]. apply N.eqb_eq in Hx. subst x. apply Hent in Hi. congruence.
    - apply not_true_is_false. intro H. apply existsb_exists in H as [[v' x] [Hi Hb]]. cbn [fst snd] in Hb.
      apply andb_true_iff in Hb as [Hf Hx]. apply N.eqb_eq in Hx. subst x. apply Hent in Hi. congruence. }
  assert (Hnulls : forall r, In r tbl -> lmem (rfrag r) (ix_frags ix) = true ->
            lmem (rid r) (ix_nulls ix) = match val r c with Some _ => false | None => true end).
  { intros r Hr Hc. destruct (Hrows r Hr Hc) as [_ Hnul]. destruct (val r c) as [v|].
    - apply not_true_is_false. intro H. apply lmem_In in H. apply Hnul in H. discriminate.
    - apply lmem_In. apply Hnul. reflexivity. }
  unfold sarg_search.
  destruct q as [lo hi|vs|v| |f a]; cbn [sarg_query_ok] in Hq; try discriminate.
  - (* range *)
    assert (Er : sarg_rows (QRange lo hi) ix = Ok (rows_where (fun x => above lo x && below hi x) ix)).
    { unfold not_bitmap_inverted in Hbi. apply negb_true_iff in Hbi. cbn [sarg_rows]. rewrite Hbi.
      destruct lo, hi; try reflexivity. discriminate. }
    rewrite Er. eexists. split; [reflexivity|]. split; [apply tm_extend_wf, tm_wf_nil|].
    intros r Hr Hid Hc. rewrite tm_from_iter_contains by (try exact Hid; apply Hrw). rewrite (Hval _ r Hr Hc). reflexivity.
  - (* IN *)
    apply negb_true_iff in Hq. cbn [sarg_rows]. rewrite Hq, app_nil_r.
    eexists. split; [reflexivity|]. split; [apply tm_extend_wf, tm_wf_nil|].
    intros r Hr Hid Hc. rewrite tm_from_iter_contains by (try exact Hid; apply Hrw). rewrite (Hval _ r Hr Hc). reflexivity.
  - (* equals *)
    destruct v as [|z]; [discriminate|]. cbn [sarg_rows].
    eexists. split; [reflexivity|]. split; [apply tm_extend_wf, tm_wf_nil|].
    intros r Hr Hid Hc. rewrite tm_from_iter_contains by (try exact Hid; apply Hrw). rewrite (Hval _ r Hr Hc).
    cbn [qmatch lit_eqb_val]. destruct (val r c) as [x|]; [apply Z.eqb_sym | reflexivity].
  - (* IS NULL *)
    cbn [sarg_rows]. eexists. split; [reflexivity|]. split; [apply tm_extend_wf, tm_wf_nil|].
    intros r Hr Hid Hc. rewrite tm_from_iter_contains by assumption. rewrite (Hnulls r Hr Hc).
    cbn [qmatch]. destruct (val r c); reflexivity.
Qed.

(* ================================================================ where the leaves come from *)
Section Leaves.
Variable info : index_info.

(* a leaf names an index of its column, and for a SargableQueryParser the query is one B-tree / bitmap /
   zone map can answer (no NULL scalar, not unbounded on both sides) *)
Definition leaf_src (l : leaf) : Prop :=
  exists ci pr, info (l_col l) = Some ci /\ In (l_idx l, pr) (ci_parsers ci) /\
    match pr with
    | PSargable rc => l_recheck l = rc /\ sarg_query_ok (l_query l) = true
    | PBloom rc | PText rc => l_recheck l = rc
    | PLabelList => l_recheck l = false
    end.

Definition leaves_ok (ie : iexp) : Prop :=
  forall sq, scalar_query ie = Some sq -> forall l, In l (s_leaves sq) -> leaf_src l.

Lemma leaves_ok_leaf c ci i pr q rc : info c = Some ci -> In (i, pr) (ci_parsers ci) ->
  match pr with
  | PSargable rc0 => rc = rc0 /\ sarg_query_ok q = true
  | PBloom rc0 | PText rc0 => rc = rc0
  | PLabelList => rc = false
  end ->
  leaves_ok (index_query_with_recheck c i q rc).
Proof.
  intros Hi Hin Hp sq [= <-] l [<-|[]]. exists ci, pr. cbn [l_col l_idx l_recheck l_query]. repeat split; assumption.
Qed.

Lemma find_map_leaves {f : N * parser -> option iexp} c ci ie : info c = Some ci ->
  (forall ip y, In ip (ci_parsers ci) -> f ip = Some y -> leaves_ok y) ->
  find_map f (ci_parsers ci) = Some ie -> leaves_ok ie.
Proof. intros Hi H E. destruct (find_map_some _ _ _ E) as [ip [Hin Hp]]. exact (H ip ie Hin Hp). Qed.

Lemma p_visit_between_leaves c ci ip lo hi y : info c = Some ci -> In ip (ci_parsers ci) ->
  match lo, hi with BUnb, BUnb => False | _, _ => True end ->
  p_visit_between c ip lo hi = Some y -> leaves_ok y.
Proof.
  intros Hi Hin Hb. unfold p_visit_between. destruct ip as [i pr]. cbn [fst snd]. destruct pr as [rc|rc| |rc]; try discriminate.
  destruct (bnd_is_null lo) eqn:El; [discriminate|]. destruct (bnd_is_null hi) eqn:Eh; [discriminate|]. intros [= <-].
  eapply leaves_ok_leaf; [exact Hi | exact Hin |]. split; [reflexivity|]. cbn [sarg_query_ok]. rewrite El, Eh.
  destruct lo, hi; try reflexivity. destruct Hb.
Qed.
Lemma p_visit_in_list_leaves c ci ip vs y : info c = Some ci -> In ip (ci_parsers ci) ->
  p_visit_in_list c ip vs = Some y -> leaves_ok y.
Proof.
  intros Hi Hin. unfold p_visit_in_list. destruct ip as [i pr]. cbn [fst snd]. destruct pr as [rc|rc| |rc]; try discriminate.
  - destruct (existsb lit_is_null vs) eqn:En; [discriminate|]. intros [= <-].
    eapply leaves_ok_leaf; [exact Hi | exact Hin |]. split; [reflexivity|]. cbn [sarg_query_ok]. rewrite En. reflexivity.
  - intros [= <-]. eapply leaves_ok_leaf; [exact Hi | exact Hin | reflexivity].
Qed.
Lemma p_visit_is_bool_leaves c ci ip b y : info c = Some ci -> In ip (ci_parsers ci) ->
  p_visit_is_bool c ip b = Some y -> leaves_ok y.
Proof.
  intros Hi Hin. unfold p_visit_is_bool. destruct ip as [i pr]. cbn [fst snd]. destruct pr as [rc|rc| |rc]; try discriminate;
    intros [= <-]; (eapply leaves_ok_leaf; [exact Hi | exact Hin |]); [split; reflexivity | reflexivity].
Qed.
Lemma p_visit_is_null_leaves c ci ip y : info c = Some ci -> In ip (ci_parsers ci) ->
  p_visit_is_null c ip = Some y -> leaves_ok y.
Proof.
  intros Hi Hin. unfold p_visit_is_null. destruct ip as [i pr]. cbn [fst snd]. destruct pr as [rc|rc| |rc]; try discriminate;
    intros [= <-]; (eapply leaves_ok_leaf; [exact Hi | exact Hin |]); [split; reflexivity | reflexivity].
Qed.
Lemma p_visit_comparison_leaves c ci ip v op y : info c = Some ci -> In ip (ci_parsers ci) ->
  p_visit_comparison c ip v op = Some y -> leaves_ok y.
Proof.
  intros Hi Hin. unfold p_visit_comparison. destruct ip as [i pr]. cbn [fst snd]. destruct pr as [rc|rc| |rc]; try discriminate.
  - destruct (lit_is_null v) eqn:En; [discriminate|]. intros [= <-].
    eapply leaves_ok_leaf; [exact Hi | exact Hin |]. split; [reflexivity|].
    destruct op; cbn [sarg_query_ok bnd_is_null]; rewrite ?En; reflexivity.
  - destruct op; try discriminate; intros [= <-]; (eapply leaves_ok_leaf; [exact Hi | exact Hin | reflexivity]).
Qed.
Lemma p_visit_scalar_function_leaves c ci ip f arg y : info c = Some ci -> In ip (ci_parsers ci) ->
  p_visit_scalar_function c ip f arg = Some y -> leaves_ok y.
Proof.
  intros Hi Hin. unfold p_visit_scalar_function. destruct ip as [i pr]. cbn [fst snd]. destruct pr as [rc|rc| |rc]; try discriminate;
    destruct arg as [[|v]|]; try discriminate; destruct f; try discriminate; intros [= <-];
    (eapply leaves_ok_leaf; [exact Hi | exact Hin | reflexivity]).
Qed.

Lemma maybe_not_leaves x y : leaves_ok x -> maybe_not x = Ok (Some y) -> leaves_ok y.
Proof.
  intros Hx. unfold maybe_not. destruct (scalar_query x) as [sq|] eqn:Es.
  - destruct (refine_expr x); [discriminate|]. destruct (s_needs_recheck sq); [discriminate|]. intros [= <-].
    intros sq' [= <-] l Hl. cbn [s_leaves] in Hl. exact (Hx sq Es l Hl).
  - destruct (refine_expr x); [|discriminate]. intros [= <-] sq' E. discriminate E.
Qed.
Lemma negate_if_leaves neg o y : (forall ie, o = Some ie -> leaves_ok ie) -> negate_if neg o = Ok (Some y) -> leaves_ok y.
Proof.
  intros H. unfold negate_if. destruct o as [ie|]; [|discriminate]. destruct neg.
  - apply maybe_not_leaves. apply H. reflexivity.
  - intros [= <-]. apply H. reflexivity.
Qed.
Lemma ie_and_leaves x y : leaves_ok x -> leaves_ok y -> leaves_ok (ie_and x y).
Proof.
  intros Hx Hy sq. unfold ie_and. cbn [scalar_query].
  destruct (scalar_query x) as [a|] eqn:Ea, (scalar_query y) as [b|] eqn:Eb; cbn [opt_combine]; intros [= <-] l Hl.
  - cbn [s_leaves] in Hl. apply in_app_or in Hl as [Hl|Hl]; [exact (Hx a Ea l Hl) | exact (Hy b Eb l Hl)].
  - exact (Hx a Ea l Hl).
  - exact (Hy b Eb l Hl).
Qed.
Lemma ie_refine_leaves x e : leaves_ok x -> leaves_ok (ie_refine x e).
Proof. intros Hx sq. unfold ie_refine. destruct (refine_expr x); cbn [scalar_query]; apply Hx. Qed.
Lemma maybe_or_leaves x y z : leaves_ok x -> leaves_ok y -> maybe_or x y = Some z -> leaves_ok z.
Proof.
  intros Hx Hy. unfold maybe_or. destruct (scalar_query x) as [a|] eqn:Ea; [|discriminate].
  destruct (scalar_query y) as [b|] eqn:Eb; [|discriminate].
  destruct (refine_expr x); [discriminate|]. destruct (refine_expr y); [discriminate|]. intros [= <-] sq [= <-] l Hl.
  cbn [s_leaves] in Hl. apply in_app_or in Hl as [Hl|Hl]; [exact (Hx a Ea l Hl) | exact (Hy b Eb l Hl)].
Qed.

Lemma maybe_range_leaves a b ie : maybe_range info a b = Some ie -> leaves_ok ie.
Proof.
  unfold maybe_range. destruct a as [ | opl ll lr | | | | | | | | | | | ]; try discriminate.
  destruct b as [ | opr rl rr | | | | | | | | | | | ]; try discriminate.
  destruct (maybe_indexed_column info ll) as [[lc ci]|] eqn:El; [|discriminate].
  destruct (maybe_indexed_column_some _ _ _ _ El) as [-> Hi].
  destruct (maybe_column rl); [|discriminate]. destruct (negb (lc =? n)); [discriminate|].
  destruct (maybe_scalar lr) as [lv|]; [|discriminate]. destruct (maybe_scalar rr) as [rv|]; [|discriminate].
  destruct opl, opr; try discriminate; apply (find_map_leaves lc ci ie Hi); intros ip y Hin;
    apply (p_visit_between_leaves lc ci ip _ _ y Hi Hin); exact I.
Qed.

Lemma visit_node_leaves e : forall depth ie, visit_node info e depth = Ok (Some ie) -> leaves_ok ie.
Proof.
  induction e as [c|op l rt|neg t lo hi|neg t items|t|t|x IH|x IH|x IH|a IHa b IHb|a IHa b IHb|f t arg|k];
    intros depth ie; rewrite visit_node_unfold; (destruct (MAX_DEPTH <=? depth); [discriminate|]).
  - intros [= E]. unfold visit_column in E. destruct (info c) as [ci|] eqn:Hi; [|discriminate].
    destruct (ci_bool ci); [|discriminate]. apply (find_map_leaves c ci ie Hi) in E; [exact E|].
    intros ip y Hin. apply (p_visit_is_bool_leaves c ci ip true y Hi Hin).
  - assert (Hc : forall o ie0, visit_comparison info o l rt = Some ie0 -> leaves_ok ie0).
    { intros o ie0. unfold visit_comparison. destruct (maybe_indexed_column info l) as [[c ci]|] eqn:El; [|discriminate].
      destruct (maybe_indexed_column_some _ _ _ _ El) as [-> Hi]. destruct (maybe_scalar rt) as [v|]; [|discriminate].
      apply (find_map_leaves c ci ie0 Hi). intros ip y Hin. apply (p_visit_comparison_leaves c ci ip v o y Hi Hin). }
    destruct op; try (intros [= E]; exact (Hc _ _ E)). apply negate_if_leaves. apply Hc.
  - unfold visit_between. destruct (maybe_indexed_column info t) as [[c ci]|] eqn:Et; [|discriminate].
    destruct (maybe_indexed_column_some _ _ _ _ Et) as [-> Hi].
    destruct (maybe_scalar lo) as [lv|]; [|discriminate]. destruct (maybe_scalar hi) as [hv|]; [|discriminate].
    apply negate_if_leaves. intros ie0. apply (find_map_leaves c ci ie0 Hi). intros ip y Hin.
    apply (p_visit_between_leaves c ci ip _ _ y Hi Hin). exact I.
  - unfold visit_in_list. destruct (maybe_indexed_column info t) as [[c ci]|] eqn:Et; [|discriminate].
    destruct (maybe_indexed_column_some _ _ _ _ Et) as [-> Hi]. destruct (maybe_scalar_list items) as [vs|]; [|discriminate].
    apply negate_if_leaves. intros ie0. apply (find_map_leaves c ci ie0 Hi). intros ip y Hin.
    apply (p_visit_in_list_leaves c ci ip vs y Hi Hin).
  - unfold visit_is_null. destruct (maybe_indexed_column info t) as [[c ci]|] eqn:Et; [|discriminate].
    destruct (maybe_indexed_column_some _ _ _ _ Et) as [-> Hi].
    apply negate_if_leaves. intros ie0. apply (find_map_leaves c ci ie0 Hi). intros ip y Hin.
    apply (p_visit_is_null_leaves c ci ip y Hi Hin).
  - unfold visit_is_null. destruct (maybe_indexed_column info t) as [[c ci]|] eqn:Et; [|discriminate].
    destruct (maybe_indexed_column_some _ _ _ _ Et) as [-> Hi].
    apply negate_if_leaves. intros ie0. apply (find_map_leaves c ci ie0 Hi). intros ip y Hin.
    apply (p_visit_is_null_leaves c ci ip y Hi Hin).
  - intros [= E]. unfold visit_is_bool in E. destruct x as [c| | | | | | | | | | | | ]; try discriminate.
    destruct (info c) as [ci|] eqn:Hi; [|discriminate]. destruct (ci_bool ci); [|discriminate].
    apply (find_map_leaves c ci ie Hi) in E; [exact E|]. intros ip y Hin. apply (p_visit_is_bool_leaves c ci ip true y Hi Hin).
  - intros [= E]. unfold visit_is_bool in E. destruct x as [c| | | | | | | | | | | | ]; try discriminate.
    destruct (info c) as [ci|] eqn:Hi; [|discriminate]. destruct (ci_bool ci); [|discriminate].
    apply (find_map_leaves c ci ie Hi) in E; [exact E|]. intros ip y Hin. apply (p_visit_is_bool_leaves c ci ip false y Hi Hin).
  - destruct (visit_node info x (depth + 1)) as [[node|]| |] eqn:Ex; try discriminate.
    apply maybe_not_leaves. exact (IH _ _ Ex).
  - destruct (maybe_range info a b) as [re|] eqn:Er.
    + intros [= <-]. exact (maybe_range_leaves _ _ _ Er).
    + destruct (visit_node info a (depth + 1)) as [lft| |] eqn:Ea; try discriminate.
      destruct (visit_node info b (depth + 1)) as [rgt| |] eqn:Eb; try discriminate.
      intros [= E]. destruct lft as [l|], rgt as [rg|]; try discriminate; injection E as <-.
      * apply ie_and_leaves; [exact (IHa _ _ Ea) | exact (IHb _ _ Eb)].
      * apply ie_refine_leaves. exact (IHa _ _ Ea).
      * apply ie_refine_leaves. exact (IHb _ _ Eb).
  - destruct (visit_node info a (depth + 1)) as [lft| |] eqn:Ea; try discriminate.
    destruct (visit_node info b (depth + 1)) as [rgt| |] eqn:Eb; try discriminate.
    intros [= E]. destruct lft as [l|], rgt as [rg|]; try discriminate.
    exact (maybe_or_leaves _ _ _ (IHa _ _ Ea) (IHb _ _ Eb) E).
  - intros [= E]. unfold visit_scalar_fn in E. destruct (maybe_indexed_column info t) as [[c ci]|] eqn:Et; [|discriminate].
    destruct (maybe_indexed_column_some _ _ _ _ Et) as [-> Hi].
    apply (find_map_leaves c ci ie Hi) in E; [exact E|]. intros ip y Hin.
    apply (p_visit_scalar_function_leaves c ci ip f (maybe_scalar arg) y Hi Hin).
  - discriminate.
Qed.
End Leaves.

(* ================================================================ C19: B-tree / bitmap indices *)
(* every index of the table is an exact sargable one *)
Definition exact_info (info : index_info) : Prop :=
  forall c ci ip, info c = Some ci -> In ip (ci_parsers ci) -> snd ip = PSargable false.

Definition table_ok (info : index_info) (tbl : list rowT) : Prop :=
  forall r, In r tbl -> row_ok info r = true /\ rid r < two64.

(* every index the planner may pick exists and is in step with the table *)
Definition indices_ok (info : index_info) (ixs : N -> option sindex) (tbl : list rowT) : Prop :=
  forall c ci idx pr, info c = Some ci -> In (idx, pr) (ci_parsers ci) ->
    exists ix, ixs idx = Some ix /\ index_ok tbl c ix.

Lemma exact_info_parsers_ok info : exact_info info -> parsers_ok info.
Proof. intros H c ci ip Hi Hin. rewrite (H c ci ip Hi Hin). reflexivity. Qed.

Theorem exact_index_scan_eq_scan en info ixs tbl p :
  exact_info info -> fn_definite en -> table_ok info tbl -> indices_ok info ixs tbl ->
  Known_C19_not_over_nullable info tbl p = false ->
  Known_C19_bitmap_inverted_range info ixs p = false ->
  sdepth p < MAX_DEPTH ->
  index_scan en info (exact_search ixs) (exact_cov ixs) tbl p = Ok (full_scan en tbl p).
Proof.
  intros Hex Hfn Htbl Hix Hk1 Hk3 Hd.
  apply (index_scan_eq_scan en info (exact_search ixs) (exact_cov ixs)
           (fun l x => match exact_search ixs l with Ok (SExact t) => tm_contains t x | _ => false end)).
  - exact (exact_info_parsers_ok info Hex).
  - exact Hfn.
  - intros r Hr. exact (proj1 (Htbl r Hr)).
  - intros ie sq Ea Esq l Hl. unfold apply_scalar_indices in Ea.
    destruct (visit_node info p 0) as [[ie0|]| |] eqn:Ev; try discriminate; injection Ea as <-; [|discriminate].
    destruct (visit_node_leaves info p 0 ie0 Ev sq Esq l Hl) as [ci [pr [Hi [Hin Hpr]]]].
    pose proof (Hex _ _ _ Hi Hin) as Epr. cbn [snd] in Epr. subst pr. destruct Hpr as [_ Hq].
    destruct (Hix _ _ _ _ Hi Hin) as [ix [Eix Hok]].
    assert (Hbi : not_bitmap_inverted ix (l_query l) = true).
    { unfold Known_C19_bitmap_inverted_range, apply_scalar_indices in Hk3. rewrite Ev, Esq in Hk3.
      unfold not_bitmap_inverted. apply negb_true_iff. apply not_true_is_false. intro Hb.
      assert (X : existsb (leaf_bitmap_inverted ixs) (s_leaves sq) = true).
      { apply existsb_exists. exists l. split; [exact Hl|]. unfold leaf_bitmap_inverted. rewrite Eix.
        destruct (l_query l); try (rewrite andb_false_r in Hb; discriminate Hb). exact Hb. }
      congruence. }
    destruct (sarg_search_sound en tbl (l_col l) ix (l_query l) Hok Hq Hbi) as [t [Es [Hw Hrows]]].
    unfold leaf_ok, leaf_answers, exact_search, exact_cov. rewrite Eix, Es. split.
    + exists (SExact t). split; [reflexivity|]. split; [exact Hw|]. cbn [leaf_sound]. reflexivity.
    + intros r Hr Hc. apply Hrows; [exact Hr | exact (proj2 (Htbl r Hr)) | exact Hc].
  - exact Hk1.
  - unfold apply_scalar_indices. pose proof (visit_node_no_err info p 0) as Hne.
    destruct (visit_node info p 0) as [[ie0|]| |]; try discriminate. exfalso. apply Hne; [|reflexivity]. exact Hd.
Qed.

(* ---- the two sub-domains named in the design *)
Lemma nulls3_pcols info r e : nulls3 info r e = true ->
  exists c, In c (pcols e) /\ info c <> None /\ val r c = None.
Proof.
  assert (Ht : forall t, col_null_indexed info r t = true -> exists c, In c (tcols t) /\ info c <> None /\ val r c = None).
  { intros [c|l|k]; cbn [col_null_indexed tcols]; try discriminate. destruct (info c) eqn:Hi; [|discriminate].
    destruct (val r c) eqn:Hv; [discriminate|]. intros _. exists c. split; [left; reflexivity|]. split; [congruence | exact Hv]. }
  induction e as [c|op l rt|neg t lo hi|neg t items|t|t|x IH|x IH|x IH|a IHa b IHb|a IHa b IHb|f t arg|k];
    cbn [nulls3 pcols]; try discriminate; try (apply Ht); try assumption.
  - intro H. apply orb_true_iff in H as [H|H]; [destruct (IHa H) as [c [Hc Hr]] | destruct (IHb H) as [c [Hc Hr]]];
      exists c; (split; [apply in_or_app; tauto | exact Hr]).
  - intro H. apply orb_true_iff in H as [H|H]; [destruct (IHa H) as [c [Hc Hr]] | destruct (IHb H) as [c [Hc Hr]]];
      exists c; (split; [apply in_or_app; tauto | exact Hr]).
Qed.

Lemma null_free_not_known info tbl p : null_free info tbl p = true -> Known_C19_not_over_nullable info tbl p = false.
Proof.
  intro H. unfold Known_C19_not_over_nullable. apply not_true_is_false. intro E.
  apply existsb_exists in E as [r [Hr Hn]]. apply (neg_over_null_nulls3 info) in Hn.
  destruct (nulls3_pcols info r p Hn) as [c [Hc [Hi Hv]]].
  unfold null_free in H. rewrite forallb_forall in H. specialize (H r Hr). rewrite forallb_forall in H. specialize (H c Hc).
  rewrite Hv in H. destruct (info c); [discriminate | congruence].
Qed.

Lemma negation_free_row info r e : negation_free e = true -> neg_over_null info r e = false.
Proof.
  induction e as [c|op l rt|neg t lo hi|neg t items|t|t|x IH|x IH|x IH|a IHa b IHb|a IHa b IHb|f t arg|k];
    cbn [negation_free neg_over_null]; try reflexivity; try discriminate.
  - destruct op; try reflexivity; discriminate.
  - destruct neg; [discriminate | reflexivity].
  - destruct neg; [discriminate | reflexivity].
  - intro H. apply andb_true_iff in H as [Ha Hb]. rewrite (IHa Ha), (IHb Hb). reflexivity.
  - intro H. apply andb_true_iff in H as [Ha Hb]. rewrite (IHa Ha), (IHb Hb). reflexivity.
Qed.

Lemma negation_free_not_known info tbl p : negation_free p = true -> Known_C19_not_over_nullable info tbl p = false.
Proof.
  intro H. unfold Known_C19_not_over_nullable. apply not_true_is_false. intro E.
  apply existsb_exists in E as [r [_ Hn]]. rewrite (negation_free_row info r p H) in Hn. discriminate.
Qed.

(* build_index produces an index in step with the table *)
Lemma build_index_ok bm tbl c frags : NoDup (map rid tbl) -> (forall r, In r tbl -> rid r < two64) ->
  index_ok tbl c (build_index bm c frags tbl).
Proof.
  intros Hnd Hlt. unfold index_ok, build_index. cbn [ix_frags ix_entries ix_nulls].
  assert (Huniq : forall r r', In r tbl -> In r' tbl -> rid r = rid r' -> r = r').
  { clear Hlt. induction tbl as [|a tl IH]; intros r r' Hr Hr' E; [destruct Hr|].
    cbn [map] in Hnd. inversion Hnd as [|? ? Hnot Hnd']; subst.
    destruct Hr as [<-|Hr], Hr' as [<-|Hr']; try reflexivity.
    - exfalso. apply Hnot. rewrite E. apply in_map. exact Hr'.
    - exfalso. apply Hnot. rewrite <- E. apply in_map. exact Hr.
    - exact (IH Hnd' r r' Hr Hr' E). }
  split; [|split].
  - intros r Hr Hc. split.
    + intro v. rewrite in_flat_map. split.
      * intros [r' [Hr' Hin]]. apply filter_In in Hr' as [Hr' _].
        destruct (val r' c) as [v'|] eqn:Ev'; [|destruct Hin]. destruct Hin as [[= <- E]|[]].
        rewrite <- (Huniq r' r Hr' Hr E). exact Ev'.
      * intro Ev. exists r. split; [apply filter_In; split; assumption|]. rewrite Ev. left. reflexivity.
    + rewrite in_flat_map. split.
      * intros [r' [Hr' Hin]]. apply filter_In in Hr' as [Hr' _].
        destruct (val r' c) as [v'|] eqn:Ev'; [destruct Hin|]. destruct Hin as [E|[]].
        rewrite <- (Huniq r' r Hr' Hr E). exact Ev'.
      * intro Ev. exists r. split; [apply filter_In; split; assumption|]. rewrite Ev. left. reflexivity.
  - intros e He. apply in_flat_map in He as [r [Hr Hin]]. apply filter_In in Hr as [Hr _].
    destruct (val r c); [|destruct Hin]. destruct Hin as [<-|[]]. exact (Hlt r Hr).
  - intros x Hx. apply in_flat_map in Hx as [r [Hr Hin]]. apply filter_In in Hr as [Hr _].
    destruct (val r c); [destruct Hin|]. destruct Hin as [<-|[]]. exact (Hlt r Hr).
Qed.
