(* Proofs about Index/Model_ScalarExpr.v (C19; the generic part is reused by C20). *)
From LanceV Require Import Common.Base Core.Model_Mask Core.Proofs_Mask Index.Model_ExprResult Index.Proofs_ExprResult
  Index.Model_ScalarExpr.
Local Open Scope N_scope.

(* ================================================================ small facts *)
Lemma find_map_some {A B} (f : A -> option B) l y : find_map f l = Some y -> exists x, In x l /\ f x = Some y.
Proof.
  induction l as [|a tl IH]; cbn [find_map]; [discriminate|].
  destruct (f a) as [b|] eqn:E.
  - intros [= <-]. exists a. split; [left; reflexivity | exact E].
  - intro H. destruct (IH H) as [x [Hi Hx]]. exists x. split; [right; exact Hi | exact Hx].
Qed.

Lemma is_true_and3 a b : is_true (and3 a b) = is_true a && is_true b.
Proof. destruct a as [[|]|], b as [[|]|]; reflexivity. Qed.
Lemma is_true_some b : is_true (Some b) = b.
Proof. destruct b; reflexivity. Qed.
Lemma is_true_or3 a b : is_true (or3 a b) = is_true a || is_true b.
Proof. destruct a as [[|]|], b as [[|]|]; reflexivity. Qed.

Lemma maybe_indexed_column_some info t c ci :
  maybe_indexed_column info t = Some (c, ci) -> t = TCol c /\ info c = Some ci.
Proof.
  destruct t as [c0|l|k]; cbn [maybe_indexed_column]; try discriminate.
  destruct (info c0) as [ci0|] eqn:E; [|discriminate]. intros [= <- <-]. split; [reflexivity | exact E].
Qed.

Lemma maybe_scalar_some t l : maybe_scalar t = Some l -> t = TLit l.
Proof. destruct t; cbn [maybe_scalar]; try discriminate. intros [= <-]. reflexivity. Qed.

Lemma maybe_scalar_list_some ts vs : maybe_scalar_list ts = Some vs -> ts = map TLit vs.
Proof.
  revert vs. induction ts as [|t tl IH]; intros vs; cbn [maybe_scalar_list].
  - intros [= <-]. reflexivity.
  - destruct (maybe_scalar t) as [v|] eqn:E; [|discriminate].
    destruct (maybe_scalar_list tl) as [vs0|]; [|discriminate]. intros [= <-].
    cbn [map]. rewrite (maybe_scalar_some _ _ E), (IH vs0 eq_refl). reflexivity.
Qed.

(* ================================================================ the translator never builds an empty node *)
Definition has_sq (ie : iexp) : Prop := scalar_query ie <> None.

Lemma has_sq_leaf c i q rc : has_sq (index_query_with_recheck c i q rc).
Proof. unfold has_sq. cbn. discriminate. Qed.

Lemma p_visit_between_sq c ip lo hi ie : p_visit_between c ip lo hi = Some ie -> has_sq ie.
Proof.
  unfold p_visit_between. destruct (snd ip); try discriminate.
  destruct (bnd_is_null lo); [discriminate|]. destruct (bnd_is_null hi); [discriminate|].
  intros [= <-]. apply has_sq_leaf.
Qed.
Lemma p_visit_in_list_sq c ip vs ie : p_visit_in_list c ip vs = Some ie -> has_sq ie.
Proof.
  unfold p_visit_in_list. destruct (snd ip); try discriminate.
  - destruct (existsb lit_is_null vs); [discriminate|]. intros [= <-]. apply has_sq_leaf.
  - intros [= <-]. apply has_sq_leaf.
Qed.
Lemma p_visit_is_bool_sq c ip v ie : p_visit_is_bool c ip v = Some ie -> has_sq ie.
Proof. unfold p_visit_is_bool. destruct (snd ip); try discriminate; intros [= <-]; apply has_sq_leaf. Qed.
Lemma p_visit_is_null_sq c ip ie : p_visit_is_null c ip = Some ie -> has_sq ie.
Proof. unfold p_visit_is_null. destruct (snd ip); try discriminate; intros [= <-]; apply has_sq_leaf. Qed.
Lemma p_visit_comparison_sq c ip v op ie : p_visit_comparison c ip v op = Some ie -> has_sq ie.
Proof.
  unfold p_visit_comparison. destruct (snd ip); try discriminate.
  - destruct (lit_is_null v); [discriminate|]. intros [= <-]. apply has_sq_leaf.
  - destruct op; try discriminate; intros [= <-]; apply has_sq_leaf.
Qed.
Lemma p_visit_scalar_function_sq c ip f arg ie : p_visit_scalar_function c ip f arg = Some ie -> has_sq ie.
Proof.
  unfold p_visit_scalar_function. destruct (snd ip); try discriminate.
  - destruct arg as [[|v]|]; try discriminate. destruct f; try discriminate; intros [= <-]; apply has_sq_leaf.
  - destruct arg as [[|v]|]; try discriminate. destruct f; try discriminate; intros [= <-]; apply has_sq_leaf.
Qed.

Lemma find_map_sq {A} (f : A -> option iexp) l ie :
  (forall x y, f x = Some y -> has_sq y) -> find_map f l = Some ie -> has_sq ie.
Proof. intros H E. destruct (find_map_some _ _ _ E) as [x [_ Hx]]. exact (H _ _ Hx). Qed.

Lemma maybe_not_sq x : has_sq x ->
  maybe_not x <> Panic /\ maybe_not x <> Err /\ forall y, maybe_not x = Ok (Some y) -> has_sq y.
Proof.
  unfold has_sq, maybe_not. destruct (scalar_query x) as [sq|]; [|congruence]. intros _.
  destruct (refine_expr x).
  - repeat split; try discriminate.
  - destruct (s_needs_recheck sq); repeat split; try discriminate. intros y [= <-]. cbn. discriminate.
Qed.

Lemma negate_if_sq neg o : (forall ie, o = Some ie -> has_sq ie) ->
  negate_if neg o <> Panic /\ negate_if neg o <> Err /\ forall y, negate_if neg o = Ok (Some y) -> has_sq y.
Proof.
  intros H. unfold negate_if. destruct o as [ie|].
  - destruct neg.
    + apply maybe_not_sq. apply H. reflexivity.
    + repeat split; try discriminate. intros y [= <-]. apply H. reflexivity.
  - repeat split; try discriminate.
Qed.

Lemma maybe_range_sq info a b ie : maybe_range info a b = Some ie -> has_sq ie.
Proof.
  unfold maybe_range. destruct a; try discriminate. destruct b; try discriminate.
  destruct (maybe_indexed_column info l) as [[lc ci]|]; [|discriminate].
  destruct (maybe_column l0); [|discriminate]. destruct (negb (lc =? n)); [discriminate|].
  destruct (maybe_scalar r); [|discriminate]. destruct (maybe_scalar r0); [|discriminate].
  match goal with |- match ?b with _ => _ end = _ -> _ => destruct b as [[lo hi]|] end; [|discriminate].
  apply find_map_sq. intros x y. apply p_visit_between_sq.
Qed.

Lemma ie_and_sq x y : has_sq x -> has_sq (ie_and x y).
Proof. unfold has_sq, ie_and. cbn. destruct (scalar_query x), (scalar_query y); cbn; congruence. Qed.
Lemma ie_refine_sq x e : has_sq x -> has_sq (ie_refine x e).
Proof. unfold has_sq, ie_refine. destruct (refine_expr x); cbn; auto. Qed.
Lemma maybe_or_sq x y z : maybe_or x y = Some z -> has_sq z.
Proof.
  unfold maybe_or, has_sq. destruct (scalar_query x); [|discriminate]. destruct (scalar_query y); [|discriminate].
  destruct (refine_expr x); [discriminate|]. destruct (refine_expr y); [discriminate|]. intros [= <-]. cbn. discriminate.
Qed.

Lemma visit_node_unfold info e depth :
  visit_node info e depth =
  if MAX_DEPTH <=? depth then Err
  else
    match e with
    | XBetween neg t lo hi => visit_between info neg t lo hi
    | XCol c => Ok (visit_column info c)
    | XInList neg t items => visit_in_list info neg t items
    | XIsFalse x => Ok (visit_is_bool info x false)
    | XIsTrue x => Ok (visit_is_bool info x true)
    | XIsNull t => visit_is_null info t false
    | XIsNotNull t => visit_is_null info t true
    | XNot x =>
        match visit_node info x (depth + 1) with
        | Ok (Some node) => maybe_not node
        | Ok None => Ok None
        | Err => Err
        | Panic => Panic
        end
    | XCmp op l r =>
        match op with
        | ONotEq => negate_if true (visit_comparison info op l r)
        | _ => Ok (visit_comparison info op l r)
        end
    | XAnd a b =>
        match maybe_range info a b with
        | Some range_expr => Ok (Some range_expr)
        | None =>
            match visit_node info a (depth + 1) with
            | Ok lft =>
                match visit_node info b (depth + 1) with
                | Ok rgt =>
                    Ok (match lft, rgt with
                        | Some l, Some r => Some (ie_and l r)
                        | Some l, None => Some (ie_refine l b)
                        | None, Some r => Some (ie_refine r a)
                        | None, None => None
                        end)
                | Err => Err
                | Panic => Panic
                end
            | Err => Err
            | Panic => Panic
            end
        end
    | XOr a b =>
        match visit_node info a (depth + 1) with
        | Ok lft =>
            match visit_node info b (depth + 1) with
            | Ok rgt =>
                Ok (match lft, rgt with
                    | Some l, Some r => maybe_or l r
                    | _, _ => None
                    end)
            | Err => Err
            | Panic => Panic
            end
        | Err => Err
        | Panic => Panic
        end
    | XFn f t arg => Ok (visit_scalar_fn info f t arg)
    | XOther _ => Ok None
    end.
Proof. destruct e; reflexivity. Qed.

Ltac triv3 := split; [discriminate | split; [discriminate | intros ? [=]]].

(* results of the leaf visitors carry a scalar query *)
Lemma visit_between_sq info neg t lo hi :
  visit_between info neg t lo hi <> Panic /\ visit_between info neg t lo hi <> Err /\
  forall y, visit_between info neg t lo hi = Ok (Some y) -> has_sq y.
Proof.
  unfold visit_between. destruct (maybe_indexed_column info t) as [[c ci]|]; [|triv3].
  destruct (maybe_scalar lo); [|triv3]. destruct (maybe_scalar hi); [|triv3].
  apply negate_if_sq. intros ie. apply find_map_sq. intros x y. apply p_visit_between_sq.
Qed.
Lemma visit_in_list_sq info neg t items :
  visit_in_list info neg t items <> Panic /\ visit_in_list info neg t items <> Err /\
  forall y, visit_in_list info neg t items = Ok (Some y) -> has_sq y.
Proof.
  unfold visit_in_list. destruct (maybe_indexed_column info t) as [[c ci]|]; [|triv3].
  destruct (maybe_scalar_list items); [|triv3].
  apply negate_if_sq. intros ie. apply find_map_sq. intros x y. apply p_visit_in_list_sq.
Qed.
Lemma visit_is_null_sq info t neg :
  visit_is_null info t neg <> Panic /\ visit_is_null info t neg <> Err /\
  forall y, visit_is_null info t neg = Ok (Some y) -> has_sq y.
Proof.
  unfold visit_is_null. destruct (maybe_indexed_column info t) as [[c ci]|]; [|triv3].
  apply negate_if_sq. intros ie. apply find_map_sq. intros x y. apply p_visit_is_null_sq.
Qed.
Lemma visit_is_bool_sq info x v ie : visit_is_bool info x v = Some ie -> has_sq ie.
Proof.
  unfold visit_is_bool. destruct x; try discriminate. destruct (info c) as [ci|]; [|discriminate].
  destruct (ci_bool ci); [|discriminate]. apply find_map_sq. intros a b. apply p_visit_is_bool_sq.
Qed.
Lemma visit_column_sq info c ie : visit_column info c = Some ie -> has_sq ie.
Proof.
  unfold visit_column. destruct (info c) as [ci|]; [|discriminate].
  destruct (ci_bool ci); [|discriminate]. apply find_map_sq. intros a b. apply p_visit_is_bool_sq.
Qed.
Lemma visit_comparison_sq info op l r ie : visit_comparison info op l r = Some ie -> has_sq ie.
Proof.
  unfold visit_comparison. destruct (maybe_indexed_column info l) as [[c ci]|]; [|discriminate].
  destruct (maybe_scalar r); [|discriminate]. apply find_map_sq. intros a b. apply p_visit_comparison_sq.
Qed.
Lemma visit_scalar_fn_sq info f t arg ie : visit_scalar_fn info f t arg = Some ie -> has_sq ie.
Proof.
  unfold visit_scalar_fn. destruct (maybe_indexed_column info t) as [[c ci]|]; [|discriminate].
  apply find_map_sq. intros a b. apply p_visit_scalar_function_sq.
Qed.

(* visit_node never panics, and every node it returns has an index part *)
Lemma visit_node_sq info e : forall depth,
  visit_node info e depth <> Panic /\ forall ie, visit_node info e depth = Ok (Some ie) -> has_sq ie.
Proof.
  induction e as [c|op l r|neg t lo hi|neg t items|t|t|x IH|x IH|x IH|a IHa b IHb|a IHa b IHb|f t arg|k];
    intro depth; rewrite visit_node_unfold; destruct (MAX_DEPTH <=? depth); try solve [split; [discriminate | intros ? [=]]].
  - split; [discriminate|]. intros ie [= E]. exact (visit_column_sq _ _ _ E).
  - destruct op; try (split; [discriminate|]; intros ie [= E]; exact (visit_comparison_sq _ _ _ _ _ E)).
    destruct (negate_if_sq true (visit_comparison info ONotEq l r)) as [H1 [_ H3]];
      [intros ie E; exact (visit_comparison_sq _ _ _ _ _ E) | split; assumption].
  - destruct (visit_between_sq info neg t lo hi) as [H1 [_ H3]]. split; assumption.
  - destruct (visit_in_list_sq info neg t items) as [H1 [_ H3]]. split; assumption.
  - destruct (visit_is_null_sq info t false) as [H1 [_ H3]]. split; assumption.
  - destruct (visit_is_null_sq info t true) as [H1 [_ H3]]. split; assumption.
  - split; [discriminate|]. intros ie [= E]. exact (visit_is_bool_sq _ _ _ _ E).
  - split; [discriminate|]. intros ie [= E]. exact (visit_is_bool_sq _ _ _ _ E).
  - destruct (IH (depth + 1)) as [Hp Hs]. destruct (visit_node info x (depth + 1)) as [[node|]| |]; try congruence;
      try solve [split; [discriminate | intros ? [=]]].
    destruct (maybe_not_sq node (Hs node eq_refl)) as [H1 [_ H3]]. split; assumption.
  - destruct (maybe_range info a b) as [re|] eqn:Er.
    + split; [discriminate|]. intros ie [= <-]. exact (maybe_range_sq _ _ _ _ Er).
    + destruct (IHa (depth + 1)) as [Hpa Hsa]. destruct (IHb (depth + 1)) as [Hpb Hsb].
      destruct (visit_node info a (depth + 1)) as [lft| |]; try congruence; try solve [split; [discriminate | intros ? [=]]].
      destruct (visit_node info b (depth + 1)) as [rgt| |]; try congruence; try solve [split; [discriminate | intros ? [=]]].
      split; [discriminate|]. intros ie [= E]. destruct lft as [l|], rgt as [r|]; try discriminate; injection E as <-.
      * apply ie_and_sq. apply Hsa. reflexivity.
      * apply ie_refine_sq. apply Hsa. reflexivity.
      * apply ie_refine_sq. apply Hsb. reflexivity.
  - destruct (IHa (depth + 1)) as [Hpa Hsa]. destruct (IHb (depth + 1)) as [Hpb Hsb].
    destruct (visit_node info a (depth + 1)) as [lft| |]; try congruence; try solve [split; [discriminate | intros ? [=]]].
    destruct (visit_node info b (depth + 1)) as [rgt| |]; try congruence; try solve [split; [discriminate | intros ? [=]]].
    split; [discriminate|]. intros ie [= E]. destruct lft as [l|], rgt as [r|]; try discriminate.
    exact (maybe_or_sq _ _ _ E).
  - split; [discriminate|]. intros ie [= E]. exact (visit_scalar_fn_sq _ _ _ _ _ E).
Qed.

(* depth: the translator fails only on trees nested 500 deep *)
Lemma visit_node_no_err info e : forall depth, depth + sdepth e < MAX_DEPTH -> visit_node info e depth <> Err.
Proof.
  induction e as [c|op l r|neg t lo hi|neg t items|t|t|x IH|x IH|x IH|a IHa b IHb|a IHa b IHb|f t arg|k];
    intros depth Hd; rewrite visit_node_unfold; cbn [sdepth] in Hd;
    (destruct (MAX_DEPTH <=? depth) eqn:El; [apply N.leb_le in El; lia|]); try discriminate.
  - destruct op; try discriminate.
    destruct (negate_if_sq true (visit_comparison info ONotEq l r)) as [_ [H2 _]];
      [intros ie E; exact (visit_comparison_sq _ _ _ _ _ E) | exact H2].
  - apply visit_between_sq.
  - apply visit_in_list_sq.
  - apply visit_is_null_sq.
  - apply visit_is_null_sq.
  - assert (Hx : visit_node info x (depth + 1) <> Err) by (apply IH; lia).
    destruct (visit_node_sq info x (depth + 1)) as [_ Hs].
    destruct (visit_node info x (depth + 1)) as [[node|]| |]; try congruence; try discriminate.
    apply maybe_not_sq. apply Hs. reflexivity.
  - destruct (maybe_range info a b); [discriminate|].
    assert (Ha : visit_node info a (depth + 1) <> Err) by (apply IHa; lia).
    assert (Hb : visit_node info b (depth + 1) <> Err) by (apply IHb; lia).
    destruct (visit_node info a (depth + 1)); try congruence; try discriminate.
    destruct (visit_node info b (depth + 1)); try congruence; discriminate.
  - assert (Ha : visit_node info a (depth + 1) <> Err) by (apply IHa; lia).
    assert (Hb : visit_node info b (depth + 1) <> Err) by (apply IHb; lia).
    destruct (visit_node info a (depth + 1)); try congruence; try discriminate.
    destruct (visit_node info b (depth + 1)); try congruence; discriminate.
Qed.

(* ================================================================ the translation preserves the SQL meaning *)
Lemma row_ok_bool info r c ci z : row_ok info r = true -> info c = Some ci -> ci_bool ci = true ->
  val r c = Some z -> z = 0%Z \/ z = 1%Z.
Proof.
  intros Hok Hi Hb Hv. unfold row_ok in Hok. rewrite forallb_forall in Hok.
  assert (Hin : In c (columns_of r)).
  { unfold columns_of. apply in_map_iff. exists (N.to_nat c). split; [apply N2Nat.id|]. apply in_seq.
    unfold val in Hv. destruct (Nat.lt_ge_cases (N.to_nat c) (length (rvals r))) as [Hl|Hl]; [lia|].
    rewrite nth_overflow in Hv by exact Hl. discriminate. }
  specialize (Hok c Hin). rewrite Hi, Hv, Hb in Hok. lia.
Qed.

Section Translate.
Variable en : env.
Variable info : index_info.

Fixpoint struth (r : rowT) (e : sidx) : bool :=
  match e with
  | SNot a => negb (struth r a)
  | SAnd a b => struth r a && struth r b
  | SOr a b => struth r a || struth r b
  | SQuery l => qmatch en (l_query l) (val r (l_col l))
  end.

Definition parsers_ok : Prop :=
  forall c ci ip, info c = Some ci -> In ip (ci_parsers ci) -> parser_ok (snd ip) = true.
Definition fn_definite : Prop := forall f x a, fn_sem en f (Some x) (Some a) <> None.

Hypothesis Hpar : parsers_ok.
Hypothesis Hfn : fn_definite.

(* [t] is the SQL value of the visited expression on row r, [n3] tells whether a three-valued leaf on an
   indexed column that is NULL in r occurs in it *)
Definition sound_tv (r : rowT) (t : tv) (n3 : bool) (ie : iexp) : Prop :=
  exists sq, scalar_query ie = Some sq /\
    is_true t = struth r sq && opt_true en r (refine_expr ie) /\
    (refine_expr ie = None -> s_needs_recheck sq = false -> n3 = false -> t = Some (struth r sq)).

Lemma sound_tv_leaf r t n3 c i q rc :
  is_true t = qmatch en q (val r c) ->
  (rc = false -> n3 = false -> t = Some (qmatch en q (val r c))) ->
  sound_tv r t n3 (index_query_with_recheck c i q rc).
Proof.
  intros HA HB. eexists. split; [reflexivity|]. cbn [refine_expr index_query_with_recheck opt_true struth l_query l_col s_needs_recheck l_recheck].
  split; [rewrite andb_true_r; exact HA|]. intros _ Hrc Hn. apply HB; assumption.
Qed.

Lemma maybe_not_sound r t n3 n3' ie y :
  sound_tv r t n3 ie -> n3 = false -> maybe_not ie = Ok (Some y) -> sound_tv r (not3 t) n3' y.
Proof.
  intros [sq [Hsq [HA HB]]] Hn. unfold maybe_not. rewrite Hsq.
  destruct (refine_expr ie) eqn:Er; [discriminate|].
  destruct (s_needs_recheck sq) eqn:Erc; [discriminate|]. intros [= <-].
  specialize (HB eq_refl eq_refl Hn). subst t.
  exists (SNot sq). split; [reflexivity|]. cbn [refine_expr opt_true struth not3 is_true s_needs_recheck].
  split; [destruct (struth r sq); reflexivity|]. intros _ _ _. reflexivity.
Qed.

Lemma negate_if_false_sound r t n3 o y : (forall ie, o = Some ie -> sound_tv r t n3 ie) ->
  negate_if false o = Ok (Some y) -> sound_tv r t n3 y.
Proof. unfold negate_if. destruct o; [|discriminate]. intros H [= <-]. apply H. reflexivity. Qed.

Lemma negate_if_true_sound r t n3 n3' o y : (forall ie, o = Some ie -> sound_tv r t n3 ie) -> n3 = false ->
  negate_if true o = Ok (Some y) -> sound_tv r (not3 t) n3' y.
Proof.
  unfold negate_if. destruct o as [ie|]; [|discriminate]. intros H Hn E.
  exact (maybe_not_sound r t n3 n3' ie y (H ie eq_refl) Hn E).
Qed.

Lemma col_null_indexed_col r c ci : info c = Some ci ->
  col_null_indexed info r (TCol c) = match val r c with None => true | Some _ => false end.
Proof. intro H. cbn [col_null_indexed]. rewrite H. reflexivity. Qed.

(* ---- comparisons *)
Lemma visit_comparison_noteq l rt : visit_comparison info ONotEq l rt = visit_comparison info OEq l rt.
Proof. reflexivity. Qed.

Lemma visit_comparison_sound r op l rt ie : op <> ONotEq ->
  visit_comparison info op l rt = Some ie ->
  sound_tv r (cmp3 op (eval_term en r l) (eval_term en r rt)) (col_null_indexed info r l) ie.
Proof.
  intros Hop. unfold visit_comparison.
  destruct (maybe_indexed_column info l) as [[c ci]|] eqn:El; [|discriminate].
  destruct (maybe_indexed_column_some _ _ _ _ El) as [-> Hi].
  destruct (maybe_scalar rt) as [v|] eqn:Ev; [|discriminate]. rewrite (maybe_scalar_some _ _ Ev).
  intro Ef. destruct (find_map_some _ _ _ Ef) as [ip [Hin Hp]].
  specialize (Hpar c ci ip Hi Hin). rewrite (col_null_indexed_col r c ci Hi).
  cbn [eval_term]. unfold p_visit_comparison in Hp. destruct (snd ip) as [rc|rc| |rc]; try discriminate.
  - destruct v as [|z]; cbn [lit_is_null] in Hp; [discriminate|]. injection Hp as <-.
    apply sound_tv_leaf; destruct (val r c) as [x|]; destruct op; try congruence;
      cbn [cmp3 lit_val qmatch above below cmp_holds lit_eqb_val]; rewrite ?is_true_some; intros; try reflexivity; try discriminate;
      rewrite ?andb_true_l, ?andb_true_r, ?(Z.eqb_sym x z); reflexivity.
  - cbn [parser_ok] in Hpar. subst rc. destruct op; try congruence; try discriminate. injection Hp as <-.
    apply sound_tv_leaf; [|discriminate].
    destruct (val r c) as [x|], v as [|z]; cbn [cmp3 lit_val qmatch lit_eqb_val cmp_holds]; rewrite ?is_true_some; try reflexivity.
    apply Z.eqb_sym.
Qed.

Lemma not3_cmp_eq a b : not3 (cmp3 OEq a b) = cmp3 ONotEq a b.
Proof. destruct a, b; reflexivity. Qed.

(* ---- BETWEEN *)
Lemma p_visit_between_sound r c ci ip lv hv ie : info c = Some ci -> In ip (ci_parsers ci) ->
  p_visit_between c ip (BIncl lv) (BIncl hv) = Some ie ->
  sound_tv r (and3 (cmp3 OGtEq (val r c) (lit_val lv)) (cmp3 OLtEq (val r c) (lit_val hv)))
           (match val r c with None => true | Some _ => false end) ie.
Proof.
  intros Hi Hin. unfold p_visit_between. destruct (snd ip) as [rc|rc| |rc]; try discriminate.
  destruct lv as [|lz]; cbn [bnd_is_null lit_is_null]; [discriminate|].
  destruct hv as [|hz]; cbn [bnd_is_null lit_is_null]; [discriminate|]. intros [= <-].
  apply sound_tv_leaf; destruct (val r c) as [x|]; cbn [cmp3 lit_val and3 is_true qmatch above below cmp_holds];
    intros; try reflexivity; try discriminate.
  - destruct (lz <=? x)%Z, (x <=? hz)%Z; reflexivity.
  - destruct (lz <=? x)%Z, (x <=? hz)%Z; reflexivity.
Qed.

(* ---- IN *)
Lemma in3_true x vs : is_true (in3 x (map lit_val vs)) = existsb (fun l => lit_eqb_val l x) vs.
Proof.
  induction vs as [|v tl IH]; [reflexivity|]. destruct v as [|z]; cbn [map lit_val in3 existsb lit_eqb_val].
  - rewrite <- IH. destruct (in3 x (map lit_val tl)) as [[|]|]; reflexivity.
  - rewrite (Z.eqb_sym x z). destruct (z =? x)%Z; [reflexivity | exact IH].
Qed.
Lemma in3_definite x vs : existsb lit_is_null vs = false ->
  in3 x (map lit_val vs) = Some (existsb (fun l => lit_eqb_val l x) vs).
Proof.
  induction vs as [|v tl IH]; [reflexivity|]. destruct v as [|z]; cbn [map lit_val in3 existsb lit_eqb_val lit_is_null orb].
  - discriminate.
  - intro H. rewrite (Z.eqb_sym x z). destruct (z =? x)%Z; [reflexivity | exact (IH H)].
Qed.
Lemma map_eval_lits r vs : map (eval_term en r) (map TLit vs) = map lit_val vs.
Proof. rewrite map_map. reflexivity. Qed.

Lemma p_visit_in_list_sound r c ci ip vs ie : info c = Some ci -> In ip (ci_parsers ci) ->
  p_visit_in_list c ip vs = Some ie ->
  sound_tv r (inlist3 (val r c) (map lit_val vs)) (match val r c with None => true | Some _ => false end) ie.
Proof.
  intros Hi Hin. specialize (Hpar c ci ip Hi Hin). unfold p_visit_in_list.
  destruct (snd ip) as [rc|rc| |rc]; try discriminate.
  - destruct (existsb lit_is_null vs) eqn:En; [discriminate|]. intros [= <-].
    apply sound_tv_leaf; destruct (val r c) as [x|]; cbn [inlist3 qmatch is_true]; intros; try reflexivity; try discriminate.
    + apply in3_true.
    + apply in3_definite. exact En.
  - cbn [parser_ok] in Hpar. subst rc. intros [= <-].
    apply sound_tv_leaf; [|discriminate]. destruct (val r c) as [x|]; cbn [inlist3 qmatch is_true]; [apply in3_true | reflexivity].
Qed.

(* ---- IS NULL *)
Lemma p_visit_is_null_sound r c ip n3 ie : p_visit_is_null c ip = Some ie ->
  sound_tv r (Some (match val r c with None => true | Some _ => false end)) n3 ie.
Proof.
  unfold p_visit_is_null. destruct (snd ip) as [rc|rc| |rc]; try discriminate; intros [= <-];
    apply sound_tv_leaf; destruct (val r c); intros; reflexivity.
Qed.

(* ---- Boolean columns *)
Lemma p_visit_is_bool_sound r c ci ip (b : bool) ie : row_ok info r = true -> info c = Some ci -> ci_bool ci = true ->
  p_visit_is_bool c ip b = Some ie ->
  (* the two-valued tests `c IS TRUE` / `c IS FALSE` *)
  (forall n3, sound_tv r (Some (match bool_of_val (val r c) with Some v => Bool.eqb v b | None => false end)) n3 ie) /\
  (* the bare column (b = true): NULL when the column is NULL *)
  (b = true -> sound_tv r (bool_of_val (val r c)) (match val r c with None => true | Some _ => false end) ie).
Proof.
  intros Hok Hi Hb. unfold p_visit_is_bool.
  assert (Hq : forall x, val r c = Some x -> lit_eqb_val (bool_lit b) x = Bool.eqb (x =? 1)%Z b).
  { intros x Hx. destruct (row_ok_bool _ _ _ _ _ Hok Hi Hb Hx) as [-> | ->]; destruct b; reflexivity. }
  destruct (snd ip) as [rc|rc| |rc]; try discriminate; intros [= <-]; (split; [intro n3|intros ->]);
    apply sound_tv_leaf; destruct (val r c) as [x|] eqn:Ex; cbn [bool_of_val qmatch]; rewrite ?is_true_some; intros;
    try reflexivity; try discriminate; rewrite ?(Hq x eq_refl); try reflexivity;
    destruct (x =? 1)%Z; reflexivity.
Qed.

(* ---- scalar functions *)
Lemma p_visit_scalar_function_sound r c ci ip f arg ie : info c = Some ci -> In ip (ci_parsers ci) ->
  p_visit_scalar_function c ip f (maybe_scalar arg) = Some ie ->
  sound_tv r (fn_sem en f (val r c) (eval_term en r arg)) (match val r c with None => true | Some _ => false end) ie.
Proof.
  intros Hi Hin. unfold p_visit_scalar_function.
  assert (Hdef : forall g v, match val r c with Some _ => false | None => true end = false ->
            fn_sem en g (val r c) (Some v) = Some (is_true (fn_sem en g (val r c) (Some v)))).
  { intros g v Hn. destruct (val r c) as [x|]; [|discriminate].
    destruct (fn_sem en g (Some x) (Some v)) as [[|]|] eqn:Ef; try reflexivity. exfalso. exact (Hfn _ _ _ Ef). }
  destruct (snd ip) as [rc|rc| |rc]; try discriminate.
  - destruct (maybe_scalar arg) as [[|v]|] eqn:Ea; try discriminate. rewrite (maybe_scalar_some _ _ Ea). cbn [eval_term lit_val].
    destruct f; try discriminate; intros [= <-]; apply sound_tv_leaf; cbn [qmatch lit_val]; try reflexivity;
      intros _ Hn; apply Hdef; exact Hn.
  - destruct (maybe_scalar arg) as [[|v]|] eqn:Ea; try discriminate. rewrite (maybe_scalar_some _ _ Ea). cbn [eval_term lit_val].
    destruct f; try discriminate; intros [= <-]; apply sound_tv_leaf; cbn [qmatch lit_val]; try reflexivity;
      intros _ Hn; apply Hdef; exact Hn.
Qed.

(* ---- x >= a AND x < b fused into one range *)
Lemma maybe_range_sound r a b ie : maybe_range info a b = Some ie ->
  range_swap_hit info r (XAnd a b) = false ->
  sound_tv r (and3 (eval en r a) (eval en r b)) (nulls3 info r a || nulls3 info r b) ie.
Proof.
  intros Em Hs. cbn [range_swap_hit] in Hs. rewrite Em in Hs. revert Em Hs. unfold maybe_range.
  destruct a as [ | opl ll lr | | | | | | | | | | | ]; try discriminate.
  destruct b as [ | opr rl rr | | | | | | | | | | | ]; try discriminate.
  destruct (maybe_indexed_column info ll) as [[lc ci]|] eqn:El; [|discriminate].
  destruct (maybe_indexed_column_some _ _ _ _ El) as [-> Hi].
  destruct (maybe_column rl) as [rc|] eqn:Erl; [|discriminate].
  destruct rl as [rc'| |]; try discriminate. injection Erl as ->.
  destruct (lc =? rc) eqn:Ec; cbn [negb]; [|discriminate]. apply N.eqb_eq in Ec. subst rc.
  destruct (maybe_scalar lr) as [lv|] eqn:Elv; [|discriminate]. rewrite (maybe_scalar_some _ _ Elv).
  destruct (maybe_scalar rr) as [rv|] eqn:Erv; [|discriminate]. rewrite (maybe_scalar_some _ _ Erv).
  cbn [nulls3]. rewrite (col_null_indexed_col r lc ci Hi), orb_diag. cbn [eval eval_term].
  assert (Hgen : forall lo hi, find_map (fun ip => p_visit_between lc ip lo hi) (ci_parsers ci) = Some ie ->
            exists i rcq, ie = index_query_with_recheck lc i (QRange lo hi) rcq /\ bnd_is_null lo = false /\ bnd_is_null hi = false).
  { intros lo hi Ef. destruct (find_map_some _ _ _ Ef) as [ip [_ Hp]]. unfold p_visit_between in Hp.
    destruct (snd ip) as [rcq|rcq| |rcq]; try discriminate.
    destruct (bnd_is_null lo); [discriminate|]. destruct (bnd_is_null hi); [discriminate|]. injection Hp as <-.
    exists (fst ip), rcq. repeat split. }
  remember (val r lc) as vx eqn:Evx.
  destruct opl, opr; try discriminate; intros Ef Hs; destruct (Hgen _ _ Ef) as [i [rcq [-> [Hlo Hhi]]]];
    cbn [bnd_is_null] in Hlo, Hhi;
    destruct lv as [|lz]; try discriminate; destruct rv as [|rz]; try discriminate;
    cbn [swapped_pair andb] in Hs;
    apply sound_tv_leaf; rewrite <- Evx; destruct vx as [x|]; cbn [cmp3 lit_val and3 qmatch above below cmp_holds];
    intros; try reflexivity; try discriminate;
    repeat match goal with |- context [(?p <? ?q)%Z] => destruct (Z.ltb_spec p q) end;
    repeat match goal with |- context [(?p <=? ?q)%Z] => destruct (Z.leb_spec p q) end;
    try reflexivity; exfalso;
    repeat match type of Hs with context [(?p <? ?q)%Z] => destruct (Z.ltb_spec p q) end;
    repeat match type of Hs with context [(?p =? ?q)%Z] => destruct (Z.eqb_spec p q) end;
    cbn [orb andb] in Hs; try discriminate; lia.
Qed.
(* ---- AND / OR / refine *)
Lemma ie_and_sound r ta tb na nb x y : sound_tv r ta na x -> sound_tv r tb nb y ->
  sound_tv r (and3 ta tb) (na || nb) (ie_and x y).
Proof.
  intros [sa [Ea [HAa HBa]]] [sb [Eb [HAb HBb]]]. exists (SAnd sa sb). unfold ie_and. rewrite Ea, Eb.
  split; [reflexivity|]. cbn [scalar_query refine_expr opt_combine struth s_needs_recheck].
  split.
  - rewrite is_true_and3, HAa, HAb. destruct (refine_expr x), (refine_expr y); cbn [opt_combine opt_true eval];
      rewrite ?is_true_and3; destruct (struth r sa), (struth r sb); cbn [andb]; try reflexivity;
      rewrite ?andb_true_r, ?andb_false_r; reflexivity.
  - destruct (refine_expr x), (refine_expr y); cbn [opt_combine]; try discriminate.
    intros _ Hrc Hn. apply orb_false_iff in Hrc as [Hra Hrb]. apply orb_false_iff in Hn as [Hna Hnb].
    rewrite (HBa eq_refl Hra Hna), (HBb eq_refl Hrb Hnb). destruct (struth r sa), (struth r sb); reflexivity.
Qed.

Lemma ie_refine_sound_l r ta tb na n x e : sound_tv r ta na x -> tb = eval en r e ->
  sound_tv r (and3 ta tb) n (ie_refine x e).
Proof.
  intros [sa [Ea [HAa _]]] ->. exists sa. unfold ie_refine.
  destruct (refine_expr x) as [rf|] eqn:Er; cbn [scalar_query refine_expr]; (split; [exact Ea|]); (split; [|discriminate]);
    rewrite is_true_and3, HAa; cbn [opt_true eval]; rewrite ?is_true_and3, ?andb_true_r, ?andb_assoc; reflexivity.
Qed.
Lemma ie_refine_sound_r r ta tb nb n y e : sound_tv r tb nb y -> ta = eval en r e ->
  sound_tv r (and3 ta tb) n (ie_refine y e).
Proof.
  intros [sb [Eb [HAb _]]] ->. exists sb. unfold ie_refine.
  destruct (refine_expr y) as [rf|] eqn:Er; cbn [scalar_query refine_expr]; (split; [exact Eb|]); (split; [|discriminate]);
    rewrite is_true_and3, HAb; cbn [opt_true eval]; rewrite ?is_true_and3, ?andb_true_r.
  - destruct (is_true (eval en r e)), (struth r sb), (is_true (eval en r rf)); reflexivity.
  - apply andb_comm.
Qed.

Lemma maybe_or_sound r ta tb na nb x y z : sound_tv r ta na x -> sound_tv r tb nb y -> maybe_or x y = Some z ->
  sound_tv r (or3 ta tb) (na || nb) z.
Proof.
  intros [sa [Ea [HAa HBa]]] [sb [Eb [HAb HBb]]]. unfold maybe_or. rewrite Ea, Eb.
  destruct (refine_expr x) eqn:Erx; [discriminate|]. destruct (refine_expr y) eqn:Ery; [discriminate|]. intros [= <-].
  exists (SOr sa sb). split; [reflexivity|]. cbn [scalar_query refine_expr opt_true struth s_needs_recheck]. split.
  - rewrite is_true_or3, HAa, HAb. cbn [opt_true]. rewrite !andb_true_r. reflexivity.
  - intros _ Hrc Hn. apply orb_false_iff in Hrc as [Hra Hrb]. apply orb_false_iff in Hn as [Hna Hnb].
    rewrite (HBa eq_refl Hra Hna), (HBb eq_refl Hrb Hnb). destruct (struth r sa), (struth r sb); reflexivity.
Qed.

(* a negation over a NULL-valued leaf is in particular a NULL-valued leaf *)
Lemma neg_over_null_nulls3 r e : neg_over_null info r e = true -> nulls3 info r e = true.
Proof.
  induction e as [c|op l rt|neg t lo hi|neg t items|t|t|x IH|x IH|x IH|a IHa b IHb|a IHa b IHb|f t arg|k];
    cbn [neg_over_null nulls3]; try discriminate; try tauto.
  - destruct op; try discriminate; tauto.
  - destruct neg; [tauto | discriminate].
  - destruct neg; [tauto | discriminate].
  - intro H. apply orb_true_iff in H as [H|H]; apply orb_true_iff; [left; apply IHa | right; apply IHb]; exact H.
  - intro H. apply orb_true_iff in H as [H|H]; apply orb_true_iff; [left; apply IHa | right; apply IHb]; exact H.
Qed.

(* the main lemma: whatever visit_node returns means, row by row, what the SQL predicate means - outside
   the two finding classes *)
Lemma visit_node_sound r : row_ok info r = true -> forall e depth ie,
  visit_node info e depth = Ok (Some ie) ->
  neg_over_null info r e = false -> range_swap_hit info r e = false ->
  sound_tv r (eval en r e) (nulls3 info r e) ie.
Proof.
  intros Hok.
  induction e as [c|op l rt|neg t lo hi|neg t items|t|t|x IH|x IH|x IH|a IHa b IHb|a IHa b IHb|f t arg|k];
    intros depth ie; rewrite visit_node_unfold; (destruct (MAX_DEPTH <=? depth); [discriminate|]);
    cbn [neg_over_null range_swap_hit nulls3 eval].
  - (* bare column *) intros [= E] _ _. unfold visit_column in E.
    destruct (info c) as [ci|] eqn:Hi; [|discriminate]. destruct (ci_bool ci) eqn:Hb; [|discriminate].
    destruct (find_map_some _ _ _ E) as [ip [Hin Hp]].
    rewrite (col_null_indexed_col r c ci Hi).
    exact (proj2 (p_visit_is_bool_sound r c ci ip true ie Hok Hi Hb Hp) eq_refl).
  - (* comparison *) destruct op.
    + intros [= E] _ _. apply visit_comparison_sound; [discriminate | exact E].
    + intros E Hn _. rewrite visit_comparison_noteq in E. rewrite <- not3_cmp_eq.
      eapply negate_if_true_sound; [|exact Hn|exact E].
      intros ie0 E0. apply visit_comparison_sound; [discriminate | exact E0].
    + intros [= E] _ _. apply visit_comparison_sound; [discriminate | exact E].
    + intros [= E] _ _. apply visit_comparison_sound; [discriminate | exact E].
    + intros [= E] _ _. apply visit_comparison_sound; [discriminate | exact E].
    + intros [= E] _ _. apply visit_comparison_sound; [discriminate | exact E].
  - (* BETWEEN *) unfold visit_between.
    destruct (maybe_indexed_column info t) as [[c ci]|] eqn:Et; [|discriminate].
    destruct (maybe_indexed_column_some _ _ _ _ Et) as [-> Hi].
    destruct (maybe_scalar lo) as [lv|] eqn:El; [|discriminate]. rewrite (maybe_scalar_some _ _ El).
    destruct (maybe_scalar hi) as [hv|] eqn:Eh; [|discriminate]. rewrite (maybe_scalar_some _ _ Eh).
    rewrite (col_null_indexed_col r c ci Hi). cbn [eval_term].
    assert (Hleaf : forall ie0, find_map (fun ip => p_visit_between c ip (BIncl lv) (BIncl hv)) (ci_parsers ci) = Some ie0 ->
              sound_tv r (and3 (cmp3 OGtEq (val r c) (lit_val lv)) (cmp3 OLtEq (val r c) (lit_val hv)))
                       (match val r c with None => true | Some _ => false end) ie0).
    { intros ie0 E0. destruct (find_map_some _ _ _ E0) as [ip [Hin Hp]]. exact (p_visit_between_sound r c ci ip lv hv ie0 Hi Hin Hp). }
    destruct neg; intros E Hn _.
    + eapply negate_if_true_sound; [exact Hleaf | exact Hn | exact E].
    + eapply negate_if_false_sound; [exact Hleaf | exact E].
  - (* IN *) unfold visit_in_list.
    destruct (maybe_indexed_column info t) as [[c ci]|] eqn:Et; [|discriminate].
    destruct (maybe_indexed_column_some _ _ _ _ Et) as [-> Hi].
    destruct (maybe_scalar_list items) as [vs|] eqn:Ei; [|discriminate]. rewrite (maybe_scalar_list_some _ _ Ei).
    rewrite (col_null_indexed_col r c ci Hi), map_eval_lits. cbn [eval_term].
    assert (Hleaf : forall ie0, find_map (fun ip => p_visit_in_list c ip vs) (ci_parsers ci) = Some ie0 ->
              sound_tv r (inlist3 (val r c) (map lit_val vs)) (match val r c with None => true | Some _ => false end) ie0).
    { intros ie0 E0. destruct (find_map_some _ _ _ E0) as [ip [Hin Hp]]. exact (p_visit_in_list_sound r c ci ip vs ie0 Hi Hin Hp). }
    destruct neg; intros E Hn _.
    + eapply negate_if_true_sound; [exact Hleaf | exact Hn | exact E].
    + eapply negate_if_false_sound; [exact Hleaf | exact E].
  - (* IS NULL *) unfold visit_is_null.
    destruct (maybe_indexed_column info t) as [[c ci]|] eqn:Et; [|discriminate].
    destruct (maybe_indexed_column_some _ _ _ _ Et) as [-> Hi]. cbn [eval_term]. intros E _ _.
    eapply negate_if_false_sound; [|exact E]. intros ie0 E0.
    destruct (find_map_some _ _ _ E0) as [ip [Hin Hp]]. exact (p_visit_is_null_sound r c ip false ie0 Hp).
  - (* IS NOT NULL *) unfold visit_is_null.
    destruct (maybe_indexed_column info t) as [[c ci]|] eqn:Et; [|discriminate].
    destruct (maybe_indexed_column_some _ _ _ _ Et) as [-> Hi]. cbn [eval_term]. intros E _ _.
    replace (Some (match val r c with None => false | Some _ => true end))
      with (not3 (Some (match val r c with None => true | Some _ => false end))) by (destruct (val r c); reflexivity).
    eapply (negate_if_true_sound r _ false); [|reflexivity|exact E]. intros ie0 E0.
    destruct (find_map_some _ _ _ E0) as [ip [Hin Hp]]. exact (p_visit_is_null_sound r c ip false ie0 Hp).
  - (* IS TRUE *) intros [= E] _ _. unfold visit_is_bool in E. destruct x as [c| | | | | | | | | | | | ]; try discriminate.
    destruct (info c) as [ci|] eqn:Hi; [|discriminate]. destruct (ci_bool ci) eqn:Hb; [|discriminate].
    destruct (find_map_some _ _ _ E) as [ip [Hin Hp]]. cbn [eval].
    replace (Some (match bool_of_val (val r c) with Some true => true | _ => false end))
      with (Some (match bool_of_val (val r c) with Some v => Bool.eqb v true | None => false end))
      by (destruct (bool_of_val (val r c)) as [[|]|]; reflexivity).
    apply (proj1 (p_visit_is_bool_sound r c ci ip true ie Hok Hi Hb Hp)).
  - (* IS FALSE *) intros [= E] _ _. unfold visit_is_bool in E. destruct x as [c| | | | | | | | | | | | ]; try discriminate.
    destruct (info c) as [ci|] eqn:Hi; [|discriminate]. destruct (ci_bool ci) eqn:Hb; [|discriminate].
    destruct (find_map_some _ _ _ E) as [ip [Hin Hp]]. cbn [eval].
    replace (Some (match bool_of_val (val r c) with Some false => true | _ => false end))
      with (Some (match bool_of_val (val r c) with Some v => Bool.eqb v false | None => false end))
      by (destruct (bool_of_val (val r c)) as [[|]|]; reflexivity).
    apply (proj1 (p_visit_is_bool_sound r c ci ip false ie Hok Hi Hb Hp)).
  - (* NOT *) intros E Hn Hs.
    destruct (visit_node info x (depth + 1)) as [[node|]| |] eqn:Ex; try discriminate.
    assert (Hn' : neg_over_null info r x = false).
    { destruct (neg_over_null info r x) eqn:En; [|reflexivity]. rewrite (neg_over_null_nulls3 r x En) in Hn. discriminate. }
    exact (maybe_not_sound r _ _ _ node ie (IH (depth + 1) node Ex Hn' Hs) Hn E).
  - (* AND *) intros E Hn Hs. destruct (maybe_range info a b) as [re|] eqn:Er.
    + injection E as <-. apply maybe_range_sound; [exact Er|]. cbn [range_swap_hit]. rewrite Er. exact Hs.
    + apply orb_false_iff in Hn as [Hna Hnb]. apply orb_false_iff in Hs as [Hsa Hsb].
      destruct (visit_node info a (depth + 1)) as [lft| |] eqn:Ea; try discriminate.
      destruct (visit_node info b (depth + 1)) as [rgt| |] eqn:Eb; try discriminate.
      injection E as E. destruct lft as [l|], rgt as [rg|]; try discriminate; injection E as <-.
      * apply ie_and_sound; [exact (IHa _ _ Ea Hna Hsa) | exact (IHb _ _ Eb Hnb Hsb)].
      * eapply ie_refine_sound_l; [exact (IHa _ _ Ea Hna Hsa) | reflexivity].
      * eapply ie_refine_sound_r; [exact (IHb _ _ Eb Hnb Hsb) | reflexivity].
  - (* OR *) intros E Hn Hs. apply orb_false_iff in Hn as [Hna Hnb]. apply orb_false_iff in Hs as [Hsa Hsb].
    destruct (visit_node info a (depth + 1)) as [lft| |] eqn:Ea; try discriminate.
    destruct (visit_node info b (depth + 1)) as [rgt| |] eqn:Eb; try discriminate.
    injection E as E. destruct lft as [l|], rgt as [rg|]; try discriminate.
    exact (maybe_or_sound r _ _ _ _ l rg ie (IHa _ _ Ea Hna Hsa) (IHb _ _ Eb Hnb Hsb) E).
  - (* scalar function *) intros [= E] _ _. unfold visit_scalar_fn in E.
    destruct (maybe_indexed_column info t) as [[c ci]|] eqn:Et; [|discriminate].
    destruct (maybe_indexed_column_some _ _ _ _ Et) as [-> Hi].
    destruct (find_map_some _ _ _ E) as [ip [Hin Hp]].
    rewrite (col_null_indexed_col r c ci Hi). cbn [eval_term].
    exact (p_visit_scalar_function_sound r c ci ip f arg ie Hi Hin Hp).
  - discriminate.
Qed.
End Translate.
