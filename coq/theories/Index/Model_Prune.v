(* C29 - statistics-based pruning: zone map statistics and ZoneMapIndex::evaluate_zone_against_query
   (rust/lance-index/src/scalar/zonemap.rs), the legacy (0.1) page statistics with string bound
   truncation (rust/lance-file/src/previous/writer/statistics.rs) and the interval tests the legacy
   push-down scan derives from them (rust/lance/src/io/exec/pushdown_scan.rs).  Executable definitions only.

   Values travel as their key under the TOTAL order the code uses (ScalarValue::partial_cmp =
   total_cmp for floats; arrow min/max treat NaN as the greatest value): a cell is `option Z`
   (None = NULL); for a float column `nan = Some k` is the key of NaN (every other key is <= k). *)
From LanceV Require Import Common.Base.
Local Open Scope Z_scope.

Definition cellv := option Z.

(* ScalarValue ordering on typed scalars of one type: NULL (None) sorts before every value *)
Definition ole (a b : cellv) : bool :=
  match a, b with
  | None, _ => true
  | Some _, None => false
  | Some x, Some y => x <=? y
  end.
Definition olt (a b : cellv) : bool := negb (ole b a).

Record zstat := { z_min : cellv; z_max : cellv; z_nulls : N; z_nans : N }.

Definition is_nan (nan : option Z) (v : Z) : bool := match nan with Some k => v =? k | None => false end.

(* MinAccumulator / MaxAccumulator over the non-null values (NaN greatest), null_count, count_nans *)
Definition omin (a : cellv) (v : Z) : cellv := match a with None => Some v | Some x => Some (Z.min x v) end.
Definition omax (a : cellv) (v : Z) : cellv := match a with None => Some v | Some x => Some (Z.max x v) end.
Fixpoint zone_stats_acc (nan : option Z) (vs : list cellv) (s : zstat) : zstat :=
  match vs with
  | [] => s
  | None :: tl => zone_stats_acc nan tl {| z_min := z_min s; z_max := z_max s; z_nulls := (z_nulls s + 1)%N; z_nans := z_nans s |}
  | Some v :: tl =>
      zone_stats_acc nan tl
        {| z_min := omin (z_min s) v; z_max := omax (z_max s) v; z_nulls := z_nulls s;
           z_nans := if is_nan nan v then (z_nans s + 1)%N else z_nans s |}
  end.
Definition zone_stats (nan : option Z) (vs : list cellv) : zstat :=
  zone_stats_acc nan vs {| z_min := None; z_max := None; z_nulls := 0; z_nans := 0 |}.

Inductive bound := Unbounded | Included (v : Z) | Excluded (v : Z).
Inductive query :=
| QIsNull
| QEquals (t : cellv)
| QRange (s e : bound)
| QIsIn (vs : list cellv).

Definition max_is_nan (nan : option Z) (z : zstat) : bool :=
  match z_max z with Some m => is_nan nan m | None => false end.

(* evaluate_zone_against_query, arm by arm; `return Ok(..)` inside a bound check is an early return of
   the whole function: modelled with option (Some r = returned r) *)
Definition start_check (nan : option Z) (z : zstat) (s : bound) : bool + bool :=   (* inl = early return *)
  match s with
  | Unbounded => inr true
  | Included v =>
      if is_nan nan v then inl (0 <? z_nans z)%N
      else inr (if max_is_nan nan z then true else ole (Some v) (z_max z))
  | Excluded v =>
      if is_nan nan v then inl false else inr (olt (Some v) (z_max z))
  end.
Definition end_check (nan : option Z) (z : zstat) (e : bound) : bool + bool :=
  match e with
  | Unbounded => inr true
  | Included v =>
      if is_nan nan v then inl ((0 <? z_nans z)%N || ole (z_min z) (Some v))
      else inr (ole (z_min z) (Some v))
  | Excluded v =>
      if is_nan nan v then inl true else inr (olt (z_min z) (Some v))
  end.

Definition in_minmax (z : zstat) (t : Z) : bool := ole (z_min z) (Some t) && ole (Some t) (z_max z).

Definition evaluate_zone (nan : option Z) (z : zstat) (q : query) : bool :=
  match q with
  | QIsNull => (0 <? z_nulls z)%N
  | QEquals None => (0 <? z_nulls z)%N
  | QEquals (Some t) =>
      if is_nan nan t then (0 <? z_nans z)%N
      else ole (z_min z) (Some t) && (if max_is_nan nan z then true else ole (Some t) (z_max z))
  | QRange s e =>
      match start_check nan z s with
      | inl r => r
      | inr sc => match end_check nan z e with inl r => r | inr ec => sc && ec end
      end
  | QIsIn vs =>
      existsb (fun v => match v with
                        | None => (0 <? z_nulls z)%N
                        | Some t => if is_nan nan t then (0 <? z_nans z)%N else in_minmax z t
                        end) vs
  end.

(* what the query means for one cell (the recheck filter: SQL NULL semantics, total order on values) *)
Definition matches (q : query) (c : cellv) : bool :=
  match q, c with
  | QIsNull, None => true
  | QIsNull, Some _ => false
  | _, None => false
  | QEquals None, Some _ => false
  | QEquals (Some t), Some v => v =? t
  | QRange s e, Some v =>
      (match s with Unbounded => true | Included a => a <=? v | Excluded a => a <? v end)
      && (match e with Unbounded => true | Included b => v <=? b | Excluded b => v <? b end)
  | QIsIn vs, Some v => existsb (fun t => match t with Some t => v =? t | None => false end) vs
  end.

(* ZoneMapIndexBuilder::train cuts the live rows of a fragment (in offset order) into zones of
   rows_per_zone rows and records zone_start = sum of the previous zone lengths: search() then reports
   the ADDRESS range [zone_start, zone_start + zone_length) *)
Fixpoint zone_chunks {A} (fuel : nat) (n : nat) (l : list A) : list (list A) :=
  match fuel with
  | O => []
  | S k => match l with [] => [] | _ :: _ => firstn n l :: zone_chunks k n (skipn n l) end
  end.
(* rows: (offset, cell) of the live rows in offset order; result: offsets reported by search(q) *)
Definition zone_search (nan : option Z) (rows_per_zone : nat) (rows : list (N * cellv)) (q : query) : list (N * N) :=
  let zs := zone_chunks (length rows) rows_per_zone rows in
  let step := fun (acc : N * list (N * N)) (zn : list (N * cellv)) =>
                let '(start, out) := acc in
                let len := N.of_nat (length zn) in
                (start + len,
                 if evaluate_zone nan (zone_stats nan (map snd zn)) q then out ++ [(start, start + len)] else out)%N in
  snd (fold_left step zs (0%N, [])).

(* ---------------------------------------------------------------- legacy page statistics: strings *)
Definition bytes := list N.
Fixpoint lex_le (a b : bytes) : bool :=
  match a, b with
  | [], _ => true
  | _ :: _, [] => false
  | x :: xs, y :: ys => if (x <? y)%N then true else if (y <? x)%N then false else lex_le xs ys
  end.
(* truncate_binary: the first n bytes *)
Definition trunc_min (n : nat) (s : bytes) : bytes := firstn n s.
(* increment: add one from the right with carry (0xFF overflows to 0x00 and the carry moves left);
   None when every byte is 0xFF.  Written front to back: the rightmost byte below 0xFF is incremented
   and everything after it becomes 0x00. *)
Fixpoint increment (s : bytes) : option bytes :=
  match s with
  | [] => None
  | b :: tl =>
      match increment tl with
      | Some tl' => Some (b :: tl')
      | None => if (b <? 255)%N then Some ((b + 1)%N :: map (fun _ => 0%N) tl) else None
      end
  end.
(* the max bound of a value that had to be truncated: truncate, then increment (None = no bound) *)
Definition trunc_max (n : nat) (s : bytes) : option bytes :=
  if (n <? length s)%nat then increment (firstn n s) else Some s.

(* ---------------------------------------------------------------- legacy page pruning as interval tests *)
(* the guarantee extracted from the statistics of one page (extract_guarantees) *)
Inductive nullness := NotNull | AllNull | MaybeNull.
Record page_stat := { p_min : Z; p_max : Z; p_null : nullness }.
Inductive cmpop := OEq | ONe | OLt | OLe | OGt | OGe.
(* `col op lit` simplifies to false on the page (the page is skipped) *)
Definition page_pruned (p : page_stat) (op : cmpop) (lit : Z) : bool :=
  match p_null p with
  | AllNull => true
  | _ =>
      match op with
      | OEq => (lit <? p_min p) || (p_max p <? lit)
      | ONe => (p_min p =? lit) && (p_max p =? lit)
      | OLt => lit <=? p_min p
      | OLe => lit <? p_min p
      | OGt => p_max p <=? lit
      | OGe => p_max p <? lit
      end
  end.
Definition cmp_true (op : cmpop) (v lit : Z) : bool :=
  match op with
  | OEq => v =? lit | ONe => negb (v =? lit)
  | OLt => v <? lit | OLe => v <=? lit | OGt => lit <? v | OGe => lit <=? v
  end.
Definition page_stat_ok (p : page_stat) (vs : list cellv) : Prop :=
  (forall v, In (Some v) vs -> p_min p <= v <= p_max p)
  /\ (p_null p = NotNull -> ~ In None vs)
  /\ (p_null p = AllNull -> forall c, In c vs -> c = None).

(* ---------------------------------------------------------------- correspondence checkers *)
Definition range_list_eqb (a b : list (N * N)) : bool :=
  list_eqb (fun x y : N * N => (fst x =? fst y)%N && (snd x =? snd y)%N) a b.
(* merge adjacent ranges: the row-id tree map of the implementation has no zone boundaries *)
Fixpoint merge_adj (l : list (N * N)) : list (N * N) :=
  match l with
  | [] => []
  | (s, e) :: tl =>
      match merge_adj tl with
      | (s2, e2) :: tl2 => if (e =? s2)%N then (s, e2) :: tl2 else (s, e) :: (s2, e2) :: tl2
      | [] => [(s, e)]
      end
  end.
Definition chk_zone_search (i : option Z * N * list (N * cellv) * query) (o : list (N * N)) : bool :=
  let '(nan, rpz, rows, q) := i in
  range_list_eqb (merge_adj (zone_search nan (N.to_nat rpz) rows q)) o.
Definition chk_trunc (i : N * bytes) (o : bytes * option bytes) : bool :=
  let '(n, s) := i in
  list_eqb N.eqb (trunc_min (N.to_nat n) s) (fst o)
  && option_eqb (list_eqb N.eqb) (trunc_max (N.to_nat n) s) (snd o).

(* ---------------------------------------------------------------- legacy push-down: whole page kept without evaluation *)
(* `col op lit` simplifies to TRUE under the page guarantee: every row of the page is returned *)
Definition page_all_true (p : page_stat) (op : cmpop) (lit : Z) : bool :=
  match p_null p with
  | NotNull =>
      match op with
      | OEq => (p_min p =? lit) && (p_max p =? lit)
      | ONe => (lit <? p_min p) || (p_max p <? lit)
      | OLt => p_max p <? lit
      | OLe => p_max p <=? lit
      | OGt => lit <? p_min p
      | OGe => lit <=? p_min p
      end
  | _ => false
  end.
(* compute_float_statistics: min/max by partial_cmp, which skips NaN (and NULL); start from (+inf, -inf);
   `None` = nothing but NaN/NULL (the code then widens to (-inf, +inf)) *)
Fixpoint legacy_float_minmax (nan : Z) (vs : list cellv) (acc : option (Z * Z)) : option (Z * Z) :=
  match vs with
  | [] => acc
  | None :: tl => legacy_float_minmax nan tl acc
  | Some v :: tl =>
      if v =? nan then legacy_float_minmax nan tl acc
      else legacy_float_minmax nan tl (Some (match acc with Some (lo, hi) => (Z.min lo v, Z.max hi v) | None => (v, v) end))
  end.
Definition legacy_float_page (nan : Z) (vs : list cellv) : option page_stat :=
  match legacy_float_minmax nan vs None with
  | Some (lo, hi) =>
      Some {| p_min := lo; p_max := hi;
              p_null := if existsb (fun c => match c with None => true | Some _ => false end) vs
                        then (if forallb (fun c => match c with None => true | Some _ => false end) vs then AllNull else MaybeNull)
                        else NotNull |}
  | None => None
  end.
(* F23: the guarantee `every value of the page lies in [min, max]` is claimed although NaN was skipped *)
Definition Known_C29_legacy_pushdown_float_nan_null (nan : Z) (vs : list cellv) : bool :=
  existsb (fun c => match c with Some v => v =? nan | None => true end) vs.
