(* C16 - lemmas about the FilteredReadExec planning core (Model_ScanPlan.v). *)
From LanceV Require Import Common.Base Index.Model_ScanPlan.
From Coq Require Import Sorting.Sorted.
Local Open Scope N_scope.

(* ------------------------------------------------------------------ windows on lists (nat) *)
Definition winT {A} (skip take : nat) (l : list A) : list A := firstn take (skipn skip l).

Lemma winT_nil {A} s t : @winT A s t [] = [].
Proof. unfold winT. rewrite skipn_nil, firstn_nil. reflexivity. Qed.

Lemma winT_zero {A} s (l : list A) : winT s 0 l = [].
Proof. reflexivity. Qed.

Lemma winT_length {A} s t (l : list A) : length (winT s t l) = Nat.min t (length l - s).
Proof. unfold winT. rewrite firstn_length, skipn_length. reflexivity. Qed.

Lemma skipn_app_gen {A} n (l r : list A) : skipn n (l ++ r) = skipn n l ++ skipn (n - length l) r.
Proof. apply skipn_app. Qed.

Lemma winT_app {A} s t (l r : list A) :
  winT s t (l ++ r) = winT s t l ++ winT (s - length l) (t - length (winT s t l)) r.
Proof.
  unfold winT. rewrite skipn_app, firstn_app. f_equal.
  rewrite firstn_length, skipn_length. f_equal.
  destruct (Nat.le_gt_cases t (length l - s)) as [H|H].
  - rewrite Nat.min_l by exact H. replace (t - (length l - s))%nat with 0%nat by lia.
    replace (t - t)%nat with 0%nat by lia. reflexivity.
  - rewrite Nat.min_r by lia. reflexivity.
Qed.

Lemma winT_all {A} t (l : list A) : (length l <= t)%nat -> winT 0 t l = l.
Proof. intros H. unfold winT. cbn [skipn]. apply firstn_all2. exact H. Qed.

Lemma winT_eq_take {A} s t1 t2 (l : list A) :
  Nat.min t1 (length l - s) = Nat.min t2 (length l - s) -> winT s t1 l = winT s t2 l.
Proof.
  intros H. unfold winT.
  assert (E : forall t, firstn t (skipn s l) = firstn (Nat.min t (length l - s)) (skipn s l)).
  { intros t. destruct (Nat.le_gt_cases t (length l - s)).
    - rewrite Nat.min_l by assumption. reflexivity.
    - rewrite Nat.min_r by lia. rewrite !firstn_all2; try reflexivity; rewrite skipn_length; lia. }
  rewrite (E t1), (E t2), H. reflexivity.
Qed.

Lemma winT_prefix {A} s t (l r : list A) :
  (t <= length l - s)%nat -> winT s t (l ++ r) = winT s t l.
Proof.
  intros H. rewrite winT_app. rewrite winT_length. rewrite Nat.min_l by exact H.
  replace (t - t)%nat with 0%nat by lia. rewrite winT_zero. apply app_nil_r.
Qed.

Lemma winT_skip_all {A} s t (l : list A) : (length l <= s)%nat -> winT s t l = [].
Proof. intros H. unfold winT. rewrite skipn_all2 by exact H. apply firstn_nil. Qed.

Lemma winT_map {A B} (f : A -> B) s t l : winT s t (map f l) = map f (winT s t l).
Proof. unfold winT. rewrite skipn_map, firstn_map. reflexivity. Qed.

(* ------------------------------------------------------------------ seqN / flatten *)
Lemma seqN_length s n : length (seqN s n) = n.
Proof. revert s; induction n as [|n IH]; intros s; cbn [seqN length]; [reflexivity | rewrite IH; reflexivity]. Qed.

Lemma seqN_app s a b : seqN s (a + b) = seqN s a ++ seqN (s + N.of_nat a) b.
Proof.
  revert s; induction a as [|a IH]; intros s.
  - cbn [seqN Nat.add app]. f_equal. lia.
  - cbn [seqN Nat.add app]. rewrite IH. do 3 f_equal. lia.
Qed.

Lemma in_seqN x s n : In x (seqN s n) <-> s <= x < s + N.of_nat n.
Proof.
  revert s; induction n as [|n IH]; intros s; cbn [seqN In].
  - split; [tauto | lia].
  - rewrite IH. split; [intros [->|H]; lia | intros H].
    destruct (N.eq_dec s x); [left; assumption | right; lia].
Qed.

Lemma skipn_seqN k s n : skipn k (seqN s n) = seqN (s + N.of_nat k) (n - k).
Proof.
  revert s n; induction k as [|k IH]; intros s n.
  - cbn [skipn]. rewrite Nat.sub_0_r. f_equal. lia.
  - destruct n as [|n]; cbn [seqN skipn]; [reflexivity|]. rewrite IH. cbn [Nat.sub]. f_equal. lia.
Qed.

Lemma firstn_seqN k s n : firstn k (seqN s n) = seqN s (Nat.min k n).
Proof.
  revert s n; induction k as [|k IH]; intros s n; [reflexivity|].
  destruct n as [|n]; cbn [seqN firstn Nat.min]; [reflexivity|]. rewrite IH. reflexivity.
Qed.

Lemma flatten_cons r rs : flatten (r :: rs) = flat_range r ++ flatten rs.
Proof. reflexivity. Qed.
Lemma flatten_app a b : flatten (a ++ b) = flatten a ++ flatten b.
Proof. unfold flatten. apply flat_map_app. Qed.
Lemma flat_range_length s e : length (flat_range (s, e)) = N.to_nat (e - s).
Proof. unfold flat_range. cbn [fst snd]. apply seqN_length. Qed.

Lemma in_flat_range x s e : In x (flat_range (s, e)) <-> s <= x < e.
Proof. unfold flat_range; cbn [fst snd]. rewrite in_seqN. lia. Qed.

Lemma in_flatten x rs : In x (flatten rs) <-> in_ranges x rs = true.
Proof.
  induction rs as [|[s e] tl IH]; cbn [in_ranges existsb].
  - cbn. split; [tauto | discriminate].
  - rewrite flatten_cons, in_app_iff, in_flat_range, IH. cbn [fst snd].
    rewrite orb_true_iff, andb_true_iff, N.leb_le, N.ltb_lt. unfold in_ranges. tauto.
Qed.

(* sorted, pairwise disjoint ranges inside [lo, hi] (adjacent and empty ranges allowed) *)
Fixpoint sorted_in (lo hi : N) (rs : ranges) : Prop :=
  match rs with
  | [] => lo <= hi
  | (s, e) :: tl => lo <= s /\ s <= e /\ sorted_in e hi tl
  end.

Lemma sorted_in_le lo hi rs : sorted_in lo hi rs -> lo <= hi.
Proof.
  revert lo; induction rs as [|[s e] tl IH]; intros lo; cbn [sorted_in]; [tauto|].
  intros (H1 & H2 & H3). apply IH in H3. lia.
Qed.

Lemma sorted_in_weaken lo lo' hi hi' rs : sorted_in lo hi rs -> lo' <= lo -> hi <= hi' -> sorted_in lo' hi' rs.
Proof.
  revert lo lo'; induction rs as [|[s e] tl IH]; intros lo lo'; cbn [sorted_in].
  - lia.
  - intros (H1 & H2 & H3) Hl Hh. repeat split; try lia. eapply IH; eauto. lia.
Qed.

Lemma sorted_in_bounds lo hi rs x : sorted_in lo hi rs -> In x (flatten rs) -> lo <= x < hi.
Proof.
  revert lo; induction rs as [|[s e] tl IH]; intros lo; cbn [sorted_in].
  - cbn. tauto.
  - intros (H1 & H2 & H3). rewrite flatten_cons, in_app_iff, in_flat_range. intros [H|H].
    + pose proof (sorted_in_le _ _ _ H3). lia.
    + specialize (IH _ H3 H). lia.
Qed.

Lemma sorted_in_app lo mid hi a b : sorted_in lo mid a -> sorted_in mid hi b -> sorted_in lo hi (a ++ b).
Proof.
  revert lo; induction a as [|[s e] tl IH]; intros lo; cbn [sorted_in app].
  - intros H Hb. eapply sorted_in_weaken; eauto. lia.
  - intros (H1 & H2 & H3) Hb. repeat split; auto.
Qed.

(* strictly increasing lists of N: equal as soon as they have the same elements *)
Definition incr (l : list N) : Prop := StronglySorted N.lt l.

Lemma incr_ext l1 l2 : incr l1 -> incr l2 -> (forall x, In x l1 <-> In x l2) -> l1 = l2.
Proof.
  revert l2; induction l1 as [|a l1 IH]; intros l2 H1 H2 E.
  - destruct l2 as [|b l2]; [reflexivity|]. destruct (proj2 (E b) (or_introl eq_refl)).
  - destruct l2 as [|b l2]. { destruct (proj1 (E a) (or_introl eq_refl)). }
    apply StronglySorted_inv in H1 as [H1 F1]. apply StronglySorted_inv in H2 as [H2 F2].
    rewrite Forall_forall in F1, F2.
    assert (a = b).
    { destruct (proj1 (E a) (or_introl eq_refl)) as [->|Hb]; [reflexivity|].
      destruct (proj2 (E b) (or_introl eq_refl)) as [->|Ha]; [reflexivity|].
      specialize (F1 _ Ha). specialize (F2 _ Hb). lia. }
    subst b. f_equal. apply IH; auto. intros x. split; intros Hx.
    + destruct (proj1 (E x) (or_intror Hx)) as [->|]; [|assumption]. specialize (F1 _ Hx). lia.
    + destruct (proj2 (E x) (or_intror Hx)) as [->|]; [|assumption]. specialize (F2 _ Hx). lia.
Qed.

Lemma incr_seqN s n : incr (seqN s n).
Proof.
  revert s; induction n as [|n IH]; intros s; cbn [seqN]; constructor; [apply IH|].
  rewrite Forall_forall. intros x Hx. apply in_seqN in Hx. lia.
Qed.

Lemma incr_app l1 l2 : incr l1 -> incr l2 -> (forall x y, In x l1 -> In y l2 -> x < y) -> incr (l1 ++ l2).
Proof.
  intros H1 H2 H. induction l1 as [|a l1 IH]; cbn [app]; [assumption|].
  apply StronglySorted_inv in H1 as [H1 F1]. constructor.
  - apply IH; [exact H1|]. intros; apply H; [right|]; assumption.
  - apply Forall_forall. rewrite Forall_forall in F1. intros x Hx. apply in_app_iff in Hx as [Hx|Hx]; [auto|].
    apply H; [left; reflexivity | assumption].
Qed.

Lemma incr_filter p l : incr l -> incr (filter p l).
Proof.
  intros H; induction l as [|a l IH]; cbn [filter]; [constructor|].
  apply StronglySorted_inv in H as [H F]. destruct (p a); [|apply IH; exact H]. constructor; [apply IH; exact H|].
  apply Forall_forall. intros x Hx. rewrite Forall_forall in F. apply filter_In in Hx as [Hx _]. auto.
Qed.

Lemma incr_flatten lo hi rs : sorted_in lo hi rs -> incr (flatten rs).
Proof.
  revert lo; induction rs as [|[s e] tl IH]; intros lo; cbn [sorted_in]; [constructor|].
  intros (H1 & H2 & H3). rewrite flatten_cons. apply incr_app.
  - apply incr_seqN.
  - eapply IH; eauto.
  - intros x y Hx Hy. apply in_flat_range in Hx. pose proof (sorted_in_bounds _ _ _ _ H3 Hy). lia.
Qed.

Lemma in_firstn_in {A} k (l : list A) x : In x (firstn k l) -> In x l.
Proof.
  revert l; induction k as [|k IH]; intros l; [cbn; tauto|]. destruct l as [|a l]; cbn [firstn In]; [tauto|].
  intros [->|H]; [left; reflexivity | right; apply IH; exact H].
Qed.
Lemma in_skipn_in {A} k (l : list A) x : In x (skipn k l) -> In x l.
Proof.
  revert l; induction k as [|k IH]; intros l; [cbn; tauto|]. destruct l as [|a l]; cbn [skipn In]; [tauto|].
  intros H; right; apply IH; exact H.
Qed.

Lemma incr_firstn k l : incr l -> incr (firstn k l).
Proof.
  revert l; induction k as [|k IH]; intros l H; [constructor|]. destruct l as [|a l]; [constructor|].
  cbn [firstn]. apply StronglySorted_inv in H as [H F]. constructor; [apply IH; exact H|].
  apply Forall_forall. rewrite Forall_forall in F. intros x Hx. apply F. apply in_firstn_in in Hx. exact Hx.
Qed.

(* ------------------------------------------------------------------ sum_rows *)
Definition lenN {A} (l : list A) : N := N.of_nat (length l).

Lemma lenN_flatten_le lo hi rs : sorted_in lo hi rs -> lenN (flatten rs) <= hi - lo.
Proof.
  revert lo; induction rs as [|[s e] tl IH]; intros lo; cbn [sorted_in].
  - intros _. unfold lenN. cbn. lia.
  - intros (H1 & H2 & H3). specialize (IH _ H3). pose proof (sorted_in_le _ _ _ H3).
    unfold lenN in *. rewrite flatten_cons, app_length, flat_range_length. lia.
Qed.

Lemma sum_rows_ok lo hi rs : sorted_in lo hi rs -> hi < two64 -> sum_rows rs = Ok (lenN (flatten rs)).
Proof.
  revert lo; induction rs as [|[s e] tl IH]; intros lo; cbn [sorted_in sum_rows].
  - reflexivity.
  - intros (H1 & H2 & H3) Hh. unfold csub. destruct (N.leb_spec s e); [|lia]. cbn [obind].
    rewrite (IH _ H3 Hh). cbn [obind]. unfold cadd.
    pose proof (lenN_flatten_le _ _ _ H3). pose proof (sorted_in_le _ _ _ H3).
    destruct (N.ltb_spec (e - s + lenN (flatten tl)) two64); [|lia].
    f_equal. unfold lenN in *. rewrite flatten_cons, app_length, flat_range_length. lia.
Qed.
(* ------------------------------------------------------------------ trim_ranges_by_offset / trim_ranges *)
Lemma winT_seqN sk tk s n : winT sk tk (seqN s n) = seqN (s + N.of_nat sk) (Nat.min tk (n - sk)).
Proof. unfold winT. rewrite skipn_seqN, firstn_seqN. reflexivity. Qed.

Lemma flat_range_eq s e : flat_range (s, e) = seqN s (N.to_nat (e - s)).
Proof. reflexivity. Qed.

Lemma csub_ok a b : b <= a -> csub a b = Ok (a - b).
Proof. intros H. unfold csub. destruct (N.leb_spec b a); [reflexivity | lia]. Qed.
Lemma cadd_ok a b : a + b < two64 -> cadd a b = Ok (a + b).
Proof. intros H. unfold cadd. destruct (N.ltb_spec (a + b) two64); [reflexivity | lia]. Qed.

Lemma trim_by_offset_spec rs : forall lo hi sk tk,
  sorted_in lo hi rs -> hi < two64 ->
  exists rs', trim_by_offset rs sk tk = Ok rs'
    /\ flatten rs' = winT (N.to_nat sk) (N.to_nat tk) (flatten rs)
    /\ sorted_in lo hi rs'.
Proof.
  induction rs as [|[s e] tl IH]; intros lo hi sk tk Hs Hh.
  - exists []. cbn [trim_by_offset flatten flat_map]. rewrite winT_nil. auto.
  - cbn [sorted_in] in Hs. destruct Hs as (H1 & H2 & H3). pose proof (sorted_in_le _ _ _ H3) as Hle.
    cbn [trim_by_offset]. destruct (N.eqb_spec tk 0) as [->|Htk].
    { exists []. split; [reflexivity|]. split; [reflexivity|]. cbn [sorted_in]. lia. }
    rewrite csub_ok by exact H2. cbn [obind].
    rewrite flatten_cons, flat_range_eq, winT_app, winT_seqN, seqN_length.
    destruct (N.leb_spec (e - s) sk) as [Hsk|Hsk].
    { destruct (IH e hi (sk - (e - s)) tk H3 Hh) as (rs' & E & F & S). exists rs'. split; [exact E|]. split.
      - rewrite F. replace (Nat.min (N.to_nat tk) (N.to_nat (e - s) - N.to_nat sk)) with 0%nat by lia.
        cbn [seqN app length]. f_equal; lia.
      - eapply sorted_in_weaken; eauto; lia. }
    destruct (N.eqb_spec sk 0) as [->|Hsk0]; cbn [andb].
    + destruct (N.leb_spec (e - s) tk) as [Htk2|Htk2].
      * destruct (IH e hi 0 (tk - (e - s)) H3 Hh) as (rs' & E & F & S). rewrite E. cbn [obind].
        exists ((s, e) :: rs'). split; [reflexivity|]. split.
        -- rewrite flatten_cons, flat_range_eq, F. rewrite seqN_length. f_equal; [f_equal; lia|f_equal; lia].
        -- cbn [sorted_in]. auto.
      * unfold ssub. rewrite cadd_ok by lia. cbn [obind]. rewrite cadd_ok by lia. cbn [obind].
        destruct (IH e hi 0 (tk - N.min (e - s - 0) tk) H3 Hh) as (rs' & E & F & S). rewrite E. cbn [obind].
        eexists. split; [reflexivity|]. split.
        -- rewrite flatten_cons, flat_range_eq, F. rewrite seqN_length. cbn [fst snd]. f_equal; [f_equal; lia|f_equal; lia].
        -- cbn [sorted_in]. repeat split; try lia. eapply sorted_in_weaken; eauto; lia.
    + unfold ssub. rewrite cadd_ok by lia. cbn [obind]. rewrite cadd_ok by lia. cbn [obind].
      destruct (IH e hi 0 (tk - N.min (e - s - sk) tk) H3 Hh) as (rs' & E & F & S). rewrite E. cbn [obind].
      eexists. split; [reflexivity|]. split.
      * rewrite flatten_cons, flat_range_eq, F. rewrite seqN_length. cbn [fst snd]. f_equal; [f_equal; lia|f_equal; lia].
      * cbn [sorted_in]. repeat split; try lia. eapply sorted_in_weaken; eauto; lia.
Qed.

Lemma trim_loop_spec rs : forall lo hi sk tk,
  sorted_in lo hi rs -> hi < two64 ->
  exists rs', trim_loop rs sk tk = Ok rs'
    /\ flatten rs' = winT (N.to_nat sk) (N.to_nat tk) (flatten rs)
    /\ sorted_in lo hi rs'.
Proof.
  induction rs as [|[s e] tl IH]; intros lo hi sk tk Hs Hh.
  - exists []. cbn [trim_loop flatten flat_map]. rewrite winT_nil. auto.
  - cbn [sorted_in] in Hs. destruct Hs as (H1 & H2 & H3). pose proof (sorted_in_le _ _ _ H3) as Hle.
    cbn [trim_loop]. rewrite csub_ok by exact H2. cbn [obind].
    rewrite flatten_cons, flat_range_eq, winT_app, winT_seqN, seqN_length.
    destruct (N.leb_spec (e - s) sk) as [Hsk|Hsk].
    { destruct (IH e hi (sk - (e - s)) tk H3 Hh) as (rs' & E & F & S). exists rs'. split; [exact E|]. split.
      - rewrite F. replace (Nat.min (N.to_nat tk) (N.to_nat (e - s) - N.to_nat sk)) with 0%nat by lia.
        cbn [seqN app length]. f_equal; lia.
      - eapply sorted_in_weaken; eauto; lia. }
    remember (N.min (e - s - sk) tk) as th eqn:Hth.
    assert (Hp : exists pushed, (if 0 <? th then do a <- cadd s sk; do b <- cadd a th; Ok [(a, b)] else Ok []) = Ok pushed
                 /\ flatten pushed = seqN (s + sk) (N.to_nat th) /\ sorted_in lo (s + sk + th) pushed).
    { assert (Hth1 : th <= e - s - sk) by lia. assert (Hth2 : th <= tk) by lia.
      destruct (N.ltb_spec 0 th).
      - assert (A1 : s + sk < two64) by lia. assert (A2 : s + sk + th < two64) by lia.
        rewrite (cadd_ok s sk) by exact A1. cbn [obind]. rewrite (cadd_ok (s + sk) th) by exact A2. cbn [obind]. eexists. split; [reflexivity|]. split.
        + rewrite flatten_cons, flat_range_eq. cbn [fst snd flatten flat_map]. rewrite app_nil_r. f_equal. lia.
        + cbn [sorted_in]. lia.
      - exists []. split; [reflexivity|]. replace th with 0 by lia. split; [reflexivity | cbn [sorted_in]; lia]. }
    destruct Hp as (pushed & Ep & Fp & Sp). rewrite Ep. cbn [obind].
    destruct (N.eqb_spec (tk - th) 0) as [Hz|Hz].
    + exists pushed. split; [reflexivity|]. split.
      * rewrite Fp. replace (N.to_nat tk - _)%nat with 0%nat by (rewrite seqN_length; lia). rewrite winT_zero, app_nil_r.
        f_equal; lia.
      * eapply sorted_in_weaken; eauto; lia.
    + destruct (IH e hi 0 (tk - th) H3 Hh) as (rs' & E & F & S). rewrite E. cbn [obind].
      exists (pushed ++ rs'). split; [reflexivity|]. split.
      * rewrite flatten_app, Fp, F. rewrite seqN_length. f_equal; [f_equal; lia | f_equal; lia].
      * eapply sorted_in_app; eauto. eapply sorted_in_weaken; eauto; lia.
Qed.

(* the fragment occupies positions [ps, pe) of the row sequence; bounds = [bs, be) *)
Lemma trim_ranges_spec rs lo hi ps pe bs be :
  sorted_in lo hi rs -> hi < two64 -> ps <= pe -> pe - ps = lenN (flatten rs) ->
  exists rs', trim_ranges rs (ps, pe) (bs, be) = Ok rs'
    /\ flatten rs' = winT (N.to_nat (bs - ps)) (N.to_nat (be - ps) - N.to_nat (bs - ps)) (flatten rs)
    /\ sorted_in lo hi rs'.
Proof.
  intros Hs Hh Hp Hl. unfold trim_ranges. cbn [fst snd]. rewrite csub_ok by exact Hp. cbn [obind].
  unfold calculate_fetch, ssub. cbn [fst snd].
  remember (bs - ps) as sk eqn:Hsk. remember (N.min be pe - N.max ps bs) as tk eqn:Htk.
  assert (W : winT (N.to_nat sk) (N.to_nat tk) (flatten rs)
              = winT (N.to_nat sk) (N.to_nat (be - ps) - N.to_nat sk) (flatten rs)).
  { apply winT_eq_take. unfold lenN in Hl. lia. }
  destruct ((sk =? 0) && (tk =? pe - ps)) eqn:E.
  - apply andb_true_iff in E as [E1 E2]. apply N.eqb_eq in E1, E2.
    exists rs. split; [reflexivity|]. split; [|exact Hs]. rewrite <- W, E1. symmetry. apply winT_all.
    unfold lenN in Hl. lia.
  - destruct (trim_loop_spec rs lo hi sk tk Hs Hh) as (rs' & E' & F & S). exists rs'. rewrite <- W. auto.
Qed.

Lemma apply_skip_take_spec rs lo hi sk tk :
  sorted_in lo hi rs -> hi < two64 ->
  exists rs' sk' tk', apply_skip_take rs sk tk = Ok (rs', sk', tk')
    /\ flatten rs' = winT (N.to_nat sk) (N.to_nat tk) (flatten rs)
    /\ sorted_in lo hi rs'
    /\ tk' = tk - lenN (flatten rs')
    /\ (tk <> 0 -> sk' = sk - lenN (flatten rs)).
Proof.
  intros Hs Hh. unfold apply_skip_take. destruct (N.eqb_spec tk 0) as [->|Htk].
  { exists [], 0, 0. split; [reflexivity|]. split; [reflexivity|]. split; [eapply sorted_in_le; eauto|].
    split; [reflexivity | congruence]. }
  rewrite (sum_rows_ok _ _ _ Hs Hh). cbn [obind].
  destruct (N.leb_spec (lenN (flatten rs)) sk) as [Hsk|Hsk].
  { exists [], (sk - lenN (flatten rs)), tk. split; [reflexivity|]. split.
    - symmetry. apply winT_skip_all. unfold lenN in Hsk. lia.
    - split; [eapply sorted_in_le; eauto|]. split; [cbn; lia | reflexivity]. }
  destruct (trim_by_offset_spec rs lo hi sk tk Hs Hh) as (rs' & E & F & S). rewrite E. cbn [obind].
  rewrite (sum_rows_ok _ _ _ S Hh). cbn [obind]. unfold ssub.
  exists rs', 0, (tk - lenN (flatten rs')). repeat split; auto. intros _. lia.
Qed.
(* ------------------------------------------------------------------ intersect_ranges *)
Lemma intersect_nil_l b : intersect_ranges [] b = [].
Proof. destruct b; reflexivity. Qed.
Lemma intersect_nil_r a : intersect_ranges a [] = [].
Proof. destruct a as [|[s e] ta]; reflexivity. Qed.
Lemma intersect_cons s1 e1 ta s2 e2 tb :
  intersect_ranges ((s1, e1) :: ta) ((s2, e2) :: tb) =
  (if N.max s1 s2 <? N.min e1 e2 then [(N.max s1 s2, N.min e1 e2)] else [])
    ++ (if e1 <=? e2 then intersect_ranges ta ((s2, e2) :: tb) else intersect_ranges ((s1, e1) :: ta) tb).
Proof. cbn [intersect_ranges]. destruct (e1 <=? e2); reflexivity. Qed.

Lemma in_hd x s1 e1 s2 e2 :
  In x (flatten (if N.max s1 s2 <? N.min e1 e2 then [(N.max s1 s2, N.min e1 e2)] else []))
  <-> (s1 <= x < e1 /\ s2 <= x < e2).
Proof.
  destruct (N.ltb_spec (N.max s1 s2) (N.min e1 e2)).
  - rewrite flatten_cons, in_app_iff, in_flat_range. cbn [flatten flat_map In]. lia.
  - cbn [flatten flat_map In]. lia.
Qed.

Lemma in_intersect a : forall b loa hia lob hib x,
  sorted_in loa hia a -> sorted_in lob hib b ->
  (In x (flatten (intersect_ranges a b)) <-> In x (flatten a) /\ In x (flatten b)).
Proof.
  induction a as [|[s1 e1] ta IHa]; intros b loa hia lob hib x Ha Hb.
  - rewrite intersect_nil_l. cbn. tauto.
  - revert lob Hb. induction b as [|[s2 e2] tb IHb]; intros lob Hb.
    + rewrite intersect_nil_r. cbn. tauto.
    + rewrite intersect_cons, flatten_app, in_app_iff, in_hd.
      cbn [sorted_in] in Ha, Hb. destruct Ha as (A1 & A2 & A3). destruct Hb as (B1 & B2 & B3).
      pose proof (fun H => sorted_in_bounds _ _ _ x A3 H) as TA.
      pose proof (fun H => sorted_in_bounds _ _ _ x B3 H) as TB.
      destruct (N.leb_spec e1 e2) as [L|L].
      * rewrite (IHa ((s2, e2) :: tb) e1 hia lob hib x A3) by (cbn [sorted_in]; auto).
        rewrite !flatten_cons, !in_app_iff, !in_flat_range. split.
        -- intros [H|[H1 H2]]; [lia|]. tauto.
        -- intros [[H1|H1] [H2|H2]]; try (left; lia); try (right; tauto); specialize (TB H2); lia.
      * rewrite (IHb e2 B3).
        rewrite !flatten_cons, !in_app_iff, !in_flat_range. split.
        -- intros [H|[H1 H2]]; [lia|]. tauto.
        -- intros [[H1|H1] [H2|H2]]; try (left; lia); try (right; tauto); specialize (TA H1); lia.
Qed.

Lemma sorted_intersect a : forall b loa hia lob hib,
  sorted_in loa hia a -> sorted_in lob hib b ->
  sorted_in (N.min (N.max loa lob) hia) hia (intersect_ranges a b).
Proof.
  induction a as [|[s1 e1] ta IHa]; intros b loa hia lob hib Ha Hb.
  - rewrite intersect_nil_l. cbn [sorted_in]. lia.
  - revert lob Hb. induction b as [|[s2 e2] tb IHb]; intros lob Hb.
    + rewrite intersect_nil_r. cbn [sorted_in]. lia.
    + rewrite intersect_cons.
      cbn [sorted_in] in Ha, Hb. destruct Ha as (A1 & A2 & A3). destruct Hb as (B1 & B2 & B3).
      pose proof (sorted_in_le _ _ _ A3) as LA.
      destruct (N.leb_spec e1 e2) as [L|L].
      * assert (R : sorted_in (N.min (N.max e1 lob) hia) hia (intersect_ranges ta ((s2, e2) :: tb))).
        { apply (IHa _ e1 hia lob hib A3). cbn [sorted_in]. auto. }
        destruct (N.ltb_spec (N.max s1 s2) (N.min e1 e2)); cbn [app sorted_in].
        -- repeat split; try lia. eapply sorted_in_weaken; eauto; lia.
        -- eapply sorted_in_weaken; eauto; lia.
      * assert (R : sorted_in (N.min (N.max loa e2) hia) hia (intersect_ranges ((s1, e1) :: ta) tb)).
        { apply (IHb e2 B3). }
        destruct (N.ltb_spec (N.max s1 s2) (N.min e1 e2)); cbn [app sorted_in].
        -- repeat split; try lia. eapply sorted_in_weaken; eauto; lia.
        -- eapply sorted_in_weaken; eauto; lia.
Qed.

Lemma intersect_spec a b loa hia lob hib :
  sorted_in loa hia a -> sorted_in lob hib b ->
  flatten (intersect_ranges a b) = filter (fun x => in_ranges x b) (flatten a)
  /\ sorted_in loa hia (intersect_ranges a b).
Proof.
  intros Ha Hb. pose proof (sorted_intersect a b _ _ _ _ Ha Hb) as S.
  pose proof (sorted_in_le _ _ _ Ha) as L. split.
  - apply incr_ext.
    + eapply incr_flatten; eauto.
    + apply incr_filter. eapply incr_flatten; eauto.
    + intros x. rewrite (in_intersect a b _ _ _ _ x Ha Hb), filter_In, (in_flatten x b). reflexivity.
  - eapply sorted_in_weaken; eauto; lia.
Qed.

(* ------------------------------------------------------------------ DvToValidRanges / full_frag_range *)
Definition dv_ok (phys : N) (d : list N) : Prop := incr d /\ forall x, In x d -> x < phys.

Lemma dv_inner_spec d : forall n pos,
  incr d -> (forall x, In x d -> pos <= x < n) -> pos <= n ->
  sorted_in pos n (dv_inner d n pos)
  /\ forall x, In x (flatten (dv_inner d n pos)) <-> (pos <= x < n /\ ~ In x d).
Proof.
  induction d as [|d0 tl IH]; intros n pos Hi Hb Hp; cbn [dv_inner].
  - destruct (N.eqb_spec pos n) as [->|Hne].
    + split; [cbn [sorted_in]; lia|]. intros x. cbn. lia.
    + split; [cbn [sorted_in]; lia|]. intros x. rewrite flatten_cons, in_app_iff, in_flat_range. cbn. lia.
  - apply StronglySorted_inv in Hi as [Hi F]. rewrite Forall_forall in F.
    pose proof (Hb d0 (or_introl eq_refl)) as B0.
    destruct (N.eqb_spec d0 pos) as [->|Hne].
    + destruct (IH n (pos + 1) Hi) as [S M].
      { intros x Hx. specialize (F _ Hx). specialize (Hb x (or_intror Hx)). lia. } { lia. }
      split; [eapply sorted_in_weaken; eauto; lia|]. intros x. rewrite M. cbn [In].
      split; [intros [H1 H2]; split; [lia|]; intros [->|H]; [lia | tauto] | intros [H1 H2]; split; [|tauto]].
      destruct (N.eq_dec pos x) as [->|]; [tauto | lia].
    + destruct (N.leb_spec n (d0 + 1)) as [L|L].
      * split; [cbn [sorted_in]; lia|]. intros x. rewrite flatten_cons, in_app_iff, in_flat_range. cbn [flatten flat_map In].
        split; [intros [H|[]]; split; [lia|]; intros [->|H']; [lia|]; specialize (F _ H'); lia |].
        intros [H1 H2]. left. destruct (N.eq_dec d0 x) as [->|]; [tauto | lia].
      * destruct (IH n (d0 + 1) Hi) as [S M].
        { intros x Hx. specialize (F _ Hx). specialize (Hb x (or_intror Hx)). lia. } { lia. }
        split; [cbn [sorted_in]; repeat split; try lia; eapply sorted_in_weaken; eauto; lia|].
        intros x. rewrite flatten_cons, in_app_iff, in_flat_range, M. cbn [In].
        split.
        -- intros [H|[H1 H2]]; (split; [lia|]); intros [->|H']; try lia; try tauto. specialize (F _ H'). lia.
        -- intros [H1 H2]. destruct (N.lt_ge_cases x d0); [left; lia | right]. split; [|tauto].
           destruct (N.eq_dec d0 x) as [->|]; [tauto | lia].
Qed.

Definition live_of (phys : N) (dv : option (list N)) : list N :=
  let dels := match dv with Some d => d | None => [] end in
  filter (fun off => negb (existsb (N.eqb off) dels)) (seqN 0 (N.to_nat phys)).

Lemma existsb_eqb_in x d : existsb (N.eqb x) d = true <-> In x d.
Proof.
  rewrite existsb_exists. split; [intros (y & H & E); apply N.eqb_eq in E; subst; exact H|].
  intros H; exists x; split; [exact H | apply N.eqb_refl].
Qed.

Lemma full_frag_range_spec phys dv :
  match dv with Some d => dv_ok phys d | None => True end ->
  flatten (full_frag_range phys dv) = live_of phys dv /\ sorted_in 0 phys (full_frag_range phys dv).
Proof.
  intros H. unfold live_of. destruct dv as [d|]; cbn [full_frag_range].
  - destruct H as [Hi Hb]. unfold dv_to_valid_ranges. destruct (N.leb_spec phys 0) as [L|L].
    + replace phys with 0 by lia. cbn. split; [reflexivity | lia].
    + destruct (dv_inner_spec d phys 0 Hi) as [S M]. { intros x Hx. specialize (Hb x Hx). lia. } { lia. }
      split; [|exact S]. apply incr_ext.
      * eapply incr_flatten; eauto.
      * apply incr_filter, incr_seqN.
      * intros x. rewrite M, filter_In, in_seqN, negb_true_iff.
        rewrite <- not_true_iff_false, existsb_eqb_in, N2Nat.id. intuition lia.
  - split.
    + rewrite flatten_cons, flat_range_eq. cbn [flatten flat_map]. rewrite app_nil_r, N.sub_0_r.
      symmetry. cbn [existsb negb]. induction (seqN 0 (N.to_nat phys)) as [|a l IHl]; cbn [filter]; congruence.
    + cbn [sorted_in]. lia.
Qed.
