(* C16 - lemmas about the FilteredReadExec planning core (Model_ScanPlan.v). *)
From LanceV Require Import Common.Base Index.Model_ScanPlan.
From Coq Require Import Sorting.Sorted.
Local Open Scope N_scope.

(* ------------------------------------------------------------------ windows on lists (nat) *)
Definition winT {A} (skip take : nat) (l : list A) : list A := firstn take (skipn skip l).

Lemma winT_nil {A} s t : @winT A s t [] = [].
Proof. unfold winT. rewrite skipn_nil, firstn_nil. reflexivity. Qed.

Lemma winT_zero {A} s (l : list A) : winT s 0 l = [].
Proof. reflexivity. Qed.

Lemma winT_length {A} s t (l : list A) : length (winT s t l) = Nat.min t (length l - s).
Proof. unfold winT. rewrite firstn_length, skipn_length. reflexivity. Qed.

Lemma skipn_app_gen {A} n (l r : list A) : skipn n (l ++ r) = skipn n l ++ skipn (n - length l) r.
Proof. apply skipn_app. Qed.

Lemma winT_app {A} s t (l r : list A) :
  winT s t (l ++ r) = winT s t l ++ winT (s - length l) (t - length (winT s t l)) r.
Proof.
  unfold winT. rewrite skipn_app, firstn_app. f_equal.
  rewrite firstn_length, skipn_length. f_equal.
  destruct (Nat.le_gt_cases t (length l - s)) as [H|H].
  - rewrite Nat.min_l by exact H. replace (t - (length l - s))%nat with 0%nat by lia.
    replace (t - t)%nat with 0%nat by lia. reflexivity.
  - rewrite Nat.min_r by lia. reflexivity.
Qed.

Lemma winT_all {A} t (l : list A) : (length l <= t)%nat -> winT 0 t l = l.
Proof. intros H. unfold winT. cbn [skipn]. apply firstn_all2. exact H. Qed.

Lemma winT_eq_take {A} s t1 t2 (l : list A) :
  Nat.min t1 (length l - s) = Nat.min t2 (length l - s) -> winT s t1 l = winT s t2 l.
Proof.
  intros H. unfold winT.
  assert (E : forall t, firstn t (skipn s l) = firstn (Nat.min t (length l - s)) (skipn s l)).
  { intros t. destruct (Nat.le_gt_cases t (length l - s)).
    - rewrite Nat.min_l by assumption. reflexivity.
    - rewrite Nat.min_r by lia. rewrite !firstn_all2; try reflexivity; rewrite skipn_length; lia. }
  rewrite (E t1), (E t2), H. reflexivity.
Qed.

Lemma winT_prefix {A} s t (l r : list A) :
  (t <= length l - s)%nat -> winT s t (l ++ r) = winT s t l.
Proof.
  intros H. rewrite winT_app. rewrite winT_length. rewrite Nat.min_l by exact H.
  replace (t - t)%nat with 0%nat by lia. rewrite winT_zero. apply app_nil_r.
Qed.

Lemma winT_skip_all {A} s t (l : list A) : (length l <= s)%nat -> winT s t l = [].
Proof. intros H. unfold winT. rewrite skipn_all2 by exact H. apply firstn_nil. Qed.

Lemma winT_map {A B} (f : A -> B) s t l : winT s t (map f l) = map f (winT s t l).
Proof. unfold winT. rewrite skipn_map, firstn_map. reflexivity. Qed.

(* ------------------------------------------------------------------ seqN / flatten *)
Lemma seqN_length s n : length (seqN s n) = n.
Proof. revert s; induction n as [|n IH]; intros s; cbn [seqN length]; [reflexivity | rewrite IH; reflexivity]. Qed.

Lemma seqN_app s a b : seqN s (a + b) = seqN s a ++ seqN (s + N.of_nat a) b.
Proof.
  revert s; induction a as [|a IH]; intros s.
  - cbn [seqN Nat.add app]. f_equal. lia.
  - cbn [seqN Nat.add app]. rewrite IH. do 3 f_equal. lia.
Qed.

Lemma in_seqN x s n : In x (seqN s n) <-> s <= x < s + N.of_nat n.
Proof.
  revert s; induction n as [|n IH]; intros s; cbn [seqN In].
  - split; [tauto | lia].
  - rewrite IH. split; [intros [->|H]; lia | intros H].
    destruct (N.eq_dec s x); [left; assumption | right; lia].
Qed.

Lemma skipn_seqN k s n : skipn k (seqN s n) = seqN (s + N.of_nat k) (n - k).
Proof.
  revert s n; induction k as [|k IH]; intros s n.
  - cbn [skipn]. rewrite Nat.sub_0_r. f_equal. lia.
  - destruct n as [|n]; cbn [seqN skipn]; [reflexivity|]. rewrite IH. cbn [Nat.sub]. f_equal. lia.
Qed.

Lemma firstn_seqN k s n : firstn k (seqN s n) = seqN s (Nat.min k n).
Proof.
  revert s n; induction k as [|k IH]; intros s n; [reflexivity|].
  destruct n as [|n]; cbn [seqN firstn Nat.min]; [reflexivity|]. rewrite IH. reflexivity.
Qed.

Lemma flatten_cons r rs : flatten (r :: rs) = flat_range r ++ flatten rs.
Proof. reflexivity. Qed.
Lemma flatten_app a b : flatten (a ++ b) = flatten a ++ flatten b.
Proof. unfold flatten. apply flat_map_app. Qed.
Lemma flat_range_length s e : length (flat_range (s, e)) = N.to_nat (e - s).
Proof. unfold flat_range. cbn [fst snd]. apply seqN_length. Qed.

Lemma in_flat_range x s e : In x (flat_range (s, e)) <-> s <= x < e.
Proof. unfold flat_range; cbn [fst snd]. rewrite in_seqN. lia. Qed.

Lemma in_flatten x rs : In x (flatten rs) <-> in_ranges x rs = true.
Proof.
  induction rs as [|[s e] tl IH]; cbn [in_ranges existsb].
  - cbn. split; [tauto | discriminate].
  - rewrite flatten_cons, in_app_iff, in_flat_range, IH. cbn [fst snd].
    rewrite orb_true_iff, andb_true_iff, N.leb_le, N.ltb_lt. unfold in_ranges. tauto.
Qed.

(* sorted, pairwise disjoint ranges inside [lo, hi] (adjacent and empty ranges allowed) *)
Fixpoint sorted_in (lo hi : N) (rs : ranges) : Prop :=
  match rs with
  | [] => lo <= hi
  | (s, e) :: tl => lo <= s /\ s <= e /\ sorted_in e hi tl
  end.

Lemma sorted_in_le lo hi rs : sorted_in lo hi rs -> lo <= hi.
Proof.
  revert lo; induction rs as [|[s e] tl IH]; intros lo; cbn [sorted_in]; [tauto|].
  intros (H1 & H2 & H3). apply IH in H3. lia.
Qed.

Lemma sorted_in_weaken lo lo' hi hi' rs : sorted_in lo hi rs -> lo' <= lo -> hi <= hi' -> sorted_in lo' hi' rs.
Proof.
  revert lo lo'; induction rs as [|[s e] tl IH]; intros lo lo'; cbn [sorted_in].
  - lia.
  - intros (H1 & H2 & H3) Hl Hh. repeat split; try lia. eapply IH; eauto. lia.
Qed.

Lemma sorted_in_bounds lo hi rs x : sorted_in lo hi rs -> In x (flatten rs) -> lo <= x < hi.
Proof.
  revert lo; induction rs as [|[s e] tl IH]; intros lo; cbn [sorted_in].
  - cbn. tauto.
  - intros (H1 & H2 & H3). rewrite flatten_cons, in_app_iff, in_flat_range. intros [H|H].
    + pose proof (sorted_in_le _ _ _ H3). lia.
    + specialize (IH _ H3 H). lia.
Qed.

Lemma sorted_in_app lo mid hi a b : sorted_in lo mid a -> sorted_in mid hi b -> sorted_in lo hi (a ++ b).
Proof.
  revert lo; induction a as [|[s e] tl IH]; intros lo; cbn [sorted_in app].
  - intros H Hb. eapply sorted_in_weaken; eauto. lia.
  - intros (H1 & H2 & H3) Hb. repeat split; auto.
Qed.

(* strictly increasing lists of N: equal as soon as they have the same elements *)
Definition incr (l : list N) : Prop := StronglySorted N.lt l.

Lemma incr_ext l1 l2 : incr l1 -> incr l2 -> (forall x, In x l1 <-> In x l2) -> l1 = l2.
Proof.
  revert l2; induction l1 as [|a l1 IH]; intros l2 H1 H2 E.
  - destruct l2 as [|b l2]; [reflexivity|]. destruct (proj2 (E b) (or_introl eq_refl)).
  - destruct l2 as [|b l2]. { destruct (proj1 (E a) (or_introl eq_refl)). }
    apply StronglySorted_inv in H1 as [H1 F1]. apply StronglySorted_inv in H2 as [H2 F2].
    rewrite Forall_forall in F1, F2.
    assert (a = b).
    { destruct (proj1 (E a) (or_introl eq_refl)) as [->|Hb]; [reflexivity|].
      destruct (proj2 (E b) (or_introl eq_refl)) as [->|Ha]; [reflexivity|].
      specialize (F1 _ Ha). specialize (F2 _ Hb). lia. }
    subst b. f_equal. apply IH; auto. intros x. split; intros Hx.
    + destruct (proj1 (E x) (or_intror Hx)) as [->|]; [|assumption]. specialize (F1 _ Hx). lia.
    + destruct (proj2 (E x) (or_intror Hx)) as [->|]; [|assumption]. specialize (F2 _ Hx). lia.
Qed.

Lemma incr_seqN s n : incr (seqN s n).
Proof.
  revert s; induction n as [|n IH]; intros s; cbn [seqN]; constructor; [apply IH|].
  rewrite Forall_forall. intros x Hx. apply in_seqN in Hx. lia.
Qed.

Lemma incr_app l1 l2 : incr l1 -> incr l2 -> (forall x y, In x l1 -> In y l2 -> x < y) -> incr (l1 ++ l2).
Proof.
  intros H1 H2 H. induction l1 as [|a l1 IH]; cbn [app]; [assumption|].
  apply StronglySorted_inv in H1 as [H1 F1]. constructor.
  - apply IH; [exact H1|]. intros; apply H; [right|]; assumption.
  - apply Forall_forall. rewrite Forall_forall in F1. intros x Hx. apply in_app_iff in Hx as [Hx|Hx]; [auto|].
    apply H; [left; reflexivity | assumption].
Qed.

Lemma incr_filter p l : incr l -> incr (filter p l).
Proof.
  intros H; induction l as [|a l IH]; cbn [filter]; [constructor|].
  apply StronglySorted_inv in H as [H F]. destruct (p a); [|apply IH; exact H]. constructor; [apply IH; exact H|].
  apply Forall_forall. intros x Hx. rewrite Forall_forall in F. apply filter_In in Hx as [Hx _]. auto.
Qed.

Lemma incr_flatten lo hi rs : sorted_in lo hi rs -> incr (flatten rs).
Proof.
  revert lo; induction rs as [|[s e] tl IH]; intros lo; cbn [sorted_in]; [constructor|].
  intros (H1 & H2 & H3). rewrite flatten_cons. apply incr_app.
  - apply incr_seqN.
  - eapply IH; eauto.
  - intros x y Hx Hy. apply in_flat_range in Hx. pose proof (sorted_in_bounds _ _ _ _ H3 Hy). lia.
Qed.

Lemma in_firstn_in {A} k (l : list A) x : In x (firstn k l) -> In x l.
Proof.
  revert l; induction k as [|k IH]; intros l; [cbn; tauto|]. destruct l as [|a l]; cbn [firstn In]; [tauto|].
  intros [->|H]; [left; reflexivity | right; apply IH; exact H].
Qed.
Lemma in_skipn_in {A} k (l : list A) x : In x (skipn k l) -> In x l.
Proof.
  revert l; induction k as [|k IH]; intros l; [cbn; tauto|]. destruct l as [|a l]; cbn [skipn In]; [tauto|].
  intros H; right; apply IH; exact H.
Qed.

Lemma incr_firstn k l : incr l -> incr (firstn k l).
Proof.
  revert l; induction k as [|k IH]; intros l H; [constructor|]. destruct l as [|a l]; [constructor|].
  cbn [firstn]. apply StronglySorted_inv in H as [H F]. constructor; [apply IH; exact H|].
  apply Forall_forall. rewrite Forall_forall in F. intros x Hx. apply F. apply in_firstn_in in Hx. exact Hx.
Qed.

(* ------------------------------------------------------------------ sum_rows *)
Definition lenN {A} (l : list A) : N := N.of_nat (length l).

Lemma lenN_flatten_le lo hi rs : sorted_in lo hi rs -> lenN (flatten rs) <= hi - lo.
Proof.
  revert lo; induction rs as [|[s e] tl IH]; intros lo; cbn [sorted_in].
  - intros _. unfold lenN. cbn. lia.
  - intros (H1 & H2 & H3). specialize (IH _ H3). pose proof (sorted_in_le _ _ _ H3).
    unfold lenN in *. rewrite flatten_cons, app_length, flat_range_length. lia.
Qed.

Lemma sum_rows_ok lo hi rs : sorted_in lo hi rs -> hi < two64 -> sum_rows rs = Ok (lenN (flatten rs)).
Proof.
  revert lo; induction rs as [|[s e] tl IH]; intros lo; cbn [sorted_in sum_rows].
  - reflexivity.
  - intros (H1 & H2 & H3) Hh. unfold csub. destruct (N.leb_spec s e); [|lia]. cbn [obind].
    rewrite (IH _ H3 Hh). cbn [obind]. unfold cadd.
    pose proof (lenN_flatten_le _ _ _ H3). pose proof (sorted_in_le _ _ _ H3).
    destruct (N.ltb_spec (e - s + lenN (flatten tl)) two64); [|lia].
    f_equal. unfold lenN in *. rewrite flatten_cons, app_length, flat_range_length. lia.
Qed.
(* ------------------------------------------------------------------ trim_ranges_by_offset / trim_ranges *)
Lemma winT_seqN sk tk s n : winT sk tk (seqN s n) = seqN (s + N.of_nat sk) (Nat.min tk (n - sk)).
Proof. unfold winT. rewrite skipn_seqN, firstn_seqN. reflexivity. Qed.

Lemma flat_range_eq s e : flat_range (s, e) = seqN s (N.to_nat (e - s)).
Proof. reflexivity. Qed.

Lemma csub_ok a b : b <= a -> csub a b = Ok (a - b).
Proof. intros H. unfold csub. destruct (N.leb_spec b a); [reflexivity | lia]. Qed.
Lemma cadd_ok a b : a + b < two64 -> cadd a b = Ok (a + b).
Proof. intros H. unfold cadd. destruct (N.ltb_spec (a + b) two64); [reflexivity | lia]. Qed.

Lemma trim_by_offset_spec rs : forall lo hi sk tk,
  sorted_in lo hi rs -> hi < two64 ->
  exists rs', trim_by_offset rs sk tk = Ok rs'
    /\ flatten rs' = winT (N.to_nat sk) (N.to_nat tk) (flatten rs)
    /\ sorted_in lo hi rs'.
Proof.
  induction rs as [|[s e] tl IH]; intros lo hi sk tk Hs Hh.
  - exists []. cbn [trim_by_offset flatten flat_map]. rewrite winT_nil. auto.
  - cbn [sorted_in] in Hs. destruct Hs as (H1 & H2 & H3). pose proof (sorted_in_le _ _ _ H3) as Hle.
    cbn [trim_by_offset]. destruct (N.eqb_spec tk 0) as [->|Htk].
    { exists []. split; [reflexivity|]. split; [reflexivity|]. cbn [sorted_in]. lia. }
    rewrite csub_ok by exact H2. cbn [obind].
    rewrite flatten_cons, flat_range_eq, winT_app, winT_seqN, seqN_length.
    destruct (N.leb_spec (e - s) sk) as [Hsk|Hsk].
    { destruct (IH e hi (sk - (e - s)) tk H3 Hh) as (rs' & E & F & S). exists rs'. split; [exact E|]. split.
      - rewrite F. replace (Nat.min (N.to_nat tk) (N.to_nat (e - s) - N.to_nat sk)) with 0%nat by lia.
        cbn [seqN app length]. f_equal; lia.
      - eapply sorted_in_weaken; eauto; lia. }
    destruct (N.eqb_spec sk 0) as [->|Hsk0]; cbn [andb].
    + destruct (N.leb_spec (e - s) tk) as [Htk2|Htk2].
      * destruct (IH e hi 0 (tk - (e - s)) H3 Hh) as (rs' & E & F & S). rewrite E. cbn [obind].
        exists ((s, e) :: rs'). split; [reflexivity|]. split.
        -- rewrite flatten_cons, flat_range_eq, F. rewrite seqN_length. f_equal; [f_equal; lia|f_equal; lia].
        -- cbn [sorted_in]. auto.
      * unfold ssub. rewrite cadd_ok by lia. cbn [obind]. rewrite cadd_ok by lia. cbn [obind].
        destruct (IH e hi 0 (tk - N.min (e - s - 0) tk) H3 Hh) as (rs' & E & F & S). rewrite E. cbn [obind].
        eexists. split; [reflexivity|]. split.
        -- rewrite flatten_cons, flat_range_eq, F. rewrite seqN_length. cbn [fst snd]. f_equal; [f_equal; lia|f_equal; lia].
        -- cbn [sorted_in]. repeat split; try lia. eapply sorted_in_weaken; eauto; lia.
    + unfold ssub. rewrite cadd_ok by lia. cbn [obind]. rewrite cadd_ok by lia. cbn [obind].
      destruct (IH e hi 0 (tk - N.min (e - s - sk) tk) H3 Hh) as (rs' & E & F & S). rewrite E. cbn [obind].
      eexists. split; [reflexivity|]. split.
      * rewrite flatten_cons, flat_range_eq, F. rewrite seqN_length. cbn [fst snd]. f_equal; [f_equal; lia|f_equal; lia].
      * cbn [sorted_in]. repeat split; try lia. eapply sorted_in_weaken; eauto; lia.
Qed.

Lemma trim_loop_spec rs : forall lo hi sk tk,
  sorted_in lo hi rs -> hi < two64 ->
  exists rs', trim_loop rs sk tk = Ok rs'
    /\ flatten rs' = winT (N.to_nat sk) (N.to_nat tk) (flatten rs)
    /\ sorted_in lo hi rs'.
Proof.
  induction rs as [|[s e] tl IH]; intros lo hi sk tk Hs Hh.
  - exists []. cbn [trim_loop flatten flat_map]. rewrite winT_nil. auto.
  - cbn [sorted_in] in Hs. destruct Hs as (H1 & H2 & H3). pose proof (sorted_in_le _ _ _ H3) as Hle.
    cbn [trim_loop]. rewrite csub_ok by exact H2. cbn [obind].
    rewrite flatten_cons, flat_range_eq, winT_app, winT_seqN, seqN_length.
    destruct (N.leb_spec (e - s) sk) as [Hsk|Hsk].
    { destruct (IH e hi (sk - (e - s)) tk H3 Hh) as (rs' & E & F & S). exists rs'. split; [exact E|]. split.
      - rewrite F. replace (Nat.min (N.to_nat tk) (N.to_nat (e - s) - N.to_nat sk)) with 0%nat by lia.
        cbn [seqN app length]. f_equal; lia.
      - eapply sorted_in_weaken; eauto; lia. }
    remember (N.min (e - s - sk) tk) as th eqn:Hth.
    assert (Hp : exists pushed, (if 0 <? th then do a <- cadd s sk; do b <- cadd a th; Ok [(a, b)] else Ok []) = Ok pushed
                 /\ flatten pushed = seqN (s + sk) (N.to_nat th) /\ sorted_in lo (s + sk + th) pushed).
    { assert (Hth1 : th <= e - s - sk) by lia. assert (Hth2 : th <= tk) by lia.
      destruct (N.ltb_spec 0 th).
      - assert (A1 : s + sk < two64) by lia. assert (A2 : s + sk + th < two64) by lia.
        rewrite (cadd_ok s sk) by exact A1. cbn [obind]. rewrite (cadd_ok (s + sk) th) by exact A2. cbn [obind]. eexists. split; [reflexivity|]. split.
        + rewrite flatten_cons, flat_range_eq. cbn [fst snd flatten flat_map]. rewrite app_nil_r. f_equal. lia.
        + cbn [sorted_in]. lia.
      - exists []. split; [reflexivity|]. replace th with 0 by lia. split; [reflexivity | cbn [sorted_in]; lia]. }
    destruct Hp as (pushed & Ep & Fp & Sp). rewrite Ep. cbn [obind].
    destruct (N.eqb_spec (tk - th) 0) as [Hz|Hz].
    + exists pushed. split; [reflexivity|]. split.
      * rewrite Fp. replace (N.to_nat tk - _)%nat with 0%nat by (rewrite seqN_length; lia). rewrite winT_zero, app_nil_r.
        f_equal; lia.
      * eapply sorted_in_weaken; eauto; lia.
    + destruct (IH e hi 0 (tk - th) H3 Hh) as (rs' & E & F & S). rewrite E. cbn [obind].
      exists (pushed ++ rs'). split; [reflexivity|]. split.
      * rewrite flatten_app, Fp, F. rewrite seqN_length. f_equal; [f_equal; lia | f_equal; lia].
      * eapply sorted_in_app; eauto. eapply sorted_in_weaken; eauto; lia.
Qed.

(* the fragment occupies positions [ps, pe) of the row sequence; bounds = [bs, be) *)
Lemma trim_ranges_spec rs lo hi ps pe bs be :
  sorted_in lo hi rs -> hi < two64 -> ps <= pe -> pe - ps = lenN (flatten rs) ->
  exists rs', trim_ranges rs (ps, pe) (bs, be) = Ok rs'
    /\ flatten rs' = winT (N.to_nat (bs - ps)) (N.to_nat (be - ps) - N.to_nat (bs - ps)) (flatten rs)
    /\ sorted_in lo hi rs'.
Proof.
  intros Hs Hh Hp Hl. unfold trim_ranges. cbn [fst snd]. rewrite csub_ok by exact Hp. cbn [obind].
  unfold calculate_fetch, ssub. cbn [fst snd].
  remember (bs - ps) as sk eqn:Hsk. remember (N.min be pe - N.max ps bs) as tk eqn:Htk.
  assert (W : winT (N.to_nat sk) (N.to_nat tk) (flatten rs)
              = winT (N.to_nat sk) (N.to_nat (be - ps) - N.to_nat sk) (flatten rs)).
  { apply winT_eq_take. unfold lenN in Hl. lia. }
  destruct ((sk =? 0) && (tk =? pe - ps)) eqn:E.
  - apply andb_true_iff in E as [E1 E2]. apply N.eqb_eq in E1, E2.
    exists rs. split; [reflexivity|]. split; [|exact Hs]. rewrite <- W, E1. symmetry. apply winT_all.
    unfold lenN in Hl. lia.
  - destruct (trim_loop_spec rs lo hi sk tk Hs Hh) as (rs' & E' & F & S). exists rs'. rewrite <- W. auto.
Qed.

Lemma apply_skip_take_spec rs lo hi sk tk :
  sorted_in lo hi rs -> hi < two64 ->
  exists rs' sk' tk', apply_skip_take rs sk tk = Ok (rs', sk', tk')
    /\ flatten rs' = winT (N.to_nat sk) (N.to_nat tk) (flatten rs)
    /\ sorted_in lo hi rs'
    /\ tk' = tk - lenN (flatten rs')
    /\ (tk <> 0 -> sk' = sk - lenN (flatten rs)).
Proof.
  intros Hs Hh. unfold apply_skip_take. destruct (N.eqb_spec tk 0) as [->|Htk].
  { exists [], 0, 0. split; [reflexivity|]. split; [reflexivity|]. split; [eapply sorted_in_le; eauto|].
    split; [reflexivity | congruence]. }
  rewrite (sum_rows_ok _ _ _ Hs Hh). cbn [obind].
  destruct (N.leb_spec (lenN (flatten rs)) sk) as [Hsk|Hsk].
  { exists [], (sk - lenN (flatten rs)), tk. split; [reflexivity|]. split.
    - symmetry. apply winT_skip_all. unfold lenN in Hsk. lia.
    - split; [eapply sorted_in_le; eauto|]. split; [cbn; lia | reflexivity]. }
  destruct (trim_by_offset_spec rs lo hi sk tk Hs Hh) as (rs' & E & F & S). rewrite E. cbn [obind].
  rewrite (sum_rows_ok _ _ _ S Hh). cbn [obind]. unfold ssub.
  exists rs', 0, (tk - lenN (flatten rs')). repeat split; auto. intros _. lia.
Qed.
(* ------------------------------------------------------------------ intersect_ranges *)
Lemma intersect_nil_l b : intersect_ranges [] b = [].
Proof. destruct b; reflexivity. Qed.
Lemma intersect_nil_r a : intersect_ranges a [] = [].
Proof. destruct a as [|[s e] ta]; reflexivity. Qed.
Lemma intersect_cons s1 e1 ta s2 e2 tb :
  intersect_ranges ((s1, e1) :: ta) ((s2, e2) :: tb) =
  (if N.max s1 s2 <? N.min e1 e2 then [(N.max s1 s2, N.min e1 e2)] else [])
    ++ (if e1 <=? e2 then intersect_ranges ta ((s2, e2) :: tb) else intersect_ranges ((s1, e1) :: ta) tb).
Proof. cbn [intersect_ranges]. destruct (e1 <=? e2); reflexivity. Qed.

Lemma in_hd x s1 e1 s2 e2 :
  In x (flatten (if N.max s1 s2 <? N.min e1 e2 then [(N.max s1 s2, N.min e1 e2)] else []))
  <-> (s1 <= x < e1 /\ s2 <= x < e2).
Proof.
  destruct (N.ltb_spec (N.max s1 s2) (N.min e1 e2)).
  - rewrite flatten_cons, in_app_iff, in_flat_range. cbn [flatten flat_map In]. lia.
  - cbn [flatten flat_map In]. lia.
Qed.

Lemma in_intersect a : forall b loa hia lob hib x,
  sorted_in loa hia a -> sorted_in lob hib b ->
  (In x (flatten (intersect_ranges a b)) <-> In x (flatten a) /\ In x (flatten b)).
Proof.
  induction a as [|[s1 e1] ta IHa]; intros b loa hia lob hib x Ha Hb.
  - rewrite intersect_nil_l. cbn. tauto.
  - revert lob Hb. induction b as [|[s2 e2] tb IHb]; intros lob Hb.
    + rewrite intersect_nil_r. cbn. tauto.
    + rewrite intersect_cons, flatten_app, in_app_iff, in_hd.
      cbn [sorted_in] in Ha, Hb. destruct Ha as (A1 & A2 & A3). destruct Hb as (B1 & B2 & B3).
      pose proof (fun H => sorted_in_bounds _ _ _ x A3 H) as TA.
      pose proof (fun H => sorted_in_bounds _ _ _ x B3 H) as TB.
      destruct (N.leb_spec e1 e2) as [L|L].
      * rewrite (IHa ((s2, e2) :: tb) e1 hia lob hib x A3) by (cbn [sorted_in]; auto).
        rewrite !flatten_cons, !in_app_iff, !in_flat_range. split.
        -- intros [H|[H1 H2]]; [lia|]. tauto.
        -- intros [[H1|H1] [H2|H2]]; try (left; lia); try (right; tauto); specialize (TB H2); lia.
      * rewrite (IHb e2 B3).
        rewrite !flatten_cons, !in_app_iff, !in_flat_range. split.
        -- intros [H|[H1 H2]]; [lia|]. tauto.
        -- intros [[H1|H1] [H2|H2]]; try (left; lia); try (right; tauto); specialize (TA H1); lia.
Qed.

Lemma sorted_intersect a : forall b loa hia lob hib,
  sorted_in loa hia a -> sorted_in lob hib b ->
  sorted_in (N.min (N.max loa lob) hia) hia (intersect_ranges a b).
Proof.
  induction a as [|[s1 e1] ta IHa]; intros b loa hia lob hib Ha Hb.
  - rewrite intersect_nil_l. cbn [sorted_in]. lia.
  - revert lob Hb. induction b as [|[s2 e2] tb IHb]; intros lob Hb.
    + rewrite intersect_nil_r. cbn [sorted_in]. lia.
    + rewrite intersect_cons.
      cbn [sorted_in] in Ha, Hb. destruct Ha as (A1 & A2 & A3). destruct Hb as (B1 & B2 & B3).
      pose proof (sorted_in_le _ _ _ A3) as LA.
      destruct (N.leb_spec e1 e2) as [L|L].
      * assert (R : sorted_in (N.min (N.max e1 lob) hia) hia (intersect_ranges ta ((s2, e2) :: tb))).
        { apply (IHa _ e1 hia lob hib A3). cbn [sorted_in]. auto. }
        destruct (N.ltb_spec (N.max s1 s2) (N.min e1 e2)); cbn [app sorted_in].
        -- repeat split; try lia. eapply sorted_in_weaken; eauto; lia.
        -- eapply sorted_in_weaken; eauto; lia.
      * assert (R : sorted_in (N.min (N.max loa e2) hia) hia (intersect_ranges ((s1, e1) :: ta) tb)).
        { apply (IHb e2 B3). }
        destruct (N.ltb_spec (N.max s1 s2) (N.min e1 e2)); cbn [app sorted_in].
        -- repeat split; try lia. eapply sorted_in_weaken; eauto; lia.
        -- eapply sorted_in_weaken; eauto; lia.
Qed.

Lemma intersect_spec a b loa hia lob hib :
  sorted_in loa hia a -> sorted_in lob hib b ->
  flatten (intersect_ranges a b) = filter (fun x => in_ranges x b) (flatten a)
  /\ sorted_in loa hia (intersect_ranges a b).
Proof.
  intros Ha Hb. pose proof (sorted_intersect a b _ _ _ _ Ha Hb) as S.
  pose proof (sorted_in_le _ _ _ Ha) as L. split.
  - apply incr_ext.
    + eapply incr_flatten; eauto.
    + apply incr_filter. eapply incr_flatten; eauto.
    + intros x. rewrite (in_intersect a b _ _ _ _ x Ha Hb), filter_In, (in_flatten x b). reflexivity.
  - eapply sorted_in_weaken; eauto; lia.
Qed.

(* ------------------------------------------------------------------ DvToValidRanges / full_frag_range *)
Definition dv_ok (phys : N) (d : list N) : Prop := incr d /\ forall x, In x d -> x < phys.

Lemma dv_inner_spec d : forall n pos,
  incr d -> (forall x, In x d -> pos <= x < n) -> pos <= n ->
  sorted_in pos n (dv_inner d n pos)
  /\ forall x, In x (flatten (dv_inner d n pos)) <-> (pos <= x < n /\ ~ In x d).
Proof.
  induction d as [|d0 tl IH]; intros n pos Hi Hb Hp; cbn [dv_inner].
  - destruct (N.eqb_spec pos n) as [->|Hne].
    + split; [cbn [sorted_in]; lia|]. intros x. cbn. lia.
    + split; [cbn [sorted_in]; lia|]. intros x. rewrite flatten_cons, in_app_iff, in_flat_range. cbn. lia.
  - apply StronglySorted_inv in Hi as [Hi F]. rewrite Forall_forall in F.
    pose proof (Hb d0 (or_introl eq_refl)) as B0.
    destruct (N.eqb_spec d0 pos) as [->|Hne].
    + destruct (IH n (pos + 1) Hi) as [S M].
      { intros x Hx. specialize (F _ Hx). specialize (Hb x (or_intror Hx)). lia. } { lia. }
      split; [eapply sorted_in_weaken; eauto; lia|]. intros x. rewrite M. cbn [In].
      split; [intros [H1 H2]; split; [lia|]; intros [->|H]; [lia | tauto] | intros [H1 H2]; split; [|tauto]].
      destruct (N.eq_dec pos x) as [->|]; [tauto | lia].
    + destruct (N.leb_spec n (d0 + 1)) as [L|L].
      * split; [cbn [sorted_in]; lia|]. intros x. rewrite flatten_cons, in_app_iff, in_flat_range. cbn [flatten flat_map In].
        split; [intros [H|[]]; split; [lia|]; intros [->|H']; [lia|]; specialize (F _ H'); lia |].
        intros [H1 H2]. left. destruct (N.eq_dec d0 x) as [->|]; [tauto | lia].
      * destruct (IH n (d0 + 1) Hi) as [S M].
        { intros x Hx. specialize (F _ Hx). specialize (Hb x (or_intror Hx)). lia. } { lia. }
        split; [cbn [sorted_in]; repeat split; try lia; eapply sorted_in_weaken; eauto; lia|].
        intros x. rewrite flatten_cons, in_app_iff, in_flat_range, M. cbn [In].
        split.
        -- intros [H|[H1 H2]]; (split; [lia|]); intros [->|H']; try lia; try tauto. specialize (F _ H'). lia.
        -- intros [H1 H2]. destruct (N.lt_ge_cases x d0); [left; lia | right]. split; [|tauto].
           destruct (N.eq_dec d0 x) as [->|]; [tauto | lia].
Qed.

Definition live_of (phys : N) (dv : option (list N)) : list N :=
  let dels := match dv with Some d => d | None => [] end in
  filter (fun off => negb (existsb (N.eqb off) dels)) (seqN 0 (N.to_nat phys)).

Lemma existsb_eqb_in x d : existsb (N.eqb x) d = true <-> In x d.
Proof.
  rewrite existsb_exists. split; [intros (y & H & E); apply N.eqb_eq in E; subst; exact H|].
  intros H; exists x; split; [exact H | apply N.eqb_refl].
Qed.

Lemma full_frag_range_spec phys dv :
  match dv with Some d => dv_ok phys d | None => True end ->
  flatten (full_frag_range phys dv) = live_of phys dv /\ sorted_in 0 phys (full_frag_range phys dv).
Proof.
  intros H. unfold live_of. destruct dv as [d|]; cbn [full_frag_range].
  - destruct H as [Hi Hb]. unfold dv_to_valid_ranges. destruct (N.leb_spec phys 0) as [L|L].
    + replace phys with 0 by lia. cbn. split; [reflexivity | lia].
    + destruct (dv_inner_spec d phys 0 Hi) as [S M]. { intros x Hx. specialize (Hb x Hx). lia. } { lia. }
      split; [|exact S]. apply incr_ext.
      * eapply incr_flatten; eauto.
      * apply incr_filter, incr_seqN.
      * intros x. rewrite M, filter_In, in_seqN, negb_true_iff.
        rewrite <- not_true_iff_false, existsb_eqb_in, N2Nat.id. intuition lia.
  - split.
    + rewrite flatten_cons, flat_range_eq. cbn [flatten flat_map]. rewrite app_nil_r, N.sub_0_r.
      symmetry. cbn [existsb negb]. induction (seqN 0 (N.to_nat phys)) as [|a l IHl]; cbn [filter]; congruence.
    + cbn [sorted_in]. lia.
Qed.
(* ------------------------------------------------------------------ plan_scan *)
Lemma filter_filter {A} (p q : A -> bool) l : filter p (filter q l) = filter (fun x => q x && p x) l.
Proof.
  induction l as [|a l IH]; cbn [filter]; [reflexivity|]. destruct (q a); cbn [filter andb]; [|exact IH].
  destruct (p a); rewrite IH; reflexivity.
Qed.

Lemma filter_nil_iff {A} (p : A -> bool) l : filter p l = [] <-> forall x, In x l -> p x = false.
Proof.
  induction l as [|a l IH]; cbn [filter In]; [tauto|]. destruct (p a) eqn:E.
  - split; [discriminate|]. intros H. specialize (H a (or_introl eq_refl)). congruence.
  - rewrite IH. split; [intros H x [->|Hx]; auto | intros H x Hx; auto].
Qed.

Section PlanSound.
  Variable o : opts.
  Variables refine_p full_p indexed_p : rowpred.

  Definition frag_rows (f : frag) : N := if o_with_deleted o then f_phys f else f_logical f.
  Definition live (f : frag) : list N := live_of (f_phys f) (f_dv f).
  Definition refine_eff : rowpred := if o_has_refine o then refine_p else (fun _ _ => true).

  Lemma live_offsets_eq f : live_offsets o f = live f.
  Proof. reflexivity. Qed.

  Definition wf_frag (f : frag) : Prop :=
    match f_dv f with Some d => dv_ok (f_phys f) d | None => True end
    /\ frag_rows f = lenN (live f)
    /\ f_phys f < two64
    /\ match f_matched f with Some m => exists lo hi, sorted_in lo hi m | None => True end.

  (* what the index result promises about fragment number i (C21: Exact = the truth of the indexed
     part, AtMost a superset, AtLeast a subset), on rows that exist; and full = indexed AND refine *)
  Definition guarantee (i : nat) (f : frag) : Prop :=
    match o_index o, f_matched f with
    | Some k, Some m =>
        forall off, In off (live f) ->
          full_p i off = indexed_p i off && refine_eff i off
          /\ match k with
             | Exact => in_ranges off m = indexed_p i off
             | AtMost => indexed_p i off = true -> in_ranges off m = true
             | AtLeast => in_ranges off m = true -> indexed_p i off = true
             end
    | _, _ => True
    end.

  Fixpoint wf_frags (i : nat) (frs : list frag) : Prop :=
    match frs with [] => True | f :: tl => wf_frag f /\ guarantee i f /\ wf_frags (S i) tl end.

  Fixpoint total_rows (frs : list frag) : N :=
    match frs with [] => 0 | f :: tl => frag_rows f + total_rows tl end.

  (* rows of fragment f inside the before-filter range when the fragment starts at position off *)
  Definition t_spec (off : N) (f : frag) : list N :=
    match o_before o with
    | Some (bs, be) => winT (N.to_nat (bs - off)) (N.to_nat (be - off) - N.to_nat (bs - off)) (live f)
    | None => live f
    end.

  Fixpoint rows_spec (i : nat) (off : N) (frs : list frag) : list row :=
    match frs with
    | [] => []
    | f :: tl => map (pair i) (t_spec off f) ++ rows_spec (S i) (off + frag_rows f) tl
    end.

  Definition fullr (r : row) : bool := full_p (fst r) (snd r).

  Lemma filter_map_pair i (p : rowpred) l :
    filter (fun r : row => p (fst r) (snd r)) (map (pair i) l) = map (pair i) (filter (p i) l).
  Proof. induction l as [|a l IH]; cbn [map filter fst snd]; [reflexivity|]. destruct (p i a); cbn [map]; rewrite IH; reflexivity. Qed.

  Lemma rows_spec_before i off frs bs be :
    o_before o = Some (bs, be) -> (forall f, In f frs -> frag_rows f = lenN (live f)) ->
    rows_spec i off frs = winT (N.to_nat (bs - off)) (N.to_nat (be - off) - N.to_nat (bs - off)) (all_rows o i frs).
  Proof.
    intros Hb. revert i off. induction frs as [|f tl IH]; intros i off Hl; cbn [rows_spec all_rows].
    - rewrite winT_nil. reflexivity.
    - rewrite winT_app, winT_map, live_offsets_eq. unfold t_spec at 1. rewrite Hb. f_equal.
      rewrite IH by (intros; apply Hl; right; assumption).
      pose proof (Hl f (or_introl eq_refl)) as E. unfold lenN in E.
      rewrite !map_length, winT_length. f_equal; lia.
  Qed.

  Lemma rows_spec_nobefore i off frs : o_before o = None -> rows_spec i off frs = all_rows o i frs.
  Proof.
    intros Hb. revert i off. induction frs as [|f tl IH]; intros i off; cbn [rows_spec all_rows]; [reflexivity|].
    rewrite IH. unfold t_spec. rewrite Hb. reflexivity.
  Qed.

  Lemma rows_spec_stop i off frs bs be :
    o_before o = Some (bs, be) -> be <= off -> rows_spec i off frs = [].
  Proof.
    intros Hb. revert i off. induction frs as [|f tl IH]; intros i off Hs; cbn [rows_spec]; [reflexivity|].
    rewrite IH by lia. unfold t_spec. rewrite Hb. replace (N.to_nat (be - off) - _)%nat with 0%nat by lia.
    rewrite winT_zero. reflexivity.
  Qed.

  (* ---- the to_read of a fragment *)
  Lemma to_read_spec f off :
    wf_frag f -> off + frag_rows f < two64 ->
    exists tr off',
      (match o_before o with
       | Some rb =>
           do range_end <- cadd off (if o_with_deleted o then f_phys f else f_logical f);
           do t <- trim_ranges (full_frag_range (f_phys f) (f_dv f)) (off, range_end) rb;
           Ok (t, range_end)
       | None => Ok (full_frag_range (f_phys f) (f_dv f), off)
       end) = Ok (tr, off')
      /\ flatten tr = t_spec off f /\ sorted_in 0 (f_phys f) tr
      /\ (match o_before o with Some _ => off' = off + frag_rows f | None => off' = off end).
  Proof.
    intros (Hd & Hr & Hp & _) Ho. destruct (full_frag_range_spec (f_phys f) (f_dv f) Hd) as [F S].
    unfold t_spec. destruct (o_before o) as [[bs be]|].
    - fold (frag_rows f). rewrite cadd_ok by exact Ho. cbn [obind].
      destruct (trim_ranges_spec _ 0 (f_phys f) off (off + frag_rows f) bs be S Hp) as (tr & E & Ft & St).
      { lia. } { rewrite F. fold (live f). lia. }
      rewrite E. cbn [obind]. exists tr, (off + frag_rows f). rewrite Ft, F. auto.
    - exists (full_frag_range (f_phys f) (f_dv f)), off. auto.
  Qed.

  Lemma t_spec_live off f x : In x (t_spec off f) -> In x (live f).
  Proof.
    unfold t_spec. destruct (o_before o) as [[bs be]|]; [|tauto]. unfold winT. intros H.
    apply in_firstn_in in H. apply in_skipn_in in H. exact H.
  Qed.

  Definition planned_of (f : frag) (e : option ranges) (pushed : bool) : planned :=
    match e with Some ((_ :: _) as rs) => Some (rs, choose_filter o f pushed) | _ => None end.
  Definition exec_one (i : nat) (p : planned) : list row :=
    match p with
    | None => []
    | Some (rs, w) => map (pair i) (filter (filter_of o refine_p full_p w i) (flatten rs))
    end.

  Lemma exec_frags_cons i p pl :
    exec_frags o refine_p full_p i (p :: pl) = exec_one i p ++ exec_frags o refine_p full_p (S i) pl.
  Proof. destruct p as [[rs w]|]; reflexivity. Qed.

  Lemma exec_one_planned i f e pushed :
    exec_one i (planned_of f e pushed) =
    map (pair i) (filter (filter_of o refine_p full_p (choose_filter o f pushed) i)
                         (flatten (match e with Some rs => rs | None => [] end))).
  Proof. destruct e as [[|r rs]|]; unfold planned_of, exec_one; reflexivity. Qed.

  Lemma filter_of_refine i : filter_of o refine_p full_p FRefine i = refine_eff i.
  Proof. unfold filter_of, refine_eff. destruct (o_has_refine o); reflexivity. Qed.

  (* ---- apply_index_to_fragment *)
  Lemma existsb_false {A} (p : A -> bool) l : existsb p l = false <-> forall x, In x l -> p x = false.
  Proof.
    induction l as [|a l IH]; cbn [existsb In]; [tauto|]. rewrite orb_false_iff, IH.
    split; [intros [H1 H2] x [->|Hx]; auto | intros H; split; auto].
  Qed.

  Lemma filter_true {A} (l : list A) : filter (fun _ => true) l = l.
  Proof. induction l as [|a l IH]; cbn [filter]; congruence. Qed.

  Lemma acc_eq a tr lo hi i :
    sorted_in lo hi a -> incr (flatten tr) ->
    (forall x, In x (flatten a) -> In x (flatten tr) /\ full_p i x = true) ->
    existsb (fun off => full_p i off && negb (in_ranges off a)) (flatten tr) = false ->
    flatten a = filter (full_p i) (flatten tr).
  Proof.
    intros Sa It Hin Hu. rewrite existsb_false in Hu. apply incr_ext.
    - eapply incr_flatten; eauto.
    - apply incr_filter; exact It.
    - intros x. rewrite filter_In. split; [apply Hin|]. intros [H1 H2]. specialize (Hu x H1).
      rewrite H2 in Hu. cbn [andb] in Hu. apply negb_false_iff in Hu. apply in_flatten. exact Hu.
  Qed.

  Definition push_props (i : nat) (f : frag) (tr : ranges) (w : which_filter) (push_e : option ranges) (sk tk sk' tk' : N) : Prop :=
    let c := flatten (accounted o f tr) in
    let pe := match push_e with Some rs => rs | None => [] end in
    flatten pe = winT (N.to_nat sk) (N.to_nat tk) c
    /\ tk' = tk - lenN (flatten pe)
    /\ (tk <> 0 -> sk' = sk - lenN c)
    /\ (o_has_refine o = false -> has_unaccounted o full_p i f tr = false ->
        c = filter (full_p i) (flatten tr)
        /\ filter (filter_of o refine_p full_p w i) (flatten pe) = flatten pe).

  Lemma push_props_none i f tr w sk tk :
    accounted o f tr = [] -> push_props i f tr w None sk tk sk tk.
  Proof.
    intros Ha. unfold push_props, has_unaccounted. rewrite Ha. cbn [flatten flat_map]. rewrite winT_nil.
    unfold lenN. cbn [length]. split; [reflexivity|]. split; [lia|]. split; [intros; lia|].
    intros _ Hu. split; [|reflexivity]. symmetry. apply filter_nil_iff.
    rewrite existsb_false in Hu. intros x Hx. specialize (Hu x Hx). cbn [in_ranges existsb negb] in Hu.
    rewrite andb_true_r in Hu. exact Hu.
  Qed.

  Lemma push_props_some i f tr m sk tk :
    f_matched f = Some m -> (o_index o = Some Exact \/ o_index o = Some AtLeast) ->
    (exists lo hi, sorted_in lo hi m) -> f_phys f < two64 -> sorted_in 0 (f_phys f) tr ->
    (forall x, In x (flatten tr) -> in_ranges x m = true -> o_has_refine o = false -> full_p i x = true) ->
    exists pushed sk' tk',
      apply_skip_take (intersect_ranges tr m) sk tk = Ok (pushed, sk', tk')
      /\ push_props i f tr FRefine (Some pushed) sk tk sk' tk'.
  Proof.
    intros Em Ek (lo & hi & Sm) Hp St Hfull.
    destruct (intersect_spec tr m _ _ _ _ St Sm) as [Fi Si].
    destruct (apply_skip_take_spec _ _ _ sk tk Si Hp) as (pushed & sk' & tk' & E & Fp & Sp & Etk & Esk).
    exists pushed, sk', tk'. split; [exact E|]. unfold push_props, has_unaccounted.
    assert (Ea : accounted o f tr = intersect_ranges tr m).
    { unfold accounted. rewrite Em. destruct Ek as [-> | ->]; reflexivity. }
    rewrite Ea. split; [exact Fp|]. split; [exact Etk|]. split; [exact Esk|]. intros Hr0 Hu. split.
    - eapply acc_eq; eauto; [eapply incr_flatten; eauto|]. intros x Hx. rewrite Fi in Hx. apply filter_In in Hx as [H1 H2].
      split; [exact H1 | apply Hfull; auto].
    - rewrite filter_of_refine. unfold refine_eff. rewrite Hr0. apply filter_true.
  Qed.

  Lemma apply_index_spec i f tr off sk tk :
    wf_frag f -> guarantee i f -> flatten tr = t_spec off f -> sorted_in 0 (f_phys f) tr ->
    exists full_e push_e sk' tk',
      apply_index_to_fragment o f tr sk tk = Ok (full_e, push_e, sk', tk')
      /\ filter (filter_of o refine_p full_p (choose_filter o f false) i) (flatten full_e)
         = filter (full_p i) (flatten tr)
      /\ push_props i f tr (choose_filter o f true) push_e sk tk sk' tk'.
  Proof.
    intros (Hd & Hr & Hp & Hm) G Ft St.
    assert (Hlive : forall x, In x (flatten tr) -> In x (live f)).
    { intros x Hx. rewrite Ft in Hx. eapply t_spec_live; eauto. }
    unfold apply_index_to_fragment, choose_filter, guarantee in *.
    destruct (o_index o) as [k|] eqn:Ek.
    2:{ exists tr, None, sk, tk. split; [reflexivity|]. split; [reflexivity|]. apply push_props_none.
        unfold accounted. rewrite Ek. reflexivity. }
    destruct (f_matched f) as [m|] eqn:Em.
    2:{ exists tr, None, sk, tk. split; [destruct k; reflexivity|]. split; [destruct k; reflexivity|]. apply push_props_none.
        unfold accounted. rewrite Ek, Em. destruct k; reflexivity. }
    destruct Hm as (lo & hi & Sm).
    destruct (intersect_spec tr m _ _ _ _ St Sm) as [Fi Si].
    destruct k.
    - (* Exact *)
      destruct (push_props_some i f tr m sk tk Em (or_introl Ek)) as (pushed & sk' & tk' & E & PP); eauto.
      { intros x Hx Hin Hr0. destruct (G x (Hlive x Hx)) as [G1 G2]. rewrite G1, <- G2, Hin.
        unfold refine_eff. rewrite Hr0. reflexivity. }
      rewrite E. cbn [obind]. exists (intersect_ranges tr m), (Some pushed), sk', tk'.
      split; [reflexivity|]. split; [|exact PP].
      rewrite Fi, filter_filter, filter_of_refine. apply filter_ext_in. intros x Hx.
      destruct (G x (Hlive x Hx)) as [G1 G2]. rewrite G1, G2. reflexivity.
    - (* AtMost *)
      exists (intersect_ranges tr m), None, sk, tk. split; [reflexivity|]. split.
      + rewrite Fi, filter_filter. apply filter_ext_in. intros x Hx.
        destruct (G x (Hlive x Hx)) as [G1 G2]. cbn [filter_of]. rewrite G1.
        destruct (indexed_p i x) eqn:Ei; [rewrite G2 by reflexivity; reflexivity | cbn [andb]; apply andb_false_r].
      + apply push_props_none. unfold accounted. rewrite Ek. reflexivity.
    - (* AtLeast *)
      destruct (push_props_some i f tr m sk tk Em (or_intror Ek)) as (pushed & sk' & tk' & E & PP); eauto.
      { intros x Hx Hin Hr0. destruct (G x (Hlive x Hx)) as [G1 G2]. rewrite G1, G2 by exact Hin.
        unfold refine_eff. rewrite Hr0. reflexivity. }
      rewrite E. cbn [obind]. exists tr, (Some pushed), sk', tk'.
      split; [reflexivity|]. split; [reflexivity | exact PP].
  Qed.
  (* ---- the first loop of plan_scan *)
  Definition planneds (frs : list frag) (es : list (option ranges)) (pushed : bool) : list planned :=
    map (fun fe : frag * option ranges => planned_of (fst fe) (snd fe) pushed) (combine frs es).

  Lemma planneds_cons f tl e es b : planneds (f :: tl) (e :: es) b = planned_of f e b :: planneds tl es b.
  Proof. reflexivity. Qed.

  Lemma exec_nones i frs b : exec_frags o refine_p full_p i (planneds frs (nones (length frs)) b) = [].
  Proof.
    revert i; induction frs as [|f tl IH]; intros i; [reflexivity|].
    cbn [length nones repeat]. change (None :: repeat None (length tl)) with (@None ranges :: nones (length tl)).
    rewrite planneds_cons, exec_frags_cons. cbn [planned_of exec_one app]. apply IH.
  Qed.

  Lemma nones_length {A} n : length (@nones A n) = n.
  Proof. apply repeat_length. Qed.

  Lemma any_unaccounted_nones i frs : any_unaccounted o full_p i frs (nones (length frs)) = false.
  Proof. revert i; induction frs as [|f tl IH]; intros i; [reflexivity|]. cbn [length nones repeat any_unaccounted orb]. apply IH. Qed.

  Lemma rows_spec_off i off off2 frs : o_before o = None -> rows_spec i off frs = rows_spec i off2 frs.
  Proof. intros H. rewrite !rows_spec_nobefore by exact H. reflexivity. Qed.

  Lemma filter_fullr_cons i l r :
    filter fullr (map (pair i) l ++ r) = map (pair i) (filter (full_p i) l) ++ filter fullr r.
  Proof. rewrite filter_app. f_equal. apply (filter_map_pair i full_p). Qed.

  Definition loop_ok (i : nat) (frs : list frag) (sk tk off : N) (r : loop_res) : Prop :=
    let '(p, fu, pu, gh) := r in
    length fu = length frs /\ length pu = length frs /\ length gh = length frs
    /\ (p = false ->
        exec_frags o refine_p full_p i (planneds frs fu false) = filter fullr (rows_spec i off frs))
    /\ (p = true ->
        o_has_refine o = false
        /\ (tk = 0 \/ any_unaccounted o full_p i frs gh = false ->
            exec_frags o refine_p full_p i (planneds frs pu true)
            = winT (N.to_nat sk) (N.to_nat tk) (filter fullr (rows_spec i off frs)))).

  Lemma plan_loop_spec frs : forall i sk tk off,
    wf_frags i frs -> off + total_rows frs < two64 ->
    exists r, plan_loop o frs sk tk off = Ok r /\ loop_ok i frs sk tk off r.
  Proof.
    induction frs as [|f tl IH]; intros i sk tk off Hw Ho.
    - exists (false, [], [], []). split; [reflexivity|]. cbn. repeat split; auto; discriminate.
    - cbn [wf_frags] in Hw. destruct Hw as (Hwf & Hg & Hwtl). cbn [total_rows] in Ho.
      assert (Hrows : frag_rows f = lenN (live f)) by apply Hwf.
      destruct (to_read_spec f off Hwf) as (tr & off' & Etr & Ftr & Str & Eoff); [lia|].
      cbn [plan_loop].
      destruct (match o_before o with Some (_, be) => be <=? off | None => false end) eqn:Estop.
      { (* past the end of the before-filter range *)
        destruct (o_before o) as [[bs be]|] eqn:Hb; [|discriminate]. apply N.leb_le in Estop.
        eexists. split; [reflexivity|]. unfold loop_ok. rewrite !nones_length.
        split; [reflexivity|]. split; [reflexivity|]. split; [reflexivity|]. split; [|discriminate].
        intros _. rewrite exec_nones. rewrite (rows_spec_stop i off (f :: tl) bs be Hb Estop). reflexivity. }
      rewrite Etr. cbn [obind].
      assert (Hoff' : off' + total_rows tl < two64).
      { destruct (o_before o); subst off'; lia. }
      assert (Hrs : rows_spec (S i) (off + frag_rows f) tl = rows_spec (S i) off' tl).
      { destruct (o_before o) eqn:Hb; subst off'; [reflexivity | apply rows_spec_off; exact Hb]. }
      destruct (match o_before o with Some _ => match tr with [] => true | _ :: _ => false end | None => false end) eqn:Eskip.
      { (* nothing of this fragment is inside the before-filter range *)
        assert (tr = []) as -> by (destruct (o_before o); [destruct tr; [reflexivity|discriminate] | discriminate]).
        destruct (IH (S i) sk tk off' Hwtl Hoff') as ([[[p fu] pu] gh] & E & L1 & L2 & L3 & NP & PP).
        rewrite E. cbn [obind]. eexists. split; [reflexivity|]. unfold loop_ok.
        cbn [length]. split; [congruence|]. split; [congruence|]. split; [congruence|].
        rewrite !planneds_cons. cbn [rows_spec any_unaccounted orb]. rewrite !exec_frags_cons.
        cbn [planned_of exec_one app]. rewrite <- Ftr. cbn [flatten flat_map map app]. rewrite Hrs. split; assumption. }
      destruct (apply_index_spec i f tr off sk tk Hwf Hg Ftr Str) as (full_e & push_e & sk' & tk' & Ea & NPa & PPa).
      rewrite Ea. cbn [obind].
      destruct PPa as (Fpe & Etk' & Esk' & Hacc).
      assert (Hrow : filter fullr (rows_spec i off (f :: tl))
                     = map (pair i) (filter (full_p i) (flatten tr)) ++ filter fullr (rows_spec (S i) off' tl)).
      { cbn [rows_spec]. rewrite filter_fullr_cons, Hrs, Ftr. reflexivity. }
      destruct ((tk' =? 0) && negb (o_has_refine o)) eqn:Ebrk.
      { (* limit satisfied by index-vouched rows, no refine filter: pushed-down plan *)
        apply andb_true_iff in Ebrk as [Ez Er]. apply N.eqb_eq in Ez. apply negb_true_iff in Er.
        eexists. split; [reflexivity|]. unfold loop_ok. cbn [length]. rewrite !nones_length.
        split; [reflexivity|]. split; [reflexivity|]. split; [reflexivity|]. split; [discriminate|].
        intros _. split; [exact Er|]. intros Hc.
        rewrite planneds_cons, exec_frags_cons, exec_nones, app_nil_r, exec_one_planned.
        rewrite Hrow.
        destruct (N.eq_dec tk 0) as [Htk0|Htk0].
        - subst tk. change (N.to_nat 0) with 0%nat in *. rewrite winT_zero in Fpe. rewrite winT_zero.
          rewrite Fpe. reflexivity.
        - destruct Hc as [Hc|Hc]; [contradiction|]. cbn [any_unaccounted] in Hc. apply orb_false_iff in Hc as [Hc _].
          destruct (Hacc Er Hc) as [Ec Ef]. rewrite Ef, Fpe, <- Ec.
          rewrite winT_prefix, winT_map; [reflexivity|].
          rewrite map_length. rewrite Fpe in Etk'. unfold lenN in Etk'. rewrite winT_length in Etk'. lia. }
      destruct (IH (S i) sk' tk' off' Hwtl Hoff') as ([[[p fu] pu] gh] & E & L1 & L2 & L3 & NP & PP).
      rewrite E. cbn [obind]. eexists. split; [reflexivity|]. unfold loop_ok.
      cbn [length]. split; [congruence|]. split; [congruence|]. split; [congruence|].
      rewrite !planneds_cons, !exec_frags_cons, !exec_one_planned. rewrite Hrow. split.
      + intros Hp. rewrite (NP Hp), NPa. reflexivity.
      + intros Hp. destruct (PP Hp) as [Er PPe]. split; [exact Er|]. intros Hc.
        rewrite Er in Ebrk. cbn [negb] in Ebrk. rewrite andb_true_r in Ebrk. apply N.eqb_neq in Ebrk.
        assert (Htk0 : tk <> 0) by lia.
        destruct Hc as [Hc|Hc]; [contradiction|]. cbn [any_unaccounted] in Hc. apply orb_false_iff in Hc as [Hc1 Hc2].
        destruct (Hacc Er Hc1) as [Ec Ef]. rewrite Ef, Fpe, <- Ec.
        rewrite (PPe (or_intror Hc2)). rewrite winT_app, winT_map, map_length. f_equal.
        rewrite map_length, winT_length. rewrite (Esk' Htk0), Etk', Fpe. unfold lenN. rewrite winT_length.
        f_equal; lia.
  Qed.
End PlanSound.
(* ------------------------------------------------------------------ the whole scan *)
Lemma filter_len_le {A} (p : A -> bool) l : (length (filter p l) <= length l)%nat.
Proof. induction l as [|a l IH]; cbn [filter length]; [lia|]. destruct (p a); cbn [length]; lia. Qed.

Section ScanSound.
  Variable o : opts.
  Variables refine_p full_p indexed_p : rowpred.

  Definition wf_after : Prop := match o_after o with Some (s, e) => s <= e | None => True end.

  Lemma rows_spec_length i off frs :
    (forall f, In f frs -> frag_rows o f = lenN (live f)) ->
    lenN (rows_spec o i off frs) <= total_rows o frs.
  Proof.
    revert i off; induction frs as [|f tl IH]; intros i off Hl; cbn [rows_spec total_rows]; [cbn; lia|].
    specialize (IH (S i) (off + frag_rows o f) (fun g Hg => Hl g (or_intror Hg))).
    pose proof (Hl f (or_introl eq_refl)) as E. unfold lenN in *. rewrite app_length, map_length.
    assert (length (t_spec o off f) <= length (live f))%nat.
    { unfold t_spec. destruct (o_before o) as [[bs be]|]; [rewrite winT_length|]; lia. }
    clear Hl. unfold row in *. lia.
  Qed.

  Lemma wf_frags_rows i frs : wf_frags o refine_p full_p indexed_p i frs -> forall f, In f frs -> frag_rows o f = lenN (live f).
  Proof.
    revert i; induction frs as [|g tl IH]; intros i H f Hf; [destruct Hf|]. cbn [wf_frags] in H. destruct H as (H1 & _ & H3).
    destruct Hf as [->|Hf]; [apply H1 | eapply IH; eauto].
  Qed.

  Lemma rows_spec_is_before_window frs :
    (forall f, In f frs -> frag_rows o f = lenN (live f)) ->
    rows_spec o 0 0 frs = window (o_before o) (all_rows o 0 frs).
  Proof.
    intros Hl. unfold window. destruct (o_before o) as [[bs be]|] eqn:Hb.
    - rewrite (rows_spec_before o 0 0 frs bs be Hb Hl). unfold winT. rewrite !N.sub_0_r.
      f_equal. lia.
    - apply rows_spec_nobefore. exact Hb.
  Qed.

  Theorem plan_scan_sound frs :
    wf_frags o refine_p full_p indexed_p 0 frs -> total_rows o frs < two64 -> wf_after ->
    Known_C16_limit_pushdown_skips_unguaranteed_rows o full_p frs = false ->
    run_scan o refine_p full_p frs = Ok (reference o full_p frs).
  Proof.
    intros Hw Ht Ha Hk. pose proof (wf_frags_rows 0 frs Hw) as Hl.
    unfold run_scan, plan_scan, Known_C16_limit_pushdown_skips_unguaranteed_rows, trimmed_reads, wf_after in *.
    set (sk := match o_after o with Some (s, _) => s | None => 0 end) in *.
    assert (Etk : exists tk, (match o_after o with Some (s, e) => csub e s | None => Ok (two64 - 1) end) = Ok tk
                  /\ tk = match o_after o with Some (s, e) => e - s | None => two64 - 1 end).
    { destruct (o_after o) as [[s e]|]; [rewrite csub_ok by exact Ha|]; eauto. }
    destruct Etk as (tk & Etk & Htk). rewrite Etk in *. cbn [obind] in *.
    destruct (plan_loop_spec o refine_p full_p indexed_p frs 0 sk tk 0 Hw) as ([[[p fu] pu] gh] & E & L1 & L2 & L3 & NP & PP); [lia|].
    rewrite E in *. cbn [obind]. f_equal. unfold exec_plan, reference. cbn [fst snd].
    rewrite <- (rows_spec_is_before_window frs Hl).
    change (filter (fun r : row => full_p (fst r) (snd r))) with (filter (fullr full_p)).
    destruct p.
    - destruct (PP eq_refl) as [Er PPe].
      change (exec_frags o refine_p full_p 0 (planneds o frs pu true)
              = window (o_after o) (filter (fullr full_p) (rows_spec o 0 0 frs))).
      rewrite PPe.
      + unfold window, winT. subst sk. destruct (o_after o) as [[s e]|]; [subst tk; reflexivity|].
        cbn [N.to_nat skipn]. apply firstn_all2. subst tk.
        pose proof (rows_spec_length 0 0 frs Hl) as Hlen. unfold lenN in Hlen.
        pose proof (filter_len_le (fullr full_p) (rows_spec o 0 0 frs)). unfold row in *. lia.
      + apply andb_false_iff in Hk as [Hk|Hk]; [left | right; exact Hk].
        destruct (o_after o) as [[s e]|]; [|discriminate]. apply N.ltb_ge in Hk. lia.
    - change (window (o_after o) (exec_frags o refine_p full_p 0 (planneds o frs fu false))
              = window (o_after o) (filter (fullr full_p) (rows_spec o 0 0 frs))).
      rewrite (NP eq_refl). reflexivity.
  Qed.
End ScanSound.

(* ------------------------------------------------------------------ knob independence *)
Section Knobs.
  Context {A : Type}.

  (* filtering batch by batch = filtering the table, for ANY split of the rows into batches *)
  Lemma filter_concat (p : A -> bool) (parts : list (list A)) :
    concat (map (filter p) parts) = filter p (concat parts).
  Proof. induction parts as [|b tl IH]; cbn [map concat]; [reflexivity|]. rewrite filter_app, IH. reflexivity. Qed.

  Fixpoint chunks_fuel (fuel n : nat) (l : list A) : list (list A) :=
    match fuel with
    | O => []
    | S k => match l with [] => [] | _ :: _ => firstn n l :: chunks_fuel k n (skipn n l) end
    end.
  Definition chunks (n : nat) (l : list A) : list (list A) := chunks_fuel (length l) n l.

  Lemma concat_chunks_fuel n fuel : forall l, (length l <= fuel)%nat -> concat (chunks_fuel fuel (S n) l) = l.
  Proof.
    induction fuel as [|k IH]; intros l H.
    - destruct l; [reflexivity | cbn in H; lia].
    - cbn [chunks_fuel]. destruct l as [|a l]; [reflexivity|]. cbn [concat]. rewrite IH.
      + apply firstn_skipn.
      + rewrite skipn_length. cbn [length] in *. lia.
  Qed.
  Lemma concat_chunks n l : concat (chunks (S n) l) = l.
  Proof. apply concat_chunks_fuel. apply Nat.le_refl. Qed.

  (* OFFSET/LIMIT applied part by part with running counters = OFFSET/LIMIT of the whole *)
  Fixpoint win_parts (sk tk : nat) (parts : list (list A)) : list (list A) :=
    match parts with
    | [] => []
    | b :: tl => winT sk tk b :: win_parts (sk - length b) (tk - length (winT sk tk b)) tl
    end.
  Lemma concat_win_parts parts : forall sk tk, concat (win_parts sk tk parts) = winT sk tk (concat parts).
  Proof.
    induction parts as [|b tl IH]; intros sk tk; cbn [win_parts concat]; [rewrite winT_nil; reflexivity|].
    rewrite IH, winT_app. reflexivity.
  Qed.

  (* apply_hard_range over any batch sequence *)
  Lemma hard_range_spec s e batches : forall seen,
    concat (hard_range batches seen s e)
    = winT (N.to_nat (s - seen)) (N.to_nat (e - seen) - N.to_nat (s - seen)) (@concat A batches).
  Proof.
    induction batches as [|b tl IH]; intros seen; cbn [hard_range concat]; [rewrite winT_nil; reflexivity|].
    destruct (N.ltb_spec e seen) as [H1|H1].
    { replace (N.to_nat (e - seen) - N.to_nat (s - seen))%nat with 0%nat by lia. reflexivity. }
    destruct (N.eqb_spec (N.of_nat (length b)) 0) as [H2|H2].
    { destruct b; [|cbn [length] in H2; lia]. cbn [app]. apply IH. }
    rewrite winT_app.
    assert (Erest : concat (hard_range tl (seen + N.of_nat (length b)) s e)
                    = winT (N.to_nat (s - seen) - length b)
                        (N.to_nat (e - seen) - N.to_nat (s - seen)
                         - length (winT (N.to_nat (s - seen)) (N.to_nat (e - seen) - N.to_nat (s - seen)) b)) (concat tl)).
    { rewrite (IH (seen + N.of_nat (length b))). rewrite winT_length. f_equal; lia. }
    clear IH.
    assert (Hnil : forall l : list A, length l = 0%nat -> l = []) by (intros l; destruct l; [reflexivity | discriminate]).
    destruct ((seen + N.of_nat (length b) <=? s) || (e <=? seen)) eqn:H3.
    { rewrite Erest. rewrite (Hnil (winT _ _ b)); [reflexivity|]. rewrite winT_length.
      apply orb_true_iff in H3 as [H3|H3]; [apply N.leb_le in H3 | apply N.leb_le in H3]; lia. }
    apply orb_false_iff in H3 as [H3 H4]. apply N.leb_gt in H3, H4. unfold ssub.
    destruct (N.eqb_spec (N.min (e - seen) (N.of_nat (length b)) - (s - seen)) 0) as [H5|H5].
    { rewrite Erest. rewrite (Hnil (winT _ _ b)); [reflexivity|]. rewrite winT_length. lia. }
    cbn [concat]. rewrite Erest. f_equal. change (firstn ?t (skipn ?k b)) with (winT k t b).
    apply winT_eq_take. lia.
  Qed.
End Knobs.

(* ------------------------------------------------------------------ safe_coerce_scalar on integers *)
Lemma coerce_int_sound src dst v :
  in_ity src v = true ->
  match coerce_int src (Some v) dst with
  | Some (Some v') => v' = v /\ in_ity dst v = true
  | Some None => False
  | None => in_ity dst v = false
  end.
Proof.
  intros H. unfold coerce_int. destruct (ity_eqb src dst) eqn:E.
  - split; [reflexivity|]. destruct src, dst; try discriminate; exact H.
  - destruct (widens src dst) eqn:W.
    + split; [reflexivity|]. unfold widens, in_ity in *. lia.
    + destruct (in_ity dst v); auto.
Qed.
(* ------------------------------------------------------------------ the finding class is inhabited *)
Definition mkfrag (phys : N) (dv : option (list N)) (m : option ranges) : frag :=
  {| f_phys := phys; f_logical := phys - N.of_nat (length (match dv with Some d => d | None => [] end));
     f_dv := dv; f_matched := m |}.
Definition mkopts before after refine idx : opts :=
  {| o_before := before; o_after := after; o_with_deleted := false; o_has_refine := refine; o_index := idx |}.

(* W1: an un-indexed fragment in front of an indexed one (Exact), LIMIT 1, every row matches *)
Definition w1_opts := mkopts None (Some (0, 1)) false (Some Exact).
Definition w1_frs := [mkfrag 2 None None; mkfrag 2 None (Some [(0, 2)])].
Definition all_true : rowpred := fun _ _ => true.
(* W2: an AtLeast result that vouches for row 1 only; rows 0 and 1 both match; LIMIT 1 *)
Definition w2_opts := mkopts None (Some (0, 1)) false (Some AtLeast).
Definition w2_frs := [mkfrag 2 None (Some [(1, 2)])].

Lemma w_wf_frag phys m : phys < two64 -> match m with Some r => exists lo hi, sorted_in lo hi r | None => True end ->
  forall o, o_with_deleted o = false -> wf_frag o (mkfrag phys None m).
Proof.
  intros Hp Hm o Ho. unfold wf_frag, mkfrag, frag_rows. cbn [f_dv f_phys f_logical f_matched]. rewrite Ho.
  split; [exact I|]. split; [|split; [exact Hp | exact Hm]].
  unfold live, live_of, lenN. cbn [f_phys f_dv length existsb negb]. rewrite filter_true, seqN_length. lia.
Qed.

Lemma w1_wf : wf_frags w1_opts all_true all_true all_true 0 w1_frs.
Proof.
  cbn [wf_frags w1_frs]. split; [apply w_wf_frag; [reflexivity | exact I | reflexivity]|]. split; [exact I|].
  split; [apply w_wf_frag; [reflexivity | exists 0, 2; cbn; lia | reflexivity]|]. split; [|exact I].
  intros off Hoff. apply filter_In in Hoff as [Hoff _]. apply in_seqN in Hoff. split; [reflexivity|].
  unfold all_true, in_ranges. cbn [existsb fst snd]. destruct (N.leb_spec 0 off), (N.ltb_spec off 2); try reflexivity; cbn in *; lia.
Qed.
Lemma w1_refuted :
  Known_C16_limit_pushdown_skips_unguaranteed_rows w1_opts all_true w1_frs = true
  /\ run_scan w1_opts all_true all_true w1_frs = Ok [(1%nat, 0)]
  /\ reference w1_opts all_true w1_frs = [(0%nat, 0)].
Proof. vm_compute. auto. Qed.

Lemma w2_wf : wf_frags w2_opts all_true all_true all_true 0 w2_frs.
Proof.
  cbn [wf_frags w2_frs]. split; [apply w_wf_frag; [reflexivity | exists 0, 2; cbn; lia | reflexivity]|]. split; [|exact I].
  intros off Hoff. split; reflexivity.
Qed.
Lemma w2_refuted :
  Known_C16_limit_pushdown_skips_unguaranteed_rows w2_opts all_true w2_frs = true
  /\ run_scan w2_opts all_true all_true w2_frs = Ok [(0%nat, 1)]
  /\ reference w2_opts all_true w2_frs = [(0%nat, 0)].
Proof. vm_compute. auto. Qed.

(* ------------------------------------------------------------------ executable sweep (a test, not the theorem) *)
(* small universe: 1-2 fragments of 3 physical rows, deletions, every index kind / mask, refine on/off,
   before/after ranges; predicates as tables.  Checks: guarantee holds and not in the class ->
   run_scan = reference.  Kept for regression and to show the hypotheses are inhabited by plans of
   every kind (counts of pushed-down plans below). *)
Definition sw_frag_choices : list frag :=
  flat_map (fun dv => map (fun m => mkfrag 3 dv m)
                          [None; Some []; Some [(0, 1)]; Some [(1, 3)]; Some [(0, 3)]; Some [(0, 1); (2, 3)]])
           [None; Some [1]; Some [0; 2]].
Definition sw_tables : list (list N) := [[]; [0]; [2]; [0; 1]; [1; 2]; [0; 1; 2]].
Definition sw_guarantee_b (o : opts) (idx_t full_t : list (list N)) (refine_t : list (list N)) (frs : list frag) : bool :=
  forallb (fun iF : nat * frag =>
    let '(i, f) := iF in
    match o_index o, f_matched f with
    | Some k, Some m =>
        forallb (fun off =>
          Bool.eqb (pred_of full_t i off)
                   (pred_of idx_t i off && (if o_has_refine o then pred_of refine_t i off else true))
          && match k with
             | Exact => Bool.eqb (in_ranges off m) (pred_of idx_t i off)
             | AtMost => implb (pred_of idx_t i off) (in_ranges off m)
             | AtLeast => implb (in_ranges off m) (pred_of idx_t i off)
             end) (live_offsets o f)
    | _, _ => true
    end) (combine (seq 0 (length frs)) frs).
Definition sw_case (o : opts) (idx_t refine_t : list (list N)) (frs : list frag) : bool * bool :=
  (* full := indexed AND refine on indexed fragments, = indexed table elsewhere *)
  let full_t := map (fun iF : nat * frag =>
                  let '(i, f) := iF in
                  filter (fun off => pred_of idx_t i off && (if o_has_refine o then pred_of refine_t i off else true))
                         [0; 1; 2]) (combine (seq 0 (length frs)) frs) in
  let ok := sw_guarantee_b o idx_t full_t refine_t frs in
  let known := Known_C16_limit_pushdown_skips_unguaranteed_rows o (pred_of full_t) frs in
  let agree := outcome_eqb (list_eqb row_eqb) (run_scan o (pred_of refine_t) (pred_of full_t) frs)
                           (Ok (reference o (pred_of full_t) frs)) in
  (implb (ok && negb known) agree,
   ok && negb known && match plan_scan o frs with Ok (_, true) => true | _ => false end).
Definition sw_all : list (bool * bool) :=
  flat_map (fun frs =>
  flat_map (fun idx =>
  flat_map (fun after =>
  flat_map (fun before =>
  flat_map (fun refine =>
  flat_map (fun it0 =>
  map (fun it1 => sw_case (mkopts before after refine idx) [it0; it1] [[0; 2]; [1]] frs)
      (match frs with [_] => [[]] | _ => [[]; [1]; [0; 1; 2]] end))
      sw_tables)
      [false; true])
      [None; Some (1, 4)])
      [None; Some (0, 1); Some (1, 3); Some (2, 2)])
      [None; Some Exact; Some AtMost; Some AtLeast])
      (map (fun f => [f]) sw_frag_choices
       ++ flat_map (fun f => map (fun g => [f; g]) [mkfrag 3 None None; mkfrag 3 (Some [1]) (Some [(0, 1); (2, 3)])])
                   sw_frag_choices).
Example sweep_plan_scan_sound :
  forallb fst sw_all = true /\ (100 <? N.of_nat (length (filter snd sw_all))) = true.
Proof. vm_compute. split; reflexivity. Qed.
(* ------------------------------------------------------------------ Scanner: OFFSET/LIMIT glue *)
Lemma window_as_sql {A} (s e : N) (l : N) (o : N) (rows : list A) :
  s = N.min o (lenN rows) -> e = N.min (o + l) (lenN rows) ->
  window (Some (s, e)) rows = firstn (N.to_nat l) (skipn (N.to_nat o) rows).
Proof.
  intros -> ->. unfold window, lenN.
  assert (E : skipn (N.to_nat (N.min o (N.of_nat (length rows)))) rows = skipn (N.to_nat o) rows).
  { destruct (N.le_gt_cases o (N.of_nat (length rows))) as [H|H].
    - rewrite N.min_l by exact H. reflexivity.
    - rewrite N.min_r by lia. rewrite Nat2N.id. rewrite !skipn_all2 by lia. reflexivity. }
  rewrite E. apply (winT_eq_take (N.to_nat o)). lia.
Qed.

Lemma scanner_limit_spec {A} limit offset hf ho (rows : list A) :
  Known_C16_limit_zero_ignored limit offset hf ho = false ->
  scanner_limit limit offset hf ho rows = sql_limit limit offset rows.
Proof.
  intros Hk. unfold scanner_limit, sql_limit, opt_firstn. destruct (negb hf && negb ho) eqn:Hp.
  - destruct limit as [l|], offset as [o|].
    + apply window_as_sql; reflexivity.
    + rewrite (window_as_sql 0 (N.min l (lenN rows)) l 0); [reflexivity | unfold lenN; lia | f_equal].
    + unfold window. rewrite firstn_all2; [|rewrite skipn_length; lia].
      destruct (N.le_gt_cases o (N.of_nat (length rows))) as [H|H].
      * rewrite N.min_l by exact H. reflexivity.
      * rewrite N.min_r by lia. rewrite Nat2N.id. rewrite !skipn_all2 by lia. reflexivity.
    + reflexivity.
  - destruct limit as [l|], offset as [o|]; cbn [orb]; try (rewrite orb_true_r; reflexivity); try reflexivity.
    destruct (N.ltb_spec 0 l) as [H|H]; cbn [orb]; [reflexivity|].
    assert (l = 0) by lia. subst l. unfold Known_C16_limit_zero_ignored in Hk.
    apply andb_false_iff in Hp. destruct hf, ho; cbn in Hk, Hp; try discriminate; destruct Hp; discriminate.
Qed.

Lemma scanner_limit_zero_refuted :
  Known_C16_limit_zero_ignored (Some 0) None true false = true
  /\ scanner_limit (Some 0) None true false [1; 2; 3] = [1; 2; 3]
  /\ sql_limit (Some 0) None [1; 2; 3] = @nil N.
Proof. vm_compute. auto. Qed.
