(* C22 - proofs about Index/Model_TopK.v. *)
From LanceV Require Import Common.Base Index.Model_TopK.
From Coq Require Import Permutation Sorted.
Local Open Scope N_scope.

(* ---------------------------------------------------------------- keys: a total order *)
Lemma key_leb_total : forall a b, key_leb a b = true \/ key_leb b a = true.
Proof. intros [x| |] [y| |]; cbn [key_leb]; auto. destruct (Z.leb_spec x y); auto. right. apply Z.leb_le. lia. Qed.

Lemma key_leb_refl : forall a, key_leb a a = true.
Proof. intros a. destruct (key_leb_total a a); assumption. Qed.

Lemma key_leb_trans : forall a b c, key_leb a b = true -> key_leb b c = true -> key_leb a c = true.
Proof.
  intros [x| |] [y| |] [z| |]; cbn [key_leb]; intros H1 H2; try reflexivity; try discriminate.
  apply Z.leb_le in H1, H2. apply Z.leb_le. lia.
Qed.

Lemma key_leb_antisym : forall a b, key_leb a b = true -> key_leb b a = true -> a = b.
Proof.
  intros [x| |] [y| |]; cbn [key_leb]; intros H1 H2; try reflexivity; try discriminate.
  apply Z.leb_le in H1, H2. f_equal. lia.
Qed.

Lemma key_eqb_eq : forall a b, key_eqb a b = true <-> a = b.
Proof.
  intros [x| |] [y| |]; cbn [key_eqb]; split; intro H; try reflexivity; try discriminate.
  - apply Z.eqb_eq in H. subst. reflexivity.
  - inversion H. apply Z.eqb_refl.
Qed.

Lemma key_ltb_leb : forall a b, key_ltb a b = true -> key_leb a b = true.
Proof. intros a b H. unfold key_ltb in H. destruct (key_leb_total a b) as [E|E]; [exact E|]. rewrite E in H. discriminate. Qed.

Lemma key_ltb_false : forall a b, key_ltb a b = false -> key_leb b a = true.
Proof. intros a b H. unfold key_ltb in H. destruct (key_leb b a); [reflexivity | discriminate]. Qed.

(* ---------------------------------------------------------------- insertion sort over a total preorder *)
Section SortFacts.
  Context {A : Type}.
  Variable leb : A -> A -> bool.
  Hypothesis leb_total : forall x y, leb x y = true \/ leb y x = true.
  Hypothesis leb_trans : forall x y z, leb x y = true -> leb y z = true -> leb x z = true.

  Definition le (x y : A) : Prop := leb x y = true.

  Lemma insert_perm : forall x l, Permutation (insert leb x l) (x :: l).
  Proof.
    intros x l. induction l as [|y t IH]; cbn [insert]; [reflexivity|].
    destruct (leb x y); [reflexivity|].
    rewrite IH. apply perm_swap.
  Qed.

  Lemma isort_perm : forall l, Permutation (isort leb l) l.
  Proof.
    induction l as [|x t IH]; cbn [isort]; [reflexivity|].
    rewrite insert_perm. constructor. exact IH.
  Qed.

  Lemma isort_length : forall l, length (isort leb l) = length l.
  Proof. intro l. apply Permutation_length, isort_perm. Qed.

  Lemma insert_sorted : forall x l, StronglySorted le l -> StronglySorted le (insert leb x l).
  Proof.
    intros x l H. induction H as [|y t Ht IH Hy]; cbn [insert].
    - repeat constructor.
    - destruct (leb x y) eqn:E.
      + constructor; [constructor; assumption|].
        constructor; [exact E|]. rewrite Forall_forall in *. intros z Hz. eapply leb_trans; [exact E|]. apply Hy, Hz.
      + constructor; [exact IH|].
        rewrite Forall_forall in *. intros z Hz.
        apply (Permutation_in _ (insert_perm x t)) in Hz. destruct Hz as [<-|Hz]; [|apply Hy, Hz].
        destruct (leb_total x y) as [E'|E']; [congruence | exact E'].
  Qed.

  Lemma isort_sorted : forall l, StronglySorted le (isort leb l).
  Proof. induction l as [|x t IH]; cbn [isort]; [constructor | apply insert_sorted, IH]. Qed.

  Lemma sorted_app_cross : forall a b, StronglySorted le (a ++ b) -> forall x y, In x a -> In y b -> le x y.
  Proof.
    induction a as [|h t IH]; intros b H x y Hx Hy; [destruct Hx|].
    cbn [app] in H. inversion H as [|? ? Ht Hh]; subst.
    destruct Hx as [<-|Hx].
    - rewrite Forall_forall in Hh. apply Hh, in_or_app. right. exact Hy.
    - eapply IH; eassumption.
  Qed.

  Lemma sorted_app : forall a b, StronglySorted le a -> StronglySorted le b ->
    (forall x y, In x a -> In y b -> le x y) -> StronglySorted le (a ++ b).
  Proof.
    induction a as [|h t IH]; intros b Ha Hb Hc; cbn [app]; [exact Hb|].
    inversion Ha as [|? ? Ht Hh]; subst. constructor.
    - apply IH; [exact Ht | exact Hb|]. intros x y Hx Hy. apply Hc; [right; exact Hx | exact Hy].
    - rewrite Forall_forall in *. intros z Hz. apply in_app_or in Hz. destruct Hz as [Hz|Hz]; [apply Hh, Hz|].
      apply Hc; [left; reflexivity | exact Hz].
  Qed.

  (* the sorted prefix: every element of the first k is below every later element *)
  Lemma firstn_skipn_cross : forall k l x y,
    In x (firstn k (isort leb l)) -> In y (skipn k (isort leb l)) -> le x y.
  Proof.
    intros k l x y Hx Hy. apply (sorted_app_cross (firstn k (isort leb l)) (skipn k (isort leb l))); try assumption.
    rewrite firstn_skipn. apply isort_sorted.
  Qed.

  (* antisymmetric orders: the sorted arrangement is unique *)
  Hypothesis leb_antisym : forall x y, leb x y = true -> leb y x = true -> x = y.

  Lemma sorted_perm_eq : forall a b, StronglySorted le a -> StronglySorted le b -> Permutation a b -> a = b.
  Proof.
    induction a as [|x a IH]; intros b Ha Hb P.
    - apply Permutation_nil in P. subst. reflexivity.
    - destruct b as [|y b]; [apply Permutation_sym, Permutation_nil in P; discriminate|].
      inversion Ha as [|? ? Ha' Hx]; subst. inversion Hb as [|? ? Hb' Hy]; subst.
      rewrite Forall_forall in Hx, Hy.
      assert (E : x = y).
      { assert (I1 : In y (x :: a)) by (eapply Permutation_in; [apply Permutation_sym, P | left; reflexivity]).
        assert (I2 : In x (y :: b)) by (eapply Permutation_in; [exact P | left; reflexivity]).
        destruct I1 as [E|I1]; [exact E|]. destruct I2 as [E|I2]; [symmetry; exact E|].
        apply leb_antisym; [apply Hx, I1 | apply Hy, I2]. }
      subst y. f_equal. apply IH; try assumption. eapply Permutation_cons_inv. exact P.
  Qed.

  Lemma perm_isort_eq : forall a b, Permutation a b -> isort leb a = isort leb b.
  Proof.
    intros a b P. apply sorted_perm_eq; try apply isort_sorted.
    rewrite isort_perm, P. symmetry. apply isort_perm.
  Qed.

  Lemma isort_app_cross : forall a b, (forall x y, In x a -> In y b -> le x y) ->
    isort leb (a ++ b) = isort leb a ++ isort leb b.
  Proof.
    intros a b Hc. apply sorted_perm_eq.
    - apply isort_sorted.
    - apply sorted_app; try apply isort_sorted. intros x y Hx Hy.
      apply Hc; [eapply Permutation_in; [apply isort_perm | exact Hx] | eapply Permutation_in; [apply isort_perm | exact Hy]].
    - rewrite isort_perm. apply Permutation_app; symmetry; apply isort_perm.
  Qed.
End SortFacts.

(* ---------------------------------------------------------------- top-k as a specification *)
(* s is a top-k selection of l under the key order `ord`: a sub-multiset of min(k,|l|) elements none of which
   is farther than an element left out.  Ties are arbitrary. *)
Definition is_topk {A} (ord : key -> key -> bool) (kf : A -> key) (k : nat) (l s : list A) : Prop :=
  exists rest, Permutation l (s ++ rest) /\ length s = Nat.min k (length l) /\
               forall x y, In x s -> In y rest -> ord (kf x) (kf y) = true.

Lemma filter_length_le {A} (p : A -> bool) l : (length (filter p l) <= length l)%nat.
Proof. induction l as [|x t IH]; cbn [filter length]; [lia|]. destruct (p x); cbn [length]; lia. Qed.

Lemma filter_length_lt {A} (p : A -> bool) l x : In x l -> p x = false -> (length (filter p l) < length l)%nat.
Proof.
  induction l as [|y t IH]; intros Hin Hp; [destruct Hin|]. cbn [filter length].
  destruct Hin as [->|Hin].
  - rewrite Hp. pose proof (filter_length_le p t). lia.
  - specialize (IH Hin Hp). destruct (p y); cbn [length]; lia.
Qed.

Lemma filter_all {A} (p : A -> bool) l : (forall x, In x l -> p x = true) -> filter p l = l.
Proof.
  induction l as [|y t IH]; intros H; [reflexivity|]. cbn [filter].
  rewrite (H y (or_introl eq_refl)). f_equal. apply IH. intros x Hx. apply H. right. exact Hx.
Qed.

Lemma filter_none {A} (p : A -> bool) l : (forall x, In x l -> p x = false) -> filter p l = [].
Proof.
  induction l as [|y t IH]; intros H; [reflexivity|]. cbn [filter].
  rewrite (H y (or_introl eq_refl)). apply IH. intros x Hx. apply H. right. exact Hx.
Qed.

Lemma filter_perm_length {A} (p : A -> bool) l l' : Permutation l l' -> length (filter p l) = length (filter p l').
Proof.
  induction 1 as [|x l l' P IH|x y l|l l' l'' P1 IH1 P2 IH2]; cbn [filter]; try reflexivity.
  - destruct (p x); cbn [length]; lia.
  - destruct (p x), (p y); reflexivity.
  - lia.
Qed.

Lemma filter_concat_ge {A} (p : A -> bool) (s : list A) ls : In s ls ->
  (length (filter p s) <= length (filter p (concat ls)))%nat.
Proof.
  induction ls as [|h t IH]; intros Hin; [destruct Hin|]. cbn [concat]. rewrite filter_app, app_length.
  destruct Hin as [->|Hin]; [lia|]. specialize (IH Hin). lia.
Qed.

Section TopKFacts.
  Context {A : Type}.
  Variable ord : key -> key -> bool.
  Hypothesis ord_total : forall x y, ord x y = true \/ ord y x = true.
  Hypothesis ord_trans : forall x y z, ord x y = true -> ord y z = true -> ord x z = true.
  Variable kf : A -> key.

  Lemma is_topk_perm : forall k l l' s, Permutation l l' -> is_topk ord kf k l s -> is_topk ord kf k l' s.
  Proof.
    intros k l l' s P (rest & HP & HL & HC). exists rest. split; [|split; [|exact HC]].
    - rewrite <- P. exact HP.
    - rewrite <- (Permutation_length P). exact HL.
  Qed.

  (* the first k of ANY arrangement sorted by key *)
  Lemma sorted_firstn_is_topk : forall k l S,
    Permutation S l -> StronglySorted (fun x y => ord (kf x) (kf y) = true) S -> is_topk ord kf k l (firstn k S).
  Proof.
    intros k l S P HS. exists (skipn k S). split; [|split].
    - rewrite firstn_skipn. symmetry. exact P.
    - rewrite firstn_length, (Permutation_length P). reflexivity.
    - intros x y Hx Hy. revert Hx Hy. revert x y.
      assert (G : forall a b, StronglySorted (fun x y => ord (kf x) (kf y) = true) (a ++ b) ->
                  forall x y, In x a -> In y b -> ord (kf x) (kf y) = true).
      { induction a as [|h t IH]; intros b H x y Hx Hy; [destruct Hx|].
        cbn [app] in H. inversion H as [|? ? Ht Hh]; subst. destruct Hx as [<-|Hx].
        - rewrite Forall_forall in Hh. apply Hh, in_or_app. right. exact Hy.
        - eapply IH; eassumption. }
      apply (G (firstn k S) (skipn k S)). rewrite firstn_skipn. exact HS.
  Qed.

  Lemma sorted_weaken : forall (leb : A -> A -> bool) S,
    (forall x y, leb x y = true -> ord (kf x) (kf y) = true) ->
    StronglySorted (fun x y => leb x y = true) S -> StronglySorted (fun x y => ord (kf x) (kf y) = true) S.
  Proof.
    intros leb S Hw H. induction H as [|x t Ht IH Hx]; constructor; [exact IH|].
    rewrite Forall_forall in *. intros y Hy. apply Hw, Hx, Hy.
  Qed.

  Lemma firstn_isort_is_topk : forall (leb : A -> A -> bool),
    (forall x y, leb x y = true \/ leb y x = true) ->
    (forall x y z, leb x y = true -> leb y z = true -> leb x z = true) ->
    (forall x y, leb x y = true -> ord (kf x) (kf y) = true) ->
    forall k l, is_topk ord kf k l (firstn k (isort leb l)).
  Proof.
    intros leb Ht Htr Hw k l. apply sorted_firstn_is_topk; [apply isort_perm|].
    eapply sorted_weaken; [exact Hw|]. apply isort_sorted; assumption.
  Qed.

  (* merging: top-k of the concatenation of per-part top-k' selections (k <= k') is a top-k of everything *)
  Lemma sum_min_lemma : forall k k' a b b', (k <= k')%nat -> Nat.min k b' = Nat.min k b ->
    Nat.min k (Nat.min k' a + b') = Nat.min k (a + b).
  Proof. intros. lia. Qed.

  Lemma merge_is_topk : forall k k' (ts : list (list A * (list A * list A))) s,
    (k <= k')%nat ->
    Forall (fun t => Permutation (fst t) (fst (snd t) ++ snd (snd t)) /\
                     length (fst (snd t)) = Nat.min k' (length (fst t)) /\
                     forall x y, In x (fst (snd t)) -> In y (snd (snd t)) -> ord (kf x) (kf y) = true) ts ->
    is_topk ord kf k (concat (map (fun t => fst (snd t)) ts)) s ->
    is_topk ord kf k (concat (map fst ts)) s.
  Proof.
    intros k k' ts s Hk HF (R & HP & HL & HC).
    set (parts := map fst ts) in *. set (sels := map (fun t => fst (snd t)) ts) in *.
    set (rests := map (fun t => snd (snd t)) ts).
    assert (P1 : Permutation (concat parts) (concat sels ++ concat rests)).
    { subst parts sels rests. clear HP HL HC. induction HF as [|t ts' (Ht & _ & _) _ IH]; cbn [map concat]; [reflexivity|].
      rewrite Ht, IH. rewrite <- !app_assoc. apply Permutation_app_head.
      rewrite !app_assoc. apply Permutation_app_tail. apply Permutation_app_comm. }
    assert (L1 : Nat.min k (length (concat sels)) = Nat.min k (length (concat parts))).
    { subst parts sels. clear HP HL HC P1. induction HF as [|t ts' (_ & Hl & _) _ IH]; cbn [map concat]; [reflexivity|].
      rewrite !app_length, Hl. apply sum_min_lemma; assumption. }
    exists (R ++ concat rests). split; [|split].
    - rewrite P1, HP. rewrite app_assoc. reflexivity.
    - rewrite HL. exact L1.
    - intros x y Hx Hy. apply in_app_or in Hy. destruct Hy as [Hy|Hy]; [apply HC; assumption|].
      destruct (ord (kf x) (kf y)) eqn:E; [reflexivity|exfalso].
      (* y lies in the rest of some part t whose selection has k' elements, all strictly below x *)
      subst rests. apply in_concat in Hy. destruct Hy as (rt & Hrt & Hy).
      apply in_map_iff in Hrt. destruct Hrt as (t & <- & Ht).
      rewrite Forall_forall in HF. destruct (HF t Ht) as (HtP & HtL & HtC).
      set (pb := fun z => negb (ord (kf x) (kf z))).
      assert (Sall : forall z, In z (fst (snd t)) -> pb z = true).
      { intros z Hz. unfold pb. destruct (ord (kf x) (kf z)) eqn:E2; [|reflexivity].
        rewrite (ord_trans _ _ _ E2 (HtC z y Hz Hy)) in E. discriminate. }
      assert (Lk : length (fst (snd t)) = k').
      { rewrite HtL. apply Permutation_length in HtP. rewrite app_length in HtP.
        destruct (snd (snd t)) as [|? ?]; [destruct Hy|]. cbn [length] in HtP. lia. }
      assert (C1 : (k' <= length (filter pb (concat sels)))%nat).
      { rewrite <- Lk. rewrite <- (filter_all pb (fst (snd t)) Sall) at 1.
        apply filter_concat_ge. subst sels. apply in_map_iff. exists t. split; [reflexivity | exact Ht]. }
      rewrite (filter_perm_length pb _ _ HP), filter_app, app_length in C1.
      assert (C2 : filter pb R = []).
      { apply filter_none. intros z Hz. unfold pb. rewrite (HC x z Hx Hz). reflexivity. }
      rewrite C2 in C1. cbn [length] in C1.
      assert (C3 : (length (filter pb s) < length s)%nat).
      { apply (filter_length_lt pb s x Hx). unfold pb.
        destruct (ord_total (kf x) (kf x)) as [Ex|Ex]; rewrite Ex; reflexivity. }
      lia.
  Qed.

  (* re-ranking a candidate multiset C (inside E) that contains some true top-k T of E gives a true top-k of E *)
  Lemma refine_is_topk : forall k E C others T c2 s,
    Permutation E (C ++ others) -> Permutation C (T ++ c2) ->
    is_topk ord kf k E T -> is_topk ord kf k C s -> is_topk ord kf k E s.
  Proof.
    intros k E C others T c2 s PE PC (R & HPT & HLT & HCT) (r2 & HPs & HLs & HCs).
    assert (PR : Permutation R (c2 ++ others)).
    { apply (Permutation_app_inv_l T). rewrite <- HPT, PE, PC, <- app_assoc. reflexivity. }
    assert (LE : length E = (length C + length others)%nat) by (rewrite (Permutation_length PE), app_length; reflexivity).
    assert (LC : length C = (length T + length c2)%nat) by (rewrite (Permutation_length PC), app_length; reflexivity).
    exists (r2 ++ others). split; [|split].
    - rewrite PE, HPs, <- app_assoc. reflexivity.
    - lia.
    - intros x y Hx Hy. apply in_app_or in Hy. destruct Hy as [Hy|Hy]; [apply HCs; assumption|].
      destruct (ord (kf x) (kf y)) eqn:E1; [reflexivity|exfalso].
      assert (HyR : In y R) by (eapply Permutation_in; [symmetry; exact PR | apply in_or_app; right; exact Hy]).
      set (pb := fun z => negb (ord (kf x) (kf z))).
      assert (Tall : forall z, In z T -> pb z = true).
      { intros z Hz. unfold pb. destruct (ord (kf x) (kf z)) eqn:E2; [|reflexivity].
        rewrite (ord_trans _ _ _ E2 (HCT z y Hz HyR)) in E1. discriminate. }
      assert (C1 : (length T <= length (filter pb C))%nat).
      { rewrite (filter_perm_length pb _ _ PC), filter_app, app_length, (filter_all pb T Tall). lia. }
      rewrite (filter_perm_length pb _ _ HPs), filter_app, app_length in C1.
      assert (C2 : filter pb r2 = []).
      { apply filter_none. intros z Hz. unfold pb. rewrite (HCs x z Hx Hz). reflexivity. }
      rewrite C2 in C1. cbn [length] in C1.
      assert (C3 : (length (filter pb s) < length s)%nat).
      { apply (filter_length_lt pb s x Hx). unfold pb.
        destruct (ord_total (kf x) (kf x)) as [Ex|Ex]; rewrite Ex; reflexivity. }
      lia.
  Qed.

  (* canonical key list: any two top-k selections carry the same distances *)
  Hypothesis ord_antisym : forall x y, ord x y = true -> ord y x = true -> x = y.

  Lemma is_topk_keys : forall k l s, is_topk ord kf k l s ->
    isort ord (map kf s) = firstn k (isort ord (map kf l)).
  Proof.
    intros k l s (rest & HP & HL & HC).
    rewrite (perm_isort_eq ord ord_total ord_trans ord_antisym (map kf l) (map kf s ++ map kf rest))
      by (rewrite <- map_app; apply Permutation_map, HP).
    rewrite (isort_app_cross ord ord_total ord_trans ord_antisym).
    2:{ intros a b Ha Hb. apply in_map_iff in Ha, Hb. destruct Ha as (x & <- & Hx), Hb as (y & <- & Hy). apply HC; assumption. }
    assert (Ll : length l = (length s + length rest)%nat) by (rewrite (Permutation_length HP), app_length; reflexivity).
    assert (La : length (isort ord (map kf s)) = length s) by (rewrite isort_length, map_length; reflexivity).
    destruct (Nat.le_gt_cases k (length l)) as [Hk|Hk].
    - rewrite firstn_app. replace (k - length (isort ord (map kf s)))%nat with 0%nat by lia.
      cbn [firstn]. rewrite app_nil_r. rewrite firstn_all2 by lia. reflexivity.
    - assert (rest = []) by (destruct rest; [reflexivity | cbn [length] in Ll; lia]). subst rest.
      cbn [map isort]. rewrite app_nil_r. rewrite firstn_all2 by lia. reflexivity.
  Qed.

  Lemma is_topk_keys_unique : forall k l s1 s2, is_topk ord kf k l s1 -> is_topk ord kf k l s2 ->
    isort ord (map kf s1) = isort ord (map kf s2).
  Proof. intros k l s1 s2 H1 H2. rewrite (is_topk_keys k l s1 H1), (is_topk_keys k l s2 H2). reflexivity. Qed.
End TopKFacts.
