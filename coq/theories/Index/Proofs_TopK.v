(* C22 - proofs about Index/Model_TopK.v. *)
From LanceV Require Import Common.Base Index.Model_TopK.
From Coq Require Import Permutation Sorted.
Local Open Scope N_scope.

(* ---------------------------------------------------------------- keys: a total order *)
Lemma key_leb_total : forall a b, key_leb a b = true \/ key_leb b a = true.
Proof. intros [x| |] [y| |]; cbn [key_leb]; auto. destruct (Z.leb_spec x y); auto. right. apply Z.leb_le. lia. Qed.

Lemma key_leb_refl : forall a, key_leb a a = true.
Proof. intros a. destruct (key_leb_total a a); assumption. Qed.

Lemma key_leb_trans : forall a b c, key_leb a b = true -> key_leb b c = true -> key_leb a c = true.
Proof.
  intros [x| |] [y| |] [z| |]; cbn [key_leb]; intros H1 H2; try reflexivity; try discriminate.
  apply Z.leb_le in H1, H2. apply Z.leb_le. lia.
Qed.

Lemma key_leb_antisym : forall a b, key_leb a b = true -> key_leb b a = true -> a = b.
Proof.
  intros [x| |] [y| |]; cbn [key_leb]; intros H1 H2; try reflexivity; try discriminate.
  apply Z.leb_le in H1, H2. f_equal. lia.
Qed.

Lemma key_eqb_eq : forall a b, key_eqb a b = true <-> a = b.
Proof.
  intros [x| |] [y| |]; cbn [key_eqb]; split; intro H; try reflexivity; try discriminate.
  - apply Z.eqb_eq in H. subst. reflexivity.
  - inversion H. apply Z.eqb_refl.
Qed.

Lemma key_ltb_leb : forall a b, key_ltb a b = true -> key_leb a b = true.
Proof. intros a b H. unfold key_ltb in H. destruct (key_leb_total a b) as [E|E]; [exact E|]. rewrite E in H. discriminate. Qed.

Lemma key_ltb_false : forall a b, key_ltb a b = false -> key_leb b a = true.
Proof. intros a b H. unfold key_ltb in H. destruct (key_leb b a); [reflexivity | discriminate]. Qed.

(* ---------------------------------------------------------------- insertion sort over a total preorder *)
Section SortFacts.
  Context {A : Type}.
  Variable leb : A -> A -> bool.
  Hypothesis leb_total : forall x y, leb x y = true \/ leb y x = true.
  Hypothesis leb_trans : forall x y z, leb x y = true -> leb y z = true -> leb x z = true.

  Definition le (x y : A) : Prop := leb x y = true.

  Lemma insert_perm : forall x l, Permutation (insert leb x l) (x :: l).
  Proof.
    intros x l. induction l as [|y t IH]; cbn [insert]; [reflexivity|].
    destruct (leb x y); [reflexivity|].
    rewrite IH. apply perm_swap.
  Qed.

  Lemma isort_perm : forall l, Permutation (isort leb l) l.
  Proof.
    induction l as [|x t IH]; cbn [isort]; [reflexivity|].
    rewrite insert_perm. constructor. exact IH.
  Qed.

  Lemma isort_length : forall l, length (isort leb l) = length l.
  Proof. intro l. apply Permutation_length, isort_perm. Qed.

  Lemma insert_sorted : forall x l, StronglySorted le l -> StronglySorted le (insert leb x l).
  Proof.
    intros x l H. induction H as [|y t Ht IH Hy]; cbn [insert].
    - repeat constructor.
    - destruct (leb x y) eqn:E.
      + constructor; [constructor; assumption|].
        constructor; [exact E|]. rewrite Forall_forall in *. intros z Hz. eapply leb_trans; [exact E|]. apply Hy, Hz.
      + constructor; [exact IH|].
        rewrite Forall_forall in *. intros z Hz.
        apply (Permutation_in _ (insert_perm x t)) in Hz. destruct Hz as [<-|Hz]; [|apply Hy, Hz].
        destruct (leb_total x y) as [E'|E']; [congruence | exact E'].
  Qed.

  Lemma isort_sorted : forall l, StronglySorted le (isort leb l).
  Proof. induction l as [|x t IH]; cbn [isort]; [constructor | apply insert_sorted, IH]. Qed.

  Lemma sorted_app_cross : forall a b, StronglySorted le (a ++ b) -> forall x y, In x a -> In y b -> le x y.
  Proof.
    induction a as [|h t IH]; intros b H x y Hx Hy; [destruct Hx|].
    cbn [app] in H. inversion H as [|? ? Ht Hh]; subst.
    destruct Hx as [<-|Hx].
    - rewrite Forall_forall in Hh. apply Hh, in_or_app. right. exact Hy.
    - eapply IH; eassumption.
  Qed.

  Lemma sorted_app : forall a b, StronglySorted le a -> StronglySorted le b ->
    (forall x y, In x a -> In y b -> le x y) -> StronglySorted le (a ++ b).
  Proof.
    induction a as [|h t IH]; intros b Ha Hb Hc; cbn [app]; [exact Hb|].
    inversion Ha as [|? ? Ht Hh]; subst. constructor.
    - apply IH; [exact Ht | exact Hb|]. intros x y Hx Hy. apply Hc; [right; exact Hx | exact Hy].
    - rewrite Forall_forall in *. intros z Hz. apply in_app_or in Hz. destruct Hz as [Hz|Hz]; [apply Hh, Hz|].
      apply Hc; [left; reflexivity | exact Hz].
  Qed.

  (* the sorted prefix: every element of the first k is below every later element *)
  Lemma firstn_skipn_cross : forall k l x y,
    In x (firstn k (isort leb l)) -> In y (skipn k (isort leb l)) -> le x y.
  Proof.
    intros k l x y Hx Hy. apply (sorted_app_cross (firstn k (isort leb l)) (skipn k (isort leb l))); try assumption.
    rewrite firstn_skipn. apply isort_sorted.
  Qed.

  (* antisymmetric orders: the sorted arrangement is unique *)
  Hypothesis leb_antisym : forall x y, leb x y = true -> leb y x = true -> x = y.

  Lemma sorted_perm_eq : forall a b, StronglySorted le a -> StronglySorted le b -> Permutation a b -> a = b.
  Proof.
    induction a as [|x a IH]; intros b Ha Hb P.
    - apply Permutation_nil in P. subst. reflexivity.
    - destruct b as [|y b]; [apply Permutation_sym, Permutation_nil in P; discriminate|].
      inversion Ha as [|? ? Ha' Hx]; subst. inversion Hb as [|? ? Hb' Hy]; subst.
      rewrite Forall_forall in Hx, Hy.
      assert (E : x = y).
      { assert (I1 : In y (x :: a)) by (eapply Permutation_in; [apply Permutation_sym, P | left; reflexivity]).
        assert (I2 : In x (y :: b)) by (eapply Permutation_in; [exact P | left; reflexivity]).
        destruct I1 as [E|I1]; [exact E|]. destruct I2 as [E|I2]; [symmetry; exact E|].
        apply leb_antisym; [apply Hx, I1 | apply Hy, I2]. }
      subst y. f_equal. apply IH; try assumption. eapply Permutation_cons_inv. exact P.
  Qed.

  Lemma perm_isort_eq : forall a b, Permutation a b -> isort leb a = isort leb b.
  Proof.
    intros a b P. apply sorted_perm_eq; try apply isort_sorted.
    rewrite isort_perm, P. symmetry. apply isort_perm.
  Qed.

  Lemma isort_app_cross : forall a b, (forall x y, In x a -> In y b -> le x y) ->
    isort leb (a ++ b) = isort leb a ++ isort leb b.
  Proof.
    intros a b Hc. apply sorted_perm_eq.
    - apply isort_sorted.
    - apply sorted_app; try apply isort_sorted. intros x y Hx Hy.
      apply Hc; [eapply Permutation_in; [apply isort_perm | exact Hx] | eapply Permutation_in; [apply isort_perm | exact Hy]].
    - rewrite isort_perm. apply Permutation_app; symmetry; apply isort_perm.
  Qed.
End SortFacts.
