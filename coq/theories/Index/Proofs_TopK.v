(* C22 - proofs about Index/Model_TopK.v. *)
From LanceV Require Import Common.Base Index.Model_TopK.
From Coq Require Import Permutation Sorted.
Local Open Scope N_scope.

(* ---------------------------------------------------------------- keys: a total order *)
Lemma key_leb_total : forall a b, key_leb a b = true \/ key_leb b a = true.
Proof. intros [x| |] [y| |]; cbn [key_leb]; auto. destruct (Z.leb_spec x y); auto. right. apply Z.leb_le. lia. Qed.

Lemma key_leb_refl : forall a, key_leb a a = true.
Proof. intros a. destruct (key_leb_total a a); assumption. Qed.

Lemma key_leb_trans : forall a b c, key_leb a b = true -> key_leb b c = true -> key_leb a c = true.
Proof.
  intros [x| |] [y| |] [z| |]; cbn [key_leb]; intros H1 H2; try reflexivity; try discriminate.
  apply Z.leb_le in H1, H2. apply Z.leb_le. lia.
Qed.

Lemma key_leb_antisym : forall a b, key_leb a b = true -> key_leb b a = true -> a = b.
Proof.
  intros [x| |] [y| |]; cbn [key_leb]; intros H1 H2; try reflexivity; try discriminate.
  apply Z.leb_le in H1, H2. f_equal. lia.
Qed.

Lemma key_eqb_eq : forall a b, key_eqb a b = true <-> a = b.
Proof.
  intros [x| |] [y| |]; cbn [key_eqb]; split; intro H; try reflexivity; try discriminate.
  - apply Z.eqb_eq in H. subst. reflexivity.
  - inversion H. apply Z.eqb_refl.
Qed.

Lemma key_ltb_leb : forall a b, key_ltb a b = true -> key_leb a b = true.
Proof. intros a b H. unfold key_ltb in H. destruct (key_leb_total a b) as [E|E]; [exact E|]. rewrite E in H. discriminate. Qed.

Lemma key_ltb_false : forall a b, key_ltb a b = false -> key_leb b a = true.
Proof. intros a b H. unfold key_ltb in H. destruct (key_leb b a); [reflexivity | discriminate]. Qed.

(* ---------------------------------------------------------------- insertion sort over a total preorder *)
Section SortFacts.
  Context {A : Type}.
  Variable leb : A -> A -> bool.
  Hypothesis leb_total : forall x y, leb x y = true \/ leb y x = true.
  Hypothesis leb_trans : forall x y z, leb x y = true -> leb y z = true -> leb x z = true.

  Definition le (x y : A) : Prop := leb x y = true.

  Lemma insert_perm : forall x l, Permutation (insert leb x l) (x :: l).
  Proof.
    intros x l. induction l as [|y t IH]; cbn [insert]; [reflexivity|].
    destruct (leb x y); [reflexivity|].
    rewrite IH. apply perm_swap.
  Qed.

  Lemma isort_perm : forall l, Permutation (isort leb l) l.
  Proof.
    induction l as [|x t IH]; cbn [isort]; [reflexivity|].
    rewrite insert_perm. constructor. exact IH.
  Qed.

  Lemma isort_length : forall l, length (isort leb l) = length l.
  Proof. intro l. apply Permutation_length, isort_perm. Qed.

  Lemma insert_sorted : forall x l, StronglySorted le l -> StronglySorted le (insert leb x l).
  Proof.
    intros x l H. induction H as [|y t Ht IH Hy]; cbn [insert].
    - repeat constructor.
    - destruct (leb x y) eqn:E.
      + constructor; [constructor; assumption|].
        constructor; [exact E|]. rewrite Forall_forall in *. intros z Hz. eapply leb_trans; [exact E|]. apply Hy, Hz.
      + constructor; [exact IH|].
        rewrite Forall_forall in *. intros z Hz.
        apply (Permutation_in _ (insert_perm x t)) in Hz. destruct Hz as [<-|Hz]; [|apply Hy, Hz].
        destruct (leb_total x y) as [E'|E']; [congruence | exact E'].
  Qed.

  Lemma isort_sorted : forall l, StronglySorted le (isort leb l).
  Proof. induction l as [|x t IH]; cbn [isort]; [constructor | apply insert_sorted, IH]. Qed.

  Lemma sorted_app_cross : forall a b, StronglySorted le (a ++ b) -> forall x y, In x a -> In y b -> le x y.
  Proof.
    induction a as [|h t IH]; intros b H x y Hx Hy; [destruct Hx|].
    cbn [app] in H. inversion H as [|? ? Ht Hh]; subst.
    destruct Hx as [<-|Hx].
    - rewrite Forall_forall in Hh. apply Hh, in_or_app. right. exact Hy.
    - eapply IH; eassumption.
  Qed.

  Lemma sorted_app : forall a b, StronglySorted le a -> StronglySorted le b ->
    (forall x y, In x a -> In y b -> le x y) -> StronglySorted le (a ++ b).
  Proof.
    induction a as [|h t IH]; intros b Ha Hb Hc; cbn [app]; [exact Hb|].
    inversion Ha as [|? ? Ht Hh]; subst. constructor.
    - apply IH; [exact Ht | exact Hb|]. intros x y Hx Hy. apply Hc; [right; exact Hx | exact Hy].
    - rewrite Forall_forall in *. intros z Hz. apply in_app_or in Hz. destruct Hz as [Hz|Hz]; [apply Hh, Hz|].
      apply Hc; [left; reflexivity | exact Hz].
  Qed.

  (* the sorted prefix: every element of the first k is below every later element *)
  Lemma firstn_skipn_cross : forall k l x y,
    In x (firstn k (isort leb l)) -> In y (skipn k (isort leb l)) -> le x y.
  Proof.
    intros k l x y Hx Hy. apply (sorted_app_cross (firstn k (isort leb l)) (skipn k (isort leb l))); try assumption.
    rewrite firstn_skipn. apply isort_sorted.
  Qed.

  (* antisymmetric orders: the sorted arrangement is unique *)
  Hypothesis leb_antisym : forall x y, leb x y = true -> leb y x = true -> x = y.

  Lemma sorted_perm_eq : forall a b, StronglySorted le a -> StronglySorted le b -> Permutation a b -> a = b.
  Proof.
    induction a as [|x a IH]; intros b Ha Hb P.
    - apply Permutation_nil in P. subst. reflexivity.
    - destruct b as [|y b]; [apply Permutation_sym, Permutation_nil in P; discriminate|].
      inversion Ha as [|? ? Ha' Hx]; subst. inversion Hb as [|? ? Hb' Hy]; subst.
      rewrite Forall_forall in Hx, Hy.
      assert (E : x = y).
      { assert (I1 : In y (x :: a)) by (eapply Permutation_in; [apply Permutation_sym, P | left; reflexivity]).
        assert (I2 : In x (y :: b)) by (eapply Permutation_in; [exact P | left; reflexivity]).
        destruct I1 as [E|I1]; [exact E|]. destruct I2 as [E|I2]; [symmetry; exact E|].
        apply leb_antisym; [apply Hx, I1 | apply Hy, I2]. }
      subst y. f_equal. apply IH; try assumption. eapply Permutation_cons_inv. exact P.
  Qed.

  Lemma perm_isort_eq : forall a b, Permutation a b -> isort leb a = isort leb b.
  Proof.
    intros a b P. apply sorted_perm_eq; try apply isort_sorted.
    rewrite isort_perm, P. symmetry. apply isort_perm.
  Qed.

  Lemma isort_app_cross : forall a b, (forall x y, In x a -> In y b -> le x y) ->
    isort leb (a ++ b) = isort leb a ++ isort leb b.
  Proof.
    intros a b Hc. apply sorted_perm_eq.
    - apply isort_sorted.
    - apply sorted_app; try apply isort_sorted. intros x y Hx Hy.
      apply Hc; [eapply Permutation_in; [apply isort_perm | exact Hx] | eapply Permutation_in; [apply isort_perm | exact Hy]].
    - rewrite isort_perm. apply Permutation_app; symmetry; apply isort_perm.
  Qed.
End SortFacts.

(* ---------------------------------------------------------------- top-k as a specification *)
(* s is a top-k selection of l under the key order `ord`: a sub-multiset of min(k,|l|) elements none of which
   is farther than an element left out.  Ties are arbitrary. *)
Definition is_topk {A} (ord : key -> key -> bool) (kf : A -> key) (k : nat) (l s : list A) : Prop :=
  exists rest, Permutation l (s ++ rest) /\ length s = Nat.min k (length l) /\
               forall x y, In x s -> In y rest -> ord (kf x) (kf y) = true.

Lemma filter_length_le {A} (p : A -> bool) l : (length (filter p l) <= length l)%nat.
Proof. induction l as [|x t IH]; cbn [filter length]; [lia|]. destruct (p x); cbn [length]; lia. Qed.

Lemma filter_length_lt {A} (p : A -> bool) l x : In x l -> p x = false -> (length (filter p l) < length l)%nat.
Proof.
  induction l as [|y t IH]; intros Hin Hp; [destruct Hin|]. cbn [filter length].
  destruct Hin as [->|Hin].
  - rewrite Hp. pose proof (filter_length_le p t). lia.
  - specialize (IH Hin Hp). destruct (p y); cbn [length]; lia.
Qed.

Lemma filter_all {A} (p : A -> bool) l : (forall x, In x l -> p x = true) -> filter p l = l.
Proof.
  induction l as [|y t IH]; intros H; [reflexivity|]. cbn [filter].
  rewrite (H y (or_introl eq_refl)). f_equal. apply IH. intros x Hx. apply H. right. exact Hx.
Qed.

Lemma filter_none {A} (p : A -> bool) l : (forall x, In x l -> p x = false) -> filter p l = [].
Proof.
  induction l as [|y t IH]; intros H; [reflexivity|]. cbn [filter].
  rewrite (H y (or_introl eq_refl)). apply IH. intros x Hx. apply H. right. exact Hx.
Qed.

Lemma filter_perm_length {A} (p : A -> bool) l l' : Permutation l l' -> length (filter p l) = length (filter p l').
Proof.
  induction 1 as [|x l l' P IH|x y l|l l' l'' P1 IH1 P2 IH2]; cbn [filter]; try reflexivity.
  - destruct (p x); cbn [length]; lia.
  - destruct (p x), (p y); reflexivity.
  - lia.
Qed.

Lemma filter_concat_ge {A} (p : A -> bool) (s : list A) ls : In s ls ->
  (length (filter p s) <= length (filter p (concat ls)))%nat.
Proof.
  induction ls as [|h t IH]; intros Hin; [destruct Hin|]. cbn [concat]. rewrite filter_app, app_length.
  destruct Hin as [->|Hin]; [lia|]. specialize (IH Hin). lia.
Qed.

Lemma firstn_In' {A} : forall k (l : list A) x, In x (firstn k l) -> In x l.
Proof.
  induction k as [|k IH]; intros [|y t] x H; cbn [firstn] in H; try contradiction.
  destruct H as [->|H]; [left; reflexivity | right; apply IH, H].
Qed.

Section TopKFacts.
  Context {A : Type}.
  Variable ord : key -> key -> bool.
  Hypothesis ord_total : forall x y, ord x y = true \/ ord y x = true.
  Hypothesis ord_trans : forall x y z, ord x y = true -> ord y z = true -> ord x z = true.
  Variable kf : A -> key.

  Lemma is_topk_perm : forall k l l' s, Permutation l l' -> is_topk ord kf k l s -> is_topk ord kf k l' s.
  Proof.
    intros k l l' s P (rest & HP & HL & HC). exists rest. split; [|split; [|exact HC]].
    - rewrite <- P. exact HP.
    - rewrite <- (Permutation_length P). exact HL.
  Qed.

  (* the first k of ANY arrangement sorted by key *)
  Lemma sorted_firstn_is_topk : forall k l S,
    Permutation S l -> StronglySorted (fun x y => ord (kf x) (kf y) = true) S -> is_topk ord kf k l (firstn k S).
  Proof.
    intros k l S P HS. exists (skipn k S). split; [|split].
    - rewrite firstn_skipn. symmetry. exact P.
    - rewrite firstn_length, (Permutation_length P). reflexivity.
    - intros x y Hx Hy. revert Hx Hy. revert x y.
      assert (G : forall a b, StronglySorted (fun x y => ord (kf x) (kf y) = true) (a ++ b) ->
                  forall x y, In x a -> In y b -> ord (kf x) (kf y) = true).
      { induction a as [|h t IH]; intros b H x y Hx Hy; [destruct Hx|].
        cbn [app] in H. inversion H as [|? ? Ht Hh]; subst. destruct Hx as [<-|Hx].
        - rewrite Forall_forall in Hh. apply Hh, in_or_app. right. exact Hy.
        - eapply IH; eassumption. }
      apply (G (firstn k S) (skipn k S)). rewrite firstn_skipn. exact HS.
  Qed.

  Lemma sorted_weaken : forall (leb : A -> A -> bool) S,
    (forall x y, leb x y = true -> ord (kf x) (kf y) = true) ->
    StronglySorted (fun x y => leb x y = true) S -> StronglySorted (fun x y => ord (kf x) (kf y) = true) S.
  Proof.
    intros leb S Hw H. induction H as [|x t Ht IH Hx]; constructor; [exact IH|].
    rewrite Forall_forall in *. intros y Hy. apply Hw, Hx, Hy.
  Qed.

  Lemma firstn_isort_is_topk : forall (leb : A -> A -> bool),
    (forall x y, leb x y = true \/ leb y x = true) ->
    (forall x y z, leb x y = true -> leb y z = true -> leb x z = true) ->
    (forall x y, leb x y = true -> ord (kf x) (kf y) = true) ->
    forall k l, is_topk ord kf k l (firstn k (isort leb l)).
  Proof.
    intros leb Ht Htr Hw k l. apply sorted_firstn_is_topk; [apply isort_perm|].
    eapply sorted_weaken; [exact Hw|]. apply isort_sorted; assumption.
  Qed.

  (* merging: top-k of the concatenation of per-part top-k' selections (k <= k') is a top-k of everything *)
  Lemma sum_min_lemma : forall k k' a b b', (k <= k')%nat -> Nat.min k b' = Nat.min k b ->
    Nat.min k (Nat.min k' a + b') = Nat.min k (a + b).
  Proof. intros. lia. Qed.

  Lemma merge_is_topk : forall k k' (ts : list (list A * (list A * list A))) s,
    (k <= k')%nat ->
    Forall (fun t => Permutation (fst t) (fst (snd t) ++ snd (snd t)) /\
                     length (fst (snd t)) = Nat.min k' (length (fst t)) /\
                     forall x y, In x (fst (snd t)) -> In y (snd (snd t)) -> ord (kf x) (kf y) = true) ts ->
    is_topk ord kf k (concat (map (fun t => fst (snd t)) ts)) s ->
    is_topk ord kf k (concat (map fst ts)) s.
  Proof.
    intros k k' ts s Hk HF (R & HP & HL & HC).
    set (parts := map fst ts) in *. set (sels := map (fun t => fst (snd t)) ts) in *.
    set (rests := map (fun t => snd (snd t)) ts).
    assert (P1 : Permutation (concat parts) (concat sels ++ concat rests)).
    { subst parts sels rests. clear HP HL HC. induction HF as [|t ts' (Ht & _ & _) _ IH]; cbn [map concat]; [reflexivity|].
      rewrite Ht, IH. rewrite <- !app_assoc. apply Permutation_app_head.
      rewrite !app_assoc. apply Permutation_app_tail. apply Permutation_app_comm. }
    assert (L1 : Nat.min k (length (concat sels)) = Nat.min k (length (concat parts))).
    { subst parts sels. clear HP HL HC P1. induction HF as [|t ts' (_ & Hl & _) _ IH]; cbn [map concat]; [reflexivity|].
      rewrite !app_length, Hl. apply sum_min_lemma; assumption. }
    exists (R ++ concat rests). split; [|split].
    - rewrite P1, HP. rewrite app_assoc. reflexivity.
    - rewrite HL. exact L1.
    - intros x y Hx Hy. apply in_app_or in Hy. destruct Hy as [Hy|Hy]; [apply HC; assumption|].
      destruct (ord (kf x) (kf y)) eqn:E; [reflexivity|exfalso].
      (* y lies in the rest of some part t whose selection has k' elements, all strictly below x *)
      subst rests. apply in_concat in Hy. destruct Hy as (rt & Hrt & Hy).
      apply in_map_iff in Hrt. destruct Hrt as (t & <- & Ht).
      rewrite Forall_forall in HF. destruct (HF t Ht) as (HtP & HtL & HtC).
      set (pb := fun z => negb (ord (kf x) (kf z))).
      assert (Sall : forall z, In z (fst (snd t)) -> pb z = true).
      { intros z Hz. unfold pb. destruct (ord (kf x) (kf z)) eqn:E2; [|reflexivity].
        rewrite (ord_trans _ _ _ E2 (HtC z y Hz Hy)) in E. discriminate. }
      assert (Lk : length (fst (snd t)) = k').
      { rewrite HtL. apply Permutation_length in HtP. rewrite app_length in HtP.
        destruct (snd (snd t)) as [|? ?]; [destruct Hy|]. cbn [length] in HtP. lia. }
      assert (C1 : (k' <= length (filter pb (concat sels)))%nat).
      { rewrite <- Lk. rewrite <- (filter_all pb (fst (snd t)) Sall) at 1.
        apply filter_concat_ge. subst sels. apply in_map_iff. exists t. split; [reflexivity | exact Ht]. }
      rewrite (filter_perm_length pb _ _ HP), filter_app, app_length in C1.
      assert (C2 : filter pb R = []).
      { apply filter_none. intros z Hz. unfold pb. rewrite (HC x z Hx Hz). reflexivity. }
      rewrite C2 in C1. cbn [length] in C1.
      assert (C3 : (length (filter pb s) < length s)%nat).
      { apply (filter_length_lt pb s x Hx). unfold pb.
        destruct (ord_total (kf x) (kf x)) as [Ex|Ex]; rewrite Ex; reflexivity. }
      lia.
  Qed.

  (* re-ranking a candidate multiset C (inside E) that contains some true top-k T of E gives a true top-k of E *)
  Lemma refine_is_topk : forall k E C others T c2 s,
    Permutation E (C ++ others) -> Permutation C (T ++ c2) ->
    is_topk ord kf k E T -> is_topk ord kf k C s -> is_topk ord kf k E s.
  Proof.
    intros k E C others T c2 s PE PC (R & HPT & HLT & HCT) (r2 & HPs & HLs & HCs).
    assert (PR : Permutation R (c2 ++ others)).
    { apply (Permutation_app_inv_l T). rewrite <- HPT, PE, PC, <- app_assoc. reflexivity. }
    assert (LE : length E = (length C + length others)%nat) by (rewrite (Permutation_length PE), app_length; reflexivity).
    assert (LC : length C = (length T + length c2)%nat) by (rewrite (Permutation_length PC), app_length; reflexivity).
    exists (r2 ++ others). split; [|split].
    - rewrite PE, HPs, <- app_assoc. reflexivity.
    - lia.
    - intros x y Hx Hy. apply in_app_or in Hy. destruct Hy as [Hy|Hy]; [apply HCs; assumption|].
      destruct (ord (kf x) (kf y)) eqn:E1; [reflexivity|exfalso].
      assert (HyR : In y R) by (eapply Permutation_in; [symmetry; exact PR | apply in_or_app; right; exact Hy]).
      set (pb := fun z => negb (ord (kf x) (kf z))).
      assert (Tall : forall z, In z T -> pb z = true).
      { intros z Hz. unfold pb. destruct (ord (kf x) (kf z)) eqn:E2; [|reflexivity].
        rewrite (ord_trans _ _ _ E2 (HCT z y Hz HyR)) in E1. discriminate. }
      assert (C1 : (length T <= length (filter pb C))%nat).
      { rewrite (filter_perm_length pb _ _ PC), filter_app, app_length, (filter_all pb T Tall). lia. }
      rewrite (filter_perm_length pb _ _ HPs), filter_app, app_length in C1.
      assert (C2 : filter pb r2 = []).
      { apply filter_none. intros z Hz. unfold pb. rewrite (HCs x z Hx Hz). reflexivity. }
      rewrite C2 in C1. cbn [length] in C1.
      assert (C3 : (length (filter pb s) < length s)%nat).
      { apply (filter_length_lt pb s x Hx). unfold pb.
        destruct (ord_total (kf x) (kf x)) as [Ex|Ex]; rewrite Ex; reflexivity. }
      lia.
  Qed.

  (* canonical key list: any two top-k selections carry the same distances *)
  Hypothesis ord_antisym : forall x y, ord x y = true -> ord y x = true -> x = y.

  Lemma is_topk_keys : forall k l s, is_topk ord kf k l s ->
    isort ord (map kf s) = firstn k (isort ord (map kf l)).
  Proof.
    intros k l s (rest & HP & HL & HC).
    rewrite (perm_isort_eq ord ord_total ord_trans ord_antisym (map kf l) (map kf s ++ map kf rest))
      by (rewrite <- map_app; apply Permutation_map, HP).
    rewrite (isort_app_cross ord ord_total ord_trans ord_antisym).
    2:{ intros a b Ha Hb. apply in_map_iff in Ha, Hb. destruct Ha as (x & <- & Hx), Hb as (y & <- & Hy). apply HC; assumption. }
    assert (Ll : length l = (length s + length rest)%nat) by (rewrite (Permutation_length HP), app_length; reflexivity).
    assert (La : length (isort ord (map kf s)) = length s) by (rewrite isort_length, map_length; reflexivity).
    destruct (Nat.le_gt_cases k (length l)) as [Hk|Hk].
    - rewrite firstn_app. replace (k - length (isort ord (map kf s)))%nat with 0%nat by lia.
      cbn [firstn]. rewrite app_nil_r. rewrite firstn_all2 by lia. reflexivity.
    - assert (rest = []) by (destruct rest; [reflexivity | cbn [length] in Ll; lia]). subst rest.
      cbn [map isort]. rewrite app_nil_r. rewrite firstn_all2 by lia. reflexivity.
  Qed.

  Lemma is_topk_keys_unique : forall k l s1 s2, is_topk ord kf k l s1 -> is_topk ord kf k l s2 ->
    isort ord (map kf s1) = isort ord (map kf s2).
  Proof. intros k l s1 s2 H1 H2. rewrite (is_topk_keys k l s1 H1), (is_topk_keys k l s2 H2). reflexivity. Qed.
End TopKFacts.

(* ---------------------------------------------------------------- rows: SortExec order, the heap *)
Definition heap_ok {R} (da : R -> key) (peek : list R -> option R) (pop : list R -> list R) : Prop :=
  (forall h, peek h = None -> h = []) /\
  (forall h m, peek h = Some m ->
     (forall z, In z h -> key_leb (da z) (da m) = true) /\
     exists m', key_leb (da m) (da m') = true /\ Permutation h (m' :: pop h)).

Section Rows.
  Variable R : Type.
  Variable rid : R -> N.

  Lemma key_ltb_trans : forall a b c, key_ltb a b = true -> key_ltb b c = true -> key_ltb a c = true.
  Proof.
    intros a b c H1 H2. unfold key_ltb in *. destruct (key_leb c a) eqn:E; [|reflexivity]. exfalso.
    apply negb_true_iff in H1, H2.
    assert (key_leb b c = true) by (destruct (key_leb_total b c); congruence).
    rewrite (key_leb_trans b c a) in H1 by assumption. discriminate.
  Qed.

  Lemma row_leb_key : forall (f : R -> key) x y, row_leb R rid f x y = true -> key_leb (f x) (f y) = true.
  Proof.
    intros f x y H. unfold row_leb in H. apply orb_true_iff in H. destruct H as [H|H].
    - apply key_ltb_leb, H.
    - apply andb_true_iff in H. destruct H as [H _]. apply key_eqb_eq in H. rewrite H. apply key_leb_refl.
  Qed.

  Lemma row_leb_total : forall (f : R -> key) x y, row_leb R rid f x y = true \/ row_leb R rid f y x = true.
  Proof.
    intros f x y. unfold row_leb.
    destruct (key_ltb (f x) (f y)) eqn:E1; [left; reflexivity|].
    destruct (key_ltb (f y) (f x)) eqn:E2; [right; reflexivity|].
    apply key_ltb_false in E1, E2. pose proof (key_leb_antisym _ _ E2 E1) as E.
    assert (K1 : key_eqb (f x) (f y) = true) by (apply key_eqb_eq; exact E).
    assert (K2 : key_eqb (f y) (f x) = true) by (apply key_eqb_eq; symmetry; exact E).
    rewrite K1, K2. cbn [orb andb]. destruct (N.leb_spec (rid x) (rid y)); [left; reflexivity|right].
    apply N.leb_le. lia.
  Qed.

  Lemma row_leb_trans : forall (f : R -> key) x y z,
    row_leb R rid f x y = true -> row_leb R rid f y z = true -> row_leb R rid f x z = true.
  Proof.
    intros f x y z H1 H2. unfold row_leb in *. apply orb_true_iff in H1, H2. apply orb_true_iff.
    destruct H1 as [H1|H1], H2 as [H2|H2].
    - left. eapply key_ltb_trans; eassumption.
    - apply andb_true_iff in H2. destruct H2 as [H2 _]. apply key_eqb_eq in H2. left. rewrite <- H2. exact H1.
    - apply andb_true_iff in H1. destruct H1 as [H1 _]. apply key_eqb_eq in H1. left. rewrite H1. exact H2.
    - apply andb_true_iff in H1, H2. destruct H1 as [K1 L1], H2 as [K2 L2]. right.
      apply key_eqb_eq in K1, K2. apply andb_true_iff. split; [apply key_eqb_eq; congruence|].
      apply N.leb_le in L1, L2. apply N.leb_le. lia.
  Qed.

  Lemma topk_by_is_topk : forall (f : R -> key) k l, is_topk key_leb f k l (topk_by R rid f k l).
  Proof.
    intros f k l. unfold topk_by.
    apply (firstn_isort_is_topk key_leb f (row_leb R rid f)).
    - apply row_leb_total.
    - apply row_leb_trans.
    - apply row_leb_key.
  Qed.

  Lemma topk_by_incl : forall (f : R -> key) k l x, In x (topk_by R rid f k l) -> In x l.
  Proof.
    intros f k l x H. unfold topk_by in H. apply firstn_In' in H.
    eapply Permutation_in; [apply isort_perm | exact H].
  Qed.

  Lemma firstn_sorted : forall (P : R -> R -> Prop) k l, StronglySorted P l -> StronglySorted P (firstn k l).
  Proof.
    intros P k l H. revert k. induction H as [|x t Ht IH Hx]; intros [|k]; cbn [firstn]; try constructor.
    - apply IH.
    - rewrite Forall_forall in *. intros y Hy. apply Hx. eapply firstn_In'. exact Hy.
  Qed.

  Lemma filter_sorted : forall (P : R -> R -> Prop) p l, StronglySorted P l -> StronglySorted P (filter p l).
  Proof.
    intros P p l H. induction H as [|x t Ht IH Hx]; cbn [filter]; [constructor|].
    destruct (p x); [|exact IH]. constructor; [exact IH|].
    rewrite Forall_forall in *. intros y Hy. apply filter_In in Hy. apply Hx, Hy.
  Qed.

  Lemma topk_by_sorted : forall (f : R -> key) k l,
    StronglySorted (fun x y => key_leb (f x) (f y) = true) (topk_by R rid f k l).
  Proof.
    intros f k l. unfold topk_by. apply firstn_sorted.
    apply (sorted_weaken key_leb f (row_leb R rid f)); [apply row_leb_key|].
    apply isort_sorted; [apply row_leb_total | apply row_leb_trans].
  Qed.

  (* ---- the heap loop of FlatIndex::search *)
  Variable da : R -> key.

  Lemma peek_max_spec : forall h m, peek_max R da h = Some m ->
    In m h /\ forall z, In z h -> key_leb (da z) (da m) = true.
  Proof.
    induction h as [|x t IH]; intros m H; cbn [peek_max] in H; [discriminate|].
    destruct (peek_max R da t) as [m0|] eqn:E.
    - destruct (IH m0 eq_refl) as [I0 M0].
      destruct (key_ltb (da m0) (da x)) eqn:L; inversion H; subst m.
      + split; [left; reflexivity|]. intros z [<-|Hz]; [apply key_leb_refl|].
        eapply key_leb_trans; [apply M0, Hz | apply key_ltb_leb, L].
      + split; [right; exact I0|]. intros z [<-|Hz]; [apply key_ltb_false, L | apply M0, Hz].
    - inversion H; subst m. destruct t as [|y t']; [|cbn [peek_max] in E; destruct (peek_max R da t'); [destruct (key_ltb _ _)|]; discriminate].
      split; [left; reflexivity|]. intros z [<-|[]]. apply key_leb_refl.
  Qed.

  Lemma remove_first_perm : forall m h, In m h ->
    exists m', da m' = da m /\ Permutation h (m' :: remove_first R rid da m h).
  Proof.
    intros m. induction h as [|y t IH]; intros Hin; [destruct Hin|]. cbn [remove_first].
    destruct ((rid m =? rid y) && key_eqb (da m) (da y)) eqn:E.
    - apply andb_true_iff in E. destruct E as [_ E]. apply key_eqb_eq in E. exists y. split; [symmetry; exact E | reflexivity].
    - destruct Hin as [->|Hin].
      + rewrite N.eqb_refl in E. cbn [andb] in E. assert (key_eqb (da m) (da m) = true) by (apply key_eqb_eq; reflexivity). congruence.
      + destruct (IH Hin) as (m' & Hd & HP). exists m'. split; [exact Hd|]. eapply perm_trans; [apply perm_skip, HP | apply perm_swap].
  Qed.

  Lemma peek_pop_max_ok : heap_ok da (peek_max R da) (pop_max R rid da).
  Proof.
    split.
    - intros [|x t] H; [reflexivity|]. cbn [peek_max] in H. destruct (peek_max R da t); [destruct (key_ltb _ _)|]; discriminate.
    - intros h m H. destruct (peek_max_spec h m H) as [Hin Hmax]. split; [exact Hmax|].
      unfold pop_max. rewrite H. destruct (remove_first_perm m h Hin) as (m' & Hd & HP).
      exists m'. split; [rewrite Hd; apply key_leb_refl | exact HP].
  Qed.

  Variable peek : list R -> option R.
  Variable pop : list R -> list R.
  Hypothesis hok : heap_ok da peek pop.

  Lemma heap_loop_is_topk : forall k rows res seen out,
    is_topk key_leb da k seen res ->
    heap_loop R da peek pop k res rows = Ok out ->
    is_topk key_leb da k (rows ++ seen) out.
  Proof.
    intros k. induction rows as [|r t IH]; intros res seen out Inv H; cbn [heap_loop] in H.
    - inversion H; subst. exact Inv.
    - apply (is_topk_perm key_leb da k (t ++ r :: seen)); [symmetry; apply Permutation_middle|].
      destruct Inv as (rest & HP & HL & HC).
      pose proof (Permutation_length HP) as LP. rewrite app_length in LP.
      destruct (length res <? k)%nat eqn:Lt.
      + apply Nat.ltb_lt in Lt. apply (IH (r :: res) (r :: seen) out); [|exact H].
        assert (rest = []) by (destruct rest; [reflexivity | cbn [length] in LP; lia]). subst rest.
        exists []. split; [|split].
        * rewrite app_nil_r in *. constructor. exact HP.
        * cbn [length] in *. lia.
        * intros x y _ [].
      + apply Nat.ltb_ge in Lt.
        destruct (peek res) as [m|] eqn:Pk; [|discriminate].
        destruct hok as [_ Hsome]. destruct (Hsome res m Pk) as (Hmax & m' & Hm' & HPm).
        pose proof (Permutation_length HPm) as LPm. cbn [length] in LPm.
        destruct (key_ltb (da r) (da m)) eqn:Lr.
        * apply (IH (r :: pop res) (r :: seen) out); [|exact H].
          exists (m' :: rest). split; [|split].
          -- cbn [app]. constructor. eapply perm_trans; [exact HP|]. eapply perm_trans; [apply Permutation_app_tail, HPm|]. cbn [app]. apply Permutation_middle.
          -- cbn [length]. lia.
          -- assert (Im' : In m' res) by (eapply Permutation_in; [symmetry; exact HPm | left; reflexivity]).
             assert (Rm : key_leb (da r) (da m') = true) by (eapply key_leb_trans; [apply key_ltb_leb, Lr | exact Hm']).
             intros x y [<-|Hx] [<-|Hy].
             ++ exact Rm.
             ++ eapply key_leb_trans; [exact Rm | apply HC; assumption].
             ++ eapply key_leb_trans; [apply Hmax | exact Hm'].
                eapply Permutation_in; [symmetry; exact HPm | right; exact Hx].
             ++ apply HC; [|exact Hy]. eapply Permutation_in; [symmetry; exact HPm | right; exact Hx].
        * apply (IH res (r :: seen) out); [|exact H].
          exists (r :: rest). split; [|split].
          -- rewrite HP. apply Permutation_middle.
          -- cbn [length]. lia.
          -- intros x y Hx [<-|Hy]; [|apply HC; assumption].
             eapply key_leb_trans; [apply Hmax, Hx | apply key_ltb_false, Lr].
  Qed.

  Lemma heap_loop_total : forall k rows res, (0 < k)%nat -> exists out, heap_loop R da peek pop k res rows = Ok out.
  Proof.
    intros k rows. induction rows as [|r t IH]; intros res Hk; cbn [heap_loop]; [eexists; reflexivity|].
    destruct (length res <? k)%nat eqn:Lt; [apply IH, Hk|].
    apply Nat.ltb_ge in Lt. destruct (peek res) as [m|] eqn:Pk.
    - destruct (key_ltb (da r) (da m)); apply IH, Hk.
    - destruct hok as [Hnone _]. rewrite (Hnone res Pk) in Lt. cbn [length] in Lt. lia.
  Qed.

  Lemma is_topk_nil : forall k, is_topk key_leb da k [] [].
  Proof. intros k. exists []. split; [reflexivity|split; [cbn [length]; lia | intros x y []]]. Qed.

  Lemma part_search_is_topk : forall ef keff me (sl : R -> bool) part out,
    part_search R da peek pop ef keff me sl part = Ok out ->
    ef = true /\ is_topk key_leb da keff (if me then part else filter sl part) out.
  Proof.
    intros ef keff me sl part out H. unfold part_search in H. destruct ef; cbn [negb] in H; [|discriminate].
    split; [reflexivity|].
    destruct me; (apply (heap_loop_is_topk keff _ [] [] out (is_topk_nil keff)) in H; rewrite app_nil_r in H; exact H).
  Qed.
End Rows.

(* ---------------------------------------------------------------- small list facts *)
Lemma filter_perm {A} (p : A -> bool) l l' : Permutation l l' -> Permutation (filter p l) (filter p l').
Proof.
  induction 1 as [|x l l' P IH|x y l|l l' l'' P1 IH1 P2 IH2]; cbn [filter].
  - constructor.
  - destruct (p x); [constructor|]; exact IH.
  - destruct (p x), (p y); try reflexivity. apply perm_swap.
  - eapply perm_trans; eassumption.
Qed.

Lemma is_topk_incl {A} ord (kf : A -> key) k l s : is_topk ord kf k l s -> forall x, In x s -> In x l.
Proof. intros (rest & HP & _ & _) x Hx. eapply Permutation_in; [symmetry; exact HP | apply in_or_app; left; exact Hx]. Qed.

Lemma is_topk_ext {A} ord (f g : A -> key) k l s :
  (forall x, In x l -> f x = g x) -> is_topk ord f k l s -> is_topk ord g k l s.
Proof.
  intros E (rest & HP & HL & HC). exists rest. split; [exact HP|split; [exact HL|]].
  intros x y Hx Hy.
  rewrite <- (E x), <- (E y); [apply HC; assumption | |];
    (eapply Permutation_in; [symmetry; exact HP | apply in_or_app; auto]).
Qed.

Lemma is_topk_length {A} ord (kf : A -> key) k l s : is_topk ord kf k l s -> length s = Nat.min k (length l).
Proof. intros (rest & _ & HL & _). exact HL. Qed.

Lemma sorted_ext_in {A} (f g : A -> key) l :
  (forall x, In x l -> f x = g x) ->
  StronglySorted (fun x y => key_leb (f x) (f y) = true) l -> StronglySorted (fun x y => key_leb (g x) (g y) = true) l.
Proof.
  intros E H. induction H as [|x t Ht IH Hx]; constructor.
  - apply IH. intros y Hy. apply E. right. exact Hy.
  - rewrite Forall_forall in *. intros y Hy. rewrite <- (E x (or_introl eq_refl)), <- (E y (or_intror Hy)). apply Hx, Hy.
Qed.

Lemma sorted_filter_split {A} (P : A -> A -> Prop) (p : A -> bool) l :
  (forall x y, P x y -> p y = true -> p x = true) -> StronglySorted P l ->
  l = filter p l ++ filter (fun x => negb (p x)) l.
Proof.
  intros Hm H. induction H as [|x t Ht IH Hx]; [reflexivity|]. cbn [filter].
  destruct (p x) eqn:Px; cbn [negb app].
  - f_equal. exact IH.
  - rewrite Forall_forall in Hx.
    assert (N : forall y, In y t -> p y = false).
    { intros y Hy. destruct (p y) eqn:Py; [|reflexivity]. rewrite (Hm x y (Hx y Hy) Py) in Px. discriminate. }
    rewrite (filter_none p t N). cbn [app]. f_equal. symmetry. apply filter_all. intros y Hy. rewrite (N y Hy). reflexivity.
Qed.

Lemma filter_firstn_split {A} (p : A -> bool) k (a b : list A) :
  (forall x, In x a -> p x = true) -> (forall x, In x b -> p x = false) -> filter p (firstn k (a ++ b)) = firstn k a.
Proof.
  intros Ha Hb. rewrite firstn_app, filter_app.
  rewrite (filter_all p (firstn k a)) by (intros x Hx; apply Ha; eapply firstn_In'; exact Hx).
  rewrite (filter_none p (firstn _ b)) by (intros x Hx; apply Hb; eapply firstn_In'; exact Hx).
  apply app_nil_r.
Qed.

Lemma seq_outcome_ok {A} : forall (l : list (outcome A)) ls, seq_outcome l = Ok ls -> Forall2 (fun o x => o = Ok x) l ls.
Proof.
  induction l as [|o t IH]; intros ls H; cbn [seq_outcome] in H.
  - inversion H. constructor.
  - destruct o as [a| |]; try discriminate. destruct (seq_outcome t) as [r| |] eqn:E; try discriminate.
    inversion H; subst. constructor; [reflexivity | apply IH; reflexivity].
Qed.

Lemma seq_outcome_total {A} : forall (l : list (outcome A)), (forall o, In o l -> exists x, o = Ok x) -> exists ls, seq_outcome l = Ok ls.
Proof.
  induction l as [|o t IH]; intros H; cbn [seq_outcome]; [eexists; reflexivity|].
  destruct (H o (or_introl eq_refl)) as (x & ->). destruct IH as (ls & ->); [intros o' Ho'; apply H; right; exact Ho'|].
  eexists; reflexivity.
Qed.

Lemma concat_firstn_all {A} : forall np (deltas : list (list A)),
  (forall dl, In dl deltas -> (length dl <= np)%nat) -> map (firstn np) deltas = deltas.
Proof.
  intros np deltas H. induction deltas as [|dl t IH]; [reflexivity|]. cbn [map].
  rewrite firstn_all2 by (apply H; left; reflexivity). f_equal. apply IH. intros x Hx. apply H. right. exact Hx.
Qed.

(* ---------------------------------------------------------------- the search pipeline *)
Section PipelineFacts.
  Variable R : Type.
  Variable rid : R -> N.
  Variables d da : R -> key.
  Variables deleted flt : R -> bool.
  Variable peek : list R -> option R.
  Variable pop : list R -> list R.
  Hypothesis hok : heap_ok da peek pop.

  Definition nonnull (f : R -> key) (r : R) : bool := negb (key_is_null (f r)).
  (* the rows of a partition the sub-index search looks at *)
  Definition visible (me hf : bool) (p : list R) : list R := if me then p else filter (sel R deleted flt hf) p.
  Definition probed (np : nat) (deltas : list (list (list R))) : list (list R) := concat (map (firstn np) deltas).
  Definition idx_rows (me hf : bool) (np : nat) (deltas : list (list (list R))) : list R :=
    concat (map (visible me hf) (probed np deltas)).

  Lemma null_monotone : forall (f : R -> key) x y, key_leb (f x) (f y) = true -> nonnull f y = true -> nonnull f x = true.
  Proof.
    intros f x y H Hy. unfold nonnull in *. destruct (f y) eqn:Ey; cbn [key_is_null negb] in Hy; try discriminate;
      destruct (f x); cbn [key_leb key_is_null negb] in *; try reflexivity; discriminate.
  Qed.

  (* Scanner::flat_knn = a top-k selection among the rows with a non-NULL distance *)
  Lemma flat_knn_is_topk : forall f k rows,
    is_topk key_leb f k (filter (nonnull f) rows) (flat_knn R rid f k rows).
  Proof.
    intros f k rows. unfold flat_knn, topk_by. fold (nonnull f).
    set (S := isort (row_leb R rid f) rows).
    assert (HS : StronglySorted (fun x y => key_leb (f x) (f y) = true) S).
    { apply (sorted_weaken key_leb f (row_leb R rid f)); [apply row_leb_key|].
      apply isort_sorted; [apply row_leb_total | apply row_leb_trans]. }
    rewrite (sorted_filter_split _ (nonnull f) S (null_monotone f) HS) at 1.
    change (fun r : R => negb (key_is_null (f r))) with (nonnull f).
    rewrite filter_firstn_split.
    - apply sorted_firstn_is_topk.
      + apply filter_perm. apply isort_perm.
      + apply filter_sorted. exact HS.
    - intros x Hx. apply filter_In in Hx. apply Hx.
    - intros x Hx. apply filter_In in Hx. destruct Hx as [_ Hx]. apply negb_true_iff in Hx. exact Hx.
  Qed.

  Lemma flat_knn_incl : forall f k rows x, In x (flat_knn R rid f k rows) -> In x rows /\ nonnull f x = true.
  Proof.
    intros f k rows x H. unfold flat_knn in H. apply filter_In in H. destruct H as [H1 H2].
    split; [eapply topk_by_incl; exact H1 | exact H2].
  Qed.

  Lemma flat_knn_sorted : forall f k rows, StronglySorted (fun x y => key_leb (f x) (f y) = true) (flat_knn R rid f k rows).
  Proof. intros f k rows. unfold flat_knn. apply filter_sorted, topk_by_sorted. Qed.

  Lemma build_ts : forall keff (g : list R -> list R) ps ls,
    Forall2 (fun p l => is_topk key_leb da keff (g p) l) ps ls ->
    exists ts : list (list R * (list R * list R)),
      map fst ts = map g ps /\ map (fun t => fst (snd t)) ts = ls /\
      Forall (fun t => Permutation (fst t) (fst (snd t) ++ snd (snd t)) /\
                       length (fst (snd t)) = Nat.min keff (length (fst t)) /\
                       forall x y, In x (fst (snd t)) -> In y (snd (snd t)) -> key_leb (da x) (da y) = true) ts.
  Proof.
    intros keff g ps ls H. induction H as [|p l ps ls (rest & HP & HL & HC) _ (ts & E1 & E2 & HF)].
    - exists []. repeat split; constructor.
    - exists ((g p, (l, rest)) :: ts). cbn [map fst snd]. rewrite E1, E2. repeat split; try reflexivity.
      constructor; [|exact HF]. cbn [fst snd]. repeat split; assumption.
  Qed.

  (* the ANN node: a top-k_eff selection (by the sub-index distance) among the visible rows of the probed partitions *)
  Lemma ann_is_topk : forall ef keff np me hf deltas cands,
    ann R rid da deleted flt peek pop ef keff np me hf deltas = Ok cands ->
    is_topk key_leb da keff (idx_rows me hf np deltas) cands.
  Proof.
    intros ef keff np me hf deltas cands H. unfold ann in H. fold (probed np deltas) in H.
    destruct (seq_outcome _) as [ls| |] eqn:E; try discriminate. inversion H; subst cands. clear H.
    apply seq_outcome_ok in E.
    assert (F2 : Forall2 (fun p l => is_topk key_leb da keff (visible me hf p) l) (probed np deltas) ls).
    { remember (probed np deltas) as ps eqn:Eps. clear Eps.
      remember (map _ ps) as os eqn:Eos. revert ps Eos.
      induction E as [|o l os ls Ho _ IH]; intros [|p ps] Eos; cbn [map] in Eos; try discriminate; [constructor|].
      injection Eos as Eo Eos'. rewrite Eo in Ho. constructor; [|apply IH; exact Eos'].
      apply (part_search_is_topk R rid da peek pop hok) in Ho. destruct Ho as [_ Ho]. exact Ho. }
    destruct (build_ts keff (visible me hf) _ _ F2) as (ts & E1 & E2 & HF).
    unfold idx_rows. rewrite <- E1.
    apply (merge_is_topk key_leb key_leb_total key_leb_trans da keff keff ts); [lia | exact HF|].
    rewrite E2. apply topk_by_is_topk.
  Qed.

  (* a top-k selection of a top-k' selection, k <= k' *)
  Lemma topk_of_topk : forall (f : R -> key) k k' l c s, (k <= k')%nat ->
    is_topk key_leb f k' l c -> is_topk key_leb f k c s -> is_topk key_leb f k l s.
  Proof.
    intros f k k' l c s Hk (rest & HP & HL & HC) Hs.
    pose proof (merge_is_topk key_leb key_leb_total key_leb_trans f k k' [(l, (c, rest))] s Hk) as M.
    cbn [map concat fst snd] in M. rewrite !app_nil_r in M. apply M; [|exact Hs].
    constructor; [|constructor]. cbn [fst snd]. repeat split; assumption.
  Qed.

  (* the union of two top-k selections, re-ranked *)
  Lemma topk_of_two : forall (f : R -> key) k l1 s1 l2 s2 s,
    is_topk key_leb f k l1 s1 -> is_topk key_leb f k l2 s2 -> is_topk key_leb f k (s1 ++ s2) s ->
    is_topk key_leb f k (l1 ++ l2) s.
  Proof.
    intros f k l1 s1 l2 s2 s (r1 & P1 & L1 & C1) (r2 & P2 & L2 & C2) Hs.
    pose proof (merge_is_topk key_leb key_leb_total key_leb_trans f k k [(l1, (s1, r1)); (l2, (s2, r2))] s (le_n k)) as M.
    cbn [map concat fst snd] in M. rewrite !app_nil_r in M. apply M; [|exact Hs].
    constructor; [|constructor; [|constructor]]; cbn [fst snd]; repeat split; assumption.
  Qed.
End PipelineFacts.

Section PipelineTheorems.
  Variable R : Type.
  Variable rid : R -> N.
  Variables d da : R -> key.
  Variables deleted flt : R -> bool.
  Variable peek : list R -> option R.
  Variable pop : list R -> list R.
  Hypothesis hok : heap_ok da peek pop.

  Notation vsearch := (vector_search R rid d da deleted flt peek pop).
  Notation fsearch := (search R rid d da deleted flt peek pop).
  Notation idx := (idx_rows R deleted flt).
  Notation SEL := (sel R deleted flt).

  Definition passes (hf : bool) (r : R) : bool := negb hf || flt r.
  (* the rows an exact query must rank: visible index rows, plus (unless fast_search) the live, filtered,
     non-null rows of the unindexed fragments *)
  Definition fresh_rows (hf fast : bool) (fresh : list R) : list R :=
    if fast then [] else filter (nonnull R d) (filter (SEL hf) fresh).
  Definition flat_rows (hf : bool) (fresh : list R) : list R :=
    filter (fun r => negb (deleted r) && nonnull R d r) (filter (passes hf) fresh).

  (* ---- index arm: the result is a top-k selection (by the exact distance) of index rows + fresh rows *)
  Lemma vsearch_index_topk : forall ef k refine np me hf fast deltas fresh rows b,
    refine <> Some 0%nat ->
    (forall r, In r (idx me hf np deltas) -> da r = d r /\ nonnull R d r = true) ->
    vsearch ef k refine np me hf fast true deltas fresh = Ok (rows, b) ->
    is_topk key_leb d k (idx me hf np deltas ++ fresh_rows hf fast fresh) rows.
  Proof.
    intros ef k refine np me hf fast deltas fresh rows b Hrf Hidx H. unfold vector_search in H.
    set (rf := match refine with Some f => f | None => 1%nat end) in *.
    assert (Hrf1 : (1 <= rf)%nat) by (subst rf; destruct refine as [[|n]|]; [congruence | lia | lia]).
    assert (H' : match ann R rid da deleted flt peek pop ef (k * rf) np me hf deltas with
                 | Ok cands =>
                     let refined := match refine with Some _ => true | None => false end in
                     let knn := if refined then flat_knn R rid d k cands else cands in
                     if fast then Ok (knn, refined)
                     else match fresh with
                          | [] => Ok (knn, refined)
                          | _ => Ok (flat_knn R rid d k (flat_knn R rid d k (filter (SEL hf) fresh) ++ knn), true)
                          end
                 | Err => Err | Panic => Panic end = Ok (rows, b)).
    { destruct refine as [[|n]|]; [congruence | exact H | exact H]. }
    clear H. destruct (ann _ _ _ _ _ _ _ _ _ _ _ _ _) as [cands| |] eqn:EA; try discriminate.
    apply (ann_is_topk R rid da deleted flt peek pop hok) in EA.
    set (I := idx me hf np deltas) in *.
    assert (Cd : is_topk key_leb d (k * rf) I cands).
    { apply (is_topk_ext key_leb da d); [|exact EA]. intros x Hx. apply Hidx, Hx. }
    assert (Cnn : forall x, In x cands -> nonnull R d x = true).
    { intros x Hx. apply Hidx. eapply is_topk_incl; [exact EA | exact Hx]. }
    cbv zeta in H'.
    set (knn := if match refine with Some _ => true | None => false end then flat_knn R rid d k cands else cands) in *.
    assert (K : is_topk key_leb d k I knn).
    { subst knn. destruct refine as [n|].
      - apply (topk_of_topk R d k (k * rf) I cands); [nia | exact Cd|].
        pose proof (flat_knn_is_topk R rid d k cands) as F. rewrite (filter_all _ cands Cnn) in F. exact F.
      - subst rf. rewrite Nat.mul_1_r in Cd. exact Cd. }
    assert (Knn : forall x, In x knn -> nonnull R d x = true).
    { intros x Hx. apply Hidx. eapply is_topk_incl; [exact K | exact Hx]. }
    unfold fresh_rows. destruct fast.
    - inversion H'; subst. rewrite app_nil_r. exact K.
    - destruct fresh as [|f0 ft] eqn:Ef.
      + inversion H'; subst. cbn [filter]. rewrite app_nil_r. exact K.
      + rewrite <- Ef in *. inversion H'; subst rows b. clear H'.
        set (F := flat_knn R rid d k (filter (SEL hf) fresh)).
        pose proof (flat_knn_is_topk R rid d k (filter (SEL hf) fresh)) as HF. fold F in HF.
        apply (is_topk_perm key_leb d k (filter (nonnull R d) (filter (SEL hf) fresh) ++ I)); [apply Permutation_app_comm|].
        apply (topk_of_two R d k _ F _ knn); [exact HF | exact K|].
        pose proof (flat_knn_is_topk R rid d k (F ++ knn)) as G.
        rewrite (filter_all _ (F ++ knn)) in G; [exact G|].
        intros x Hx. apply in_app_or in Hx. destruct Hx as [Hx|Hx]; [|apply Knn, Hx].
        subst F. apply flat_knn_incl in Hx. apply Hx.
  Qed.

  (* ---- no-index arm *)
  Lemma d_live_nonnull : forall r, nonnull R (d_live R d deleted) r = negb (deleted r) && nonnull R d r.
  Proof. intros r. unfold nonnull, d_live. destruct (deleted r); reflexivity. Qed.

  Lemma vsearch_flat_topk : forall ef k refine np me hf fast deltas fresh rows b,
    vsearch ef k refine np me hf fast false deltas fresh = Ok (rows, b) ->
    b = true /\ is_topk key_leb d k (flat_rows hf fresh) rows.
  Proof.
    intros ef k refine np me hf fast deltas fresh rows b H. unfold vector_search in H. inversion H; subst. clear H.
    split; [reflexivity|].
    pose proof (flat_knn_is_topk R rid (d_live R d deleted) k (filter (fun r => negb hf || flt r) fresh)) as F.
    unfold flat_rows. fold (passes hf) in F.
    rewrite (filter_ext (nonnull R (d_live R d deleted)) (fun r => negb (deleted r) && nonnull R d r) d_live_nonnull) in F.
    apply (is_topk_ext key_leb (d_live R d deleted) d); [|exact F].
    intros x Hx. apply filter_In in Hx. destruct Hx as [_ Hx]. apply andb_true_iff in Hx. destruct Hx as [Hx _].
    unfold d_live. apply negb_true_iff in Hx. rewrite Hx. reflexivity.
  Qed.

  (* ---- membership: in every mode, a returned row is visible in a probed partition or is a live, filtered fresh row *)
  Lemma vsearch_members : forall ef k refine np me hf fast ui deltas fresh rows b,
    vsearch ef k refine np me hf fast ui deltas fresh = Ok (rows, b) ->
    forall r, In r rows ->
      (ui = true /\ In r (idx me hf np deltas)) \/
      (fast && ui = false /\ In r fresh /\ deleted r = false /\ passes hf r = true).
  Proof.
    intros ef k refine np me hf fast ui deltas fresh rows b H r Hr. unfold vector_search in H. destruct ui.
    - set (rf := match refine with Some f => f | None => 1%nat end) in *.
      assert (H' : match ann R rid da deleted flt peek pop ef (k * rf) np me hf deltas with
                   | Ok cands =>
                       let refined := match refine with Some _ => true | None => false end in
                       let knn := if refined then flat_knn R rid d k cands else cands in
                       if fast then Ok (knn, refined)
                       else match fresh with
                            | [] => Ok (knn, refined)
                            | _ => Ok (flat_knn R rid d k (flat_knn R rid d k (filter (SEL hf) fresh) ++ knn), true)
                            end
                   | Err => Err | Panic => Panic end = Ok (rows, b)).
      { destruct refine as [[|n]|]; [discriminate | exact H | exact H]. }
      clear H. destruct (ann _ _ _ _ _ _ _ _ _ _ _ _ _) as [cands| |] eqn:EA; try discriminate.
      apply (ann_is_topk R rid da deleted flt peek pop hok) in EA.
      cbv zeta in H'.
      set (knn := if match refine with Some _ => true | None => false end then flat_knn R rid d k cands else cands) in *.
      assert (Kin : forall x, In x knn -> In x (idx me hf np deltas)).
      { intros x Hx. eapply is_topk_incl; [exact EA|]. subst knn. destruct refine; [apply flat_knn_incl in Hx; apply Hx | exact Hx]. }
      destruct fast; [inversion H'; subst; left; split; [reflexivity | apply Kin, Hr]|].
      destruct fresh as [|f0 ft] eqn:Ef; [inversion H'; subst; left; split; [reflexivity | apply Kin, Hr]|].
      rewrite <- Ef in *. inversion H'; subst rows b. clear H'.
      apply flat_knn_incl in Hr. destruct Hr as [Hr _]. apply in_app_or in Hr. destruct Hr as [Hr|Hr].
      + right. apply flat_knn_incl in Hr. destruct Hr as [Hr _]. apply filter_In in Hr. destruct Hr as [Hin Hs].
        unfold sel in Hs. apply andb_true_iff in Hs. destruct Hs as [Hd Hp]. apply negb_true_iff in Hd.
        repeat split; assumption.
      + left. split; [reflexivity | apply Kin, Hr].
    - inversion H; subst. clear H. right. apply flat_knn_incl in Hr. destruct Hr as [Hr Hn].
      apply filter_In in Hr. destruct Hr as [Hin Hp].
      rewrite d_live_nonnull in Hn. apply andb_true_iff in Hn. destruct Hn as [Hd _]. apply negb_true_iff in Hd.
      rewrite andb_false_r. repeat split; assumption.
  Qed.

  Lemma idx_member_sel : forall me hf np deltas r,
    (me = true -> forall x, In x (concat (concat deltas)) -> SEL hf x = true) ->
    In r (idx me hf np deltas) -> In r (concat (concat deltas)) /\ SEL hf r = true.
  Proof.
    intros me hf np deltas r Hme Hr. unfold idx_rows in Hr. apply in_concat in Hr. destruct Hr as (vp & Hvp & Hr).
    apply in_map_iff in Hvp. destruct Hvp as (p & <- & Hp).
    unfold probed in Hp. apply in_concat in Hp. destruct Hp as (fd & Hfd & Hp).
    apply in_map_iff in Hfd. destruct Hfd as (dl & <- & Hdl). apply firstn_In' in Hp.
    assert (Hall : forall x, In x p -> In x (concat (concat deltas))).
    { intros x Hx. apply in_concat. exists p. split; [|exact Hx]. apply in_concat. exists dl. split; assumption. }
    unfold visible in Hr. destruct me.
    - split; [apply Hall, Hr | apply Hme; [reflexivity | apply Hall, Hr]].
    - apply filter_In in Hr. destruct Hr as [Hr Hs]. split; [apply Hall, Hr | exact Hs].
  Qed.

  (* ---- sortedness of the output by the reported distance *)
  Lemma vsearch_sorted : forall ef k refine np me hf fast ui deltas fresh rows b,
    vsearch ef k refine np me hf fast ui deltas fresh = Ok (rows, b) ->
    StronglySorted (fun x y => key_leb ((if b then d else da) x) ((if b then d else da) y) = true) rows.
  Proof.
    intros ef k refine np me hf fast ui deltas fresh rows b H. unfold vector_search in H. destruct ui.
    - set (rf := match refine with Some f => f | None => 1%nat end) in *.
      assert (H' : match ann R rid da deleted flt peek pop ef (k * rf) np me hf deltas with
                   | Ok cands =>
                       let refined := match refine with Some _ => true | None => false end in
                       let knn := if refined then flat_knn R rid d k cands else cands in
                       if fast then Ok (knn, refined)
                       else match fresh with
                            | [] => Ok (knn, refined)
                            | _ => Ok (flat_knn R rid d k (flat_knn R rid d k (filter (SEL hf) fresh) ++ knn), true)
                            end
                   | Err => Err | Panic => Panic end = Ok (rows, b)).
      { destruct refine as [[|n]|]; [discriminate | exact H | exact H]. }
      clear H. unfold ann in H'. destruct (seq_outcome _) as [ls| |]; try discriminate. cbv zeta in H'.
      assert (K : StronglySorted (fun x y => key_leb ((if match refine with Some _ => true | None => false end then d else da) x)
                                                     ((if match refine with Some _ => true | None => false end then d else da) y) = true)
                    (if match refine with Some _ => true | None => false end
                     then flat_knn R rid d k (topk_by R rid da (k * rf) (concat ls)) else topk_by R rid da (k * rf) (concat ls))).
      { destruct refine; [apply flat_knn_sorted | apply topk_by_sorted]. }
      destruct fast; [inversion H'; subst; exact K|].
      destruct fresh as [|f0 ft]; [inversion H'; subst; exact K|].
      inversion H'; subst. apply flat_knn_sorted.
    - inversion H; subst. clear H.
      apply (sorted_ext_in (d_live R d deleted) d); [|apply flat_knn_sorted].
      intros x Hx. apply flat_knn_incl in Hx. destruct Hx as [_ Hn].
      rewrite d_live_nonnull in Hn. apply andb_true_iff in Hn. destruct Hn as [Hd _]. apply negb_true_iff in Hd.
      unfold d_live. rewrite Hd. reflexivity.
  Qed.
End PipelineTheorems.

(* ---------------------------------------------------------------- Scanner::nearest level *)
Section SearchTheorems.
  Variable R : Type.
  Variable rid : R -> N.
  Variables d da : R -> key.
  Variables deleted flt : R -> bool.
  Variable peek : list R -> option R.
  Variable pop : list R -> list R.
  Hypothesis hok : heap_ok da peek pop.

  Notation fsearch := (search R rid d da deleted flt peek pop).
  Notation SEL := (sel R deleted flt).

  Lemma search_filter_respected : forall ef k refine np me hf pre fast ui deltas fresh rows b,
    (me = true -> forall x, In x (concat (concat deltas)) -> SEL (hf && pre) x = true) ->
    fsearch ef k refine np me hf pre fast ui deltas fresh = Ok (rows, b) ->
    forall r, In r rows ->
      deleted r = false /\ (hf = true -> flt r = true) /\ In r (concat (concat deltas) ++ fresh).
  Proof.
    intros ef k refine np me hf pre fast ui deltas fresh rows b Hme H r Hr. unfold search in H.
    destruct k as [|k']; [discriminate|]. destruct pre.
    - rewrite andb_true_r in Hme.
      destruct (vsearch_members R rid d da deleted flt peek pop hok _ _ _ _ _ _ _ _ _ _ _ _ H r Hr) as [[_ Hi]|(_ & Hin & Hd & Hp)].
      + destruct (idx_member_sel R deleted flt me hf np deltas r Hme Hi) as [Hin Hs].
        unfold sel in Hs. apply andb_true_iff in Hs. destruct Hs as [Hd Hp]. apply negb_true_iff in Hd.
        split; [exact Hd|split; [|apply in_or_app; left; exact Hin]].
        intros ->. cbn [negb orb] in Hp. exact Hp.
      + split; [exact Hd|split; [|apply in_or_app; right; exact Hin]].
        intros ->. unfold passes in Hp. cbn [negb orb] in Hp. exact Hp.
    - rewrite andb_false_r in Hme.
      destruct (vector_search R rid d da deleted flt peek pop ef (S k') refine np me false fast ui deltas fresh) as [[rows' b']| |] eqn:E; try discriminate.
      inversion H; subst rows b. clear H. apply filter_In in Hr. destruct Hr as [Hr Hp].
      assert (Hflt : hf = true -> flt r = true) by (intros ->; cbn [negb orb] in Hp; exact Hp).
      destruct (vsearch_members R rid d da deleted flt peek pop hok _ _ _ _ _ _ _ _ _ _ _ _ E r Hr) as [[_ Hi]|(_ & Hin & Hd & _)].
      + destruct (idx_member_sel R deleted flt me false np deltas r Hme Hi) as [Hin Hs].
        unfold sel in Hs. apply andb_true_iff in Hs. destruct Hs as [Hd _]. apply negb_true_iff in Hd.
        split; [exact Hd|split; [exact Hflt | apply in_or_app; left; exact Hin]].
      + split; [exact Hd|split; [exact Hflt | apply in_or_app; right; exact Hin]].
  Qed.

  Lemma search_sorted : forall ef k refine np me hf pre fast ui deltas fresh rows b,
    fsearch ef k refine np me hf pre fast ui deltas fresh = Ok (rows, b) ->
    StronglySorted (fun x y => key_leb ((if b then d else da) x) ((if b then d else da) y) = true) rows.
  Proof.
    intros ef k refine np me hf pre fast ui deltas fresh rows b H. unfold search in H.
    destruct k as [|k']; [discriminate|]. destruct pre.
    - eapply vsearch_sorted. exact H.
    - destruct (vector_search R rid d da deleted flt peek pop ef (S k') refine np me false fast ui deltas fresh) as [[rows' b']| |] eqn:E; try discriminate.
      inversion H; subst rows b. apply filter_sorted. eapply vsearch_sorted. exact E.
  Qed.

  Lemma idx_rows_full : forall me hf np deltas,
    (forall dl, In dl deltas -> (length dl <= np)%nat) ->
    idx_rows R deleted flt me hf np deltas = concat (map (visible R deleted flt me hf) (concat deltas)).
  Proof. intros me hf np deltas H. unfold idx_rows, probed. rewrite (concat_firstn_all np deltas H). reflexivity. Qed.

  (* the rows an exact prefiltered search must rank *)
  Definition eligible (me hf fast : bool) (deltas : list (list (list R))) (fresh : list R) : list R :=
    concat (map (visible R deleted flt me hf) (concat deltas)) ++ fresh_rows R d deleted flt hf fast fresh.

  Lemma search_exact_index : forall ef k refine np me hf fast deltas fresh rows b,
    refine <> Some 0%nat ->
    (forall dl, In dl deltas -> (length dl <= np)%nat) ->
    (forall r, In r (concat (concat deltas)) -> da r = d r /\ nonnull R d r = true) ->
    fsearch ef k refine np me hf true fast true deltas fresh = Ok (rows, b) ->
    is_topk key_leb d k (eligible me hf fast deltas fresh) rows.
  Proof.
    intros ef k refine np me hf fast deltas fresh rows b Hrf Hfull Hidx H. unfold search in H.
    destruct k as [|k']; [discriminate|]. unfold eligible. rewrite <- (idx_rows_full me hf np deltas Hfull).
    eapply vsearch_index_topk; [exact hok | exact Hrf | | exact H].
    intros r Hr. apply Hidx.
    assert (G : forall me', (me' = true -> False) \/ True) by (intros; right; exact I).
    clear G. unfold idx_rows in Hr. apply in_concat in Hr. destruct Hr as (vp & Hvp & Hr).
    apply in_map_iff in Hvp. destruct Hvp as (p & <- & Hp).
    unfold probed in Hp. apply in_concat in Hp. destruct Hp as (fd & Hfd & Hp).
    apply in_map_iff in Hfd. destruct Hfd as (dl & <- & Hdl). apply firstn_In' in Hp.
    apply in_concat. exists p. split; [apply in_concat; exists dl; split; assumption|].
    unfold visible in Hr. destruct me; [exact Hr | apply filter_In in Hr; apply Hr].
  Qed.

  Lemma search_exact_flat : forall ef k refine np me hf fast deltas fresh rows b,
    fsearch ef k refine np me hf true fast false deltas fresh = Ok (rows, b) ->
    b = true /\ is_topk key_leb d k (flat_rows R d deleted flt hf fresh) rows.
  Proof.
    intros ef k refine np me hf fast deltas fresh rows b H. unfold search in H.
    destruct k as [|k']; [discriminate|]. eapply vsearch_flat_topk. exact H.
  Qed.

  (* totality: the only failures are k = 0, refine_factor = 0 and a non-f32 IVF_FLAT index *)
  Lemma search_total : forall ef k refine np me hf pre fast ui deltas fresh,
    (0 < k)%nat -> refine <> Some 0%nat -> (ui = true -> ef = true) ->
    exists res, fsearch ef k refine np me hf pre fast ui deltas fresh = Ok res.
  Proof.
    intros ef k refine np me hf pre fast ui deltas fresh Hk Hrf Hef. unfold search.
    destruct k as [|k']; [lia|].
    assert (V : forall hf', exists res, vector_search R rid d da deleted flt peek pop ef (S k') refine np me hf' fast ui deltas fresh = Ok res).
    { intros hf'. unfold vector_search. destruct ui; [|eexists; reflexivity]. rewrite (Hef eq_refl).
      set (rf := match refine with Some f => f | None => 1%nat end).
      assert (Hrf1 : (1 <= rf)%nat) by (subst rf; destruct refine as [[|n]|]; [congruence | lia | lia]).
      assert (A : exists c, ann R rid da deleted flt peek pop true (S k' * rf) np me hf' deltas = Ok c).
      { unfold ann. destruct (seq_outcome_total (map (part_search R da peek pop true (S k' * rf) me (sel R deleted flt hf')) (concat (map (firstn np) deltas)))) as (ls & ->); [|eexists; reflexivity].
        intros o Ho. apply in_map_iff in Ho. destruct Ho as (p & <- & _). unfold part_search. cbn [negb].
        destruct me; apply (heap_loop_total R rid da peek pop hok); nia. }
      destruct A as (c & ->).
      destruct refine as [[|n]|]; [congruence | |]; (destruct fast; [eexists; reflexivity|]; destruct fresh; eexists; reflexivity). }
    destruct pre; [apply V|]. destruct (V false) as ([rows b] & ->). eexists; reflexivity.
  Qed.
End SearchTheorems.

(* ---------------------------------------------------------------- implementation order vs the order the property means *)
Lemma spec_leb_key_leb : forall a b, key_is_nan a = false -> key_is_nan b = false -> spec_leb a b = key_leb a b.
Proof. intros [x| |] [y| |] Ha Hb; cbn in *; try reflexivity; discriminate. Qed.

Lemma is_topk_spec {A} (kf : A -> key) k l s :
  (forall x, In x l -> key_is_nan (kf x) = false) -> is_topk key_leb kf k l s -> is_topk spec_leb kf k l s.
Proof.
  intros Hn (rest & HP & HL & HC). exists rest. split; [exact HP|split; [exact HL|]].
  intros x y Hx Hy. rewrite spec_leb_key_leb; [apply HC; assumption | |];
    apply Hn; (eapply Permutation_in; [symmetry; exact HP | apply in_or_app; auto]).
Qed.

(* sorted by key_leb and free of NaN = sorted by the order the property means *)
Lemma sorted_spec {A} (kf : A -> key) l :
  (forall x, In x l -> key_is_nan (kf x) = false) ->
  StronglySorted (fun x y => key_leb (kf x) (kf y) = true) l -> StronglySorted (fun x y => spec_leb (kf x) (kf y) = true) l.
Proof.
  intros Hn H. induction H as [|x t Ht IH Hx]; constructor.
  - apply IH. intros y Hy. apply Hn. right. exact Hy.
  - rewrite Forall_forall in *. intros y Hy. rewrite spec_leb_key_leb; [apply Hx, Hy | apply Hn; left; reflexivity | apply Hn; right; exact Hy].
Qed.

(* ---------------------------------------------------------------- the merge theorem on distance lists *)
Lemma isort_sorted_id : forall l, StronglySorted (fun a b => key_leb a b = true) l -> isort key_leb l = l.
Proof.
  intros l H. apply (sorted_perm_eq key_leb key_leb_antisym); [|exact H|].
  - apply isort_sorted; [apply key_leb_total | apply key_leb_trans].
  - apply isort_perm.
Qed.

Lemma map_sorted {A} (f : A -> key) l :
  StronglySorted (fun x y => key_leb (f x) (f y) = true) l -> StronglySorted (fun a b => key_leb a b = true) (map f l).
Proof.
  intros H. induction H as [|x t Ht IH Hx]; cbn [map]; constructor; [exact IH|].
  rewrite Forall_forall in *. intros b Hb. apply in_map_iff in Hb. destruct Hb as (y & <- & Hy). apply Hx, Hy.
Qed.

Section MergeTheorem.
  Variable R : Type.
  Variable rid : R -> N.
  Variable f : R -> key.

  (* any per-part top-k' selections (k <= k'), merged and re-ranked, carry the distances of the global top-k *)
  Lemma merge_any_keys : forall k k' parts sels, (k <= k')%nat ->
    Forall2 (fun p s => is_topk key_leb f k' p s) parts sels ->
    map f (topk_by R rid f k (concat sels)) = map f (topk_by R rid f k (concat parts)).
  Proof.
    intros k k' parts sels Hk F2.
    destruct (build_ts R f k' (fun p => p) parts sels F2) as (ts & E1 & E2 & HF). rewrite map_id in E1.
    assert (T1 : is_topk key_leb f k (concat parts) (topk_by R rid f k (concat sels))).
    { rewrite <- E1. apply (merge_is_topk key_leb key_leb_total key_leb_trans f k k' ts); [exact Hk | exact HF|].
      rewrite E2. apply topk_by_is_topk. }
    pose proof (topk_by_is_topk R rid f k (concat parts)) as T2.
    pose proof (is_topk_keys_unique key_leb key_leb_total key_leb_trans f key_leb_antisym k _ _ _ T1 T2) as E.
    rewrite !isort_sorted_id in E by (apply map_sorted, topk_by_sorted). exact E.
  Qed.

  Lemma merge_topk_keys : forall k parts,
    map f (topk_by R rid f k (concat (map (topk_by R rid f k) parts))) = map f (topk_by R rid f k (concat parts)).
  Proof.
    intros k parts. apply (merge_any_keys k k parts); [lia|].
    induction parts as [|p t IH]; cbn [map]; constructor; [apply topk_by_is_topk | exact IH].
  Qed.
End MergeTheorem.
