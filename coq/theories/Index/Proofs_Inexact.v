(* Proofs about Index/Model_Inexact.v (C20). *)
From LanceV Require Import Common.Base Index.Model_Inexact.
Local Open Scope N_scope.

(* ================================================================ the order *)
Lemma fle_refl a : fle a a = true.
Proof. destruct a; cbn [fle]; [apply Z.leb_refl | reflexivity]. Qed.
Lemma fle_trans a b c : fle a b = true -> fle b c = true -> fle a c = true.
Proof. destruct a, b, c; cbn [fle]; try reflexivity; try discriminate; intros; lia. Qed.
Lemma fle_total a b : fle a b = true \/ fle b a = true.
Proof. destruct a, b; cbn [fle]; try tauto. lia. Qed.
Lemma flt_fle_trans a b c : flt a b = true -> fle b c = true -> flt a c = true.
Proof.
  unfold flt. intros H1 H2. apply negb_true_iff in H1. apply negb_true_iff.
  destruct (fle c a) eqn:E; [|reflexivity]. rewrite (fle_trans _ _ _ H2 E) in H1. discriminate.
Qed.
Lemma fle_flt_trans a b c : fle a b = true -> flt b c = true -> flt a c = true.
Proof.
  unfold flt. intros H1 H2. apply negb_true_iff in H2. apply negb_true_iff.
  destruct (fle c a) eqn:E; [|reflexivity]. rewrite (fle_trans _ _ _ E H1) in H2. discriminate.
Qed.

(* ================================================================ zone statistics bound the zone's values *)
Lemma fold_omin_le vs : forall acc x,
  (In (Some x) vs \/ exists a, acc = Some a /\ fle a x = true) ->
  exists m, fold_left omin vs acc = Some m /\ fle m x = true.
Proof.
  induction vs as [|v tl IH]; intros acc x H; cbn [fold_left].
  - destruct H as [[]|[a [-> Ha]]]. exists a. split; [reflexivity | exact Ha].
  - apply IH. destruct H as [[->|Hin]|[a [-> Ha]]].
    + right. cbn [omin]. destruct acc as [a|]; [|exists x; split; [reflexivity | apply fle_refl]].
      destruct (fle a x) eqn:E; eexists; (split; [reflexivity|]); [exact E | apply fle_refl].
    + left. exact Hin.
    + right. destruct v as [y|]; cbn [omin]; [|exists a; split; [reflexivity | exact Ha]].
      destruct (fle a y) eqn:E; eexists; (split; [reflexivity|]); [exact Ha|].
      destruct (fle_total a y) as [C|C]; [congruence | exact (fle_trans _ _ _ C Ha)].
Qed.

Lemma fold_omax_ge vs : forall acc x,
  (In (Some x) vs \/ exists a, acc = Some a /\ fle x a = true) ->
  exists m, fold_left omax vs acc = Some m /\ fle x m = true.
Proof.
  induction vs as [|v tl IH]; intros acc x H; cbn [fold_left].
  - destruct H as [[]|[a [-> Ha]]]. exists a. split; [reflexivity | exact Ha].
  - apply IH. destruct H as [[->|Hin]|[a [-> Ha]]].
    + right. cbn [omax]. destruct acc as [a|]; [|exists x; split; [reflexivity | apply fle_refl]].
      destruct (fle a x) eqn:E; eexists; (split; [reflexivity|]); [apply fle_refl|].
      destruct (fle_total a x) as [C|C]; [congruence | exact C].
    + left. exact Hin.
    + right. destruct v as [y|]; cbn [omax]; [|exists a; split; [reflexivity | exact Ha]].
      destruct (fle a y) eqn:E; eexists; (split; [reflexivity|]); [exact (fle_trans _ _ _ Ha E) | exact Ha].
Qed.

Lemma count_if_pos {A} (f : A -> bool) l x : In x l -> f x = true -> 0 <? count_if f l = true.
Proof.
  intros Hin Hf. unfold count_if. apply N.ltb_lt.
  assert (In x (filter f l)) by (apply filter_In; split; assumption).
  destruct (filter f l); [contradiction | cbn [length]; lia].
Qed.

(* a zone whose statistics were computed from its rows is selected by every query one of its rows matches *)
Lemma eval_zone_sound frag start vs q v :
  In v vs -> zmatch q v = true -> eval_zone (mk_zone frag start vs) q = true.
Proof.
  intros Hin Hm.
  assert (Hmin : forall x, v = Some x -> exists m, z_min (mk_zone frag start vs) = Some m /\ fle m x = true).
  { intros x ->. cbn [mk_zone z_min]. apply fold_omin_le. left. exact Hin. }
  assert (Hmax : forall x, v = Some x -> exists m, z_max (mk_zone frag start vs) = Some m /\ fle x m = true).
  { intros x ->. cbn [mk_zone z_max]. apply fold_omax_ge. left. exact Hin. }
  assert (Hnull : v = None -> 0 <? z_nulls (mk_zone frag start vs) = true).
  { intros ->. cbn [mk_zone z_nulls]. exact (count_if_pos is_null vs None Hin eq_refl). }
  assert (Hnan : v = Some NaN -> 0 <? z_nans (mk_zone frag start vs) = true).
  { intros ->. cbn [mk_zone z_nans]. exact (count_if_pos is_nan vs (Some NaN) Hin eq_refl). }
  set (z := mk_zone frag start vs) in *.
  destruct q as [|t|lo hi|ts]; cbn [zmatch] in Hm.
  - (* IS NULL *) destruct v; [discriminate|]. cbn [eval_zone]. apply Hnull. reflexivity.
  - (* = t *) destruct t as [t|]; [|destruct v; discriminate]. destruct v as [x|]; [|discriminate].
    unfold feq in Hm. apply andb_true_iff in Hm as [H1 H2].
    destruct (Hmin x eq_refl) as [mn [Emn Hmn]]. destruct (Hmax x eq_refl) as [mx [Emx Hmx]].
    destruct t as [tz|].
    + cbn [eval_zone]. rewrite Emn. cbn [sle]. rewrite (fle_trans _ _ _ Hmn H1). cbn [andb].
      unfold max_is_nan. rewrite Emx. destruct mx; [|reflexivity]. cbn [sle]. exact (fle_trans _ _ _ H2 Hmx).
    + cbn [eval_zone]. apply Hnan. destruct x; [discriminate H2 | reflexivity].
  - (* range *) destruct v as [x|]; [|discriminate]. apply andb_true_iff in Hm as [Hlo Hhi].
    destruct (Hmin x eq_refl) as [mn [Emn Hmn]]. destruct (Hmax x eq_refl) as [mx [Emx Hmx]].
    assert (Hstart : match lo with
                     | ZUnb => true
                     | ZIncl s => if max_is_nan z then true else sle (Some s) (z_max z)
                     | ZExcl s => slt (Some s) (z_max z)
                     end = true).
    { destruct lo as [s|s|]; cbn [zabove] in Hlo; [| |reflexivity].
      - unfold max_is_nan. rewrite Emx. destruct mx; [|reflexivity]. cbn [sle]. exact (fle_trans _ _ _ Hlo Hmx).
      - unfold slt. rewrite Emx. cbn [sle]. exact (flt_fle_trans _ _ _ Hlo Hmx). }
    assert (Hend : match hi with
                   | ZUnb => true
                   | ZIncl e => sle (z_min z) (Some e)
                   | ZExcl e => slt (z_min z) (Some e)
                   end = true).
    { destruct hi as [e|e|]; cbn [zbelow] in Hhi; [| |reflexivity].
      - rewrite Emn. cbn [sle]. exact (fle_trans _ _ _ Hmn Hhi).
      - unfold slt. rewrite Emn. cbn [sle]. exact (fle_flt_trans _ _ _ Hmn Hhi). }
    cbn [eval_zone].
    destruct lo as [[sz|]|[sz|]|]; cbn [zabove] in Hlo.
    + destruct hi as [[ez|]|[ez|]|]; rewrite ?Hstart, ?Hend; try reflexivity. apply orb_true_r.
    + (* x >= NaN: x is NaN *) apply Hnan. destruct x; [discriminate Hlo | reflexivity].
    + destruct hi as [[ez|]|[ez|]|]; rewrite ?Hstart, ?Hend; try reflexivity. apply orb_true_r.
    + (* x > NaN: impossible *) exfalso. unfold flt in Hlo. destruct x; cbn [fle] in Hlo; discriminate.
    + destruct hi as [[ez|]|[ez|]|]; rewrite ?Hend; try reflexivity. apply orb_true_r.
  - (* IN *) destruct v as [x|]; [|discriminate]. cbn [eval_zone].
    apply existsb_exists in Hm as [t [Ht Hm]]. destruct t as [t|]; [|discriminate].
    unfold feq in Hm. apply andb_true_iff in Hm as [H1 H2].
    apply existsb_exists. exists (Some t). split; [exact Ht|].
    destruct (Hmin x eq_refl) as [mn [Emn Hmn]]. destruct (Hmax x eq_refl) as [mx [Emx Hmx]].
    destruct t as [tz|].
    + rewrite Emn, Emx. cbn [sle]. rewrite (fle_trans _ _ _ Hmn H1), (fle_trans _ _ _ H2 Hmx). reflexivity.
    + apply Hnan. destruct x; [discriminate H2 | reflexivity].
Qed.

Lemma nth_error_firstn_lt {A} (l : list A) : forall n i, (i < n)%nat -> nth_error (firstn n l) i = nth_error l i.
Proof.
  induction l as [|x tl IH]; intros [|n] [|i] H; cbn [firstn nth_error]; try reflexivity; try lia.
  apply IH. lia.
Qed.
Lemma nth_error_skipn_add {A} (l : list A) : forall n i, nth_error (skipn n l) i = nth_error l (n + i).
Proof.
  induction l as [|x tl IH]; intros [|n] i; cbn [skipn nth_error Nat.add]; try reflexivity.
  - destruct i; reflexivity.
  - apply IH.
Qed.

(* ---- every row of a fragment lies in exactly the zone its offset falls in *)
Lemma chunks_cover {A} (size : nat) : (0 < size)%nat -> forall fuel (vs : list A) start i x,
  (length vs <= fuel)%nat -> nth_error vs i = Some x ->
  exists st c j, In (st, c) (chunks fuel size start vs) /\ nth_error c j = Some x /\ st + N.of_nat j = start + N.of_nat i.
Proof.
  intros Hs. induction fuel as [|f IH]; intros vs start i x Hl Hn.
  - destruct vs; [destruct i; discriminate | cbn in Hl; lia].
  - destruct vs as [|v tl] eqn:Ev; [destruct i; discriminate|]. rewrite <- Ev in *. cbn [chunks]. rewrite Ev. rewrite <- Ev.
    destruct (Nat.lt_ge_cases i size) as [Hlt|Hge].
    + exists start, (firstn size vs), i. split; [left; reflexivity|]. split; [|reflexivity].
      rewrite nth_error_firstn_lt by exact Hlt. exact Hn.
    + destruct (IH (skipn size vs) (start + N.of_nat size) (i - size)%nat x) as [st [c [j [Hin [Hj Hst]]]]].
      * rewrite skipn_length. subst vs. cbn [length] in *. lia.
      * rewrite nth_error_skipn_add. replace (size + (i - size))%nat with i by lia. exact Hn.
      * exists st, c, j. split; [right; exact Hin|]. split; [exact Hj|]. lia.
Qed.

Lemma chunks_len {A} (size : nat) : forall fuel (vs : list A) start st c,
  In (st, c) (chunks fuel size start vs) -> (length c <= length vs)%nat.
Proof.
  induction fuel as [|f IH]; intros vs start st c Hin; [destruct Hin|].
  cbn [chunks] in Hin. destruct vs as [|v tl] eqn:Ev; [destruct Hin|]. rewrite <- Ev in *.
  destruct Hin as [[= <- <-]|Hin].
  - rewrite firstn_length. lia.
  - specialize (IH _ _ _ _ Hin). rewrite skipn_length in IH. lia.
Qed.

(* C20 for the zone map: the row at offset i of fragment f is in the answer whenever its value matches *)
Theorem zonemap_superset size frags q f vals i v :
  (0 < size)%nat -> In (f, vals) frags -> nth_error vals i = Some v -> zmatch q v = true ->
  In (f * two32N + N.of_nat i) (zm_search (build_zonemap size frags) q).
Proof.
  intros Hs Hf Hn Hm. unfold zm_search, build_zonemap.
  destruct (chunks_cover size Hs (length vals) vals 0 i v (Nat.le_refl _) Hn) as [st [c [j [Hin [Hj Hst]]]]].
  apply in_flat_map. exists (mk_zone f st c). split.
  - apply in_flat_map. exists (f, vals). split; [exact Hf|]. unfold zones_of_fragment. cbn [fst snd].
    apply in_map_iff. exists (st, c). split; [reflexivity | exact Hin].
  - rewrite (eval_zone_sound f st c q v (nth_error_In _ _ Hj) Hm).
    unfold zone_rows. cbn [mk_zone z_frag z_start z_len]. apply in_map_iff. exists j. split; [lia|].
    apply in_seq. rewrite Nat2N.id. assert (j < length c)%nat by (apply nth_error_Some; congruence). lia.
Qed.

(* ================================================================ bloom filter *)
Lemma mask_word_nonzero x s : mask_word x s <> 0.
Proof. unfold mask_word. intro H. apply N.shiftl_eq_0_iff in H. discriminate. Qed.

Lemma land_lor_keeps a b m : N.land a m <> 0 -> N.land (N.lor a b) m <> 0.
Proof. intros H E. rewrite N.land_lor_distr_l in E. apply N.lor_eq_0_iff in E. tauto. Qed.
Lemma land_lor_sets a m : m <> 0 -> N.land (N.lor a m) m <> 0.
Proof. intros H E. rewrite N.land_lor_distr_l, N.land_diag in E. apply N.lor_eq_0_iff in E. tauto. Qed.

(* generic over the two word lists (the block and the masks) *)
Lemma check_after_insert_same (b ms : list N) : length b = length ms -> Forall (fun m => m <> 0) ms ->
  forallb (fun p => negb (N.land (fst p) (snd p) =? 0)) (combine (map (fun p => N.lor (fst p) (snd p)) (combine b ms)) ms) = true.
Proof.
  revert ms. induction b as [|w tl IH]; intros [|m ms] Hl Hm; try reflexivity; try discriminate.
  cbn [combine map forallb fst snd]. inversion Hm; subst. rewrite IH by (try assumption; cbn in Hl; lia).
  rewrite andb_true_r. apply negb_true_iff. apply N.eqb_neq. apply land_lor_sets. assumption.
Qed.
Lemma check_after_insert_other (b ms ms' : list N) : length b = length ms -> length b = length ms' ->
  forallb (fun p => negb (N.land (fst p) (snd p) =? 0)) (combine b ms) = true ->
  forallb (fun p => negb (N.land (fst p) (snd p) =? 0)) (combine (map (fun p => N.lor (fst p) (snd p)) (combine b ms')) ms) = true.
Proof.
  revert ms ms'. induction b as [|w tl IH]; intros [|m ms] [|m' ms'] Hl Hl' H; try reflexivity; try discriminate.
  cbn [combine map forallb fst snd] in *. apply andb_true_iff in H as [H1 H2].
  rewrite (IH ms ms') by (try assumption; cbn in Hl, Hl'; lia). rewrite andb_true_r.
  apply negb_true_iff, N.eqb_neq. apply land_lor_keeps. apply negb_true_iff, N.eqb_neq in H1. exact H1.
Qed.

Definition block_wf (b : block) : Prop := length b = 8%nat.
Lemma mask_length x : length (mask x) = 8%nat. Proof. reflexivity. Qed.
Lemma mask_nonzero x : Forall (fun m => m <> 0) (mask x).
Proof. unfold mask. apply Forall_forall. intros m Hm. apply in_map_iff in Hm as [s [<- _]]. apply mask_word_nonzero. Qed.
Lemma block_insert_wf b h : block_wf b -> block_wf (block_insert b h).
Proof. unfold block_wf, block_insert. intro H. rewrite map_length, combine_length, H, mask_length. reflexivity. Qed.
Lemma block_check_insert_same b h : block_wf b -> block_check (block_insert b h) h = true.
Proof. intro H. apply check_after_insert_same; [rewrite H, mask_length; reflexivity | apply mask_nonzero]. Qed.
Lemma block_check_insert_other b h h' : block_wf b -> block_check b h = true -> block_check (block_insert b h') h = true.
Proof. intros H C. apply check_after_insert_other; try (rewrite H, mask_length; reflexivity). exact C. Qed.

Lemma upd_length {A} (f : A -> A) l : forall i, length (upd i f l) = length l.
Proof. induction l as [|x tl IH]; intros [|i]; cbn [upd length]; try reflexivity. rewrite IH. reflexivity. Qed.
Lemma nth_error_upd {A} (f : A -> A) l : forall i j,
  nth_error (upd i f l) j = if Nat.eqb i j then option_map f (nth_error l j) else nth_error l j.
Proof.
  induction l as [|x tl IH]; intros [|i] [|j]; cbn [upd nth_error Nat.eqb option_map]; try reflexivity.
  - destruct (Nat.eqb i j); reflexivity.
  - apply IH.
Qed.

Lemma block_index_lt n h : 0 < n -> h < two64 -> block_index n h < n.
Proof.
  intros Hn Hh. unfold block_index, sat_mul. rewrite !N.shiftr_div_pow2.
  assert (Hq : h / 2 ^ 32 < 2 ^ 32).
  { apply N.div_lt_upper_bound; [discriminate|]. change (2 ^ 32 * 2 ^ 32) with two64. exact Hh. }
  apply N.div_lt_upper_bound; [discriminate|].
  eapply N.le_lt_trans; [apply N.le_min_l|]. nia.
Qed.

Definition sbbf_wf (f : sbbf) : Prop := Forall block_wf f /\ (0 < length f)%nat.

Lemma sbbf_insert_wf f h : sbbf_wf f -> sbbf_wf (sbbf_insert f h).
Proof.
  intros [Hb Hl]. unfold sbbf_insert. split; [|rewrite upd_length; exact Hl].
  apply Forall_forall. intros b Hin. apply In_nth_error in Hin as [j Hj]. rewrite nth_error_upd in Hj.
  rewrite Forall_forall in Hb.
  destruct (Nat.eqb _ j).
  - destruct (nth_error f j) as [b0|] eqn:E; [|discriminate]. injection Hj as <-. apply block_insert_wf. apply Hb. exact (nth_error_In _ _ E).
  - apply Hb. exact (nth_error_In _ _ Hj).
Qed.

(* inserting never clears a positive answer, and makes the inserted hash positive *)
Lemma sbbf_check_monotone f h x : sbbf_wf f -> sbbf_check f x = true -> sbbf_check (sbbf_insert f h) x = true.
Proof.
  intros [Hb Hl]. unfold sbbf_check, sbbf_insert. rewrite upd_length, nth_error_upd.
  destruct (nth_error f (N.to_nat (block_index (N.of_nat (length f)) x))) as [b|] eqn:E; [|discriminate].
  intro C. destruct (Nat.eqb _ _); cbn [option_map]; [|exact C].
  apply block_check_insert_other; [|exact C]. rewrite Forall_forall in Hb. apply Hb. exact (nth_error_In _ _ E).
Qed.
Lemma sbbf_check_inserted f h : sbbf_wf f -> h < two64 -> sbbf_check (sbbf_insert f h) h = true.
Proof.
  intros [Hb Hl] Hh. unfold sbbf_check, sbbf_insert. rewrite upd_length, nth_error_upd, Nat.eqb_refl.
  assert (Hi : (N.to_nat (block_index (N.of_nat (length f)) h) < length f)%nat).
  { pose proof (block_index_lt (N.of_nat (length f)) h) as X. lia. }
  destruct (nth_error f _) as [b|] eqn:E; [|apply nth_error_None in E; lia]. cbn [option_map].
  apply block_check_insert_same. rewrite Forall_forall in Hb. apply Hb. exact (nth_error_In _ _ E).
Qed.

Theorem bloom_no_false_negative hs : forall f x, sbbf_wf f -> Forall (fun h => h < two64) hs ->
  (In x hs \/ sbbf_check f x = true) -> sbbf_check (fold_left sbbf_insert hs f) x = true.
Proof.
  induction hs as [|h tl IH]; intros f x Hw Hlt H; cbn [fold_left].
  - destruct H as [[]|H]. exact H.
  - inversion Hlt as [|? ? Hh Htl]; subst. apply IH; [apply sbbf_insert_wf; exact Hw | exact Htl |].
    destruct H as [[->|Hin]|Hc].
    + right. apply sbbf_check_inserted; assumption.
    + left. exact Hin.
    + right. apply sbbf_check_monotone; assumption.
Qed.

(* ================================================================ n-gram *)
Lemma windows3_cons x l w : In w (windows3 l) -> In w (windows3 (x :: l)).
Proof. destruct l as [|a [|b tl]]; cbn [windows3]; try contradiction. intro H. right. exact H. Qed.
Lemma windows3_app_r s q w : In w (windows3 s) -> In w (windows3 (s ++ q)).
Proof.
  revert w. induction s as [|a tl IH]; intros w; [intros []|].
  destruct tl as [|b [|c t2]]; try solve [intros []].
  cbn [windows3 app]. intros [<-|H]; [left; reflexivity|]. right. exact (IH w H).
Qed.
Lemma windows3_app_l p s w : In w (windows3 s) -> In w (windows3 (p ++ s)).
Proof. induction p as [|x tl IH]; intro H; [exact H|]. cbn [app]. apply windows3_cons. exact (IH H). Qed.

Lemma gram_eqb_refl g : gram_eqb g g = true.
Proof. unfold gram_eqb. apply list_eqb_eq; [intros; apply N.eqb_eq | reflexivity]. Qed.

Lemma inter_all_spec ls x : ls <> [] -> (forall l, In l ls -> In x l) -> In x (inter_all ls).
Proof.
  induction ls as [|l tl IH]; intros Hne H; [congruence|]. cbn [inter_all].
  destruct tl as [|l2 t2]; [apply H; left; reflexivity|].
  apply filter_In. split; [apply H; left; reflexivity|]. apply existsb_exists. exists x. split; [|apply N.eqb_refl].
  apply IH; [discriminate|]. intros l0 Hl0. apply H. right. exact Hl0.
Qed.

Section NGramProofs.
  Variable norm : list N -> list N.
  Variable keep : list N -> bool.
  Variable blen : N -> N.
  (* the normaliser works character by character *)
  Hypothesis norm_app : forall a b, norm (a ++ b) = norm a ++ norm b.

  Lemma grams_substring p s q g : In g (grams norm keep s) -> In g (grams norm keep (p ++ s ++ q)).
  Proof.
    unfold grams. intro H. apply filter_In in H as [H1 H2]. apply filter_In. split; [|exact H2].
    rewrite !norm_app. apply windows3_app_l, windows3_app_r. exact H1.
  Qed.

  Theorem ngram_superset docs rid p s q :
    In (rid, p ++ s ++ q) docs ->
    Known_C20_ngram_no_trigram_query norm keep blen s = false ->
    let r := ngram_search norm keep blen docs s in
    match fst r with
    | NAtLeast => True                 (* "we know nothing": every row is rechecked *)
    | NExact | NAtMost => In rid (snd r)
    end.
  Proof.
    intros Hd Hk. unfold ngram_search, Known_C20_ngram_no_trigram_query in *.
    destruct (byte_len blen s <? 3) eqn:Eb; [exact I|].
    assert (Hge : 3 <=? byte_len blen s = true) by (apply N.leb_le; apply N.ltb_ge in Eb; exact Eb).
    rewrite Hge in Hk. cbn [andb] in Hk.
    assert (Hpost : forall g, In g (grams norm keep s) -> In rid (posting norm keep docs g)).
    { intros g Hg. unfold posting. apply in_map_iff. exists (rid, p ++ s ++ q). split; [reflexivity|].
      apply filter_In. split; [exact Hd|]. cbn [snd]. apply existsb_exists. exists g.
      split; [apply grams_substring; exact Hg | apply gram_eqb_refl]. }
    destruct (existsb _ (grams norm keep s)) eqn:Em.
    - exfalso. apply existsb_exists in Em as [g [Hg He]]. specialize (Hpost g Hg).
      destruct (posting norm keep docs g); [contradiction | discriminate].
    - cbn [fst snd]. apply inter_all_spec.
      + destruct (grams norm keep s); [discriminate Hk | discriminate].
      + intros l Hl. apply in_map_iff in Hl as [g [<- Hg]]. exact (Hpost g Hg).
  Qed.
End NGramProofs.

Lemma norm_ascii_app a b : norm_ascii (a ++ b) = norm_ascii a ++ norm_ascii b.
Proof. apply map_app. Qed.
