(* C22 - vector search: top-k selection, per-partition search, merge, refine, prefilter, unindexed rows.
   Executable definitions only (proofs are in Proofs_TopK.v).

   What is transcribed (branch for branch):
     FlatIndex::search                (rust/lance-index/src/vector/flat/index.rs)  -> heap_loop / part_search
        a BinaryHeap<OrderedNode> of capacity k: push while len < k, otherwise replace the maximum when
        the new distance is STRICTLY smaller; `res.peek().unwrap()` panics on an empty heap (k = 0);
        prefilter.is_empty() ? all rows : the rows selected by the mask.
     IVFIndex::search_in_partition    (rust/lance/src/index/vector/ivf/v2.rs)      -> k_eff = k * refine_factor
     ANNIvfSubIndexExec (initial search with minimum_nprobes = maximum_nprobes)    -> ann: the probed partitions
        of every delta index, one batch each;  Scanner::ann: SortExec[_distance, _rowid] fetch k*refine_factor
     Scanner::flat_knn                (rust/lance/src/dataset/scanner.rs)          -> flat_knn: recompute the distance
        from the stored vector, SortExec[_distance asc nulls last, _rowid] fetch k, then `_distance IS NOT NULL`
     Scanner::vector_search           index arm: refine = take the vector + flat_knn; knn_combined unless fast_search
                                      no-index arm: filtered read with deleted rows made NULL + flat_knn
     Scanner::knn_combined            flat_knn over (flat_knn over the filtered unindexed fragments) UNION (index result)
     DatasetPreFilter                 mask = not deleted AND (no filter OR row passes the filter)
     Scanner::vector_search_source    prefilter ? filter inside the search : filter applied after the search
     Scanner::nearest                 k = 0 -> Err;  vector_search: refine_factor = Some(0) with an index -> Err

   What is NOT modelled (runtime / numeric, see the e2e oracle): the float distance kernels (C35), the IVF
   partition assignment and centroid ranking (the partitions arrive here in probe order), the late search
   (minimum_nprobes < maximum_nprobes), range queries (lower/upper bound), multivector columns, PQ/SQ/HNSW
   sub-indices (only their contract `da` = the distance the sub-index reports).

   A distance is a `key`: an exact number, NaN, or NULL (null vector, or a deleted row of a
   make_deletions_null scan; sorts last and is dropped by `_distance IS NOT NULL`).
   NaN is the value the cosine kernel produces for a zero vector, 1 - 0/0: on x86-64 the default NaN has
   its SIGN BIT SET, and both comparisons involved (f32::total_cmp in OrderedFloat, the row-format
   comparison of DataFusion's SortExec/TopK) order a negative NaN BELOW every number.  key_leb is that
   implementation order (tied to the code by the `search` stream on the cosine `axis` tables);
   spec_leb is the order the property means: an undefined distance is never nearer than a defined one. *)
From LanceV Require Import Common.Base.
Local Open Scope N_scope.

Inductive key : Type := KNum (z : Z) | KNaN | KNull.

Definition key_leb (a b : key) : bool :=
  match a, b with
  | KNaN, _ => true
  | KNum _, KNaN => false
  | KNum x, KNum y => (x <=? y)%Z
  | KNum _, KNull => true
  | KNull, KNull => true
  | KNull, _ => false
  end.
Definition spec_leb (a b : key) : bool :=
  match a, b with
  | KNum x, KNum y => (x <=? y)%Z
  | KNum _, _ => true
  | KNaN, KNum _ => false
  | KNaN, _ => true
  | KNull, KNull => true
  | KNull, _ => false
  end.
Definition key_is_nan (a : key) : bool := match a with KNaN => true | _ => false end.
Definition key_eqb (a b : key) : bool :=
  match a, b with
  | KNum x, KNum y => (x =? y)%Z
  | KNaN, KNaN => true
  | KNull, KNull => true
  | _, _ => false
  end.
Definition key_ltb (a b : key) : bool := negb (key_leb b a).
Definition key_is_null (a : key) : bool := match a with KNull => true | _ => false end.

(* ---------------------------------------------------------------- sorting (SortExec) *)
Section Sort.
  Context {A : Type}.
  Variable leb : A -> A -> bool.
  Fixpoint insert (x : A) (l : list A) : list A :=
    match l with
    | [] => [x]
    | y :: t => if leb x y then x :: l else y :: insert x t
    end.
  Fixpoint isort (l : list A) : list A :=
    match l with
    | [] => []
    | x :: t => insert x (isort t)
    end.
End Sort.

Fixpoint seq_outcome {A} (l : list (outcome A)) : outcome (list A) :=
  match l with
  | [] => Ok []
  | Ok a :: t => match seq_outcome t with Ok r => Ok (a :: r) | Err => Err | Panic => Panic end
  | Err :: _ => Err
  | Panic :: _ => Panic
  end.

(* ---------------------------------------------------------------- the search pipeline *)
Section Search.
  Variable R : Type.              (* a row *)
  Variable rid : R -> N.          (* its row id *)
  Variable d : R -> key.          (* distance of the stored vector to the query, exact *)
  Variable da : R -> key.         (* distance reported by the index sub-search (IVF_FLAT: the same number) *)
  Variable deleted : R -> bool.
  Variable flt : R -> bool.       (* the scalar predicate of the query *)

  (* SortExec [ _distance ASC NULLS LAST, _rowid ASC ] *)
  Definition row_leb (f : R -> key) (x y : R) : bool :=
    key_ltb (f x) (f y) || (key_eqb (f x) (f y) && (rid x <=? rid y)).
  Definition topk_by (f : R -> key) (k : nat) (l : list R) : list R := firstn k (isort (row_leb f) l).

  (* std BinaryHeap<OrderedNode>, ordered by distance only: `peek` = a maximum, `pop` removes it.  Which of
     several equal maxima is removed is the library's business: the theorems hold for every peek/pop
     meeting `heap_ok` (Proofs_TopK.v); peek_max/pop_max is the instance used for evaluation. *)
  Section Heap.
    Variable peek : list R -> option R.
    Variable pop : list R -> list R.
    Fixpoint heap_loop (k : nat) (res : list R) (rows : list R) : outcome (list R) :=
      match rows with
      | [] => Ok res
      | r :: t =>
          if (length res <? k)%nat then heap_loop k (r :: res) t
          else match peek res with
               | None => Panic                                   (* res.peek().unwrap() *)
               | Some m => if key_ltb (da r) (da m) then heap_loop k (r :: pop res) t
                           else heap_loop k res t
               end
      end.
    (* FlatIndex::search (no range query).  FlatFloatStorage::dist_calculator -> FlatDistanceCal::<Float32Type>::new
       does `as_primitive::<Float32Type>()` on the stored vectors and on the query: a panic for a Float16 /
       Float64 column (`elem_f32 = false`; for Float16 the partition's storage does not even decode). *)
    Definition part_search (elem_f32 : bool) (keff : nat) (mask_empty : bool) (sel : R -> bool) (part : list R) : outcome (list R) :=
      if negb elem_f32 then Panic
      else if mask_empty then heap_loop keff [] part
      else heap_loop keff [] (filter sel part).
  End Heap.

  Fixpoint peek_max (h : list R) : option R :=
    match h with
    | [] => None
    | x :: t => match peek_max t with
                | None => Some x
                | Some m => if key_ltb (da m) (da x) then Some x else Some m
                end
    end.
  Fixpoint remove_first (x : R) (h : list R) : list R :=
    match h with
    | [] => []
    | y :: t => if (rid x =? rid y) && key_eqb (da x) (da y) then t else y :: remove_first x t
    end.
  Definition pop_max (h : list R) : list R :=
    match peek_max h with None => [] | Some m => remove_first m h end.

  (* DatasetPreFilter: deletion block list AND filter allow list *)
  Definition sel (has_filter : bool) (r : R) : bool := negb (deleted r) && (negb has_filter || flt r).

  Section Pipeline.
    Variable peek : list R -> option R.
    Variable pop : list R -> list R.

    (* ANNIvfSubIndexExec with minimum_nprobes = maximum_nprobes = nprobes, then Scanner::ann's SortExec.
       `deltas`: for every delta index its partitions in probe order (closest centroid first). *)
    Definition ann (elem_f32 : bool) (keff nprobes : nat) (mask_empty has_filter : bool) (deltas : list (list (list R))) : outcome (list R) :=
      match seq_outcome (map (part_search peek pop elem_f32 keff mask_empty (sel has_filter))
                             (concat (map (firstn nprobes) deltas))) with
      | Ok ls => Ok (topk_by da keff (concat ls))
      | Err => Err
      | Panic => Panic
      end.

    (* Scanner::flat_knn over rows whose recomputed distance is f *)
    Definition flat_knn (f : R -> key) (k : nat) (rows : list R) : list R :=
      filter (fun r => negb (key_is_null (f r))) (topk_by f k rows).

    (* the distance of a make_deletions_null scan: deleted rows have a NULL _rowid, hence a NULL distance *)
    Definition d_live (r : R) : key := if deleted r then KNull else d r.

    (* Scanner::vector_search.  Result: the rows in output order and whether the reported `_distance` is the
       recomputed one (true: d) or the sub-index's (false: da). *)
    Definition vector_search (elem_f32 : bool) (k : nat) (refine : option nat) (nprobes : nat) (mask_empty has_filter fast use_index : bool)
               (deltas : list (list (list R))) (fresh : list R) : outcome (list R * bool) :=
      if use_index then
        match refine with
        | Some O => Err
        | _ =>
            let rf := match refine with Some f => f | None => 1%nat end in
            match ann elem_f32 (k * rf) nprobes mask_empty has_filter deltas with
            | Ok cands =>
                let refined := match refine with Some _ => true | None => false end in
                let knn := if refined then flat_knn d k cands else cands in
                if fast then Ok (knn, refined)
                else match fresh with
                     | [] => Ok (knn, refined)
                     | _ => Ok (flat_knn d k (flat_knn d k (filter (sel has_filter) fresh) ++ knn), true)
                     end
            | Err => Err
            | Panic => Panic
            end
        end
      else
        Ok (flat_knn d_live k (filter (fun r => negb has_filter || flt r) fresh), true).

    (* Scanner::nearest + vector_search_source: prefilter inside, postfilter after. *)
    Definition search (elem_f32 : bool) (k : nat) (refine : option nat) (nprobes : nat) (mask_empty has_filter prefilter fast use_index : bool)
               (deltas : list (list (list R))) (fresh : list R) : outcome (list R * bool) :=
      match k with
      | O => Err
      | _ =>
          if prefilter then vector_search elem_f32 k refine nprobes mask_empty has_filter fast use_index deltas fresh
          else match vector_search elem_f32 k refine nprobes mask_empty false fast use_index deltas fresh with
               | Ok (rows, recomputed) => Ok (filter (fun r => negb has_filter || flt r) rows, recomputed)
               | Err => Err
               | Panic => Panic
               end
      end.
  End Pipeline.

  (* ---- post-filtered searches and ties.
     With prefilter = false the filter is applied AFTER the top-k cut.  When several rows tie at the k-th distance,
     which of them survive the cut is decided by the library heap (`pop` removes SOME maximum) and by the real
     `_rowid` order of SortExec - neither is fixed by this model (the theorems quantify over every heap_ok
     heap).  The distance list BEFORE the filter is the same for every tie-break (C22_merge_topk_any), the list
     AFTER it is not: it depends on how many of the tied rows kept pass the filter.  `adm_post` is the exact
     envelope: the key lists `map d (filter flt S)` of the sorted top-k selections S of the ranked rows U
     (Proofs_TopK.adm_post_sound / search_post_admissible). *)
  Definition nonnull_d (r : R) : bool := negb (key_is_null (d r)).
  (* the rows a search ranks (before any post-filter): visible rows of the probed partitions plus, unless
     fast_search, the live filtered non-null unindexed rows; without an index the live filtered non-null rows *)
  Definition universe (nprobes : nat) (mask_empty has_filter fast use_index : bool)
             (deltas : list (list (list R))) (fresh : list R) : list R :=
    if use_index then
      concat (map (fun p => if mask_empty then p else filter (sel has_filter) p) (concat (map (firstn nprobes) deltas)))
      ++ (if fast then [] else filter nonnull_d (filter (sel has_filter) fresh))
    else filter (fun r => negb (deleted r) && nonnull_d r) (filter (fun r => negb has_filter || flt r) fresh).

  Definition count_if (p : R -> bool) (l : list R) : nat := length (filter p l).

  Definition adm_post (k : nat) (U : list R) (gk : list key) : bool :=
    if (length U <=? k)%nat then list_eqb key_eqb gk (isort key_leb (map d (filter flt U)))
    else match k with
         | O => list_eqb key_eqb gk []
         | S k' =>
             match nth_error (isort key_leb (map d U)) k' with
             | None => false
             | Some c =>
                 let need := (k - count_if (fun r => key_ltb (d r) c) U)%nat in
                 let tp := count_if (fun r => key_eqb (d r) c && flt r) U in
                 let tn := count_if (fun r => key_eqb (d r) c && negb (flt r)) U in
                 let LF := isort key_leb (map d (filter (fun r => key_ltb (d r) c) (filter flt U))) in
                 let m := (length gk - length LF)%nat in
                 list_eqb key_eqb gk (LF ++ repeat c m) && (need - tn <=? m)%nat && (m <=? Nat.min need tp)%nat
             end
         end.
End Search.

(* ---------------------------------------------------------------- correspondence checkers *)
(* a recorded row: id, exact distance, deleted?, passes the filter? *)
Definition crow : Type := (N * (key * (bool * bool)))%type.
Definition c_id (r : crow) : N := fst r.
Definition c_d (r : crow) : key := fst (snd r).
Definition c_del (r : crow) : bool := fst (snd (snd r)).
Definition c_flt (r : crow) : bool := snd (snd (snd r)).

Definition key_list_eqb (a b : list key) : bool := list_eqb key_eqb a b.

Fixpoint nodup_ids (l : list N) : bool :=
  match l with
  | [] => true
  | x :: t => negb (existsb (N.eqb x) t) && nodup_ids t
  end.

Fixpoint find_row (i : N) (l : list crow) : option crow :=
  match l with
  | [] => None
  | r :: t => if c_id r =? i then Some r else find_row i t
  end.

(* stream `part`: IVFIndex::search_in_partition on one partition.
   input (k_eff, prefilter.is_empty(), the partition's rows in storage order); output the returned
   (row id, distance) pairs in any order.  Agreement: same distances as the model's heap (as a sorted list),
   distinct ids, every pair is a selected row of the partition with its own distance. *)
Definition chk_part (i : nat * bool * list crow) (o : outcome (list (N * key))) : bool :=
  let '(keff, mask_empty, part) := i in
  let m := part_search crow c_d (peek_max crow c_d) (pop_max crow c_id c_d) true keff mask_empty (sel crow c_del c_flt true) part in
  match m, o with
  | Ok rows, Ok got =>
      key_list_eqb (isort key_leb (map c_d rows)) (isort key_leb (map snd got))
      && nodup_ids (map fst got)
      && forallb (fun g => match find_row (fst g) part with
                           | Some r => (mask_empty || sel crow c_del c_flt true r) && key_eqb (c_d r) (snd g)
                           | None => false
                           end) got
  | Err, Err => true
  | Panic, Panic => true
  | _, _ => false
  end.

(* stream `merge`: the ANN node of the scanner (no refine, no unindexed rows, every partition probed) against
   the per-partition candidate lists exported from the real index: same distances in the same order. *)
Definition chk_merge (i : nat * list (list (N * key))) (o : list (N * key)) : bool :=
  let '(keff, lists) := i in
  let cand := concat lists in
  key_list_eqb (map snd (topk_by (N * key) fst snd keff cand)) (map snd o)
  && nodup_ids (map fst o)
  && forallb (fun g => existsb (fun c => (fst c =? fst g) && key_eqb (snd c) (snd g)) cand) o.

(* stream `search`: Scanner::nearest end to end.
   input ((k, refine, nprobes), (mask_empty, has_filter, prefilter, fast, use_index, elem_f32), deltas (partitions in probe
   order), fresh rows (no-index arm: all rows)); output (id, reported distance) in output order.
   Agreement: ids are distinct; every returned row is a row of the input, not deleted, passes the filter, and
   carries its own distance; and
     - prefilter or no filter: the reported distances are, in order, the model's (the same for every tie-break);
     - post-filter: the reported distances are, in order, those of the post-filter of SOME sorted top-k selection
       of the ranked rows (adm_post; ties at the k-th distance are the heap's / the row-id order's business), and
       every returned row is a ranked row. *)
Definition chk_search (i : (nat * option nat * nat) * (bool * bool * bool * bool * bool * bool) * list (list (list crow)) * list crow)
           (o : outcome (list (N * key))) : bool :=
  let '(knp, flags, deltas, fresh) := i in
  let '(k, refine, nprobes) := knp in
  let '(mask_empty, has_filter, prefilter, fast, use_index, elem_f32) := flags in
  let m := search crow c_id c_d c_d c_del c_flt (peek_max crow c_d) (pop_max crow c_id c_d)
                  elem_f32 k refine nprobes mask_empty has_filter prefilter fast use_index deltas fresh in
  let all := concat (concat deltas) ++ fresh in
  let post := has_filter && negb prefilter in
  let U := universe crow c_d c_del c_flt nprobes mask_empty false fast use_index deltas fresh in
  match m, o with
  | Ok (rows, _), Ok got =>
      (if post then adm_post crow c_d c_flt k U (map snd got) else key_list_eqb (map c_d rows) (map snd got))
      && nodup_ids (map fst got)
      && forallb (fun g => match find_row (fst g) (if post then U else all) with
                           | Some r => negb (c_del r) && (negb has_filter || c_flt r) && key_eqb (c_d r) (snd g)
                           | None => false
                           end) got
  | Err, Err => true
  | Panic, Panic => true
  | _, _ => false
  end.
