(* C23 - proofs about Index/Model_Fts.v. *)
From LanceV Require Import Common.Base Index.Model_Fts.
From Coq Require Import Sorted.
Local Open Scope Z_scope.

(* ---------------------------------------------------------------- positions *)
Lemma positions_ge : forall t d i p, In p (positions_of t d i) -> i <= p.
Proof.
  intros t d. induction d as [|x d IH]; intros i p H; cbn [positions_of] in H; [destruct H|].
  destruct (N.eqb x t); [destruct H as [<-|H]; [lia|]|]; apply IH in H; lia.
Qed.

Lemma positions_sorted : forall t d i, StronglySorted Z.lt (positions_of t d i).
Proof.
  intros t d. induction d as [|x d IH]; intros i; cbn [positions_of]; [constructor|].
  destruct (N.eqb x t); [|apply IH]. constructor; [apply IH|].
  apply Forall_forall. intros p Hp. apply positions_ge in Hp. lia.
Qed.

Lemma positions_nonempty_mem : forall t d i, mem t d = true <-> positions_of t d i <> [].
Proof.
  intros t d. induction d as [|x d IH]; intros i; cbn [positions_of mem existsb]; [split; [discriminate | congruence]|].
  rewrite (N.eqb_sym t x). destruct (N.eqb x t); cbn [orb]; [split; [discriminate | reflexivity]|]. apply IH.
Qed.

(* head position <-> first token *)
Lemma positions_head : forall t d i, In i (positions_of t d i) <-> match d with x :: _ => x = t | [] => False end.
Proof.
  intros t [|x d] i; cbn [positions_of]; [tauto|].
  destruct (N.eqb_spec x t) as [E|E]; split; intro H; try assumption; try (left; reflexivity); try contradiction.
  apply positions_ge in H. lia.
Qed.

(* the phrase [a; b] occurs at consecutive positions *)
Lemma has_sublist_two : forall a b d i,
  has_sublist [a; b] d = true <-> exists p, In p (positions_of a d i) /\ In (p + 1) (positions_of b d i).
Proof.
  intros a b d. induction d as [|x d IH]; intros i.
  - cbn. split; [discriminate | intros (p & [] & _)].
  - cbn [has_sublist]. rewrite orb_true_iff. rewrite (IH (i + 1)). split.
    + intros [H|(p & H1 & H2)].
      * cbn [is_prefix] in H. apply andb_true_iff in H. destruct H as [Ha H]. apply N.eqb_eq in Ha. subst x.
        destruct d as [|y d']; [discriminate|]. apply andb_true_iff in H. destruct H as [Hb _]. apply N.eqb_eq in Hb. subst y.
        exists i. split.
        -- cbn [positions_of]. rewrite N.eqb_refl. left. reflexivity.
        -- cbn [positions_of]. destruct (N.eqb a b); [right|]; rewrite N.eqb_refl; left; reflexivity.
      * exists p. cbn [positions_of]. split; [destruct (N.eqb x a); [right|]; exact H1 | destruct (N.eqb x b); [right|]; exact H2].
    + intros (p & H1 & H2). cbn [positions_of] in H1, H2.
      assert (Hp1 : i + 1 <= p + 1 -> In (p + 1) (positions_of b d (i + 1))).
      { intros _. destruct (N.eqb x b); [destruct H2 as [E|H2]; [pose proof (positions_ge a (x :: d) i p) as G; cbn [positions_of] in G; specialize (G H1); lia | exact H2] | exact H2]. }
      destruct (N.eqb_spec x a) as [Ea|Ea].
      * destruct H1 as [<-|H1].
        -- left. cbn [is_prefix]. subst x. rewrite N.eqb_refl. cbn [andb].
           assert (G : In (i + 1) (positions_of b d (i + 1))) by (apply Hp1; lia).
           apply positions_head in G. destruct d as [|y d']; [destruct G|]. subst y. rewrite N.eqb_refl. reflexivity.
        -- right. exists p. split; [exact H1|]. apply Hp1. apply positions_ge in H1. lia.
      * right. exists p. split; [exact H1|]. apply Hp1. apply positions_ge in H1. lia.
Qed.

(* ---------------------------------------------------------------- drop_lt = partition_point on a sorted array *)
Lemma drop_lt_keeps : forall b l x, In x l -> b <= x -> In x (drop_lt b l).
Proof.
  intros b l. induction l as [|p l IH]; intros x Hin Hb; [destruct Hin|]. cbn [drop_lt].
  destruct (Z.ltb_spec p b); [|exact Hin]. destruct Hin as [->|Hin]; [lia | apply IH; assumption].
Qed.

Lemma drop_lt_incl : forall b l x, In x (drop_lt b l) -> In x l.
Proof.
  intros b l. induction l as [|p l IH]; intros x H; cbn [drop_lt] in H; [destruct H|].
  destruct (p <? b); [right; apply IH, H | exact H].
Qed.

Lemma drop_lt_head : forall b l h t, StronglySorted Z.lt l -> drop_lt b l = h :: t ->
  b <= h /\ In h l /\ forall x, In x l -> b <= x -> h <= x.
Proof.
  intros b l h t HS. induction HS as [|p l Hl IH Hp]; intros H; cbn [drop_lt] in H; [discriminate|].
  destruct (Z.ltb_spec p b) as [Lt|Ge].
  - destruct (IH H) as (H1 & H2 & H3). split; [exact H1|split; [right; exact H2|]].
    intros x [->|Hx] Hb; [lia | apply H3; assumption].
  - inversion H; subst. split; [exact Ge|split; [left; reflexivity|]].
    intros x [->|Hx] _; [lia|]. rewrite Forall_forall in Hp. specialize (Hp x Hx). lia.
Qed.

Lemma drop_lt_length_mono : forall b b' l, StronglySorted Z.lt l -> b <= b' ->
  (length (drop_lt b' l) <= length (drop_lt b l))%nat.
Proof.
  intros b b' l HS Hb. induction HS as [|p l Hl IH Hp]; cbn [drop_lt]; [lia|].
  destruct (Z.ltb_spec p b), (Z.ltb_spec p b'); cbn [length]; try lia.
  assert (forall c, (length (drop_lt c l) <= length l)%nat).
  { intros c. clear. induction l as [|q l IH]; cbn [drop_lt length]; [lia|]. destruct (q <? c); cbn [length]; lia. }
  specialize (H1 b'). lia.
Qed.

Lemma drop_lt_length_strict : forall b b' l h t, StronglySorted Z.lt l -> drop_lt b l = h :: t -> h < b' ->
  (length (drop_lt b' l) < length (drop_lt b l))%nat.
Proof.
  intros b b' l h t HS. induction HS as [|p l Hl IH Hp]; intros H Hh; cbn [drop_lt] in *; [discriminate|].
  destruct (Z.ltb_spec p b) as [Lt|Ge].
  - destruct (Z.ltb_spec p b'); [apply IH; assumption|].
    destruct (drop_lt_head b l h t Hl H) as (_ & Hin & _). rewrite Forall_forall in Hp. specialize (Hp h Hin). lia.
  - inversion H; subst h t. destruct (Z.ltb_spec p b'); [|lia]. cbn [length].
    assert (forall c, (length (drop_lt c l) <= length l)%nat).
    { intros c. clear. induction l as [|q l IH]; cbn [drop_lt length]; [lia|]. destruct (q <? c); cbn [length]; lia. }
    specialize (H1 b'). lia.
Qed.

(* ---------------------------------------------------------------- check_positions with two iterators, slop 0 *)
Section TwoIterators.
  Variables P0 P1 : list Z.
  Hypothesis S0 : StronglySorted Z.lt P0.
  Hypothesis S1 : StronglySorted Z.lt P1.

  Definition its_at (L : Z) : list piter :=
    [ {| pi_all := P0; pi_q := 0; pi_cur := drop_lt (L + 0) P0 |};
      {| pi_all := P1; pi_q := 1; pi_cur := drop_lt (L + 1) P1 |} ].
  Definition sol (r : Z) : Prop := In r P0 /\ In (r + 1) P1.

  Lemma its_next : forall L m, map (pi_next m) (its_at L) = its_at m.
  Proof. intros L m. reflexivity. Qed.

  Lemma cp2_correct : forall fuel L,
    (forall r, sol r -> L <= r) ->
    (length (drop_lt (L + 0) P0) + length (drop_lt (L + 1) P1) < fuel)%nat ->
    exists b, cp_loop fuel 0 (its_at L) = Some b /\ (b = true <-> exists r, sol r).
  Proof.
    induction fuel as [|f IH]; intros L Inv Hf; [lia|]. cbn [cp_loop].
    unfold its_at at 1. cbn [scan_windows pi_rel pi_cur pi_q].
    destruct (drop_lt (L + 0) P0) as [|h0 t0] eqn:E0.
    { exists false. split; [reflexivity|]. split; [discriminate|]. intros (r & Hr0 & Hr1). exfalso.
      pose proof (drop_lt_keeps (L + 0) P0 r Hr0) as K. rewrite E0 in K. apply K. specialize (Inv r (conj Hr0 Hr1)). lia. }
    destruct (drop_lt (L + 1) P1) as [|h1 t1] eqn:E1.
    { exists false. split; [reflexivity|]. split; [discriminate|]. intros (r & Hr0 & Hr1). exfalso.
      pose proof (drop_lt_keeps (L + 1) P1 (r + 1) Hr1) as K. rewrite E1 in K. apply K. specialize (Inv r (conj Hr0 Hr1)). lia. }
    destruct (drop_lt_head _ _ _ _ S0 E0) as (B0 & I0 & M0).
    destruct (drop_lt_head _ _ _ _ S1 E1) as (B1 & I1 & M1).
    unfold pi_rel. cbn [pi_cur pi_q omax].
    set (last := h0 - 0). set (next := h1 - 1).
    destruct ((last <=? next) && (next <=? last + 0)) eqn:Al.
    - (* aligned *)
      exists true. split; [reflexivity|]. split; [|reflexivity]. intros _.
      apply andb_true_iff in Al. destruct Al as [A1 A2]. apply Z.leb_le in A1, A2.
      exists h0. split; [exact I0|]. replace (h0 + 1) with h1 by (subst last next; lia). exact I1.
    - set (m := if next <? last then last else Z.max (last + 1) (next - 0)).
      change (exists b, cp_loop f 0 (map (pi_next m) (its_at L)) = Some b /\ (b = true <-> exists r, sol r)).
      rewrite its_next. apply IH.
      + (* invariant *)
        intros r (Hr0 & Hr1). pose proof (Inv r (conj Hr0 Hr1)) as HL.
        assert (G0 : h0 <= r) by (apply M0; [exact Hr0 | lia]).
        assert (G1 : h1 <= r + 1) by (apply M1; [exact Hr1 | lia]).
        subst m last next. destruct (Z.ltb_spec (h1 - 1) (h0 - 0)); [lia|].
        apply andb_false_iff in Al. destruct Al as [Al|Al]; apply Z.leb_gt in Al; lia.
      + (* measure *)
        assert (Lm : L <= m).
        { subst m last next. destruct (Z.ltb_spec (h1 - 1) (h0 - 0)); lia. }
        pose proof (drop_lt_length_mono (L + 0) (m + 0) P0 S0 ltac:(lia)) as D0.
        pose proof (drop_lt_length_mono (L + 1) (m + 1) P1 S1 ltac:(lia)) as D1.
        rewrite E0, E1 in *. cbn [length] in *.
        subst m last next. destruct (Z.ltb_spec (h1 - 1) (h0 - 0)) as [Lt|Ge].
        * pose proof (drop_lt_length_strict (L + 1) (h0 - 0 + 1) P1 h1 t1 S1 E1 ltac:(lia)) as D. rewrite E1 in D. cbn [length] in D. lia.
        * apply andb_false_iff in Al. destruct Al as [Al|Al]; apply Z.leb_gt in Al; [lia|].
          pose proof (drop_lt_length_strict (L + 0) (Z.max (h0 - 0 + 1) (h1 - 1 - 0) + 0) P0 h0 t0 S0 E0 ltac:(lia)) as D. rewrite E0 in D. cbn [length] in D. lia.
  Qed.
End TwoIterators.

(* ---------------------------------------------------------------- phrases of one or two tokens *)
Local Open Scope N_scope.

Lemma has_sublist_one : forall t d, has_sublist [t] d = mem t d.
Proof.
  intros t d. induction d as [|x d IH]; [reflexivity|]. cbn [has_sublist is_prefix mem existsb].
  rewrite IH. unfold mem. rewrite andb_true_r. reflexivity.
Qed.

Lemma is_prefix_mem : forall p l, is_prefix p l = true -> forallb (fun t => mem t l) p = true.
Proof.
  induction p as [|x p IH]; intros l H; [reflexivity|]. destruct l as [|y l]; [discriminate|].
  cbn [is_prefix] in H. apply andb_true_iff in H. destruct H as [E H]. apply N.eqb_eq in E. subst y.
  cbn [forallb mem existsb]. rewrite N.eqb_refl. cbn [orb andb].
  specialize (IH l H). rewrite forallb_forall in *. intros t Ht. specialize (IH t Ht).
  unfold mem in *. cbn [existsb]. rewrite IH. apply orb_true_r.
Qed.

Lemma has_sublist_mem : forall p l, has_sublist p l = true -> forallb (fun t => mem t l) p = true.
Proof.
  intros p l. induction l as [|y l IH]; intros H.
  - cbn [has_sublist] in H. rewrite orb_false_r in H. apply is_prefix_mem, H.
  - cbn [has_sublist] in H. apply orb_true_iff in H. destruct H as [H|H]; [apply is_prefix_mem, H|].
    specialize (IH H). rewrite forallb_forall in *. intros t Ht. specialize (IH t Ht).
    unfold mem in *. cbn [existsb]. rewrite IH. apply orb_true_r.
Qed.

Lemma check_positions_one : forall t d, check_positions 0%Z [t] d = Some true.
Proof. intros t d. reflexivity. Qed.

Lemma drop_lt_length_le : forall c l, (length (drop_lt c l) <= length l)%nat.
Proof. intros c l. induction l as [|q l IH]; cbn [drop_lt length]; [lia|]. destruct (q <? c)%Z; cbn [length]; lia. Qed.

Lemma check_positions_two : forall a b d, check_positions 0%Z [a; b] d = Some (has_sublist [a; b] d).
Proof.
  intros a b d. unfold check_positions. cbn [mk_iters].
  set (P0 := positions_of a d 0%Z). set (P1 := positions_of b d 0%Z).
  change [pi_new P0 0%Z; pi_new P1 (0 + 1)%Z] with (its_at P0 P1 0%Z).
  destruct (cp2_correct P0 P1 (positions_sorted a d 0%Z) (positions_sorted b d 0%Z) (cp_fuel (its_at P0 P1 0%Z)) 0%Z) as (r & Hr & Hiff).
  - intros x [Hx _]. apply positions_ge in Hx. exact Hx.
  - unfold cp_fuel, its_at. cbn [fold_right pi_all].
    pose proof (drop_lt_length_le (0 + 0)%Z P0). pose proof (drop_lt_length_le (0 + 1)%Z P1). lia.
  - rewrite Hr. f_equal. unfold sol in Hiff. fold P0 P1 in Hiff.
    pose proof (has_sublist_two a b d 0%Z) as T. fold P0 P1 in T.
    destruct r, (has_sublist [a; b] d); try reflexivity.
    + symmetry. apply T. apply Hiff. reflexivity.
    + assert (false = true) by (apply Hiff; apply T; reflexivity). discriminate.
Qed.

(* ---------------------------------------------------------------- the classes, as predicates on the query *)
Fixpoint phrase_le2 (q : fquery) : bool :=
  match q with
  | QMatch _ _ => true
  | QPhrase ts => (length ts <=? 2)%nat
  | QBool a b c => forallb phrase_le2 a && forallb phrase_le2 b && forallb phrase_le2 c
  end.
Fixpoint no_phrase (q : fquery) : bool :=
  match q with
  | QMatch _ _ => true
  | QPhrase _ => false
  | QBool a b c => forallb no_phrase a && forallb no_phrase b && forallb no_phrase c
  end.
Definition all_same (ts : list N) : bool := match ts with [] => true | t :: r => forallb (N.eqb t) r end.
Fixpoint and_single (q : fquery) : bool :=
  match q with
  | QMatch true ts => all_same ts
  | QMatch false _ => true
  | QPhrase _ => true
  | QBool a b c => forallb and_single a && forallb and_single b && forallb and_single c
  end.
Fixpoint and_known (known : N -> bool) (q : fquery) : bool :=
  match q with
  | QMatch true ts => forallb known ts || negb (existsb known ts)
  | QMatch false _ => true
  | QPhrase _ => true
  | QBool a b c => forallb (and_known known) a && forallb (and_known known) b && forallb (and_known known) c
  end.

(* induction over the nested query type *)
Lemma fquery_ind' (P : fquery -> Prop) :
  (forall a ts, P (QMatch a ts)) -> (forall ts, P (QPhrase ts)) ->
  (forall a b c, Forall P a -> Forall P b -> Forall P c -> P (QBool a b c)) ->
  forall q, P q.
Proof.
  intros HM HP HB. fix IH 1. intros [a ts|ts|a b c]; [apply HM | apply HP|].
  apply HB; [induction a as [|x a IHa] | induction b as [|x b IHb] | induction c as [|x c IHc]]; constructor; auto.
Qed.

Lemma dedup_in : forall l x, In x (dedup l) <-> In x l.
Proof.
  induction l as [|y l IH]; intros x; [tauto|]. cbn [dedup]. destruct (mem y l) eqn:M.
  - rewrite IH. split; [right; assumption|]. intros [<-|H]; [|exact H].
    unfold mem in M. apply existsb_exists in M. destruct M as (z & Hz & E). apply N.eqb_eq in E. subst z. exact Hz.
  - cbn [In]. rewrite IH. tauto.
Qed.

Lemma forallb_dedup : forall f l, forallb f (dedup l) = forallb f l.
Proof.
  intros f l. apply eq_true_iff_eq. rewrite !forallb_forall. split; intros H x Hx; apply H; apply dedup_in; exact Hx.
Qed.

Lemma is_nil_dedup : forall l, is_nil (dedup l) = is_nil l.
Proof.
  intros [|y l]; [reflexivity|]. cbn [is_nil].
  assert (In y (dedup (y :: l))) by (apply dedup_in; left; reflexivity).
  destruct (dedup (y :: l)); [destruct H | reflexivity].
Qed.

Lemma filter_all' {A} (p : A -> bool) l : forallb p l = true -> filter p l = l.
Proof.
  induction l as [|y t IH]; intros H; [reflexivity|]. cbn [forallb] in H. apply andb_true_iff in H. destruct H as [H1 H2].
  cbn [filter]. rewrite H1. f_equal. apply IH, H2.
Qed.

Lemma filter_none' {A} (p : A -> bool) l : existsb p l = false -> filter p l = [].
Proof.
  induction l as [|y t IH]; intros H; [reflexivity|]. cbn [existsb] in H. apply orb_false_iff in H. destruct H as [H1 H2].
  cbn [filter]. rewrite H1. apply IH, H2.
Qed.

Section MatchSet.
  Variable known : N -> bool.
  Variable d : list N.

  Lemma all_some_spec : forall ix (l : list fquery),
    Forall (fun q => impl_match known ix q d = Some (spec_match q d)) l ->
    (fix all_some (l : list fquery) : option (list bool) :=
       match l with
       | [] => Some []
       | x :: l' => match impl_match known ix x d, all_some l' with
                    | Some b, Some bs => Some (b :: bs)
                    | _, _ => None
                    end
       end) l = Some (map (fun q => spec_match q d) l).
  Proof.
    intros ix l H. induction H as [|x l Hx _ IH]; [reflexivity|]. rewrite Hx, IH. reflexivity.
  Qed.

  Lemma existsb_id_map : forall (f : fquery -> bool) l, existsb (fun b => b) (map f l) = existsb f l.
  Proof. intros f l. induction l as [|x l IH]; [reflexivity|]. cbn [map existsb]. rewrite IH. reflexivity. Qed.
  Lemma forallb_id_map : forall (f : fquery -> bool) l, forallb (fun b => b) (map f l) = forallb f l.
  Proof. intros f l. induction l as [|x l IH]; [reflexivity|]. cbn [map forallb]. rewrite IH. reflexivity. Qed.

  Lemma bool_case : forall ix a b c,
    Forall (fun q => impl_match known ix q d = Some (spec_match q d)) a ->
    Forall (fun q => impl_match known ix q d = Some (spec_match q d)) b ->
    Forall (fun q => impl_match known ix q d = Some (spec_match q d)) c ->
    impl_match known ix (QBool a b c) d = Some (spec_match (QBool a b c) d).
  Proof.
    intros ix a b c Ha Hb Hc. cbn [impl_match spec_match].
    rewrite (all_some_spec ix a Ha), (all_some_spec ix b Hb), (all_some_spec ix c Hc).
    rewrite !existsb_id_map, forallb_id_map. reflexivity.
  Qed.

  Lemma forall_weaken : forall (P Q : fquery -> Prop) (f : fquery -> bool) l,
    Forall (fun q => f q = true -> Q q) l -> forallb f l = true -> Forall Q l.
  Proof.
    intros P Q f l H. induction H as [|x l Hx _ IH]; intros Hf; constructor;
      cbn [forallb] in Hf; apply andb_true_iff in Hf; destruct Hf as [H1 H2]; auto.
  Qed.

  (* indexed rows: the partition's vocabulary contains every token of the row *)
  Hypothesis vocab : forall t, mem t d = true -> known t = true.

  Lemma impl_spec_indexed : forall q, phrase_le2 q = true -> and_known known q = true ->
    impl_match known true q d = Some (spec_match q d).
  Proof.
    induction q as [a ts|ts|a b c Ha Hb Hc] using fquery_ind'; intros Hp Hk.
    - cbn [impl_match spec_match]. destruct a; [|reflexivity]. f_equal.
      cbn [and_known] in Hk. apply orb_true_iff in Hk. destruct Hk as [Hk|Hk].
      + rewrite (filter_all' known ts Hk), is_nil_dedup, forallb_dedup. reflexivity.
      + apply negb_true_iff in Hk. rewrite (filter_none' known ts Hk). cbn [dedup is_nil negb andb].
        destruct ts as [|t ts]; [reflexivity|]. cbn [is_nil negb andb]. symmetry. apply not_true_iff_false. intros F.
        rewrite forallb_forall in F. cbn [existsb] in Hk. apply orb_false_iff in Hk. destruct Hk as [Hk _].
        rewrite (vocab t (F t (or_introl eq_refl))) in Hk. discriminate.
    - cbn [impl_match spec_match]. cbn [phrase_le2] in Hp. apply Nat.leb_le in Hp.
      destruct (negb (is_nil ts) && forallb known ts && forallb (fun t => mem t d) ts) eqn:C.
      + apply andb_true_iff in C. destruct C as [C Cm]. apply andb_true_iff in C. destruct C as [C _]. rewrite C. cbn [andb].
        destruct ts as [|t1 [|t2 [|t3 ts]]]; cbn [length] in Hp; try lia; try discriminate.
        * rewrite check_positions_one, has_sublist_one. f_equal. symmetry.
          cbn [forallb] in Cm. apply andb_true_iff in Cm. destruct Cm as [Cm _]. exact Cm.
        * apply check_positions_two.
      + f_equal. symmetry. apply not_true_iff_false. intros F. apply andb_true_iff in F. destruct F as [F1 F2].
        pose proof (has_sublist_mem ts d F2) as M. rewrite F1, M, andb_true_r in C. cbn [andb] in C.
        apply not_true_iff_false in C. apply C. rewrite forallb_forall in *. intros t Ht. apply vocab, M, Ht.
    - cbn [phrase_le2 and_known] in Hp, Hk.
      apply andb_true_iff in Hp, Hk. destruct Hp as [Hp Hp3], Hk as [Hk Hk3].
      apply andb_true_iff in Hp, Hk. destruct Hp as [Hp1 Hp2], Hk as [Hk1 Hk2].
      assert (G : forall l, Forall (fun q => phrase_le2 q = true -> and_known known q = true -> impl_match known true q d = Some (spec_match q d)) l ->
                  forallb phrase_le2 l = true -> forallb (and_known known) l = true ->
                  Forall (fun q => impl_match known true q d = Some (spec_match q d)) l).
      { intros l H. induction H as [|x l Hx _ IH]; intros F1 F2; constructor;
          cbn [forallb] in F1, F2; apply andb_true_iff in F1, F2; destruct F1, F2; auto. }
      apply bool_case; apply G; assumption.
  Qed.
End MatchSet.

Section MatchSetFlat.
  Variable known : N -> bool.
  Variable d : list N.

  Lemma all_same_spec : forall ts, all_same ts = true ->
    existsb (fun t => mem t d) ts = negb (is_nil ts) && forallb (fun t => mem t d) ts.
  Proof.
    intros [|t r] H; [reflexivity|]. cbn [all_same] in H. cbn [existsb is_nil negb andb forallb].
    rewrite forallb_forall in H.
    assert (E : forall x, In x r -> x = t) by (intros x Hx; symmetry; apply N.eqb_eq, H, Hx).
    destruct (mem t d) eqn:M; cbn [orb andb].
    - symmetry. apply forallb_forall. intros x Hx. rewrite (E x Hx). exact M.
    - apply not_true_iff_false. intros F. apply existsb_exists in F. destruct F as (x & Hx & Fx). rewrite (E x Hx) in Fx. congruence.
  Qed.

  (* unindexed rows *)
  Lemma impl_spec_flat : forall q, no_phrase q = true -> and_single q = true ->
    impl_match known false q d = Some (spec_match q d).
  Proof.
    induction q as [a ts|ts|a b c Ha Hb Hc] using fquery_ind'; intros Hp Hk.
    - cbn [impl_match spec_match]. destruct a; [|reflexivity]. f_equal. apply all_same_spec, Hk.
    - discriminate.
    - cbn [no_phrase and_single] in Hp, Hk.
      apply andb_true_iff in Hp, Hk. destruct Hp as [Hp Hp3], Hk as [Hk Hk3].
      apply andb_true_iff in Hp, Hk. destruct Hp as [Hp1 Hp2], Hk as [Hk1 Hk2].
      assert (G : forall l, Forall (fun q => no_phrase q = true -> and_single q = true -> impl_match known false q d = Some (spec_match q d)) l ->
                  forallb no_phrase l = true -> forallb and_single l = true ->
                  Forall (fun q => impl_match known false q d = Some (spec_match q d)) l).
      { intros l H. induction H as [|x l Hx _ IH]; intros F1 F2; constructor;
          cbn [forallb] in F1, F2; apply andb_true_iff in F1, F2; destruct F1, F2; auto. }
      apply (bool_case known d); apply G; assumption.
  Qed.
End MatchSetFlat.

(* ---------------------------------------------------------------- index construction <-> lookup *)
Definition push (rid : N) (pos : Z) (pl : list (N * list Z)) : list (N * list Z) :=
  match pl with
  | (r, ps) :: pl' => if r =? rid then (r, pos :: ps) :: pl' else (rid, [pos]) :: pl
  | [] => [(rid, [pos])]
  end.

Lemma lookup_add_occ : forall t t' rid pos idx,
  lookup t (add_occ t' rid pos idx) = if t' =? t then push rid pos (lookup t idx) else lookup t idx.
Proof.
  intros t t' rid pos idx. induction idx as [|[t0 pl] rest IH]; cbn [add_occ lookup].
  - destruct (N.eqb_spec t' t); reflexivity.
  - destruct (N.eqb_spec t0 t') as [E0|E0].
    + subst t0. destruct (N.eqb_spec t' t) as [E|E].
      * destruct pl as [|[r ps] pl']; cbn [lookup push]; [rewrite E, N.eqb_refl; reflexivity|].
        destruct (r =? rid); cbn [lookup]; rewrite E, N.eqb_refl; reflexivity.
      * destruct pl as [|[r ps] pl']; cbn [lookup]; [destruct (N.eqb_spec t' t); [contradiction | reflexivity]|].
        destruct (r =? rid); cbn [lookup]; destruct (N.eqb_spec t' t); try contradiction; reflexivity.
    + cbn [lookup]. destruct (N.eqb_spec t0 t) as [E1|E1].
      * destruct (N.eqb_spec t' t); [congruence | reflexivity].
      * exact IH.
Qed.

Lemma lookup_add_tokens : forall t rid d i idx,
  (forall r ps pl', lookup t idx = (r, ps) :: pl' -> r <> rid) ->
  lookup t (add_tokens rid d i idx) =
    match positions_of t d i with [] => lookup t idx | ps => (rid, ps) :: lookup t idx end.
Proof.
  intros t rid d. induction d as [|x d IH]; intros i idx Hh; [reflexivity|].
  cbn [add_tokens positions_of]. rewrite lookup_add_occ, (IH (i + 1)%Z idx Hh).
  destruct (N.eqb_spec x t) as [E|E]; [|reflexivity].
  destruct (positions_of t d (i + 1)%Z) as [|p ps].
  - unfold push. destruct (lookup t idx) as [|[r ps'] pl'] eqn:L; [reflexivity|].
    destruct (N.eqb_spec r rid) as [Er|Er]; [exfalso; exact (Hh r ps' pl' eq_refl Er) | reflexivity].
  - unfold push. rewrite N.eqb_refl. reflexivity.
Qed.

Lemma posting_head_in : forall t part r ps pl', posting t part = (r, ps) :: pl' -> In r (map fst part).
Proof.
  intros t part. induction part as [|[rid od] rest IH]; intros r ps pl' H; [discriminate|].
  unfold posting in H. cbn [flat_map fst snd] in H. fold (posting t rest) in H.
  destruct od as [d|]; [|right; eapply IH; exact H].
  destruct (positions_of t d 0%Z); [right; eapply IH; exact H|].
  cbn [app] in H. inversion H; subst. left. reflexivity.
Qed.

Lemma lookup_build : forall t part, NoDup (map fst part) -> lookup t (build part) = posting t part.
Proof.
  intros t part. induction part as [|[rid od] rest IH]; intros ND; [reflexivity|].
  cbn [map fst] in ND. inversion ND as [|? ? Hnin ND']; subst.
  unfold posting. cbn [flat_map fst snd build]. fold (posting t rest).
  destruct od as [d|]; [|apply IH, ND'].
  rewrite lookup_add_tokens.
  - rewrite (IH ND'). destruct (positions_of t d 0%Z); reflexivity.
  - intros r ps pl' H E. subst r. rewrite (IH ND') in H. apply Hnin. eapply posting_head_in. exact H.
Qed.

Lemma posting_spec : forall t part rid ps,
  In (rid, ps) (posting t part) <-> exists d, In (rid, Some d) part /\ ps = positions_of t d 0%Z /\ ps <> [].
Proof.
  intros t part rid ps. unfold posting. rewrite in_flat_map. split.
  - intros ([r od] & Hin & H). cbn [fst snd] in H. destruct od as [d|]; [|destruct H].
    destruct (positions_of t d 0%Z) as [|p l] eqn:E; [destruct H|]. destruct H as [H|[]]. inversion H; subst.
    exists d. split; [exact Hin|split; [symmetry; exact E | discriminate]].
  - intros (d & Hin & -> & Hne). exists (rid, Some d). split; [exact Hin|]. cbn [fst snd].
    destruct (positions_of t d 0%Z); [congruence | left; reflexivity].
Qed.

(* ---------------------------------------------------------------- WAND pruning safety (set level) *)
From LanceV Require Import Index.Model_TopK Index.Proofs_TopK.
From Coq Require Import Permutation.

Section WandSafe.
  Context {A : Type}.
  Variable ord : key -> key -> bool.           (* "at least as good as": smaller key = higher score *)
  Hypothesis ord_total : forall x y, ord x y = true \/ ord y x = true.
  Hypothesis ord_trans : forall x y z, ord x y = true -> ord y z = true -> ord x z = true.
  Variable kf : A -> key.

  Lemma wand_safe : forall k l kept dropped theta s,
    Permutation l (kept ++ dropped) ->
    (forall y, In y dropped -> ord theta (kf y) = true) ->
    (k <= length (filter (fun z => ord (kf z) theta) kept))%nat ->
    is_topk ord kf k kept s -> is_topk ord kf k l s.
  Proof.
    intros k l kept dropped theta s PL Hdrop Hgood (r2 & HP & HL & HC).
    pose proof (filter_length_le (fun z => ord (kf z) theta) kept) as Gle.
    assert (Lk : length kept = (length s + length r2)%nat) by (rewrite (Permutation_length HP), app_length; reflexivity).
    assert (Ll : length l = (length kept + length dropped)%nat) by (rewrite (Permutation_length PL), app_length; reflexivity).
    exists (r2 ++ dropped). split; [|split].
    - rewrite PL, HP, <- app_assoc. reflexivity.
    - lia.
    - intros x y Hx Hy. apply in_app_or in Hy. destruct Hy as [Hy|Hy]; [apply HC; assumption|].
      destruct (ord (kf x) (kf y)) eqn:E; [reflexivity|exfalso].
      set (g := fun z => ord (kf z) theta).
      assert (C2 : filter g r2 = []).
      { apply filter_none. intros z Hz. unfold g. destruct (ord (kf z) theta) eqn:Ez; [|reflexivity].
        rewrite (ord_trans _ _ _ (HC x z Hx Hz) (ord_trans _ _ _ Ez (Hdrop y Hy))) in E. discriminate. }
      assert (C3 : (length (filter g s) < length s)%nat).
      { apply (filter_length_lt g s x Hx). unfold g. destruct (ord (kf x) theta) eqn:Ex; [|reflexivity].
        rewrite (ord_trans _ _ _ Ex (Hdrop y Hy)) in E. discriminate. }
      pose proof (filter_perm_length g _ _ HP) as FP. rewrite filter_app, app_length, C2 in FP. cbn [length] in FP.
      fold g in Hgood. lia.
  Qed.
End WandSafe.
