(* C29 - lemmas about statistics-based pruning (Model_Prune.v). *)
From LanceV Require Import Common.Base Index.Model_Prune.
Local Open Scope Z_scope.

(* ------------------------------------------------------------------ zone statistics *)
Definition covers (s : zstat) (v : Z) : Prop :=
  (exists m, z_min s = Some m /\ m <= v) /\ (exists M, z_max s = Some M /\ v <= M).

Lemma covers_step s v w nn nu :
  covers s v -> covers {| z_min := omin (z_min s) w; z_max := omax (z_max s) w; z_nulls := nu; z_nans := nn |} v.
Proof.
  intros [(m & Hm & Lm) (M & HM & LM)]. split; cbn [z_min z_max]; rewrite ?Hm, ?HM; cbn [omin omax];
    eexists; (split; [reflexivity|lia]).
Qed.
Lemma covers_new s w nn nu :
  covers {| z_min := omin (z_min s) w; z_max := omax (z_max s) w; z_nulls := nu; z_nans := nn |} w.
Proof.
  split; cbn [z_min z_max]; [destruct (z_min s) | destruct (z_max s)]; cbn [omin omax]; eexists; (split; [reflexivity|lia]).
Qed.

Lemma stats_acc_covers nan vs : forall s v,
  covers s v \/ In (Some v) vs -> covers (zone_stats_acc nan vs s) v.
Proof.
  induction vs as [|c tl IH]; intros s v H; cbn [zone_stats_acc].
  - destruct H as [H|[]]; exact H.
  - destruct c as [w|].
    + apply IH. destruct H as [H|[H|H]].
      * left. apply covers_step. exact H.
      * inversion H; subst. left. apply covers_new.
      * right. exact H.
    + apply IH. destruct H as [H|[H|H]]; [left | discriminate | right; exact H].
      destruct H as [A B]. split; assumption.
Qed.

Lemma stats_acc_nulls nan vs : forall s,
  (0 < z_nulls s)%N \/ In None vs -> (0 < z_nulls (zone_stats_acc nan vs s))%N.
Proof.
  induction vs as [|c tl IH]; intros s H; cbn [zone_stats_acc].
  - destruct H as [H|[]]; exact H.
  - destruct c as [w|]; apply IH; cbn [z_nulls].
    + destruct H as [H|[H|H]]; [left; exact H | discriminate | right; exact H].
    + left. lia.
Qed.

Lemma stats_acc_nans nan vs : forall s,
  (0 < z_nans s)%N \/ (exists v, In (Some v) vs /\ is_nan nan v = true) -> (0 < z_nans (zone_stats_acc nan vs s))%N.
Proof.
  induction vs as [|c tl IH]; intros s H; cbn [zone_stats_acc].
  - destruct H as [H|(v & [] & _)]; exact H.
  - destruct c as [w|]; apply IH; cbn [z_nans].
    + destruct H as [H|(v & [Hv|Hv] & Hn)].
      * left. destruct (is_nan nan w); lia.
      * inversion Hv; subst. left. rewrite Hn. lia.
      * right. exists v. auto.
    + destruct H as [H|(v & [Hv|Hv] & Hn)]; [left; exact H | discriminate | right; exists v; auto].
Qed.

Lemma ole_some a b : ole (Some a) (Some b) = true <-> a <= b.
Proof. cbn [ole]. apply Z.leb_le. Qed.

Definition nan_top (nan : option Z) (vs : list cellv) : Prop :=
  match nan with Some k => forall v, In (Some v) vs -> v <= k | None => True end.

(* if evaluate_zone says the zone cannot match, no cell of the zone satisfies the query *)
Lemma prune_sound nan vs q c :
  nan_top nan vs -> In c vs ->
  evaluate_zone nan (zone_stats nan vs) q = false -> matches q c = false.
Proof.
  intros Hn Hc He. destruct (matches q c) eqn:Hm; [exfalso | reflexivity].
  set (z := zone_stats nan vs) in *.
  assert (Hnulls : In None vs -> (0 <? z_nulls z)%N = true).
  { intros H. apply N.ltb_lt. apply (stats_acc_nulls nan vs). right. exact H. }
  assert (Hnans : forall v, In (Some v) vs -> is_nan nan v = true -> (0 <? z_nans z)%N = true).
  { intros v H1 H2. apply N.ltb_lt. apply (stats_acc_nans nan vs). right. exists v. auto. }
  assert (Hcov : forall v, In (Some v) vs -> covers z v).
  { intros v H. apply (stats_acc_covers nan vs). right. exact H. }
  assert (Hk : forall v k, nan = Some k -> In (Some v) vs -> v <= k).
  { intros v k E H. unfold nan_top in Hn. rewrite E in Hn. auto. }
  destruct q as [|t|s e|ts]; cbn [evaluate_zone] in He.
  - destruct c; [discriminate|]. rewrite (Hnulls Hc) in He. discriminate.
  - destruct t as [t|]; [|destruct c; discriminate]. destruct c as [v|]; [|discriminate].
    cbn [matches] in Hm. apply Z.eqb_eq in Hm. subst v.
    destruct (is_nan nan t) eqn:En.
    + rewrite (Hnans t Hc En) in He. discriminate.
    + destruct (Hcov t Hc) as [(m & Em & Lm) (M & EM & LM)]. rewrite Em, EM in He. unfold max_is_nan in He. rewrite EM in He.
      cbn [ole] in He. destruct (is_nan nan M); apply andb_false_iff in He as [He|He]; try discriminate;
        apply Z.leb_gt in He; lia.
  - destruct c as [v|]; [|discriminate]. cbn [matches] in Hm. apply andb_true_iff in Hm as [Hs Hend].
    destruct (Hcov v Hc) as [(m & Em & Lm) (M & EM & LM)].
    assert (Sc : match start_check nan z s with inl r => r = true | inr sc => sc = true end).
    { unfold start_check, max_is_nan, olt. rewrite EM. destruct s as [|a|a]; [reflexivity| |].
      - apply Z.leb_le in Hs. destruct (is_nan nan a) eqn:En.
        + apply (Hnans v Hc). unfold is_nan in *. destruct nan as [k|]; [|discriminate]. apply Z.eqb_eq in En.
          apply Z.eqb_eq. specialize (Hk v k eq_refl Hc). lia.
        + destruct (is_nan nan M); [reflexivity|]. apply ole_some. lia.
      - apply Z.ltb_lt in Hs. destruct (is_nan nan a) eqn:En.
        + unfold is_nan in En. destruct nan as [k|]; [|discriminate]. apply Z.eqb_eq in En.
          specialize (Hk v k eq_refl Hc). lia.
        + apply negb_true_iff. cbn [ole]. apply Z.leb_gt. lia. }
    assert (Ec : match end_check nan z e with inl r => r = true | inr ec => ec = true end).
    { unfold end_check, olt. rewrite Em. destruct e as [|b|b]; [reflexivity| |].
      - apply Z.leb_le in Hend. assert (ole (Some m) (Some b) = true) by (apply ole_some; lia).
        destruct (is_nan nan b); [apply orb_true_iff; right|]; assumption.
      - apply Z.ltb_lt in Hend. destruct (is_nan nan b); [reflexivity|]. apply negb_true_iff. cbn [ole]. apply Z.leb_gt. lia. }
    destruct (start_check nan z s) as [r|sc]; [congruence|]. destruct (end_check nan z e) as [r|ec]; [congruence|].
    subst. discriminate.
  - destruct c as [v|]; [|discriminate]. cbn [matches] in Hm. apply existsb_exists in Hm as (t & Ht & Et).
    destruct t as [t|]; [|discriminate]. apply Z.eqb_eq in Et. subst t.
    assert (existsb (fun v0 => match v0 with None => (0 <? z_nulls z)%N
                               | Some t => if is_nan nan t then (0 <? z_nans z)%N else in_minmax z t end) ts = true); [|congruence].
    apply existsb_exists. exists (Some v). split; [exact Ht|]. destruct (is_nan nan v) eqn:En; [apply (Hnans v Hc En)|].
    destruct (Hcov v Hc) as [(m & Em & Lm) (M & EM & LM)]. unfold in_minmax. rewrite Em, EM.
    apply andb_true_iff; split; apply ole_some; lia.
Qed.

(* ------------------------------------------------------------------ legacy page pruning *)
Lemma page_prune_sound p vs op lit c :
  page_stat_ok p vs -> In c vs -> page_pruned p op lit = true ->
  match c with Some v => cmp_true op v lit | None => false end = false.
Proof.
  intros (Hr & Hnn & Han) Hc Hp. destruct c as [v|]; [|reflexivity]. unfold page_pruned in Hp.
  destruct (p_null p) eqn:En; try (specialize (Han eq_refl _ Hc); discriminate);
    specialize (Hr v Hc); destruct op; cbn [cmp_true];
    repeat match goal with
           | H : (_ || _) = true |- _ => apply orb_true_iff in H as [H|H]
           | H : (_ && _) = true |- _ => apply andb_true_iff in H as [? ?]
           | H : (_ <? _) = true |- _ => apply Z.ltb_lt in H
           | H : (_ <=? _) = true |- _ => apply Z.leb_le in H
           | H : (_ =? _) = true |- _ => apply Z.eqb_eq in H
           end;
    try (apply negb_false_iff; apply Z.eqb_eq; lia); try (apply Z.eqb_neq; lia); try (apply Z.ltb_ge; lia); try (apply Z.leb_gt; lia).
Qed.

(* ------------------------------------------------------------------ string bound truncation *)
Lemma lex_le_refl s : lex_le s s = true.
Proof. induction s as [|a s IH]; cbn [lex_le]; [reflexivity|]. rewrite N.ltb_irrefl. exact IH. Qed.

Lemma lex_le_prefix p rest : lex_le p (p ++ rest) = true.
Proof. induction p as [|a p IH]; cbn [lex_le app]; [reflexivity|]. rewrite N.ltb_irrefl. exact IH. Qed.

Lemma trunc_min_le n s : lex_le (trunc_min n s) s = true.
Proof. unfold trunc_min. rewrite <- (firstn_skipn n s) at 2. apply lex_le_prefix. Qed.

(* the incremented prefix is above EVERY string that starts with the prefix *)
Lemma increment_above p : forall m rest, increment p = Some m -> lex_le (p ++ rest) m = true.
Proof.
  induction p as [|b tl IH]; intros m rest H; cbn [increment] in H; [discriminate|].
  destruct (increment tl) as [tl'|] eqn:E.
  - inversion H; subst. cbn [app lex_le]. rewrite N.ltb_irrefl. apply IH. reflexivity.
  - destruct (N.ltb_spec b 255) as [L|L]; [|discriminate]. inversion H; subst. cbn [app lex_le].
    destruct (N.ltb_spec b (b + 1)) as [L2|L2]; [reflexivity | lia].
Qed.

Lemma trunc_max_ge n s m : trunc_max n s = Some m -> lex_le s m = true.
Proof.
  unfold trunc_max. destruct (Nat.ltb_spec n (length s)) as [L|L]; intros H.
  - rewrite <- (firstn_skipn n s). apply increment_above. exact H.
  - inversion H; subst. apply lex_le_refl.
Qed.

(* increment fails only on the all-0xFF string (then no max bound is recorded) *)
Lemma increment_none s : (forall b, In b s -> (b <= 255)%N) -> increment s = None -> forall b, In b s -> b = 255%N.
Proof.
  induction s as [|a tl IH]; intros Hb H b Hin; [destruct Hin|]. cbn [increment] in H.
  destruct (increment tl) eqn:E; [discriminate|]. destruct (N.ltb_spec a 255) as [L|L]; [discriminate|].
  destruct Hin as [->|Hin]; [specialize (Hb b (or_introl eq_refl)); lia|].
  apply IH; auto. intros x Hx. apply Hb. right. exact Hx.
Qed.

(* ------------------------------------------------------------------ legacy push-down keeps whole pages *)
Lemma page_all_true_sound p vs op lit c :
  page_stat_ok p vs -> In c vs -> page_all_true p op lit = true ->
  match c with Some v => cmp_true op v lit | None => false end = true.
Proof.
  intros (Hr & Hnn & Han) Hc Hp. unfold page_all_true in Hp. destruct (p_null p) eqn:En; try discriminate.
  destruct c as [v|]; [|exfalso; exact (Hnn eq_refl Hc)]. specialize (Hr v Hc). destruct op; cbn [cmp_true];
    repeat match goal with
           | H : (_ || _) = true |- _ => apply orb_true_iff in H as [H|H]
           | H : (_ && _) = true |- _ => apply andb_true_iff in H as [? ?]
           | H : (_ <? _) = true |- _ => apply Z.ltb_lt in H
           | H : (_ <=? _) = true |- _ => apply Z.leb_le in H
           | H : (_ =? _) = true |- _ => apply Z.eqb_eq in H
           end;
    try (apply negb_true_iff; apply Z.eqb_neq; lia); try (apply Z.eqb_eq; lia); try (apply Z.ltb_lt; lia); try (apply Z.leb_le; lia).
Qed.

Lemma legacy_minmax_covers nan vs : forall acc lo hi,
  legacy_float_minmax nan vs acc = Some (lo, hi) ->
  (forall v, In (Some v) vs -> v <> nan -> lo <= v <= hi)
  /\ (forall a b, acc = Some (a, b) -> lo <= a /\ b <= hi).
Proof.
  induction vs as [|c tl IH]; intros acc lo hi H; cbn [legacy_float_minmax] in H.
  - split; [intros v []|]. intros a b E. rewrite E in H. inversion H; subst. lia.
  - destruct c as [w|].
    + destruct (Z.eqb_spec w nan) as [->|Hne].
      * destruct (IH _ _ _ H) as [A B]. split; [|exact B]. intros v [Hv|Hv] Hn; [inversion Hv; subst; contradiction | auto].
      * destruct (IH _ _ _ H) as [A B]. split.
        -- intros v [Hv|Hv] Hn; [|auto]. inversion Hv; subst. destruct acc as [[a b]|].
           ++ specialize (B _ _ eq_refl). lia.
           ++ specialize (B _ _ eq_refl). lia.
        -- intros a b E. subst acc. specialize (B _ _ eq_refl). lia.
    + destruct (IH _ _ _ H) as [A B]. split; [|exact B]. intros v [Hv|Hv] Hn; [discriminate | auto].
Qed.

(* outside F23's class (no NaN, no NULL in the page) the collected statistics are a true guarantee *)
Lemma legacy_float_page_ok nan vs p :
  Known_C29_legacy_pushdown_float_nan_null nan vs = false -> legacy_float_page nan vs = Some p -> page_stat_ok p vs.
Proof.
  intros Hk Hp. unfold legacy_float_page in Hp. destruct (legacy_float_minmax nan vs None) as [[lo hi]|] eqn:E; [|discriminate].
  inversion Hp; subst; clear Hp. unfold Known_C29_legacy_pushdown_float_nan_null in Hk.
  assert (Hall : forall c, In c vs -> exists v, c = Some v /\ v <> nan).
  { intros c Hc.
    assert (F : forall x, In x vs -> match x with Some v => v =? nan | None => true end = false).
    { clear -Hk. induction vs as [|a l IH]; intros x [].
      - subst. cbn [existsb] in Hk. apply orb_false_iff in Hk. tauto.
      - cbn [existsb] in Hk. apply orb_false_iff in Hk. apply IH; tauto. }
    specialize (F c Hc). destruct c as [v|]; [|discriminate]. exists v. split; [reflexivity|]. apply Z.eqb_neq. exact F. }
  destruct (legacy_minmax_covers nan vs None lo hi E) as [A _]. unfold page_stat_ok. cbn [p_min p_max p_null].
  split; [|split].
  - intros v Hv. destruct (Hall _ Hv) as (w & Ew & Hw). inversion Ew; subst. auto.
  - intros _ Hn. destruct (Hall _ Hn) as (w & Ew & _). discriminate.
  - intros Hn c Hc. exfalso. destruct (existsb (fun c0 => match c0 with None => true | Some _ => false end) vs) eqn:Ex; [|discriminate].
    apply existsb_exists in Ex as (x & Hx & Ex). destruct x; [discriminate|]. destruct (Hall _ Hx) as (w & Ew & _). discriminate.
Qed.

(* F23 witness: page {NaN, -3}: statistics say [-3, -3], `f < 0` is answered TRUE for the whole page,
   the NaN row does not satisfy it *)
Lemma legacy_float_refuted :
  let nan := 1000 in let vs := [Some 1000; Some (-3)] in
  Known_C29_legacy_pushdown_float_nan_null nan vs = true
  /\ exists p, legacy_float_page nan vs = Some p /\ page_all_true p OLt 0 = true /\ cmp_true OLt 1000 0 = false.
Proof. cbn zeta. split; [reflexivity|]. eexists. split; [reflexivity|]. split; reflexivity. Qed.
