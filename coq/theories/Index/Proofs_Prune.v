(* C29 - lemmas about statistics-based pruning (Model_Prune.v). *)
From LanceV Require Import Common.Base Index.Model_Prune.
Local Open Scope Z_scope.

(* ------------------------------------------------------------------ zone statistics *)
Definition covers (s : zstat) (v : Z) : Prop :=
  (exists m, z_min s = Some m /\ m <= v) /\ (exists M, z_max s = Some M /\ v <= M).

Lemma covers_step s v w nn nu :
  covers s v -> covers {| z_min := omin (z_min s) w; z_max := omax (z_max s) w; z_nulls := nu; z_nans := nn |} v.
Proof.
  intros [(m & Hm & Lm) (M & HM & LM)]. split; cbn [z_min z_max]; rewrite ?Hm, ?HM; cbn [omin omax];
    eexists; (split; [reflexivity|lia]).
Qed.
Lemma covers_new s w nn nu :
  covers {| z_min := omin (z_min s) w; z_max := omax (z_max s) w; z_nulls := nu; z_nans := nn |} w.
Proof.
  split; cbn [z_min z_max]; [destruct (z_min s) | destruct (z_max s)]; cbn [omin omax]; eexists; (split; [reflexivity|lia]).
Qed.

Lemma stats_acc_covers nan vs : forall s v,
  covers s v \/ In (Some v) vs -> covers (zone_stats_acc nan vs s) v.
Proof.
  induction vs as [|c tl IH]; intros s v H; cbn [zone_stats_acc].
  - destruct H as [H|[]]; exact H.
  - destruct c as [w|].
    + apply IH. destruct H as [H|[H|H]].
      * left. apply covers_step. exact H.
      * inversion H; subst. left. apply covers_new.
      * right. exact H.
    + apply IH. destruct H as [H|[H|H]]; [left | discriminate | right; exact H].
      destruct H as [A B]. split; assumption.
Qed.

Lemma stats_acc_nulls nan vs : forall s,
  (0 < z_nulls s)%N \/ In None vs -> (0 < z_nulls (zone_stats_acc nan vs s))%N.
Proof.
  induction vs as [|c tl IH]; intros s H; cbn [zone_stats_acc].
  - destruct H as [H|[]]; exact H.
  - destruct c as [w|]; apply IH; cbn [z_nulls].
    + destruct H as [H|[H|H]]; [left; exact H | discriminate | right; exact H].
    + left. lia.
Qed.

Lemma stats_acc_nans nan vs : forall s,
  (0 < z_nans s)%N \/ (exists v, In (Some v) vs /\ is_nan nan v = true) -> (0 < z_nans (zone_stats_acc nan vs s))%N.
Proof.
  induction vs as [|c tl IH]; intros s H; cbn [zone_stats_acc].
  - destruct H as [H|(v & [] & _)]; exact H.
  - destruct c as [w|]; apply IH; cbn [z_nans].
    + destruct H as [H|(v & [Hv|Hv] & Hn)].
      * left. destruct (is_nan nan w); lia.
      * inversion Hv; subst. left. rewrite Hn. lia.
      * right. exists v. auto.
    + destruct H as [H|(v & [Hv|Hv] & Hn)]; [left; exact H | discriminate | right; exists v; auto].
Qed.

Lemma ole_some a b : ole (Some a) (Some b) = true <-> a <= b.
Proof. cbn [ole]. apply Z.leb_le. Qed.

Definition nan_top (nan : option Z) (vs : list cellv) : Prop :=
  match nan with Some k => forall v, In (Some v) vs -> v <= k | None => True end.

(* if evaluate_zone says the zone cannot match, no cell of the zone satisfies the query *)
Lemma prune_sound nan vs q c :
  nan_top nan vs -> In c vs ->
  evaluate_zone nan (zone_stats nan vs) q = false -> matches q c = false.
Proof.
  intros Hn Hc He. destruct (matches q c) eqn:Hm; [exfalso | reflexivity].
  set (z := zone_stats nan vs) in *.
  assert (Hnulls : In None vs -> (0 <? z_nulls z)%N = true).
  { intros H. apply N.ltb_lt. apply (stats_acc_nulls nan vs). right. exact H. }
  assert (Hnans : forall v, In (Some v) vs -> is_nan nan v = true -> (0 <? z_nans z)%N = true).
  { intros v H1 H2. apply N.ltb_lt. apply (stats_acc_nans nan vs). right. exists v. auto. }
  assert (Hcov : forall v, In (Some v) vs -> covers z v).
  { intros v H. apply (stats_acc_covers nan vs). right. exact H. }
  assert (Hk : forall v k, nan = Some k -> In (Some v) vs -> v <= k).
  { intros v k E H. unfold nan_top in Hn. rewrite E in Hn. auto. }
  destruct q as [|t|s e|ts]; cbn [evaluate_zone] in He.
  - destruct c; [discriminate|]. rewrite (Hnulls Hc) in He. discriminate.
  - destruct t as [t|]; [|destruct c; discriminate]. destruct c as [v|]; [|discriminate].
    cbn [matches] in Hm. apply Z.eqb_eq in Hm. subst v.
    destruct (is_nan nan t) eqn:En.
    + rewrite (Hnans t Hc En) in He. discriminate.
    + destruct (Hcov t Hc) as [(m & Em & Lm) (M & EM & LM)]. rewrite Em, EM in He. unfold max_is_nan in He. rewrite EM in He.
      cbn [ole] in He. destruct (is_nan nan M); apply andb_false_iff in He as [He|He]; try discriminate;
        apply Z.leb_gt in He; lia.
  - destruct c as [v|]; [|discriminate]. cbn [matches] in Hm. apply andb_true_iff in Hm as [Hs Hend].
    destruct (Hcov v Hc) as [(m & Em & Lm) (M & EM & LM)].
    assert (Sc : match start_check nan z s with inl r => r = true | inr sc => sc = true end).
    { unfold start_check, max_is_nan, olt. rewrite EM. destruct s as [|a|a]; [reflexivity| |].
      - apply Z.leb_le in Hs. destruct (is_nan nan a) eqn:En.
        + apply (Hnans v Hc). unfold is_nan in *. destruct nan as [k|]; [|discriminate]. apply Z.eqb_eq in En.
          apply Z.eqb_eq. specialize (Hk v k eq_refl Hc). lia.
        + destruct (is_nan nan M); [reflexivity|]. apply ole_some. lia.
      - apply Z.ltb_lt in Hs. destruct (is_nan nan a) eqn:En.
        + unfold is_nan in En. destruct nan as [k|]; [|discriminate]. apply Z.eqb_eq in En.
          specialize (Hk v k eq_refl Hc). lia.
        + apply negb_true_iff. cbn [ole]. apply Z.leb_gt. lia. }
    assert (Ec : match end_check nan z e with inl r => r = true | inr ec => ec = true end).
    { unfold end_check, olt. rewrite Em. destruct e as [|b|b]; [reflexivity| |].
      - apply Z.leb_le in Hend. assert (ole (Some m) (Some b) = true) by (apply ole_some; lia).
        destruct (is_nan nan b); [apply orb_true_iff; right|]; assumption.
      - apply Z.ltb_lt in Hend. destruct (is_nan nan b); [reflexivity|]. apply negb_true_iff. cbn [ole]. apply Z.leb_gt. lia. }
    destruct (start_check nan z s) as [r|sc]; [congruence|]. destruct (end_check nan z e) as [r|ec]; [congruence|].
    subst. discriminate.
  - destruct c as [v|]; [|discriminate]. cbn [matches] in Hm. apply existsb_exists in Hm as (t & Ht & Et).
    destruct t as [t|]; [|discriminate]. apply Z.eqb_eq in Et. subst t.
    assert (existsb (fun v0 => match v0 with None => (0 <? z_nulls z)%N
                               | Some t => if is_nan nan t then (0 <? z_nans z)%N else in_minmax z t end) ts = true); [|congruence].
    apply existsb_exists. exists (Some v). split; [exact Ht|]. destruct (is_nan nan v) eqn:En; [apply (Hnans v Hc En)|].
    destruct (Hcov v Hc) as [(m & Em & Lm) (M & EM & LM)]. unfold in_minmax. rewrite Em, EM.
    apply andb_true_iff; split; apply ole_some; lia.
Qed.

(* ------------------------------------------------------------------ legacy page pruning *)
Lemma page_prune_sound p vs op lit c :
  page_stat_ok p vs -> In c vs -> page_pruned p op lit = true ->
  match c with Some v => cmp_true op v lit | None => false end = false.
Proof.
  intros (Hr & Hnn & Han) Hc Hp. destruct c as [v|]; [|reflexivity]. unfold page_pruned in Hp.
  destruct (p_null p) eqn:En; try (specialize (Han eq_refl _ Hc); discriminate);
    specialize (Hr v Hc); destruct op; cbn [cmp_true];
    repeat match goal with
           | H : (_ || _) = true |- _ => apply orb_true_iff in H as [H|H]
           | H : (_ && _) = true |- _ => apply andb_true_iff in H as [? ?]
           | H : (_ <? _) = true |- _ => apply Z.ltb_lt in H
           | H : (_ <=? _) = true |- _ => apply Z.leb_le in H
           | H : (_ =? _) = true |- _ => apply Z.eqb_eq in H
           end;
    try (apply negb_false_iff; apply Z.eqb_eq; lia); try (apply Z.eqb_neq; lia); try (apply Z.ltb_ge; lia); try (apply Z.leb_gt; lia).
Qed.

(* ------------------------------------------------------------------ string bound truncation *)
Lemma lex_le_refl s : lex_le s s = true.
Proof. induction s as [|a s IH]; cbn [lex_le]; [reflexivity|]. rewrite N.ltb_irrefl. exact IH. Qed.

Lemma lex_le_prefix p rest : lex_le p (p ++ rest) = true.
Proof. induction p as [|a p IH]; cbn [lex_le app]; [reflexivity|]. rewrite N.ltb_irrefl. exact IH. Qed.

Lemma trunc_min_le n s : lex_le (trunc_min n s) s = true.
Proof. unfold trunc_min. rewrite <- (firstn_skipn n s) at 2. apply lex_le_prefix. Qed.

(* the incremented prefix is above EVERY string that starts with the prefix *)
Lemma increment_above p : forall m rest, increment p = Some m -> lex_le (p ++ rest) m = true.
Proof.
  induction p as [|b tl IH]; intros m rest H; cbn [increment] in H; [discriminate|].
  destruct (increment tl) as [tl'|] eqn:E.
  - inversion H; subst. cbn [app lex_le]. rewrite N.ltb_irrefl. apply IH. reflexivity.
  - destruct (N.ltb_spec b 255) as [L|L]; [|discriminate]. inversion H; subst. cbn [app lex_le].
    destruct (N.ltb_spec b (b + 1)) as [L2|L2]; [reflexivity | lia].
Qed.

Lemma trunc_max_ge n s m : trunc_max n s = Some m -> lex_le s m = true.
Proof.
  unfold trunc_max. destruct (Nat.ltb_spec n (length s)) as [L|L]; intros H.
  - rewrite <- (firstn_skipn n s). apply increment_above. exact H.
  - inversion H; subst. apply lex_le_refl.
Qed.

(* increment fails only on the all-0xFF string (then no max bound is recorded) *)
Lemma increment_none s : (forall b, In b s -> (b <= 255)%N) -> increment s = None -> forall b, In b s -> b = 255%N.
Proof.
  induction s as [|a tl IH]; intros Hb H b Hin; [destruct Hin|]. cbn [increment] in H.
  destruct (increment tl) eqn:E; [discriminate|]. destruct (N.ltb_spec a 255) as [L|L]; [discriminate|].
  destruct Hin as [->|Hin]; [specialize (Hb b (or_introl eq_refl)); lia|].
  apply IH; auto. intros x Hx. apply Hb. right. exact Hx.
Qed.
