(* C16 - the planning core of FilteredReadExec (rust/lance/src/io/exec/filtered_read.rs) and the
   literal coercion of rust/lance-datafusion/src/expr.rs, transcribed function by function.
   Executable definitions only.  Debug-build semantics: u64 `+`/`-` that overflow panic,
   `saturating_sub` is N's truncated subtraction, `iter().sum::<u64>()` panics on overflow.

   A range `start..end` of u64 is a pair (start, end); `Vec<Range<u64>>` is a list. *)
From LanceV Require Import Common.Base.
Local Open Scope N_scope.

Definition range := (N * N)%type.
Definition ranges := list range.

Definition obind {A B} (x : outcome A) (f : A -> outcome B) : outcome B :=
  match x with Ok a => f a | Err => Err | Panic => Panic end.
Notation "'do' x <- a ; b" := (obind a (fun x => b)) (at level 200, x name, a at level 100, b at level 200).

(* u64 `a - b` and `a + b` in a debug build *)
Definition csub (a b : N) : outcome N := if b <=? a then Ok (a - b) else Panic.
Definition cadd (a b : N) : outcome N := if a + b <? two64 then Ok (a + b) else Panic.
(* u64::saturating_sub *)
Definition ssub (a b : N) : N := a - b.

Definition range_eqb (a b : range) : bool := (fst a =? fst b) && (snd a =? snd b).
Definition ranges_eqb : ranges -> ranges -> bool := list_eqb range_eqb.

(* `to_read.iter().map(|r| r.end - r.start).sum::<u64>()` *)
Fixpoint sum_rows (rs : ranges) : outcome N :=
  match rs with
  | [] => Ok 0
  | (s, e) :: tl => do n <- csub e s; do m <- sum_rows tl; cadd n m
  end.
(* Iterator::sum folds from the left: 0 + n0 + n1 ...; the Ok value and Panic-ness coincide with the
   right fold above (a partial sum exceeds 2^64 only if the total does, all terms being >= 0; and a
   malformed range panics in either order). *)

(* ---------------------------------------------------------------- DvToValidRanges / full_frag_range *)
(* one `next()` call runs the `for` loop over the remaining deleted rows without re-checking
   `position >= num_rows`; the check happens at the start of the following call *)
Fixpoint dv_inner (dv : list N) (num_rows pos : N) : ranges :=
  match dv with
  | [] => if pos =? num_rows then [] else [(pos, num_rows)]
  | d :: tl =>
      if d =? pos then dv_inner tl num_rows (pos + 1)
      else (pos, d) :: (if num_rows <=? d + 1 then [] else dv_inner tl num_rows (d + 1))
  end.
Definition dv_to_valid_ranges (dv : list N) (num_rows : N) : ranges :=
  if num_rows <=? 0 then [] else dv_inner dv num_rows 0.

(* deletion vector: None, or the sorted iterator of deleted offsets (u32) *)
Definition full_frag_range (num_physical_rows : N) (dv : option (list N)) : ranges :=
  match dv with
  | Some d => dv_to_valid_ranges d num_physical_rows
  | None => [(0, num_physical_rows)]
  end.

(* ---------------------------------------------------------------- calculate_fetch / trim_ranges *)
Definition calculate_fetch (position bounds : range) : N * N :=
  let to_skip := ssub (fst bounds) (fst position) in
  let to_take := ssub (N.min (snd bounds) (snd position)) (N.max (fst position) (fst bounds)) in
  (to_skip, to_take).

Fixpoint trim_loop (rs : ranges) (to_skip to_take : N) : outcome ranges :=
  match rs with
  | [] => Ok []
  | (s, e) :: tl =>
      do range_len <- csub e s;
      if range_len <=? to_skip then trim_loop tl (to_skip - range_len) to_take
      else
        let avail_here := range_len - to_skip in
        let to_take_here := N.min avail_here to_take in
        let to_take' := to_take - to_take_here in
        do pushed <- (if 0 <? to_take_here
                      then do a <- cadd s to_skip; do b <- cadd a to_take_here; Ok [(a, b)]
                      else Ok []);
        if to_take' =? 0 then Ok pushed
        else do rest <- trim_loop tl 0 to_take'; Ok (pushed ++ rest)
  end.

Definition trim_ranges (physical : ranges) (logical_position bounds : range) : outcome ranges :=
  do num_logical_rows <- csub (snd logical_position) (fst logical_position);
  let '(to_skip, to_take) := calculate_fetch logical_position bounds in
  if (to_skip =? 0) && (to_take =? num_logical_rows) then Ok physical
  else trim_loop physical to_skip to_take.

(* ---------------------------------------------------------------- trim_ranges_by_offset *)
(* write_idx <= read_idx throughout, so the in-place writes build the output list *)
Fixpoint trim_by_offset (rs : ranges) (skip_remaining take_remaining : N) : outcome ranges :=
  match rs with
  | [] => Ok []
  | (s, e) :: tl =>
      if take_remaining =? 0 then Ok []
      else
        do range_size <- csub e s;
        if range_size <=? skip_remaining then trim_by_offset tl (skip_remaining - range_size) take_remaining
        else if (skip_remaining =? 0) && (range_size <=? take_remaining) then
          do rest <- trim_by_offset tl 0 (take_remaining - range_size); Ok ((s, e) :: rest)
        else
          let available_in_range := ssub range_size skip_remaining in
          let take_from_range := N.min available_in_range take_remaining in
          do new_start <- cadd s skip_remaining;
          do new_end <- cadd new_start take_from_range;
          do rest <- trim_by_offset tl 0 (take_remaining - take_from_range);
          Ok ((new_start, new_end) :: rest)
  end.

(* ---------------------------------------------------------------- intersect_ranges *)
Fixpoint intersect_ranges (a : ranges) : ranges -> ranges :=
  fix inner (b : ranges) : ranges :=
    match a, b with
    | [], _ => []
    | _, [] => []
    | (s1, e1) :: ta, (s2, e2) :: tb =>
        let st := N.max s1 s2 in
        let en := N.min e1 e2 in
        let hd := if st <? en then [(st, en)] else [] in
        if e1 <=? e2 then hd ++ intersect_ranges ta b else hd ++ inner tb
    end.

(* ---------------------------------------------------------------- apply_skip_take_to_ranges *)
(* returns (to_read, to_skip, to_take) *)
Definition apply_skip_take (to_read : ranges) (to_skip to_take : N) : outcome (ranges * N * N) :=
  if to_take =? 0 then Ok ([], 0, to_take)
  else
    do original_rows <- sum_rows to_read;
    if original_rows <=? to_skip then Ok ([], to_skip - original_rows, to_take)
    else
      do trimmed <- trim_by_offset to_read to_skip to_take;
      do rows_taken <- sum_rows trimmed;
      Ok (trimmed, 0, ssub to_take rows_taken).

(* ---------------------------------------------------------------- plan_scan *)
Inductive ikind := Exact | AtMost | AtLeast.

(* A loaded fragment.  `f_matched` = Some (mask_to_offset_ranges of the index mask) when the fragment is
   in `applicable_fragments` of the evaluated index, None otherwise (or when there is no index).
   Fragment ids are distinct (the two HashMaps keyed by id are modelled positionally). *)
Record frag := {
  f_phys : N;                     (* num_physical_rows *)
  f_logical : N;                  (* num_logical_rows *)
  f_dv : option (list N);         (* deletion vector as loaded (None when with_deleted_rows) *)
  f_matched : option ranges
}.

Record opts := {
  o_before : option range;        (* scan_range_before_filter *)
  o_after : option range;         (* scan_range_after_filter *)
  o_with_deleted : bool;
  o_has_refine : bool;            (* refine_filter.is_some() *)
  o_index : option ikind          (* evaluated_index: kind of index_result *)
}.

(* apply_index_to_fragment: (entry inserted in fragments_to_read, entry inserted in
   scan_push_down_fragments_to_read if any, to_skip', to_take') *)
Definition apply_index_to_fragment (o : opts) (f : frag) (to_read : ranges) (to_skip to_take : N)
  : outcome (ranges * option ranges * N * N) :=
  match o_index o, f_matched f with
  | Some Exact, Some valid =>
      let matched := intersect_ranges to_read valid in
      do r <- apply_skip_take matched to_skip to_take;
      let '(pushed, sk, tk) := r in Ok (matched, Some pushed, sk, tk)
  | Some AtMost, Some valid =>
      Ok (intersect_ranges to_read valid, None, to_skip, to_take)
  | Some AtLeast, Some valid =>
      let guaranteed := intersect_ranges to_read valid in
      do r <- apply_skip_take guaranteed to_skip to_take;
      let '(pushed, sk, tk) := r in Ok (to_read, Some pushed, sk, tk)
  | _, _ => Ok (to_read, None, to_skip, to_take)
  end.

(* result of the first loop of plan_scan: per fragment (aligned with the input list) the entry of
   fragments_to_read and of scan_push_down_fragments_to_read (None = no entry) *)
Definition nones {A} (n : nat) : list (option A) := repeat None n.

(* The 4th component is a ghost output (not in the Rust code): `to_read` of every fragment that reached
   apply_index_to_fragment; it is used only by the finding-class predicate and the proofs. *)
Definition loop_res := (bool * list (option ranges) * list (option ranges) * list (option ranges))%type.

Fixpoint plan_loop (o : opts) (frs : list frag) (to_skip to_take range_offset : N) : outcome loop_res :=
  match frs with
  | [] => Ok (false, [], [], [])
  | f :: tl =>
      let stop := match o_before o with Some (_, be) => be <=? range_offset | None => false end in
      if stop then Ok (false, nones (length frs), nones (length frs), nones (length frs))
      else
        let to_read0 := full_frag_range (f_phys f) (f_dv f) in
        do tr <- (match o_before o with
                  | Some rb =>
                      let n := if o_with_deleted o then f_phys f else f_logical f in
                      do range_end <- cadd range_offset n;
                      do t <- trim_ranges to_read0 (range_offset, range_end) rb;
                      Ok (t, range_end)
                  | None => Ok (to_read0, range_offset)
                  end);
        let '(to_read, range_offset') := tr in
        let skip_frag := match o_before o with Some _ => match to_read with [] => true | _ => false end | None => false end in
        if skip_frag then
          do r <- plan_loop o tl to_skip to_take range_offset';
          let '(p, fu, pu, gh) := r in Ok (p, None :: fu, None :: pu, None :: gh)
        else
          do a <- apply_index_to_fragment o f to_read to_skip to_take;
          let '(full_e, push_e, sk, tk) := a in
          if (tk =? 0) && negb (o_has_refine o) then
            Ok (true, Some full_e :: nones (length tl), push_e :: nones (length tl), Some to_read :: nones (length tl))
          else
            do r <- plan_loop o tl sk tk range_offset';
            let '(p, fu, pu, gh) := r in Ok (p, Some full_e :: fu, push_e :: pu, Some to_read :: gh)
  end.

Inductive which_filter := FRefine | FFull.
Definition which_filter_eqb (a b : which_filter) : bool :=
  match a, b with FRefine, FRefine | FFull, FFull => true | _, _ => false end.

Definition choose_filter (o : opts) (f : frag) (pushed_down : bool) : which_filter :=
  match o_index o, f_matched f with
  | Some Exact, Some _ => FRefine
  | Some AtLeast, Some _ => if pushed_down then FRefine else FFull
  | _, _ => FFull
  end.

(* one planned read per input fragment: None = no ScopedFragmentRead *)
Definition planned := option (ranges * which_filter).

Definition plan_scan (o : opts) (frs : list frag) : outcome (list planned * bool) :=
  let to_skip := match o_after o with Some (s, _) => s | None => 0 end in
  do to_take <- (match o_after o with Some (s, e) => csub e s | None => Ok (two64 - 1) end);
  do r <- plan_loop o frs to_skip to_take 0;
  let '(pushed_down, fulls, pushes, _) := r in
  let entries := if pushed_down then pushes else fulls in
  Ok (map (fun fe : frag * option ranges =>
             match snd fe with
             | Some ((_ :: _) as rs) => Some (rs, choose_filter o (fst fe) pushed_down)
             | _ => None
             end) (combine frs entries),
      pushed_down).

(* ---------------------------------------------------------------- stream level: apply_hard_range *)
(* batches arrive in order (single partition); `rows_seen` is read by take_while before a batch is
   handed to the filter_map that updates it *)
Fixpoint hard_range {A} (batches : list (list A)) (rows_seen start end_ : N) : list (list A) :=
  match batches with
  | [] => []
  | b :: tl =>
      if end_ <? rows_seen then []
      else
        let batch_rows := N.of_nat (length b) in
        if batch_rows =? 0 then hard_range tl rows_seen start end_
        else
          let current_position := rows_seen in
          let batch_end := current_position + batch_rows in
          let rest := hard_range tl batch_end start end_ in
          if (batch_end <=? start) || (end_ <=? current_position) then rest
          else
            let skip := ssub start current_position in
            let end_pos := N.min (end_ - current_position) batch_rows in
            let take := ssub end_pos skip in
            if take =? 0 then rest
            else firstn (N.to_nat take) (skipn (N.to_nat skip) b) :: rest
  end.

(* ---------------------------------------------------------------- executing a plan over abstract rows *)
(* a row is (fragment position, physical offset) *)
Fixpoint seqN (start : N) (len : nat) : list N :=
  match len with O => [] | S k => start :: seqN (start + 1) k end.
Definition flat_range (r : range) : list N := seqN (fst r) (N.to_nat (snd r - fst r)).
Definition flatten (rs : ranges) : list N := flat_map flat_range rs.

Definition rowpred := nat -> N -> bool.
Definition row := (nat * N)%type.

Definition filter_of (o : opts) (refine_p full_p : rowpred) (w : which_filter) : rowpred :=
  match w with
  | FFull => full_p
  | FRefine => if o_has_refine o then refine_p else (fun _ _ => true)
  end.

Fixpoint exec_frags (o : opts) (refine_p full_p : rowpred) (i : nat) (pl : list planned) : list row :=
  match pl with
  | [] => []
  | None :: tl => exec_frags o refine_p full_p (S i) tl
  | Some (rs, w) :: tl =>
      map (fun off => (i, off)) (filter (filter_of o refine_p full_p w i) (flatten rs))
        ++ exec_frags o refine_p full_p (S i) tl
  end.

Definition window {A} (r : option range) (l : list A) : list A :=
  match r with
  | Some (s, e) => firstn (N.to_nat (e - s)) (skipn (N.to_nat s) l)
  | None => l
  end.

(* rows delivered by FilteredReadStream for a plan: the after-filter range is applied to the stream
   only when plan_scan did not push it down *)
Definition exec_plan (o : opts) (refine_p full_p : rowpred) (p : list planned * bool) : list row :=
  let rows := exec_frags o refine_p full_p 0 (fst p) in
  if snd p then rows else window (o_after o) rows.

Definition run_scan (o : opts) (refine_p full_p : rowpred) (frs : list frag) : outcome (list row) :=
  do p <- plan_scan o frs; Ok (exec_plan o refine_p full_p p).

(* ---------------------------------------------------------------- the reference *)
(* rows of a fragment that exist: not deleted (unless with_deleted_rows), in offset order *)
Definition live_offsets (o : opts) (f : frag) : list N :=
  let dels := match f_dv f with Some d => d | None => [] end in
  filter (fun off => negb (existsb (N.eqb off) dels)) (seqN 0 (N.to_nat (f_phys f))).

Fixpoint all_rows (o : opts) (i : nat) (frs : list frag) : list row :=
  match frs with
  | [] => []
  | f :: tl => map (fun off => (i, off)) (live_offsets o f) ++ all_rows o (S i) tl
  end.

Definition reference (o : opts) (full_p : rowpred) (frs : list frag) : list row :=
  window (o_after o)
    (filter (fun r : row => full_p (fst r) (snd r)) (window (o_before o) (all_rows o 0 frs))).

(* ---------------------------------------------------------------- finding class (see Props/C16.v) *)
Definition in_ranges (x : N) (rs : ranges) : bool := existsb (fun r : range => (fst r <=? x) && (x <? snd r)) rs.

(* The pushed-down plan reads, and counts against OFFSET/LIMIT, only rows the index vouches for.
   A visited fragment holds an `unaccounted` row when some row inside its before-filter range
   satisfies the filter but is not in the pushed-down candidate set (fragment not covered by the index,
   or AtLeast mask not containing the row). *)
Definition trimmed_reads (o : opts) (frs : list frag) : outcome loop_res :=
  let to_skip := match o_after o with Some (s, _) => s | None => 0 end in
  do to_take <- (match o_after o with Some (s, e) => csub e s | None => Ok (two64 - 1) end);
  plan_loop o frs to_skip to_take 0.

Definition accounted (o : opts) (f : frag) (to_read : ranges) : ranges :=
  match o_index o, f_matched f with
  | Some Exact, Some valid | Some AtLeast, Some valid => intersect_ranges to_read valid
  | _, _ => []
  end.

Definition has_unaccounted (o : opts) (full_p : rowpred) (i : nat) (f : frag) (to_read : ranges) : bool :=
  existsb (fun off => full_p i off && negb (in_ranges off (accounted o f to_read))) (flatten to_read).

Fixpoint any_unaccounted (o : opts) (full_p : rowpred) (i : nat) (frs : list frag) (visited : list (option ranges)) : bool :=
  match frs, visited with
  | f :: ftl, v :: vtl =>
      (match v with Some t => has_unaccounted o full_p i f t | None => false end)
      || any_unaccounted o full_p (S i) ftl vtl
  | _, _ => false
  end.

Definition Known_C16_limit_pushdown_skips_unguaranteed_rows (o : opts) (full_p : rowpred) (frs : list frag) : bool :=
  match trimmed_reads o frs with
  | Ok (true, _, _, visited) =>
      (match o_after o with Some (s, e) => s <? e | None => true end)
      && any_unaccounted o full_p 0 frs visited
  | _ => false
  end.

(* ---------------------------------------------------------------- safe_coerce_scalar, integer lattice *)
Inductive ity := I8 | I16 | I32 | I64 | U8 | U16 | U32 | U64.
Definition ity_min (t : ity) : Z :=
  match t with
  | I8 => -128 | I16 => -32768 | I32 => -2147483648 | I64 => -9223372036854775808
  | U8 | U16 | U32 | U64 => 0
  end%Z.
Definition ity_max (t : ity) : Z :=
  match t with
  | I8 => 127 | I16 => 32767 | I32 => 2147483647 | I64 => 9223372036854775807
  | U8 => 255 | U16 => 65535 | U32 => 4294967295 | U64 => 18446744073709551615
  end%Z.
Definition ity_eqb (a b : ity) : bool :=
  match a, b with
  | I8, I8 | I16, I16 | I32, I32 | I64, I64 | U8, U8 | U16, U16 | U32, U32 | U64, U64 => true
  | _, _ => false
  end.
Definition in_ity (t : ity) (z : Z) : bool := (ity_min t <=? z)%Z && (z <=? ity_max t)%Z.
(* widening: `T::from(v)` / `v.into()`; narrowing: `T::try_from(v).ok()` *)
Definition widens (src dst : ity) : bool :=
  (ity_min dst <=? ity_min src)%Z && (ity_max src <=? ity_max dst)%Z.

(* literal `ScalarValue::<src>(val)` coerced to integer type dst: Some (Some z) = literal z of type dst,
   Some None = typed NULL of type dst, None = cannot coerce (the filter is rejected) *)
Definition coerce_int (src : ity) (val : option Z) (dst : ity) : option (option Z) :=
  if ity_eqb src dst then Some val                       (* Some(value.clone()) *)
  else match val with
       | None => None                                    (* val.map(..) / val.and_then(..) on None *)
       | Some v => if widens src dst then Some (Some v)
                   else if in_ity dst v then Some (Some v) else None
       end.

(* ---------------------------------------------------------------- correspondence checkers *)
Definition oranges_eqb : outcome ranges -> outcome ranges -> bool := outcome_eqb ranges_eqb.

Definition chk_trim_by_offset (i : ranges * N * N) (o : outcome ranges) : bool :=
  let '(rs, sk, tk) := i in oranges_eqb (trim_by_offset rs sk tk) o.
Definition chk_intersect (i : ranges * ranges) (o : outcome ranges) : bool :=
  oranges_eqb (Ok (intersect_ranges (fst i) (snd i))) o.
Definition chk_apply_skip_take (i : ranges * N * N) (o : outcome (ranges * N * N)) : bool :=
  let '(rs, sk, tk) := i in
  outcome_eqb (fun a b : ranges * N * N =>
                 ranges_eqb (fst (fst a)) (fst (fst b)) && (snd (fst a) =? snd (fst b)) && (snd a =? snd b))
              (apply_skip_take rs sk tk) o.
Definition chk_full_frag_range (i : N * option (list N)) (o : outcome ranges) : bool :=
  oranges_eqb (Ok (full_frag_range (fst i) (snd i))) o.
Definition chk_calculate_fetch (i : range * range) (o : outcome (N * N)) : bool :=
  outcome_eqb (fun a b : N * N => (fst a =? fst b) && (snd a =? snd b)) (Ok (calculate_fetch (fst i) (snd i))) o.
Definition chk_trim_ranges (i : ranges * range * range) (o : outcome ranges) : bool :=
  let '(rs, pos, bnd) := i in oranges_eqb (trim_ranges rs pos bnd) o.

(* whole scans through FilteredReadExec with a synthetic index result: the rows (fragment position,
   offset) delivered by the real stream vs run_scan.  Row predicates travel as per-fragment lists of
   offsets on which they are TRUE. *)
Definition pred_of (tbl : list (list N)) : rowpred :=
  fun i off => existsb (N.eqb off) (nth i tbl []).
Definition row_eqb (a b : row) : bool := Nat.eqb (fst a) (fst b) && (snd a =? snd b).
Definition chk_run_scan (i : opts * list frag * list (list N) * list (list N)) (o : outcome (list (N * N))) : bool :=
  let '(op, frs, refine_t, full_t) := i in
  outcome_eqb (list_eqb row_eqb) (run_scan op (pred_of refine_t) (pred_of full_t) frs)
    (match o with Ok l => Ok (map (fun r : N * N => (N.to_nat (fst r), snd r)) l) | Err => Err | Panic => Panic end).
(* the Rust copy of the class predicate vs the Coq one *)
Definition chk_class (i : opts * list frag * list (list N)) (o : bool) : bool :=
  let '(op, frs, full_t) := i in
  Bool.eqb (Known_C16_limit_pushdown_skips_unguaranteed_rows op (pred_of full_t) frs) o.

Definition chk_coerce_int (i : ity * option Z * ity) (o : option (option Z)) : bool :=
  let '(src, v, dst) := i in
  option_eqb (option_eqb Z.eqb) (coerce_int src v dst) o.

(* apply_hard_range over batch lengths: batches as lists of row numbers *)
Definition chk_hard_range (i : list (list N) * N * N) (o : list (list N)) : bool :=
  let '(bs, s, e) := i in list_eqb (list_eqb N.eqb) (hard_range bs 0 s e) o.

(* ---------------------------------------------------------------- reference evaluator (SQL three-valued logic) *)
(* The small expression language of the end-to-end arm over integer/boolean columns; a cell is
   `option Z` (None = NULL).  The harness' brute-force evaluator is compared with this one (stream
   `eval3`); that DataFusion evaluates filters like this is what the e2e arm tests (not proved). *)
Inductive cmp := Ceq | Cne | Clt | Cle | Cgt | Cge.
Inductive expr :=
| ECmp (c : cmp) (col : nat) (lit : option Z)
| EAnd (a b : expr)
| EOr (a b : expr)
| ENot (a : expr)
| EIsNull (col : nat)
| EIn (col : nat) (lits : list (option Z))
| EBetween (col : nat) (lo hi : option Z).

Definition tv := option bool.   (* None = NULL/UNKNOWN *)
Definition tv_and (a b : tv) : tv :=
  match a, b with
  | Some false, _ | _, Some false => Some false
  | Some true, Some true => Some true
  | _, _ => None
  end.
Definition tv_or (a b : tv) : tv :=
  match a, b with
  | Some true, _ | _, Some true => Some true
  | Some false, Some false => Some false
  | _, _ => None
  end.
Definition tv_not (a : tv) : tv := option_map negb a.
Definition cmp_z (c : cmp) (x y : Z) : bool :=
  match c with
  | Ceq => Z.eqb x y | Cne => negb (Z.eqb x y)
  | Clt => Z.ltb x y | Cle => Z.leb x y | Cgt => Z.ltb y x | Cge => Z.leb y x
  end.
Definition tv_cmp (c : cmp) (x y : option Z) : tv :=
  match x, y with Some a, Some b => Some (cmp_z c a b) | _, _ => None end.
Definition cell (r : list (option Z)) (col : nat) : option Z := nth col r None.

Fixpoint eval3 (e : expr) (r : list (option Z)) : tv :=
  match e with
  | ECmp c col lit => tv_cmp c (cell r col) lit
  | EAnd a b => tv_and (eval3 a r) (eval3 b r)
  | EOr a b => tv_or (eval3 a r) (eval3 b r)
  | ENot a => tv_not (eval3 a r)
  | EIsNull col => Some (match cell r col with None => true | Some _ => false end)
  | EIn col lits => fold_right (fun l acc => tv_or (tv_cmp Ceq (cell r col) l) acc) (Some false) lits
  | EBetween col lo hi => tv_and (tv_cmp Cge (cell r col) lo) (tv_cmp Cle (cell r col) hi)
  end.
Definition is_true (t : tv) : bool := match t with Some true => true | _ => false end.

Definition tv_eqb (a b : tv) : bool := option_eqb Bool.eqb a b.
Definition chk_eval3 (i : expr * list (option Z)) (o : tv) : bool := tv_eqb (eval3 (fst i) (snd i)) o.

(* ---------------------------------------------------------------- Scanner: which OFFSET/LIMIT is applied *)
(* Scanner::get_scan_range + filtered_read_source + create_plan stage 4 (non-legacy storage), over the
   rows that satisfy the filter, already ordered.  Without filter and ordering the window is pushed
   into the read as scan_range_before_filter (rows = the whole table, num_rows = its length) and no
   limit node is added; otherwise a GlobalLimitExec(skip = offset or 0, fetch = limit) is added iff
   `limit.unwrap_or(0) > 0 || offset.is_some()`. *)
Definition opt_firstn {A} (limit : option N) (l : list A) : list A :=
  match limit with Some k => firstn (N.to_nat k) l | None => l end.
Definition sql_limit {A} (limit offset : option N) (rows : list A) : list A :=
  opt_firstn limit (skipn (N.to_nat (match offset with Some o => o | None => 0 end)) rows).
Definition scanner_limit {A} (limit offset : option N) (has_filter has_order : bool) (rows : list A) : list A :=
  if negb has_filter && negb has_order then
    let n := N.of_nat (length rows) in
    match limit, offset with
    | None, None => rows
    | Some l, None => window (Some (0, N.min l n)) rows
    | None, Some o => window (Some (N.min o n, n)) rows
    | Some l, Some o => window (Some (N.min o n, N.min (o + l) n)) rows
    end
  else if (0 <? match limit with Some l => l | None => 0 end) || (match offset with Some _ => true | None => false end)
       then sql_limit limit offset rows
       else rows.
Definition Known_C16_limit_zero_ignored (limit offset : option N) (has_filter has_order : bool) : bool :=
  match limit, offset with
  | Some 0, None => has_filter || has_order
  | _, _ => false
  end.
(* number of rows a scan returns, given how many rows match the filter *)
Definition chk_limit_window (i : option N * option N * bool * bool * N) (o : N) : bool :=
  let '(limit, offset, hf, ho, matching) := i in
  N.of_nat (length (scanner_limit limit offset hf ho (repeat tt (N.to_nat matching)))) =? o.
