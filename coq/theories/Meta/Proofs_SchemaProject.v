(* C43: Schema::project (by column paths) is the union, on name paths, of the named fields with their
   ancestors and descendants - provided every column exists and names a plain top-level field. *)
From LanceV Require Import Common.Base Meta.Model_Schema Meta.Proofs_Schema Meta.Proofs_SchemaTree Meta.Proofs_SchemaNames
  Meta.Proofs_SchemaMerge.
Local Open Scope N_scope.

(* ------------------------------------------------------------------ selections of one field *)

(* g is f0 with some descendants left out (children found by name in f0), same attributes *)
Fixpoint sel_of (g f0 : field) {struct g} : Prop :=
  match g with
  | Fld a ch =>
      a = fa f0 /\
      (fix all (cs : list field) : Prop :=
         match cs with
         | [] => True
         | c :: r => (exists c0, find_name (fname c) (fch f0) = Some c0 /\ sel_of c c0) /\ all r
         end) ch
  end.

Lemma sel_of_unfold (a : attrs) (ch : list field) (f0 : field) :
  sel_of (Fld a ch) f0 <->
  a = fa f0 /\ Forall (fun c => exists c0, find_name (fname c) (fch f0) = Some c0 /\ sel_of c c0) ch.
Proof.
  cbn [sel_of]. split; intros [H1 H2]; (split; [exact H1|]).
  - induction ch as [|c r IH]; [constructor|]. destruct H2 as [Hc Hr]. constructor; [exact Hc | apply IH; exact Hr].
  - induction ch as [|c r IH]; [exact I|]. inversion H2; subst. split; [assumption | apply IH; assumption].
Qed.

Lemma sel_of_attrs (g f0 : field) : sel_of g f0 -> fa g = fa f0.
Proof. destruct g as [a ch]. intros H. apply sel_of_unfold in H as [H _]. exact H. Qed.

Lemma sel_of_children (g f0 : field) :
  sel_of g f0 -> forall c, In c (fch g) -> exists c0, find_name (fname c) (fch f0) = Some c0 /\ sel_of c c0.
Proof.
  destruct g as [a ch]. intros H c Hc. apply sel_of_unfold in H as [_ H]. rewrite Forall_forall in H. apply H. exact Hc.
Qed.

Lemma sel_refl (f : field) : names_unique_f f = true -> sel_of f f.
Proof.
  induction f as [a ch IH] using field_ind'. intros Hu. apply sel_of_unfold. split; [reflexivity|].
  destruct (names_unique_f_children _ Hu) as [Hn Hc]. cbn [fch] in *.
  apply Forall_forall. intros c Hin. exists c. split; [apply nodup_by_find; assumption|].
  rewrite Forall_forall in IH. apply (IH c Hin). apply Hc. exact Hin.
Qed.

Lemma dt_ok_struct_children (a : attrs) (ch : list field) :
  a_ty a = LStruct -> dt_ok (Fld a ch) = true -> forall c, In c ch -> dt_ok c = true.
Proof. intros Ht H c Hc. cbn [dt_ok] in H. rewrite Ht in H. eapply forallb_forall in H; eauto. Qed.

Lemma merge_children_exists (ocs : list field) : forall cs,
  nodup_by str_eqb (map fname ocs) = true ->
  (forall oc c, In oc ocs -> In c cs -> fname c = fname oc -> exists r1, fmerge oc c = Ok r1) ->
  exists cs', merge_children ocs cs = Ok cs'.
Proof.
  induction ocs as [|oc rest IH]; intros cs Hn H; [eexists; reflexivity|].
  cbn [map nodup_by] in Hn. apply andb_true_iff in Hn as [Hoc Hrest]. apply negb_true_iff in Hoc.
  assert (Hfresh : forall oc', In oc' rest -> fname oc' <> fname oc).
  { intros oc' Hin E. assert (X : existsb (str_eqb (fname oc)) (map fname rest) = true).
    { apply existsb_exists. exists (fname oc'). split; [apply in_map; exact Hin | apply str_eqb_eq; symmetry; exact E]. }
    congruence. }
  cbn [merge_children]. destruct (upd_first (fname oc) (fmerge oc) cs) as [out|] eqn:Eu.
  - destruct (upd_first_some _ _ _ _ Eu) as [pre [c [post [Hcs [Hcn [Hpre Hout]]]]]].
    destruct (H oc c (or_introl eq_refl)) as [r1 Hr1]; [subst cs; apply in_or_app; right; left; reflexivity | exact Hcn|].
    rewrite Hr1 in Hout. subst out. apply IH; [exact Hrest|].
    intros oc' c' Hoc' Hc' Hn'. apply in_app_or in Hc' as [Hc' | [<- | Hc']].
    + apply (H oc' c'); [right; exact Hoc' | subst cs; apply in_or_app; left; exact Hc' | exact Hn'].
    + exfalso. apply (Hfresh oc' Hoc'). rewrite <- Hn'. unfold fname. rewrite (fmerge_attrs _ _ _ Hr1). exact Hcn.
    + apply (H oc' c'); [right; exact Hoc' | subst cs; apply in_or_app; right; right; exact Hc' | exact Hn'].
  - apply IH; [exact Hrest|]. intros oc' c' Hoc' Hc' Hn'. apply in_app_or in Hc' as [Hc' | [<- | []]].
    + apply (H oc' c'); [right; exact Hoc' | exact Hc' | exact Hn'].
    + exfalso. apply (Hfresh oc' Hoc'). symmetry. exact Hn'.
Qed.

Lemma single_child (ch : list field) (n : str) :
  nodup_by str_eqb (map fname ch) = true -> (forall c, In c ch -> fname c = n) -> ch <> [] -> exists c, ch = [c].
Proof.
  intros Hn Hall Hne. destruct ch as [|c [|d r]]; [contradiction | exists c; reflexivity|]. exfalso.
  cbn [map nodup_by existsb] in Hn. apply andb_true_iff in Hn as [H _]. apply negb_true_iff in H.
  rewrite (Hall c (or_introl eq_refl)), (Hall d (or_intror (or_introl eq_refl))), str_eqb_refl in H. discriminate.
Qed.

Lemma find_name_single (n : str) (c0 x : field) : find_name n [c0] = Some x -> x = c0 /\ fname c0 = n.
Proof.
  unfold find_name. cbn [find]. destruct (str_eqb (fname c0) n) eqn:E; [|discriminate].
  intros H. inversion H; subst. apply str_eqb_eq in E. split; [reflexivity | exact E].
Qed.

(* the item child of a list-typed selection *)
Lemma sel_list_single (a0 : attrs) (c0 : field) (ch : list field) :
  sel_of (Fld a0 ch) (Fld a0 [c0]) -> names_unique_f (Fld a0 ch) = true -> ch <> [] ->
  exists c, ch = [c] /\ fname c = fname c0 /\ sel_of c c0.
Proof.
  intros Hs Hu Hne. pose proof (sel_of_children _ _ Hs) as S. cbn [fch] in S.
  destruct (names_unique_f_children _ Hu) as [Hn _]. cbn [fch] in Hn.
  destruct (single_child ch (fname c0) Hn) as [c ->]; [|exact Hne|].
  - intros c Hc. destruct (S c Hc) as [x [F _]]. apply find_name_single in F as [_ F]. symmetry. exact F.
  - exists c. split; [reflexivity|]. destruct (S c (or_introl eq_refl)) as [x [F Sx]].
    apply find_name_single in F as [-> F]. split; [symmetry; exact F | exact Sx].
Qed.

Lemma sel_leaf_no_children (a0 : attrs) (och : list field) : sel_of (Fld a0 och) (Fld a0 []) -> och = [].
Proof.
  intros H. pose proof (sel_of_children _ _ H) as S. cbn [fch] in S.
  destruct och as [|c r]; [reflexivity|]. destruct (S c (or_introl eq_refl)) as [x [F _]]. discriminate.
Qed.

(* two selections of the same well-shaped field can always be merged, and the result is again one *)
Lemma sel_merge (h : field) : forall g f0,
  sel_of g f0 -> sel_of h f0 -> shape_ok f0 = true ->
  names_unique_f g = true -> names_unique_f h = true -> dt_ok g = true -> dt_ok h = true ->
  agree g h = true /\ exists r, fmerge h g = Ok r /\ dt_ok r = true /\ sel_of r f0.
Proof.
  induction h as [b och IH] using field_ind'. intros [a ch] [a0 ch0] Hg Hh Hs Hug Huh Hdg Hdh.
  pose proof (sel_of_attrs _ _ Hg) as Ea. pose proof (sel_of_attrs _ _ Hh) as Eb. cbn [fa] in Ea, Eb. subst a b.
  rewrite fmerge_unfold. rewrite Hdg, Hdh. cbn [negb orb]. unfold fty. cbn [fa fch].
  destruct (names_unique_f_children _ Hug) as [Hng Hcg]. destruct (names_unique_f_children _ Huh) as [Hnh Hch]. cbn [fch] in *.
  pose proof (sel_of_children _ _ Hg) as Sg. pose proof (sel_of_children _ _ Hh) as Sh. cbn [fch] in Sg, Sh.
  cbn [agree]. unfold fty. cbn [fa fch].
  destruct (a_ty a0) eqn:Et.
  - (* struct *)
    assert (Hdc : forall c, In c ch -> dt_ok c = true) by (apply (dt_ok_struct_children a0 ch Et Hdg)).
    assert (Hdo : forall c, In c och -> dt_ok c = true) by (apply (dt_ok_struct_children a0 och Et Hdh)).
    assert (Hstep : forall oc c, In oc och -> In c ch -> fname c = fname oc ->
              agree c oc = true /\ exists r1 c0, fmerge oc c = Ok r1 /\ dt_ok r1 = true /\
                find_name (fname c) ch0 = Some c0 /\ sel_of r1 c0).
    { intros oc c Hoc Hc Hn. destruct (Sg c Hc) as [c0 [F1 S1]]. destruct (Sh oc Hoc) as [c0' [F2 S2]].
      rewrite <- Hn, F1 in F2. inversion F2; subst c0'. destruct (find_name_some _ _ _ F1) as [Hin0 _].
      pose proof (shape_ok_children _ Hs c0 Hin0) as Hs0. rewrite Forall_forall in IH.
      destruct (IH oc Hoc c c0 S1 S2 Hs0 (Hcg c Hc) (Hch oc Hoc) (Hdc c Hc) (Hdo oc Hoc)) as [Hag [r1 [Hm [Hd Hsel]]]].
      split; [exact Hag|]. exists r1, c0. auto. }
    split.
    + apply forallb_forall. intros c Hc. destruct (find_name (fname c) och) as [oc|] eqn:Eo; [|reflexivity].
      destruct (find_name_some _ _ _ Eo) as [Hoc Hn]. apply (Hstep oc c Hoc Hc (eq_sym Hn)).
    + destruct (merge_children_exists och ch Hnh) as [cs Hcs].
      { intros oc c Hoc Hc Hn. destruct (Hstep oc c Hoc Hc Hn) as [_ [r1 [c0 [Hm _]]]]. exists r1. exact Hm. }
      rewrite Hcs. exists (Fld a0 cs). split; [reflexivity|].
      destruct (merge_children_spec och ch cs Hcs Hnh Hng) as [_ [_ Hprov]].
      split.
      * cbn [dt_ok]. rewrite Et. apply forallb_forall. intros x Hx.
        destruct (Hprov x Hx) as [Hin | [Hin | [c [oc [Hc [Hoc [Hn Hm]]]]]]]; [apply Hdc; exact Hin | apply Hdo; exact Hin|].
        destruct (Hstep oc c Hoc Hc Hn) as [_ [r1 [c0 [Hm' [Hd _]]]]]. rewrite Hm in Hm'. inversion Hm'; subst. exact Hd.
      * apply sel_of_unfold. split; [reflexivity|]. cbn [fch]. apply Forall_forall. intros x Hx.
        destruct (Hprov x Hx) as [Hin | [Hin | [c [oc [Hc [Hoc [Hn Hm]]]]]]]; [apply Sg; exact Hin | apply Sh; exact Hin|].
        destruct (Hstep oc c Hoc Hc Hn) as [_ [r1 [c0 [Hm' [_ [F Hsel]]]]]]. rewrite Hm in Hm'. inversion Hm'; subst r1.
        exists c0. split; [|exact Hsel]. unfold fname. rewrite (fmerge_attrs _ _ _ Hm). exact F.
  - (* list *)
    cbn [shape_ok] in Hs. rewrite Et in Hs. destruct ch0 as [|c0 [|d0 r0]]; try discriminate.
    assert (Hne1 : ch <> []) by (intros ->; cbn [dt_ok] in Hdg; rewrite Et in Hdg; discriminate).
    assert (Hne2 : och <> []) by (intros ->; cbn [dt_ok] in Hdh; rewrite Et in Hdh; discriminate).
    destruct (sel_list_single a0 c0 ch Hg Hug Hne1) as [c [-> [Hn1 S1]]].
    destruct (sel_list_single a0 c0 och Hh Huh Hne2) as [oc [-> [Hn2 S2]]].
    assert (Hdc : dt_ok c = true) by (cbn [dt_ok] in Hdg; rewrite Et in Hdg; exact Hdg).
    assert (Hdo : dt_ok oc = true) by (cbn [dt_ok] in Hdh; rewrite Et in Hdh; exact Hdh).
    inversion IH as [|? ? IHoc _]; subst.
    destruct (IHoc c c0 S1 S2 Hs (Hcg c (or_introl eq_refl)) (Hch oc (or_introl eq_refl)) Hdc Hdo) as [Hag [r1 [Hm [Hd Hsel]]]].
    split; [rewrite Hn1, Hn2, str_eqb_refl, Hag; reflexivity|].
    rewrite Hm. exists (Fld a0 [r1]). split; [reflexivity|]. split; [cbn [dt_ok]; rewrite Et; exact Hd|].
    apply sel_of_unfold. split; [reflexivity|]. cbn [fch]. constructor; [|constructor].
    exists c0. split; [|exact Hsel]. unfold find_name. cbn [find]. unfold fname at 2. rewrite (fmerge_attrs _ _ _ Hm).
    fold (fname c). rewrite Hn1, str_eqb_refl. reflexivity.
  - (* large_list *)
    cbn [shape_ok] in Hs. rewrite Et in Hs. destruct ch0 as [|c0 [|d0 r0]]; try discriminate.
    assert (Hne1 : ch <> []) by (intros ->; cbn [dt_ok] in Hdg; rewrite Et in Hdg; discriminate).
    assert (Hne2 : och <> []) by (intros ->; cbn [dt_ok] in Hdh; rewrite Et in Hdh; discriminate).
    destruct (sel_list_single a0 c0 ch Hg Hug Hne1) as [c [-> [Hn1 S1]]].
    destruct (sel_list_single a0 c0 och Hh Huh Hne2) as [oc [-> [Hn2 S2]]].
    assert (Hdc : dt_ok c = true) by (cbn [dt_ok] in Hdg; rewrite Et in Hdg; exact Hdg).
    assert (Hdo : dt_ok oc = true) by (cbn [dt_ok] in Hdh; rewrite Et in Hdh; exact Hdh).
    inversion IH as [|? ? IHoc _]; subst.
    destruct (IHoc c c0 S1 S2 Hs (Hcg c (or_introl eq_refl)) (Hch oc (or_introl eq_refl)) Hdc Hdo) as [Hag [r1 [Hm [Hd Hsel]]]].
    split; [rewrite Hn1, Hn2, str_eqb_refl, Hag; reflexivity|].
    rewrite Hm. exists (Fld a0 [r1]). split; [reflexivity|]. split; [cbn [dt_ok]; rewrite Et; exact Hd|].
    apply sel_of_unfold. split; [reflexivity|]. cbn [fch]. constructor; [|constructor].
    exists c0. split; [|exact Hsel]. unfold find_name. cbn [find]. unfold fname at 2. rewrite (fmerge_attrs _ _ _ Hm).
    fold (fname c). rewrite Hn1, str_eqb_refl. reflexivity.
  - (* fixed_size_list: a leaf *)
    cbn [shape_ok] in Hs. rewrite Et in Hs. destruct ch0; [|discriminate].
    rewrite (sel_leaf_no_children a0 och Hh). split; [reflexivity|]. rewrite N.eqb_refl.
    exists (Fld a0 ch). split; [reflexivity|]. split; [exact Hdg | exact Hg].
  - (* fixed_size_binary *)
    cbn [shape_ok] in Hs. rewrite Et in Hs. destruct ch0; [|discriminate].
    rewrite (sel_leaf_no_children a0 och Hh). split; [reflexivity|]. rewrite N.eqb_refl.
    exists (Fld a0 ch). split; [reflexivity|]. split; [exact Hdg | exact Hg].
  - (* any other leaf type *)
    cbn [shape_ok] in Hs. rewrite Et in Hs. destruct ch0; [|discriminate].
    rewrite (sel_leaf_no_children a0 och Hh). split; [reflexivity|].
    assert (E : dt_eqb (Fld a0 ch) (Fld a0 []) = true) by (cbn [dt_eqb]; rewrite Et; apply N.eqb_refl).
    rewrite E. exists (Fld a0 ch). split; [reflexivity|]. split; [exact Hdg | exact Hg].
Qed.

(* ------------------------------------------------------------------ Field::project *)

Fixpoint prefixb (a b : list str) : bool :=
  match a, b with
  | [], _ => true
  | x :: r, y :: s => str_eqb x y && prefixb r s
  | _ :: _, [] => false
  end.
(* p lies on, above or below the path q *)
Definition related (p q : list str) : bool := prefixb p q || prefixb q p.

Lemma fproject_attrs (f : field) (rest : list str) : fa (fproject f rest) = fa f.
Proof. destruct rest; reflexivity. Qed.

Lemma fproject_sel (rest : list str) : forall f, names_unique_f f = true -> sel_of (fproject f rest) f.
Proof.
  induction rest as [|q rest IH]; intros f Hu; [apply sel_refl; exact Hu|].
  cbn [fproject]. apply sel_of_unfold. split; [reflexivity|].
  destruct (find_name q (fch f)) as [c|] eqn:E; [|constructor].
  destruct (find_name_some _ _ _ E) as [Hin Hn]. constructor; [|constructor].
  exists c. split.
  - unfold fname. rewrite fproject_attrs. fold (fname c). rewrite Hn. exact E.
  - apply IH. destruct (names_unique_f_children _ Hu) as [_ H]. apply H. exact Hin.
Qed.

Lemma fproject_names_unique (rest : list str) : forall f, names_unique_f f = true -> names_unique_f (fproject f rest) = true.
Proof.
  induction rest as [|q rest IH]; intros f Hu; [exact Hu|].
  cbn [fproject]. cbn [names_unique_f]. destruct (find_name q (fch f)) as [c|] eqn:E; [|reflexivity].
  destruct (find_name_some _ _ _ E) as [Hin _]. cbn [map nodup_by existsb forallb negb andb].
  rewrite IH; [reflexivity|]. destruct (names_unique_f_children _ Hu) as [_ H]. apply H. exact Hin.
Qed.

Lemma fproject_dt_ok (rest : list str) : forall f,
  shape_ok f = true -> fresolve f rest <> None -> dt_ok (fproject f rest) = true.
Proof.
  induction rest as [|q rest IH]; intros f Hs Hr; [apply shape_ok_dt_ok; exact Hs|].
  cbn [fresolve] in Hr. cbn [fproject]. destruct (find_name q (fch f)) as [c|] eqn:E; [|contradiction].
  destruct (find_name_some _ _ _ E) as [Hin _].
  assert (Hc : dt_ok (fproject c rest) = true).
  { apply IH; [apply (shape_ok_children _ Hs c Hin)|]. destruct (fresolve c rest); [discriminate | contradiction]. }
  destruct f as [a ch]. cbn [fa dt_ok]. destruct (a_ty a); try reflexivity; cbn [forallb]; rewrite Hc; reflexivity.
Qed.

Lemma prefixb_nil_r (p : list str) : prefixb p [] = is_nil p.
Proof. destruct p; reflexivity. Qed.

Lemma fproject_lookup (rest : list str) : forall f p, p <> [] ->
  lookup_a (fch (fproject f rest)) p = if related p rest then lookup_a (fch f) p else None.
Proof.
  unfold related. induction rest as [|q rest IH]; intros f p Hp.
  - cbn [fproject prefixb]. rewrite orb_true_r. reflexivity.
  - destruct p as [|n p']; [contradiction|]. cbn [fproject prefixb].
    assert (Hfn : forall x, fname (fproject x rest) = fname x) by (intros x; unfold fname; rewrite fproject_attrs; reflexivity).
    destruct (str_eqb n q) eqn:En.
    + apply str_eqb_eq in En. subst n. rewrite (str_eqb_refl q). cbn [andb].
      destruct (find_name q (fch f)) as [c|] eqn:E.
      * destruct (find_name_some _ _ _ E) as [_ Hcn]. cbn [fch]. unfold lookup_a.
        destruct p' as [|m p''].
        -- cbn [lookup prefixb]. unfold find_name at 1. cbn [find]. rewrite Hfn, Hcn, str_eqb_refl. cbn [orb].
           rewrite E. cbn. rewrite fproject_attrs. reflexivity.
        -- rewrite !lookup_cons by discriminate. unfold find_name at 1. cbn [find]. rewrite Hfn, Hcn, str_eqb_refl.
           rewrite E. apply (IH c (m :: p'')). discriminate.
      * cbn [fch]. unfold lookup_a. rewrite lookup_nil. cbn [option_map].
        destruct p' as [|m p'']; [cbn [lookup]; rewrite E; destruct (_ || _); reflexivity|].
        rewrite lookup_cons by discriminate. rewrite E. destruct (_ || _); reflexivity.
    + assert (En' : str_eqb q n = false).
      { apply str_eqb_neq. intros ->. rewrite str_eqb_refl in En. discriminate. }
      rewrite En'. cbn [andb orb]. unfold lookup_a.
      destruct (find_name q (fch f)) as [c|] eqn:E; cbn [fch]; [|rewrite lookup_nil; reflexivity].
      destruct (find_name_some _ _ _ E) as [_ Hcn].
      destruct p' as [|m p''].
      * cbn [lookup]. unfold find_name. cbn [find]. rewrite Hfn, Hcn, En'. reflexivity.
      * rewrite lookup_cons by discriminate. unfold find_name. cbn [find]. rewrite Hfn, Hcn, En'. reflexivity.
Qed.

(* ------------------------------------------------------------------ Schema::project *)

Definition col_path (col : str) : list str := match parse_field_path col with Ok l => l | _ => [] end.
Definition covered (cols : list str) (p : list str) : bool := existsb (fun col => related p (col_path col)) cols.

(* a column that exists and whose first segment is a plain name *)
Definition col_ok (s : schema) (col : str) : Prop :=
  resolve s col <> None /\ match col_path col with first :: _ => plain first = true | [] => False end.

Lemma col_ok_inv (s : schema) (col : str) : col_ok s col ->
  exists first rest f, parse_field_path col = Ok (first :: rest) /\ plain first = true /\
    find_name first s = Some f /\ fresolve f rest <> None.
Proof.
  unfold col_ok, resolve, col_path. intros [H1 H2].
  destruct (parse_field_path col) as [[|first rest]| |]; try contradiction.
  destruct (find_name first s) as [f|] eqn:E; [|contradiction].
  exists first, rest, f. auto.
Qed.

Definition if_some {A} (b : bool) (x : option A) : option A := if b then x else None.

Lemma orelse_if {A} (a b : bool) (x : option A) : orelse (if_some a x) (if_some b x) = if_some (a || b) x.
Proof. destruct a, b, x; reflexivity. Qed.

Lemma lookup_top (fs : list field) (n : str) (p' : list str) :
  lookup_a fs (n :: p') = match find_name n fs with
                          | Some f => match p' with [] => Some (fa f) | _ => lookup_a (fch f) p' end
                          | None => None
                          end.
Proof.
  unfold lookup_a. destruct p' as [|m q].
  - cbn [lookup]. destruct (find_name n fs); reflexivity.
  - rewrite lookup_cons by discriminate. destruct (find_name n fs); reflexivity.
Qed.

Section Project.
Variable s : schema.
Hypothesis Hshape : forallb shape_ok s = true.
Hypothesis Huniq : names_unique s = true.

(* candidates built so far from the columns Q *)
Definition inv (cands : list field) (Q : list str) : Prop :=
  nodup_by str_eqb (map fname cands) = true /\
  (forall c, In c cands -> exists f, find_name (fname c) s = Some f /\ sel_of c f /\
                                     names_unique_f c = true /\ dt_ok c = true) /\
  (forall p, p <> [] -> lookup_a cands p = if_some (covered Q p) (lookup_a s p)).

Lemma covered_app (Q : list str) (col : str) (p : list str) :
  covered (Q ++ [col]) p = covered Q p || related p (col_path col).
Proof. unfold covered. rewrite existsb_app. cbn [existsb]. rewrite orb_false_r. reflexivity. Qed.

Lemma related_top (n first : str) (p' rest : list str) :
  related (n :: p') (first :: rest) = str_eqb n first && match p' with [] => true | _ => related p' rest end.
Proof.
  unfold related. cbn [prefixb].
  destruct (str_eqb n first) eqn:E.
  - apply str_eqb_eq in E. subst n. rewrite str_eqb_refl. cbn [andb]. destruct p'; [cbn; reflexivity | reflexivity].
  - assert (E' : str_eqb first n = false) by (apply str_eqb_neq; intros ->; rewrite str_eqb_refl in E; discriminate).
    rewrite E'. reflexivity.
Qed.

Lemma do_project_step (cands : list field) (Q : list str) (col : str) (e : bool) (rest_cols : list str) :
  inv cands Q -> col_ok s col ->
  exists cands', do_project_go s (col :: rest_cols) e cands = do_project_go s rest_cols e cands' /\ inv cands' (Q ++ [col]).
Proof.
  intros [I1 [I2 I3]] Hcol.
  destruct (col_ok_inv s col Hcol) as [first [rest [f [Hparse [Hplain [Hfind Hres]]]]]].
  assert (Hcp : col_path col = first :: rest) by (unfold col_path; rewrite Hparse; reflexivity).
  unfold names_unique in Huniq. apply andb_true_iff in Huniq as [Hu1 Hu2].
  destruct (find_name_some _ _ _ Hfind) as [Hfin Hfn].
  assert (Huf : names_unique_f f = true) by (eapply forallb_forall in Hu2; eauto).
  assert (Hsf : shape_ok f = true) by (eapply forallb_forall in Hshape; eauto).
  set (pf := fproject f rest).
  assert (Hpfn : fname pf = first) by (unfold pf, fname; rewrite fproject_attrs; exact Hfn).
  assert (Hpf_sel : sel_of pf f) by (apply fproject_sel; exact Huf).
  assert (Hpf_u : names_unique_f pf = true) by (apply fproject_names_unique; exact Huf).
  assert (Hpf_d : dt_ok pf = true) by (apply fproject_dt_ok; assumption).
  (* what pf contributes *)
  assert (Hpf_paths : forall n p', lookup_a [pf] (n :: p') = if_some (related (n :: p') (first :: rest)) (lookup_a s (n :: p'))).
  { intros n p'. rewrite lookup_top, related_top. unfold find_name at 1. cbn [find]. rewrite Hpfn.
    destruct (str_eqb first n) eqn:E.
    - apply str_eqb_eq in E. subst n. rewrite str_eqb_refl. cbn [andb]. rewrite lookup_top, Hfind.
      destruct p' as [|m q]; [cbn; unfold pf; rewrite fproject_attrs; reflexivity|].
      unfold pf. rewrite fproject_lookup by discriminate. reflexivity.
    - assert (E' : str_eqb n first = false) by (apply str_eqb_neq; intros ->; rewrite str_eqb_refl in E; discriminate).
      rewrite E'. reflexivity. }
  cbn [do_project_go]. rewrite Hparse. rewrite (sfield_plain s first Hplain), Hfind. fold pf.
  destruct (upd_first first (fmerge pf) cands) as [out|] eqn:Eu.
  - (* an earlier column already selected this top-level field: merge *)
    destruct (upd_first_some _ _ _ _ Eu) as [pre [c [post [Hcs [Hcn [Hpre Hout]]]]]].
    assert (Hcin : In c cands) by (subst cands; apply in_or_app; right; left; reflexivity).
    destruct (I2 c Hcin) as [f' [Ff' [Sc [Uc Dc]]]]. rewrite Hcn, Hfind in Ff'. inversion Ff'; subst f'.
    destruct (sel_merge pf c f Sc Hpf_sel Hsf Uc Hpf_u Dc Hpf_d) as [Hag [r1 [Hm [Hd Hsel]]]].
    destruct (fmerge_union pf c r1 Hm Hpf_u Uc Hag) as [Ur Hpaths].
    pose proof (fmerge_attrs _ _ _ Hm) as Ha.
    assert (Hr1n : fname r1 = first) by (unfold fname; rewrite Ha; exact Hcn).
    rewrite Hm in Hout. subst out. exists (pre ++ r1 :: post). split; [reflexivity|].
    split; [|split].
    + subst cands. rewrite !map_app in *. cbn [map] in *. rewrite Hr1n, <- Hcn. exact I1.
    + intros x Hx. apply in_app_or in Hx as [Hx | [<- | Hx]].
      * apply I2. subst cands. apply in_or_app. left. exact Hx.
      * exists f. rewrite Hr1n. auto.
      * apply I2. subst cands. apply in_or_app. right. right. exact Hx.
    + intros p Hp. destruct p as [|n p']; [contradiction|].
      rewrite covered_app, Hcp. rewrite <- orelse_if. rewrite <- Hpf_paths. rewrite <- (I3 (n :: p')) by discriminate.
      rewrite !lookup_top. rewrite (find_name_replace first n pre post c r1 Hcn Hr1n Hpre). rewrite <- Hcs.
      unfold find_name at 3. cbn [find]. rewrite Hpfn.
      destruct (str_eqb first n) eqn:E.
      * apply str_eqb_eq in E. subst n.
        assert (Hfc : find_name first cands = Some c).
        { subst cands. rewrite find_name_app, Hpre. unfold find_name. cbn [find]. rewrite Hcn, str_eqb_refl. reflexivity. }
        rewrite Hfc. destruct p' as [|m q]; [cbn; rewrite Ha; reflexivity|].
        apply Hpaths. discriminate.
      * destruct (find_name n cands) as [x|]; [|reflexivity]. destruct p'; [reflexivity|]. rewrite orelse_none_r. reflexivity.
  - (* first column for this top-level field *)
    apply upd_first_none in Eu. exists (cands ++ [pf]). split; [reflexivity|].
    split; [|split].
    + apply nodup_names_app_single; [exact I1 | rewrite Hpfn; exact Eu].
    + intros x Hx. apply in_app_or in Hx as [Hx | [<- | []]]; [apply I2; exact Hx|].
      exists f. rewrite Hpfn. auto.
    + intros p Hp. destruct p as [|n p']; [contradiction|].
      rewrite covered_app, Hcp. rewrite <- orelse_if. rewrite <- Hpf_paths. rewrite <- (I3 (n :: p')) by discriminate.
      rewrite !lookup_top. rewrite find_name_app. unfold find_name at 2 4. cbn [find]. rewrite Hpfn.
      destruct (find_name n cands) as [x|] eqn:Ex.
      * destruct (str_eqb first n) eqn:E.
        -- apply str_eqb_eq in E. subst n. congruence.
        -- destruct p'; [reflexivity|]. rewrite orelse_none_r. reflexivity.
      * reflexivity.
Qed.

Lemma do_project_all (cols : list str) (e : bool) : forall cands Q,
  inv cands Q -> Forall (col_ok s) cols ->
  exists r, do_project_go s cols e cands = Ok r /\ inv r (Q ++ cols).
Proof.
  induction cols as [|col rest IH]; intros cands Q Hinv Hall.
  - exists cands. rewrite app_nil_r. split; [reflexivity | exact Hinv].
  - inversion Hall as [|? ? Hc Hr]; subst.
    destruct (do_project_step cands Q col e rest Hinv Hc) as [cands' [Hstep Hinv']].
    destruct (IH cands' (Q ++ [col]) Hinv' Hr) as [r [Hr1 Hr2]].
    exists r. rewrite Hstep. split; [exact Hr1|]. rewrite <- app_assoc in Hr2. exact Hr2.
Qed.

End Project.

Theorem project_semantics (s : schema) (cols : list str) (e : bool) :
  forallb shape_ok s = true -> names_unique s = true -> Forall (col_ok s) cols ->
  exists r, do_project s cols e = Ok r /\
    nodup_by str_eqb (map fname r) = true /\
    (forall c, In c r -> names_unique_f c = true) /\
    forall p, p <> [] -> lookup_a r p = if covered cols p then lookup_a s p else None.
Proof.
  intros Hs Hu Hall. unfold do_project.
  destruct (do_project_all s Hs Hu cols e [] []) as [r [Hr [I1 [I2 I3]]]]; [|exact Hall|].
  - split; [reflexivity|]. split; [intros c []|]. intros p Hp. unfold lookup_a. rewrite lookup_nil. reflexivity.
  - exists r. split; [exact Hr|]. split; [exact I1|]. split.
    + intros c Hc. destruct (I2 c Hc) as [f [_ [_ [H _]]]]. exact H.
    + intros p Hp. apply (I3 p Hp).
Qed.
