(* Model of rust/lance-core/src/datatypes/{schema.rs,field.rs} (field paths, Schema::{resolve, field,
   project, project_by_ids, exclude, intersection, merge, set_field_id, validate, field_by_id,
   field_ancestry_by_id, field_path}, all of Projection), and rust/lance-file/src/datatypes.rs
   (Fields <-> Schema).  Executable definitions only.

   Strings are lists of Unicode scalar values ([list N]); only '`' (96) and '.' (46) are ever
   inspected.  Field ids are [Z] (i32 in Rust; -1 = unassigned).  A field's logical type is the
   token [lty]; the harness maps the logical-type string to the token (trusted table).  HashMap
   metadata is a key-sorted association list.  Schema-level metadata, dictionaries and blob
   unloading are outside the model (never generated). *)
From LanceV Require Import Common.Base.
Local Open Scope N_scope.

Definition str := list N.
Definition str_eqb : str -> str -> bool := list_eqb N.eqb.
Definition BT : N := 96.   (* '`' *)
Definition DOT : N := 46.  (* '.' *)

(* ------------------------------------------------------------------ field paths *)

(* parse_field_path: the character loop.  [cur] = current, [inq] = in_quotes, [res] = result. *)
Fixpoint parse_go (cs : str) (cur : str) (inq : bool) (res : list str) : outcome (list str) :=
  match cs with
  | [] =>
      if inq then Err                                   (* unclosed quote *)
      else match cur with
           | _ :: _ => Ok (res ++ [cur])
           | [] => match res with
                   | _ :: _ => Err                      (* trailing dot *)
                   | [] => Err                          (* result.is_empty() / empty path *)
                   end
           end
  | ch :: rest =>
      if ch =? BT then
        if inq then
          match rest with
          | c2 :: rest2 =>
              if c2 =? BT then parse_go rest2 (cur ++ [BT]) true res       (* escaped backtick *)
              else if c2 =? DOT then parse_go rest cur false res           (* closing quote, '.' follows *)
              else Err                                                      (* junk after closing quote *)
          | [] => parse_go rest cur false res                               (* closing quote at the end *)
          end
        else match cur with
             | [] => parse_go rest cur true res                             (* opening quote *)
             | _ :: _ => Err                                                (* quote in the middle *)
             end
      else if (ch =? DOT) && negb inq then
        match cur with
        | [] => Err                                                         (* empty field name *)
        | _ :: _ => parse_go rest [] false (res ++ [cur])
        end
      else parse_go rest (cur ++ [ch]) inq res
  end.

Definition parse_field_path (path : str) : outcome (list str) :=
  match path with
  | [] => Err
  | _ => parse_go path [] false []
  end.

Definition has_char (c : N) (s : str) : bool := existsb (N.eqb c) s.
Definition needs_quote (s : str) : bool := has_char DOT s || has_char BT s.
Definition escape_bt (s : str) : str := flat_map (fun c => if c =? BT then [BT; BT] else [c]) s.
Definition quote_seg (s : str) : str := BT :: escape_bt s ++ [BT].
Definition fmt_seg (s : str) : str := if needs_quote s then quote_seg s else s.
Fixpoint join_dot (l : list str) : str :=
  match l with
  | [] => []
  | [x] => x
  | x :: r => x ++ DOT :: join_dot r
  end.
Definition format_field_path (p : list str) : str := join_dot (map fmt_seg p).

Definition WILDCARD : str := [42].
Definition escape_field_path_for_project (name : str) : str :=
  if str_eqb name WILDCARD then name
  else join_dot (map quote_seg (match parse_field_path name with Ok segs => segs | _ => [name] end)).

(* A name that a path mentions as itself: non-empty, no '.', no '`'. *)
Definition plain (s : str) : bool :=
  match s with [] => false | _ => negb (needs_quote s) end.

(* ------------------------------------------------------------------ fields *)

Inductive lty :=
| LStruct
| LList (item_is_struct : bool)        (* "list" / "list.struct" *)
| LLargeList (item_is_struct : bool)   (* "large_list" / "large_list.struct" *)
| LFsl (inner : N) (n : N)             (* fixed_size_list:<inner>:<n> *)
| LFsb (n : N)                         (* fixed_size_binary:<n> *)
| LPrim (code : N).                    (* any other logical type; equal codes <-> equal Arrow types *)

Definition lty_eqb (a b : lty) : bool :=
  match a, b with
  | LStruct, LStruct => true
  | LList x, LList y => Bool.eqb x y
  | LLargeList x, LLargeList y => Bool.eqb x y
  | LFsl i n, LFsl j m => (i =? j) && (n =? m)
  | LFsb n, LFsb m => n =? m
  | LPrim c, LPrim d => c =? d
  | _, _ => false
  end.

Definition meta := list (str * str).
Definition meta_eqb : meta -> meta -> bool := list_eqb (pair_eqb str_eqb str_eqb).

Record attrs := mkA {
  a_id : Z; a_pid : Z; a_name : str; a_ty : lty; a_null : bool; a_meta : meta;
  a_enc : N;          (* 0 none, 1 plain, 2 varbinary, 3 dictionary, 4 rle *)
  a_upk : bool }.     (* unenforced_primary_key *)

Inductive field := Fld (a : attrs) (ch : list field).

Definition fa (f : field) : attrs := match f with Fld a _ => a end.
Definition fch (f : field) : list field := match f with Fld _ ch => ch end.
Definition fid (f : field) : Z := a_id (fa f).
Definition fname (f : field) : str := a_name (fa f).
Definition fty (f : field) : lty := a_ty (fa f).

(* terse constructor used by the harness when printing cases *)
Definition mkf (id pid : Z) (name : str) (ty : lty) (null : bool) (m : meta) (enc : N) (upk : bool)
  (ch : list field) : field := Fld (mkA id pid name ty null m enc upk) ch.

Definition set_id_pid (a : attrs) (id pid : Z) : attrs :=
  mkA id pid (a_name a) (a_ty a) (a_null a) (a_meta a) (a_enc a) (a_upk a).

Definition attrs_eqb (a b : attrs) : bool :=
  Z.eqb (a_id a) (a_id b) && Z.eqb (a_pid a) (a_pid b) && str_eqb (a_name a) (a_name b)
  && lty_eqb (a_ty a) (a_ty b) && Bool.eqb (a_null a) (a_null b) && meta_eqb (a_meta a) (a_meta b)
  && (a_enc a =? a_enc b) && Bool.eqb (a_upk a) (a_upk b).

Fixpoint field_eqb (f g : field) : bool :=
  match f, g with
  | Fld a ch, Fld b ch' =>
      attrs_eqb a b &&
      (fix go (l l' : list field) : bool :=
         match l, l' with
         | [], [] => true
         | c :: r, c' :: r' => field_eqb c c' && go r r'
         | _, _ => false
         end) ch ch'
  end.

Definition schema := list field.
Definition schema_eqb : schema -> schema -> bool := list_eqb field_eqb.

Definition is_nil {A} (l : list A) : bool := match l with [] => true | _ => false end.
Definition zmem (x : Z) (l : list Z) : bool := existsb (Z.eqb x) l.
Definition omap {A B} (f : A -> option B) (l : list A) : list B :=
  flat_map (fun x => match f x with Some y => [y] | None => [] end) l.

(* Field::data_type() panics (children[0]) on a list field without a child. *)
Fixpoint dt_ok (f : field) : bool :=
  match f with
  | Fld a ch =>
      match a_ty a with
      | LStruct => forallb dt_ok ch
      | LList _ | LLargeList _ => match ch with c :: _ => dt_ok c | [] => false end
      | _ => true
      end
  end.

(* self.data_type() == other.data_type(), for dt_ok fields: Arrow compares the child fields'
   name, type, nullability and metadata. *)
Fixpoint dt_eqb (f g : field) : bool :=
  match f, g with
  | Fld a ch, Fld b ch' =>
      match a_ty a, a_ty b with
      | LStruct, LStruct =>
          (fix go (l l' : list field) : bool :=
             match l, l' with
             | [], [] => true
             | c :: r, c' :: r' =>
                 str_eqb (fname c) (fname c') && Bool.eqb (a_null (fa c)) (a_null (fa c'))
                 && meta_eqb (a_meta (fa c)) (a_meta (fa c')) && dt_eqb c c' && go r r'
             | _, _ => false
             end) ch ch'
      | LList _, LList _ | LLargeList _, LLargeList _ =>
          match ch, ch' with
          | c :: _, c' :: _ =>
              str_eqb (fname c) (fname c') && Bool.eqb (a_null (fa c)) (a_null (fa c'))
              && meta_eqb (a_meta (fa c)) (a_meta (fa c')) && dt_eqb c c'
          | _, _ => false
          end
      | LFsl i n, LFsl j m => (i =? j) && (n =? m)
      | LFsb n, LFsb m => n =? m
      | LPrim c, LPrim d => c =? d
      | _, _ => false
      end
  end.

Definition is_nested_ty (t : lty) : bool :=
  match t with LStruct | LList _ | LLargeList _ | LFsl _ _ => true | _ => false end.
Definition is_struct_ty (t : lty) : bool := match t with LStruct => true | _ => false end.

(* ------------------------------------------------------------------ lookups *)

Definition find_name (nm : str) (fs : list field) : option field :=
  find (fun f => str_eqb (fname f) nm) fs.

(* Field::resolve *)
Fixpoint fresolve (f : field) (split : list str) : option (list field) :=
  match split with
  | [] => Some [f]
  | s :: rest =>
      match find_name s (fch f) with
      | Some c => option_map (cons f) (fresolve c rest)
      | None => None
      end
  end.

(* Schema::resolve (the one-segment special case of the Rust code coincides with the general one) *)
Definition resolve (s : schema) (col : str) : option (list field) :=
  match parse_field_path col with
  | Ok (first :: rest) =>
      match find_name first s with
      | Some f => fresolve f rest
      | None => None
      end
  | _ => None
  end.

(* Schema::field : the last field of the resolved chain *)
Definition sfield (s : schema) (name : str) : option field :=
  match resolve s name with
  | Some chain => Some (last chain (Fld (mkA 0 0 [] LStruct false [] 0 false) []))
  | None => None
  end.

(* Schema::field_by_id / Field::field_by_id : first match in pre-order *)
Fixpoint fby_id_children (id : Z) (f : field) : option field :=
  match f with
  | Fld _ ch =>
      (fix go (cs : list field) : option field :=
         match cs with
         | [] => None
         | c :: r =>
             if Z.eqb (fid c) id then Some c
             else match fby_id_children id c with
                  | Some g => Some g
                  | None => go r
                  end
         end) ch
  end.
Definition field_by_id (s : schema) (id : Z) : option field :=
  fby_id_children id (Fld (mkA 0 0 [] LStruct false [] 0 false) s).

(* Schema::field_ancestry_by_id : explicit stack, popped from the END, children pushed in order:
   a depth-first search that visits siblings in REVERSE order.  Written as structural recursion. *)
Fixpoint anc_rev (id : Z) (pre : list field) (f : field) : option (list field) :=
  match f with
  | Fld a ch =>
      if Z.eqb (a_id a) id then Some (pre ++ [f])
      else (fix go (cs : list field) : option (list field) :=
              match cs with
              | [] => None
              | c :: r =>                         (* later siblings first *)
                  match go r with
                  | Some p => Some p
                  | None => anc_rev id (pre ++ [f]) c
                  end
              end) ch
  end.
Definition field_ancestry_by_id (s : schema) (id : Z) : option (list field) :=
  (fix go (cs : list field) : option (list field) :=
     match cs with
     | [] => None
     | c :: r => match go r with Some p => Some p | None => anc_rev id [] c end
     end) s.

(* Schema::field_path : Err when the id is absent *)
Definition field_path (s : schema) (id : Z) : outcome str :=
  match field_ancestry_by_id s id with
  | Some anc => Ok (format_field_path (map fname anc))
  | None => Err
  end.

(* pre-order ids *)
Fixpoint fids (f : field) : list Z := match f with Fld a ch => a_id a :: flat_map fids ch end.
Definition field_ids (s : schema) : list Z := flat_map fids s.

(* ------------------------------------------------------------------ Field::project / merge *)

Fixpoint fproject (f : field) (path : list str) : field :=
  match path with
  | [] => f
  | p :: rest =>
      Fld (fa f) (match find_name p (fch f) with
                  | Some c => [fproject c rest]
                  | None => []
                  end)
  end.

(* find the first field named nm and replace it by g; None when there is none *)
Fixpoint upd_first (nm : str) (g : field -> outcome field) (cs : list field) : option (outcome (list field)) :=
  match cs with
  | [] => None
  | c :: r =>
      if str_eqb (fname c) nm then
        Some (match g c with Ok c' => Ok (c' :: r) | Err => Err | Panic => Panic end)
      else match upd_first nm g r with
           | Some (Ok r') => Some (Ok (c :: r'))
           | Some Err => Some Err
           | Some Panic => Some Panic
           | None => None
           end
  end.

(* Field::merge(&mut self = f, other = o): structural on o *)
Fixpoint fmerge (o : field) (f : field) {struct o} : outcome field :=
  match o with
  | Fld ob och =>
      if negb (dt_ok f) || negb (dt_ok o) then Panic
      else match fty f, a_ty ob with
           | LStruct, LStruct =>
               match (fix go (ocs : list field) (cs : list field) : outcome (list field) :=
                        match ocs with
                        | [] => Ok cs
                        | oc :: r =>
                            match upd_first (fname oc) (fmerge oc) cs with
                            | Some (Ok cs') => go r cs'
                            | Some Err => Err
                            | Some Panic => Panic
                            | None => go r (cs ++ [oc])
                            end
                        end) och (fch f) with
               | Ok cs => Ok (Fld (fa f) cs)
               | Err => Err
               | Panic => Panic
               end
           | LList _, LList _ | LLargeList _, LLargeList _ =>
               match och, fch f with
               | oc :: _, c :: r =>
                   match fmerge oc c with
                   | Ok c' => Ok (Fld (fa f) (c' :: r))
                   | Err => Err
                   | Panic => Panic
                   end
               | _, _ => Panic
               end
           | LFsl _ n, LFsl _ m => if n =? m then Ok f else Err
           | LFsb n, LFsb m => if n =? m then Ok f else Err
           | _, _ => if dt_eqb f o then Ok f else Err
           end
  end.

Definition ROW_ID : str := [95; 114; 111; 119; 105; 100].                      (* "_rowid" *)
Definition ROW_ADDR : str := [95; 114; 111; 119; 97; 100; 100; 114].           (* "_rowaddr" *)
Definition ROW_LAST_UPDATED : str :=
  [95;114;111;119;95;108;97;115;116;95;117;112;100;97;116;101;100;95;97;116;95;118;101;114;115;105;111;110].
Definition ROW_CREATED : str :=
  [95;114;111;119;95;99;114;101;97;116;101;100;95;97;116;95;118;101;114;115;105;111;110].

(* Schema::do_project *)
Fixpoint do_project_go (s : schema) (cols : list str) (err_on_missing : bool) (cands : list field)
  : outcome (list field) :=
  match cols with
  | [] => Ok cands
  | col :: r =>
      match parse_field_path col with
      | Ok (first :: rest) =>
          match sfield s first with                       (* NB: `first` is parsed again as a path *)
          | Some f =>
              let pf := fproject f rest in
              match upd_first first (fmerge pf) cands with
              | Some (Ok c') => do_project_go s r err_on_missing c'
              | Some Err => Err
              | Some Panic => Panic
              | None => do_project_go s r err_on_missing (cands ++ [pf])
              end
          | None =>
              if err_on_missing && negb (str_eqb first ROW_ID) && negb (str_eqb first ROW_ADDR) then Err
              else do_project_go s r err_on_missing cands
          end
      | Ok [] => Panic
      | Err => Err
      | Panic => Panic
      end
  end.
Definition do_project (s : schema) (cols : list str) (err_on_missing : bool) : outcome schema :=
  do_project_go s cols err_on_missing [].
Definition project (s : schema) (cols : list str) := do_project s cols true.
Definition project_or_drop (s : schema) (cols : list str) := do_project s cols false.

(* ------------------------------------------------------------------ project_by_ids *)

Fixpoint fproject_by_ids (ids : list Z) (all : bool) (f : field) : option field :=
  match f with
  | Fld a ch =>
      let ch' := omap (fproject_by_ids ids all) ch in
      if zmem (a_id a) ids && (is_nil ch' || all) then Some f
      else if negb (is_nil ch') then Some (Fld a ch')
      else None
  end.
Definition project_by_ids (s : schema) (ids : list Z) (all : bool) : schema :=
  omap (fproject_by_ids ids all) s.

(* ------------------------------------------------------------------ exclude *)

Fixpoint fexclude (f o : field) {struct f} : outcome (option field) :=
  match f with
  | Fld a ch =>
      if negb (dt_ok f) then Panic
      else if negb (is_nested_ty (a_ty a)) then Ok None
      else match (fix go (cs : list field) : outcome (list field) :=
                    match cs with
                    | [] => Ok []
                    | c :: r =>
                        match (match find_name (fname c) (fch o) with
                               | Some oc => fexclude c oc
                               | None => Ok (Some c)
                               end) with
                        | Ok x =>
                            match go r with
                            | Ok l => Ok (match x with Some y => y :: l | None => l end)
                            | Err => Err
                            | Panic => Panic
                            end
                        | Err => Err
                        | Panic => Panic
                        end
                    end) ch with
           | Ok [] => Ok None
           | Ok l => Ok (Some (Fld a l))
           | Err => Err
           | Panic => Panic
           end
  end.

Fixpoint exclude_go (fs : list field) (other : schema) : outcome (list field) :=
  match fs with
  | [] => Ok []
  | f :: r =>
      match sfield other (fname f) with                   (* NB: the name is parsed as a path *)
      | Some of =>
          if negb (dt_ok f) then Panic
          else if is_struct_ty (fty f) then
            match fexclude f of with
            | Ok x =>
                match exclude_go r other with
                | Ok l => Ok (match x with Some y => y :: l | None => l end)
                | Err => Err
                | Panic => Panic
                end
            | Err => Err
            | Panic => Panic
            end
          else exclude_go r other
      | None =>
          match exclude_go r other with
          | Ok l => Ok (f :: l)
          | Err => Err
          | Panic => Panic
          end
      end
  end.
Definition exclude (s other : schema) : outcome schema := exclude_go s other.

(* ------------------------------------------------------------------ intersection *)

Fixpoint fintersect (f o : field) (ignore_types : bool) {struct f} : outcome field :=
  match f with
  | Fld a ch =>
      if negb (str_eqb (a_name a) (fname o)) then Err
      else if negb (dt_ok f) || negb (dt_ok o) then Panic
      else
        let nested_pair := match a_ty a, fty o with
                           | LStruct, LStruct => true
                           | LList _, LList _ => true
                           | _, _ => false
                           end in
        if nested_pair then
          match (fix go (cs : list field) : outcome (list field) :=
                   match cs with
                   | [] => Ok []
                   | c :: r =>
                       match find_name (fname c) (fch o) with
                       | Some oc =>
                           match fintersect c oc false with       (* nested: never ignore types; Err swallowed *)
                           | Ok x => match go r with Ok l => Ok (x :: l) | Err => Err | Panic => Panic end
                           | Err => go r
                           | Panic => Panic
                           end
                       | None => go r
                       end
                   end) ch with
          | Ok l => Ok (Fld (set_id_pid a (if (0 <=? a_id a)%Z then a_id a else fid o) (a_pid a)) l)
          | Err => Err
          | Panic => Panic
          end
        else if negb ignore_types && negb (dt_eqb f o) then Err
        else Ok (if (0 <=? a_id a)%Z then f else o)
  end.

Fixpoint intersection_go (s : schema) (ofs : list field) (ignore_types : bool) : outcome (list field) :=
  match ofs with
  | [] => Ok []
  | of :: r =>
      match sfield s (fname of) with                      (* NB: the name is parsed as a path *)
      | Some cand =>
          match fintersect cand of ignore_types with
          | Ok x => match intersection_go s r ignore_types with Ok l => Ok (x :: l) | Err => Err | Panic => Panic end
          | Err => Err
          | Panic => Panic
          end
      | None => intersection_go s r ignore_types
      end
  end.
Definition intersection (s other : schema) (ignore_types : bool) : outcome schema :=
  intersection_go s other ignore_types.

(* ------------------------------------------------------------------ merge, ids *)

Fixpoint freset_id (f : field) : field :=
  match f with Fld a ch => Fld (set_id_pid a (-1)%Z (a_pid a)) (map freset_id ch) end.

Fixpoint merge_self_go (fs : list field) (other : schema) : outcome (list field) :=
  match fs with
  | [] => Ok []
  | f :: r =>
      match (match sfield other (fname f) with            (* NB: the name is parsed as a path *)
             | Some of => fmerge of f
             | None => Ok f
             end) with
      | Ok f' => match merge_self_go r other with Ok l => Ok (f' :: l) | Err => Err | Panic => Panic end
      | Err => Err
      | Panic => Panic
      end
  end.
Fixpoint merge_new_go (ofs : list field) (merged : list field) : list field :=
  match ofs with
  | [] => merged
  | of :: r =>
      if existsb (fun f => str_eqb (fname f) (fname of)) merged then merge_new_go r merged
      else merge_new_go r (merged ++ [of])
  end.
Definition merge (s other : schema) : outcome schema :=
  let other' := map freset_id other in
  match merge_self_go s other' with
  | Ok m => Ok (merge_new_go other' m)
  | Err => Err
  | Panic => Panic
  end.

Fixpoint fmax_id (f : field) : Z :=
  match f with Fld a ch => Z.max (a_id a) (fold_right (fun c m => Z.max (fmax_id c) m) (-1)%Z ch) end.
Definition max_field_id (s : schema) : option Z :=
  match s with
  | [] => None
  | f :: r => Some (fold_right (fun c m => Z.max (fmax_id c) m) (fmax_id f) r)
  end.

(* Field::set_id (parent_id, &mut id_seed); i32 overflow of the seed is outside the model's domain *)
Fixpoint fset_id (f : field) (pid : Z) (seed : Z) : field * Z :=
  match f with
  | Fld a ch =>
      let id' := if (a_id a <? 0)%Z then seed else a_id a in
      let seed1 := if (a_id a <? 0)%Z then (seed + 1)%Z else seed in
      let '(ch', seed2) :=
        (fix go (cs : list field) (sd : Z) : list field * Z :=
           match cs with
           | [] => ([], sd)
           | c :: r =>
               let '(c', sd1) := fset_id c id' sd in
               let '(r', sd2) := go r sd1 in
               (c' :: r', sd2)
           end) ch seed1 in
      (Fld (set_id_pid a id' pid) ch', seed2)
  end.
Fixpoint set_ids_go (fs : list field) (seed : Z) : list field * Z :=
  match fs with
  | [] => ([], seed)
  | f :: r =>
      let '(f', s1) := fset_id f (-1)%Z seed in
      let '(r', s2) := set_ids_go r s1 in
      (f' :: r', s2)
  end.
Definition set_field_id (s : schema) (max_existing : option Z) : schema :=
  let schema_max := match max_field_id s with Some m => m | None => (-1)%Z end in
  let me := match max_existing with Some m => m | None => (-1)%Z end in
  fst (set_ids_go s (Z.max schema_max me + 1)%Z).

(* Schema::validate : true = Ok(()) *)
Fixpoint nodup_by {A} (eqb : A -> A -> bool) (l : list A) : bool :=
  match l with
  | [] => true
  | x :: r => negb (existsb (eqb x) r) && nodup_by eqb r
  end.
Fixpoint join_dot_raw (l : list str) : str :=
  match l with [] => [] | [x] => x | x :: r => x ++ DOT :: join_dot_raw r end.
Definition validate (s : schema) : outcome unit :=
  if existsb (fun f => has_char DOT (fname f)) s then Err
  else
    let paths := map (fun f => match field_ancestry_by_id s (fid f) with
                               | Some anc => Some (join_dot_raw (map fname anc))
                               | None => None
                               end) s in
    if existsb (fun p => match p with None => true | Some _ => false end) paths then Panic
    else if negb (nodup_by (option_eqb str_eqb) paths) then Err
    else if existsb (fun i => (i <? 0)%Z) (field_ids s) then Err
    else if negb (nodup_by Z.eqb (field_ids s)) then Err
    else Ok tt.

(* Schema::try_from(&ArrowSchema): the Arrow schema arrives as a field tree with id = parent = -1 *)
Definition of_arrow (arrow : schema) : outcome schema :=
  let s := set_field_id arrow None in
  match validate s with Ok _ => Ok s | Err => Err | Panic => Panic end.

(* Dataset::drop_columns (rust/lance/src/dataset/schema_evolution.rs): every column must resolve;
   new schema = exclude(schema, project(schema, columns)); dropping everything is refused. *)
Definition drop_columns (s : schema) (cols : list str) : outcome schema :=
  if existsb (fun c => match sfield s c with None => true | Some _ => false end) cols then Err
  else match project s cols with
       | Ok p =>
           match exclude s p with
           | Ok r => if is_nil r then Err else Ok r
           | Err => Err
           | Panic => Panic
           end
       | Err => Err
       | Panic => Panic
       end.

(* ------------------------------------------------------------------ Projection *)

(* sorted duplicate-free id lists stand for HashSet<i32> *)
Fixpoint zs_insert (x : Z) (l : list Z) : list Z :=
  match l with
  | [] => [x]
  | y :: r => if (x <? y)%Z then x :: l else if (x =? y)%Z then l else y :: zs_insert x r
  end.
Definition zs_remove (x : Z) (l : list Z) : list Z := filter (fun y => negb (Z.eqb x y)) l.
Definition zs_of_list (l : list Z) : list Z := fold_left (fun acc x => zs_insert x acc) l [].
Definition zs_union (a b : list Z) : list Z := fold_left (fun acc x => zs_insert x acc) b a.
Definition zs_inter (a b : list Z) : list Z := filter (fun x => zmem x b) a.
Definition zs_diff (a b : list Z) : list Z := filter (fun x => negb (zmem x b)) a.

Record projection := mkP {
  p_ids : list Z; p_rowid : bool; p_rowaddr : bool; p_lastupd : bool; p_created : bool }.

Definition p_empty : projection := mkP [] false false false false.

Definition fdesc_ids (f : field) : list Z :=        (* add_field_children: ids of all descendants *)
  match f with Fld _ ch => flat_map fids ch end.

Definition union_column (base : schema) (p : projection) (col : str) (err_on_missing : bool) : outcome projection :=
  if str_eqb col ROW_ID then Ok (mkP (p_ids p) true (p_rowaddr p) (p_lastupd p) (p_created p))
  else if str_eqb col ROW_ADDR then Ok (mkP (p_ids p) (p_rowid p) true (p_lastupd p) (p_created p))
  else if str_eqb col ROW_LAST_UPDATED then Ok (mkP (p_ids p) (p_rowid p) (p_rowaddr p) true (p_created p))
  else if str_eqb col ROW_CREATED then Ok (mkP (p_ids p) (p_rowid p) (p_rowaddr p) (p_lastupd p) true)
  else match resolve base col with
       | Some chain =>
           let ids1 := zs_union (p_ids p) (map fid chain) in
           let ids2 := match rev chain with
                       | lastf :: _ => zs_union ids1 (fdesc_ids lastf)
                       | [] => ids1
                       end in
           Ok (mkP ids2 (p_rowid p) (p_rowaddr p) (p_lastupd p) (p_created p))
       | None => if err_on_missing then Err else Ok p
       end.

(* union_schema / subtract_schema: fields of `other` in pre-order *)
Fixpoint fpre (f : field) : list field := match f with Fld _ ch => f :: flat_map fpre ch end.
Definition pre_order (s : schema) : list field := flat_map fpre s.

Definition apply_schema_field (add : bool) (acc : outcome projection) (f : field) : outcome projection :=
  match acc with
  | Ok p =>
      if (0 <=? fid f)%Z then
        Ok (mkP (if add then zs_insert (fid f) (p_ids p) else zs_remove (fid f) (p_ids p))
                (p_rowid p) (p_rowaddr p) (p_lastupd p) (p_created p))
      else if str_eqb (fname f) ROW_ID then Ok (mkP (p_ids p) add (p_rowaddr p) (p_lastupd p) (p_created p))
      else if str_eqb (fname f) ROW_ADDR then Ok (mkP (p_ids p) (p_rowid p) add (p_lastupd p) (p_created p))
      else if str_eqb (fname f) ROW_LAST_UPDATED then Ok (mkP (p_ids p) (p_rowid p) (p_rowaddr p) add (p_created p))
      else if str_eqb (fname f) ROW_CREATED then Ok (mkP (p_ids p) (p_rowid p) (p_rowaddr p) (p_lastupd p) add)
      else if Z.eqb (fid f) (-1) then Ok p
      else Panic                                    (* debug_assert_eq!(field.id, -1) *)
  | e => e
  end.
Definition union_schema (p : projection) (other : schema) : outcome projection :=
  fold_left (apply_schema_field true) (pre_order other) (Ok p).
Definition subtract_schema (p : projection) (other : schema) : outcome projection :=
  fold_left (apply_schema_field false) (pre_order other) (Ok p).

Definition union_projection (p q : projection) : projection :=
  mkP (zs_union (p_ids p) (p_ids q)) (p_rowid p || p_rowid q) (p_rowaddr p || p_rowaddr q)
      (p_lastupd p || p_lastupd q) (p_created p || p_created q).
Definition subtract_projection (p q : projection) : projection :=
  mkP (zs_diff (p_ids p) (p_ids q)) (p_rowid p && negb (p_rowid q)) (p_rowaddr p && negb (p_rowaddr q))
      (p_lastupd p && negb (p_lastupd q)) (p_created p && negb (p_created q)).
Definition intersect_projection (p q : projection) : projection :=
  mkP (zs_inter (p_ids p) (p_ids q)) (p_rowid p && p_rowid q) (p_rowaddr p && p_rowaddr q)
      (p_lastupd p && p_lastupd q) (p_created p && p_created q).

(* union_predicate / subtract_predicate with the predicate `field.id ∈ sel` *)
Definition union_predicate_ids (base : schema) (p : projection) (sel : list Z) : projection :=
  mkP (fold_left (fun acc f => if zmem (fid f) sel then zs_insert (fid f) acc else acc) (pre_order base) (p_ids p))
      (p_rowid p) (p_rowaddr p) (p_lastupd p) (p_created p).
Definition subtract_predicate_ids (base : schema) (p : projection) (sel : list Z) : projection :=
  mkP (fold_left (fun acc f => if zmem (fid f) sel then zs_remove (fid f) acc else acc) (pre_order base) (p_ids p))
      (p_rowid p) (p_rowaddr p) (p_lastupd p) (p_created p).

(* Field::apply_projection (blob handling never fires: no blob metadata in the domain) *)
Fixpoint fapply_projection (ids : list Z) (f : field) : outcome (option field) :=
  match f with
  | Fld a ch =>
      match (fix go (cs : list field) : outcome (list field) :=
               match cs with
               | [] => Ok []
               | c :: r =>
                   match fapply_projection ids c with
                   | Ok x => match go r with
                             | Ok l => Ok (match x with Some y => y :: l | None => l end)
                             | Err => Err
                             | Panic => Panic
                             end
                   | Err => Err
                   | Panic => Panic
                   end
               end) ch with
      | Ok ch' =>
          if negb (negb (is_nil ch') || negb (zmem (a_id a) ids) || is_nil ch) then Panic   (* assert! *)
          else if is_nil ch' && negb (zmem (a_id a) ids) then Ok None
          else Ok (Some (Fld a ch'))
      | Err => Err
      | Panic => Panic
      end
  end.
Fixpoint apply_projection_go (ids : list Z) (fs : list field) : outcome (list field) :=
  match fs with
  | [] => Ok []
  | f :: r =>
      match fapply_projection ids f with
      | Ok x => match apply_projection_go ids r with
                | Ok l => Ok (match x with Some y => y :: l | None => l end)
                | Err => Err
                | Panic => Panic
                end
      | Err => Err
      | Panic => Panic
      end
  end.
Definition to_bare_schema (base : schema) (p : projection) : outcome schema :=
  apply_projection_go (p_ids p) base.

Definition U64 : lty := LPrim 9.     (* code of "uint64" in the harness table *)
Definition sys_field (name : str) : field := Fld (mkA (-1) (-1) name U64 true [] 1 false) [].
Definition to_schema (base : schema) (p : projection) : outcome schema :=
  match to_bare_schema base p with
  | Ok s =>
      let extra := (if p_rowid p then [sys_field ROW_ID] else [])
                   ++ (if p_rowaddr p then [sys_field ROW_ADDR] else [])
                   ++ (if p_lastupd p then [sys_field ROW_LAST_UPDATED] else [])
                   ++ (if p_created p then [sys_field ROW_CREATED] else []) in
      let s' := s ++ extra in
      if nodup_by str_eqb (map fname s') then Ok s' else Panic       (* extend(..).unwrap() *)
  | Err => Err
  | Panic => Panic
  end.

(* ------------------------------------------------------------------ stored form (pb::Field list) *)

Definition EXT_KEY : str :=      (* "ARROW:extension:name" *)
  [65;82;82;79;87;58;101;120;116;101;110;115;105;111;110;58;110;97;109;101].

Fixpoint str_ltb (a b : str) : bool :=
  match a, b with
  | [], [] => false
  | [], _ :: _ => true
  | _ :: _, [] => false
  | x :: r, y :: r' => if x <? y then true else if x =? y then str_ltb r r' else false
  end.
Fixpoint meta_get (k : str) (m : meta) : option str :=
  match m with
  | [] => None
  | (k', v) :: r => if str_eqb k k' then Some v else meta_get k r
  end.
Fixpoint meta_insert (k v : str) (m : meta) : meta :=
  match m with
  | [] => [(k, v)]
  | (k', v') :: r =>
      if str_eqb k k' then (k, v) :: r
      else if str_ltb k k' then (k, v) :: m
      else (k', v') :: meta_insert k v r
  end.

Record pbfield := mkPb {
  pb_id : Z; pb_pid : Z; pb_name : str; pb_ty : lty; pb_enc : N; pb_null : bool; pb_meta : meta;
  pb_ext : str; pb_upk : bool }.

Definition to_pb (f : field) : pbfield :=
  let a := fa f in
  mkPb (a_id a) (a_pid a) (a_name a) (a_ty a) (a_enc a) (a_null a) (a_meta a)
       (match meta_get EXT_KEY (a_meta a) with Some v => v | None => [] end) (a_upk a).
Definition of_pb (p : pbfield) : field :=
  Fld (mkA (pb_id p) (pb_pid p) (pb_name p) (pb_ty p) (pb_null p)
           (match pb_ext p with [] => pb_meta p | _ => meta_insert EXT_KEY (pb_ext p) (pb_meta p) end)
           (if 4 <? pb_enc p then 0 else pb_enc p) (pb_upk p)) [].

Fixpoint to_fields_f (f : field) : list pbfield :=
  match f with Fld _ ch => to_pb f :: flat_map to_fields_f ch end.
Definition to_fields (s : schema) : list pbfield := flat_map to_fields_f s.

(* push `nf` as the last child of the first field (pre-order) whose id is `pid`;
   None = mut_field_by_id(..) found nothing (the Rust code unwraps -> panic) *)
Fixpoint insert_child_f (pid : Z) (nf : field) (f : field) : option field :=
  match f with
  | Fld a ch =>
      if Z.eqb (a_id a) pid then Some (Fld a (ch ++ [nf]))
      else match (fix go (cs : list field) : option (list field) :=
                    match cs with
                    | [] => None
                    | c :: r =>
                        match insert_child_f pid nf c with
                        | Some c' => Some (c' :: r)
                        | None => match go r with Some r' => Some (c :: r') | None => None end
                        end
                    end) ch with
           | Some ch' => Some (Fld a ch')
           | None => None
           end
  end.
Fixpoint insert_child (pid : Z) (nf : field) (fs : list field) : option (list field) :=
  match fs with
  | [] => None
  | f :: r =>
      match insert_child_f pid nf f with
      | Some f' => Some (f' :: r)
      | None => match insert_child pid nf r with Some r' => Some (f :: r') | None => None end
      end
  end.

Definition of_fields_step (acc : outcome schema) (p : pbfield) : outcome schema :=
  match acc with
  | Ok s =>
      if Z.eqb (pb_pid p) (-1) then Ok (s ++ [of_pb p])
      else match insert_child (pb_pid p) (of_pb p) s with
           | Some s' => Ok s'
           | None => Panic
           end
  | e => e
  end.
Definition of_fields (l : list pbfield) : outcome schema := fold_left of_fields_step l (Ok []).

(* ------------------------------------------------------------------ correspondence checkers *)

Definition ostr_eqb := outcome_eqb str_eqb.
Definition oschema_eqb := outcome_eqb schema_eqb.
Definition zlist_eqb : list Z -> list Z -> bool := list_eqb Z.eqb.

(* parse_field_path *)
Definition chk_parse (path : str) (out : outcome (list str)) : bool :=
  outcome_eqb (list_eqb str_eqb) (parse_field_path path) out.
(* format_field_path, escape_field_path_for_project (of the formatted path), and parse(format) *)
Definition chk_format (segs : list str) (out : str * str * outcome (list str)) : bool :=
  let '(fmt, esc, back) := out in
  str_eqb (format_field_path segs) fmt
  && str_eqb (escape_field_path_for_project fmt) esc
  && outcome_eqb (list_eqb str_eqb) (parse_field_path fmt) back.

(* resolve: ids of the chain; field: id of the target *)
Definition chk_resolve (i : schema * str) (out : option (list Z) * option Z) : bool :=
  let '(s, col) := i in
  option_eqb zlist_eqb (option_map (map fid) (resolve s col)) (fst out)
  && option_eqb Z.eqb (option_map fid (sfield s col)) (snd out).

(* per id: field_by_id (attrs id + name), ancestry ids, field_path *)
Definition chk_byid (i : schema * Z) (out : option str * option (list Z) * outcome str) : bool :=
  let '(s, id) := i in
  let '(nm, anc, fp) := out in
  option_eqb str_eqb (option_map fname (field_by_id s id)) nm
  && option_eqb zlist_eqb (option_map (map fid) (field_ancestry_by_id s id)) anc
  && ostr_eqb (field_path s id) fp.

Definition chk_project (i : schema * list str * bool) (out : outcome schema) : bool :=
  let '(s, cols, err_on_missing) := i in oschema_eqb (do_project s cols err_on_missing) out.

Definition chk_project_by_ids (i : schema * list Z * bool) (out : schema) : bool :=
  let '(s, ids, all) := i in schema_eqb (project_by_ids s ids all) out.

Definition chk_exclude (i : schema * schema) (out : outcome schema) : bool :=
  oschema_eqb (exclude (fst i) (snd i)) out.

Definition chk_intersection (i : schema * schema * bool) (out : outcome schema) : bool :=
  let '(s, o, ign) := i in oschema_eqb (intersection s o ign) out.

(* merge, then set_field_id(max_existing) on the result *)
Definition chk_merge (i : schema * schema * option Z) (out : outcome (schema * schema)) : bool :=
  let '(s, o, mx) := i in
  outcome_eqb (pair_eqb schema_eqb schema_eqb)
    (match merge s o with Ok m => Ok (m, set_field_id m mx) | Err => Err | Panic => Panic end) out.

(* Schema::try_from(&ArrowSchema) and field_ids / max_field_id of the result *)
Definition chk_of_arrow (arrow : schema) (out : outcome (schema * list Z * option Z)) : bool :=
  outcome_eqb (pair_eqb (pair_eqb schema_eqb zlist_eqb) (option_eqb Z.eqb))
    (match of_arrow arrow with Ok s => Ok (s, field_ids s, max_field_id s) | Err => Err | Panic => Panic end) out.

Definition chk_validate (s : schema) (out : outcome unit) : bool :=
  outcome_eqb (fun _ _ => true) (validate s) out.

(* Projection scripts *)
Inductive pop :=
| OpColumn (col : str) (err_on_missing : bool)
| OpUnionSchema (s : schema)
| OpSubtractSchema (s : schema)
| OpUnionProj (q : projection)
| OpSubtractProj (q : projection)
| OpIntersect (q : projection)
| OpUnionPred (sel : list Z)
| OpSubtractPred (sel : list Z).

Definition run_pop (base : schema) (acc : outcome projection) (o : pop) : outcome projection :=
  match acc with
  | Ok p =>
      match o with
      | OpColumn col e => union_column base p col e
      | OpUnionSchema s => union_schema p s
      | OpSubtractSchema s => subtract_schema p s
      | OpUnionProj q => Ok (union_projection p q)
      | OpSubtractProj q => Ok (subtract_projection p q)
      | OpIntersect q => Ok (intersect_projection p q)
      | OpUnionPred sel => Ok (union_predicate_ids base p sel)
      | OpSubtractPred sel => Ok (subtract_predicate_ids base p sel)
      end
  | e => e
  end.
Definition run_pops (base : schema) (ops : list pop) : outcome projection := fold_left (run_pop base) ops (Ok p_empty).

Definition projection_eqb (p q : projection) : bool :=
  zlist_eqb (p_ids p) (p_ids q) && Bool.eqb (p_rowid p) (p_rowid q) && Bool.eqb (p_rowaddr p) (p_rowaddr q)
  && Bool.eqb (p_lastupd p) (p_lastupd q) && Bool.eqb (p_created p) (p_created q).

(* the projection after the script (ids sorted), then to_schema of it *)
Definition chk_projection (i : schema * list pop) (out : outcome (projection * outcome schema)) : bool :=
  let '(base, ops) := i in
  outcome_eqb (pair_eqb projection_eqb oschema_eqb)
    (match run_pops base ops with Ok p => Ok (p, to_schema base p) | Err => Err | Panic => Panic end) out.

(* stored form *)
Definition pbfield_eqb (p q : pbfield) : bool :=
  Z.eqb (pb_id p) (pb_id q) && Z.eqb (pb_pid p) (pb_pid q) && str_eqb (pb_name p) (pb_name q)
  && lty_eqb (pb_ty p) (pb_ty q) && (pb_enc p =? pb_enc q) && Bool.eqb (pb_null p) (pb_null q)
  && meta_eqb (pb_meta p) (pb_meta q) && str_eqb (pb_ext p) (pb_ext q) && Bool.eqb (pb_upk p) (pb_upk q).
Definition chk_to_fields (s : schema) (out : list pbfield) : bool := list_eqb pbfield_eqb (to_fields s) out.
Definition chk_of_fields (l : list pbfield) (out : outcome schema) : bool := oschema_eqb (of_fields l) out.

(* end-to-end: Dataset::drop_columns on a stored table, schema re-read from the new manifest *)
Definition chk_drop_columns (i : schema * list str) (out : outcome schema) : bool :=
  oschema_eqb (drop_columns (fst i) (snd i)) out.
