(* C32 - proofs about Meta/Model_Serde.v: of_pb (to_pb x) = Ok x for every well-formed x of every
   modelled type, composition with the wire codecs (Section variables with a round-trip hypothesis),
   deletion vector files as sets, and refutation witnesses for the known lossy classes. *)
From LanceV Require Import Common.Base Meta.Model_Flags Meta.Model_Serde.
Local Open Scope N_scope.

(* ---------- generic plumbing ---------- *)
Lemma omap_roundtrip {X P} (to : X -> P) (of : P -> outcome X) (wf : X -> bool) :
  (forall x, wf x = true -> of (to x) = Ok x) ->
  forall l, forallb wf l = true -> omap of (map to l) = Ok l.
Proof.
  intros H l; induction l as [|x xs IH]; intro Hl; cbn [map omap forallb] in *.
  - reflexivity.
  - apply andb_true_iff in Hl as [Hx Hxs]. rewrite (H x Hx). cbn [obind]. rewrite (IH Hxs). reflexivity.
Qed.

Lemma omap_roundtrip_all {X P} (to : X -> P) (of : P -> outcome X) :
  (forall x, of (to x) = Ok x) -> forall l, omap of (map to l) = Ok l.
Proof.
  intros H l. apply (omap_roundtrip to of (fun _ => true)); [intros; apply H|].
  induction l; cbn; auto.
Qed.

Lemma oopt_roundtrip {X P} (to : X -> P) (of : P -> outcome X) (o : option X) :
  (forall x, o = Some x -> of (to x) = Ok x) -> oopt of (option_map to o) = Ok o.
Proof. destruct o as [x|]; cbn; intro H; [rewrite (H x eq_refl)|]; reflexivity. Qed.

Lemma map_map_id {A B} (f : A -> B) (g : B -> A) (l : list A) :
  (forall x, g (f x) = x) -> map g (map f l) = l.
Proof. intro H; induction l; cbn; [|rewrite H, IHl]; reflexivity. Qed.

Lemma forallb_impl {A} (p q : A -> bool) (l : list A) :
  (forall x, p x = true -> q x = true) -> forallb p l = true -> forallb q l = true.
Proof.
  intro H; induction l; cbn; [auto|]. intro E; apply andb_true_iff in E as [E1 E2].
  rewrite (H _ E1), (IHl E2); reflexivity.
Qed.

(* ================= 1. little-endian byte strings ================= *)
Lemma le_bytes_length : forall k v, length (le_bytes k v) = k.
Proof. induction k; intro v; cbn [le_bytes length]; [|rewrite IHk]; reflexivity. Qed.

Lemma from_le_le_bytes : forall k v, v < 256 ^ N.of_nat k -> from_le (le_bytes k v) = v.
Proof.
  induction k as [|k IH]; intros v Hv.
  - cbn in *. lia.
  - cbn [le_bytes from_le]. rewrite IH.
    + pose proof (N.div_mod v 256). lia.
    + rewrite Nat2N.inj_succ, N.pow_succ_r' in Hv. apply N.div_lt_upper_bound; lia.
Qed.

Lemma firstn_app_exact {A} (a b : list A) : firstn (length a) (a ++ b) = a.
Proof. rewrite firstn_app, Nat.sub_diag, firstn_all. cbn [firstn]. apply app_nil_r. Qed.
Lemma skipn_app_exact {A} (a b : list A) : skipn (length a) (a ++ b) = b.
Proof. rewrite skipn_app, Nat.sub_diag, skipn_all. reflexivity. Qed.

Lemma chunks_exact_flat : forall (k : nat) (l : list N) (fuel : nat),
  (0 < k)%nat -> (length l <= fuel)%nat ->
  chunks_exact k fuel (flat_map (le_bytes k) l) = map (le_bytes k) l.
Proof.
  intros k l; induction l as [|x xs IH]; intros fuel Hk Hf.
  - cbn [flat_map map]. destruct fuel; cbn [chunks_exact length]; [reflexivity|].
    destruct (0 <? k)%nat eqn:E; [reflexivity|]. apply Nat.ltb_ge in E. lia.
  - destruct fuel as [|f]; [cbn in Hf; lia|].
    cbn [flat_map map chunks_exact].
    assert (Hlen : (length (le_bytes k x ++ flat_map (le_bytes k) xs) <? k)%nat = false).
    { apply Nat.ltb_ge. rewrite app_length, le_bytes_length. lia. }
    rewrite Hlen.
    set (rest := flat_map (le_bytes k) xs) in *.
    assert (E1 : firstn k (le_bytes k x ++ rest) = le_bytes k x).
    { transitivity (firstn (length (le_bytes k x)) (le_bytes k x ++ rest));
        [rewrite le_bytes_length; reflexivity | apply firstn_app_exact]. }
    assert (E2 : skipn k (le_bytes k x ++ rest) = rest).
    { transitivity (skipn (length (le_bytes k x)) (le_bytes k x ++ rest));
        [rewrite le_bytes_length; reflexivity | apply skipn_app_exact]. }
    rewrite E1, E2. subst rest.
    rewrite IH; [reflexivity|assumption|cbn in Hf; lia].
Qed.

Lemma flat_le_length : forall k l, length (flat_map (le_bytes k) l) = (k * length l)%nat.
Proof.
  intros k l; induction l; cbn [flat_map length]; [lia|].
  rewrite app_length, le_bytes_length, IHl. lia.
Qed.

Lemma decode_le_flat : forall (k : nat) (l : list N),
  (0 < k)%nat -> forallb (fun v => v <? 256 ^ N.of_nat k) l = true ->
  decode_le k (flat_map (le_bytes k) l) = l.
Proof.
  intros k l Hk Hl. unfold decode_le.
  rewrite chunks_exact_flat; [|assumption|rewrite flat_le_length; nia].
  induction l as [|x xs IH]; cbn [map forallb] in *; [reflexivity|].
  apply andb_true_iff in Hl as [Hx Hxs]. apply N.ltb_lt in Hx.
  rewrite from_le_le_bytes by assumption. rewrite IH by assumption. reflexivity.
Qed.

Lemma flat_le_mod : forall k l, (0 < k)%nat ->
  N.of_nat (length (flat_map (le_bytes k) l)) mod N.of_nat k = 0.
Proof.
  intros k l Hk. rewrite flat_le_length, Nat2N.inj_mul, N.mul_comm. apply N.mod_mul. lia.
Qed.

Lemma arr_roundtrip : forall a, wf_arr a = true -> arr_of_pb (arr_to_pb a) = Ok a.
Proof.
  intros [base offs|base offs|vals] H; cbn [arr_to_pb arr_of_pb wf_arr] in *.
  - change 2 with (N.of_nat 2). rewrite flat_le_mod by lia. cbn [N.eqb].
    replace (0 =? 0) with true by reflexivity. rewrite decode_le_flat; [reflexivity|lia|exact H].
  - change 4 with (N.of_nat 4). rewrite flat_le_mod by lia.
    replace (0 =? 0) with true by reflexivity. rewrite decode_le_flat; [reflexivity|lia|exact H].
  - change 8 with (N.of_nat 8). rewrite flat_le_mod by lia.
    replace (0 =? 0) with true by reflexivity. rewrite decode_le_flat; [reflexivity|lia|exact H].
Qed.

Lemma seg_roundtrip : forall x, wf_seg x = true -> seg_of_pb (seg_to_pb x) = Ok x.
Proof.
  intros [s e|s e h|s e data len|a|a] H; cbn [seg_to_pb seg_of_pb wf_seg] in *.
  - reflexivity.
  - rewrite (arr_roundtrip h H). reflexivity.
  - apply andb_true_iff in H as [H1 H2]. apply N.leb_le in H1. apply N.eqb_eq in H2.
    destruct (e <? s) eqn:E; [apply N.ltb_lt in E; lia|]. subst len. reflexivity.
  - rewrite (arr_roundtrip a H). reflexivity.
  - rewrite (arr_roundtrip a H). reflexivity.
Qed.

Lemma rowids_roundtrip : forall l, forallb wf_seg l = true -> rowids_of_pb (rowids_to_pb l) = Ok l.
Proof. intros l H. apply (omap_roundtrip seg_to_pb seg_of_pb wf_seg seg_roundtrip l H). Qed.

Lemma vseq_roundtrip : forall l, wf_vseq l = true -> vseq_of_pb (vseq_to_pb l) = Ok l.
Proof.
  intros l H. unfold vseq_of_pb, vseq_to_pb, wf_vseq in *.
  apply (omap_roundtrip (fun r => (Some (seg_to_pb (fst r)), snd r)) _ (fun r => wf_seg (fst r))); [|exact H].
  intros [sg v] Hr; cbn [fst snd] in *. rewrite (seg_roundtrip sg Hr). reflexivity.
Qed.

(* ================= 2. fragments ================= *)
Lemma df_roundtrip : forall d, df_of_pb (df_to_pb d) = Ok d.
Proof. intros [p f c ma mi s b]; reflexivity. Qed.

Lemma del_roundtrip : forall d, dc_del d = false -> del_of_pb (del_to_pb d) = Ok d.
Proof.
  intros [rv id t nd b] H; unfold dc_del in H; cbn [del_num_deleted] in H.
  unfold del_to_pb, del_of_pb; cbn [del_type_ del_read_version del_id del_num_deleted del_base
    pdel_type pdel_read_version pdel_id pdel_num_deleted pdel_base].
  destruct t; destruct nd as [[|p]|]; try discriminate; reflexivity.
Qed.

Lemma ioe_roundtrip : forall m, ioe_of_pb (ioe_to_pb m) = Ok m.
Proof. intros [d|[p o s]]; reflexivity. Qed.

Lemma frag_roundtrip : forall f, wf_frag f = true -> frag_of_pb (frag_to_pb f) = Ok f.
Proof.
  intros [id files del rid pr lu cr] H.
  unfold wf_frag, dc_frag in H; cbn [fr_physical_rows fr_deletion] in H.
  apply negb_true_iff, orb_false_iff in H as [Hpr Hdel].
  unfold frag_to_pb, frag_of_pb;
    cbn [fr_id fr_files fr_deletion fr_row_id_meta fr_physical_rows fr_last_updated fr_created
         pfr_id pfr_files pfr_deletion pfr_row_id_sequence pfr_physical_rows pfr_last_updated pfr_created].
  rewrite (omap_roundtrip_all df_to_pb df_of_pb df_roundtrip). cbn [obind].
  rewrite (oopt_roundtrip del_to_pb del_of_pb del).
  2:{ intros d ->. apply del_roundtrip. exact Hdel. }
  cbn [obind].
  rewrite !(oopt_roundtrip ioe_to_pb ioe_of_pb) by (intros; apply ioe_roundtrip).
  cbn [obind].
  destruct pr as [[|p]|]; try discriminate; reflexivity.
Qed.

Lemma frags_roundtrip : forall l, forallb wf_frag l = true -> omap frag_of_pb (map frag_to_pb l) = Ok l.
Proof. exact (omap_roundtrip frag_to_pb frag_of_pb wf_frag frag_roundtrip). Qed.

(* ================= 3. mem wal ================= *)
Lemma mw_roundtrip : forall m, mw_of_pb (mw_to_pb m) = Ok m.
Proof. intros [r g t w e st o v]; destruct st; reflexivity. Qed.

Lemma mwd_roundtrip : forall l, mwd_of_pb (mwd_to_pb l) = Ok l.
Proof. exact (omap_roundtrip_all mw_to_pb mw_of_pb mw_roundtrip). Qed.

(* ================= 4. index metadata (roaring codec: variables) ================= *)
Section Index.
  Variable bm_ser : list N -> bytes.
  Variable bm_de : bytes -> option (list N).
  Hypothesis bm_roundtrip : forall s, bm_de (bm_ser s) = Some s.
  Hypothesis bm_nonempty : forall s, bm_ser s <> [].     (* a serialised roaring bitmap has a header *)

  Lemma created_at_roundtrip : forall t : Z,
    created_at_ok t = true -> submilli t = false ->
    (let ts := Z.to_N ((t / 1000000) mod 18446744073709551616)%Z in
     let ms := if ts <? two63 then Z.of_N ts else (Z.of_N ts - 18446744073709551616)%Z in
     ((CHRONO_MIN_MS <=? ms) && (ms <=? CHRONO_MAX_MS))%Z = true /\ (ms * 1000000)%Z = t).
  Proof.
    intros t Hok Hsub. unfold created_at_ok, submilli, CHRONO_MIN_MS, CHRONO_MAX_MS, two63 in *.
    apply andb_true_iff in Hok as [H1 H2]. apply Z.leb_le in H1, H2.
    apply negb_false_iff, Z.eqb_eq in Hsub.
    cbv zeta.
    set (ms := (t / 1000000)%Z).
    assert (Hms : (-8334601228800000 <= ms <= 8210266876799999)%Z) by (subst ms; lia).
    assert (Ht : (ms * 1000000 = t)%Z) by (subst ms; lia).
    destruct (Z_lt_le_dec ms 0) as [Hneg|Hpos].
    - assert (E : (ms mod 18446744073709551616 = ms + 18446744073709551616)%Z).
      { symmetry. apply (Z.mod_unique _ _ (-1)); lia. }
      rewrite E.
      destruct (Z.to_N (ms + 18446744073709551616) <? 9223372036854775808) eqn:L.
      + apply N.ltb_lt in L. lia.
      + rewrite Z2N.id by lia. split; [apply andb_true_iff; split; apply Z.leb_le; lia|lia].
    - rewrite Z.mod_small by lia.
      destruct (Z.to_N ms <? 9223372036854775808) eqn:L.
      + rewrite Z2N.id by lia. split; [apply andb_true_iff; split; apply Z.leb_le; lia|lia].
      + apply N.ltb_ge in L. lia.
  Qed.

  Lemma uuid_roundtrip : forall u, wf_uuid u = true -> uuid_of_pb (Some u) = Ok u.
  Proof. intros u H; unfold uuid_of_pb, wf_uuid in *; rewrite H; reflexivity. Qed.

  Lemma idx_roundtrip : forall i, wf_idx i = true -> idx_of_pb bm_de (idx_to_pb bm_ser i) = Ok i.
  Proof.
    intros [uuid fields name dv fb det ver ca base] H.
    unfold wf_idx in H; cbn [ix_uuid ix_created_at] in H. apply andb_true_iff in H as [Hu Hc].
    unfold idx_to_pb, idx_of_pb;
      cbn [ix_uuid ix_fields ix_name ix_dataset_version ix_fragment_bitmap ix_details ix_version ix_created_at ix_base
           pix_uuid pix_fields pix_name pix_dataset_version pix_fragment_bitmap pix_details pix_version pix_created_at pix_base].
    assert (Hb : (match match fb with Some s => bm_ser s | None => [] end with
                  | [] => Ok None
                  | b => match bm_de b with Some s => Ok (Some s) | None => Err end
                  end) = Ok fb).
    { destruct fb as [s|]; [|reflexivity].
      pose proof (bm_nonempty s) as Hne. pose proof (bm_roundtrip s) as Hrt.
      destruct (bm_ser s) as [|b0 br] eqn:E; [congruence|]. rewrite Hrt. reflexivity. }
    rewrite Hb. cbn [obind]. rewrite (uuid_roundtrip uuid Hu). cbn [obind].
    destruct ca as [t|]; cbn [option_map].
    - apply andb_true_iff in Hc as [Hok Hsub]. apply negb_true_iff in Hsub.
      destruct (created_at_roundtrip t Hok Hsub) as [Hr Ht]. cbv zeta in Hr, Ht.
      rewrite Hr, Ht. reflexivity.
    - reflexivity.
  Qed.

  (* ================= 6. transactions ================= *)
  Lemma ri_roundtrip : forall r, wf_ri r = true -> ri_of_pb (ri_to_pb r) = Ok r.
  Proof.
    intros [o n d v] H. unfold wf_ri in H; cbn [ri_old ri_new] in H. apply andb_true_iff in H as [Ho Hn].
    unfold ri_to_pb, ri_of_pb; cbn [ri_old ri_new ri_details ri_version pri_old pri_new pri_details pri_version].
    rewrite (uuid_roundtrip o Ho), (uuid_roundtrip n Hn). reflexivity.
  Qed.

  Lemma rg_roundtrip : forall g, wf_rg g = true -> rg_of_pb (rg_to_pb g) = Ok g.
  Proof.
    intros [o n] H. unfold wf_rg in H; cbn [fst snd] in H. apply andb_true_iff in H as [Ho Hn].
    unfold rg_to_pb, rg_of_pb; cbn [fst snd]. rewrite (frags_roundtrip o Ho), (frags_roundtrip n Hn). reflexivity.
  Qed.

  Lemma um_roundtrip : forall u, um_of_pb (um_to_pb u) = u.
  Proof. intros [e r]; reflexivity. Qed.

  Lemma bp_roundtrip : forall b, bp_of_pb (bp_to_pb b) = b.
  Proof. intros [i n r p]; reflexivity. Qed.

  Lemma oum_roundtrip : forall o, option_map um_of_pb (option_map um_to_pb o) = o.
  Proof. intros [u|]; cbn; [rewrite um_roundtrip|]; reflexivity. Qed.

  Lemma mw_unwrap_roundtrip : forall m, mw_unwrap (mw_to_pb m) = Ok m.
  Proof. intro m; unfold mw_unwrap; rewrite mw_roundtrip; reflexivity. Qed.

  Lemma schema_txn_eta : forall sc, wf_schema_txn sc = true -> mk_schema (sc_fields sc) [] = sc.
  Proof. intros [f m] H; unfold wf_schema_txn in H; cbn in H; destruct m; [reflexivity|discriminate]. Qed.

  Lemma is_nil_map {A B} (f : A -> B) (l : list A) : is_nil (map f l) = is_nil l.
  Proof. destruct l; reflexivity. Qed.

  Lemma op_roundtrip : forall o, wf_op o = true -> op_of_pb bm_de (op_to_pb bm_ser o) = Ok o.
  Proof.
    intros o H; destruct o; cbn [wf_op op_to_pb op_of_pb] in *.
    - (* Append *) rewrite (frags_roundtrip _ H); reflexivity.
    - (* Delete *) rewrite (frags_roundtrip _ H); reflexivity.
    - (* Overwrite *)
      apply andb_true_iff in H as [H Hb]. apply andb_true_iff in H as [H Hc]. apply andb_true_iff in H as [Hf Hs].
      rewrite (frags_roundtrip _ Hf). cbn [obind].
      rewrite (schema_txn_eta sc Hs).
      destruct config_upsert as [[|c cs]|]; try discriminate; cbn [is_nil];
        (destruct initial_bases as [[|b bs]|]; try discriminate;
         [cbn [map is_nil]; rewrite bp_roundtrip, (map_map_id bp_to_pb bp_of_pb bs bp_roundtrip); reflexivity
         | reflexivity]).
    - (* CreateIndex *)
      apply andb_true_iff in H as [Hn Hr].
      rewrite (omap_roundtrip (idx_to_pb bm_ser) (idx_of_pb bm_de) wf_idx idx_roundtrip _ Hn). cbn [obind].
      rewrite (omap_roundtrip (idx_to_pb bm_ser) (idx_of_pb bm_de) wf_idx idx_roundtrip _ Hr). reflexivity.
    - (* Rewrite *)
      apply andb_true_iff in H as [H Hfri]. apply andb_true_iff in H as [H Hne]. apply andb_true_iff in H as [Hg Hri].
      rewrite is_nil_map. rewrite Hne.
      rewrite (omap_roundtrip rg_to_pb rg_of_pb wf_rg rg_roundtrip _ Hg). cbn [obind].
      rewrite (omap_roundtrip ri_to_pb ri_of_pb wf_ri ri_roundtrip _ Hri). cbn [obind].
      destruct frag_reuse_index; [discriminate|reflexivity].
    - (* DataReplacement *)
      rewrite (omap_roundtrip_all (fun r : N * data_file => (fst r, Some (df_to_pb (snd r)))) _).
      + reflexivity.
      + intros [id d]; cbn [fst snd]. rewrite df_roundtrip. reflexivity.
    - (* Merge *)
      apply andb_true_iff in H as [Hf Hs]. rewrite (frags_roundtrip _ Hf). cbn [obind].
      rewrite (schema_txn_eta sc Hs). reflexivity.
    - reflexivity.
    - reflexivity.
    - (* Update *)
      apply andb_true_iff in H as [H Hm]. apply andb_true_iff in H as [Hu Hn].
      rewrite (frags_roundtrip _ Hu). cbn [obind]. rewrite (frags_roundtrip _ Hn). cbn [obind].
      rewrite (oopt_roundtrip mw_to_pb mw_unwrap) by (intros; apply mw_unwrap_roundtrip). cbn [obind].
      destruct mode as [[|]|]; [reflexivity|reflexivity|discriminate].
    - (* Project *) rewrite (schema_txn_eta sc H). reflexivity.
    - (* UpdateConfig *)
      cbn [is_nil negb orb]. rewrite andb_false_r.
      rewrite !oum_roundtrip.
      rewrite (map_map_id (fun e : Z * update_map => (fst e, um_to_pb (snd e))) (fun e => (fst e, um_of_pb (snd e)))).
      + reflexivity.
      + intros [k u]; cbn [fst snd]. rewrite um_roundtrip. reflexivity.
    - (* UpdateMemWalState *)
      rewrite !(omap_roundtrip_all mw_to_pb mw_unwrap mw_unwrap_roundtrip). reflexivity.
    - reflexivity.
    - (* UpdateBases *) rewrite (map_map_id bp_to_pb bp_of_pb _ bp_roundtrip). reflexivity.
  Qed.

  Lemma txn_roundtrip : forall t, wf_txn t = true -> txn_of_pb bm_de (txn_to_pb bm_ser t) = Ok t.
  Proof.
    intros [rv uuid op tag props] H. unfold wf_txn in H; cbn [tx_operation tx_tag tx_properties] in H.
    apply andb_true_iff in H as [H Hp]. apply andb_true_iff in H as [Ho Ht].
    unfold txn_to_pb, txn_of_pb; cbn [tx_read_version tx_uuid tx_operation tx_tag tx_properties
      ptx_read_version ptx_uuid ptx_operation ptx_tag ptx_properties].
    rewrite (op_roundtrip op Ho). cbn [obind].
    destruct tag as [[|c cs]|]; try discriminate; destruct props as [[|p ps]|]; try discriminate; reflexivity.
  Qed.
End Index.

(* ================= 5. manifest ================= *)
Lemma base_paths_roundtrip : forall l : list (N * base_path),
  forallb (fun kb => fst kb =? bp_id (snd kb)) l = true ->
  map (fun b => (bp_id b, bp_of_pb b)) (map (fun kb => bp_to_pb (snd kb)) l) = l.
Proof.
  induction l as [|[k [i n r p]] xs IH]; cbn [map forallb fst snd]; intro H; [reflexivity|].
  apply andb_true_iff in H as [Hk Hx]. cbn [bp_id] in Hk. apply N.eqb_eq in Hk. subst k.
  rewrite (IH Hx). reflexivity.
Qed.

Lemma timestamp_roundtrip : forall ts, ts < ts_bound -> ts_of_pb (ts_to_pb ts) = Ok ts.
Proof.
  intros ts Hb. unfold ts_to_pb.
  destruct (ts =? 0) eqn:E0; [apply N.eqb_eq in E0; subst; reflexivity|].
  apply N.eqb_neq in E0. cbv zeta. unfold ts_of_pb, z_as_u128.
  unfold ts_bound, sub_1e9, two63, two64, two128 in *.
  set (nanos := ts mod 1000000000).
  set (secs := (ts - nanos) / 1000000000).
  assert (Hn : nanos < 1000000000) by (subst nanos; apply N.mod_lt; lia).
  assert (Hs : secs < 9223372036854775808 /\ secs * 1000000000 + nanos = ts).
  { subst secs nanos. pose proof (N.div_mod ts 1000000000).
    assert (E : (ts - ts mod 1000000000) = 1000000000 * (ts / 1000000000)) by lia.
    rewrite E. rewrite N.mul_comm, N.div_mul by lia. split; [apply N.div_lt_upper_bound; lia|lia]. }
  destruct Hs as [Hs1 Hs2]. clearbody secs. clearbody nanos.
  rewrite (N.mod_small secs) by lia.
  destruct (secs <? 9223372036854775808) eqn:L; [|apply N.ltb_ge in L; lia].
  change (Z.of_N 340282366920938463463374607431768211456) with 340282366920938463463374607431768211456%Z.
  rewrite (Z.mod_small (Z.of_N secs)) by lia. rewrite (Z.mod_small (Z.of_N nanos)) by lia. rewrite !N2Z.id.
  cbv zeta.
  destruct (340282366920938463463374607431768211456 <=? secs * 1000000000) eqn:A; [apply N.leb_le in A; lia|].
  destruct (340282366920938463463374607431768211456 <=? secs * 1000000000 + nanos) eqn:B; [apply N.leb_le in B; lia|].
  rewrite Hs2. reflexivity.
Qed.

Lemma mf_roundtrip : forall m, wf_manifest m = true -> mf_of_pb (mf_to_pb m) = Ok m.
Proof.
  intros [sc ver br wv frs aux isec ts tag rf wf_ mfid tf tsec offs nrid dsf cfg tmd bps] H.
  unfold wf_manifest in H;
    cbn [mf_fragments mf_fragment_offsets mf_timestamp_nanos mf_tag mf_transaction_file mf_reader_flags mf_base_paths] in H.
  repeat (apply andb_true_iff in H as [H ?]).
  rename H into Hfr, H5 into Hoff, H4 into Hts, H3 into Htag, H2 into Htf, H1 into Hflag, H0 into Hbp.
  unfold mf_to_pb, mf_of_pb;
    cbn [mf_schema mf_version mf_branch mf_writer_version mf_fragments mf_version_aux_data mf_index_section
         mf_timestamp_nanos mf_tag mf_reader_flags mf_writer_flags mf_max_fragment_id mf_transaction_file
         mf_transaction_section mf_fragment_offsets mf_next_row_id mf_data_format mf_config mf_table_metadata mf_base_paths
         pmf_fields pmf_schema_metadata pmf_fragments pmf_version pmf_version_aux_data pmf_writer_version pmf_index_section
         pmf_timestamp pmf_tag pmf_reader_flags pmf_writer_flags pmf_max_fragment_id pmf_transaction_file
         pmf_transaction_section pmf_next_row_id pmf_data_format pmf_config pmf_table_metadata pmf_base_paths pmf_branch].
  apply N.ltb_lt in Hts. rewrite (timestamp_roundtrip ts Hts). cbn [obind].
  rewrite (frags_roundtrip frs Hfr). cbn [obind].
  destruct (compute_fragment_offsets frs) as [o| |] eqn:Eo; try discriminate.
  apply (list_eqb_eq N.eqb N.eqb_eq) in Hoff. subst o. cbn [obind].
  assert (Efl : negb (N.land FLAG_STABLE_ROW_IDS rf =? 0)
                && negb (forallb (fun f => match fr_row_id_meta f with Some _ => true | None => false end) frs) = false).
  { apply orb_true_iff in Hflag as [Hz|Ha]; [rewrite Hz; reflexivity|].
    unfold is_some in Ha. rewrite Ha. apply andb_false_r. }
  rewrite Efl. cbn [obind].
  rewrite (base_paths_roundtrip bps Hbp).
  destruct sc as [flds smd]; cbn [sc_fields sc_meta].
  destruct tag as [[|c cs]|]; try discriminate; destruct tf as [[|d ds]|]; try discriminate; reflexivity.
Qed.

(* ================= 7. deletion vector files ================= *)
Definition set_equiv (a b : list N) : Prop := forall x, In x a <-> In x b.

Lemma dedup_in : forall l x, In x (dedup l) <-> In x l.
Proof.
  induction l as [|y r IH]; intro x; cbn [dedup]; [tauto|].
  destruct (existsb (N.eqb y) r) eqn:E.
  - rewrite IH. cbn [In]. split; [auto|]. intros [->|H]; [|exact H].
    apply existsb_exists in E as [z [Hz Hy]]. apply N.eqb_eq in Hy. subst z. exact Hz.
  - cbn [In]. rewrite IH. tauto.
Qed.

Section Dv.
  Variable ipc_write : list N -> bytes.
  Variable ipc_read : bytes -> option (list N).
  Variable bm_ser : list N -> bytes.
  Variable bm_de : bytes -> option (list N).
  Hypothesis ipc_roundtrip : forall l, ipc_read (ipc_write l) = Some l.
  Hypothesis bm_roundtrip : forall s, bm_de (bm_ser s) = Some s.

  Lemma dv_roundtrip : forall d w,
    dv_write ipc_write bm_ser d = Some w ->
    exists d', dv_read ipc_read bm_de (dvw_type w) (dvw_bytes w) = Ok d'
               /\ set_equiv (dv_elems d') (dv_elems d)
               /\ dvw_num_deleted w = Some (N.of_nat (length (dv_elems d)))
               /\ (forall l, d = DvBitmap l -> d' = d).
  Proof.
    intros [|l|l] w H; cbn [dv_write] in H; try discriminate; inversion H; subst w; clear H;
      cbn [dvw_type dvw_bytes dvw_num_deleted dv_read dv_elems].
    - rewrite ipc_roundtrip. exists (DvSet (dedup l)). cbn [dv_elems]. repeat split.
      + apply dedup_in. + apply dedup_in. + intros l0 E; discriminate.
    - rewrite bm_roundtrip. exists (DvBitmap l). cbn [dv_elems]. repeat split; auto.
  Qed.

  Lemma dv_none_writes_nothing : forall d, dv_write ipc_write bm_ser d = None <-> d = DvNone.
  Proof. intros [|l|l]; cbn [dv_write]; split; intro H; try discriminate; reflexivity. Qed.
End Dv.

(* ================= 8. tag / branch files ================= *)
Lemma tag_roundtrip : forall t, wf_tag t = true -> tag_of_json (tag_to_json t) = Ok t.
Proof.
  intros [b v s] H. unfold wf_tag in H; cbn [tg_version tg_manifest_size] in H.
  apply andb_true_iff in H as [Hv Hs].
  unfold tag_of_json.
  replace (jget k_branch (tag_to_json (mk_tag b v s))) with (Some (jo b)) by reflexivity.
  replace (jget k_version (tag_to_json (mk_tag b v s))) with (Some (JNum v)) by reflexivity.
  replace (jget k_manifestSize (tag_to_json (mk_tag b v s))) with (Some (JNum s)) by reflexivity.
  unfold jnum. rewrite Hv, Hs. destruct b; reflexivity.
Qed.

Lemma branch_roundtrip : forall b, wf_branch b = true -> branch_of_json (branch_to_json b) = Ok b.
Proof.
  intros [pb pv c s] H. unfold wf_branch in H; cbn [br_parent_version br_create_at br_manifest_size] in H.
  apply andb_true_iff in H as [H Hs]. apply andb_true_iff in H as [Hv Hc].
  unfold branch_of_json.
  replace (jget k_parentBranch (branch_to_json (mk_branch pb pv c s))) with (Some (jo pb)) by reflexivity.
  replace (jget k_parentVersion (branch_to_json (mk_branch pb pv c s))) with (Some (JNum pv)) by reflexivity.
  replace (jget k_createAt (branch_to_json (mk_branch pb pv c s))) with (Some (JNum c)) by reflexivity.
  replace (jget k_manifestSize (branch_to_json (mk_branch pb pv c s))) with (Some (JNum s)) by reflexivity.
  unfold jnum. rewrite Hv, Hc, Hs. destruct pb; reflexivity.
Qed.

(* ================= 9. wire level: any codec with decode (encode m) = Some m ================= *)
Section Wire.
  Context {X P : Type}.
  Variable to_pb : X -> P.
  Variable of_pb : P -> outcome X.
  Variable encode : P -> bytes.                   (* prost::Message::encode_to_vec / serde_json::to_string *)
  Variable decode : bytes -> option P.            (* prost::Message::decode / serde_json::from_str *)
  Hypothesis decode_encode : forall m, decode (encode m) = Some m.

  Definition wire_write (x : X) : bytes := encode (to_pb x).
  Definition wire_read (b : bytes) : outcome X := match decode b with Some p => of_pb p | None => Err end.

  Lemma wire_roundtrip : forall x, of_pb (to_pb x) = Ok x -> wire_read (wire_write x) = Ok x.
  Proof. intros x H. unfold wire_read, wire_write. rewrite decode_encode. exact H. Qed.
End Wire.

(* ================= 10. well-formed = typed and outside every known lossy class ================= *)
Lemma existsb_false_forallb {A} (p : A -> bool) (l : list A) :
  existsb p l = false -> forallb (fun x => negb (p x)) l = true.
Proof.
  induction l as [|x xs IH]; cbn [existsb forallb]; [reflexivity|].
  intro H. apply orb_false_iff in H as [Hx Hxs]. rewrite Hx, (IH Hxs). reflexivity.
Qed.

Lemma frags_outside : forall l, existsb dc_frag l = false -> forallb wf_frag l = true.
Proof. intros l H. exact (existsb_false_forallb dc_frag l H). Qed.

Lemma wf_idx_outside_classes : forall i,
  idx_typed i = true -> Known_C32_index_created_at_submilli i = false -> wf_idx i = true.
Proof.
  intros [u f n dv fb d v ca b]. unfold idx_typed, Known_C32_index_created_at_submilli, wf_idx.
  cbn [ix_uuid ix_created_at]. intros Ht Hk. apply andb_true_iff in Ht as [Hu Hc]. rewrite Hu. cbn [andb].
  destruct ca as [t|]; [|reflexivity]. rewrite Hc, Hk. reflexivity.
Qed.

Lemma idxs_outside : forall l, forallb idx_typed l = true -> existsb dc_idx l = false -> forallb wf_idx l = true.
Proof.
  induction l as [|x xs IH]; cbn [forallb existsb]; [reflexivity|]. intros Ht Hk.
  apply andb_true_iff in Ht as [Hx Hxs]. apply orb_false_iff in Hk as [Kx Kxs].
  rewrite (wf_idx_outside_classes x Hx Kx), (IH Hxs Kxs). reflexivity.
Qed.

Lemma groups_outside : forall gs,
  existsb (fun g : rewrite_group => existsb dc_frag (fst g) || existsb dc_frag (snd g)) gs = false ->
  forallb wf_rg gs = true.
Proof.
  induction gs as [|[o n] gs IH]; cbn [existsb forallb fst snd]; [reflexivity|]. intro H.
  apply orb_false_iff in H as [Hg Hgs]. apply orb_false_iff in Hg as [Ho Hn].
  unfold wf_rg at 1; cbn [fst snd]. rewrite (frags_outside o Ho), (frags_outside n Hn), (IH Hgs). reflexivity.
Qed.

Lemma classes_zero : forall a c d e : bool,
  b2n a 1 + b2n c 4 + b2n d 8 + b2n e 16 = 0 ->
  a = false /\ c = false /\ d = false /\ e = false.
Proof. intros [|] [|] [|] [|]; cbn; intro H; try (exfalso; lia); repeat split. Qed.

Lemma wf_txn_outside_classes : forall t, txn_typed t = true -> txn_classes t = 0 -> wf_txn t = true.
Proof.
  intros [rv uuid op tag props] Ht Hc. unfold txn_classes in Hc.
  apply classes_zero in Hc as [Hd [Hfri [Hmd Hsub]]].
  unfold Known_C32_default_conflated_txn,
    Known_C32_rewrite_frag_reuse_index_dropped, Known_C32_txn_schema_metadata_dropped, txn_idx_submilli,
    txn_typed, wf_txn in *.
  cbn [tx_operation tx_tag tx_properties] in *.
  apply orb_false_iff in Hd as [Hd Hop]. apply orb_false_iff in Hd as [Htag Hprops].
  assert (Etag : match tag with Some [] => false | _ => true end = true) by (destruct tag as [[|]|]; auto; discriminate).
  assert (Eprops : match props with Some [] => false | _ => true end = true) by (destruct props as [[|]|]; auto; discriminate).
  rewrite Etag, Eprops, !andb_true_r. clear Htag Hprops Etag Eprops.
  destruct op; cbn [wf_op] in *; try reflexivity.
  - exact (frags_outside _ Hop).
  - exact (frags_outside _ Hop).
  - apply orb_false_iff in Hop as [Hop Hb]. apply orb_false_iff in Hop as [Hf Hn].
    rewrite (frags_outside _ Hf). unfold wf_schema_txn. apply negb_false_iff in Hmd. rewrite Hmd. cbn [andb].
    destruct config_upsert as [[|]|]; try discriminate; destruct initial_bases as [[|]|]; try discriminate; reflexivity.
  - apply andb_true_iff in Ht as [Hn Hr]. apply orb_false_iff in Hsub as [Sn Sr].
    rewrite (idxs_outside _ Hn Sn), (idxs_outside _ Hr Sr). reflexivity.
  - apply orb_false_iff in Hop as [Hnil Hg]. rewrite (groups_outside _ Hg), Ht, Hnil. cbn [andb negb].
    destruct frag_reuse_index; [discriminate|reflexivity].
  - rewrite (frags_outside _ Hop). unfold wf_schema_txn. apply negb_false_iff in Hmd. rewrite Hmd. reflexivity.
  - apply orb_false_iff in Hop as [Hop Hm]. apply orb_false_iff in Hop as [Hu Hn].
    rewrite (frags_outside _ Hu), (frags_outside _ Hn). apply negb_false_iff in Hm. rewrite Hm. reflexivity.
  - unfold wf_schema_txn. apply negb_false_iff in Hmd. exact Hmd.
Qed.

Lemma wf_manifest_outside_classes : forall m,
  manifest_invariants m = true -> Known_C32_default_conflated_manifest m = false -> wf_manifest m = true.
Proof.
  intros m Hi Hk. unfold manifest_invariants, Known_C32_default_conflated_manifest, wf_manifest in *.
  apply orb_false_iff in Hk as [Hk Htf]. apply orb_false_iff in Hk as [Hf Htag].
  repeat (apply andb_true_iff in Hi as [Hi ?]).
  rewrite (frags_outside _ Hf), Hi, H, H0, H1. cbn [andb].
  destruct (mf_tag m) as [[|]|]; try discriminate; destruct (mf_transaction_file m) as [[|]|]; try discriminate; reflexivity.
Qed.

(* ================= 11. the known classes are really lossy (whatever the codecs) ================= *)
Definition empty_frag (id : N) (pr : option N) : fragment := mk_frag id [] None None pr None None.

Lemma default_conflated_fragment_witness :
  dc_frag (empty_frag 1 (Some 0)) = true /\ frag_of_pb (frag_to_pb (empty_frag 1 (Some 0))) <> Ok (empty_frag 1 (Some 0)).
Proof. split; [reflexivity|]. vm_compute. discriminate. Qed.

Section Witness.
  Variable bm_ser : list N -> bytes.
  Variable bm_de : bytes -> option (list N).

  Definition txn_of (op : operation) : transaction := mk_txn 1 [97] op None None.
  Definition w_config := txn_of (OpOverwrite [] (mk_schema [] []) (Some [([107], [118])]) None).
  Definition w_fri := txn_of (OpRewrite [([], [])] []
    (Some (mk_idx (repeat 0 16) [] [105] 1 None None 0%Z None None))).
  Definition w_schema_md := txn_of (OpProject (mk_schema [] [([107], [118])])).
  Definition w_default := txn_of (OpUpdate [] [] [] [] None [] None).
  Definition w_idx := mk_idx (repeat 0 16) [] [105] 1 None None 0%Z (Some 1700000000000000001%Z) None.

  (* regression for the repaired inverted emptiness test (/repo cb06601): a non-empty
     config_upsert_values map now survives the round trip, whatever the codecs *)
  Lemma config_regression : txn_of_pb bm_de (txn_to_pb bm_ser w_config) = Ok w_config.
  Proof. reflexivity. Qed.
  Lemma fri_witness : Known_C32_rewrite_frag_reuse_index_dropped w_fri = true
    /\ txn_of_pb bm_de (txn_to_pb bm_ser w_fri) <> Ok w_fri.
  Proof. split; [reflexivity|]. vm_compute. discriminate. Qed.
  Lemma schema_md_witness : Known_C32_txn_schema_metadata_dropped w_schema_md = true
    /\ txn_of_pb bm_de (txn_to_pb bm_ser w_schema_md) <> Ok w_schema_md.
  Proof. split; [reflexivity|]. vm_compute. discriminate. Qed.
  Lemma default_txn_witness : Known_C32_default_conflated_txn w_default = true
    /\ txn_of_pb bm_de (txn_to_pb bm_ser w_default) <> Ok w_default.
  Proof. split; [reflexivity|]. vm_compute. discriminate. Qed.
  Lemma submilli_witness : Known_C32_index_created_at_submilli w_idx = true
    /\ idx_of_pb bm_de (idx_to_pb bm_ser w_idx) <> Ok w_idx.
  Proof. split; [reflexivity|]. vm_compute. intro H; inversion H. Qed.
End Witness.

(* ================= 12. the fragment class is exact: round trip <-> outside default_conflated ================= *)
Lemma frag_roundtrip_only_if : forall f, frag_of_pb (frag_to_pb f) = Ok f -> dc_frag f = false.
Proof.
  intros [id files del rid pr lu cr] H.
  unfold frag_to_pb, frag_of_pb in H;
    cbn [fr_id fr_files fr_deletion fr_row_id_meta fr_physical_rows fr_last_updated fr_created
         pfr_id pfr_files pfr_deletion pfr_row_id_sequence pfr_physical_rows pfr_last_updated pfr_created] in H.
  rewrite (omap_roundtrip_all df_to_pb df_of_pb df_roundtrip) in H. cbn [obind] in H.
  unfold dc_frag; cbn [fr_physical_rows fr_deletion].
  destruct del as [[rv did t nd b]|]; cbn [option_map oopt] in H.
  - unfold del_to_pb, del_of_pb in H;
      cbn [del_type_ del_read_version del_id del_num_deleted del_base
           pdel_type pdel_read_version pdel_id pdel_num_deleted pdel_base] in H.
    rewrite !(oopt_roundtrip ioe_to_pb ioe_of_pb) in H by (intros; apply ioe_roundtrip).
    unfold dc_del; cbn [del_num_deleted].
    destruct t; destruct nd as [[|p]|]; destruct pr as [[|q]|]; cbn in H; try discriminate; try reflexivity;
      inversion H.
  - rewrite !(oopt_roundtrip ioe_to_pb ioe_of_pb) in H by (intros; apply ioe_roundtrip).
    destruct pr as [[|q]|]; cbn in H; try discriminate; try reflexivity; inversion H.
Qed.
