(* C43: Schema::intersection is sound: every field of the result is a field of self (attributes and
   ids unchanged, nested under the same parents) that other has too. *)
From LanceV Require Import Common.Base Meta.Model_Schema Meta.Proofs_Schema Meta.Proofs_SchemaTree Meta.Proofs_SchemaNames
  Meta.Proofs_SchemaMerge.
Local Open Scope N_scope.

Fixpoint ids_nonneg (f : field) : bool :=
  match f with Fld a ch => (0 <=? a_id a)%Z && forallb ids_nonneg ch end.

Lemma set_id_pid_same (a : attrs) : set_id_pid a (a_id a) (a_pid a) = a.
Proof. destruct a; reflexivity. Qed.

(* every name path below r exists below o *)
Definition paths_within (r o : list field) : Prop := forall p, p <> [] -> lookup r p <> None -> lookup o p <> None.

Lemma paths_within_nil (o : list field) : paths_within [] o.
Proof. intros p _ H. rewrite lookup_nil in H. contradiction. Qed.

(* equal Arrow types have the same name paths *)
Lemma dt_eqb_paths (f : field) : forall o, dt_eqb f o = true -> shape_ok f = true -> paths_within (fch f) (fch o).
Proof.
  induction f as [a ch IH] using field_ind'. intros [b och] H Hs. cbn [dt_eqb] in H. cbn [fch].
  destruct (a_ty a) eqn:Eta; destruct (a_ty b) eqn:Etb; try discriminate;
    try (cbn [shape_ok] in Hs; rewrite Eta in Hs; destruct ch; [apply paths_within_nil | discriminate]).
  - (* struct: children pairwise equal names and types *)
    assert (Hch : forall c, In c ch -> shape_ok c = true) by (intros c Hc; apply (shape_ok_children (Fld a ch) Hs c Hc)).
    clear Hs Eta Etb. revert och H. induction ch as [|c r IHr]; intros och H; [apply paths_within_nil|].
    destruct och as [|c' r']; [discriminate|].
    apply andb_true_iff in H as [H Hr]. apply andb_true_iff in H as [H Hd]. apply andb_true_iff in H as [H _].
    apply andb_true_iff in H as [Hn _]. apply str_eqb_eq in Hn.
    inversion IH as [|? ? IHc IHrest]; subst.
    intros p Hp Hl. destruct p as [|n p']; [contradiction|].
    assert (Hrest : paths_within r r') by (apply IHr; [exact IHrest | intros x Hx; apply Hch; right; exact Hx | exact Hr]).
    destruct p' as [|m q].
    + cbn [lookup] in *. unfold find_name in *. cbn [find] in *. rewrite <- Hn.
      destruct (str_eqb (fname c) n); [discriminate|]. apply (Hrest [n]); [discriminate | exact Hl].
    + rewrite lookup_cons in * by discriminate. unfold find_name in *. cbn [find] in *. rewrite <- Hn.
      destruct (str_eqb (fname c) n).
      * apply (IHc c' Hd (Hch c (or_introl eq_refl)) (m :: q)); [discriminate | exact Hl].
      * pose proof (Hrest (n :: m :: q)) as X. rewrite !lookup_cons in X by discriminate. apply X; [discriminate | exact Hl].
  - (* list *)
    cbn [shape_ok] in Hs. rewrite Eta in Hs. destruct ch as [|c [|d r]]; try discriminate. destruct och as [|c' r']; [discriminate|].
    apply andb_true_iff in H as [H Hd]. apply andb_true_iff in H as [H _]. apply andb_true_iff in H as [Hn _]. apply str_eqb_eq in Hn.
    inversion IH as [|? ? IHc _]; subst.
    intros p Hp Hl. destruct p as [|n p']; [contradiction|]. destruct p' as [|m q].
    + cbn [lookup] in *. unfold find_name in *. cbn [find] in *. rewrite <- Hn.
      destruct (str_eqb (fname c) n); [discriminate | contradiction].
    + rewrite lookup_cons in * by discriminate. unfold find_name in *. cbn [find] in *. rewrite <- Hn.
      destruct (str_eqb (fname c) n); [|contradiction].
      apply (IHc c' Hd Hs (m :: q)); [discriminate | exact Hl].
  - (* large_list *)
    cbn [shape_ok] in Hs. rewrite Eta in Hs. destruct ch as [|c [|d r]]; try discriminate. destruct och as [|c' r']; [discriminate|].
    apply andb_true_iff in H as [H Hd]. apply andb_true_iff in H as [H _]. apply andb_true_iff in H as [Hn _]. apply str_eqb_eq in Hn.
    inversion IH as [|? ? IHc _]; subst.
    intros p Hp Hl. destruct p as [|n p']; [contradiction|]. destruct p' as [|m q].
    + cbn [lookup] in *. unfold find_name in *. cbn [find] in *. rewrite <- Hn.
      destruct (str_eqb (fname c) n); [discriminate | contradiction].
    + rewrite lookup_cons in * by discriminate. unfold find_name in *. cbn [find] in *. rewrite <- Hn.
      destruct (str_eqb (fname c) n); [|contradiction].
      apply (IHc c' Hd Hs (m :: q)); [discriminate | exact Hl].
Qed.

(* Field::do_intersection *)
Lemma fintersect_sound (f : field) : forall o ign r,
  fintersect f o ign = Ok r -> ids_nonneg f = true ->
  subfield r f /\
  (ign = false -> shape_ok f = true -> names_unique_f f = true -> paths_within (fch r) (fch o)).
Proof.
  induction f as [a ch IH] using field_ind'. intros o ign r H Hid.
  cbn [ids_nonneg] in Hid. apply andb_true_iff in Hid as [Hida Hidc].
  cbn [fintersect] in H. destruct (negb (str_eqb (a_name a) (fname o))); [discriminate|].
  destruct (negb (dt_ok (Fld a ch)) || negb (dt_ok o)); [discriminate|].
  rewrite Hida in H.
  set (go := fix go (cs : list field) : outcome (list field) :=
                   match cs with
                   | [] => Ok []
                   | c :: r =>
                       match find_name (fname c) (fch o) with
                       | Some oc =>
                           match fintersect c oc false with
                           | Ok x => match go r with Ok l => Ok (x :: l) | Err => Err | Panic => Panic end
                           | Err => go r
                           | Panic => Panic
                           end
                       | None => go r
                       end
                   end) in H.
  assert (G : forall cs l, Forall (fun c => forall o ign r, fintersect c o ign = Ok r -> ids_nonneg c = true ->
                    subfield r c /\ (ign = false -> shape_ok c = true -> names_unique_f c = true -> paths_within (fch r) (fch o))) cs ->
            forallb ids_nonneg cs = true -> go cs = Ok l ->
            subforest l cs /\
            (forall x, In x l -> exists c oc, In c cs /\ find_name (fname c) (fch o) = Some oc /\ fintersect c oc false = Ok x)).
  { induction cs as [|c rr IHr]; intros l Hall Hids Hgo.
    - cbn in Hgo. inversion Hgo; subst. split; [constructor | intros x []].
    - inversion Hall as [|? ? Hc Hr]; subst. cbn [forallb] in Hids. apply andb_true_iff in Hids as [Hic Hir].
      cbn in Hgo. fold go in Hgo. destruct (find_name (fname c) (fch o)) as [oc|] eqn:Eo.
      + destruct (fintersect c oc false) as [x| |] eqn:Ex; try discriminate.
        * destruct (go rr) as [l'| |] eqn:El; try discriminate. inversion Hgo; subst l.
          destruct (IHr l' Hr Hir eq_refl) as [I1 I2]. split.
          -- apply sf_keep; [apply (Hc oc false x Ex Hic) | exact I1].
          -- intros y [<- | Hy]; [exists c, oc; split; [left; reflexivity | auto]|].
             destruct (I2 y Hy) as [c2 [oc2 [H1 H2]]]. exists c2, oc2. split; [right; exact H1 | exact H2].
        * destruct (IHr l Hr Hir Hgo) as [I1 I2]. split; [apply sf_skip; exact I1|].
          intros y Hy. destruct (I2 y Hy) as [c2 [oc2 [H1 H2]]]. exists c2, oc2. split; [right; exact H1 | exact H2].
      + destruct (IHr l Hr Hir Hgo) as [I1 I2]. split; [apply sf_skip; exact I1|].
        intros y Hy. destruct (I2 y Hy) as [c2 [oc2 [H1 H2]]]. exists c2, oc2. split; [right; exact H1 | exact H2]. }
  destruct (match a_ty a, fty o with LStruct, LStruct => true | LList _, LList _ => true | _, _ => false end) eqn:Enp.
  - (* struct/struct, list/list *)
    destruct (go ch) as [l| |] eqn:El; try discriminate. inversion H; subst r. clear H.
    destruct (G ch l IH Hidc El) as [G1 G2]. rewrite set_id_pid_same. split; [constructor; exact G1|].
    intros _ Hs Hu. cbn [fch]. destruct (names_unique_f_children _ Hu) as [Hn Hcu]. cbn [fch] in Hn, Hcu.
    (* names of l are a sub-list of the names of ch, hence distinct; look paths up child by child *)
    intros p Hp Hl. destruct p as [|n p']; [contradiction|].
    assert (Hfind : forall x, find_name n l = Some x ->
              exists c oc, In c ch /\ fname c = n /\ find_name n (fch o) = Some oc /\ fintersect c oc false = Ok x).
    { intros x Hx. destruct (find_name_some _ _ _ Hx) as [Hxin Hxn].
      destruct (G2 x Hxin) as [c [oc [Hc [Ho Hf]]]].
      rewrite Forall_forall in IH.
      assert (Hidc' : ids_nonneg c = true) by (eapply forallb_forall in Hidc; eauto).
      destruct (IH c Hc oc false x Hf Hidc') as [Hsub _]. pose proof (subfield_attrs _ _ Hsub) as Ea.
      assert (Hcn : fname c = n) by (unfold fname in *; rewrite <- Ea; exact Hxn).
      exists c, oc. rewrite <- Hcn. auto. }
    destruct p' as [|m q].
    + cbn [lookup] in *. destruct (find_name n l) as [x|] eqn:Ex; [|contradiction].
      destruct (Hfind x eq_refl) as [c [oc [_ [_ [Ho _]]]]]. rewrite Ho. discriminate.
    + rewrite lookup_cons in * by discriminate. destruct (find_name n l) as [x|] eqn:Ex; [|contradiction].
      destruct (Hfind x eq_refl) as [c [oc [Hc [Hcn [Ho Hf]]]]]. rewrite Ho.
      rewrite Forall_forall in IH.
      assert (Hidc' : ids_nonneg c = true) by (eapply forallb_forall in Hidc; eauto).
      destruct (IH c Hc oc false x Hf Hidc') as [_ Hpw].
      apply (Hpw eq_refl (shape_ok_children _ Hs c Hc) (Hcu c Hc) (m :: q)); [discriminate | exact Hl].
  - (* compared as a whole *)
    destruct (negb ign && negb (dt_eqb (Fld a ch) o)) eqn:Ed; [discriminate|]. inversion H; subst r. clear H.
    split; [apply subfield_refl|]. intros -> Hs _. cbn [negb andb] in Ed. apply negb_false_iff in Ed.
    apply (dt_eqb_paths (Fld a ch) o Ed Hs).
Qed.

Theorem intersection_sound (s o r : schema) (ign : bool) :
  intersection s o ign = Ok r ->
  forallb ids_nonneg s = true -> forallb (fun f => plain (fname f)) o = true ->
  Forall (fun x => exists f of, In f s /\ In of o /\ fname f = fname of /\ subfield x f /\
                     (ign = false -> shape_ok f = true -> names_unique_f f = true -> paths_within (fch x) (fch of))) r.
Proof.
  unfold intersection. revert r. induction o as [|of rest IH]; intros r H Hid Hp.
  - cbn in H. inversion H; subst. constructor.
  - cbn [forallb] in Hp. apply andb_true_iff in Hp as [Hpf Hpr].
    cbn [intersection_go] in H. rewrite (sfield_plain s (fname of) Hpf) in H.
    assert (Hweak : forall l, Forall (fun x => exists f of0, In f s /\ In of0 rest /\ fname f = fname of0 /\ subfield x f /\
                      (ign = false -> shape_ok f = true -> names_unique_f f = true -> paths_within (fch x) (fch of0))) l ->
                    Forall (fun x => exists f of0, In f s /\ In of0 (of :: rest) /\ fname f = fname of0 /\ subfield x f /\
                      (ign = false -> shape_ok f = true -> names_unique_f f = true -> paths_within (fch x) (fch of0))) l).
    { intros l Hl. eapply Forall_impl; [|exact Hl]. intros x [f [of0 [H1 [H2 H3]]]]. exists f, of0. split; [exact H1|]. split; [right; exact H2 | exact H3]. }
    destruct (find_name (fname of) s) as [cand|] eqn:Ec.
    + destruct (fintersect cand of ign) as [x| |] eqn:Ex; try discriminate.
      destruct (intersection_go s rest ign) as [l| |] eqn:El; try discriminate. inversion H; subst r.
      destruct (find_name_some _ _ _ Ec) as [Hin Hn].
      assert (Hidc : ids_nonneg cand = true) by (eapply forallb_forall in Hid; eauto).
      destruct (fintersect_sound cand of ign x Ex Hidc) as [S1 S2].
      constructor; [exists cand, of; split; [exact Hin|]; split; [left; reflexivity|]; auto|].
      apply Hweak. apply IH; [reflexivity | exact Hid | exact Hpr].
    + apply Hweak. apply IH; [exact H | exact Hid | exact Hpr].
Qed.
