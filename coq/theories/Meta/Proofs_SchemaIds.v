(* C43: Schema::set_field_id / Schema::try_from(&ArrowSchema): id assignment keeps every attribute
   but the ids, numbers the unassigned fields consecutively in pre-order, and yields a schema that
   survives the stored form. *)
From LanceV Require Import Common.Base Meta.Model_Schema Meta.Proofs_Schema Meta.Proofs_SchemaPb.
Local Open Scope N_scope.

(* ------------------------------------------------------------------ the recursion, list-wise *)

Fixpoint set_children (cs : list field) (pid sd : Z) : list field * Z :=
  match cs with
  | [] => ([], sd)
  | c :: r =>
      let '(c', sd1) := fset_id c pid sd in
      let '(r', sd2) := set_children r pid sd1 in
      (c' :: r', sd2)
  end.

Lemma fset_id_unfold (a : attrs) (ch : list field) (pid seed : Z) :
  fset_id (Fld a ch) pid seed =
  let id' := if (a_id a <? 0)%Z then seed else a_id a in
  let seed1 := if (a_id a <? 0)%Z then (seed + 1)%Z else seed in
  let '(ch', seed2) := set_children ch id' seed1 in
  (Fld (set_id_pid a id' pid) ch', seed2).
Proof.
  cbn [fset_id]. cbv zeta.
  set (id' := if (a_id a <? 0)%Z then seed else a_id a).
  set (seed1 := if (a_id a <? 0)%Z then (seed + 1)%Z else seed).
  assert (E : forall cs sd,
            (fix go (cs : list field) (sd : Z) : list field * Z :=
               match cs with
               | [] => ([], sd)
               | c :: r => let '(c', sd1) := fset_id c id' sd in let '(r', sd2) := go r sd1 in (c' :: r', sd2)
               end) cs sd = set_children cs id' sd).
  { induction cs as [|c r IH]; intros sd; [reflexivity|]. cbn [set_children].
    destruct (fset_id c id' sd) as [c' sd1]. rewrite IH. reflexivity. }
  rewrite E. reflexivity.
Qed.

Lemma set_ids_go_children (fs : list field) (seed : Z) : set_ids_go fs seed = set_children fs (-1) seed.
Proof.
  revert seed. induction fs as [|f r IH]; intros seed; [reflexivity|]. cbn [set_ids_go set_children].
  destruct (fset_id f (-1) seed) as [f' s1]. rewrite IH. reflexivity.
Qed.

(* ------------------------------------------------------------------ what is kept *)

(* everything but the two ids *)
Fixpoint strip (f : field) : field :=
  match f with Fld a ch => Fld (set_id_pid a 0 0) (map strip ch) end.

Lemma fset_id_strip (f : field) : forall pid seed, strip (fst (fset_id f pid seed)) = strip f.
Proof.
  induction f as [a ch IH] using field_ind'. intros pid seed. rewrite fset_id_unfold. cbv zeta.
  set (id' := if (a_id a <? 0)%Z then seed else a_id a).
  set (seed1 := if (a_id a <? 0)%Z then (seed + 1)%Z else seed).
  assert (G : forall sd, map strip (fst (set_children ch id' sd)) = map strip ch).
  { induction ch as [|c r IHr]; intros sd; [reflexivity|]. inversion IH as [|? ? Hc Hr]; subst.
    cbn [set_children]. pose proof (Hc id' sd) as Hc'. destruct (fset_id c id' sd) as [c' sd1]. cbn [fst] in Hc'.
    pose proof (IHr Hr sd1) as Hr'. destruct (set_children r id' sd1) as [r' sd2]. cbn [fst] in *.
    cbn [map]. rewrite Hc', Hr'. reflexivity. }
  pose proof (G seed1) as G'. destruct (set_children ch id' seed1) as [ch' seed2]. cbn [fst] in *.
  cbn [strip]. rewrite G'. reflexivity.
Qed.

Lemma set_children_strip (cs : list field) (pid sd : Z) : map strip (fst (set_children cs pid sd)) = map strip cs.
Proof.
  revert sd. induction cs as [|c r IH]; intros sd; [reflexivity|]. cbn [set_children].
  pose proof (fset_id_strip c pid sd) as Hc. destruct (fset_id c pid sd) as [c' sd1]. cbn [fst] in Hc.
  pose proof (IH sd1) as Hr. destruct (set_children r pid sd1) as [r' sd2]. cbn [fst] in *.
  cbn [map]. rewrite Hc, Hr. reflexivity.
Qed.

(* parent ids are consistent afterwards *)
Lemma fset_id_pids (f : field) : forall pid seed,
  a_pid (fa (fst (fset_id f pid seed))) = pid /\ pids_ok (fst (fset_id f pid seed)) = true.
Proof.
  induction f as [a ch IH] using field_ind'. intros pid seed. rewrite fset_id_unfold. cbv zeta.
  set (id' := if (a_id a <? 0)%Z then seed else a_id a).
  set (seed1 := if (a_id a <? 0)%Z then (seed + 1)%Z else seed).
  assert (G : forall sd, forallb (fun c => Z.eqb (a_pid (fa c)) id' && pids_ok c) (fst (set_children ch id' sd)) = true).
  { induction ch as [|c r IHr]; intros sd; [reflexivity|]. inversion IH as [|? ? Hc Hr]; subst.
    cbn [set_children]. pose proof (Hc id' sd) as [Hc1 Hc2]. destruct (fset_id c id' sd) as [c' sd1]. cbn [fst] in *.
    pose proof (IHr Hr sd1) as Hr'. destruct (set_children r id' sd1) as [r' sd2]. cbn [fst] in *.
    cbn [forallb]. rewrite Hc1, Z.eqb_refl, Hc2, Hr'. reflexivity. }
  pose proof (G seed1) as G'. destruct (set_children ch id' seed1) as [ch' seed2]. cbn [fst] in *.
  split; [reflexivity|]. cbn [pids_ok]. unfold set_id_pid at 1. cbn [a_id]. exact G'.
Qed.

Lemma canon_strip (f g : field) : strip f = strip g -> canon_f f = canon_f g.
Proof.
  revert g. induction f as [a ch IH] using field_ind'. intros [b ch'] H. cbn [strip] in H. inversion H as [[H1 H2 H3 H4 H5 H6 H7]].
  cbn [canon_f]. unfold attrs_canon. rewrite H5, H4. f_equal.
  clear -IH H7. revert ch' H7. induction ch as [|c r IHr]; intros [|c' r'] H; try discriminate; [reflexivity|].
  inversion IH; subst. cbn [map] in H. inversion H. cbn [forallb]. f_equal; [auto | apply IHr; auto].
Qed.

(* ------------------------------------------------------------------ the ids, exactly *)

(* unassigned (negative) ids are numbered consecutively from the seed, the others kept *)
Fixpoint assign (l : list Z) (seed : Z) : list Z * Z :=
  match l with
  | [] => ([], seed)
  | x :: r =>
      if (x <? 0)%Z then let '(r', s') := assign r (seed + 1)%Z in (seed :: r', s')
      else let '(r', s') := assign r seed in (x :: r', s')
  end.

Lemma assign_app (l1 l2 : list Z) (seed : Z) :
  assign (l1 ++ l2) seed =
  let '(r1, s1) := assign l1 seed in let '(r2, s2) := assign l2 s1 in (r1 ++ r2, s2).
Proof.
  revert seed. induction l1 as [|x r IH]; intros seed; cbn [app assign].
  - destruct (assign l2 seed). reflexivity.
  - destruct (x <? 0)%Z.
    + rewrite IH. destruct (assign r (seed + 1)%Z) as [r1 s1]. destruct (assign l2 s1). reflexivity.
    + rewrite IH. destruct (assign r seed) as [r1 s1]. destruct (assign l2 s1). reflexivity.
Qed.

Lemma fset_id_ids (f : field) : forall pid seed,
  (fids (fst (fset_id f pid seed)), snd (fset_id f pid seed)) = assign (fids f) seed.
Proof.
  induction f as [a ch IH] using field_ind'. intros pid seed. rewrite fset_id_unfold. cbv zeta.
  set (id' := if (a_id a <? 0)%Z then seed else a_id a).
  set (seed1 := if (a_id a <? 0)%Z then (seed + 1)%Z else seed).
  assert (G : forall p sd, (field_ids (fst (set_children ch p sd)), snd (set_children ch p sd)) = assign (field_ids ch) sd).
  { induction ch as [|c r IHr]; intros p sd; [reflexivity|]. inversion IH as [|? ? Hc Hr]; subst.
    cbn [set_children]. pose proof (Hc p sd) as Hc'. destruct (fset_id c p sd) as [c' sd1]. cbn [fst snd] in Hc'.
    pose proof (IHr Hr p sd1) as Hr'. destruct (set_children r p sd1) as [r' sd2]. cbn [fst snd] in *.
    rewrite !field_ids_cons, assign_app, <- Hc', <- Hr'. reflexivity. }
  pose proof (G id' seed1) as G'. destruct (set_children ch id' seed1) as [ch' seed2]. cbn [fst snd] in *.
  rewrite !fids_unfold. cbn [assign]. unfold set_id_pid at 1. cbn [a_id].
  subst id' seed1. destruct (a_id a <? 0)%Z; rewrite <- G'; reflexivity.
Qed.

Lemma set_children_ids (cs : list field) (p sd : Z) :
  (field_ids (fst (set_children cs p sd)), snd (set_children cs p sd)) = assign (field_ids cs) sd.
Proof.
  revert sd. induction cs as [|c r IH]; intros sd; [reflexivity|].
  cbn [set_children]. pose proof (fset_id_ids c p sd) as Hc. destruct (fset_id c p sd) as [c' sd1]. cbn [fst snd] in Hc.
  pose proof (IH sd1) as Hr. destruct (set_children r p sd1) as [r' sd2]. cbn [fst snd] in *.
  rewrite !field_ids_cons, assign_app, <- Hc, <- Hr. reflexivity.
Qed.

(* properties of the numbering *)
Lemma assign_spec (l : list Z) : forall seed,
  let '(r, s') := assign l seed in
  length r = length l /\ (seed <= s')%Z /\
  (forall i d, (i < length l)%nat ->
     (nth i l d >= 0 -> nth i r d = nth i l d)%Z /\ (nth i l d < 0 -> seed <= nth i r d < s')%Z).
Proof.
  induction l as [|x r IH]; intros seed; cbn [assign].
  - split; [reflexivity|]. split; [lia|]. intros i d Hi. cbn in Hi. lia.
  - destruct (x <? 0)%Z eqn:E.
    + apply Z.ltb_lt in E. specialize (IH (seed + 1)%Z). destruct (assign r (seed + 1)%Z) as [r' s'].
      destruct IH as [H1 [H2 H3]]. split; [cbn; lia|]. split; [lia|].
      intros [|i] d Hi; cbn [nth].
      * split; lia.
      * cbn in Hi. specialize (H3 i d ltac:(lia)). destruct H3 as [H3 H4]. split; [exact H3|]. intros Hn. specialize (H4 Hn). lia.
    + apply Z.ltb_ge in E. specialize (IH seed). destruct (assign r seed) as [r' s'].
      destruct IH as [H1 [H2 H3]]. split; [cbn; lia|]. split; [lia|].
      intros [|i] d Hi; cbn [nth].
      * split; lia.
      * cbn in Hi. apply H3. lia.
Qed.

Lemma assign_nonneg (l : list Z) (seed : Z) : (0 <= seed)%Z -> Forall (fun x => 0 <= x)%Z (fst (assign l seed)).
Proof.
  revert seed. induction l as [|x r IH]; intros seed Hs; cbn [assign]; [constructor|].
  destruct (x <? 0)%Z eqn:E.
  - specialize (IH (seed + 1)%Z ltac:(lia)). destruct (assign r (seed + 1)%Z). cbn [fst] in *. constructor; [lia | exact IH].
  - apply Z.ltb_ge in E. specialize (IH seed Hs). destruct (assign r seed). cbn [fst] in *. constructor; [lia | exact IH].
Qed.

Lemma assign_in (l : list Z) : forall seed y,
  In y (fst (assign l seed)) -> (In y l /\ 0 <= y)%Z \/ (seed <= y < snd (assign l seed))%Z.
Proof.
  induction l as [|x r IH]; intros seed y; cbn [assign]; [intros []|].
  destruct (x <? 0)%Z eqn:E.
  - pose proof (assign_spec r (seed + 1)%Z) as Hs. specialize (IH (seed + 1)%Z y).
    destruct (assign r (seed + 1)%Z) as [r' s']. cbn [fst snd] in *. destruct Hs as [_ [Hs _]].
    intros [<- | Hin]; [right; lia|]. destruct (IH Hin) as [[H1 H2] | H]; [left; split; [right; exact H1 | exact H2] | right; lia].
  - apply Z.ltb_ge in E. specialize (IH seed y). destruct (assign r seed) as [r' s']. cbn [fst snd] in *.
    intros [<- | Hin]; [left; split; [left; reflexivity | lia]|].
    destruct (IH Hin) as [[H1 H2] | H]; [left; split; [right; exact H1 | exact H2] | right; exact H].
Qed.

(* the assigned ids are pairwise distinct provided the ids already present are, and lie below the seed *)
Lemma assign_nodup (l : list Z) : forall seed,
  NoDup (filter (fun x => 0 <=? x)%Z l) -> Forall (fun x => x < seed)%Z l ->
  NoDup (fst (assign l seed)).
Proof.
  induction l as [|x r IH]; intros seed Hnd Hlt; cbn [assign]; [constructor|].
  inversion Hlt as [|? ? Hx Hr]; subst. cbn [filter] in Hnd.
  destruct (x <? 0)%Z eqn:E.
  - apply Z.ltb_lt in E. assert (E2 : (0 <=? x)%Z = false) by (apply Z.leb_gt; exact E). rewrite E2 in Hnd.
    pose proof (assign_in r (seed + 1)%Z seed) as Hin. pose proof (IH (seed + 1)%Z Hnd) as IH'.
    destruct (assign r (seed + 1)%Z) as [r' s']. cbn [fst snd] in *.
    constructor.
    + intros H. destruct (Hin H) as [[H1 _] | H1]; [|lia].
      rewrite Forall_forall in Hr. specialize (Hr _ H1). lia.
    + apply IH'. eapply Forall_impl; [|exact Hr]. cbv beta. intros; lia.
  - apply Z.ltb_ge in E. assert (E2 : (0 <=? x)%Z = true) by (apply Z.leb_le; exact E). rewrite E2 in Hnd.
    apply NoDup_cons_iff in Hnd as [Hx' Hnd'].
    pose proof (assign_in r seed x) as Hin. pose proof (IH seed Hnd' Hr) as IH'.
    destruct (assign r seed) as [r' s']. cbn [fst snd] in *.
    constructor; [|exact IH'].
    intros H. destruct (Hin H) as [[H1 H2] | H1]; [|lia].
    apply Hx'. apply filter_In. split; [exact H1 | apply Z.leb_le; exact H2].
Qed.

Lemma assign_all_negative (l : list Z) : forall seed,
  Forall (fun x => x < 0)%Z l ->
  fst (assign l seed) = map (fun k => seed + Z.of_nat k)%Z (seq 0 (length l)).
Proof.
  induction l as [|x r IH]; intros seed H; [reflexivity|]. inversion H as [|? ? Hx Hr]; subst.
  cbn [assign]. assert (E : (x <? 0)%Z = true) by (apply Z.ltb_lt; exact Hx). rewrite E.
  specialize (IH (seed + 1)%Z Hr). destruct (assign r (seed + 1)%Z) as [r' s']. cbn [fst] in *.
  cbn [length seq map]. f_equal; [lia|]. rewrite IH, <- seq_shift, map_map. apply map_ext. intros k. lia.
Qed.

(* ------------------------------------------------------------------ Schema::set_field_id *)

Lemma fmax_id_ge (f : field) : forall x, In x (fids f) -> (x <= fmax_id f)%Z.
Proof.
  induction f as [a ch IH] using field_ind'. intros x Hx. rewrite fids_unfold in Hx. cbn [fmax_id].
  destruct Hx as [<- | Hx]; [lia|].
  assert (G : (x <= fold_right (fun c m => Z.max (fmax_id c) m) (-1) ch)%Z).
  { induction ch as [|c r IHr]; [destruct Hx|]. inversion IH as [|? ? Hc Hr]; subst.
    rewrite field_ids_cons, in_app_iff in Hx. cbn [fold_right]. destruct Hx as [Hx | Hx].
    - specialize (Hc x Hx). lia.
    - specialize (IHr Hr Hx). lia. }
  lia.
Qed.

Lemma max_field_id_ge (s : schema) (m : Z) : max_field_id s = Some m -> forall x, In x (field_ids s) -> (x <= m)%Z.
Proof.
  destruct s as [|f r]; [discriminate|]. cbn [max_field_id]. intros H x Hx. inversion H; subst m. clear H.
  rewrite field_ids_cons, in_app_iff in Hx.
  assert (G : forall base, (base <= fold_right (fun c m => Z.max (fmax_id c) m) base r)%Z /\
              (In x (field_ids r) -> x <= fold_right (fun c m => Z.max (fmax_id c) m) base r)%Z).
  { intros base. clear Hx. induction r as [|c r' IHr]; [split; [cbn; lia | intros []]|].
    cbn [fold_right]. destruct IHr as [H1 H2]. split; [lia|]. rewrite field_ids_cons, in_app_iff.
    intros [Hc | Hr]; [pose proof (fmax_id_ge c x Hc); lia | specialize (H2 Hr); lia]. }
  destruct (G (fmax_id f)) as [H1 H2]. destruct Hx as [Hx | Hx]; [pose proof (fmax_id_ge f x Hx); lia | apply H2; exact Hx].
Qed.

Definition seed_of (s : schema) (mx : option Z) : Z :=
  (Z.max (match max_field_id s with Some m => m | None => -1 end) (match mx with Some m => m | None => -1 end) + 1)%Z.

Lemma fold_max_lb (base : Z) (l : list field) : (base <= fold_right (fun c m => Z.max (fmax_id c) m) base l)%Z.
Proof. induction l as [|c r IH]; cbn [fold_right]; lia. Qed.

Lemma fmax_id_lb (f : field) : (-1 <= fmax_id f)%Z.
Proof. destruct f as [a ch]. cbn [fmax_id]. pose proof (fold_max_lb (-1) ch). lia. Qed.

Lemma seed_of_gt (s : schema) (mx : option Z) : (0 <= seed_of s mx)%Z /\ Forall (fun x => x < seed_of s mx)%Z (field_ids s).
Proof.
  unfold seed_of. split.
  { destruct s as [|f r]; cbn [max_field_id]; [lia|].
    pose proof (fold_max_lb (fmax_id f) r). pose proof (fmax_id_lb f). lia. }
  apply Forall_forall. intros x Hx.
  destruct (max_field_id s) as [m|] eqn:E.
  - pose proof (max_field_id_ge s m E x Hx). lia.
  - destruct s; [destruct Hx | discriminate].
Qed.

Theorem set_field_id_spec (s : schema) (mx : option Z) :
  let s' := set_field_id s mx in
  map strip s' = map strip s /\
  field_ids s' = fst (assign (field_ids s) (seed_of s mx)) /\
  forallb (fun f => Z.eqb (a_pid (fa f)) (-1) && pids_ok f) s' = true.
Proof.
  cbv zeta. unfold set_field_id. fold (seed_of s mx). rewrite set_ids_go_children.
  split; [apply set_children_strip|]. split.
  - pose proof (set_children_ids s (-1) (seed_of s mx)) as H.
    destruct (set_children s (-1) (seed_of s mx)) as [s' sd]. cbn [fst snd] in *.
    rewrite <- H. reflexivity.
  - generalize (seed_of s mx). induction s as [|f r IH]; intros sd; [reflexivity|].
    cbn [set_children]. pose proof (fset_id_pids f (-1) sd) as [H1 H2].
    destruct (fset_id f (-1) sd) as [f' sd1]. cbn [fst] in *.
    specialize (IH sd1). destruct (set_children r (-1) sd1) as [r' sd2]. cbn [fst] in *.
    cbn [forallb]. rewrite H1, H2, IH. reflexivity.
Qed.

(* after set_field_id every id is assigned; they are distinct when the pre-assigned ones were *)
Theorem set_field_id_ids (s : schema) (mx : option Z) :
  Forall (fun x => 0 <= x)%Z (field_ids (set_field_id s mx)) /\
  (NoDup (filter (fun x => 0 <=? x)%Z (field_ids s)) -> NoDup (field_ids (set_field_id s mx))).
Proof.
  destruct (set_field_id_spec s mx) as [_ [H _]]. rewrite H.
  destruct (seed_of_gt s mx) as [H1 H2]. split.
  - apply assign_nonneg. exact H1.
  - intros Hnd. apply assign_nodup; assumption.
Qed.

(* ------------------------------------------------------------------ Schema::try_from(&ArrowSchema) *)

Lemma validate_ok (s : schema) : validate s = Ok tt ->
  existsb (fun f => has_char DOT (fname f)) s = false /\
  existsb (fun i => (i <? 0)%Z) (field_ids s) = false /\
  nodup_by Z.eqb (field_ids s) = true.
Proof.
  unfold validate. destruct (existsb (fun f => has_char DOT (fname f)) s); [discriminate|].
  destruct (existsb _ (map _ s)); [discriminate|].
  destruct (negb (nodup_by (option_eqb str_eqb) _)); [discriminate|].
  destruct (existsb (fun i => (i <? 0)%Z) (field_ids s)); [discriminate|].
  destruct (nodup_by Z.eqb (field_ids s)); [|discriminate]. intros _. auto.
Qed.

Lemma forallb_canon_strip (a s : list field) :
  map strip s = map strip a -> forallb canon_f a = true -> forallb canon_f s = true.
Proof.
  revert a. induction s as [|f r IH]; intros [|g r'] H Hc; try discriminate; [reflexivity|].
  cbn [map] in H. inversion H as [[Hf Hr]]. cbn [forallb] in *. apply andb_true_iff in Hc as [Hc1 Hc2].
  rewrite (canon_strip f g Hf). rewrite Hc1. apply (IH r' Hr Hc2).
Qed.

Theorem of_arrow_spec (arrow s : schema) :
  of_arrow arrow = Ok s ->
  map strip s = map strip arrow /\
  field_ids s = fst (assign (field_ids arrow) (seed_of arrow None)) /\
  NoDup (field_ids s) /\ Forall (fun x => 0 <= x)%Z (field_ids s) /\
  (forallb canon_f arrow = true -> wf_schema s = true).
Proof.
  unfold of_arrow. destruct (validate (set_field_id arrow None)) as [[]| |] eqn:Ev; try discriminate.
  intros H. inversion H; subst s. clear H.
  destruct (set_field_id_spec arrow None) as [H1 [H2 H3]]. cbv zeta in *.
  destruct (validate_ok _ Ev) as [_ [Hneg Hnd]].
  split; [exact H1|]. split; [exact H2|]. split; [apply nodup_by_Z; exact Hnd|].
  split; [apply (set_field_id_ids arrow None)|].
  intros Hc. unfold wf_schema. rewrite Hnd.
  assert (Hm1 : zmem (-1) (field_ids (set_field_id arrow None)) = false).
  { apply zmem_false. intros Hin. destruct (set_field_id_ids arrow None) as [Hnn _].
    rewrite Forall_forall in Hnn. specialize (Hnn _ Hin). lia. }
  rewrite Hm1. cbn [negb]. rewrite !andb_true_r.
  pose proof (forallb_canon_strip arrow _ H1 Hc) as Hcs.
  apply forallb_forall. intros f Hf.
  eapply forallb_forall in H3; [|exact Hf]. eapply forallb_forall in Hcs; [|exact Hf].
  rewrite H3, Hcs. reflexivity.
Qed.

(* a fresh Arrow schema (no ids at all) is numbered 0, 1, 2, ... in pre-order *)
Theorem of_arrow_fresh_ids (arrow s : schema) :
  Forall (fun x => x < 0)%Z (field_ids arrow) -> of_arrow arrow = Ok s ->
  field_ids s = map Z.of_nat (seq 0 (length (field_ids arrow))).
Proof.
  intros Hneg H. destruct (of_arrow_spec arrow s H) as [_ [H2 _]]. rewrite H2.
  assert (E : seed_of arrow None = 0%Z).
  { unfold seed_of. destruct (max_field_id arrow) as [m|] eqn:Em; [|reflexivity].
    destruct arrow as [|f r]; [discriminate|]. cbn [max_field_id] in Em. inversion Em; subst m. clear Em.
    assert (G : forall g, Forall (fun x => x < 0)%Z (fids g) -> fmax_id g = (-1)%Z).
    { induction g as [a ch IH] using field_ind'. rewrite fids_unfold. intros Hg. inversion Hg as [|? ? Ha Hch]; subst.
      cbn [fmax_id].
      assert (X : fold_right (fun c m => Z.max (fmax_id c) m) (-1)%Z ch = (-1)%Z).
      { clear Hg. induction ch as [|c r' IHr]; [reflexivity|]. inversion IH as [|? ? Hc Hr]; subst.
        rewrite field_ids_cons in Hch. apply Forall_app in Hch as [Hc1 Hc2].
        cbn [fold_right]. rewrite (Hc Hc1), (IHr Hr Hc2). reflexivity. }
      rewrite X. lia. }
    rewrite field_ids_cons in Hneg. apply Forall_app in Hneg as [Hf Hr].
    rewrite (G f Hf).
    assert (X : forall l, Forall (fun x => x < 0)%Z (field_ids l) ->
                fold_right (fun c m => Z.max (fmax_id c) m) (-1)%Z l = (-1)%Z).
    { induction l as [|c r' IHr]; intros Hl; [reflexivity|]. rewrite field_ids_cons in Hl. apply Forall_app in Hl as [Hc1 Hc2].
      cbn [fold_right]. rewrite (G c Hc1), (IHr Hc2). reflexivity. }
    rewrite (X r Hr). reflexivity. }
  rewrite E, assign_all_negative by exact Hneg. apply map_ext. intros k. lia.
Qed.
