(* C43: Schema::merge is the union of the two schemas on name paths. *)
From LanceV Require Import Common.Base Meta.Model_Schema Meta.Proofs_Schema Meta.Proofs_SchemaTree Meta.Proofs_SchemaNames
  Meta.Proofs_SchemaMerge.
Local Open Scope N_scope.

(* ------------------------------------------------------------------ reset_id changes ids only *)

Definition reset_attrs (a : attrs) : attrs := set_id_pid a (-1) (a_pid a).

Lemma freset_fa (f : field) : fa (freset_id f) = reset_attrs (fa f).
Proof. destruct f; reflexivity. Qed.
Lemma freset_name (f : field) : fname (freset_id f) = fname f.
Proof. destruct f; reflexivity. Qed.
Lemma freset_fch (f : field) : fch (freset_id f) = map freset_id (fch f).
Proof. destruct f; reflexivity. Qed.

Lemma map_fname_reset (l : list field) : map fname (map freset_id l) = map fname l.
Proof. rewrite map_map. apply map_ext. apply freset_name. Qed.

Lemma find_name_reset (n : str) (l : list field) : find_name n (map freset_id l) = option_map freset_id (find_name n l).
Proof.
  unfold find_name. induction l as [|x r IH]; [reflexivity|]. cbn [map find]. rewrite freset_name.
  destruct (str_eqb (fname x) n); [reflexivity | exact IH].
Qed.

Lemma lookup_reset (l : list field) (p : list str) : lookup (map freset_id l) p = option_map freset_id (lookup l p).
Proof.
  revert l. induction p as [|n rest IH]; intros l; [reflexivity|].
  destruct rest as [|m q].
  - cbn [lookup]. apply find_name_reset.
  - rewrite !lookup_cons by discriminate. rewrite find_name_reset. destruct (find_name n l) as [f|]; [|reflexivity].
    cbn [option_map]. rewrite freset_fch. apply IH.
Qed.

Lemma lookup_a_reset (l : list field) (p : list str) : lookup_a (map freset_id l) p = option_map reset_attrs (lookup_a l p).
Proof. unfold lookup_a. rewrite lookup_reset. destruct (lookup l p); [cbn; rewrite freset_fa|]; reflexivity. Qed.

Lemma names_unique_reset (f : field) : names_unique_f (freset_id f) = names_unique_f f.
Proof.
  induction f as [a ch IH] using field_ind'. cbn [freset_id names_unique_f]. rewrite map_fname_reset. f_equal.
  induction ch as [|c r IHr]; [reflexivity|]. inversion IH; subst. cbn [map forallb]. f_equal; [assumption | apply IHr; assumption].
Qed.

(* ------------------------------------------------------------------ the two top-level loops *)

Lemma merge_new_go_find (ofs : list field) : forall merged n,
  find_name n (merge_new_go ofs merged) = orelse (find_name n merged) (find_name n ofs).
Proof.
  induction ofs as [|o r IH]; intros merged n; cbn [merge_new_go].
  - destruct (find_name n merged); reflexivity.
  - assert (Hfo : find_name n (o :: r) = if str_eqb (fname o) n then Some o else find_name n r) by reflexivity.
    destruct (existsb (fun f => str_eqb (fname f) (fname o)) merged) eqn:E.
    + rewrite IH, Hfo. destruct (find_name n merged) as [x|] eqn:Em; [reflexivity|]. cbn [orelse].
      destruct (str_eqb (fname o) n) eqn:En; [|reflexivity]. exfalso. apply str_eqb_eq in En. subst n.
      apply existsb_exists in E as [y [Hy Ey]]. apply find_name_none in Em. apply Em. apply str_eqb_eq in Ey. rewrite <- Ey.
      apply in_map. exact Hy.
    + rewrite IH, find_name_app, Hfo. destruct (find_name n merged) as [x|]; [reflexivity|]. cbn [orelse].
      unfold find_name at 1. cbn [find]. destruct (str_eqb (fname o) n); [reflexivity|]. reflexivity.
Qed.

Lemma merge_new_go_names (ofs : list field) : forall merged,
  nodup_by str_eqb (map fname merged) = true -> nodup_by str_eqb (map fname (merge_new_go ofs merged)) = true.
Proof.
  induction ofs as [|o r IH]; intros merged H; cbn [merge_new_go]; [exact H|].
  destruct (existsb (fun f => str_eqb (fname f) (fname o)) merged) eqn:E; [apply IH; exact H|].
  apply IH. apply nodup_names_app_single; [exact H|]. apply find_name_none. intros Hin.
  apply in_map_iff in Hin as [y [Hy Hin]].
  assert (X : existsb (fun f => str_eqb (fname f) (fname o)) merged = true).
  { apply existsb_exists. exists y. split; [exact Hin | apply str_eqb_eq; exact Hy]. }
  congruence.
Qed.

Lemma merge_new_go_in (ofs : list field) : forall merged x,
  In x (merge_new_go ofs merged) -> In x merged \/ In x ofs.
Proof.
  induction ofs as [|o r IH]; intros merged x H; cbn [merge_new_go] in H; [left; exact H|].
  destruct (existsb (fun f => str_eqb (fname f) (fname o)) merged).
  - destruct (IH _ _ H) as [H1 | H1]; [left; exact H1 | right; right; exact H1].
  - destruct (IH _ _ H) as [H1 | H1]; [|right; right; exact H1].
    apply in_app_or in H1 as [H1 | [<- | []]]; [left; exact H1 | right; left; reflexivity].
Qed.

Lemma merge_self_go_spec (s : list field) (o' : schema) : forall m,
  merge_self_go s o' = Ok m ->
  forallb (fun f => plain (fname f)) s = true ->
  map fname m = map fname s /\
  Forall2 (fun f x => match find_name (fname f) o' with
                      | Some of => fmerge of f = Ok x
                      | None => x = f
                      end) s m.
Proof.
  induction s as [|f r IH]; intros m H Hp.
  - cbn in H. inversion H; subst. split; [reflexivity | constructor].
  - cbn [forallb] in Hp. apply andb_true_iff in Hp as [Hpf Hpr].
    cbn [merge_self_go] in H. rewrite (sfield_plain o' (fname f) Hpf) in H.
    destruct (find_name (fname f) o') as [of|] eqn:Eo.
    + destruct (fmerge of f) as [f'| |] eqn:Em; try discriminate.
      destruct (merge_self_go r o') as [l| |] eqn:Er; try discriminate. inversion H; subst m.
      destruct (IH l eq_refl Hpr) as [I1 I2]. split.
      * cbn [map]. rewrite I1. f_equal. unfold fname. rewrite (fmerge_attrs _ _ _ Em). reflexivity.
      * constructor; [rewrite Eo; exact Em | exact I2].
    + destruct (merge_self_go r o') as [l| |] eqn:Er; try discriminate. inversion H; subst m.
      destruct (IH l eq_refl Hpr) as [I1 I2]. split; [cbn [map]; rewrite I1; reflexivity|].
      constructor; [rewrite Eo; reflexivity | exact I2].
Qed.

Lemma Forall2_find (R : field -> field -> Prop) (s m : list field) :
  Forall2 R s m -> (forall f x, R f x -> fname x = fname f) ->
  forall n, match find_name n s with
            | Some f => exists x, find_name n m = Some x /\ R f x
            | None => find_name n m = None
            end.
Proof.
  intros H Hn n. induction H as [|f x s' m' Hfx Hrest IH]; [reflexivity|].
  unfold find_name in *. cbn [find]. rewrite (Hn f x Hfx).
  destruct (str_eqb (fname f) n); [exists x; auto | exact IH].
Qed.

Lemma Forall2_in_right (R : field -> field -> Prop) (s m : list field) (x : field) :
  Forall2 R s m -> In x m -> exists f, In f s /\ R f x.
Proof.
  intros H. induction H as [|f y s' m' Hfy Hrest IH]; intros Hx; [destruct Hx|].
  destruct Hx as [<- | Hx]; [exists f; split; [left; reflexivity | exact Hfy]|].
  destruct (IH Hx) as [f0 [H1 H2]]. exists f0. split; [right; exact H1 | exact H2].
Qed.

(* ------------------------------------------------------------------ Schema::merge *)

Definition agree_schema (s o : schema) : bool :=
  forallb (fun f => match find_name (fname f) o with Some of => agree f of | None => true end) s.

Theorem merge_union (s o r : schema) :
  merge s o = Ok r ->
  forallb (fun f => plain (fname f)) s = true ->
  names_unique s = true -> names_unique o = true ->
  agree_schema s (map freset_id o) = true ->
  names_unique r = true /\
  forall p, p <> [] -> lookup_a r p = orelse (lookup_a s p) (option_map reset_attrs (lookup_a o p)).
Proof.
  unfold merge. set (o' := map freset_id o). intros H Hp Hus Huo Hag.
  destruct (merge_self_go s o') as [m| |] eqn:Em; try discriminate. inversion H; subst r. clear H.
  destruct (merge_self_go_spec s o' m Em Hp) as [Hnames HF2].
  unfold names_unique in Hus, Huo. apply andb_true_iff in Hus as [Hus1 Hus2]. apply andb_true_iff in Huo as [Huo1 Huo2].
  assert (Huo1' : nodup_by str_eqb (map fname o') = true) by (unfold o'; rewrite map_fname_reset; exact Huo1).
  assert (Huo2' : forall x, In x o' -> names_unique_f x = true).
  { intros x Hx. unfold o' in Hx. apply in_map_iff in Hx as [y [<- Hy]]. rewrite names_unique_reset.
    eapply forallb_forall in Huo2; eauto. }
  assert (Hname : forall f x, match find_name (fname f) o' with Some of => fmerge of f = Ok x | None => x = f end -> fname x = fname f).
  { intros f x Hfx. destruct (find_name (fname f) o'); [unfold fname; rewrite (fmerge_attrs _ _ _ Hfx); reflexivity | subst; reflexivity]. }
  (* per top-level field of s *)
  assert (Hper : forall f x, In f s ->
            match find_name (fname f) o' with Some of => fmerge of f = Ok x | None => x = f end ->
            fa x = fa f /\ names_unique_f x = true /\
            forall p, p <> [] -> lookup_a (fch x) p =
               orelse (lookup_a (fch f) p) (match find_name (fname f) o' with Some of => lookup_a (fch of) p | None => None end)).
  { intros f x Hf Hfx. assert (Huf : names_unique_f f = true) by (eapply forallb_forall in Hus2; eauto).
    destruct (find_name (fname f) o') as [of|] eqn:Eo.
    - destruct (find_name_some _ _ _ Eo) as [Hof _].
      assert (Ha : agree f of = true).
      { unfold agree_schema in Hag. eapply forallb_forall in Hag; [|exact Hf]. rewrite Eo in Hag. exact Hag. }
      destruct (fmerge_union of f x Hfx (Huo2' of Hof) Huf Ha) as [H1 H2].
      split; [apply (fmerge_attrs _ _ _ Hfx)|]. split; assumption.
    - subst x. split; [reflexivity|]. split; [exact Huf|]. intros p _. rewrite orelse_none_r. reflexivity. }
  split.
  - unfold names_unique. rewrite merge_new_go_names by (rewrite Hnames; exact Hus1). cbn [andb].
    apply forallb_forall. intros x Hx. apply merge_new_go_in in Hx as [Hx | Hx]; [|apply Huo2'; exact Hx].
    destruct (Forall2_in_right _ s m x HF2 Hx) as [f [Hf Hfx]]. apply (Hper f x Hf Hfx).
  - intros p Hpne. destruct p as [|n rest]; [contradiction|]. unfold lookup_a.
    pose proof (Forall2_find _ s m HF2 Hname n) as Hfm.
    assert (Hfo : find_name n o' = option_map freset_id (find_name n o)) by apply find_name_reset.
    destruct rest as [|q1 q].
    + cbn [lookup]. rewrite merge_new_go_find.
      destruct (find_name n s) as [f|] eqn:Es.
      * destruct Hfm as [x [Hx1 Hx2]]. rewrite Hx1. cbn.
        destruct (find_name_some _ _ _ Es) as [Hf _]. rewrite (proj1 (Hper f x Hf Hx2)). reflexivity.
      * rewrite Hfm. cbn [orelse option_map]. rewrite Hfo. destruct (find_name n o) as [y|]; [cbn; rewrite freset_fa|]; reflexivity.
    + rewrite !lookup_cons by discriminate. rewrite merge_new_go_find.
      destruct (find_name n s) as [f|] eqn:Es.
      * destruct Hfm as [x [Hx1 Hx2]]. rewrite Hx1. cbn [orelse].
        destruct (find_name_some _ _ _ Es) as [Hf Hfn]. destruct (Hper f x Hf Hx2) as [_ [_ Hpaths]].
        specialize (Hpaths (q1 :: q) ltac:(discriminate)). unfold lookup_a in Hpaths. rewrite Hpaths. rewrite Hfn.
        destruct (option_map fa (lookup (fch f) (q1 :: q))) as [a|]; [reflexivity|]. cbn [orelse].
        rewrite Hfo. destruct (find_name n o) as [y|]; [|reflexivity]. cbn [option_map].
        rewrite freset_fch. rewrite lookup_reset. destruct (lookup (fch y) (q1 :: q)); [cbn; rewrite freset_fa|]; reflexivity.
      * rewrite Hfm. cbn [orelse option_map]. rewrite Hfo. destruct (find_name n o) as [y|]; [|reflexivity]. cbn [option_map].
        rewrite freset_fch, lookup_reset. destruct (lookup (fch y) (q1 :: q)); [cbn; rewrite freset_fa|]; reflexivity.
Qed.
