(* Model of rust/lance-table/src/feature_flags.rs and rust/lance-encoding/src/version.rs.
   Executable definitions only. *)
From LanceV Require Import Common.Base.
Local Open Scope N_scope.

(* ---- feature flags ---- *)
Definition FLAG_DELETION_FILES : N := 1.
Definition FLAG_STABLE_ROW_IDS : N := 2.
Definition FLAG_USE_V2_FORMAT_DEPRECATED : N := 4.
Definition FLAG_TABLE_CONFIG : N := 8.
Definition FLAG_BASE_PATHS : N := 16.
Definition FLAG_DISABLE_TRANSACTION_FILE : N := 32.
Definition FLAG_UNKNOWN : N := 64.

Definition can_read_dataset (reader_flags : N) : bool := reader_flags <? FLAG_UNKNOWN.
Definition can_write_dataset (writer_flags : N) : bool := writer_flags <? FLAG_UNKNOWN.
Definition has_deprecated_v2_feature_flag (w : N) : bool := negb (N.land w FLAG_USE_V2_FORMAT_DEPRECATED =? 0).

(* What apply_feature_flags looks at: per fragment (has deletion file, has row id meta),
   config non-empty, base paths non-empty, and its two boolean parameters. *)
Record flag_input := {
  fi_frags : list (bool * bool);   (* (deletion_file.is_some(), row_id_meta.is_some()) *)
  fi_config_nonempty : bool;
  fi_base_paths_nonempty : bool;
  fi_enable_stable_row_id : bool;
  fi_disable_transaction_file : bool }.

Definition or_if (b : bool) (w f : N) : N := if b then N.lor w f else w.

(* Returns (reader_flags, writer_flags) or Err ("All fragments must have row ids"). *)
Definition apply_feature_flags (i : flag_input) : outcome (N * N) :=
  let has_del := existsb fst (fi_frags i) in
  let r := or_if has_del 0 FLAG_DELETION_FILES in
  let w := or_if has_del 0 FLAG_DELETION_FILES in
  let has_row_ids := existsb snd (fi_frags i) in
  if (has_row_ids || fi_enable_stable_row_id i) && negb (forallb snd (fi_frags i)) then Err
  else
    let stable := has_row_ids || fi_enable_stable_row_id i in
    let r := or_if stable r FLAG_STABLE_ROW_IDS in
    let w := or_if stable w FLAG_STABLE_ROW_IDS in
    let w := or_if (fi_config_nonempty i) w FLAG_TABLE_CONFIG in
    let r := or_if (fi_base_paths_nonempty i) r FLAG_BASE_PATHS in
    let w := or_if (fi_base_paths_nonempty i) w FLAG_BASE_PATHS in
    let w := or_if (fi_disable_transaction_file i) w FLAG_DISABLE_TRANSACTION_FILE in
    Ok (r, w).

(* ---- storage versions ---- *)
Inductive fver := Legacy | V2_0 | Stable | V2_1 | Next | V2_2.
Definition all_fver : list fver := [Legacy; V2_0; Stable; V2_1; Next; V2_2].

Definition fver_eqb (a b : fver) : bool :=
  match a, b with
  | Legacy, Legacy | V2_0, V2_0 | Stable, Stable | V2_1, V2_1 | Next, Next | V2_2, V2_2 => true
  | _, _ => false
  end.

Definition fver_rank (v : fver) : N :=
  match v with Legacy => 0 | V2_0 => 1 | Stable => 2 | V2_1 => 3 | Next => 4 | V2_2 => 5 end.

Definition resolve (v : fver) : fver :=
  match v with Stable => V2_0 | Next => V2_1 | _ => v end.

Definition is_unstable (v : fver) : bool := fver_rank Next <=? fver_rank v.

Definition try_from_major_minor (major minor : N) : option fver :=
  match major, minor with
  | 0, 0 => Some Legacy
  | 0, 1 => Some Legacy
  | 0, 2 => Some Legacy
  | 0, 3 => Some V2_0
  | 2, 0 => Some V2_0
  | 2, 1 => Some V2_1
  | 2, 2 => Some V2_2
  | _, _ => None
  end.

Definition to_numbers (v : fver) : N * N :=
  match resolve v with
  | Legacy => (0, 2)
  | V2_0 => (2, 0)
  | V2_1 => (2, 1)
  | V2_2 => (2, 2)
  | Stable => (2, 0)   (* unreachable: resolve never returns Stable/Next *)
  | Next => (2, 1)
  end.

(* Version strings are modelled as a finite token type: the harness maps each concrete string
   (after Rust's to_lowercase) to a token; every other string is [S_other]. *)
Inductive vstr := S_0_1 | S_2_0 | S_2_1 | S_2_2 | S_stable | S_legacy | S_next | S_0_3 | S_other.
Definition all_vstr := [S_0_1; S_2_0; S_2_1; S_2_2; S_stable; S_legacy; S_next; S_0_3; S_other].

Definition display (v : fver) : vstr :=
  match v with
  | Legacy => S_0_1 | V2_0 => S_2_0 | V2_1 => S_2_1 | V2_2 => S_2_2 | Stable => S_stable | Next => S_next
  end.

Definition from_str (s : vstr) : option fver :=
  match s with
  | S_0_1 => Some Legacy | S_2_0 => Some V2_0 | S_2_1 => Some V2_1 | S_2_2 => Some V2_2
  | S_stable => Some Stable | S_legacy => Some Legacy | S_next => Some Next | S_0_3 => Some V2_0
  | S_other => None
  end.

(* ---- correspondence case checkers (impl output is the second argument) ---- *)
Definition c37_flags_case (w : N) (out : bool * bool * bool) : bool :=
  let '(r, wr, dep) := out in
  Bool.eqb (can_read_dataset w) r && Bool.eqb (can_write_dataset w) wr
  && Bool.eqb (has_deprecated_v2_feature_flag w) dep.

Definition nn_eqb (a b : N * N) : bool := (fst a =? fst b) && (snd a =? snd b).

Definition c37_apply_case (i : list (bool * bool) * (bool * bool * bool * bool)) (out : outcome (N * N)) : bool :=
  let '(frags, (cfg, bp, en, dis)) := i in
  outcome_eqb nn_eqb
    (apply_feature_flags {| fi_frags := frags; fi_config_nonempty := cfg; fi_base_paths_nonempty := bp;
                            fi_enable_stable_row_id := en; fi_disable_transaction_file := dis |}) out.

Definition fver_of_N (n : N) : fver :=
  match n with 0 => Legacy | 1 => V2_0 | 2 => Stable | 3 => V2_1 | 4 => Next | _ => V2_2 end.
Definition vstr_of_N (n : N) : vstr :=
  match n with 0 => S_0_1 | 1 => S_2_0 | 2 => S_2_1 | 3 => S_2_2 | 4 => S_stable | 5 => S_legacy
             | 6 => S_next | 7 => S_0_3 | _ => S_other end.
Definition vstr_to_N (s : vstr) : N :=
  match s with S_0_1 => 0 | S_2_0 => 1 | S_2_1 => 2 | S_2_2 => 3 | S_stable => 4 | S_legacy => 5
             | S_next => 6 | S_0_3 => 7 | S_other => 8 end.

(* per version: (resolve rank, is_unstable, to_numbers, display token) *)
Definition c37_ver_case (v : N) (out : N * bool * (N * N) * N) : bool :=
  let '(rr, un, nums, disp) := out in
  let fv := fver_of_N v in
  (fver_rank (resolve fv) =? rr) && Bool.eqb (is_unstable fv) un && nn_eqb (to_numbers fv) nums
  && (vstr_to_N (display fv) =? disp).

(* from_str on a token -> Some rank | None *)
Definition c37_str_case (s : N) (out : option N) : bool :=
  option_eqb N.eqb (option_map fver_rank (from_str (vstr_of_N s))) out.

(* try_from_major_minor -> Some rank | None *)
Definition c37_mm_case (mm : N * N) (out : option N) : bool :=
  option_eqb N.eqb (option_map fver_rank (try_from_major_minor (fst mm) (snd mm))) out.
