From LanceV Require Import Common.Base Meta.Model_Flags.
Local Open Scope N_scope.

(* can_read w  <->  no bit at position >= 6 is set  <->  w land (2^64-64) = 0 for w < 2^64. *)
Lemma lt64_iff_high_bits_zero (w : N) : w < 64 <-> N.shiftr w 6 = 0.
Proof.
  rewrite N.shiftr_div_pow2. change (2 ^ 6) with 64. split; intro H.
  - apply N.div_small; exact H.
  - apply N.div_small_iff in H; [exact H | discriminate].
Qed.

Lemma can_read_iff_no_unknown_bit (w : N) :
  can_read_dataset w = true <-> (forall k, 6 <= k -> N.testbit w k = false).
Proof.
  unfold can_read_dataset, FLAG_UNKNOWN. rewrite N.ltb_lt, lt64_iff_high_bits_zero. split.
  - intros H k Hk. replace k with ((k - 6) + 6) by lia. rewrite <- N.shiftr_spec by lia.
    rewrite H. apply N.bits_0.
  - intros H. apply N.bits_inj_0. intro n. rewrite N.shiftr_spec by lia. apply H. lia.
Qed.

Lemma can_write_iff_no_unknown_bit (w : N) :
  can_write_dataset w = true <-> (forall k, 6 <= k -> N.testbit w k = false).
Proof. exact (can_read_iff_no_unknown_bit w). Qed.

Lemma can_read_iff_mask (w : N) : w < two64 ->
  (can_read_dataset w = true <-> N.land w (two64 - 64) = 0).
Proof.
  intro Hw. rewrite can_read_iff_no_unknown_bit. split.
  - intro H. apply N.bits_inj_0. intro k. rewrite N.land_spec.
    destruct (N.lt_ge_cases k 6) as [Hk|Hk].
    + replace (N.testbit (two64 - 64) k) with false; [apply andb_false_r|].
      assert (Hk' : k = 0 \/ k = 1 \/ k = 2 \/ k = 3 \/ k = 4 \/ k = 5) by lia.
      destruct Hk' as [->|[->|[->|[->|[->| ->]]]]]; reflexivity.
    + rewrite H by exact Hk. reflexivity.
  - intros H k Hk. destruct (N.lt_ge_cases k 64) as [Hk64|Hk64].
    + assert (Hb : N.testbit (two64 - 64) k = true).
      { change (two64 - 64) with (N.shiftl (N.ones 58) 6).
        rewrite N.shiftl_spec_high' by exact Hk. apply N.ones_spec_low. lia. }
      pose proof (f_equal (fun x => N.testbit x k) H) as Hbit. cbv beta in Hbit.
      rewrite N.land_spec, Hb, andb_true_r, N.bits_0 in Hbit. exact Hbit.
    + destruct (N.eq_dec w 0) as [->|Hw0]; [apply N.bits_0|].
      apply N.bits_above_log2. apply N.lt_le_trans with 64; [|exact Hk64].
      apply N.log2_lt_pow2; [lia|]. exact Hw.
Qed.

(* Flags written by apply_feature_flags: bit-level characterisation. *)
Definition stable_flag (i : flag_input) : bool := existsb snd (fi_frags i) || fi_enable_stable_row_id i.

Definition b2n (b : bool) (f : N) : N := if b then f else 0.

Lemma apply_flags_ok (i : flag_input) r w :
  apply_feature_flags i = Ok (r, w) ->
  r = b2n (existsb fst (fi_frags i)) 1 + b2n (stable_flag i) 2 + b2n (fi_base_paths_nonempty i) 16 /\
  w = b2n (existsb fst (fi_frags i)) 1 + b2n (stable_flag i) 2 + b2n (fi_config_nonempty i) 8
      + b2n (fi_base_paths_nonempty i) 16 + b2n (fi_disable_transaction_file i) 32 /\
  (stable_flag i = true -> forallb snd (fi_frags i) = true).
Proof.
  unfold apply_feature_flags, stable_flag.
  destruct (existsb fst (fi_frags i)), (existsb snd (fi_frags i)), (fi_enable_stable_row_id i),
    (forallb snd (fi_frags i)), (fi_config_nonempty i), (fi_base_paths_nonempty i),
    (fi_disable_transaction_file i); cbn; intro H; inversion H; subst; repeat split; try reflexivity;
    intro; try reflexivity; discriminate.
Qed.

Lemma apply_flags_err_iff (i : flag_input) :
  apply_feature_flags i = Err <-> (stable_flag i = true /\ forallb snd (fi_frags i) = false).
Proof.
  unfold apply_feature_flags, stable_flag.
  destruct (existsb snd (fi_frags i) || fi_enable_stable_row_id i), (forallb snd (fi_frags i)); cbn;
    split; intro H; try discriminate; try (destruct H; discriminate); try (split; reflexivity); reflexivity.
Qed.

Lemma apply_flags_never_panics i : apply_feature_flags i <> Panic.
Proof.
  unfold apply_feature_flags.
  destruct ((existsb snd (fi_frags i) || fi_enable_stable_row_id i) && negb (forallb snd (fi_frags i))); discriminate.
Qed.

Lemma apply_flags_readable (i : flag_input) r w :
  apply_feature_flags i = Ok (r, w) -> can_read_dataset r = true /\ can_write_dataset w = true.
Proof.
  intro H. apply apply_flags_ok in H as (-> & -> & _).
  destruct (existsb fst (fi_frags i)), (stable_flag i), (fi_config_nonempty i), (fi_base_paths_nonempty i),
    (fi_disable_transaction_file i); split; reflexivity.
Qed.

(* Versions: finite. *)
Lemma from_str_display (v : fver) : from_str (display v) = Some v.
Proof. destruct v; reflexivity. Qed.

Lemma numbers_roundtrip (v : fver) :
  try_from_major_minor (fst (to_numbers v)) (snd (to_numbers v)) = Some (resolve v).
Proof. destruct v; reflexivity. Qed.

Lemma resolve_idempotent v : resolve (resolve v) = resolve v.
Proof. destruct v; reflexivity. Qed.

Lemma resolve_concrete v : resolve v <> Stable /\ resolve v <> Next.
Proof. destruct v; split; discriminate. Qed.

Lemma aliases :
  resolve Stable = V2_0 /\ resolve Next = V2_1 /\ from_str S_0_3 = Some V2_0 /\
  from_str S_legacy = Some Legacy /\ from_str S_0_1 = Some Legacy.
Proof. repeat split. Qed.

Lemma from_str_some_iff s : from_str s = None <-> s = S_other.
Proof. destruct s; split; intro H; try discriminate; reflexivity. Qed.
